(* C14 proofs, part 8: observational equality after a reload.
   Running any valid operation sequence on buddy_from_bytes (buddy_to_vec a) gives the same return values
   and the same serialised bytes as running it on a (the two in-memory states differ: the reloaded one
   has lost the capacity words of every bitmap level). *)
From Coq Require Import List NArith Bool Lia.
From RV Require Import Base.Bytes Base.BytesP Gen.Consts Alloc.Bitmap Alloc.BitmapP Alloc.TreeP Alloc.Buddy Alloc.BuddyP
  Alloc.ResizeP Alloc.LowestP Alloc.SerialP Alloc.OpsP.
Import ListNotations.
Open Scope N_scope.

(* ---------------------------------------------------------------- running a program *)

Inductive ret := RIdx (r : option N) | ROrd (o : N) | RBool (b : bool) | RUnit.

Definition apply_op (a : Buddy) (o : op) : ret * Buddy :=
  match o with
  | OAlloc k => let '(r, a') := buddy_alloc a k in (RIdx r, a')
  | OAllocLowest k => let '(r, a') := buddy_alloc_lowest a k in (RIdx r, a')
  | OFree i k => let '(o', a') := buddy_free a i k in (ROrd o', a')
  | ORecord i k => let '(b, a') := buddy_record_alloc a i k in (RBool b, a')
  | OResize n => (RUnit, buddy_resize a n)
  | OReload => (RUnit, buddy_from_bytes (buddy_to_vec a))
  end.

Fixpoint run (a : Buddy) (os : list op) : list ret * Buddy :=
  match os with
  | [] => ([], a)
  | o :: r => let '(x, a') := apply_op a o in let '(xs, a'') := run a' r in (x :: xs, a'')
  end.

Lemma apply_op_eta a o :
  apply_op a o =
  match o with
  | OAlloc k => (RIdx (fst (buddy_alloc a k)), snd (buddy_alloc a k))
  | OAllocLowest k => (RIdx (fst (buddy_alloc_lowest a k)), snd (buddy_alloc_lowest a k))
  | OFree i k => (ROrd (fst (buddy_free a i k)), snd (buddy_free a i k))
  | ORecord i k => (RBool (fst (buddy_record_alloc a i k)), snd (buddy_record_alloc a i k))
  | OResize n => (RUnit, buddy_resize a n)
  | OReload => (RUnit, buddy_from_bytes (buddy_to_vec a))
  end.
Proof.
  destruct o as [k|k|i k|i k|n|]; cbn [apply_op]; try reflexivity.
  - destruct (buddy_alloc a k); reflexivity.
  - destruct (buddy_alloc_lowest a k); reflexivity.
  - destruct (buddy_free a i k); reflexivity.
  - destruct (buddy_record_alloc a i k); reflexivity.
Qed.

Lemma run_cons a o r :
  run a (o :: r) = (fst (apply_op a o) :: fst (run (snd (apply_op a o)) r), snd (run (snd (apply_op a o)) r)).
Proof.
  cbn [run]. destruct (apply_op a o) as [x a']. cbn [fst snd]. destruct (run a' r); reflexivity.
Qed.

Lemma step_apply a live o s' : step (a, live) o s' -> snd (apply_op a o) = fst s'.
Proof.
  intros St. rewrite apply_op_eta.
  inversion St; subst; cbn [fst snd]; try reflexivity;
    match goal with E : _ = (_, _) |- _ => rewrite E; reflexivity end.
Qed.

Lemma steps_run os : forall a live s', steps (a, live) os s' -> snd (run a os) = fst s'.
Proof.
  induction os as [|o r IH]; intros a live s' St; inversion St; subst; [reflexivity|].
  rewrite run_cons. cbn [snd].
  match goal with H : step _ _ ?s1 |- _ => destruct s1 as [a1 live1]; rewrite (step_apply _ _ _ _ H) end.
  cbn [fst]. eapply IH; eauto.
Qed.

(* ---------------------------------------------------------------- the equivalence *)

Definition heights (a : Buddy) : list nat := map (@length U64) (bfree a).

Definition eqv (a b : Buddy) : Prop :=
  BInv a /\ BInv b /\ blen a = blen b /\ bmax a = bmax b /\ (forall k i, fr a k i = fr b k i)
  /\ heights a = heights b.

(* ---------------------------------------------------------------- (1) equivalent states serialise alike *)

Lemma trim_ext u u' :
  lvl_ok u -> lvl_ok u' -> ulen u = ulen u' -> (forall i, u_get u i = u_get u' i) -> trim u = trim u'.
Proof.
  intros [Hw Hp] [Hw' Hp'] Hl Hg.
  pose proof (trim_bits_len u Hw) as E1. pose proof (trim_bits_len u' Hw') as E2.
  unfold trim in *. cbn [ubits] in E1, E2. rewrite <- Hl in *. f_equal.
  apply (list_ext _ _ true); [congruence|].
  intros i Hi. rewrite E1 in Hi. rewrite !lget_nfirstn by exact Hi. apply (Hg i).
Qed.

Lemma bool_iff_eq (x y : bool) : (x = true <-> y = true) -> x = y.
Proof. destruct x, y; intros [H1 H2]; try reflexivity; [symmetry; auto|auto]. Qed.

Lemma tree_trim_ext t : forall t',
  tree_ok t -> tree_ok t' -> length t = length t' ->
  bt_len t = bt_len t' -> (forall i, bt_get t i = bt_get t' i) ->
  map trim t = map trim t' /\ ulen (hd dflt t) = ulen (hd dflt t')
  /\ (forall i, u_get (hd dflt t) i = u_get (hd dflt t') i).
Proof.
  induction t as [|p rest IH]; intros t' Hok Hok' Hlen Hl Hg; [simpl in Hok; tauto|].
  destruct t' as [|p' rest']; [simpl in Hok'; tauto|].
  destruct rest as [|c r], rest' as [|c' r']; try (simpl in Hlen; discriminate).
  - destruct Hok as [Hp _], Hok' as [Hp' _]. cbn [map hd].
    unfold bt_len in Hl. unfold bt_get in Hg. cbn [bt_leaf last] in Hl, Hg.
    split; [f_equal; now apply trim_ext|]. split; assumption.
  - destruct Hok as [Hp [Hlc [Hrel Hok]]], Hok' as [Hp' [Hlc' [Hrel' Hok']]].
    destruct (IH (c' :: r') Hok Hok' ltac:(simpl in Hlen |- *; lia) Hl Hg) as (I1 & I2 & I3).
    cbn [hd] in I2, I3.
    assert (ulen p = ulen p') as Hpl by congruence.
    assert (forall j, u_get p j = u_get p' j) as Hpg.
    { intros j. apply bool_iff_eq. rewrite Hrel, Hrel'. apply word_full_ext. intros k. apply I3. }
    change (map trim (p :: c :: r)) with (trim p :: map trim (c :: r)).
    change (map trim (p' :: c' :: r')) with (trim p' :: map trim (c' :: r')).
    rewrite I1. cbn [hd]. split; [f_equal; now apply trim_ext|]. split; assumption.
Qed.

Lemma length_ord a k : length (ord a k) = nth (N.to_nat k) (heights a) O.
Proof.
  unfold ord, heights. rewrite lget_nth.
  change O with (length (@nil U64)) at 1. now rewrite map_nth.
Qed.

Lemma bt_get_of_fr a b k i : fr a k i = fr b k i -> bt_get (ord a k) i = bt_get (ord b k) i.
Proof. unfold fr. destruct (bt_get (ord a k) i), (bt_get (ord b k) i); simpl; congruence. Qed.

Lemma eqv_norm a b : eqv a b -> norm a = norm b.
Proof.
  intros (([Hn Hs] & _) & ([Hn' Hs'] & _) & Hbl & Hmax & Hfr & Hh).
  unfold norm. rewrite Hbl, Hmax. f_equal.
  apply (list_ext _ _ empty_bt).
  - rewrite !nlen_map. unfold Btree in *. lia.
  - intros k Hk. rewrite nlen_map in Hk.
    assert (k <= bmax a) as Hka by (unfold Btree in *; lia).
    transitivity (map trim (ord a k));
      [apply (lget_map (map trim) (bfree a) k empty_bt empty_bt); exact Hk|].
    transitivity (map trim (ord b k));
      [|symmetry; apply (lget_map (map trim) (bfree b) k empty_bt empty_bt); unfold Btree in *; lia].
    destruct (Hs k Hka) as [[Hok _] Hl]. destruct (Hs' k ltac:(lia)) as [[Hok' _] Hl'].
    apply (tree_trim_ext _ _ Hok Hok').
    + now rewrite !length_ord, Hh.
    + now rewrite Hl, Hl', Hbl.
    + intros i. apply bt_get_of_fr. apply Hfr.
Qed.

Lemma eqv_to_vec a b : eqv a b -> buddy_to_vec a = buddy_to_vec b.
Proof.
  intros H. rewrite <- (buddy_to_vec_norm a), <- (buddy_to_vec_norm b). f_equal. now apply eqv_norm.
Qed.

(* ---------------------------------------------------------------- (2) tree heights never change *)

Lemma bt_set_length t : forall i, length (bt_set t i) = length t.
Proof.
  unfold bt_set. induction t as [|p rest IH]; intros i; [reflexivity|].
  destruct rest as [|c r].
  - cbn [bt_set_aux]. destruct (u_set p i). reflexivity.
  - rewrite bt_set_aux_cons. specialize (IH i).
    destruct (bt_set_aux (c :: r) i) as [[rest' full] ci]. cbn [fst] in IH.
    cbv zeta. destruct full; [destruct (u_set p (ci / 64))|]; cbn [fst length] in *; lia.
Qed.

Lemma bt_clear_length t : forall i, length (bt_clear t i) = length t.
Proof.
  unfold bt_clear. induction t as [|p rest IH]; intros i; [reflexivity|].
  destruct rest as [|c r]; [reflexivity|].
  rewrite bt_clear_aux_cons. specialize (IH i).
  destruct (bt_clear_aux (c :: r) i) as [rest' ci]. cbv zeta. cbn [fst length] in *. lia.
Qed.

Lemma bt_resize_length t : forall n f, length (bt_resize t n f) = length t.
Proof.
  unfold bt_resize. induction t as [|p rest IH]; intros n f; [reflexivity|].
  cbn [bt_resize_aux]. specialize (IH n f).
  destruct (bt_resize_aux rest n f) as [rest' nl]. cbn [fst length] in *. lia.
Qed.

(* what no operation except resize changes *)
Definition hm (a : Buddy) : list nat * N * N := (heights a, bmax a, blen a).

Lemma map_length_lset (l : list Btree) : forall k t,
  length t = length (lget l k empty_bt) -> map (@length U64) (lset l k t) = map (@length U64) l.
Proof.
  induction l as [|x r IH]; intros k t H; [reflexivity|]. cbn [lset lget] in *.
  destruct (k =? 0); cbn [map]; [now rewrite H|]. f_equal. now apply IH.
Qed.

Lemma hm_with_ord a k t : length t = length (ord a k) -> hm (with_ord a k t) = hm a.
Proof.
  intros H. unfold hm, heights, with_ord. cbn [bfree bmax blen]. now rewrite map_length_lset.
Qed.

Lemma hm_set a k i : hm (set_at a k i) = hm a.
Proof. apply hm_with_ord. apply bt_set_length. Qed.

Lemma hm_clear a k i : hm (clear_at a k i) = hm a.
Proof. apply hm_with_ord. apply bt_clear_length. Qed.

Lemma hm_bmax a b : hm a = hm b -> bmax a = bmax b.
Proof. unfold hm. congruence. Qed.
Lemma hm_blen a b : hm a = hm b -> blen a = blen b.
Proof. unfold hm. congruence. Qed.
Lemma hm_heights a b : hm a = hm b -> heights a = heights b.
Proof. unfold hm. congruence. Qed.

Lemma hm_alloc_inner f : forall a k, hm (snd (alloc_inner f a k)) = hm a.
Proof.
  induction f as [|f IH]; intros a k; cbn [alloc_inner]; [reflexivity|].
  destruct (bmax a <? k); [reflexivity|].
  unfold bt_alloc. destruct (bt_find_first_unset (ord a k)).
  - cbn [snd]. apply hm_set.
  - specialize (IH a (k + 1)). destruct (alloc_inner f a (k + 1)) as [[u|] a1]; cbn [snd] in *.
    + rewrite <- IH. apply hm_clear.
    + exact IH.
Qed.

Lemma hm_free_inner f : forall a i k, hm (snd (free_inner f a i k)) = hm a.
Proof.
  induction f as [|f IH]; intros a i k; cbn [free_inner]; [reflexivity|].
  destruct (k =? bmax a); [apply hm_clear|].
  destruct ((bt_len (ord a k) <=? buddy_page i) || bt_get (ord a k) (buddy_page i)); [apply hm_clear|].
  rewrite IH. apply hm_set.
Qed.

Lemma hm_record_inner f : forall a i k, hm (snd (record_alloc_inner f a i k)) = hm a.
Proof.
  induction f as [|f IH]; intros a i k; cbn [record_alloc_inner]; [reflexivity|].
  destruct (bmax a <? k); [reflexivity|].
  destruct (bt_len (ord a k) <=? i); [reflexivity|].
  destruct (bt_get (ord a k) i); [|apply hm_set].
  specialize (IH a (next_higher_order i) (k + 1)).
  destruct (record_alloc_inner f a (next_higher_order i) (k + 1)) as [[|] a1]; cbn [snd] in *; [|reflexivity].
  rewrite <- IH. apply hm_clear.
Qed.

Lemma hm_lowest_scan orders : forall mult a best bat,
  hm (fst (fst (lowest_scan orders mult a best bat))) = hm a.
Proof.
  induction orders as [|j rest IH]; intros mult a best bat; cbn [lowest_scan]; [reflexivity|].
  pose proof (hm_alloc_inner (order_fuel a) a j) as H1.
  destruct (alloc_inner (order_fuel a) a j) as [[idx|] a1]; cbn [snd] in H1.
  - destruct (idx * mult <? bat); rewrite IH, hm_free_inner; exact H1.
  - rewrite IH. exact H1.
Qed.

Lemma hm_split_down f : forall a best k, hm (fst (split_down f a best k)) = hm a.
Proof.
  induction f as [|f IH]; intros a best k; cbn [split_down]; [reflexivity|].
  destruct (k <? snd best); [|reflexivity]. rewrite IH. apply hm_clear.
Qed.

Lemma hm_alloc_lowest a k : hm (snd (buddy_alloc_lowest a k)) = hm a.
Proof.
  unfold buddy_alloc_lowest. pose proof (hm_alloc_inner (order_fuel a) a k) as H1.
  destruct (alloc_inner (order_fuel a) a k) as [[idx|] a1]; cbn [snd] in H1; [|exact H1].
  pose proof (hm_lowest_scan (orders_up (N.to_nat (bmax a - k)) (k + 1)) 2 a1 (idx, k) idx) as H2.
  destruct (lowest_scan _ 2 a1 (idx, k) idx) as [[a2 best] bat]. cbn [fst] in H2.
  pose proof (hm_split_down (order_fuel a) a2 best k) as H3.
  destruct (split_down (order_fuel a) a2 best k) as [a3 best']. cbn [fst snd] in *. congruence.
Qed.

(* a loop invariant without a measure *)
Lemma while_fuel_inv {S : Type} (P : S -> Prop) cond body :
  (forall s, P s -> P (body s)) -> forall fuel s, P s -> P (while_fuel fuel cond body s).
Proof.
  intros Hb. induction fuel as [|f IH]; intros s Hp; cbn [while_fuel]; [exact Hp|].
  destruct (cond s); [apply IH; now apply Hb|exact Hp].
Qed.

Lemma fold_left_inv {S X : Type} (P : S -> Prop) (f : S -> X -> S) :
  (forall s x, P s -> P (f s x)) -> forall l s, P s -> P (fold_left f l s).
Proof.
  intros Hf. induction l as [|x r IH]; intros s Hp; cbn [fold_left]; [exact Hp|]. apply IH. now apply Hf.
Qed.

Lemma map_length_resize_bitmaps l : forall n,
  map (@length U64) (resize_bitmaps l n) = map (@length U64) l.
Proof.
  induction l as [|t r IH]; intros n; cbn [resize_bitmaps map]; [reflexivity|].
  now rewrite bt_resize_length, IH.
Qed.

Lemma heights_resize a n : heights (buddy_resize a n) = heights a /\ bmax (buddy_resize a n) = bmax a.
Proof.
  unfold buddy_resize, buddy_resize_ok.
  set (H := (heights a, bmax a)).
  set (hb := fun x : Buddy => (heights x, bmax x)).
  destruct (blen a <? n).
  - set (a0 := mkBuddy (resize_bitmaps (bfree a) n) (blen a) (bmax a)).
    assert (hb a0 = H) as H0.
    { unfold hb, H, heights, a0. cbn [bfree bmax]. now rewrite map_length_resize_bitmaps. }
    pose proof (while_fuel_inv (fun s : Buddy * N * bool => hb (fst (fst s)) = H)
                  (fun s => negb (snd s) && (snd (fst s) <? n)) (grow_align_step n)) as W1.
    specialize (W1 ltac:(
      intros [[x p] st] Hx; cbn [fst] in Hx; unfold grow_align_step;
      destruct ((bmax x <=? tz32 p) || (n <? p + 2 ^ tz32 p)); cbn [fst]; [exact Hx|];
      pose proof (hm_free_inner (order_fuel x) x (p / 2 ^ tz32 p) (tz32 p)) as E;
      unfold hb, H in *; unfold hm in E; congruence) (order_fuel a) (a0, blen a, false) H0).
    destruct (while_fuel (order_fuel a) _ (grow_align_step n) (a0, blen a, false)) as [[a1 pr1] st1].
    cbn [fst] in W1.
    pose proof (fold_left_inv (fun s : Buddy * N => hb (fst s) = H) (grow_fill_order n)) as W2.
    specialize (W2 ltac:(
      intros s o Hs; unfold grow_fill_order; apply (while_fuel_inv (fun s : Buddy * N => hb (fst s) = H));
      [|exact Hs]; intros [x p] Hx; cbn [fst snd] in *;
      pose proof (hm_free_inner (order_fuel x) x (p / 2 ^ o) o) as E;
      unfold hb, H in *; unfold hm in E; congruence)
      (orders_down (S (N.to_nat (bmax a)))) (a1, pr1) W1).
    destruct (fold_left (grow_fill_order n) _ (a1, pr1)) as [a2 pr2]. cbn [fst] in *.
    unfold hb, H, heights in *. cbn [bfree bmax]. split; congruence.
  - pose proof (while_fuel_inv (fun s : Buddy * N * bool * bool => hb (fst (fst (fst s))) = H)
                  (fun s => negb (snd (fst s)) && (snd (fst (fst s)) <? blen a)) shrink_align_step) as W1.
    specialize (W1 ltac:(
      intros [[[x p] st] ok] Hx; cbn [fst] in Hx; unfold shrink_align_step;
      destruct (bmax x <=? tz32 p); cbn [fst]; [exact Hx|];
      destruct (blen x <? p + 2 ^ tz32 p); cbn [fst]; [exact Hx|];
      pose proof (hm_record_inner (order_fuel x) x (p / 2 ^ tz32 p) (tz32 p)) as E;
      destruct (record_alloc_inner (order_fuel x) x (p / 2 ^ tz32 p) (tz32 p)) as [r x']; cbn [fst snd] in *;
      unfold hb, H in *; unfold hm in E; congruence) (order_fuel a) (a, n, false, true) eq_refl).
    destruct (while_fuel (order_fuel a) _ shrink_align_step (a, n, false, true)) as [[[a1 pr1] st1] ok1].
    cbn [fst] in W1.
    pose proof (fold_left_inv (fun s : Buddy * N * bool => hb (fst (fst s)) = H) shrink_fill_order) as W2.
    specialize (W2 ltac:(
      intros s o Hs; unfold shrink_fill_order;
      apply (while_fuel_inv (fun s : Buddy * N * bool => hb (fst (fst s)) = H));
      [|exact Hs]; intros [[x p] ok] Hx; cbn [fst snd] in *;
      pose proof (hm_record_inner (order_fuel x) x (p / 2 ^ o) o) as E;
      destruct (record_alloc_inner (order_fuel x) x (p / 2 ^ o) o) as [r x']; cbn [fst snd] in *;
      unfold hb, H in *; unfold hm in E; congruence)
      (orders_down (S (N.to_nat (bmax a)))) (a1, pr1, ok1) W1).
    destruct (fold_left shrink_fill_order _ (a1, pr1, ok1)) as [[a2 pr2] ok2]. cbn [fst] in *.
    unfold hb, H, heights in *. cbn [bfree bmax]. rewrite map_length_resize_bitmaps. split; congruence.
Qed.

Lemma heights_norm a : heights (norm a) = heights a.
Proof.
  unfold heights, norm. cbn [bfree]. rewrite map_map. apply map_ext. intros t. apply map_length.
Qed.

(* ---------------------------------------------------------------- (3) simulation of the mark-level operations *)

Definition sim (L : N) (a b : Buddy) : Prop :=
  shape L a /\ shape L b /\ bmax a = bmax b /\ blen a = blen b /\ (forall k i, fr a k i = fr b k i).

Lemma sim_get L a b k i : sim L a b -> bt_get (ord a k) i = bt_get (ord b k) i.
Proof. intros (_ & _ & _ & _ & Hfr). apply bt_get_of_fr. apply Hfr. Qed.

Lemma sim_len L a b k : sim L a b -> k <= bmax a -> bt_len (ord a k) = bt_len (ord b k).
Proof.
  intros ([_ Hs] & [_ Hs'] & Hmax & _) Hk.
  destruct (Hs k Hk) as [_ ->]. destruct (Hs' k ltac:(lia)) as [_ ->]. reflexivity.
Qed.

Lemma sim_fuel L a b : sim L a b -> order_fuel a = order_fuel b.
Proof. intros (_ & _ & Hmax & _). unfold order_fuel. now rewrite Hmax. Qed.

Lemma sim_set L a b k i :
  sim L a b -> k <= bmax a -> i < L / 2 ^ k -> sim L (set_at a k i) (set_at b k i).
Proof.
  intros (Hs & Hs' & Hmax & Hbl & Hfr) Hk Hi.
  destruct (set_at_spec L a k i Hs Hk Hi) as (A1 & A2 & A3 & A4).
  destruct (set_at_spec L b k i Hs' ltac:(lia) Hi) as (B1 & B2 & B3 & B4).
  split; [exact A1|]. split; [exact B1|]. split; [congruence|]. split; [congruence|].
  intros k' i'. now rewrite A4, B4, Hfr.
Qed.

Lemma sim_clear L a b k i :
  sim L a b -> k <= bmax a -> i < L / 2 ^ k -> sim L (clear_at a k i) (clear_at b k i).
Proof.
  intros (Hs & Hs' & Hmax & Hbl & Hfr) Hk Hi.
  destruct (clear_at_spec L a k i Hs Hk Hi) as (A1 & A2 & A3 & A4).
  destruct (clear_at_spec L b k i Hs' ltac:(lia) Hi) as (B1 & B2 & B3 & B4).
  split; [exact A1|]. split; [exact B1|]. split; [congruence|]. split; [congruence|].
  intros k' i'. now rewrite A4, B4, Hfr.
Qed.

Lemma find_ext t t' :
  bt_ok t -> bt_ok t' -> (forall i, bt_get t i = bt_get t' i) ->
  bt_find_first_unset t = bt_find_first_unset t'.
Proof.
  intros Hok Hok' Hg. pose proof (bt_find_spec t Hok) as S. pose proof (bt_find_spec t' Hok') as S'.
  destruct (bt_find_first_unset t) as [r|], (bt_find_first_unset t') as [r'|]; try reflexivity.
  - destruct S as [S1 S2], S' as [S1' S2']. f_equal.
    destruct (N.lt_trichotomy r r') as [H|[H|H]]; [|exact H|]; exfalso.
    + specialize (S2' r H). rewrite <- Hg in S2'. congruence.
    + specialize (S2 r' H). rewrite Hg in S2. congruence.
  - destruct S as [S1 _]. rewrite Hg, S' in S1. discriminate.
  - destruct S' as [S1 _]. rewrite <- Hg, S in S1. discriminate.
Qed.

Lemma alloc_inner_sim f : forall L a b k, sim L a b ->
  fst (alloc_inner f a k) = fst (alloc_inner f b k)
  /\ sim L (snd (alloc_inner f a k)) (snd (alloc_inner f b k))
  /\ (forall x, fst (alloc_inner f a k) = Some x -> k <= bmax a /\ x < L / 2 ^ k).
Proof.
  induction f as [|f IH]; intros L a b k Hsim; cbn [alloc_inner].
  - cbn [fst snd]. split; [reflexivity|]. split; [exact Hsim|]. discriminate.
  - pose proof Hsim as ([_ Hs] & [_ Hs'] & Hmax & Hbl & Hfr). rewrite <- Hmax.
    destruct (N.ltb_spec (bmax a) k) as [Hk|Hk].
    + cbn [fst snd]. split; [reflexivity|]. split; [exact Hsim|]. discriminate.
    + destruct (Hs k Hk) as [Hok Hl]. destruct (Hs' k ltac:(lia)) as [Hok' Hl'].
      unfold bt_alloc.
      rewrite <- (find_ext (ord a k) (ord b k) Hok Hok' (fun i => sim_get L a b k i Hsim)).
      pose proof (bt_find_spec (ord a k) Hok) as Sp.
      destruct (bt_find_first_unset (ord a k)) as [e|].
      * assert (e < L / 2 ^ k) as He.
        { rewrite <- Hl. apply bt_get_false_lt; [apply Hok|apply Sp]. }
        cbn [fst snd]. split; [reflexivity|]. split; [now apply sim_set|].
        intros x E. inversion E; subst. split; assumption.
      * destruct (IH L a b (k + 1) Hsim) as (I1 & I2 & I3).
        pose proof (hm_alloc_inner f a (k + 1)) as Hm.
        destruct (alloc_inner f a (k + 1)) as [[u|] a1], (alloc_inner f b (k + 1)) as [[u'|] b1];
          cbn [fst snd] in *; try discriminate.
        -- inversion I1; subst u'. destruct (I3 u eq_refl) as [_ Hu].
           pose proof (div_pow_lt_succ L k u Hu) as Hu2.
           split; [reflexivity|]. split.
           ++ apply (sim_clear L a1 b1 k (u * 2 + 1) I2); [rewrite (hm_bmax _ _ Hm); exact Hk|lia].
           ++ intros x E. inversion E; subst. split; [exact Hk|lia].
        -- split; [reflexivity|]. split; [exact I2|]. discriminate.
Qed.

Lemma free_inner_sim f : forall L a b i k, sim L a b -> k <= bmax a -> i < L / 2 ^ k ->
  fst (free_inner f a i k) = fst (free_inner f b i k)
  /\ sim L (snd (free_inner f a i k)) (snd (free_inner f b i k)).
Proof.
  induction f as [|f IH]; intros L a b i k Hsim Hk Hi; cbn [free_inner].
  - cbn [fst snd]. split; [reflexivity|exact Hsim].
  - pose proof Hsim as (Hs & Hs' & Hmax & Hbl & Hfr). rewrite <- Hmax.
    destruct (N.eqb_spec k (bmax a)) as [Ek|Ek].
    + cbn [fst snd]. split; [reflexivity|]. now apply sim_clear.
    + rewrite <- (sim_len L a b k Hsim Hk), <- (sim_get L a b k (buddy_page i) Hsim).
      destruct ((bt_len (ord a k) <=? buddy_page i) || bt_get (ord a k) (buddy_page i)) eqn:C.
      * cbn [fst snd]. split; [reflexivity|]. now apply sim_clear.
      * assert (fr a k (buddy_page i) = true) as Fb.
        { destruct (fr a k (buddy_page i)) eqn:F; [reflexivity|].
          apply (fr_buddy_test L a k) in F; try assumption. congruence. }
        destruct (fr_lt L a k _ Hs Fb) as [_ Hbl'].
        apply (IH L (set_at a k (buddy_page i)) (set_at b k (buddy_page i))).
        -- now apply sim_set.
        -- cbn [set_at with_ord bmax]. lia.
        -- unfold next_higher_order. now apply div_lt_half.
Qed.

Lemma record_inner_sim f : forall L a b i k, sim L a b ->
  fst (record_alloc_inner f a i k) = fst (record_alloc_inner f b i k)
  /\ sim L (snd (record_alloc_inner f a i k)) (snd (record_alloc_inner f b i k))
  /\ (fst (record_alloc_inner f a i k) = true -> k <= bmax a /\ i < L / 2 ^ k).
Proof.
  induction f as [|f IH]; intros L a b i k Hsim; cbn [record_alloc_inner].
  - cbn [fst snd]. split; [reflexivity|]. split; [exact Hsim|]. discriminate.
  - pose proof Hsim as (Hs & Hs' & Hmax & Hbl & Hfr). rewrite <- Hmax.
    destruct (N.ltb_spec (bmax a) k) as [Hk|Hk].
    + cbn [fst snd]. split; [reflexivity|]. split; [exact Hsim|]. discriminate.
    + rewrite <- (sim_len L a b k Hsim Hk), <- (sim_get L a b k i Hsim).
      destruct Hs as [Hn Hs0]. destruct (Hs0 k Hk) as [Hok Hl].
      destruct (N.leb_spec (bt_len (ord a k)) i) as [Hi|Hi].
      * cbn [fst snd]. split; [reflexivity|]. split; [exact Hsim|]. discriminate.
      * rewrite Hl in Hi. destruct (bt_get (ord a k) i).
        -- destruct (IH L a b (next_higher_order i) (k + 1) Hsim) as (I1 & I2 & I3).
           pose proof (hm_record_inner f a (next_higher_order i) (k + 1)) as Hm.
           destruct (record_alloc_inner f a (next_higher_order i) (k + 1)) as [[|] a1],
                    (record_alloc_inner f b (next_higher_order i) (k + 1)) as [[|] b1];
             cbn [fst snd] in *; try discriminate.
           ++ destruct (I3 eq_refl) as [_ Hu].
              pose proof (div_pow_lt_succ L k _ Hu) as Hu2.
              split; [reflexivity|]. split; [|intros _; split; assumption].
              apply (sim_clear L a1 b1 k _ I2); [rewrite (hm_bmax _ _ Hm); exact Hk|].
              destruct (next_higher_order i * 2 =? i); lia.
           ++ split; [reflexivity|]. split; [exact Hsim|]. discriminate.
        -- cbn [fst snd]. split; [reflexivity|]. split; [now apply sim_set|].
           intros _. split; assumption.
Qed.

Lemma lowest_scan_sim orders : forall L mult a b bi bo bat,
  sim L a b -> bo <= bmax a -> bi < L / 2 ^ bo ->
  exists a' b' bi' bo' bat',
    lowest_scan orders mult a (bi, bo) bat = (a', (bi', bo'), bat')
    /\ lowest_scan orders mult b (bi, bo) bat = (b', (bi', bo'), bat')
    /\ sim L a' b' /\ bmax a' = bmax a /\ bo' <= bmax a /\ bi' < L / 2 ^ bo'.
Proof.
  induction orders as [|j rest IH]; intros L mult a b bi bo bat Hsim Hbo Hbi; cbn [lowest_scan].
  - exists a, b, bi, bo, bat. refine (conj eq_refl (conj eq_refl (conj Hsim (conj eq_refl (conj Hbo Hbi))))).
  - rewrite <- (sim_fuel L a b Hsim).
    destruct (alloc_inner_sim (order_fuel a) L a b j Hsim) as (A1 & A2 & A3).
    pose proof (hm_alloc_inner (order_fuel a) a j) as Hm.
    destruct (alloc_inner (order_fuel a) a j) as [[idx|] a1], (alloc_inner (order_fuel a) b j) as [[idx'|] b1];
      cbn [fst snd] in *; try discriminate.
    + inversion A1; subst idx'. destruct (A3 idx eq_refl) as [Hj Hidx].
      apply hm_bmax in Hm.
      destruct (idx * mult <? bat).
      * destruct (free_inner_sim (order_fuel a) L a1 b1 bi bo A2 ltac:(lia) Hbi) as [_ F2].
        pose proof (hm_free_inner (order_fuel a) a1 bi bo) as Hm2. apply hm_bmax in Hm2.
        destruct (IH L (mult * 2) _ _ idx j (idx * mult) F2 ltac:(lia) Hidx)
          as (a' & b' & bi' & bo' & bat' & E1 & E2 & R1 & R2 & R3 & R4).
        exists a', b', bi', bo', bat'. cbn [fst snd]. rewrite E1, E2.
        refine (conj eq_refl (conj eq_refl (conj R1 (conj _ (conj _ R4))))); lia.
      * destruct (free_inner_sim (order_fuel a) L a1 b1 idx j A2 ltac:(lia) Hidx) as [_ F2].
        pose proof (hm_free_inner (order_fuel a) a1 idx j) as Hm2. apply hm_bmax in Hm2.
        destruct (IH L (mult * 2) _ _ bi bo bat F2 ltac:(lia) Hbi)
          as (a' & b' & bi' & bo' & bat' & E1 & E2 & R1 & R2 & R3 & R4).
        exists a', b', bi', bo', bat'. rewrite E1, E2.
        refine (conj eq_refl (conj eq_refl (conj R1 (conj _ (conj _ R4))))); lia.
    + apply hm_bmax in Hm.
      destruct (IH L (mult * 2) a1 b1 bi bo bat A2 ltac:(lia) Hbi)
        as (a' & b' & bi' & bo' & bat' & E1 & E2 & R1 & R2 & R3 & R4).
      exists a', b', bi', bo', bat'. rewrite E1, E2.
      refine (conj eq_refl (conj eq_refl (conj R1 (conj _ (conj _ R4))))); lia.
Qed.

Lemma split_down_sim f : forall L a b bi bo k,
  sim L a b -> bo <= bmax a -> bi < L / 2 ^ bo ->
  snd (split_down f a (bi, bo) k) = snd (split_down f b (bi, bo) k)
  /\ sim L (fst (split_down f a (bi, bo) k)) (fst (split_down f b (bi, bo) k)).
Proof.
  induction f as [|f IH]; intros L a b bi bo k Hsim Hbo Hbi; cbn [split_down fst snd].
  - split; [reflexivity|exact Hsim].
  - destruct (N.ltb_spec k bo) as [Hlt|Hge]; [|split; [reflexivity|exact Hsim]].
    assert (bo = (bo - 1) + 1) as Ebo by lia. rewrite Ebo in Hbi.
    pose proof (div_pow_lt_succ L (bo - 1) bi Hbi) as H2.
    apply (IH L (clear_at a (bo - 1) (bi * 2 + 1)) (clear_at b (bo - 1) (bi * 2 + 1))).
    + apply sim_clear; [exact Hsim|lia|lia].
    + cbn [clear_at with_ord bmax]. lia.
    + lia.
Qed.

Lemma alloc_lowest_sim L a b k : sim L a b ->
  fst (buddy_alloc_lowest a k) = fst (buddy_alloc_lowest b k)
  /\ sim L (snd (buddy_alloc_lowest a k)) (snd (buddy_alloc_lowest b k)).
Proof.
  intros Hsim. unfold buddy_alloc_lowest.
  pose proof Hsim as (_ & _ & Hmax & _).
  rewrite <- (sim_fuel L a b Hsim), <- Hmax.
  destruct (alloc_inner_sim (order_fuel a) L a b k Hsim) as (A1 & A2 & A3).
  pose proof (hm_alloc_inner (order_fuel a) a k) as Hm.
  destruct (alloc_inner (order_fuel a) a k) as [[idx|] a1], (alloc_inner (order_fuel a) b k) as [[idx'|] b1];
    cbn [fst snd] in *; try discriminate.
  - inversion A1; subst idx'. destruct (A3 idx eq_refl) as [Hk Hidx]. apply hm_bmax in Hm.
    destruct (lowest_scan_sim (orders_up (N.to_nat (bmax a - k)) (k + 1)) L 2 a1 b1 idx k idx A2 ltac:(lia) Hidx)
      as (a2 & b2 & bi & bo & bat & E1 & E2 & R1 & R2 & R3 & R4).
    rewrite E1, E2.
    destruct (split_down_sim (order_fuel a) L a2 b2 bi bo k R1 ltac:(lia) R4) as [S1 S2].
    destruct (split_down (order_fuel a) a2 (bi, bo) k) as [a3 best3],
             (split_down (order_fuel a) b2 (bi, bo) k) as [b3 best3'].
    cbn [fst snd] in *. subst best3'. split; [reflexivity|exact S2].
  - split; [reflexivity|exact A2].
Qed.

(* ---------------------------------------------------------------- from eqv to sim and back *)

Lemma eqv_sim a b : eqv a b -> sim (blen a) a b.
Proof.
  intros ((Hs & _) & (Hs' & _) & Hbl & Hmax & Hfr & _). rewrite <- Hbl in Hs'.
  split; [exact Hs|]. split; [exact Hs'|]. split; [exact Hmax|]. split; [exact Hbl|exact Hfr].
Qed.

Lemma sim_eqv L a b : sim L a b -> BInv a -> blen a = L -> heights a = heights b -> eqv a b.
Proof.
  intros (Hs & Hs' & Hmax & Hbl & Hfr) Hinv HL Hh.
  split; [exact Hinv|]. split.
  - unfold BInv. rewrite <- Hbl, HL.
    apply (BInvL_same_fr (blen a) L a b Hinv Hs'); [congruence|]. intros k i. symmetry. apply Hfr.
  - split; [exact Hbl|]. split; [exact Hmax|]. split; [exact Hfr|exact Hh].
Qed.

Lemma eqv_refl a : BInv a -> eqv a a.
Proof. intros H. split; [exact H|]. split; [exact H|]. repeat (split; [reflexivity|]). reflexivity. Qed.

Lemma eqv_pfree a b : eqv a b -> forall p, pfree a p <-> pfree b p.
Proof.
  intros (_ & _ & _ & Hmax & Hfr & _) p. unfold pfree. rewrite Hmax.
  split; intros [k [Hk Hf]]; exists k; [rewrite <- Hfr|rewrite Hfr]; auto.
Qed.

(* the post-states of a mark-level operation are equivalent again *)
Lemma finish a b a' b' :
  eqv a b -> sim (blen a) a' b' -> BInv a' -> hm a' = hm a -> hm b' = hm b -> eqv a' b'.
Proof.
  intros (_ & _ & _ & _ & _ & Hh) Hsim Hinv Ha Hb.
  apply (sim_eqv (blen a)); [exact Hsim|exact Hinv|now apply hm_blen|].
  rewrite (hm_heights _ _ Ha), (hm_heights _ _ Hb). exact Hh.
Qed.

(* ---------------------------------------------------------------- resize: its precondition sees heights only *)

Lemma bt_resize_pre_len t t' n : length t = length t' -> bt_resize_pre t n = bt_resize_pre t' n.
Proof.
  intros H. unfold bt_resize_pre, bt_resize.
  destruct t as [|p r], t' as [|p' r']; try discriminate; [reflexivity|].
  change (mkU64 0 []) with dflt.
  destruct (resize_aux_hd (p :: r) n true ltac:(discriminate)) as [-> _].
  destruct (resize_aux_hd (p' :: r') n true ltac:(discriminate)) as [-> _]. now rewrite H.
Qed.

Lemma resize_trees_pre_heights a b n : heights a = heights b -> resize_trees_pre a n = resize_trees_pre b n.
Proof.
  unfold resize_trees_pre, heights. generalize (bfree a) (bfree b). intros l. revert n.
  induction l as [|t r IH]; intros n l' H; destruct l' as [|t' r']; try discriminate; [reflexivity|].
  cbn [map] in H. inversion H.
  change (bt_resize_pre t n && resize_trees_pre (mkBuddy r 0 0) (next_higher_order n)
          = bt_resize_pre t' n && resize_trees_pre (mkBuddy r' 0 0) (next_higher_order n)).
  rewrite (bt_resize_pre_len t t' n) by assumption. f_equal.
  unfold resize_trees_pre. cbn [bfree]. now apply IH.
Qed.

Lemma resize_eqv a b live n :
  eqv a b -> good (a, live) -> resize_trees_pre a n = true ->
  Forall (fun x : blk => (fst x + 1) * 2 ^ snd x <= n) live ->
  eqv (buddy_resize a n) (buddy_resize b n).
Proof.
  intros He (G1 & G2 & G3 & G4 & G5) Htrees Hlive. cbn [fst snd] in *.
  pose proof He as (_ & Hinvb & Hbl & Hmax & Hfr & Hh).
  assert (forall p, n <= p -> p < blen a -> pfree a p) as Htail.
  { intros p Hp Hlt. destruct (G5 p Hlt) as [F|[x [Hx Hxp]]]; [exact F|]. exfalso.
    rewrite Forall_forall in Hlive. specialize (Hlive x Hx). unfold in_blk in Hxp.
    pose proof (pow2_pos (snd x)). dmod p (2 ^ snd x). nia. }
  assert (forall p, n <= p -> p < blen b -> pfree b p) as Htail'.
  { intros p Hp Hlt. apply (eqv_pfree a b He). apply Htail; [exact Hp|lia]. }
  destruct (resize_spec a n G1 G2 Htrees Htail) as (_ & R1 & R2 & R3 & R4).
  destruct (resize_spec b n Hinvb ltac:(lia) ltac:(now rewrite <- (resize_trees_pre_heights a b n Hh)) Htail')
    as (_ & R1' & R2' & R3' & R4').
  destruct (heights_resize a n) as [Ha _]. destruct (heights_resize b n) as [Hb _].
  split; [exact R1|]. split; [exact R1'|]. split; [congruence|]. split; [congruence|].
  split; [|congruence].
  unfold BInv in R1, R1'. rewrite R2 in R1. rewrite R2' in R1'.
  apply (marks_determined n _ _ R1 R1'); [congruence|].
  intros p. rewrite R4, R4', <- Hbl. pose proof (eqv_pfree a b He p). tauto.
Qed.

(* ---------------------------------------------------------------- one operation *)

Lemma op_sim a b live o s' :
  eqv a b -> good (a, live) -> step (a, live) o s' ->
  fst (apply_op b o) = fst (apply_op a o) /\ eqv (snd (apply_op a o)) (snd (apply_op b o)).
Proof.
  intros He G St.
  pose proof (step_good _ _ _ G St) as [G1' _].
  rewrite <- (step_apply a live o s' St) in G1'.
  pose proof (eqv_sim a b He) as Hsim.
  rewrite !apply_op_eta in *.
  destruct o as [k|k|i k|i k|n|]; cbn [fst snd] in *.
  - (* alloc *)
    unfold buddy_alloc in *. rewrite <- (sim_fuel _ a b Hsim).
    destruct (alloc_inner_sim (order_fuel a) _ a b k Hsim) as (A1 & A2 & _).
    split; [now rewrite A1|].
    apply (finish a b); [exact He|exact A2|exact G1'|apply hm_alloc_inner|apply hm_alloc_inner].
  - (* alloc_lowest *)
    destruct (alloc_lowest_sim _ a b k Hsim) as (A1 & A2).
    split; [now rewrite A1|].
    apply (finish a b); [exact He|exact A2|exact G1'|apply hm_alloc_lowest|apply hm_alloc_lowest].
  - (* free *)
    inversion St as [| | | |a0 live0 i0 k0 Hin| | | |]; subst.
    destruct G as (_ & _ & G3 & _). cbn [fst snd] in G3. rewrite Forall_forall in G3.
    destruct (G3 (i, k) Hin) as (B1 & B2 & _). cbn [fst snd] in B1, B2.
    unfold buddy_free in *. rewrite <- (sim_fuel _ a b Hsim).
    destruct (free_inner_sim (order_fuel a) _ a b i k Hsim B1 (idx_lt_of_range _ _ _ B2)) as (A1 & A2).
    split; [now rewrite A1|].
    apply (finish a b); [exact He|exact A2|exact G1'|apply hm_free_inner|apply hm_free_inner].
  - (* record_alloc *)
    unfold buddy_record_alloc in *. rewrite <- (sim_fuel _ a b Hsim).
    destruct (record_inner_sim (order_fuel a) _ a b i k Hsim) as (A1 & A2 & _).
    split; [now rewrite A1|].
    apply (finish a b); [exact He|exact A2|exact G1'|apply hm_record_inner|apply hm_record_inner].
  - (* resize *)
    inversion St as [| | | | | | |a0 live0 n0 Htrees Hlive|]; subst.
    split; [reflexivity|]. eapply resize_eqv; eauto.
  - (* reload: both sides become the trimmed a *)
    inversion St as [| | | | | | | |a0 live0 Hsmall]; subst.
    split; [reflexivity|].
    rewrite <- (eqv_to_vec a b He). now apply eqv_refl.
Qed.

(* ---------------------------------------------------------------- whole programs *)

Lemma run_eqv os : forall a b live s',
  eqv a b -> good (a, live) -> steps (a, live) os s' ->
  fst (run b os) = fst (run a os) /\ eqv (snd (run a os)) (snd (run b os)).
Proof.
  induction os as [|o r IH]; intros a b live s' He G St.
  - cbn [run fst snd]. split; [reflexivity|exact He].
  - inversion St as [|s0 o0 s1 os0 s2 St1 St2]; subst. destruct s1 as [a1 live1].
    destruct (op_sim a b live o _ He G St1) as [O1 O2].
    pose proof (step_good _ _ _ G St1) as G1.
    pose proof (step_apply _ _ _ _ St1) as Ea. cbn [fst] in Ea.
    rewrite !run_cons. cbn [fst snd]. rewrite Ea in *.
    destruct (IH a1 (snd (apply_op b o)) live1 s' O2 G1 St2) as [I1 I2].
    split; [now rewrite O1, I1|exact I2].
Qed.

Lemma eqv_reload a : BInv a -> buddy_small a -> eqv a (buddy_from_bytes (buddy_to_vec a)).
Proof.
  intros Hinv Hsmall. pose proof Hinv as ([Hn _] & _).
  rewrite (buddy_roundtrip a Hsmall Hn).
  destruct (norm_spec (blen a) a Hinv) as (N1 & N2 & _).
  split; [exact Hinv|]. split; [exact N1|]. split; [reflexivity|]. split; [reflexivity|].
  split; [intros k i; symmetry; apply N2|]. symmetry. apply heights_norm.
Qed.

Theorem reload_obs_equal a live os s' :
  good (a, live) -> buddy_small a -> steps (a, live) os s' ->
  let b := buddy_from_bytes (buddy_to_vec a) in
  fst (run b os) = fst (run a os)
  /\ buddy_to_vec (snd (run b os)) = buddy_to_vec (snd (run a os))
  /\ snd (run a os) = fst s'.
Proof.
  intros G Hsmall St b. pose proof G as (G1 & _). cbn [fst] in G1.
  destruct (run_eqv os a b live s' (eqv_reload a G1 Hsmall) G St) as [R1 R2].
  split; [exact R1|]. split; [symmetry; now apply eqv_to_vec|]. eapply steps_run; eauto.
Qed.

(* ---------------------------------------------------------------- an executable validity check for programs *)

Definition exec (s : Buddy * list blk) (o : op) : option (Buddy * list blk) :=
  let '(a, live) := s in
  match o with
  | OAlloc k => match buddy_alloc a k with (Some x, a') => Some (a', (x, k) :: live) | (None, a') => Some (a', live) end
  | OAllocLowest k =>
      match buddy_alloc_lowest a k with (Some x, a') => Some (a', (x, k) :: live) | (None, a') => Some (a', live) end
  | OFree i k => if existsb (blk_eqb (i, k)) live then Some (snd (buddy_free a i k), remove1 (i, k) live) else None
  | ORecord i k =>
      match buddy_record_alloc a i k with (true, a') => Some (a', (i, k) :: live) | (false, a') => Some (a', live) end
  | OResize n =>
      if resize_trees_pre a n && forallb (fun b : blk => (fst b + 1) * 2 ^ snd b <=? n) live
      then Some (buddy_resize a n, live) else None
  | OReload => if buddy_smallb a then Some (buddy_from_bytes (buddy_to_vec a), live) else None
  end.

Fixpoint execs (s : Buddy * list blk) (os : list op) : option (Buddy * list blk) :=
  match os with
  | [] => Some s
  | o :: r => match exec s o with Some s' => execs s' r | None => None end
  end.

Lemma exec_sound s o s' : exec s o = Some s' -> step s o s'.
Proof.
  destruct s as [a live]. destruct o as [k|k|i k|i k|n|]; cbn [exec].
  - destruct (buddy_alloc a k) as [[x|] a'] eqn:E; intros H; inversion H; subst; now constructor.
  - destruct (buddy_alloc_lowest a k) as [[x|] a'] eqn:E; intros H; inversion H; subst; now constructor.
  - destruct (existsb (blk_eqb (i, k)) live) eqn:E; intros H; inversion H; subst. constructor.
    apply existsb_exists in E. destruct E as [x [Hx E]]. apply blk_eqb_eq in E. now subst.
  - destruct (buddy_record_alloc a i k) as [[|] a'] eqn:E; intros H; inversion H; subst; now constructor.
  - destruct (resize_trees_pre a n && _) eqn:E; intros H; inversion H; subst.
    apply andb_true_iff in E. destruct E as [E1 E2]. constructor; [exact E1|].
    apply Forall_forall. intros x Hx. rewrite forallb_forall in E2. apply N.leb_le. now apply E2.
  - destruct (buddy_smallb a) eqn:E; intros H; inversion H; subst. constructor. now apply buddy_smallb_sound.
Qed.

Lemma execs_sound os : forall s s', execs s os = Some s' -> steps s os s'.
Proof.
  induction os as [|o r IH]; intros s s' H; cbn [execs] in H.
  - inversion H. constructor.
  - destruct (exec s o) as [s1|] eqn:E; [|discriminate]. econstructor; [apply exec_sound; exact E|now apply IH].
Qed.

(* ---------------------------------------------------------------- non-vacuity: a concrete program *)

(* grow to 200 pages and shrink back: the leaf levels keep their capacity words (u_resize never drops
   words), so the state reached differs from its reloaded image *)
Definition obs_ex_pre : list op := [OResize 200; OResize 13; OAlloc 0; OAlloc 2; OAllocLowest 1].
Definition obs_ex_prog : list op :=
  [OFree 12 0; OAlloc 1; ORecord 12 0; OAllocLowest 0; OResize 16; OAlloc 2; OAlloc 0; OFree 4 0].
Definition obs_ex_prog2 : list op := [OFree 12 0; OAlloc 0; OReload; ORecord 5 1; OFree 12 0; OResize 40; OAllocLowest 3].
Definition obs_ex_a : Buddy := snd (run (buddy_new 13 200) obs_ex_pre).
Definition obs_ex_live : list blk := [(0, 1); (2, 2); (12, 0)].

(* the hypotheses of reload_obs_equal hold for obs_ex_a and both programs *)
Example obs_ex_valid :
  good (obs_ex_a, obs_ex_live) /\ buddy_small obs_ex_a
  /\ (exists s', steps (obs_ex_a, obs_ex_live) obs_ex_prog s') /\ (exists s', steps (obs_ex_a, obs_ex_live) obs_ex_prog2 s').
Proof.
  assert (execs (buddy_new 13 200, []) obs_ex_pre = Some (obs_ex_a, obs_ex_live)) as E by (vm_compute; reflexivity).
  split; [apply (steps_from_new_good 13 200 obs_ex_pre); apply execs_sound; exact E|].
  split; [apply buddy_smallb_sound; vm_compute; reflexivity|].
  split.
  - assert (exists s', execs (obs_ex_a, obs_ex_live) obs_ex_prog = Some s') as [s' E'] by (vm_compute; eexists; reflexivity).
    exists s'. now apply execs_sound.
  - assert (exists s', execs (obs_ex_a, obs_ex_live) obs_ex_prog2 = Some s') as [s' E'] by (vm_compute; eexists; reflexivity).
    exists s'. now apply execs_sound.
Qed.

(* what the theorem then says, checked by computation: same (non-trivial) return values, same bytes,
   although the in-memory states differ (256 against 64 bits in the order-0 leaf) *)
Example obs_ex_obs :
  let b := buddy_from_bytes (buddy_to_vec obs_ex_a) in
  fst (run obs_ex_a obs_ex_prog)
  = [ROrd 0; RIdx (Some 1); RBool true; RIdx (Some 4); RUnit; RIdx None; RIdx (Some 5); ROrd 0]
  /\ fst (run b obs_ex_prog) = fst (run obs_ex_a obs_ex_prog)
  /\ buddy_to_vec (snd (run b obs_ex_prog)) = buddy_to_vec (snd (run obs_ex_a obs_ex_prog))
  /\ b <> obs_ex_a
  /\ snd (run b obs_ex_prog) <> snd (run obs_ex_a obs_ex_prog)
  /\ fst (run b obs_ex_prog2) = fst (run obs_ex_a obs_ex_prog2)
  /\ buddy_to_vec (snd (run b obs_ex_prog2)) = buddy_to_vec (snd (run obs_ex_a obs_ex_prog2)).
Proof.
  cbv zeta. split; [vm_compute; reflexivity|]. split; [vm_compute; reflexivity|].
  split; [vm_compute; reflexivity|]. split.
  - intros H. apply (f_equal (fun x => nlen (ubits (bt_leaf (ord x 0))))) in H. vm_compute in H. discriminate.
  - split.
    + intros H. apply (f_equal (fun x => nlen (ubits (bt_leaf (ord x 0))))) in H. vm_compute in H. discriminate.
    + split; vm_compute; reflexivity.
Qed.
