From Coq Require Import List NArith Bool Lia.
From RV Require Import Base.Bytes Gen.Consts Alloc.Bitmap Alloc.BitmapP Alloc.Buddy Alloc.Region.
Import ListNotations.
Open Scope N_scope.

Definition lay_ok (l : Layout) : Prop :=
  1 <= full_pages l /\ 1 <= num_regions l /\
  match trailing l with Some t => 1 <= t /\ t <= full_pages l | None => True end.

(* pages of region r, for r < num_regions l *)
Definition rpages (l : Layout) (r : N) : N :=
  if r =? num_regions l - 1 then last_region_pages l else full_pages l.

Lemma region_pages_rpages l r : lay_ok l -> r < num_regions l -> region_pages l r = rpages l r.
Proof.
  destruct l as [fp nf [t|]]; unfold lay_ok, rpages, region_pages, num_regions, last_region_pages; simpl;
    intros (H1 & H2 & H3) Hr.
  - replace (nf + 1 - 1) with nf by lia. reflexivity.
  - destruct (N.eqb_spec r nf); destruct (N.eqb_spec r (nf - 1)); try lia; reflexivity.
Qed.

Lemma last_region_pages_bounds l : lay_ok l -> 1 <= last_region_pages l /\ last_region_pages l <= full_pages l.
Proof.
  destruct l as [fp nf [t|]]; unfold lay_ok, last_region_pages; simpl; lia.
Qed.

Lemma rpages_bounds l r : lay_ok l -> r < num_regions l -> 1 <= rpages l r /\ rpages l r <= full_pages l.
Proof.
  intros H Hr. pose proof (last_region_pages_bounds l H). unfold rpages.
  destruct (r =? num_regions l - 1); [assumption|]. destruct H. lia.
Qed.

Lemma reduce_last_region_spec l pages :
  lay_ok l -> pages <= last_region_pages l ->
  (pages = last_region_pages l -> 1 < num_regions l) ->
  let nl := reduce_last_region l pages in
  full_pages nl = full_pages l /\ lay_ok nl /\
  ( (pages = last_region_pages l /\ num_regions nl = num_regions l - 1 /\ last_region_pages nl = full_pages l)
    \/ (pages < last_region_pages l /\ num_regions nl = num_regions l /\ last_region_pages nl = last_region_pages l - pages)).
Proof.
  destruct l as [fp nf [t|]]; unfold lay_ok, reduce_last_region, num_regions, last_region_pages; simpl;
    intros (H1 & H2 & H3) Hp Hn.
  - destruct (N.eqb_spec (t - pages) 0); simpl.
    + assert (pages = t) by lia. specialize (Hn H). repeat split; lia.
    + repeat split; lia.
  - destruct (N.ltb_spec pages fp); simpl.
    + repeat split; lia.
    + assert (pages = fp) by lia. specialize (Hn H0). repeat split; lia.
Qed.

Lemma layout_calculate_ok desired cap : 1 <= desired -> 1 <= cap -> lay_ok (layout_calculate desired cap)
  /\ full_pages (layout_calculate desired cap) = cap /\ layout_usable (layout_calculate desired cap) = desired.
Proof.
  intros Hd Hc. unfold layout_calculate.
  destruct (N.leb_spec desired cap).
  - unfold lay_ok, layout_usable, num_regions; simpl. lia.
  - cbv zeta. dmod desired cap.
    destruct (N.ltb_spec 0 (desired - n0 * cap)); unfold lay_ok, layout_usable, num_regions; simpl; nia.
Qed.

(* growing to any target D >= usable keeps every old region at least as large *)
Lemma layout_calculate_grow l D :
  lay_ok l -> layout_usable l <= D ->
  let nl := layout_calculate D (full_pages l) in
  num_regions l <= num_regions nl /\ (forall r, r < num_regions l -> rpages l r <= rpages nl r).
Proof.
  destruct l as [cap nf ot]. unfold lay_ok, layout_usable. simpl.
  intros (H1 & H2 & H3) HU. unfold layout_calculate.
  destruct (N.leb_spec D cap).
  - unfold rpages, num_regions, last_region_pages in *; simpl in *.
    destruct ot as [t|].
    + assert (nf = 0) by nia. subst nf. split; [lia|]. intros r Hr.
      assert (r = 0) by lia. subst r. simpl. lia.
    + assert (nf = 1) by nia. subst nf. split; [lia|]. intros r Hr.
      assert (r = 0) by lia. subst r. simpl. lia.
  - cbv zeta. dmod D cap. rename n0 into fr. rename n into rm.
    replace (D - fr * cap) with rm by lia.
    assert (Hfr : 1 <= fr) by nia.
    unfold rpages, num_regions, last_region_pages in *; simpl in *.
    destruct ot as [t|]; destruct (N.ltb_spec 0 rm); simpl.
    + assert (nf <= fr) by nia. split; [lia|]. intros r Hr.
      destruct (N.eqb_spec r (nf + 1 - 1)); destruct (N.eqb_spec r (fr + 1 - 1)); try lia;
      (assert (nf = fr) by lia); subst nf; nia.
    + assert (nf < fr) by nia. split; [lia|]. intros r Hr.
      destruct (N.eqb_spec r (nf + 1 - 1)); destruct (N.eqb_spec r (fr - 1)); lia.
    + assert (nf <= fr) by nia. split; [lia|]. intros r Hr.
      destruct (N.eqb_spec r (nf - 1)); destruct (N.eqb_spec r (fr + 1 - 1)); lia.
    + assert (nf <= fr) by nia. split; [lia|]. intros r Hr.
      destruct (N.eqb_spec r (nf - 1)); destruct (N.eqb_spec r (fr - 1)); lia.
Qed.

Lemma grow_next_bounds l k :
  lay_ok l ->
  let required := 2 ^ k in
  let maxr := full_pages l in
  let usable := layout_usable l in
  let next :=
    if 0 <? num_full l then
      match trailing l with
      | Some t => if 2 * required <? maxr - t then usable + (maxr - t) else usable + 2 * maxr - t
      | None => usable + maxr
      end
    else N.max (usable * 2) (usable + required * 2) in
  layout_usable l <= next /\ 1 <= next.
Proof.
  destruct l as [cap nf ot]. unfold lay_ok, layout_usable, num_regions.
  cbn [full_pages num_full trailing].
  intros (H1 & H2 & H3).
  assert (Hpow : 1 <= 2 ^ k) by (pose proof (N.pow_nonzero 2 k); lia).
  generalize dependent (2 ^ k); intros p Hpow.
  assert (1 <= nf -> cap <= nf * cap) by nia.
  generalize dependent (nf * cap); intros m Hm.
  destruct (N.ltb_spec 0 nf).
  - destruct ot as [t|].
    + destruct (2 * p <? cap - t); lia.
    + lia.
  - lia.
Qed.

Lemma grow_layout_spec l k :
  lay_ok l ->
  let nl := grow_layout l k in
  full_pages nl = full_pages l /\ lay_ok nl /\ num_regions l <= num_regions nl
  /\ (forall r, r < num_regions l -> rpages l r <= rpages nl r).
Proof.
  intros H. pose proof (grow_next_bounds l k H) as Hb. cbv zeta in Hb.
  unfold grow_layout. cbv zeta.
  match goal with |- context [layout_calculate ?n _] => set (next := n) in * end.
  destruct Hb as [Hb1 Hb2].
  assert (Hc : 1 <= full_pages l) by (destruct H; assumption).
  destruct (layout_calculate_ok next (full_pages l) Hb2 Hc) as (A & B & _).
  pose proof (layout_calculate_grow l next H Hb1) as G. cbv zeta in G.
  tauto.
Qed.

Example lay_ok_ex : lay_ok (mkLayout 16 2 (Some 5)).
Proof. unfold lay_ok, num_regions; simpl; lia. Qed.

Example grow_ex1 : grow_layout (mkLayout 16 2 (Some 5)) 2 = mkLayout 16 3 None.
Proof. vm_compute. reflexivity. Qed.
Example grow_ex2 : grow_layout (mkLayout 16 2 (Some 5)) 3 = mkLayout 16 4 None.
Proof. vm_compute. reflexivity. Qed.
Example grow_ex3 : grow_layout (mkLayout 16 0 (Some 5)) 1 = mkLayout 16 0 (Some 10).
Proof. vm_compute. reflexivity. Qed.
Example reduce_ex1 : reduce_last_region (mkLayout 16 2 (Some 5)) 5 = mkLayout 16 2 None.
Proof. vm_compute. reflexivity. Qed.
Example reduce_ex2 : reduce_last_region (mkLayout 16 2 None) 4 = mkLayout 16 1 (Some 12).
Proof. vm_compute. reflexivity. Qed.
Example calc_ex : layout_calculate 37 16 = mkLayout 16 2 (Some 5).
Proof. vm_compute. reflexivity. Qed.
(* the hypotheses of the specs are satisfiable *)
Example grow_spec_ex :
  let l := mkLayout 16 2 (Some 5) in let nl := grow_layout l 2 in
  full_pages nl = 16 /\ lay_ok nl /\ num_regions l <= num_regions nl
  /\ (forall r, r < num_regions l -> rpages l r <= rpages nl r).
Proof. apply (grow_layout_spec (mkLayout 16 2 (Some 5)) 2 lay_ok_ex). Qed.
Example reduce_spec_ex :
  let l := mkLayout 16 2 (Some 5) in
  5 <= last_region_pages l /\ (5 = last_region_pages l -> 1 < num_regions l).
Proof. vm_compute. split; [discriminate | reflexivity]. Qed.
