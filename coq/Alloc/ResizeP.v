(* C14 proofs, part 4: BuddyAllocator::new and ::resize keep the invariant. *)
From Coq Require Import List NArith Bool Lia.
From RV Require Import Base.Bytes Gen.Consts Alloc.Bitmap Alloc.BitmapP Alloc.TreeP Alloc.Buddy Alloc.BuddyP.
Import ListNotations.
Open Scope N_scope.

(* ---------------------------------------------------------------- bounded while loops *)

Lemma while_fuel_spec {S : Type} (P : S -> Prop) (m : S -> nat) cond body :
  (forall s, P s -> cond s = true -> P (body s) /\ (m (body s) < m s)%nat) ->
  forall fuel s, P s -> (m s < fuel)%nat ->
  P (while_fuel fuel cond body s) /\ cond (while_fuel fuel cond body s) = false.
Proof.
  intros Hstep. induction fuel as [|f IH]; intros s Hp Hm; [lia|].
  cbn [while_fuel]. destruct (cond s) eqn:C.
  - destruct (Hstep s Hp C) as [Hp' Hm']. apply IH; [exact Hp'|lia].
  - split; assumption.
Qed.

(* ---------------------------------------------------------------- lists of orders *)

Lemma orders_down_spec n : forall o, In o (orders_down n) <-> o < N.of_nat n.
Proof.
  induction n; intros o; cbn [orders_down].
  - simpl. lia.
  - simpl In. rewrite IHn. lia.
Qed.

Lemma nlen_new_bitmaps n pages cap : nlen (new_bitmaps n pages cap) = N.of_nat n.
Proof.
  revert pages cap. induction n; intros; cbn [new_bitmaps nlen]; [reflexivity|]. rewrite IHn. lia.
Qed.

Lemma lget_new_bitmaps n : forall pages cap k,
  k < N.of_nat n ->
  lget (new_bitmaps n pages cap) k empty_bt
  = bt_new_padded (pages / 2 ^ k) (pages / 2 ^ k) (cap / 2 ^ k).
Proof.
  induction n; intros pages cap k Hk; [lia|]. cbn [new_bitmaps].
  destruct (N.eq_dec k 0) as [->|Hne].
  - rewrite lget_0. now rewrite N.pow_0_r, !N.div_1_r.
  - rewrite lget_cons_pos by lia. rewrite IHn by lia. unfold next_higher_order.
    replace k with (1 + (k - 1)) at 4 5 6 by lia. rewrite !div_pow_succ_l. reflexivity.
Qed.

(* ---------------------------------------------------------------- the empty allocator (nothing free) *)

Definition no_free (a : Buddy) : Prop := forall k i, fr a k i = false.

Lemma no_free_inv L a : shape L a -> no_free a -> BInvL L a.
Proof.
  intros Hs Hn. split; [exact Hs|]. split.
  - intros k i j H. rewrite Hn in H. discriminate.
  - intros k i _ H. rewrite Hn in H. discriminate.
Qed.

Lemma new_bitmaps_shape n cap mo :
  let a0 := mkBuddy (new_bitmaps (S (N.to_nat mo)) n cap) n mo in
  shape n a0 /\ no_free a0.
Proof.
  intros a0. assert (forall k, k <= mo -> ord a0 k = bt_new_padded (n / 2 ^ k) (n / 2 ^ k) (cap / 2 ^ k)) as Ho.
  { intros k Hk. unfold ord, a0. cbn [bfree]. apply lget_new_bitmaps. lia. }
  split.
  - split.
    + unfold a0. cbn [bfree bmax]. rewrite nlen_new_bitmaps. lia.
    + intros k Hk. cbn [bmax a0] in Hk. rewrite (Ho k Hk).
      destruct (bt_new_padded_ok (n / 2 ^ k) (n / 2 ^ k) (cap / 2 ^ k) (N.le_refl _)) as (H1 & H2 & _).
      split; assumption.
  - intros k i. unfold fr. destruct (N.le_gt_cases k mo) as [Hk|Hk].
    + rewrite (Ho k Hk).
      destruct (bt_new_padded_ok (n / 2 ^ k) (n / 2 ^ k) (cap / 2 ^ k) (N.le_refl _)) as (_ & _ & H3).
      now rewrite H3.
    + rewrite ord_above; [reflexivity|]. unfold a0. cbn [bfree]. rewrite nlen_new_bitmaps. lia.
Qed.

(* ---------------------------------------------------------------- marking a prefix free, highest order first *)

(* state of the marking loops: everything below `acc` is free, nothing else *)
Definition marked_prefix (L : N) (st : Buddy * N) : Prop :=
  BInvL L (fst st) /\ snd st <= L /\ (forall p, pfree (fst st) p <-> p < snd st).

Lemma blk_used_above a acc k y : (forall p, pfree a p <-> p < acc) -> acc <= y * 2 ^ k -> blk_used a k y.
Proof.
  intros Hp Hy p Hq Hf. apply Hp in Hf. subst y.
  pose proof (pow2_pos k). dmod p (2 ^ k). nia.
Qed.

Lemma div_exact acc k : acc mod 2 ^ k = 0 -> acc / 2 ^ k * 2 ^ k = acc.
Proof. intros H. pose proof (N.div_mod acc (2 ^ k) (pow2_nz k)). lia. Qed.

Lemma mod_pow_succ acc k : acc mod 2 ^ (k + 1) = 0 -> acc mod 2 ^ k = 0 /\ (acc / 2 ^ k) mod 2 = 0.
Proof.
  intros H. pose proof (N.div_mod acc (2 ^ (k + 1)) (pow2_nz _)) as E. rewrite H, N.add_0_r in E.
  set (q := acc / 2 ^ (k + 1)) in E.
  assert (acc = (2 * q) * 2 ^ k) as E'.
  { rewrite E at 1. rewrite N.pow_add_r. change (2 ^ 1) with 2. ring. }
  split.
  - rewrite E'. apply N.mod_mul. apply pow2_nz.
  - rewrite E'. rewrite N.div_mul by apply pow2_nz. rewrite N.mul_comm. apply N.mod_mul. lia.
Qed.

(* one marking step at order k: the block starting at acc becomes free *)
Lemma mark_step L a acc k :
  BInvL L a -> (forall p, pfree a p <-> p < acc) -> k <= bmax a ->
  acc mod 2 ^ k = 0 -> (k < bmax a -> (acc / 2 ^ k) mod 2 = 0) -> acc + 2 ^ k <= L ->
  let a' := with_ord a k (bt_clear (ord a k) (acc / 2 ^ k)) in
  BInvL L a' /\ bmax a' = bmax a /\ blen a' = blen a /\ (forall p, pfree a' p <-> p < acc + 2 ^ k).
Proof.
  intros Hinv Hp Hk Hal Hev Hle a'. pose proof Hinv as (Hs & Hn & Hm).
  pose proof (pow2_pos k) as Hpos. pose proof (div_exact acc k Hal) as Hex.
  set (y := acc / 2 ^ k) in *.
  assert (y < L / 2 ^ k) as Hy.
  { apply N.div_lt_upper_bound in Hle || idtac. dmod L (2 ^ k). nia. }
  change a' with (clear_at a k y).
  destruct (clear_at_spec L a k y Hs Hk Hy) as (S1 & S2 & S3 & S4).
  assert (blk_used a k y) as Hu by (eapply blk_used_above; eauto; lia).
  split; [|split; [exact S2|split; [exact S3|]]].
  - eapply inv_add; eauto. intros Hlt. specialize (Hev Hlt).
    assert (buddy_page y = y + 1) as ->.
    { destruct (buddy_page_cases y) as [[E B]|[E B]]; [lia|]. dmod y 2. lia. }
    eapply blk_used_not_fr; eauto. eapply blk_used_above; eauto. nia.
  - intros p. rewrite (pfree_add a _ k y S2 Hk S4 p), Hp. fold y.
    split.
    + intros [H|H]; [lia|]. dmod p (2 ^ k). nia.
    + intros H. destruct (N.lt_ge_cases p acc); [now left|]. right.
      dmod p (2 ^ k). nia.
Qed.

Lemma with_ord_fst_eta (a : Buddy) : forall k t, bmax (with_ord a k t) = bmax a.
Proof. reflexivity. Qed.

(* the whole loop at one order *)
Lemma mark_order_spec L k st :
  marked_prefix L st -> k <= bmax (fst st) -> blen (fst st) = L ->
  snd st mod 2 ^ k = 0 ->
  (k < bmax (fst st) -> snd st mod 2 ^ (k + 1) = 0 /\ L - snd st < 2 ^ (k + 1)) ->
  let st' := mark_order L k st in
  marked_prefix L st' /\ bmax (fst st') = bmax (fst st) /\ blen (fst st') = L
  /\ snd st' mod 2 ^ k = 0 /\ L - snd st' < 2 ^ k.
Proof.
  intros Hmp Hk Hbl Hal Hlow. unfold mark_order.
  pose proof (pow2_pos k) as Hpos.
  set (P := fun s : Buddy * N =>
              marked_prefix L s /\ bmax (fst s) = bmax (fst st) /\ blen (fst s) = L /\ snd s mod (2 ^ k) = 0
              /\ (k < bmax (fst st) -> (snd s = snd st) \/ L - snd s < (2 ^ k))).
  set (m := fun s : Buddy * N => N.to_nat ((L - snd s) / (2 ^ k))).
  assert (P st) as P0.
  { unfold P. split; [exact Hmp|]. split; [reflexivity|]. split; [exact Hbl|]. split; [exact Hal|]. intros _. now left. }
  set (body := fun s : Buddy * N => (with_ord (fst s) k (bt_clear (ord (fst s) k) (snd s / (2 ^ k))), snd s + (2 ^ k))).
  assert (forall s, P s -> (snd s + (2 ^ k) <=? L) = true -> P (body s) /\ (m (body s) < m s)%nat) as Hstep.
  { intros [a acc] (Pm & Pmax & Pbl & Pal & Pone) C. unfold body. cbn [fst snd] in *. apply N.leb_le in C.
    destruct Pm as (Hinv & Hle & Hpf). cbn [fst snd] in *.
    assert (k < bmax (fst st) -> acc = snd st) as Hacc.
    { intros Hlt. destruct (Pone Hlt) as [E|E]; [exact E|]. lia. }
    assert (k < bmax a -> (acc / 2 ^ k) mod 2 = 0) as Hev.
    { intros Hlt. rewrite Pmax in Hlt. rewrite (Hacc Hlt). apply mod_pow_succ. now apply Hlow. }
    destruct (mark_step L a acc k Hinv Hpf ltac:(lia) Pal Hev C) as (M1 & M2 & M3 & M4).
    split.
    - unfold P, marked_prefix. cbn [fst snd]. split; [split; [exact M1|split; [lia|exact M4]]|].
      split; [congruence|]. split; [congruence|]. split.
      + rewrite <- N.add_mod_idemp_l by apply pow2_nz. rewrite Pal, N.add_0_l.
        apply N.mod_same. apply pow2_nz.
      + intros Hlt. right. rewrite (Hacc Hlt). destruct (Hlow Hlt) as [_ Hr].
        rewrite N.pow_add_r in Hr. change (2 ^ 1) with 2 in Hr. lia.
    - unfold m. cbn [snd].
      replace (L - acc) with ((L - (acc + (2 ^ k))) + 1 * (2 ^ k)) by lia.
      rewrite N.div_add by lia. lia. }
  assert (m st < S (N.to_nat (L / (2 ^ k))))%nat as Hm0.
  { unfold m. assert ((L - snd st) / (2 ^ k) <= L / (2 ^ k)) by (apply N.div_le_mono; lia). lia. }
  destruct (while_fuel_spec P m _ _ Hstep (S (N.to_nat (L / (2 ^ k)))) st P0 Hm0) as [Pend Cend].
  set (st' := while_fuel _ _ _ st) in *.
  destruct Pend as (E1 & E2 & E3 & E4 & _). apply N.leb_gt in Cend.
  split; [exact E1|]. split; [exact E2|]. split; [exact E3|]. split; [exact E4|]. lia.
Qed.

Definition mark_pre (L M : N) (o : N) (st : Buddy * N) : Prop :=
  snd st mod 2 ^ o = 0 /\ (o < M -> snd st mod 2 ^ (o + 1) = 0 /\ L - snd st < 2 ^ (o + 1)).

Lemma mark_all_spec L M m : forall st,
  marked_prefix L st -> bmax (fst st) = M -> blen (fst st) = L -> N.of_nat m <= M + 1 ->
  (m <> O -> mark_pre L M (N.of_nat (Nat.pred m)) st) -> (m = O -> L - snd st < 1) ->
  let st' := fold_left (fun st o => mark_order L o st) (orders_down m) st in
  marked_prefix L st' /\ bmax (fst st') = M /\ blen (fst st') = L /\ L - snd st' < 1.
Proof.
  induction m as [|m' IH]; intros st Hmp Hmax Hbl Hm Hpre Hz; cbn [orders_down fold_left].
  - split; [exact Hmp|]. split; [exact Hmax|]. split; [exact Hbl|]. now apply Hz.
  - destruct (Hpre ltac:(lia)) as [P1 P2]. cbn [Nat.pred] in P1, P2.
    set (k := N.of_nat m') in *.
    assert (k <= bmax (fst st)) as Hk by lia.
    rewrite <- Hmax in P2.
    destruct (mark_order_spec L k st Hmp Hk Hbl P1 P2) as (S1 & S2 & S3 & S4 & S5).
    apply IH; try assumption; try lia.
    + intros Hne. unfold mark_pre.
      assert (N.of_nat (Nat.pred m') + 1 = k) as Ek by (unfold k; lia).
      assert (snd (mark_order L k st) mod 2 ^ (N.of_nat (Nat.pred m') + 1) = 0) as S4' by (rewrite Ek; exact S4).
      rewrite Ek. split.
      * apply mod_pow_succ in S4'. tauto.
      * intros _. split; assumption.
    + intros ->. unfold k in S5. simpl in S5. exact S5.
Qed.

Lemma new_spec n cap :
  let a := buddy_new n cap in
  BInv a /\ blen a = n /\ bmax a = calculate_usable_order cap /\ (forall p, pfree a p <-> p < n).
Proof.
  unfold buddy_new. set (M := calculate_usable_order cap).
  set (a0 := mkBuddy (new_bitmaps (S (N.to_nat M)) n cap) n M).
  destruct (new_bitmaps_shape n cap M) as [Hs0 Hn0]. fold a0 in Hs0, Hn0.
  assert (marked_prefix n (a0, 0)) as Hmp.
  { split; [apply no_free_inv; assumption|]. split; [simpl; lia|].
    intros p. simpl. split; [|lia]. intros [k [_ Hf]]. rewrite Hn0 in Hf. discriminate. }
  pose proof (mark_all_spec n M (S (N.to_nat M)) (a0, 0) Hmp eq_refl eq_refl ltac:(lia)) as S.
  cbv zeta in S.
  destruct S as (S1 & S2 & S3 & S4).
  - intros _. cbn [Nat.pred]. rewrite N2Nat.id. split; simpl.
    + apply N.mod_0_l. apply pow2_nz.
    + intros Hlt. lia.
  - discriminate.
  - set (st' := fold_left _ _ _) in *. destruct S1 as (I1 & I2 & I3).
    split; [unfold BInv; rewrite S3; exact I1|]. split; [exact S3|]. split; [exact S2|].
    intros p. rewrite I3. lia.
Qed.

(* ---------------------------------------------------------------- trailing zeros *)

Lemma tz32_double x : x <> 0 -> tz32 (2 * x) = N.succ (tz32 x).
Proof. destruct x; [congruence|]. reflexivity. Qed.

Lemma tz32_divides p : p mod 2 ^ (tz32 p) = 0.
Proof.
  destruct p as [|p]; [apply N.mod_0_l; apply pow2_nz|]. cbn [tz32].
  induction p; cbn [ptz]; try (rewrite N.pow_0_r; apply N.mod_1_r).
  rewrite N.pow_succ_r'. change (N.pos p~0) with (2 * N.pos p).
  rewrite N.mul_mod_distr_l by (try apply pow2_nz; lia). rewrite IHp. reflexivity.
Qed.

Lemma tz32_step p : p <> 0 -> tz32 p < tz32 (p + 2 ^ (tz32 p)).
Proof.
  destruct p as [|p]; [congruence|]. intros _. cbn [tz32].
  induction p; cbn [ptz].
  - rewrite N.pow_0_r. change (N.pos p~1 + 1) with (N.pos (Pos.succ p)~0). cbn [tz32 ptz]. lia.
  - rewrite N.pow_succ_r'. change (N.pos p~0) with (2 * N.pos p).
    rewrite <- N.mul_add_distr_l. rewrite tz32_double by lia. lia.
  - rewrite N.pow_0_r. reflexivity.
Qed.

Lemma pow_divides_mod x a b : a <= b -> x mod 2 ^ b = 0 -> x mod 2 ^ a = 0.
Proof.
  intros Hab H. pose proof (N.div_mod x (2 ^ b) (pow2_nz b)) as E. rewrite H, N.add_0_r in E.
  set (q := x / 2 ^ b) in E.
  assert (x = (2 ^ (b - a) * q) * 2 ^ a) as E'.
  { rewrite E at 1. replace b with ((b - a) + a) at 1 by lia. rewrite N.pow_add_r. ring. }
  rewrite E'. apply N.mod_mul. apply pow2_nz.
Qed.

Lemma add_pow_mod x a b : a <= b -> x mod 2 ^ a = 0 -> (x + 2 ^ b) mod 2 ^ a = 0.
Proof.
  intros Hab H. rewrite <- N.add_mod_idemp_l by apply pow2_nz. rewrite H, N.add_0_l.
  apply (pow_divides_mod _ a b Hab). apply N.mod_same. apply pow2_nz.
Qed.

(* ---------------------------------------------------------------- resizing the bitmaps *)

Lemma nlen_resize_bitmaps l : forall pages, nlen (resize_bitmaps l pages) = nlen l.
Proof. induction l; intros; cbn [resize_bitmaps nlen]; [reflexivity|]. now rewrite IHl. Qed.

Lemma lget_resize_bitmaps l : forall pages k,
  k < nlen l -> lget (resize_bitmaps l pages) k empty_bt = bt_resize (lget l k empty_bt) (pages / 2 ^ k) true.
Proof.
  induction l as [|t r IH]; intros pages k Hk; [simpl in Hk; lia|]. cbn [resize_bitmaps].
  destruct (N.eq_dec k 0) as [->|Hne].
  - rewrite !lget_0. now rewrite N.pow_0_r, N.div_1_r.
  - rewrite !lget_cons_pos by lia. cbn [nlen] in Hk. rewrite IH by lia. unfold next_higher_order.
    replace (pages / 2 ^ k) with (pages / 2 / 2 ^ (k - 1)); [reflexivity|].
    rewrite <- div_pow_succ_l. f_equal. f_equal. lia.
Qed.

Lemma resize_trees_pre_spec a n :
  resize_trees_pre a n = true -> forall k, k < nlen (bfree a) -> bt_resize_pre (ord a k) (n / 2 ^ k) = true.
Proof.
  unfold resize_trees_pre, ord. generalize (bfree a). intros l. revert n.
  induction l as [|t r IH]; intros n H k Hk; [simpl in Hk; lia|].
  apply andb_true_iff in H. destruct H as [H1 H2].
  destruct (N.eq_dec k 0) as [->|Hne].
  - rewrite lget_0, N.pow_0_r, N.div_1_r. exact H1.
  - rewrite lget_cons_pos by lia. cbn [nlen] in Hk. specialize (IH _ H2 (k - 1) ltac:(lia)).
    unfold next_higher_order in IH. rewrite <- div_pow_succ_l in IH.
    replace (1 + (k - 1)) with k in IH by lia. exact IH.
Qed.

Lemma resize_bitmaps_spec L a n X :
  shape L a -> resize_trees_pre a n = true ->
  (forall k j, k <= bmax a -> n / 2 ^ k <= j -> fr a k j = false) ->
  let a' := mkBuddy (resize_bitmaps (bfree a) n) X (bmax a) in
  shape n a' /\ (forall k i, fr a' k i = fr a k i).
Proof.
  intros [Hn Hs] Hpre Hdrop a'.
  assert (forall k, k <= bmax a ->
            bt_ok (ord a' k) /\ bt_len (ord a' k) = n / 2 ^ k /\ forall i, bt_get (ord a' k) i = bt_get (ord a k) i) as Hk.
  { intros k Hk. destruct (Hs k Hk) as [Hok Hl].
    unfold ord at 1 2 3, a'. cbn [bfree]. rewrite lget_resize_bitmaps by lia.
    fold (ord a k).
    destruct (bt_resize_ok (ord a k) (n / 2 ^ k) Hok) as (R1 & R2 & R3 & _).
    - intros j Hj. specialize (Hdrop k j Hk Hj). unfold fr in Hdrop. now apply negb_false_iff in Hdrop.
    - apply resize_trees_pre_spec; [exact Hpre|lia].
    - auto. }
  split.
  - split; [unfold a'; cbn [bfree bmax]; rewrite nlen_resize_bitmaps; exact Hn|].
    intros k Hk'. cbn [bmax a'] in Hk'. destruct (Hk k Hk') as (H1 & H2 & _). auto.
  - intros k i. unfold fr. destruct (N.le_gt_cases k (bmax a)) as [Hk'|Hk'].
    + destruct (Hk k Hk') as (_ & _ & H3). now rewrite H3.
    + rewrite !ord_above; [reflexivity| |].
      * lia.
      * unfold a'. cbn [bfree]. rewrite nlen_resize_bitmaps. lia.
Qed.

Lemma BInvL_same_fr L L' a a' :
  BInvL L a -> shape L' a' -> bmax a' = bmax a -> (forall k i, fr a' k i = fr a k i) ->
  BInvL L' a' /\ (forall p, pfree a' p <-> pfree a p).
Proof.
  intros (Hs & Hn & Hm) Hs' Hmax Hfr. split.
  - split; [exact Hs'|]. split.
    + intros k i j H Hj. rewrite Hfr in *. now apply Hn.
    + intros k i Hk H. rewrite Hfr in *. rewrite Hmax in Hk. now apply Hm.
  - intros p. unfold pfree. rewrite Hmax. split; intros [k [Hk Hf]]; exists k; rewrite Hfr in *; auto.
Qed.

(* ---------------------------------------------------------------- growing *)

(* during growing: the free space is the original one plus the pages [L, processed) *)
Definition grow_inv (L n : N) (a0 a : Buddy) (processed : N) : Prop :=
  BInvL n a /\ bmax a = bmax a0 /\ L <= processed /\ processed <= n /\
  (forall p, pfree a p <-> pfree a0 p \/ (L <= p /\ p < processed)).

Lemma aligned_idx processed k n : processed mod 2 ^ k = 0 -> processed + 2 ^ k <= n -> processed / 2 ^ k < n / 2 ^ k.
Proof.
  intros Hal Hle. pose proof (div_exact processed k Hal). pose proof (pow2_pos k).
  dmod n (2 ^ k). nia.
Qed.

Lemma in_block_iff processed k p : processed mod 2 ^ k = 0 ->
  (p / 2 ^ k = processed / 2 ^ k <-> processed <= p /\ p < processed + 2 ^ k).
Proof.
  intros Hal. pose proof (div_exact processed k Hal). pose proof (pow2_pos k).
  dmod p (2 ^ k). split; [intros E; subst|intros]; nia.
Qed.

Lemma grow_step L n a0 a processed k :
  grow_inv L n a0 a processed -> (forall p, pfree a0 p -> p < L) ->
  k <= bmax a -> processed mod 2 ^ k = 0 -> processed + 2 ^ k <= n ->
  grow_inv L n a0 (snd (free_inner (order_fuel a) a (processed / 2 ^ k) k)) (processed + 2 ^ k).
Proof.
  intros (Hinv & Hmax & HL & Hn & Hpf) H0 Hk Hal Hle. pose proof (pow2_pos k).
  assert (blk_used a k (processed / 2 ^ k)) as Hu.
  { intros p Hp Hf. apply (in_block_iff processed k p Hal) in Hp. apply Hpf in Hf.
    destruct Hf as [Hf|Hf]; [apply H0 in Hf; lia|lia]. }
  pose proof (free_inner_spec (order_fuel a) n a (processed / 2 ^ k) k Hinv (order_fuel_ok a k) Hk
                (aligned_idx _ _ _ Hal Hle) Hu) as S.
  destruct (free_inner (order_fuel a) a (processed / 2 ^ k) k) as [o a']. cbn [snd].
  destruct S as (S1 & S2 & S3 & _ & _ & _ & S7 & _).
  split; [exact S1|]. split; [congruence|]. split; [lia|]. split; [lia|].
  intros p. rewrite S7, Hpf, (in_block_iff processed k p Hal). split.
  - intros [[Hp|Hp]|Hp]; [now left|right; lia|right; lia].
  - intros [Hp|Hp]; [left; now left|].
    destruct (N.lt_ge_cases p processed); [left; right; lia|right; lia].
Qed.

Definition align_ok (n : N) (o processed : N) : Prop :=
  forall o', o' <= o -> processed + 2 ^ o' <= n -> processed mod 2 ^ o' = 0.

Lemma grow_align_spec L n a0 :
  (forall p, pfree a0 p -> p < L) -> bmax a0 <= 32 ->
  forall a processed, grow_inv L n a0 a processed ->
  let '(a1, processed1, _) :=
    while_fuel (order_fuel a0) (fun s => negb (snd s) && (snd (fst s) <? n)) (grow_align_step n) (a, processed, false) in
  grow_inv L n a0 a1 processed1 /\ align_ok n (bmax a0) processed1.
Proof.
  intros H0 H32 a processed Hg.
  set (P := fun s : Buddy * N * bool =>
              grow_inv L n a0 (fst (fst s)) (snd (fst s))
              /\ (snd s = true -> bmax a0 <= tz32 (snd (fst s)) \/ n < snd (fst s) + 2 ^ tz32 (snd (fst s)))).
  set (m := fun s : Buddy * N * bool =>
              if snd s then O else S (N.to_nat (bmax a0 - N.min (tz32 (snd (fst s))) (bmax a0)))).
  assert (forall s, P s -> negb (snd s) && (snd (fst s) <? n) = true ->
            P (grow_align_step n s) /\ (m (grow_align_step n s) < m s)%nat) as Hstep.
  { intros [[b pr] st] [Pg Ps] C. cbn [fst snd] in *. apply andb_true_iff in C. destruct C as [C1 C2].
    apply negb_true_iff in C1. subst st. apply N.ltb_lt in C2.
    unfold grow_align_step. pose proof Pg as (_ & Pmax & _).
    destruct ((bmax b <=? tz32 pr) || (n <? pr + 2 ^ tz32 pr)) eqn:T.
    - split.
      + unfold P. cbn [fst snd]. split; [exact Pg|]. intros _. apply orb_true_iff in T.
        destruct T as [T|T]; [left; apply N.leb_le in T; lia|right; now apply N.ltb_lt in T].
      + unfold m. cbn [fst snd]. lia.
    - apply orb_false_iff in T. destruct T as [T1 T2]. apply N.leb_gt in T1. apply N.ltb_ge in T2.
      assert (pr <> 0) as Hnz by (intros ->; cbn [tz32] in T1; lia).
      split.
      + unfold P. cbn [fst snd]. split; [|discriminate].
        apply grow_step; try assumption; [lia|apply tz32_divides].
      + unfold m. cbn [fst snd]. pose proof (tz32_step pr Hnz). lia. }
  assert (P (a, processed, false)) as P0 by (split; [exact Hg|discriminate]).
  assert (m (a, processed, false) < order_fuel a0)%nat as Hm0.
  { unfold m, order_fuel. cbn [fst snd]. lia. }
  destruct (while_fuel_spec P m _ _ Hstep (order_fuel a0) _ P0 Hm0) as [Pend Cend].
  destruct (while_fuel (order_fuel a0) _ _ _) as [[a1 pr1] st1]. cbn [fst snd] in *.
  destruct Pend as [Pg Ps]. cbn [fst snd] in Pg, Ps. split; [exact Pg|].
  intros o' Ho' Hle. pose proof (tz32_divides pr1) as Hd.
  apply andb_false_iff in Cend. destruct Cend as [Cend|Cend].
  - apply negb_false_iff in Cend. destruct (Ps Cend) as [Hs|Hs].
    + apply (pow_divides_mod pr1 o' (tz32 pr1)); [lia|exact Hd].
    + apply (pow_divides_mod pr1 o' (tz32 pr1)); [|exact Hd].
      destruct (N.le_gt_cases o' (tz32 pr1)); [assumption|].
      assert (2 ^ tz32 pr1 <= 2 ^ o') by (apply N.pow_le_mono_r; lia). lia.
  - apply N.ltb_ge in Cend. pose proof (pow2_pos o'). destruct Pg as (_ & _ & _ & Hn & _). lia.
Qed.

Lemma align_ok_add n o processed : align_ok n o processed -> processed + 2 ^ o <= n -> align_ok n o (processed + 2 ^ o).
Proof.
  intros Ha Hle o' Ho' Hle'. pose proof (pow2_pos o). apply add_pow_mod; [exact Ho'|].
  apply Ha; [exact Ho'|lia].
Qed.

Lemma grow_fill_spec L n a0 o st :
  (forall p, pfree a0 p -> p < L) ->
  grow_inv L n a0 (fst st) (snd st) -> align_ok n o (snd st) -> o <= bmax a0 ->
  let st' := grow_fill_order n st o in
  grow_inv L n a0 (fst st') (snd st') /\ align_ok n o (snd st') /\ n - snd st' < 2 ^ o.
Proof.
  intros H0 Hg Ha Ho. unfold grow_fill_order. pose proof (pow2_pos o) as Hpos.
  set (P := fun s : Buddy * N => grow_inv L n a0 (fst s) (snd s) /\ align_ok n o (snd s)).
  set (m := fun s : Buddy * N => N.to_nat ((n - snd s) / 2 ^ o)).
  set (body := fun s : Buddy * N => (snd (free_inner (order_fuel (fst s)) (fst s) (snd s / 2 ^ o) o), snd s + 2 ^ o)).
  assert (forall s, P s -> (snd s + 2 ^ o <=? n) = true -> P (body s) /\ (m (body s) < m s)%nat) as Hstep.
  { intros [b pr] [Pg Pa] C. unfold body. cbn [fst snd] in *. apply N.leb_le in C.
    pose proof Pg as (_ & Pmax & _).
    split.
    - split; cbn [fst snd].
      + apply grow_step; try assumption; [lia|]. apply Pa; [lia|exact C].
      + now apply align_ok_add.
    - unfold m. cbn [snd]. replace (n - pr) with ((n - (pr + 2 ^ o)) + 1 * 2 ^ o) by lia.
      rewrite N.div_add by lia. lia. }
  assert (P st) as P0 by (split; assumption).
  assert (m st < S (N.to_nat ((n - snd st) / 2 ^ o)))%nat as Hm0 by (unfold m; lia).
  destruct (while_fuel_spec P m _ _ Hstep _ st P0 Hm0) as [[Pg Pa] Cend].
  apply N.leb_gt in Cend. split; [exact Pg|]. split; [exact Pa|]. lia.
Qed.

Lemma grow_fill_all L n a0 m : forall st,
  (forall p, pfree a0 p -> p < L) ->
  grow_inv L n a0 (fst st) (snd st) -> N.of_nat m <= bmax a0 + 1 ->
  (m <> O -> align_ok n (N.of_nat (Nat.pred m)) (snd st)) -> (m = O -> n - snd st < 1) ->
  let st' := fold_left (grow_fill_order n) (orders_down m) st in
  grow_inv L n a0 (fst st') (snd st') /\ n - snd st' < 1.
Proof.
  induction m as [|m' IH]; intros st H0 Hg Hm Ha Hz; cbn [orders_down fold_left].
  - split; [exact Hg|]. now apply Hz.
  - specialize (Ha ltac:(lia)). cbn [Nat.pred] in Ha.
    destruct (grow_fill_spec L n a0 (N.of_nat m') st H0 Hg Ha ltac:(lia)) as (S1 & S2 & S3).
    apply IH; try assumption; try lia.
    + intros Hne o' Ho'. apply S2. lia.
    + intros ->. simpl in S3. exact S3.
Qed.

(* ---------------------------------------------------------------- shrinking *)

(* during shrinking: the pages [n, processed) have been taken out of the free space *)
Definition shrink_inv (L n : N) (a0 a : Buddy) (processed : N) : Prop :=
  BInvL L a /\ bmax a = bmax a0 /\ blen a = L /\ n <= processed /\ processed <= L /\
  (forall p, pfree a p <-> pfree a0 p /\ ~ (n <= p /\ p < processed)).

Lemma shrink_step L n a0 a processed k :
  shrink_inv L n a0 a processed -> (forall p, n <= p -> p < L -> pfree a0 p) ->
  k <= bmax a -> processed mod 2 ^ k = 0 -> processed + 2 ^ k <= L ->
  fst (record_alloc_inner (order_fuel a) a (processed / 2 ^ k) k) = true /\
  shrink_inv L n a0 (snd (record_alloc_inner (order_fuel a) a (processed / 2 ^ k) k)) (processed + 2 ^ k).
Proof.
  intros (Hinv & Hmax & Hbl & Hn & HL & Hpf) HT Hk Hal Hle. pose proof (pow2_pos k).
  assert (blk_free a k (processed / 2 ^ k)) as Hb.
  { intros p Hp. apply (in_block_iff processed k p Hal) in Hp. apply Hpf. split; [apply HT; lia|lia]. }
  pose proof (record_alloc_inner_spec (order_fuel a) L a (processed / 2 ^ k) k Hinv (order_fuel_ok a k)) as S.
  destruct (record_alloc_inner (order_fuel a) a (processed / 2 ^ k) k) as [[|] a']; cbn [fst snd].
  - destruct S as (_ & _ & _ & S3 & S4 & S5 & S6 & _). split; [reflexivity|].
    split; [exact S3|]. split; [congruence|]. split; [congruence|]. split; [lia|]. split; [lia|].
    intros p. rewrite S6, Hpf, (in_block_iff processed k p Hal). split.
    + intros [[Hp Hn1] Hn2]. split; [exact Hp|]. lia.
    + intros [Hp Hn1]. split; [split; [exact Hp|lia]|lia].
  - exfalso. destruct S as [_ [S|[S|S]]]; [lia| |contradiction].
    pose proof (aligned_idx _ _ _ Hal Hle). lia.
Qed.

Lemma shrink_align_spec L n a0 :
  (forall p, n <= p -> p < L -> pfree a0 p) -> bmax a0 <= 32 ->
  forall a processed, shrink_inv L n a0 a processed ->
  let '(a1, processed1, _, ok1) :=
    while_fuel (order_fuel a0) (fun s => negb (snd (fst s)) && (snd (fst (fst s)) <? L))
               shrink_align_step (a, processed, false, true) in
  shrink_inv L n a0 a1 processed1 /\ align_ok L (bmax a0) processed1 /\ ok1 = true.
Proof.
  intros HT H32 a processed Hg.
  set (P := fun s : Buddy * N * bool * bool =>
              shrink_inv L n a0 (fst (fst (fst s))) (snd (fst (fst s))) /\ snd s = true
              /\ (snd (fst s) = true -> bmax a0 <= tz32 (snd (fst (fst s)))
                                       \/ L < snd (fst (fst s)) + 2 ^ tz32 (snd (fst (fst s))))).
  set (m := fun s : Buddy * N * bool * bool =>
              if snd (fst s) then O else S (N.to_nat (bmax a0 - N.min (tz32 (snd (fst (fst s)))) (bmax a0)))).
  assert (forall s, P s -> negb (snd (fst s)) && (snd (fst (fst s)) <? L) = true ->
            P (shrink_align_step s) /\ (m (shrink_align_step s) < m s)%nat) as Hstep.
  { intros [[[b pr] st] ok] (Pg & Pok & Ps) C. cbn [fst snd] in *. apply andb_true_iff in C. destruct C as [C1 C2].
    apply negb_true_iff in C1. subst st ok. apply N.ltb_lt in C2.
    unfold shrink_align_step. pose proof Pg as (_ & Pmax & Pbl & _).
    destruct (N.leb_spec (bmax b) (tz32 pr)) as [T1|T1].
    - split.
      + unfold P. cbn [fst snd]. split; [exact Pg|]. split; [reflexivity|]. intros _. left. lia.
      + unfold m. cbn [fst snd]. lia.
    - destruct (N.ltb_spec (blen b) (pr + 2 ^ tz32 pr)) as [T2|T2].
      + split.
        * unfold P. cbn [fst snd]. split; [exact Pg|]. split; [reflexivity|]. intros _. right. lia.
        * unfold m. cbn [fst snd]. lia.
      + assert (pr <> 0) as Hnz by (intros ->; cbn [tz32] in T1; lia).
        destruct (shrink_step L n a0 b pr (tz32 pr) Pg HT ltac:(lia) (tz32_divides pr) ltac:(lia)) as [R1 R2].
        destruct (record_alloc_inner (order_fuel b) b (pr / 2 ^ tz32 pr) (tz32 pr)) as [r b'].
        cbn [fst snd] in R1, R2. subst r.
        split.
        * unfold P. cbn [fst snd]. split; [exact R2|]. split; [reflexivity|discriminate].
        * unfold m. cbn [fst snd]. pose proof (tz32_step pr Hnz). lia. }
  assert (P (a, processed, false, true)) as P0 by (split; [exact Hg|split; [reflexivity|discriminate]]).
  assert (m (a, processed, false, true) < order_fuel a0)%nat as Hm0.
  { unfold m, order_fuel. cbn [fst snd]. lia. }
  destruct (while_fuel_spec P m _ _ Hstep (order_fuel a0) _ P0 Hm0) as [Pend Cend].
  destruct (while_fuel (order_fuel a0) _ _ _) as [[[a1 pr1] st1] ok1]. cbn [fst snd] in *.
  destruct Pend as (Pg & Pok & Ps). cbn [fst snd] in Pg, Pok, Ps. split; [exact Pg|]. split; [|exact Pok].
  intros o' Ho' Hle. pose proof (tz32_divides pr1) as Hd.
  apply andb_false_iff in Cend. destruct Cend as [Cend|Cend].
  - apply negb_false_iff in Cend. destruct (Ps Cend) as [Hs|Hs].
    + apply (pow_divides_mod pr1 o' (tz32 pr1)); [lia|exact Hd].
    + apply (pow_divides_mod pr1 o' (tz32 pr1)); [|exact Hd].
      destruct (N.le_gt_cases o' (tz32 pr1)); [assumption|].
      assert (2 ^ tz32 pr1 <= 2 ^ o') by (apply N.pow_le_mono_r; lia). lia.
  - apply N.ltb_ge in Cend. pose proof (pow2_pos o'). destruct Pg as (_ & _ & _ & _ & Hn & _). lia.
Qed.

Lemma shrink_fill_spec L n a0 o st :
  (forall p, n <= p -> p < L -> pfree a0 p) ->
  shrink_inv L n a0 (fst (fst st)) (snd (fst st)) -> snd st = true -> align_ok L o (snd (fst st)) -> o <= bmax a0 ->
  let st' := shrink_fill_order st o in
  shrink_inv L n a0 (fst (fst st')) (snd (fst st')) /\ snd st' = true
  /\ align_ok L o (snd (fst st')) /\ L - snd (fst st') < 2 ^ o.
Proof.
  intros HT Hg Hok Ha Ho. unfold shrink_fill_order. pose proof (pow2_pos o) as Hpos.
  assert (blen (fst (fst st)) = L) as Hbl by (destruct Hg as (_ & _ & H & _); exact H).
  rewrite Hbl.
  set (P := fun s : Buddy * N * bool =>
              shrink_inv L n a0 (fst (fst s)) (snd (fst s)) /\ snd s = true /\ align_ok L o (snd (fst s))).
  set (m := fun s : Buddy * N * bool => N.to_nat ((L - snd (fst s)) / 2 ^ o)).
  set (body := fun s : Buddy * N * bool =>
                 let '(a, processed, ok) := s in
                 let '(r, a') := record_alloc_inner (order_fuel a) a (processed / 2 ^ o) o in
                 (a', processed + 2 ^ o, ok && r)).
  assert (forall s, P s -> (snd (fst s) + 2 ^ o <=? L) = true -> P (body s) /\ (m (body s) < m s)%nat) as Hstep.
  { intros [[b pr] ok] (Pg & Pok & Pa) C. unfold body. cbn [fst snd] in *. apply N.leb_le in C. subst ok.
    pose proof Pg as (_ & Pmax & _).
    destruct (shrink_step L n a0 b pr o Pg HT ltac:(lia) (Pa o (N.le_refl _) C) C) as [R1 R2].
    destruct (record_alloc_inner (order_fuel b) b (pr / 2 ^ o) o) as [r b']. cbn [fst snd] in R1, R2. subst r.
    split.
    - split; cbn [fst snd]; [exact R2|]. split; [reflexivity|]. now apply align_ok_add.
    - unfold m. cbn [fst snd]. replace (L - pr) with ((L - (pr + 2 ^ o)) + 1 * 2 ^ o) by lia.
      rewrite N.div_add by lia. lia. }
  assert (P st) as P0 by (split; [exact Hg|split; assumption]).
  assert (m st < S (N.to_nat ((L - snd (fst st)) / 2 ^ o)))%nat as Hm0 by (unfold m; lia).
  destruct (while_fuel_spec P m _ _ Hstep _ st P0 Hm0) as [(Pg & Pok & Pa) Cend].
  apply N.leb_gt in Cend. split; [exact Pg|]. split; [exact Pok|]. split; [exact Pa|]. lia.
Qed.

Lemma shrink_fill_all L n a0 m : forall st,
  (forall p, n <= p -> p < L -> pfree a0 p) ->
  shrink_inv L n a0 (fst (fst st)) (snd (fst st)) -> snd st = true -> N.of_nat m <= bmax a0 + 1 ->
  (m <> O -> align_ok L (N.of_nat (Nat.pred m)) (snd (fst st))) -> (m = O -> L - snd (fst st) < 1) ->
  let st' := fold_left shrink_fill_order (orders_down m) st in
  shrink_inv L n a0 (fst (fst st')) (snd (fst st')) /\ snd st' = true /\ L - snd (fst st') < 1.
Proof.
  induction m as [|m' IH]; intros st HT Hg Hok Hm Ha Hz; cbn [orders_down fold_left].
  - split; [exact Hg|]. split; [exact Hok|]. now apply Hz.
  - specialize (Ha ltac:(lia)). cbn [Nat.pred] in Ha.
    destruct (shrink_fill_spec L n a0 (N.of_nat m') st HT Hg Hok Ha ltac:(lia)) as (S1 & S2 & S3 & S4).
    apply IH; try assumption; try lia.
    + intros Hne o' Ho'. apply S3. lia.
    + intros ->. simpl in S4. exact S4.
Qed.

(* ---------------------------------------------------------------- resize *)

Lemma BInvL_reblen L a X :
  BInvL L a -> BInvL L (mkBuddy (bfree a) X (bmax a)) /\ (forall p, pfree (mkBuddy (bfree a) X (bmax a)) p <-> pfree a p).
Proof.
  intros H. apply (BInvL_same_fr L L a); [exact H| |reflexivity|reflexivity].
  destruct H as [[H1 H2] _]. split; assumption.
Qed.

Lemma div_pow_mono a b k : a <= b -> a / 2 ^ k <= b / 2 ^ k.
Proof. intros. apply N.div_le_mono; [apply pow2_nz|assumption]. Qed.

(* shrinking never needs a new tree level: the root length after the resize is the iterated ceil64 of the
   new length, which is monotone *)
Fixpoint iter_ceil (d : nat) (x : N) : N :=
  match d with O => x | S d' => ceil64 (iter_ceil d' x) end.

Lemma iter_ceil_mono d x y : x <= y -> iter_ceil d x <= iter_ceil d y.
Proof. induction d; intros; simpl; [assumption|]. apply ceil64_mono. auto. Qed.

Lemma resize_aux_hd t : forall n f,
  t <> [] ->
  ulen (hd dflt (fst (bt_resize_aux t n f))) = iter_ceil (Nat.pred (length t)) n
  /\ snd (bt_resize_aux t n f) = iter_ceil (length t) n.
Proof.
  induction t as [|p rest IH]; intros n f Hne; [congruence|].
  cbn [bt_resize_aux]. destruct rest as [|c r].
  - cbn [bt_resize_aux fst snd hd length Nat.pred iter_ceil]. split; [apply u_resize_len|reflexivity].
  - destruct (IH n f ltac:(discriminate)) as [I1 I2].
    destruct (bt_resize_aux (c :: r) n f) as [rest' nl]. cbn [fst snd] in *. subst nl.
    cbn [hd]. split; [rewrite u_resize_len; reflexivity|reflexivity].
Qed.

Lemma tree_hd_chain t : tree_ok t -> ulen (hd dflt t) = iter_ceil (Nat.pred (length t)) (bt_len t).
Proof.
  induction t as [|p rest IH]; [simpl; tauto|]. destruct rest as [|c r].
  - intros _. reflexivity.
  - intros [_ [Hlen [_ Hok]]]. cbn [hd length Nat.pred iter_ceil]. rewrite Hlen. rewrite bt_len_cons.
    f_equal. apply (IH Hok).
Qed.

Lemma bt_resize_pre_shrink t n : bt_ok t -> n <= bt_len t -> bt_resize_pre t n = true.
Proof.
  intros [Hok Hr] Hn. unfold bt_resize_pre, bt_resize. apply N.leb_le.
  destruct t as [|p rest]; [simpl in Hok; tauto|].
  destruct (resize_aux_hd (p :: rest) n true ltac:(discriminate)) as [H1 _].
  change (mkU64 0 []) with dflt. rewrite H1.
  rewrite (tree_hd_chain _ Hok) in Hr.
  pose proof (iter_ceil_mono (Nat.pred (length (p :: rest))) n _ Hn). lia.
Qed.

Lemma resize_trees_pre_intro a n :
  (forall k, k < nlen (bfree a) -> bt_resize_pre (ord a k) (n / 2 ^ k) = true) -> resize_trees_pre a n = true.
Proof.
  unfold resize_trees_pre, ord. generalize (bfree a). intros l. revert n.
  induction l as [|t r IH]; intros n H; [reflexivity|].
  apply andb_true_iff. split.
  - specialize (H 0). rewrite lget_0, N.pow_0_r, N.div_1_r in H. apply H. cbn [nlen]. lia.
  - apply IH. intros k Hk. specialize (H (k + 1)). rewrite lget_cons_pos in H by lia.
    replace (k + 1 - 1) with k in H by lia. unfold next_higher_order.
    rewrite <- div_pow_succ_l, N.add_comm. apply H. cbn [nlen]. lia.
Qed.

Lemma resize_trees_pre_shrink L a n : shape L a -> n <= L -> resize_trees_pre a n = true.
Proof.
  intros [Hn Hs] Hle. apply resize_trees_pre_intro. intros k Hk.
  destruct (Hs k ltac:(lia)) as [Hok Hl]. apply bt_resize_pre_shrink; [exact Hok|].
  rewrite Hl. now apply div_pow_mono.
Qed.

Lemma resize_spec a n :
  BInv a -> bmax a <= 32 -> resize_trees_pre a n = true ->
  (forall p, n <= p -> p < blen a -> pfree a p) ->
  snd (buddy_resize_ok a n) = true /\ BInv (buddy_resize a n) /\ blen (buddy_resize a n) = n
  /\ bmax (buddy_resize a n) = bmax a
  /\ (forall p, pfree (buddy_resize a n) p <-> (pfree a p /\ p < n) \/ (blen a <= p /\ p < n)).
Proof.
  intros Hinv H32 Htrees Htail. unfold buddy_resize, buddy_resize_ok.
  pose proof Hinv as (Hs & Hn & Hm). set (L := blen a) in *.
  destruct (N.ltb_spec L n) as [Hgrow|Hshrink].
  - (* grow *)
    set (a0 := mkBuddy (resize_bitmaps (bfree a) n) L (bmax a)).
    destruct (resize_bitmaps_spec L a n L Hs Htrees) as [Hs0 Hfr0].
    { intros k j Hk Hj. destruct (fr a k j) eqn:F; [|reflexivity].
      destruct (fr_lt L a k j Hs F) as [_ Hlt]. pose proof (div_pow_mono L n k ltac:(lia)). lia. }
    fold a0 in Hs0, Hfr0.
    destruct (BInvL_same_fr L n a a0 Hinv Hs0 eq_refl Hfr0) as [Hinv0 Hpf0].
    assert (forall p, pfree a0 p -> p < L) as H0.
    { intros p Hp. apply Hpf0 in Hp. eapply pfree_lt; eauto. }
    assert (grow_inv L n a0 a0 L) as Hg0.
    { split; [exact Hinv0|]. split; [reflexivity|]. split; [lia|]. split; [lia|]. intros p. split; [now left|].
      intros [Hp|Hp]; [exact Hp|lia]. }
    change (order_fuel a) with (order_fuel a0).
    pose proof (grow_align_spec L n a0 H0 H32 a0 L Hg0) as S1.
    destruct (while_fuel (order_fuel a0) _ (grow_align_step n) (a0, L, false)) as [[a1 pr1] st1].
    destruct S1 as [G1 A1].
    pose proof (grow_fill_all L n a0 (S (N.to_nat (bmax a))) (a1, pr1) H0 G1) as S2.
    cbv zeta in S2. cbn [fst snd Nat.pred] in S2.
    destruct S2 as [G2 E2].
    { change (bmax a0) with (bmax a). lia. }
    { intros _. rewrite N2Nat.id. exact A1. }
    { discriminate. }
    destruct (fold_left (grow_fill_order n) (orders_down (S (N.to_nat (bmax a)))) (a1, pr1)) as [a2 pr2].
    cbn [fst snd] in *. destruct G2 as (I1 & I2 & I3 & I4 & I5).
    destruct (BInvL_reblen n a2 n I1) as [R1 R2].
    split; [apply N.eqb_eq; lia|]. split; [exact R1|]. split; [reflexivity|]. split; [exact I2|].
    intros p. rewrite R2, I5, Hpf0. assert (pr2 = n) as -> by lia.
    split.
    + intros [Hp|Hp]; [left; split; [exact Hp|]|right; lia].
      pose proof (pfree_lt L a p Hs Hp). lia.
    + intros [[Hp _]|Hp]; [now left|right; lia].
  - (* shrink *)
    assert (shrink_inv L n a a n) as Hg0.
    { split; [exact Hinv|]. split; [reflexivity|]. split; [reflexivity|]. split; [lia|]. split; [lia|].
      intros p. split; [intros Hp; split; [exact Hp|lia]|tauto]. }
    pose proof (shrink_align_spec L n a Htail H32 a n Hg0) as S1.
    destruct (while_fuel (order_fuel a) _ shrink_align_step (a, n, false, true)) as [[[a1 pr1] st1] ok1].
    destruct S1 as (G1 & A1 & O1).
    pose proof (shrink_fill_all L n a (S (N.to_nat (bmax a))) (a1, pr1, ok1) Htail G1 O1) as S2.
    cbv zeta in S2. cbn [fst snd Nat.pred] in S2.
    destruct S2 as (G2 & O2 & E2).
    { lia. }
    { intros _. rewrite N2Nat.id. exact A1. }
    { discriminate. }
    destruct (fold_left shrink_fill_order (orders_down (S (N.to_nat (bmax a)))) (a1, pr1, ok1)) as [[a2 pr2] ok2].
    cbn [fst snd] in *. destruct G2 as (I1 & I2 & I3 & I4 & I5 & I6).
    assert (pr2 = L) as -> by lia.
    pose proof I1 as (Hs2 & _).
    destruct (resize_bitmaps_spec L a2 n n Hs2) as [Hs3 Hfr3].
    { eapply resize_trees_pre_shrink; eauto. }
    { intros k j Hk Hj. destruct (fr a2 k j) eqn:F; [|reflexivity]. exfalso.
      pose proof (pow2_pos k).
      assert (pfree a2 (j * 2 ^ k + (2 ^ k - 1))) as Hp.
      { exists k. split; [exact Hk|]. rewrite N.div_add_l by lia. rewrite N.div_small by lia.
        rewrite N.add_0_r. exact F. }
      apply I6 in Hp. destruct Hp as [Hp Hnot]. apply Hnot. split.
      - dmod n (2 ^ k). nia.
      - apply (pfree_lt L a _ Hs Hp). }
    set (a3 := mkBuddy (resize_bitmaps (bfree a2) n) n (bmax a2)) in *.
    destruct (BInvL_same_fr L n a2 a3 I1 Hs3 eq_refl Hfr3) as [Hinv3 Hpf3].
    split; [rewrite O2, N.eqb_refl; reflexivity|]. split; [exact Hinv3|]. split; [reflexivity|].
    split; [exact I2|].
    intros p. rewrite Hpf3, I6. split.
    + intros [Hp Hnot]. left. split; [exact Hp|]. pose proof (pfree_lt L a p Hs Hp). lia.
    + intros [[Hp Hlt]|Hp]; [split; [exact Hp|lia]|lia].
Qed.
