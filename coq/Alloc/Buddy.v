(* C14 model, part 2: buddy_allocator.rs.  Definitions only; proofs in BuddyP.v.
   BuddyAllocator { free: Vec<BtreeBitmap>, len: u32, max_order: u8 }.
   A clear bit i in free[k] means: block k/i = pages [i*2^k, (i+1)*2^k) is free at order k.
   Recursion of alloc_inner / free_inner / record_alloc_inner is on explicit fuel (max_order + 2 is
   always enough: every call increases the order and stops above max_order). *)
From Coq Require Import List NArith Bool.
From RV Require Import Base.Bytes Gen.Consts Alloc.Bitmap.
Import ListNotations.
Open Scope N_scope.

Record Buddy := mkBuddy { bfree : list Btree; blen : N; bmax : N }.

Definition empty_bt : Btree := [].
Definition ord (a : Buddy) (order : N) : Btree := lget (bfree a) order empty_bt.
Definition with_ord (a : Buddy) (order : N) (t : Btree) : Buddy :=
  mkBuddy (lset (bfree a) order t) (blen a) (bmax a).

Definition order_fuel (a : Buddy) : nat := S (S (N.to_nat (bmax a))).

(* generic bounded while loop *)
Fixpoint while_fuel {S : Type} (fuel : nat) (cond : S -> bool) (body : S -> S) (s : S) : S :=
  match fuel with
  | O => s
  | Datatypes.S f => if cond s then while_fuel f cond body (body s) else s
  end.

(* u32::trailing_zeros (32 for 0) *)
Fixpoint ptz (p : positive) : N :=
  match p with
  | xO q => N.succ (ptz q)
  | _ => 0
  end.
Definition tz32 (n : N) : N := match n with N0 => 32 | Npos p => ptz p end.

Definition next_higher_order (page : N) : N := page / 2.
Definition buddy_page (page : N) : N := N.lxor page 1.

(* (32 - leading_zeros - 1) capped; defined for pages >= 1 (pages = 0 underflows in Rust) *)
Definition calculate_usable_order (pages : N) : N := N.min MAX_MAX_PAGE_ORDER (N.log2 pages).

(* ---------------------------------------------------------------- new *)

Fixpoint new_bitmaps (n : nat) (pages capacity : N) : list Btree :=
  match n with
  | O => []
  | S m => bt_new_padded pages pages capacity
           :: new_bitmaps m (next_higher_order pages) (next_higher_order capacity)
  end.

(* state of the marking loop: (free lists as allocator, accounted_pages) *)
Definition mark_order (num_pages : N) (order : N) (st : Buddy * N) : Buddy * N :=
  let size := 2 ^ order in
  while_fuel (S (N.to_nat (num_pages / size)))
    (fun s => snd s + size <=? num_pages)
    (fun s => (with_ord (fst s) order (bt_clear (ord (fst s) order) (snd s / size)), snd s + size))
    st.

(* orders max_order, max_order-1, ..., 0 *)
Fixpoint orders_down (n : nat) : list N :=
  match n with
  | O => []
  | S m => N.of_nat m :: orders_down m
  end.

Definition buddy_new (num_pages max_page_capacity : N) : Buddy :=
  let max_order := calculate_usable_order max_page_capacity in
  let a0 := mkBuddy (new_bitmaps (S (N.to_nat max_order)) num_pages max_page_capacity) num_pages max_order in
  fst (fold_left (fun st o => mark_order num_pages o st) (orders_down (S (N.to_nat max_order))) (a0, 0)).

(* asserted at the end of new: accounted_pages == num_pages (always true); max_page_capacity = 0 underflows *)
Definition buddy_new_pre (num_pages max_page_capacity : N) : bool := 1 <=? max_page_capacity.

(* ---------------------------------------------------------------- alloc / free / record_alloc *)

Fixpoint alloc_inner (fuel : nat) (a : Buddy) (order : N) : option N * Buddy :=
  match fuel with
  | O => (None, a)
  | S f =>
      if bmax a <? order then (None, a)
      else
        match bt_alloc (ord a order) with
        | (Some x, t') => (Some x, with_ord a order t')
        | (None, _) =>
            match alloc_inner f a (order + 1) with
            | (Some upper, a1) =>
                (Some (upper * 2), with_ord a1 order (bt_clear (ord a1 order) (upper * 2 + 1)))
            | (None, a1) => (None, a1)
            end
        end
  end.

Definition buddy_alloc (a : Buddy) (order : N) : option N * Buddy := alloc_inner (order_fuel a) a order.

(* returns (order of the resulting free block, state) *)
Fixpoint free_inner (fuel : nat) (a : Buddy) (page order : N) : N * Buddy :=
  match fuel with
  | O => (order, a)
  | S f =>
      if order =? bmax a then (order, with_ord a order (bt_clear (ord a order) page))
      else
        let t := ord a order in
        let buddy := buddy_page page in
        if (bt_len t <=? buddy) || bt_get t buddy
        then (order, with_ord a order (bt_clear t page))
        else free_inner f (with_ord a order (bt_set t buddy)) (next_higher_order page) (order + 1)
  end.

Definition buddy_free (a : Buddy) (page order : N) : N * Buddy := free_inner (order_fuel a) a page order.

(* debug_assert!(get(page)) in free(), the index assertion inside get, and the Vec index by order *)
Definition buddy_free_pre (a : Buddy) (page order : N) : bool :=
  (order <=? bmax a) && (page <? bt_len (ord a order)) && bt_get (ord a order) page.

Fixpoint record_alloc_inner (fuel : nat) (a : Buddy) (page order : N) : bool * Buddy :=
  match fuel with
  | O => (false, a)
  | S f =>
      if bmax a <? order then (false, a)
      else
        let t := ord a order in
        if bt_len t <=? page then (false, a)
        else if bt_get t page then
          let upper := next_higher_order page in
          match record_alloc_inner f a upper (order + 1) with
          | (false, _) => (false, a)
          | (true, a1) =>
              let t1 := ord a1 order in
              let sibling := if upper * 2 =? page then upper * 2 + 1 else upper * 2 in
              (true, with_ord a1 order (bt_clear t1 sibling))
          end
        else (true, with_ord a order (bt_set t page))
  end.

Definition buddy_record_alloc (a : Buddy) (page order : N) : bool * Buddy :=
  record_alloc_inner (order_fuel a) a page order.

(* ---------------------------------------------------------------- alloc_lowest *)

(* loop state: allocator, best (index, order), best_index_at_order *)
Fixpoint lowest_scan (orders : list N) (mult : N) (a : Buddy) (best : N * N) (best_at : N)
  : Buddy * (N * N) * N :=
  match orders with
  | [] => (a, best, best_at)
  | i :: rest =>
      match alloc_inner (order_fuel a) a i with
      | (Some index, a1) =>
          let index_at_order := index * mult in
          if index_at_order <? best_at then
            let a2 := snd (free_inner (order_fuel a) a1 (fst best) (snd best)) in
            lowest_scan rest (mult * 2) a2 (index, i) index_at_order
          else
            let a2 := snd (free_inner (order_fuel a) a1 index i) in
            lowest_scan rest (mult * 2) a2 best best_at
      | (None, a1) => lowest_scan rest (mult * 2) a1 best best_at
      end
  end.

(* orders lo, lo+1, ..., lo+n-1 *)
Fixpoint orders_up (n : nat) (lo : N) : list N :=
  match n with
  | O => []
  | S m => lo :: orders_up m (lo + 1)
  end.

(* split best down to the requested order *)
Fixpoint split_down (fuel : nat) (a : Buddy) (best : N * N) (order : N) : Buddy * (N * N) :=
  match fuel with
  | O => (a, best)
  | S f =>
      if order <? snd best then
        let bi := fst best in
        let bo := snd best in
        let a' := with_ord a (bo - 1) (bt_clear (ord a (bo - 1)) (bi * 2 + 1)) in
        split_down f a' (bi * 2, bo - 1) order
      else (a, best)
  end.

Definition buddy_alloc_lowest (a : Buddy) (order : N) : option N * Buddy :=
  match alloc_inner (order_fuel a) a order with
  | (None, a1) => (None, a1)
  | (Some idx, a1) =>
      let '(a2, best, _) :=
        lowest_scan (orders_up (N.to_nat (bmax a - order)) (order + 1)) 2 a1 (idx, order) idx in
      let '(a3, best') := split_down (order_fuel a) a2 best order in
      (Some (fst best'), a3)
  end.

(* ---------------------------------------------------------------- queries *)

Definition highest_free_order (a : Buddy) : option N :=
  find (fun o => bt_has_unset (ord a o)) (orders_down (S (N.to_nat (bmax a)))).

Definition count_free_pages (a : Buddy) : N :=
  fold_left (fun acc o => acc + bt_count_unset (ord a o) * 2 ^ o) (orders_up (S (N.to_nat (bmax a))) 0) 0.

Definition count_allocated_pages (a : Buddy) : N := blen a - count_free_pages a.

Fixpoint find_free_order_loop (orders : list N) (a : Buddy) (page : N) : option N :=
  match orders with
  | [] => None
  | o :: rest =>
      if (page <? bt_len (ord a o)) && negb (bt_get (ord a o) page) then Some o
      else find_free_order_loop rest a (next_higher_order page)
  end.
Definition find_free_order (a : Buddy) (page : N) : option N :=
  find_free_order_loop (orders_up (S (N.to_nat (bmax a))) 0) a page.

(* loop state: (free_pages, next_page, finished) *)
Definition trailing_free_pages (a : Buddy) : N :=
  let step (s : N * N * bool) : N * N * bool :=
    let '(fp, np, _) := s in
    match find_free_order a np with
    | None => (fp, np, true)
    | Some o =>
        let size := 2 ^ o in
        if np <? size then (fp + size, np, true) else (fp + size, np - size, false)
    end in
  let '(fp, _, _) :=
    while_fuel (S (N.to_nat (blen a))) (fun s => negb (snd s)) step (0, blen a - 1, false) in
  fp.
(* `self.len() - 1` underflows for len = 0 (debug panic) *)
Definition trailing_free_pages_pre (a : Buddy) : bool := 1 <=? blen a.

(* ---------------------------------------------------------------- debug_check_consistency *)

(* The Rust check walks page by page; the model computes the same booleans with list traversals
   (linear instead of quadratic):
   - no page lies inside a free block at more than one order;
   - below max_order no two buddies are both free. *)
Fixpoint expand (l : list bool) (rep : N) : list bool :=
  match l with
  | [] => []
  | b :: r => nrepeat b rep ++ expand r rep
  end.

(* add one mark to every page whose covering block at this order is free (bit clear) *)
Fixpoint add_marks (acc : list N) (fl : list bool) : list N :=
  match acc, fl with
  | m :: ar, b :: br => (if b then m else m + 1) :: add_marks ar br
  | _, [] => acc
  | [], _ => []
  end.

Definition order_bits (a : Buddy) (order : N) : list bool :=
  nfirstn (bt_len (ord a order)) (ubits (bt_leaf (ord a order))).

Definition page_marks (a : Buddy) : list N :=
  fold_left (fun acc k => add_marks acc (expand (order_bits a k) (2 ^ k)))
            (orders_up (S (N.to_nat (bmax a))) 0) (nrepeat 0 (blen a)).

Definition no_double_free (a : Buddy) : bool := forallb (fun m => m <=? 1) (page_marks a).

Fixpoint pairs_ok (l : list bool) : bool :=
  match l with
  | b0 :: b1 :: r => (b0 || b1) && pairs_ok r
  | _ => true
  end.

Definition buddies_merged_at (a : Buddy) (order : N) : bool :=
  pairs_ok (nfirstn (blen a / 2 ^ order) (order_bits a order)).

Fixpoint range_from (n : nat) (lo : N) : list N :=
  match n with
  | O => []
  | S m => lo :: range_from m (lo + 1)
  end.

Definition consistentb (a : Buddy) : bool :=
  no_double_free a && forallb (buddies_merged_at a) (orders_up (N.to_nat (bmax a)) 0).

(* ---------------------------------------------------------------- resize *)

Fixpoint resize_bitmaps (l : list Btree) (pages : N) : list Btree :=
  match l with
  | [] => []
  | t :: r => bt_resize t pages true :: resize_bitmaps r (next_higher_order pages)
  end.

(* loop state: (allocator, processed_pages, stop, ok) ; ok records the assert!(record_alloc_inner) *)
Definition grow_align_step (new_size : N) (s : Buddy * N * bool) : Buddy * N * bool :=
  let '(a, processed, _) := s in
  let order := tz32 processed in
  let size := 2 ^ order in
  if (bmax a <=? order) || (new_size <? processed + size) then (a, processed, true)
  else (snd (free_inner (order_fuel a) a (processed / size) order), processed + size, false).

Definition grow_fill_order (new_size : N) (st : Buddy * N) (order : N) : Buddy * N :=
  let size := 2 ^ order in
  while_fuel (S (N.to_nat ((new_size - snd st) / size)))
    (fun s => snd s + size <=? new_size)
    (fun s => (snd (free_inner (order_fuel (fst s)) (fst s) (snd s / size) order), snd s + size))
    st.

Definition shrink_align_step (s : Buddy * N * bool * bool) : Buddy * N * bool * bool :=
  let '(a, processed, _, ok) := s in
  let order := tz32 processed in
  if bmax a <=? order then (a, processed, true, ok)
  else
    let size := 2 ^ order in
    if blen a <? processed + size then (a, processed, true, ok)
    else
      let '(r, a') := record_alloc_inner (order_fuel a) a (processed / size) order in
      (a', processed + size, false, ok && r).

Definition shrink_fill_order (st : Buddy * N * bool) (order : N) : Buddy * N * bool :=
  let size := 2 ^ order in
  let len := blen (fst (fst st)) in
  while_fuel (S (N.to_nat ((len - snd (fst st)) / size)))
    (fun s => snd (fst s) + size <=? len)
    (fun s => let '(a, processed, ok) := s in
              let '(r, a') := record_alloc_inner (order_fuel a) a (processed / size) order in
              (a', processed + size, ok && r))
    st.

(* returns (state, all asserts held) *)
Definition buddy_resize_ok (a : Buddy) (new_size : N) : Buddy * bool :=
  if blen a <? new_size then
    let a0 := mkBuddy (resize_bitmaps (bfree a) new_size) (blen a) (bmax a) in
    let '(a1, processed, _) :=
      while_fuel (order_fuel a)
        (fun s => negb (snd s) && (snd (fst s) <? new_size))
        (grow_align_step new_size) (a0, blen a, false) in
    let '(a2, processed2) :=
      fold_left (grow_fill_order new_size) (orders_down (S (N.to_nat (bmax a)))) (a1, processed) in
    (mkBuddy (bfree a2) new_size (bmax a2), processed2 =? new_size)
  else
    let '(a1, processed, _, ok1) :=
      while_fuel (order_fuel a)
        (fun s => negb (snd (fst s)) && (snd (fst (fst s)) <? blen a))
        shrink_align_step (a, new_size, false, true) in
    let '(a2, processed2, ok2) :=
      fold_left shrink_fill_order (orders_down (S (N.to_nat (bmax a)))) (a1, processed, ok1) in
    (mkBuddy (resize_bitmaps (bfree a2) new_size) new_size (bmax a2), ok2 && (processed2 =? blen a)).

Definition buddy_resize (a : Buddy) (new_size : N) : Buddy := fst (buddy_resize_ok a new_size).

(* resize panics when: the state is inconsistent (debug_check_consistency, debug builds), growing from
   length 0 (2u32.pow(32) overflows: DESIGN 6.3 F1), the dropped tail is not free (assert!), or a bitmap
   tree would need a new level (assert in BtreeBitmap::resize) *)
Definition resize_trees_pre (a : Buddy) (new_size : N) : bool :=
  (fix go (l : list Btree) (pages : N) : bool :=
     match l with
     | [] => true
     | t :: r => bt_resize_pre t pages && go r (next_higher_order pages)
     end) (bfree a) new_size.

Definition buddy_resize_pre (a : Buddy) (new_size : N) : bool :=
  consistentb a
  && (negb (blen a =? 0) || (new_size <=? blen a))
  && resize_trees_pre a new_size
  && snd (buddy_resize_ok a new_size)
  && consistentb (buddy_resize a new_size).

(* ---------------------------------------------------------------- serialisation *)

Definition buddy_to_vec (a : Buddy) : bytes :=
  let ser := map bt_to_vec (bfree a) in
  let header_bytes := 1 + BUDDY_PADDING + 4 in
  let offsets_bytes := (bmax a + 1) * 4 in
  [bmax a] ++ nrepeat 0 BUDDY_PADDING ++ le_encode 4 (blen a)
  ++ flat_map (le_encode 4) (ends_from (header_bytes + offsets_bytes) (map nlen ser))
  ++ concat ser.

Definition buddy_from_bytes (data : bytes) : Buddy :=
  let max_order := lget data BUDDY_MAX_ORDER_OFFSET 0 in
  let num_pages := le_decode (nfirstn 4 (nskipn BUDDY_NUM_PAGES_OFFSET data)) in
  let ends := map le_decode (chunks4 (S (N.to_nat max_order)) (nskipn BUDDY_FREE_END_OFFSETS data)) in
  mkBuddy (map bt_from_bytes (slices data (BUDDY_FREE_END_OFFSETS + (max_order + 1) * 4) ends))
          num_pages max_order.
