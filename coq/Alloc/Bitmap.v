(* C14 model, part 1: bitmap.rs  (U64GroupedBitmap and the 64-ary summary tree BtreeBitmap).
   Definitions only; proofs are in BitmapP.v.

   A U64GroupedBitmap {len: u32, data: Vec<u64>} is modelled as (ulen, ubits) where ubits is the
   concatenation of the 64 bits of every word of `data`, least significant bit first (so bit i of the
   bitmap is element i of the list, exactly the Rust data_index_of/select_mask addressing).
   Operations are total: where the Rust code would panic (index assertion, slice out of range, unwrap
   of None) the model returns an unspecified but fixed result; the preconditions that exclude the
   panics are the *_pre booleans in Buddy.v / stated in the lemmas. *)
From Coq Require Import List NArith Bool.
From RV Require Import Base.Bytes Gen.Consts.
Import ListNotations.
Open Scope N_scope.

(* ---------------------------------------------------------------- lists indexed by N *)

Fixpoint nlen {A} (l : list A) : N :=
  match l with [] => 0 | _ :: r => N.succ (nlen r) end.

Definition nrepeat {A} (v : A) (n : N) : list A := N.iter n (cons v) [].

Fixpoint nfirstn {A} (n : N) (l : list A) : list A :=
  match l with
  | [] => []
  | x :: r => if n =? 0 then [] else x :: nfirstn (N.pred n) r
  end.

Fixpoint nskipn {A} (n : N) (l : list A) : list A :=
  match l with
  | [] => []
  | x :: r => if n =? 0 then l else nskipn (N.pred n) r
  end.

(* generic get / update with default *)
Fixpoint lget {A} (l : list A) (i : N) (d : A) : A :=
  match l with
  | [] => d
  | x :: r => if i =? 0 then x else lget r (N.pred i) d
  end.

Fixpoint lset {A} (l : list A) (i : N) (v : A) : list A :=
  match l with
  | [] => []
  | x :: r => if i =? 0 then v :: r else x :: lset r (N.pred i) v
  end.

(* bit access; out of range reads as "set" *)
Definition nget (l : list bool) (i : N) : bool := lget l i true.
Definition nupd (l : list bool) (i : N) (v : bool) : list bool := lset l i v.

(* set bits with index in [lo, hi) to v;  pos = index of the head of l *)
Fixpoint set_range_from (l : list bool) (pos lo hi : N) (v : bool) : list bool :=
  match l with
  | [] => []
  | b :: r => (if (lo <=? pos) && (pos <? hi) then v else b) :: set_range_from r (N.succ pos) lo hi v
  end.
Definition set_range (l : list bool) (lo hi : N) (v : bool) : list bool := set_range_from l 0 lo hi v.

(* position (offset by pos) of the first false element *)
Fixpoint scan (l : list bool) (pos : N) : option N :=
  match l with
  | [] => None
  | b :: r => if b then scan r (N.succ pos) else Some pos
  end.

Fixpoint count_false (l : list bool) : N :=
  match l with
  | [] => 0
  | b :: r => if b then count_false r else N.succ (count_false r)
  end.

Definition all_true (l : list bool) : bool := forallb (fun b => b) l.

(* ---------------------------------------------------------------- bits <-> little-endian bytes *)

Definition b2n (b : bool) : N := if b then 1 else 0.

Fixpoint bits_to_bytes (l : list bool) : bytes :=
  match l with
  | b0 :: b1 :: b2 :: b3 :: b4 :: b5 :: b6 :: b7 :: r =>
      (b2n b0 + 2 * b2n b1 + 4 * b2n b2 + 8 * b2n b3 + 16 * b2n b4 + 32 * b2n b5 + 64 * b2n b6 + 128 * b2n b7)
        :: bits_to_bytes r
  | _ => []
  end.

Definition byte_bits (x : N) : list bool :=
  [N.testbit x 0; N.testbit x 1; N.testbit x 2; N.testbit x 3;
   N.testbit x 4; N.testbit x 5; N.testbit x 6; N.testbit x 7].

Fixpoint bytes_to_bits (l : bytes) : list bool :=
  match l with
  | [] => []
  | x :: r => byte_bits x ++ bytes_to_bits r
  end.

(* ---------------------------------------------------------------- U64GroupedBitmap *)

Record U64 := mkU64 { ulen : N; ubits : list bool }.

Definition ceil64 (n : N) : N := (n + 63) / 64.          (* u32::div_ceil(64) *)
Definition required_words (elements : N) : N := ceil64 elements.

Definition u_new_full (len capacity : N) : U64 :=
  mkU64 len (nrepeat true (64 * required_words capacity)).

(* the 64 bits of word `index` *)
Definition u_word (u : U64) (index : N) : list bool := nfirstn 64 (nskipn (64 * index) (ubits u)).

Definition u_to_vec (u : U64) : bytes :=
  le_encode 4 (ulen u) ++ bits_to_bytes (nfirstn (64 * required_words (ulen u)) (ubits u)).

(* from_bytes: 4 bytes length, then whole words (the Rust code asserts (|s|-4) mod 8 = 0) *)
Definition u_from_bytes (s : bytes) : U64 :=
  let words := (nlen s - 4) / 8 in
  mkU64 (le_decode (nfirstn 4 s)) (bytes_to_bits (nfirstn (8 * words) (nskipn 4 s))).

Definition u_from_bytes_pre (s : bytes) : bool :=
  (4 <=? nlen s) && ((nlen s - 4) mod 8 =? 0).

Definition u_count_unset (u : U64) : N := count_false (ubits u).
Definition u_any_unset (u : U64) : bool := negb (all_true (ubits u)).

(* first_unset(start_bit, end_bit): end_bit is only asserted (= start rounded down + 64) *)
Definition u_first_unset (u : U64) (start : N) : option N :=
  if ulen u =? 0 then None
  else scan (nskipn (start mod 64) (u_word u (start / 64))) start.

Definition u_get (u : U64) (bit : N) : bool := nget (ubits u) bit.

(* set: returns the new bitmap and "the bit's group is now all ones" *)
Definition u_set (u : U64) (bit : N) : U64 * bool :=
  let u' := mkU64 (ulen u) (nupd (ubits u) bit true) in
  (u', all_true (u_word u' (bit / 64))).

Definition u_clear (u : U64) (bit : N) : U64 := mkU64 (ulen u) (nupd (ubits u) bit false).

Definition u_resize (u : U64) (new_len : N) (full : bool) : U64 :=
  let need := 64 * required_words new_len in
  let have := nlen (ubits u) in
  let bits1 := if have <? need then ubits u ++ nrepeat full (need - have) else ubits u in
  if new_len <=? ulen u then mkU64 new_len bits1
  else mkU64 new_len (set_range bits1 (ulen u) new_len full).

(* ---------------------------------------------------------------- BtreeBitmap: levels, root first *)

Definition Btree := list U64.

Definition bt_leaf (t : Btree) : U64 := last t (mkU64 0 []).
Definition bt_len (t : Btree) : N := ulen (bt_leaf t).
Definition bt_get (t : Btree) (i : N) : bool := u_get (bt_leaf t) i.
Definition bt_count_unset (t : Btree) : N := u_count_unset (bt_leaf t).
Definition bt_has_unset (t : Btree) : bool := u_any_unset (bt_leaf t).

(* new(): built leaf first by pushing, then reversed; consing onto acc does both at once *)
Fixpoint bt_new_loop (fuel : nat) (num_pages capacity : N) (acc : Btree) : Btree :=
  let acc' := u_new_full num_pages capacity :: acc in
  match fuel with
  | O => acc'
  | S f => if capacity <=? 64 then acc' else bt_new_loop f (ceil64 num_pages) (ceil64 capacity) acc'
  end.

Definition bt_new (num_pages capacity : N) : Btree :=
  bt_new_loop (N.size_nat capacity) num_pages capacity [].

Fixpoint height_loop (fuel : nat) (capacity : N) (height : N) : N :=
  match fuel with
  | O => height
  | S f => if 64 <? capacity then height_loop f (ceil64 capacity) (height + 1) else height
  end.
Definition height_for_capacity (capacity : N) : N := height_loop (N.size_nat capacity) capacity 1.

Fixpoint pad_loop (fuel : nat) (t : Btree) (max_height : N) : Btree :=
  match fuel with
  | O => t
  | S f =>
      if nlen t <? max_height then
        let parent_len := ceil64 (ulen (hd (mkU64 0 []) t)) in
        pad_loop f (u_new_full parent_len parent_len :: t) max_height
      else t
  end.

Definition bt_new_padded (num_pages capacity max_capacity : N) : Btree :=
  let h := height_for_capacity max_capacity in
  pad_loop (N.to_nat h) (bt_new num_pages capacity) h.

(* resize: from the leaf towards the root; returns the levels and the length for the next level up *)
Fixpoint bt_resize_aux (t : Btree) (new_len : N) (full : bool) : Btree * N :=
  match t with
  | [] => ([], new_len)
  | l :: rest =>
      let '(rest', nl) := bt_resize_aux rest new_len full in
      (u_resize l nl full :: rest', ceil64 nl)
  end.
Definition bt_resize (t : Btree) (new_len : N) (full : bool) : Btree := fst (bt_resize_aux t new_len full).
(* asserted at the end of resize: the root has at most 64 entries *)
Definition bt_resize_pre (t : Btree) (new_len : N) : bool :=
  ulen (hd (mkU64 0 []) (bt_resize t new_len true)) <=? 64.

Fixpoint bt_descend (rest : Btree) (entry : N) : option N :=
  match rest with
  | [] => Some entry
  | l :: r =>
      match u_first_unset l (64 * entry) with
      | Some e => bt_descend r e
      | None => None                  (* Rust: unwrap() panics; excluded by the tree invariant *)
      end
  end.

Definition bt_find_first_unset (t : Btree) : option N :=
  match t with
  | [] => None
  | root :: rest =>
      match u_first_unset root 0 with
      | Some e => bt_descend rest e
      | None => None
      end
  end.

(* set(i) with update_to_root: result = (levels, full flag of this level's word, entry index at this level) *)
Fixpoint bt_set_aux (t : Btree) (i : N) : Btree * bool * N :=
  match t with
  | [] => ([], false, i)
  | [leaf] => let '(leaf', full) := u_set leaf i in ([leaf'], full, i)
  | l :: rest =>
      let '(rest', full, ci) := bt_set_aux rest i in
      let pe := ci / 64 in
      if full then let '(l', f') := u_set l pe in (l' :: rest', f', pe)
      else (u_clear l pe :: rest', false, pe)
  end.
Definition bt_set (t : Btree) (i : N) : Btree := fst (fst (bt_set_aux t i)).

Fixpoint bt_clear_aux (t : Btree) (i : N) : Btree * N :=
  match t with
  | [] => ([], i)
  | [leaf] => ([u_clear leaf i], i)
  | l :: rest =>
      let '(rest', ci) := bt_clear_aux rest i in
      let pe := ci / 64 in
      (u_clear l pe :: rest', pe)
  end.
Definition bt_clear (t : Btree) (i : N) : Btree := fst (bt_clear_aux t i).

Definition bt_alloc (t : Btree) : option N * Btree :=
  match bt_find_first_unset t with
  | Some e => (Some e, bt_set t e)
  | None => (None, t)
  end.

(* ---- serialisation:  height u32 | end offset u32 per level | level data *)
Fixpoint ends_from (start : N) (lens : list N) : list N :=
  match lens with
  | [] => []
  | n :: r => (start + n) :: ends_from (start + n) r
  end.

Definition bt_to_vec (t : Btree) : bytes :=
  let vecs := map u_to_vec t in
  let h := nlen t in
  let meta_end := BITMAP_END_OFFSETS + 4 * h in
  le_encode 4 h
  ++ flat_map (le_encode 4) (ends_from meta_end (map nlen vecs))
  ++ concat vecs.

(* slices data[start..end] for the successive end offsets *)
Fixpoint slices (data : bytes) (start : N) (ends : list N) : list bytes :=
  match ends with
  | [] => []
  | e :: r => nfirstn (e - start) (nskipn start data) :: slices data e r
  end.

Fixpoint chunks4 (fuel : nat) (l : bytes) : list bytes :=
  match fuel with
  | O => []
  | S f => nfirstn 4 l :: chunks4 f (nskipn 4 l)
  end.

Definition bt_from_bytes (data : bytes) : Btree :=
  let h := le_decode (nfirstn 4 (nskipn BITMAP_HEIGHT_OFFSET data)) in
  let ends := map le_decode (chunks4 (N.to_nat h) (nskipn BITMAP_END_OFFSETS data)) in
  map u_from_bytes (slices data (BITMAP_END_OFFSETS + 4 * h) ends).
