(* C14 proofs, part 1: N-indexed list helpers and U64GroupedBitmap. *)
From Coq Require Import List NArith Bool Lia.
From RV Require Import Base.Bytes Gen.Consts Alloc.Bitmap.
Import ListNotations.
Open Scope N_scope.

(* ---------------------------------------------------------------- N-indexed lists vs nat-indexed lists *)

Lemma nlen_length {A} (l : list A) : nlen l = N.of_nat (length l).
Proof. induction l; simpl; [reflexivity|]. rewrite IHl. lia. Qed.

Lemma nlen_app {A} (l1 l2 : list A) : nlen (l1 ++ l2) = nlen l1 + nlen l2.
Proof. rewrite !nlen_length, app_length. lia. Qed.

Lemma nrepeat_repeat {A} (v : A) n : nrepeat v n = repeat v (N.to_nat n).
Proof.
  unfold nrepeat. rewrite N2Nat.inj_iter.
  induction (N.to_nat n); simpl; [reflexivity|]. now rewrite IHn0.
Qed.

Lemma nlen_nrepeat {A} (v : A) n : nlen (nrepeat v n) = n.
Proof. rewrite nlen_length, nrepeat_repeat, repeat_length. lia. Qed.

Lemma lget_nth {A} (l : list A) i d : lget l i d = nth (N.to_nat i) l d.
Proof.
  revert i. induction l; intros i; simpl.
  - destruct (N.to_nat i); reflexivity.
  - destruct (N.eqb_spec i 0).
    + subst. reflexivity.
    + rewrite IHl. replace (N.to_nat i) with (S (N.to_nat (N.pred i))) by lia. reflexivity.
Qed.

Lemma lget_0 {A} (x : A) l d : lget (x :: l) 0 d = x.
Proof. reflexivity. Qed.

Lemma lget_succ {A} (x : A) l i d : lget (x :: l) (N.succ i) d = lget l i d.
Proof.
  simpl. destruct (N.eqb_spec (N.succ i) 0); [lia|]. now rewrite N.pred_succ.
Qed.

Lemma lget_cons_pos {A} (x : A) l i d : 0 < i -> lget (x :: l) i d = lget l (i - 1) d.
Proof.
  intros. replace i with (N.succ (i - 1)) at 1 by lia. apply lget_succ.
Qed.

Lemma lget_oob {A} (l : list A) i d : nlen l <= i -> lget l i d = d.
Proof.
  rewrite lget_nth, nlen_length. intros. apply nth_overflow. lia.
Qed.

Lemma nlen_lset {A} (l : list A) i v : nlen (lset l i v) = nlen l.
Proof.
  revert i. induction l; intros; simpl; [reflexivity|].
  destruct (i =? 0); simpl; [reflexivity|]. now rewrite IHl.
Qed.

Lemma length_lset {A} (l : list A) i v : length (lset l i v) = length l.
Proof.
  pose proof (nlen_lset l i v) as H. rewrite !nlen_length in H. lia.
Qed.

Lemma lget_lset {A} (l : list A) i v j d :
  lget (lset l i v) j d = if (j =? i) && (i <? nlen l) then v else lget l j d.
Proof.
  revert i j. induction l; intros; simpl.
  - replace (i <? 0) with false by (symmetry; apply N.ltb_ge; lia). rewrite andb_false_r. reflexivity.
  - destruct (N.eqb_spec i 0).
    + subst. simpl. destruct (N.eqb_spec j 0); simpl.
      * assert (0 <? N.succ (nlen l) = true) as -> by (apply N.ltb_lt; lia). reflexivity.
      * reflexivity.
    + simpl. destruct (N.eqb_spec j 0).
      * subst. destruct (N.eqb_spec 0 i); [lia|]. reflexivity.
      * rewrite IHl.
        replace (N.pred j =? N.pred i) with (j =? i).
        2:{ destruct (N.eqb_spec j i), (N.eqb_spec (N.pred j) (N.pred i)); try reflexivity; lia. }
        replace (N.pred i <? nlen l) with (i <? N.succ (nlen l)).
        2:{ destruct (N.ltb_spec i (N.succ (nlen l))), (N.ltb_spec (N.pred i) (nlen l)); try reflexivity; lia. }
        reflexivity.
Qed.

Lemma lget_lset_same {A} (l : list A) i v d : i < nlen l -> lget (lset l i v) i d = v.
Proof.
  intros. rewrite lget_lset, N.eqb_refl. apply N.ltb_lt in H. now rewrite H.
Qed.

Lemma lget_lset_other {A} (l : list A) i v j d : j <> i -> lget (lset l i v) j d = lget l j d.
Proof.
  intros. rewrite lget_lset. destruct (N.eqb_spec j i); [contradiction|]. reflexivity.
Qed.

Lemma lset_oob {A} (l : list A) i v : nlen l <= i -> lset l i v = l.
Proof.
  revert i. induction l; intros; simpl in *; [reflexivity|].
  destruct (N.eqb_spec i 0); [lia|]. f_equal. apply IHl. lia.
Qed.

Lemma nfirstn_firstn {A} n (l : list A) : nfirstn n l = firstn (N.to_nat n) l.
Proof.
  revert n. induction l; intros; simpl.
  - now rewrite firstn_nil.
  - destruct (N.eqb_spec n 0).
    + subst. reflexivity.
    + rewrite IHl. replace (N.to_nat n) with (S (N.to_nat (N.pred n))) by lia. reflexivity.
Qed.

Lemma nskipn_skipn {A} n (l : list A) : nskipn n l = skipn (N.to_nat n) l.
Proof.
  revert n. induction l; intros; simpl.
  - now rewrite skipn_nil.
  - destruct (N.eqb_spec n 0).
    + subst. reflexivity.
    + rewrite IHl. replace (N.to_nat n) with (S (N.to_nat (N.pred n))) by lia. reflexivity.
Qed.

Lemma nlen_nfirstn {A} n (l : list A) : nlen (nfirstn n l) = N.min n (nlen l).
Proof. rewrite nfirstn_firstn, !nlen_length, firstn_length. lia. Qed.

Lemma nlen_nskipn {A} n (l : list A) : nlen (nskipn n l) = nlen l - n.
Proof. rewrite nskipn_skipn, !nlen_length, skipn_length. lia. Qed.

Lemma lget_nfirstn {A} n (l : list A) i d : i < n -> lget (nfirstn n l) i d = lget l i d.
Proof.
  intros. rewrite !lget_nth, nfirstn_firstn.
  rewrite <- (firstn_skipn (N.to_nat n) l) at 2.
  destruct (Nat.lt_ge_cases (N.to_nat i) (length (firstn (N.to_nat n) l))).
  - now rewrite app_nth1.
  - rewrite (nth_overflow (firstn _ _)) by lia.
    rewrite firstn_length in H0.
    assert (length l <= N.to_nat i)%nat by lia.
    rewrite firstn_skipn. now rewrite nth_overflow.
Qed.

Lemma lget_nskipn {A} n (l : list A) i d : lget (nskipn n l) i d = lget l (n + i) d.
Proof.
  rewrite !lget_nth, nskipn_skipn.
  replace (N.to_nat (n + i)) with (N.to_nat n + N.to_nat i)%nat by lia.
  revert l. induction (N.to_nat n); intros; simpl; [reflexivity|].
  destruct l; simpl; [destruct (N.to_nat i); reflexivity|]. apply IHn0.
Qed.

Lemma lget_app {A} (l1 l2 : list A) i d :
  lget (l1 ++ l2) i d = if i <? nlen l1 then lget l1 i d else lget l2 (i - nlen l1) d.
Proof.
  rewrite !lget_nth, nlen_length.
  destruct (N.ltb_spec i (N.of_nat (length l1))).
  - apply app_nth1. lia.
  - rewrite app_nth2 by lia. f_equal. lia.
Qed.

Lemma lget_nrepeat {A} (v : A) n i d : lget (nrepeat v n) i d = if i <? n then v else d.
Proof.
  rewrite lget_nth, nrepeat_repeat.
  destruct (N.ltb_spec i n).
  - assert (N.to_nat i < N.to_nat n)%nat as H0 by lia. revert H0.
    generalize (N.to_nat i) (N.to_nat n). intros a b. revert a.
    induction b; intros a Ha; [lia|]. destruct a; simpl; [reflexivity|]. apply IHb. lia.
  - apply nth_overflow. rewrite repeat_length. lia.
Qed.

(* two lists are equal when they have the same length and agree everywhere *)
Lemma list_ext {A} (l1 l2 : list A) d :
  nlen l1 = nlen l2 -> (forall i, i < nlen l1 -> lget l1 i d = lget l2 i d) -> l1 = l2.
Proof.
  revert l2. induction l1; intros l2 Hl H; destruct l2; simpl in Hl; try lia; [reflexivity|].
  f_equal.
  - specialize (H 0). rewrite !lget_0 in H. apply H. simpl. lia.
  - apply IHl1; [lia|]. intros i Hi. specialize (H (N.succ i)).
    rewrite !lget_succ in H. apply H. simpl. lia.
Qed.

(* ---------------------------------------------------------------- bit lists *)

Lemma nget_oob l i : nlen l <= i -> nget l i = true.
Proof. apply lget_oob. Qed.

Lemma nget_nupd l i v j : nget (nupd l i v) j = if (j =? i) && (i <? nlen l) then v else nget l j.
Proof. apply lget_lset. Qed.

Lemma nlen_nupd l i v : nlen (nupd l i v) = nlen l.
Proof. apply nlen_lset. Qed.

Lemma set_range_from_len l pos lo hi v : nlen (set_range_from l pos lo hi v) = nlen l.
Proof. revert pos. induction l; intros; simpl; [reflexivity|]. now rewrite IHl. Qed.

Lemma set_range_from_get l pos lo hi v j :
  nget (set_range_from l pos lo hi v) j
  = if (lo <=? pos + j) && (pos + j <? hi) && (j <? nlen l) then v else nget l j.
Proof.
  unfold nget. revert pos j. induction l; intros; simpl.
  - replace (j <? 0) with false by (symmetry; apply N.ltb_ge; lia). rewrite andb_false_r. reflexivity.
  - destruct (N.eqb_spec j 0).
    + subst. rewrite N.add_0_r.
      assert (0 <? N.succ (nlen l) = true) as -> by (apply N.ltb_lt; lia).
      rewrite andb_true_r. reflexivity.
    + rewrite IHl.
      replace (N.succ pos + N.pred j) with (pos + j) by lia.
      replace (N.pred j <? nlen l) with (j <? N.succ (nlen l)).
      2:{ destruct (N.ltb_spec j (N.succ (nlen l))), (N.ltb_spec (N.pred j) (nlen l)); try reflexivity; lia. }
      reflexivity.
Qed.

Lemma set_range_len l lo hi v : nlen (set_range l lo hi v) = nlen l.
Proof. apply set_range_from_len. Qed.

Lemma set_range_get l lo hi v j :
  nget (set_range l lo hi v) j = if (lo <=? j) && (j <? hi) && (j <? nlen l) then v else nget l j.
Proof. unfold set_range. rewrite set_range_from_get. reflexivity. Qed.

Lemma all_true_forall l : all_true l = true <-> (forall i, nget l i = true).
Proof.
  unfold all_true, nget. induction l.
  - simpl. split; auto.
  - cbn [forallb]. rewrite andb_true_iff, IHl. split.
    + intros [Ha H] i. destruct (N.eqb_spec i 0) as [->|Hn]; [rewrite lget_0; exact Ha|].
      rewrite lget_cons_pos by lia. apply H.
    + intros H. split.
      * apply (H 0).
      * intros i. specialize (H (N.succ i)). now rewrite lget_succ in H.
Qed.

Lemma all_true_false_exists l : all_true l = false <-> exists i, i < nlen l /\ nget l i = false.
Proof.
  unfold all_true, nget. induction l.
  - simpl. split; [discriminate|]. intros [i [H _]]. lia.
  - cbn [forallb nlen]. rewrite andb_false_iff, IHl. split.
    + intros [Ha | [i [Hi H]]].
      * exists 0. rewrite lget_0. split; [lia|exact Ha].
      * exists (N.succ i). rewrite lget_succ. split; [lia|assumption].
    + intros [i [Hi H]]. destruct (N.eqb_spec i 0) as [->|Hn].
      * left. rewrite lget_0 in H. exact H.
      * right. exists (i - 1). rewrite lget_cons_pos in H by lia. split; [lia|exact H].
Qed.

(* scan finds the least false position *)
Lemma scan_some l pos r :
  scan l pos = Some r ->
  pos <= r /\ r - pos < nlen l /\ nget l (r - pos) = false /\ (forall j, j < r - pos -> nget l j = true).
Proof.
  unfold nget. revert pos. induction l; intros pos H; simpl in H; [discriminate|].
  destruct a.
  - apply IHl in H. destruct H as (H1 & H2 & H3 & H4).
    assert (r - pos = N.succ (r - N.succ pos)) as E by lia.
    split; [lia|]. split; [simpl; lia|]. split.
    + rewrite E, lget_succ. exact H3.
    + intros j Hj. destruct (N.eqb_spec j 0) as [->|Hn]; [reflexivity|].
      replace j with (N.succ (N.pred j)) by lia. rewrite lget_succ. apply H4. lia.
  - inversion H; subst. rewrite N.sub_diag. split; [lia|]. split; [simpl; lia|]. split; [reflexivity|].
    intros j Hj. lia.
Qed.

Lemma scan_none l pos : scan l pos = None <-> all_true l = true.
Proof.
  unfold all_true. revert pos. induction l; intros; simpl; [tauto|].
  destruct a; simpl.
  - apply IHl.
  - split; discriminate.
Qed.

Lemma count_false_zero l : count_false l = 0 <-> all_true l = true.
Proof.
  unfold all_true. induction l; simpl; [tauto|].
  destruct a; simpl; [exact IHl|]. split; [lia|discriminate].
Qed.

(* ---------------------------------------------------------------- ceil64 *)

(* lia does not digest N./ and N.modulo reliably: replace x / d and x mod d by fresh variables *)
Ltac dmod x d :=
  let H1 := fresh "Hdm" in let H2 := fresh "Hdm" in
  pose proof (N.div_mod x d ltac:(lia)) as H1;
  pose proof (N.mod_upper_bound x d ltac:(lia)) as H2;
  generalize dependent (x / d); generalize dependent (x mod d); intros.

Lemma ceil64_le n : n <= 64 * ceil64 n.
Proof. unfold ceil64. dmod (n + 63) 64. lia. Qed.

Lemma ceil64_lt n : 0 < n -> 64 * ceil64 n < n + 64.
Proof. unfold ceil64. intros. dmod (n + 63) 64. lia. Qed.

Lemma ceil64_0 : ceil64 0 = 0.
Proof. reflexivity. Qed.

Lemma ceil64_mono a b : a <= b -> ceil64 a <= ceil64 b.
Proof. intros. unfold ceil64. apply N.div_le_mono; lia. Qed.

Lemma ceil64_small n : n <= 64 -> ceil64 n <= 1.
Proof.
  intros. unfold ceil64.
  assert ((n + 63) / 64 < 2); [|lia]. apply N.div_lt_upper_bound; lia.
Qed.

Lemma div64_lt_ceil i n : i < n -> i / 64 < ceil64 n.
Proof.
  intros. pose proof (ceil64_le n).
  apply N.div_lt_upper_bound; lia.
Qed.

Lemma ceil64_le_iff n w : ceil64 n <= w <-> n <= 64 * w.
Proof.
  split; intros.
  - pose proof (ceil64_le n). nia.
  - unfold ceil64. assert ((n + 63) / 64 < w + 1); [|lia].
    apply N.div_lt_upper_bound; lia.
Qed.

(* ---------------------------------------------------------------- U64GroupedBitmap invariants *)

(* whole words, enough for len *)
Definition uwf (u : U64) : Prop := exists w, nlen (ubits u) = 64 * w /\ ulen u <= 64 * w.
(* every bit at or above len is set *)
Definition upad (u : U64) : Prop := forall i, ulen u <= i -> u_get u i = true.
Definition lvl_ok (u : U64) : Prop := uwf u /\ upad u.

(* word j is all ones *)
Definition word_full (u : U64) (j : N) : Prop := forall i, i / 64 = j -> u_get u i = true.

Lemma u_word_get u j k : k < 64 -> nget (u_word u j) k = u_get u (64 * j + k) \/ nlen (ubits u) <= 64 * j + k.
Proof.
  intros. unfold u_word, u_get, nget.
  rewrite lget_nfirstn by assumption. rewrite lget_nskipn. now left.
Qed.

Lemma u_word_full_iff u j :
  64 * j + 64 <= nlen (ubits u) -> (all_true (u_word u j) = true <-> word_full u j).
Proof.
  intros Hw. rewrite all_true_forall. unfold word_full. split.
  - intros H i Hi. specialize (H (i mod 64)).
    pose proof (N.mod_upper_bound i 64 ltac:(lia)).
    unfold u_word, nget in H. rewrite lget_nfirstn, lget_nskipn in H by assumption.
    unfold u_get, nget. replace i with (64 * j + i mod 64) at 1; [exact H|].
    pose proof (N.div_mod i 64 ltac:(lia)). subst j. lia.
  - intros H k. unfold u_word, nget.
    destruct (N.ltb_spec k 64).
    + rewrite lget_nfirstn, lget_nskipn by assumption. apply (H (64 * j + k)).
      rewrite N.mul_comm, N.div_add_l by lia. rewrite N.div_small by assumption. lia.
    + apply lget_oob. rewrite nlen_nfirstn. lia.
Qed.

Lemma uwf_new_full len cap : len <= cap -> uwf (u_new_full len cap).
Proof.
  intros. exists (required_words cap). unfold u_new_full; cbn [ubits ulen].
  rewrite nlen_nrepeat. split; [reflexivity|].
  unfold required_words. pose proof (ceil64_le cap). lia.
Qed.

Lemma u_get_new_full len cap i : u_get (u_new_full len cap) i = true.
Proof.
  unfold u_get, nget, u_new_full; cbn [ubits]. rewrite lget_nrepeat. destruct (_ <? _); reflexivity.
Qed.

Lemma lvl_ok_new_full len cap : len <= cap -> lvl_ok (u_new_full len cap).
Proof.
  intros. split; [now apply uwf_new_full|]. intros i _. apply u_get_new_full.
Qed.

Lemma uwf_bits_bound u i : uwf u -> i < ulen u -> i < nlen (ubits u).
Proof. intros [w [H1 H2]] H. lia. Qed.

(* ---- set / clear *)
Lemma u_set_len u i : ulen (fst (u_set u i)) = ulen u.
Proof. reflexivity. Qed.
Lemma u_clear_len u i : ulen (u_clear u i) = ulen u.
Proof. reflexivity. Qed.

Lemma u_get_set u i j : i < nlen (ubits u) -> u_get (fst (u_set u i)) j = (j =? i) || u_get u j.
Proof.
  intros. unfold u_get, u_set. simpl. rewrite nget_nupd.
  apply N.ltb_lt in H. rewrite H, andb_true_r. destruct (j =? i); reflexivity.
Qed.

Lemma u_get_clear u i j : i < nlen (ubits u) -> u_get (u_clear u i) j = negb (j =? i) && u_get u j.
Proof.
  intros. unfold u_get, u_clear. simpl. rewrite nget_nupd.
  apply N.ltb_lt in H. rewrite H, andb_true_r. destruct (j =? i); reflexivity.
Qed.

Lemma uwf_set u i : uwf u -> uwf (fst (u_set u i)).
Proof. intros [w H]. exists w. simpl. now rewrite nlen_nupd. Qed.
Lemma uwf_clear u i : uwf u -> uwf (u_clear u i).
Proof. intros [w H]. exists w. simpl. now rewrite nlen_nupd. Qed.

Lemma lvl_ok_set u i : lvl_ok u -> i < ulen u -> lvl_ok (fst (u_set u i)).
Proof.
  intros [Hw Hp] Hi. split; [now apply uwf_set|].
  intros j Hj. rewrite u_get_set by (eapply uwf_bits_bound; eauto).
  rewrite (Hp j) by (simpl in Hj; exact Hj). apply orb_true_r.
Qed.

Lemma lvl_ok_clear u i : lvl_ok u -> i < ulen u -> lvl_ok (u_clear u i).
Proof.
  intros [Hw Hp] Hi. split; [now apply uwf_clear|].
  intros j Hj. simpl in Hj. rewrite u_get_clear by (eapply uwf_bits_bound; eauto).
  rewrite (Hp j Hj). destruct (N.eqb_spec j i); [lia|reflexivity].
Qed.

Lemma u_set_full_iff u i :
  uwf u -> i < ulen u -> (snd (u_set u i) = true <-> word_full (fst (u_set u i)) (i / 64)).
Proof.
  intros Hw Hi. unfold u_set at 1. cbn [snd].
  change (mkU64 (ulen u) (nupd (ubits u) i true)) with (fst (u_set u i)).
  apply u_word_full_iff. unfold u_set; cbn [fst ubits]. rewrite nlen_nupd.
  destruct Hw as [w [H1 H2]]. rewrite H1.
  assert (i / 64 < w) by (apply N.div_lt_upper_bound; lia).
  generalize dependent (i / 64). intros. nia.
Qed.

(* ---- first_unset on a word boundary *)
Lemma u_first_unset_some u e r :
  ulen u <> 0 -> u_first_unset u (64 * e) = Some r ->
  r / 64 = e /\ u_get u r = false /\ (forall j, j / 64 = e -> j < r -> u_get u j = true).
Proof.
  intros Hl H. unfold u_first_unset in H.
  apply N.eqb_neq in Hl. rewrite Hl in H.
  rewrite N.mul_comm, N.mod_mul, N.div_mul in H by lia.
  simpl nskipn in H.
  assert (nskipn 0 (u_word u e) = u_word u e) as E by (destruct (u_word u e); reflexivity).
  rewrite E in H. clear E.
  apply scan_some in H. destruct H as (H1 & H2 & H3 & H4).
  set (k := r - e * 64) in *.
  assert (k < 64) as Hk.
  { unfold u_word in H2. rewrite nlen_nfirstn in H2. lia. }
  assert (r = 64 * e + k) as Hr by lia.
  split.
  - rewrite Hr, N.mul_comm, N.div_add_l by lia. rewrite N.div_small by assumption. lia.
  - split.
    + unfold u_word, nget in H3. rewrite lget_nfirstn, lget_nskipn in H3 by assumption.
      unfold u_get, nget. rewrite Hr. exact H3.
    + intros j Hj Hjr.
      pose proof (N.div_mod j 64 ltac:(lia)). pose proof (N.mod_upper_bound j 64 ltac:(lia)).
      specialize (H4 (j mod 64) ltac:(lia)).
      unfold u_word, nget in H4. rewrite lget_nfirstn, lget_nskipn in H4 by assumption.
      unfold u_get, nget. replace j with (64 * e + j mod 64) at 1 by lia. exact H4.
Qed.

Lemma u_first_unset_none u e :
  ulen u <> 0 -> 64 * e + 64 <= nlen (ubits u) ->
  (u_first_unset u (64 * e) = None <-> word_full u e).
Proof.
  intros Hl Hw. unfold u_first_unset.
  apply N.eqb_neq in Hl. rewrite Hl.
  rewrite N.mul_comm, N.mod_mul, N.div_mul by lia.
  assert (nskipn 0 (u_word u e) = u_word u e) as E by (destruct (u_word u e); reflexivity).
  rewrite E. rewrite scan_none. now apply u_word_full_iff.
Qed.

(* ---- resize (full = true) *)
Lemma u_resize_len u n f : ulen (u_resize u n f) = n.
Proof. unfold u_resize. destruct (n <=? ulen u); reflexivity. Qed.

Lemma u_resize_bits_len u n f :
  nlen (ubits (u_resize u n f)) = N.max (nlen (ubits u)) (64 * required_words n).
Proof.
  unfold u_resize.
  destruct (N.ltb_spec (nlen (ubits u)) (64 * required_words n));
    destruct (n <=? ulen u); cbn [ubits]; rewrite ?set_range_len, ?nlen_app, ?nlen_nrepeat; lia.
Qed.

Lemma uwf_resize u n f : uwf u -> uwf (u_resize u n f).
Proof.
  intros [w [H1 H2]]. exists (N.max w (required_words n)).
  rewrite u_resize_bits_len, u_resize_len, H1. split; [lia|].
  pose proof (ceil64_le n). unfold required_words. lia.
Qed.

Lemma u_get_resize_true u n j :
  upad u -> u_get (u_resize u n true) j = if j <? N.min n (ulen u) then u_get u j else
                                           if j <? ulen u then u_get u j else true.
Proof.
  intros Hp. unfold u_resize, u_get.
  set (bits1 := if _ <? _ then _ else ubits u).
  assert (forall k, nget bits1 k = nget (ubits u) k) as Hb.
  { intros k. unfold bits1. destruct (N.ltb_spec (nlen (ubits u)) (64 * required_words n)); [|reflexivity].
    unfold nget. rewrite lget_app. destruct (N.ltb_spec k (nlen (ubits u))); [reflexivity|].
    rewrite lget_nrepeat. rewrite lget_oob by assumption. destruct (_ <? _); reflexivity. }
  destruct (N.leb_spec n (ulen u)); simpl.
  - rewrite Hb. destruct (N.ltb_spec j (N.min n (ulen u))); [reflexivity|].
    destruct (N.ltb_spec j (ulen u)); reflexivity || idtac.
    apply (Hp j). assumption.
  - rewrite set_range_get, Hb.
    destruct (N.ltb_spec j (N.min n (ulen u))).
    + destruct (N.leb_spec (ulen u) j); [lia|]. reflexivity.
    + destruct (N.ltb_spec j (ulen u)); [lia|].
      destruct (_ && _); [reflexivity|]. apply (Hp j). assumption.
Qed.

(* growing, or shrinking over set bits only, keeps the padding invariant and the bits below the new length *)
Lemma lvl_ok_resize u n :
  lvl_ok u -> (forall j, n <= j -> u_get u j = true) -> lvl_ok (u_resize u n true).
Proof.
  intros [Hw Hp] Hd. split; [now apply uwf_resize|].
  intros j Hj. rewrite u_resize_len in Hj. rewrite u_get_resize_true by assumption.
  destruct (N.ltb_spec j (N.min n (ulen u))); [lia|].
  destruct (N.ltb_spec j (ulen u)); [|reflexivity]. apply Hd. assumption.
Qed.

Lemma u_get_resize_below u n j :
  upad u -> j < n -> u_get (u_resize u n true) j = u_get u j.
Proof.
  intros Hp Hj. rewrite u_get_resize_true by assumption.
  destruct (N.ltb_spec j (N.min n (ulen u))); [reflexivity|].
  destruct (N.ltb_spec j (ulen u)); [reflexivity|]. symmetry. apply Hp. assumption.
Qed.

Lemma u_get_resize_grow u n j :
  upad u -> ulen u <= n -> u_get (u_resize u n true) j = u_get u j.
Proof.
  intros Hp Hn. rewrite u_get_resize_true by assumption.
  destruct (N.ltb_spec j (N.min n (ulen u))); [reflexivity|].
  destruct (N.ltb_spec j (ulen u)); [reflexivity|]. symmetry. apply Hp. lia.
Qed.
