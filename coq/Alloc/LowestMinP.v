(* C14 proofs, part 9: alloc_lowest returns the LOWEST index.
   alloc_lowest_min: under BInv, `alloc_lowest a k = Some x` implies that block k/x is completely free and
   that x is the least index of an aligned completely free block of order k; and alloc_lowest refuses
   exactly when alloc refuses (i.e. exactly when no aligned completely free block of that order exists).

   Idea.  In a good state every completely free aligned block lies inside exactly one MARKED block (maximal
   merging), so the least index of a free order-k block is the least "position" y * 2^(j-k) of a marked
   block j/y with j >= k.  The scan keeps a candidate whose position is the position of some marked block
   of the ORIGINAL state (`anchored`) and is <= the position of every originally marked block of the orders
   scanned so far.  The intermediate states differ from the original one (the candidate is held out, frees
   re-merge), which is handled through the canonical form of the marks (OpsP.marks_canonical): an originally
   marked block that does not contain the candidate is still marked, at the same order. *)
From Coq Require Import List NArith Bool Lia.
From RV Require Import Base.Bytes Gen.Consts Alloc.Bitmap Alloc.BitmapP Alloc.TreeP Alloc.Buddy Alloc.BuddyP
  Alloc.ResizeP Alloc.LowestP Alloc.SerialP Alloc.OpsP.
Import ListNotations.
Open Scope N_scope.

(* ---------------------------------------------------------------- the value returned by alloc_inner *)

(* alloc_inner takes the least marked block of the first order >= k that has one, and answers its
   leftmost descendant at order k *)
Lemma alloc_inner_value fuel : forall L a k x a',
  BInvL L a -> alloc_inner fuel a k = (Some x, a') ->
  exists j0 i0, k <= j0 /\ fr a j0 i0 = true /\ x = i0 * 2 ^ (j0 - k)
    /\ (forall i, i < i0 -> fr a j0 i = false)
    /\ (forall j, k <= j -> j < j0 -> ~ has_free a j).
Proof.
  induction fuel as [|f IH]; intros L a k x a' Hinv E; cbn [alloc_inner] in E; [discriminate|].
  destruct (N.ltb_spec (bmax a) k) as [Hk|Hk]; [discriminate|].
  pose proof Hinv as ([Hlen Hs'] & _). destruct (Hs' k Hk) as [Hok Hl].
  destruct (bt_alloc (ord a k)) as [[x0|] t'] eqn:B.
  - injection E as <- _.
    assert (fst (bt_alloc (ord a k)) = Some x0) as B1 by (rewrite B; reflexivity).
    destruct (bt_alloc_some _ _ Hok B1) as (X1 & X2 & X3 & _).
    exists k, x0. split; [lia|]. split; [unfold fr; rewrite X2; reflexivity|].
    split; [rewrite N.sub_diag, N.pow_0_r; lia|]. split.
    + intros i Hi. unfold fr. rewrite X3 by exact Hi. reflexivity.
    + intros j H1 H2. lia.
  - assert (fst (bt_alloc (ord a k)) = None) as B1 by (rewrite B; reflexivity).
    destruct (bt_alloc_none _ Hok B1) as [Hall _].
    destruct (alloc_inner f a (k + 1)) as [[u|] a1] eqn:R; [|discriminate].
    injection E as <- _.
    destruct (IH L a (k + 1) u a1 Hinv R) as (j0 & i0 & J1 & J2 & J3 & J4 & J5).
    exists j0, i0. split; [lia|]. split; [exact J2|]. split.
    + rewrite J3. replace (j0 - k) with (1 + (j0 - (k + 1))) by lia. rewrite N.pow_add_r. change (2 ^ 1) with 2. lia.
    + split; [exact J4|]. intros j H1 H2. destruct (N.eq_dec j k) as [->|Hne].
      * intros [i Hf]. unfold fr in Hf. rewrite Hall in Hf. discriminate.
      * apply J5; lia.
Qed.

(* ---------------------------------------------------------------- marks of the intermediate states *)

(* an originally marked block that is disjoint from the held block bo/bi is still marked *)
Lemma mark_survives L a s bo bi j y :
  BInvL L a -> BInvL L s -> bmax s = bmax a ->
  (forall p, pfree s p <-> pfree a p /\ p / 2 ^ bo <> bi) ->
  fr a j y = true -> (forall p, p / 2 ^ j = y -> p / 2 ^ bo <> bi) -> fr s j y = true.
Proof.
  intros Ha Hs Hmax Hpf F Hdis.
  apply (marks_canonical L a Ha) in F. destruct F as (F1 & F2 & F3).
  apply (marks_canonical L s Hs). split; [lia|]. split.
  - intros p Hp. apply Hpf. split; [apply F2; exact Hp|apply Hdis; exact Hp].
  - intros Hlt Hb. apply F3; [lia|]. intros p Hp. apply Hb in Hp. apply Hpf in Hp. tauto.
Qed.

(* position, at order k, of the first order-k block inside block j/y *)
Definition pos (k j y : N) : N := y * 2 ^ (j - k).

(* the held block bo/bi is the leftmost order-bo descendant of an originally marked block *)
Definition anchored (a : Buddy) (bo bi : N) : Prop :=
  exists J Y, bo <= J /\ fr a J Y = true /\ bi = Y * 2 ^ (J - bo).

Lemma pos_compose k bo J Y : k <= bo -> bo <= J -> Y * 2 ^ (J - bo) * 2 ^ (bo - k) = Y * 2 ^ (J - k).
Proof.
  intros H1 H2. rewrite <- N.mul_assoc, <- N.pow_add_r. f_equal. f_equal. lia.
Qed.

(* pages of the held block lie in the anchor *)
Lemma anchor_contains bo J Y p : bo <= J -> p / 2 ^ bo = Y * 2 ^ (J - bo) -> p / 2 ^ J = Y.
Proof.
  intros H E. rewrite (div_pow_split p bo J H), E. apply mul_pow_div_same.
Qed.

(* an originally marked block other than the anchor is disjoint from the held block *)
Lemma other_mark_disjoint a bo J Y j y :
  no_nested a -> bo <= J -> fr a J Y = true -> fr a j y = true -> ~ (j = J /\ y = Y) ->
  forall p, p / 2 ^ j = y -> p / 2 ^ bo <> Y * 2 ^ (J - bo).
Proof.
  intros Hn HJ FJ Fj Hne p Hp E. apply Hne.
  pose proof (anchor_contains bo J Y p HJ E) as EJ.
  assert (j = J) as ->.
  { apply (free_order_unique a p j J Hn); [rewrite Hp; exact Fj|rewrite EJ; exact FJ]. }
  split; [reflexivity|congruence].
Qed.

Lemma pos_le_of_contains i k idx J Y :
  k <= i -> i <= J -> idx / 2 ^ (J - i) = Y -> Y * 2 ^ (J - k) <= idx * 2 ^ (i - k).
Proof.
  intros H1 H2 E. rewrite <- (pos_compose k i J Y H1 H2).
  apply N.mul_le_mono_r. subst Y. pose proof (pow2_pos (J - i)). dmod idx (2 ^ (J - i)). nia.
Qed.

(* ---------------------------------------------------------------- the scan *)

Lemma lowest_scan_min L a k : forall n lo mult s best best_at,
  BInvL L a -> k < lo -> mult = 2 ^ (lo - k) ->
  held_inv L a s (snd best) (fst best) -> k <= snd best ->
  best_at = pos k (snd best) (fst best) ->
  anchored a (snd best) (fst best) ->
  (forall j y, k <= j -> j < lo -> fr a j y = true -> best_at <= pos k j y) ->
  let '(s', best', best_at') := lowest_scan (orders_up n lo) mult s best best_at in
  held_inv L a s' (snd best') (fst best') /\ k <= snd best'
  /\ best_at' = pos k (snd best') (fst best')
  /\ (forall j y, k <= j -> j < lo + N.of_nat n -> fr a j y = true -> best_at' <= pos k j y).
Proof.
  induction n as [|n IH]; intros lo mult s [bi bo] best_at Ha Hlo Hmult Hh Hk Hbat Hanc Hmin;
    cbn [orders_up lowest_scan fst snd] in *.
  - split; [exact Hh|]. split; [exact Hk|]. split; [exact Hbat|].
    intros j y H1 H2. apply Hmin; [exact H1|lia].
  - pose proof Hh as (Hinv & Hmax & Hbl & Hbo & Hbi & Hbf & Hpf).
    pose proof Ha as (Hsa & Hna & Hma).
    destruct Hanc as (J & Y & HJ & FJ & EJ).
    assert (best_at = pos k J Y) as HbatJ.
    { rewrite Hbat, EJ. unfold pos. apply pos_compose; assumption. }
    (* originally marked blocks of order lo other than the anchor are still marked in s *)
    assert (forall y, fr a lo y = true -> (lo = J /\ y = Y) \/ fr s lo y = true) as Hsurv.
    { intros y Fy. destruct (N.eq_dec lo J) as [E1|E1]; [destruct (N.eq_dec y Y) as [E2|E2]|].
      - left. split; assumption.
      - right. apply (mark_survives L a s bo bi lo y Ha Hinv Hmax Hpf Fy). rewrite EJ.
        apply (other_mark_disjoint a bo J Y lo y Hna HJ FJ Fy). tauto.
      - right. apply (mark_survives L a s bo bi lo y Ha Hinv Hmax Hpf Fy). rewrite EJ.
        apply (other_mark_disjoint a bo J Y lo y Hna HJ FJ Fy). tauto. }
    assert (mult * 2 = 2 ^ (lo + 1 - k)) as Hmult'.
    { rewrite Hmult. replace (lo + 1 - k) with ((lo - k) + 1) by lia. rewrite N.pow_add_r. reflexivity. }
    replace (lo + N.of_nat (S n)) with (lo + 1 + N.of_nat n) by lia.
    pose proof (alloc_inner_spec (order_fuel s) L s lo Hinv (order_fuel_ok s lo)) as S.
    destruct (alloc_inner (order_fuel s) s lo) as [[idx|] s1] eqn:EA.
    + destruct S as (S0 & S1 & S2 & S3 & S4 & S5 & S6 & S7 & _).
      destruct (alloc_inner_value _ L s lo idx s1 Hinv EA) as (j0 & i0 & V1 & V2 & V3 & V4 & V5).
      (* the candidate is below every originally marked block of order lo, unless the old best already is *)
      assert (forall y, fr a lo y = true -> best_at <= pos k lo y \/ idx * mult <= pos k lo y) as Hcand.
      { intros y Fy. destruct (Hsurv y Fy) as [[-> ->]|Fs].
        - left. rewrite HbatJ. lia.
        - right. destruct (S7 (ex_intro _ y Fs)) as [_ Hleast].
          unfold pos. rewrite Hmult. apply N.mul_le_mono_r.
          destruct (N.le_gt_cases idx y) as [Hle|Hgt]; [exact Hle|].
          rewrite (Hleast y Hgt) in Fs. discriminate. }
      destruct (N.ltb_spec (idx * mult) best_at) as [Hlt|Hge].
      * (* the new candidate is lower: give the old one back *)
        assert (blk_used s1 bo bi) as Hu.
        { intros p Hp Hf. apply S6 in Hf. destruct Hf as [Hf _]. apply Hpf in Hf. tauto. }
        pose proof (free_inner_spec (order_fuel s) L s1 bi bo S1 ltac:(rewrite S2; apply order_fuel_ok)
                      ltac:(lia) Hbi Hu) as F.
        destruct (free_inner (order_fuel s) s1 bi bo) as [o s2]. cbn [snd].
        destruct F as (F1 & F2 & F3 & _ & _ & _ & F7 & _).
        assert (held_inv L a s2 lo idx) as Hh2.
        { split; [exact F1|]. split; [congruence|]. split; [congruence|]. split; [lia|]. split; [exact S4|].
          split. { intros p Hp. apply (Hpf p). apply S5. exact Hp. }
          intros p. rewrite F7, S6, Hpf. split.
          - intros [[[Hp Hn1] Hn2]|Hp]; [split; assumption|].
            split; [apply Hbf; exact Hp|]. intros E. apply S5 in E. apply Hpf in E. tauto.
          - intros [Hp Hn]. destruct (N.eq_dec (p / 2 ^ bo) bi); [now right|left; tauto]. }
        (* the block the candidate was carved from is an originally marked block *)
        assert (fr a j0 i0 = true) as Fa0.
        { assert (blk_free a j0 i0) as Hb0.
          { intros p Hp. assert (pfree s p) as Hps.
            { destruct Hinv as (Hss & _). destruct (fr_lt L s j0 i0 Hss V2) as [Hj0 _].
              eapply fr_pfree; eauto. }
            apply Hpf in Hps. tauto. }
          destruct Hinv as (Hss & Hns & Hms).
          destruct (fr_lt L s j0 i0 Hss V2) as [Hj0 _].
          destruct (blk_free_marked L a Ha j0 ltac:(lia) i0 Hb0) as (j & Hj1 & Hj2 & Hj3).
          set (z := i0 / 2 ^ (j - j0)) in *.
          destruct (N.eq_dec j J) as [E1|E1]; [destruct (N.eq_dec z Y) as [E2|E2]|].
          - (* inside the anchor: then it cannot be lower than the held block *)
            exfalso. subst j.
            assert (idx / 2 ^ (J - lo) = Y) as Ec.
            { rewrite V3. rewrite <- E2. unfold z.
              rewrite (div_pow_split (i0 * 2 ^ (j0 - lo)) (j0 - lo) (J - lo)) by lia.
              rewrite mul_pow_div_same. f_equal. f_equal. lia. }
            pose proof (pos_le_of_contains lo k idx J Y ltac:(lia) ltac:(lia) Ec) as Hle.
            rewrite Hmult in Hlt. unfold pos in HbatJ. lia.
          - assert (fr s j z = true) as Fs.
            { apply (mark_survives L a s bo bi j z Ha (conj Hss (conj Hns Hms)) Hmax Hpf Hj3). rewrite EJ.
              apply (other_mark_disjoint a bo J Y j z Hna HJ FJ Hj3). tauto. }
            assert (j = j0) as ->.
            { apply (free_order_unique s (i0 * 2 ^ j0) j j0 Hns).
              - rewrite mul_pow_div by lia. exact Fs.
              - rewrite mul_pow_div_same. exact V2. }
            unfold z in Hj3. rewrite N.sub_diag, N.pow_0_r, N.div_1_r in Hj3. exact Hj3.
          - assert (fr s j z = true) as Fs.
            { apply (mark_survives L a s bo bi j z Ha (conj Hss (conj Hns Hms)) Hmax Hpf Hj3). rewrite EJ.
              apply (other_mark_disjoint a bo J Y j z Hna HJ FJ Hj3). tauto. }
            assert (j = j0) as ->.
            { apply (free_order_unique s (i0 * 2 ^ j0) j j0 Hns).
              - rewrite mul_pow_div by lia. exact Fs.
              - rewrite mul_pow_div_same. exact V2. }
            unfold z in Hj3. rewrite N.sub_diag, N.pow_0_r, N.div_1_r in Hj3. exact Hj3. }
        apply (IH (lo + 1) (mult * 2) s2 (idx, lo) (idx * mult) Ha ltac:(lia) Hmult' Hh2 ltac:(cbn [snd]; lia)).
        -- cbn [fst snd]. unfold pos. rewrite Hmult. reflexivity.
        -- cbn [fst snd]. exists j0, i0. split; [exact V1|]. split; [exact Fa0|exact V3].
        -- intros j y H1 H2 Fy. destruct (N.eq_dec j lo) as [->|Hne].
           ++ destruct (Hcand y Fy); lia.
           ++ pose proof (Hmin j y H1 ltac:(lia) Fy). lia.
      * (* not lower: give the candidate back *)
        assert (blk_used s1 lo idx) as Hu.
        { intros p Hp Hf. apply S6 in Hf. tauto. }
        pose proof (free_inner_spec (order_fuel s) L s1 idx lo S1 ltac:(rewrite S2; apply order_fuel_ok)
                      ltac:(lia) S4 Hu) as F.
        destruct (free_inner (order_fuel s) s1 idx lo) as [o s2]. cbn [snd].
        destruct F as (F1 & F2 & F3 & _ & _ & _ & F7 & _).
        assert (held_inv L a s2 bo bi) as Hh2.
        { split; [exact F1|]. split; [congruence|]. split; [congruence|]. split; [exact Hbo|]. split; [exact Hbi|].
          split; [exact Hbf|].
          intros p. rewrite F7, S6. rewrite <- Hpf. split.
          - intros [[Hp _]|Hp]; [exact Hp|]. apply S5. exact Hp.
          - intros Hp. destruct (N.eq_dec (p / 2 ^ lo) idx); [now right|left; tauto]. }
        apply (IH (lo + 1) (mult * 2) s2 (bi, bo) best_at Ha ltac:(lia) Hmult' Hh2 Hk Hbat).
        -- exists J, Y. split; [exact HJ|]. split; [exact FJ|exact EJ].
        -- intros j y H1 H2 Fy. destruct (N.eq_dec j lo) as [->|Hne].
           ++ destruct (Hcand y Fy); lia.
           ++ apply Hmin; [exact H1|lia|exact Fy].
    + (* nothing free at order lo or above in s *)
      destruct S as [-> Hnone].
      apply (IH (lo + 1) (mult * 2) s (bi, bo) best_at Ha ltac:(lia) Hmult' Hh Hk Hbat).
      * exists J, Y. split; [exact HJ|]. split; [exact FJ|exact EJ].
      * intros j y H1 H2 Fy. destruct (N.eq_dec j lo) as [->|Hne].
        -- destruct (Hsurv y Fy) as [[-> ->]|Fs]; [rewrite HbatJ; lia|].
           exfalso. apply (Hnone lo (N.le_refl _)). exists y. exact Fs.
        -- apply Hmin; [exact H1|lia|exact Fy].
Qed.

(* splitting down answers the leftmost descendant *)
Lemma split_down_value k : forall fuel s bi bo,
  k <= bo -> (N.to_nat bo <= fuel + N.to_nat k)%nat ->
  fst (snd (split_down fuel s (bi, bo) k)) = pos k bo bi.
Proof.
  induction fuel as [|f IH]; intros s bi bo Hk Hf; cbn [split_down fst snd].
  - assert (bo = k) by lia. subst. unfold pos. rewrite N.sub_diag, N.pow_0_r. lia.
  - destruct (N.ltb_spec k bo) as [Hlt|Hge].
    + rewrite IH by lia. unfold pos.
      replace (bo - k) with (1 + (bo - 1 - k)) by lia. rewrite N.pow_add_r. change (2 ^ 1) with 2. lia.
    + assert (bo = k) by lia. subst. cbn [fst snd]. unfold pos. rewrite N.sub_diag, N.pow_0_r. lia.
Qed.

(* ---------------------------------------------------------------- alloc_lowest_min *)

Theorem alloc_lowest_min_spec a k x a' :
  BInv a -> buddy_alloc_lowest a k = (Some x, a') ->
  blk_free a k x /\ forall y, blk_free a k y -> x <= y.
Proof.
  intros H E.
  pose proof (alloc_lowest_spec a k H) as Sp. rewrite E in Sp.
  destruct Sp as (_ & _ & _ & Hkm & _ & Hbx & _). split; [exact Hbx|].
  unfold buddy_alloc_lowest in E.
  pose proof (alloc_inner_spec (order_fuel a) (blen a) a k H (order_fuel_ok a k)) as S.
  destruct (alloc_inner (order_fuel a) a k) as [[x0|] a1] eqn:EA; [|discriminate].
  destruct S as (S0 & S1 & S2 & S3 & S4 & S5 & S6 & S7 & _).
  destruct (alloc_inner_value _ (blen a) a k x0 a1 H EA) as (j0 & i0 & V1 & V2 & V3 & V4 & V5).
  assert (held_inv (blen a) a a1 k x0) as Hh.
  { split; [exact S1|]. split; [exact S2|]. split; [exact S3|]. split; [exact S0|]. split; [exact S4|]. split; [exact S5|exact S6]. }
  pose proof (lowest_scan_min (blen a) a k (N.to_nat (bmax a - k)) (k + 1) 2 a1 (x0, k) x0 H ltac:(lia)) as L1.
  cbn [fst snd] in L1.
  specialize (L1 ltac:(replace (k + 1 - k) with 1 by lia; reflexivity) Hh (N.le_refl _)).
  specialize (L1 ltac:(unfold pos; rewrite N.sub_diag, N.pow_0_r; lia)).
  specialize (L1 ltac:(exists j0, i0; split; [exact V1|]; split; [exact V2|exact V3])).
  assert (forall j y, k <= j -> j < k + 1 -> fr a j y = true -> x0 <= pos k j y) as Hmin0.
  { intros j y H1 H2 Fy. assert (j = k) as -> by lia. unfold pos. rewrite N.sub_diag, N.pow_0_r, N.mul_1_r.
    destruct (S7 (ex_intro _ y Fy)) as [_ Hleast].
    destruct (N.le_gt_cases x0 y) as [Hle|Hgt]; [exact Hle|]. rewrite (Hleast y Hgt) in Fy. discriminate. }
  specialize (L1 Hmin0).
  destruct (lowest_scan _ 2 a1 (x0, k) x0) as [[a2 [bi bo]] bat]. cbn [fst snd] in L1.
  destruct L1 as (Hh2 & Hk2 & Hbat & Hmin).
  pose proof (split_down_value k (order_fuel a) a2 bi bo Hk2) as L2.
  destruct Hh2 as (_ & _ & _ & Hbo & _).
  specialize (L2 ltac:(unfold order_fuel; lia)).
  destruct (split_down (order_fuel a) a2 (bi, bo) k) as [a3 [bi' bo']]. cbn [fst snd] in *.
  injection E as <- _. rewrite L2, <- Hbat.
  intros y Hy.
  destruct (blk_free_marked (blen a) a H k Hkm y Hy) as (j & J1 & J2 & J3).
  pose proof (Hmin j _ J1 ltac:(lia) J3) as Hle. unfold pos in Hle.
  pose proof (pow2_pos (j - k)). dmod y (2 ^ (j - k)). nia.
Qed.

(* alloc_lowest refuses exactly when alloc refuses ... *)
Lemma alloc_lowest_none_iff_alloc a k :
  fst (buddy_alloc_lowest a k) = None <-> fst (buddy_alloc a k) = None.
Proof.
  unfold buddy_alloc_lowest, buddy_alloc.
  destruct (alloc_inner (order_fuel a) a k) as [[x|] a1]; [|tauto].
  destruct (lowest_scan _ 2 a1 (x, k) x) as [[a2 best] bat].
  destruct (split_down (order_fuel a) a2 best k) as [a3 best']. cbn [fst]. split; discriminate.
Qed.

(* ... i.e. exactly when no aligned completely free block of that order exists *)
Lemma alloc_lowest_complete_iff a k :
  BInv a -> k <= bmax a -> (fst (buddy_alloc_lowest a k) = None <-> ~ exists i, blk_free a k i).
Proof.
  intros H Hk. rewrite alloc_lowest_none_iff_alloc. now apply alloc_complete_iff.
Qed.

(* the statement in one piece *)
Theorem alloc_lowest_min_full a k :
  BInv a ->
  (forall x a', buddy_alloc_lowest a k = (Some x, a') ->
     blk_free a k x /\ (forall y, blk_free a k y -> x <= y))
  /\ (fst (buddy_alloc_lowest a k) = None <-> fst (buddy_alloc a k) = None)
  /\ (k <= bmax a -> (fst (buddy_alloc_lowest a k) = None <-> ~ exists i, blk_free a k i)).
Proof.
  intros H. split; [intros x a' E; eapply alloc_lowest_min_spec; eauto|].
  split; [apply alloc_lowest_none_iff_alloc|]. intros Hk. now apply alloc_lowest_complete_iff.
Qed.
