(* C14 proofs, part 13: any history of page-manager level operations.
   From TransactionalMemory's initial state (Allocators::new on a well-formed layout), over ANY sequence of
   allocate_helper_retry, allocate_helper (retry / grow / retry), free_helper, mark_page_allocated, try_shrink
   and resize_to (towards a layout that grows, or that drops / cuts a free tail):
   - the tracker invariant holds (a region holding a completely free aligned block of order >= k is not marked
     full at k), with every region's BInv;
   - the blocks handed out and not yet freed are pairwise disjoint as (region, index, order) triples and lie
     inside the layout. *)
From Coq Require Import List NArith Bool Lia.
From RV Require Import Base.Bytes Gen.Consts Alloc.Bitmap Alloc.BitmapP Alloc.TreeP Alloc.Buddy Alloc.BuddyP
  Alloc.ResizeP Alloc.LowestP Alloc.SerialP Alloc.OpsP Alloc.ObsP Alloc.Region Alloc.RegionP
  Alloc.TrackerP Alloc.CapP Alloc.LayoutP Alloc.TrailingP Alloc.ConsistP Alloc.MemP.
Import ListNotations.
Open Scope N_scope.

Inductive mop : Type :=
| MRetry (k : N) (lowest : bool)          (* allocate_helper_retry alone *)
| MAlloc (k : N) (lowest : bool)          (* allocate_helper: retry, grow, retry *)
| MFree (r i k : N)                       (* free_helper *)
| MRecord (r i k : N)                     (* mark_page_allocated *)
| MShrink (force : bool)                  (* try_shrink *)
| MResize (nl : Layout).                  (* Allocators::resize_to + set_layout *)

(* a layout change resize_to is called with: no region shrinks (grow), or the last region is dropped while
   completely free / loses a free tail (what reduce_last_region + try_shrink produce) *)
Definition resize_ok (m : Mem) (nl : Layout) : Prop :=
  full_pages nl = full_pages (lay m) /\ lay_ok nl /\
  let n := num_regions (lay m) in
  let la := reg (als m) (n - 1) in
  ((n <= num_regions nl /\ (forall r, r < n -> rpages (lay m) r <= rpages nl r) /\ num_regions nl <= MAX_REGIONS)
   \/ (num_regions nl = n - 1 /\ last_region_pages nl = full_pages (lay m) /\ 1 < n /\ (forall p, p < blen la -> pfree la p))
   \/ (num_regions nl = n /\ last_region_pages nl <= blen la
       /\ (forall p, last_region_pages nl <= p -> p < blen la -> pfree la p))).

Inductive mstep : Mem * list rlive -> mop -> Mem * list rlive -> Prop :=
| MSRetrySome m live k lowest r x al' :
    k <= MAX_MAX_PAGE_ORDER -> allocate_retry (retry_fuel (als m)) (als m) k lowest = (Some (r, x), al') ->
    mstep (m, live) (MRetry k lowest) (mkMem (lay m) al', (r, x, k) :: live)
| MSRetryNone m live k lowest al' :
    k <= MAX_MAX_PAGE_ORDER -> allocate_retry (retry_fuel (als m)) (als m) k lowest = (None, al') ->
    mstep (m, live) (MRetry k lowest) (mkMem (lay m) al', live)
| MSAllocSome m live k lowest r x m' :
    k <= MAX_MAX_PAGE_ORDER -> num_regions (grow_layout (lay m) k) <= MAX_REGIONS ->
    mem_allocate m k lowest = (Some (r, x), m') ->
    mstep (m, live) (MAlloc k lowest) (m', (r, x, k) :: live)
| MSAllocNone m live k lowest m' :
    k <= MAX_MAX_PAGE_ORDER -> num_regions (grow_layout (lay m) k) <= MAX_REGIONS ->
    mem_allocate m k lowest = (None, m') ->
    mstep (m, live) (MAlloc k lowest) (m', live)
| MSFree m live r i k :
    In (r, i, k) live -> mstep (m, live) (MFree r i k) (mem_free m r i k, rremove1 (r, i, k) live)
| MSRecordOk m live r i k m' :
    mem_record_alloc m r i k = (true, m') -> mstep (m, live) (MRecord r i k) (m', (r, i, k) :: live)
| MSRecordNo m live r i k m' :
    mem_record_alloc m r i k = (false, m') -> mstep (m, live) (MRecord r i k) (m', live)
| MSShrink m live force :
    mstep (m, live) (MShrink force) (snd (mem_try_shrink m force), live)
| MSResize m live nl :
    resize_ok m nl -> mstep (m, live) (MResize nl) (mkMem nl (resize_to (als m) nl), live).

Inductive msteps : Mem * list rlive -> list mop -> Mem * list rlive -> Prop :=
| msteps_nil s : msteps s [] s
| msteps_cons s o s' os s'' : mstep s o s' -> msteps s' os s'' -> msteps s (o :: os) s''.

Theorem mstep_good s o s' : mgood s -> mstep s o s' -> mgood s'.
Proof.
  intros G St. destruct St as [m live k lowest r x al' Hk E|m live k lowest al' Hk E|m live k lowest r x m' Hk Hmax E
                              |m live k lowest m' Hk Hmax E|m live r i k Hin|m live r i k m' E|m live r i k m' E
                              |m live force|m live nl Hok].
  - destruct m as [l al]. cbn [lay als] in *. pose proof (mgood_retry (retry_fuel al) l al live k lowest G Hk) as S.
    rewrite E in S. apply S.
  - destruct m as [l al]. cbn [lay als] in *. pose proof (mgood_retry (retry_fuel al) l al live k lowest G Hk) as S.
    rewrite E in S. apply S.
  - pose proof (mgood_allocate m live k lowest G Hk Hmax) as S. rewrite E in S. apply S.
  - pose proof (mgood_allocate m live k lowest G Hk Hmax) as S. rewrite E in S. apply S.
  - now apply mgood_free.
  - pose proof (mgood_record m live r i k G) as S. rewrite E in S. apply S.
  - pose proof (mgood_record m live r i k G) as S. rewrite E in S. apply S.
  - now apply mgood_try_shrink.
  - destruct Hok as (H1 & H2 & [(H3 & H4 & H5)|H3]).
    + now apply mgood_grow.
    + apply mgood_shrink_to; assumption.
Qed.

Theorem msteps_good s os s' : mgood s -> msteps s os s' -> mgood s'.
Proof. intros G St. induction St; [exact G|]. apply IHSt. eapply mstep_good; eauto. Qed.

Lemma mgood_new l : lay_ok l -> mgood (mem_new l, []).
Proof. intros H. split; [now apply minv_new|]. split; constructor. Qed.

Theorem mem_histories_good l os s' : lay_ok l -> msteps (mem_new l, []) os s' -> mgood s'.
Proof. intros Hl H. exact (msteps_good _ os s' (mgood_new l Hl) H). Qed.

(* ---------------------------------------------------------------- the statements *)

(* the tracker never reports full a region that holds a completely free aligned block *)
Lemma tinv_never_full al r k j i :
  tinv al -> r < nlen (regs al) -> k <= j -> j <= bmax (reg al r) -> blk_free (reg al r) j i ->
  tracker_bit (trk al) k r = false /\ tracker_find_free (trk al) k <> None.
Proof.
  intros (T1 & T2 & T3 & T4) Hr Hk Hj Hb. destruct (T2 r Hr) as [Hinv Hm].
  destruct (blk_free_marked _ _ Hinv j Hj i Hb) as (j' & J1 & J2 & J3).
  assert (tracker_bit (trk al) k r = false) as Hbit.
  { apply T4; [exact Hr|]. exists j'. split; [lia|]. eexists; eauto. }
  split; [exact Hbit|]. intros Hnone.
  pose proof (tracker_find_free_spec (trk al) _ k T1 ltac:(lia)) as Sf. rewrite Hnone in Sf.
  rewrite (Sf r) in Hbit. discriminate.
Qed.

Theorem tracker_sound_histories l os m' live' :
  lay_ok l -> msteps (mem_new l, []) os (m', live') ->
  tinv (als m')
  /\ (forall r, r < num_regions (lay m') -> BInv (reg (als m') r))
  /\ (forall r k j i, r < num_regions (lay m') -> k <= j -> j <= bmax (reg (als m') r) ->
        blk_free (reg (als m') r) j i ->
        tracker_bit (trk (als m')) k r = false /\ tracker_find_free (trk (als m')) k <> None).
Proof.
  intros Hl H. destruct (mem_histories_good l os _ Hl H) as ((M1 & M2 & M3 & _) & _). cbn [fst] in *.
  split; [exact M2|]. split.
  - intros r Hr. destruct M2 as (_ & T2 & _). apply T2. lia.
  - intros r k j i Hr. apply tinv_never_full; [exact M2|lia].
Qed.

(* live blocks: inside the layout, pairwise disjoint *)
Theorem live_inside_layout m live r i k :
  mgood (m, live) -> In (r, i, k) live ->
  r < num_regions (lay m) /\ (i + 1) * 2 ^ k <= region_pages (lay m) r /\ k <= MAX_MAX_PAGE_ORDER.
Proof.
  intros ((M1 & M2 & M3 & M4 & M5 & M6 & M7) & Hl & _) Hin. cbn [fst snd] in *.
  rewrite Forall_forall in Hl. destruct (Hl _ Hin) as (B1 & B2 & B3 & _). fold (reg (als m) r) in B2, B3.
  rewrite M3 in B1. destruct (M7 r B1) as (Q1 & Q2 & _).
  split; [exact B1|]. split; [rewrite (region_pages_rpages _ _ M1 B1), <- Q1; exact B3|].
  rewrite Q2 in B2. pose proof (usable_order_le (full_pages (lay m))). lia.
Qed.

Theorem live_disjoint_regions_spec l os m' live' :
  lay_ok l -> msteps (mem_new l, []) os (m', live') ->
  ForallOrdPairs rdisjoint live'
  /\ Forall (fun b => let '(r, i, k) := b in
                      r < num_regions (lay m') /\ (i + 1) * 2 ^ k <= region_pages (lay m') r
                      /\ k <= MAX_MAX_PAGE_ORDER) live'.
Proof.
  intros Hl H. pose proof (mem_histories_good l os _ Hl H) as G. split; [apply G|].
  apply Forall_forall. intros [[r i] k] Hin. eapply live_inside_layout; eauto.
Qed.

(* what allocate_helper hands out lies inside the (possibly grown) layout *)
Theorem alloc_inside_layout m live k lowest r x m' :
  mgood (m, live) -> k <= MAX_MAX_PAGE_ORDER -> num_regions (grow_layout (lay m) k) <= MAX_REGIONS ->
  mem_allocate m k lowest = (Some (r, x), m') ->
  r < num_regions (lay m') /\ (x + 1) * 2 ^ k <= region_pages (lay m') r
  /\ Forall (rdisjoint (r, x, k)) live.
Proof.
  intros G Hk Hmax E. pose proof (mgood_allocate m live k lowest G Hk Hmax) as S. rewrite E in S.
  destruct S as [(_ & _ & Hd) [H1 H2]]. cbn [snd] in Hd. inversion Hd; subst. tauto.
Qed.

(* ---------------------------------------------------------------- an executable history runner (for examples) *)

Definition mrun1 (s : Mem * list rlive) (o : mop) : option (Mem * list rlive) :=
  let '(m, live) := s in
  match o with
  | MRetry k lowest =>
      if k <=? MAX_MAX_PAGE_ORDER then
        match allocate_retry (retry_fuel (als m)) (als m) k lowest with
        | (Some (r, x), al') => Some (mkMem (lay m) al', (r, x, k) :: live)
        | (None, al') => Some (mkMem (lay m) al', live)
        end
      else None
  | MAlloc k lowest =>
      if (k <=? MAX_MAX_PAGE_ORDER) && (num_regions (grow_layout (lay m) k) <=? MAX_REGIONS) then
        match mem_allocate m k lowest with
        | (Some (r, x), m') => Some (m', (r, x, k) :: live)
        | (None, m') => Some (m', live)
        end
      else None
  | MFree r i k => if existsb (rl_eqb (r, i, k)) live then Some (mem_free m r i k, rremove1 (r, i, k) live) else None
  | MRecord r i k =>
      match mem_record_alloc m r i k with
      | (true, m') => Some (m', (r, i, k) :: live)
      | (false, m') => Some (m', live)
      end
  | MShrink force => Some (snd (mem_try_shrink m force), live)
  | MResize _ => None
  end.

Fixpoint mrun (s : Mem * list rlive) (os : list mop) : option (Mem * list rlive) :=
  match os with
  | [] => Some s
  | o :: r => match mrun1 s o with Some s' => mrun s' r | None => None end
  end.

Lemma mrun1_sound s o s' : mrun1 s o = Some s' -> mstep s o s'.
Proof.
  destruct s as [m live]. destruct o as [k lowest|k lowest|r i k|r i k|force|nl]; cbn [mrun1].
  - destruct (N.leb_spec k MAX_MAX_PAGE_ORDER) as [Hk|]; [|discriminate].
    destruct (allocate_retry _ _ k lowest) as [[[r x]|] al'] eqn:E; intros H; injection H as <-.
    + now apply MSRetrySome.
    + now apply MSRetryNone.
  - destruct (N.leb_spec k MAX_MAX_PAGE_ORDER) as [Hk|]; [|discriminate].
    destruct (N.leb_spec (num_regions (grow_layout (lay m) k)) MAX_REGIONS) as [Hm|]; [|discriminate]. cbn [andb].
    destruct (mem_allocate m k lowest) as [[[r x]|] m'] eqn:E; intros H; injection H as <-.
    + now apply MSAllocSome.
    + now apply MSAllocNone.
  - destruct (existsb (rl_eqb (r, i, k)) live) eqn:E; [|discriminate]. intros H; injection H as <-.
    apply MSFree. apply existsb_exists in E. destruct E as [b [Hin Hb]]. apply rl_eqb_eq in Hb. now subst.
  - destruct (mem_record_alloc m r i k) as [[|] m'] eqn:E; intros H; injection H as <-.
    + now apply MSRecordOk.
    + now apply MSRecordNo.
  - intros H; injection H as <-. apply MSShrink.
  - discriminate.
Qed.

Lemma mrun_sound os : forall s s', mrun s os = Some s' -> msteps s os s'.
Proof.
  induction os as [|o r IH]; intros s s' H; cbn [mrun] in H.
  - injection H as <-. constructor.
  - destruct (mrun1 s o) as [s1|] eqn:E; [|discriminate]. econstructor; [apply mrun1_sound; exact E|now apply IH].
Qed.

(* ---------------------------------------------------------------- the tracker invariant alone (no live list needed) *)

Lemma minv_mgood m : minv m <-> mgood (m, []).
Proof. split; [intros H; split; [exact H|split; constructor]|intros [H _]; exact H]. Qed.

Lemma minv_tinv m : minv m -> tinv (als m).
Proof. intros (_ & H & _). exact H. Qed.

Corollary minv_try_shrink m force : minv m -> minv (snd (mem_try_shrink m force)).
Proof. intros H. apply minv_mgood. apply mgood_try_shrink. now apply minv_mgood. Qed.

(* grow(): the layout arithmetic of grow + Allocators::resize_to *)
Corollary minv_grow m k :
  minv m -> num_regions (grow_layout (lay m) k) <= MAX_REGIONS ->
  minv (mkMem (grow_layout (lay m) k) (resize_to (als m) (grow_layout (lay m) k))).
Proof.
  intros H Hmax. pose proof H as (M1 & _). destruct (grow_layout_spec (lay m) k M1) as (L1 & L2 & L3 & L4).
  apply minv_mgood. apply mgood_grow; try assumption. now apply minv_mgood.
Qed.

Corollary minv_allocate m k lowest :
  minv m -> k <= MAX_MAX_PAGE_ORDER -> num_regions (grow_layout (lay m) k) <= MAX_REGIONS ->
  minv (snd (mem_allocate m k lowest)).
Proof.
  intros H Hk Hmax. pose proof (mgood_allocate m [] k lowest (proj1 (minv_mgood m) H) Hk Hmax) as S.
  destruct (mem_allocate m k lowest) as [res m']. destruct S as [[S _] _]. exact S.
Qed.

Corollary minv_resize_to m nl : minv m -> resize_ok m nl -> minv (mkMem nl (resize_to (als m) nl)).
Proof.
  intros H Hok. apply minv_mgood. apply (mstep_good (m, []) (MResize nl)); [now apply minv_mgood|now constructor].
Qed.

(* ---------------------------------------------------------------- redb's own debug assertion can never fire *)

(* over any sequence of buddy-allocator operations from BuddyAllocator::new *)
Corollary consistent_steps n cap os s' : steps (buddy_new n cap, []) os s' -> consistentb (fst s') = true.
Proof. intros H. apply consistentb_of_BInv. apply (steps_from_new_good n cap os s' H). Qed.

(* in every region of every state reachable through the page-manager level operations *)
Corollary consistent_histories l os m' live' r :
  lay_ok l -> msteps (mem_new l, []) os (m', live') -> r < num_regions (lay m') ->
  consistentb (reg (als m') r) = true.
Proof.
  intros Hl H Hr. apply consistentb_of_BInv. destruct (tracker_sound_histories l os m' live' Hl H) as (_ & Hb & _).
  now apply Hb.
Qed.

(* observational equality after reload, for any state reached from BuddyAllocator::new *)
Corollary reload_obs_equal_from_new n cap os0 a live os s' :
  steps (buddy_new n cap, []) os0 (a, live) -> buddy_small a -> steps (a, live) os s' ->
  let b := buddy_from_bytes (buddy_to_vec a) in
  fst (run b os) = fst (run a os)
  /\ buddy_to_vec (snd (run b os)) = buddy_to_vec (snd (run a os)).
Proof.
  intros H0 Hs H. destruct (reload_obs_equal a live os s' (steps_from_new_good n cap os0 _ H0) Hs H) as (H1 & H2 & _).
  split; assumption.
Qed.
