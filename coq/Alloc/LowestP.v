(* C14 proofs, part 5: alloc_lowest -- soundness (the block returned was completely free, exactly it leaves
   the free space, the invariant is kept; a refusal means no free block of that order or above).
   That the index returned is the LOWEST one is not proved here; it is validated on every call by the
   harness oracle (see design.d/C14.md). *)
From Coq Require Import List NArith Bool Lia.
From RV Require Import Base.Bytes Gen.Consts Alloc.Bitmap Alloc.BitmapP Alloc.TreeP Alloc.Buddy Alloc.BuddyP.
Import ListNotations.
Open Scope N_scope.

(* the allocator state s is the original a with the block bo/bi held out of the free space *)
Definition held_inv (L : N) (a s : Buddy) (bo bi : N) : Prop :=
  BInvL L s /\ bmax s = bmax a /\ blen s = blen a /\ bo <= bmax a /\ bi < L / 2 ^ bo /\ blk_free a bo bi
  /\ (forall p, pfree s p <-> pfree a p /\ p / 2 ^ bo <> bi).

Lemma lowest_scan_spec L a k : forall orders mult s best best_at,
  Forall (fun j => k <= j) orders -> held_inv L a s (snd best) (fst best) -> k <= snd best ->
  let '(s', best', _) := lowest_scan orders mult s best best_at in
  held_inv L a s' (snd best') (fst best') /\ k <= snd best'.
Proof.
  induction orders as [|j rest IH]; intros mult s [bi bo] best_at Hord Hh Hk; cbn [lowest_scan fst snd] in *.
  - split; assumption.
  - inversion Hord as [|? ? Hj Hrest]; subst.
    pose proof Hh as (Hinv & Hmax & Hbl & Hbo & Hbi & Hbf & Hpf).
    pose proof (alloc_inner_spec (order_fuel s) L s j Hinv (order_fuel_ok s j)) as S.
    destruct (alloc_inner (order_fuel s) s j) as [[idx|] s1].
    + destruct S as (S0 & S1 & S2 & S3 & S4 & S5 & S6 & _).
      destruct (idx * mult <? best_at).
      * (* the new candidate is lower: give the old one back *)
        assert (blk_used s1 bo bi) as Hu.
        { intros p Hp Hf. apply S6 in Hf. destruct Hf as [Hf _]. apply Hpf in Hf. tauto. }
        pose proof (free_inner_spec (order_fuel s) L s1 bi bo S1 ltac:(rewrite S2; apply order_fuel_ok)
                      ltac:(lia) Hbi Hu) as F.
        destruct (free_inner (order_fuel s) s1 bi bo) as [o s2]. cbn [snd].
        destruct F as (F1 & F2 & F3 & _ & _ & _ & F7 & _).
        assert (held_inv L a s2 j idx) as Hh2.
        { split; [exact F1|]. split; [congruence|]. split; [congruence|]. split; [lia|]. split; [exact S4|].
          split. { intros p Hp. apply (Hpf p). apply S5. exact Hp. }
          intros p. rewrite F7, S6, Hpf. split.
          - intros [[[Hp Hn1] Hn2]|Hp]; [split; assumption|].
            split; [apply Hbf; exact Hp|]. intros E. apply S5 in E. apply Hpf in E. tauto.
          - intros [Hp Hn]. destruct (N.eq_dec (p / 2 ^ bo) bi); [now right|left; tauto]. }
        apply (IH (mult * 2) s2 (idx, j) (idx * mult) Hrest Hh2 Hj).
      * (* not lower: give the candidate back *)
        assert (blk_used s1 j idx) as Hu.
        { intros p Hp Hf. apply S6 in Hf. tauto. }
        pose proof (free_inner_spec (order_fuel s) L s1 idx j S1 ltac:(rewrite S2; apply order_fuel_ok)
                      ltac:(lia) S4 Hu) as F.
        destruct (free_inner (order_fuel s) s1 idx j) as [o s2]. cbn [snd].
        destruct F as (F1 & F2 & F3 & _ & _ & _ & F7 & _).
        assert (held_inv L a s2 bo bi) as Hh2.
        { split; [exact F1|]. split; [congruence|]. split; [congruence|]. split; [exact Hbo|]. split; [exact Hbi|].
          split; [exact Hbf|].
          intros p. rewrite F7, S6. rewrite <- Hpf. split.
          - intros [[Hp _]|Hp]; [exact Hp|]. apply S5. exact Hp.
          - intros Hp. destruct (N.eq_dec (p / 2 ^ j) idx); [now right|left; tauto]. }
        apply (IH (mult * 2) s2 (bi, bo) best_at Hrest Hh2 Hk).
    + destruct S as [-> _]. apply (IH (mult * 2) s (bi, bo) best_at Hrest Hh Hk).
Qed.

Lemma split_down_spec L a k fuel : forall s bi bo,
  held_inv L a s bo bi -> k <= bo -> (N.to_nat bo <= fuel + N.to_nat k)%nat ->
  let '(s', best') := split_down fuel s (bi, bo) k in
  snd best' = k /\ held_inv L a s' k (fst best').
Proof.
  induction fuel as [|f IH]; intros s bi bo Hh Hk Hf; cbn [split_down fst snd].
  - assert (bo = k) by lia. subst. split; [reflexivity|exact Hh].
  - destruct (N.ltb_spec k bo) as [Hlt|Hge].
    2:{ assert (bo = k) by lia. subst. split; [reflexivity|exact Hh]. }
    destruct Hh as (Hinv & Hmax & Hbl & Hbo & Hbi & Hbf & Hpf).
    pose proof Hinv as (Hs & Hn & Hm).
    set (o := bo - 1). assert (bo = o + 1) as Ebo by (unfold o; lia).
    change (with_ord s o (bt_clear (ord s o) (bi * 2 + 1))) with (clear_at s o (bi * 2 + 1)).
    rewrite (N.mul_comm bi 2).
    rewrite Ebo in Hbi, Hbf, Hpf.
    assert (2 * bi + 1 < L / 2 ^ o) as Hr by (now apply div_pow_lt_succ).
    assert (o <= bmax s) as Ho by lia.
    destruct (clear_at_spec L s o (2 * bi + 1) Hs Ho Hr) as (S1 & S2 & S3 & S4).
    assert (blk_used s (o + 1) bi) as Hused.
    { intros p Hp Hf'. apply Hpf in Hf'. tauto. }
    destruct (blk_free_half a o bi Hbf) as [B0 B1].
    assert (held_inv L a (clear_at s o (2 * bi + 1)) o (2 * bi)) as Hh'.
    { split.
      { eapply (inv_add L s); eauto.
        - eapply blk_used_sub; eauto. apply half_cases. lia.
        - intros _. rewrite buddy_page_odd. eapply blk_used_not_fr; eauto.
          eapply blk_used_sub; eauto. apply half_cases. lia. }
      split; [congruence|]. split; [congruence|]. split; [lia|]. split; [lia|]. split; [exact B0|].
      intros p. rewrite (pfree_add s _ o (2 * bi + 1) S2 Ho S4 p). rewrite Hpf.
      rewrite div_pow_succ. generalize (half_cases (p / 2 ^ o) bi). intros HC.
      split.
      - intros [[Hp Hne]|Hq].
        + split; [exact Hp|]. intros Hq. apply Hne. apply HC. now left.
        + split; [apply B1; exact Hq|]. lia.
      - intros [Hp Hne]. destruct (N.eq_dec (p / 2 ^ o) (2 * bi + 1)) as [Hq|Hq]; [now right|].
        left. split; [exact Hp|]. intros Hh2. apply HC in Hh2. lia. }
    apply (IH _ (2 * bi) o Hh' ltac:(lia) ltac:(lia)).
Qed.

Lemma orders_up_ge n : forall lo, Forall (fun j => lo <= j) (orders_up n lo).
Proof.
  induction n; intros lo; cbn [orders_up]; constructor; [lia|].
  eapply Forall_impl; [|apply IHn]. simpl. intros. lia.
Qed.

Lemma alloc_lowest_spec a k :
  BInv a ->
  match buddy_alloc_lowest a k with
  | (Some x, a') =>
      BInv a' /\ bmax a' = bmax a /\ blen a' = blen a /\ k <= bmax a /\ (x + 1) * 2 ^ k <= blen a
      /\ blk_free a k x /\ (forall p, pfree a' p <-> pfree a p /\ p / 2 ^ k <> x)
  | (None, a') => a' = a /\ forall j, k <= j -> ~ has_free a j
  end.
Proof.
  intros H. unfold buddy_alloc_lowest.
  pose proof (alloc_inner_spec (order_fuel a) (blen a) a k H (order_fuel_ok a k)) as S.
  destruct (alloc_inner (order_fuel a) a k) as [[x0|] a1]; [|exact S].
  destruct S as (S0 & S1 & S2 & S3 & S4 & S5 & S6 & _).
  assert (held_inv (blen a) a a1 k x0) as Hh.
  { split; [exact S1|]. split; [exact S2|]. split; [exact S3|]. split; [exact S0|]. split; [exact S4|]. split; [exact S5|exact S6]. }
  pose proof (lowest_scan_spec (blen a) a k (orders_up (N.to_nat (bmax a - k)) (k + 1)) 2 a1 (x0, k) x0) as L1.
  cbn [fst snd] in L1. specialize (L1 ltac:(eapply Forall_impl; [|apply orders_up_ge]; simpl; intros; lia) Hh (N.le_refl _)).
  destruct (lowest_scan _ 2 a1 (x0, k) x0) as [[a2 [bi bo]] bat]. cbn [fst snd] in L1.
  destruct L1 as [Hh2 Hk2].
  pose proof (split_down_spec (blen a) a k (order_fuel a) a2 bi bo Hh2 Hk2) as L2.
  destruct Hh2 as (_ & _ & _ & Hbo & _).
  specialize (L2 ltac:(unfold order_fuel; lia)).
  destruct (split_down (order_fuel a) a2 (bi, bo) k) as [a3 [bi' bo']]. cbn [fst snd] in *.
  destruct L2 as [-> (F1 & F2 & F3 & F4 & F5 & F6 & F7)].
  split; [unfold BInv; rewrite F3; exact F1|]. split; [exact F2|]. split; [exact F3|]. split; [exact F4|].
  split; [now apply idx_range|]. split; assumption.
Qed.
