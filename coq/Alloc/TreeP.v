(* C14 proofs, part 2: the 64-ary summary tree BtreeBitmap.
   Invariant tree_ok: every level is padded with ones and consists of whole words; a parent bit is set
   iff the child's word is all ones; the root has at most 64 entries.
   Interface lemmas (what the buddy allocator proofs use): find_first_unset returns the least unset leaf
   bit; set/clear/resize update the leaf bits pointwise and keep the invariant. *)
From Coq Require Import List NArith Bool Lia.
From RV Require Import Base.Bytes Gen.Consts Alloc.Bitmap Alloc.BitmapP.
Import ListNotations.
Open Scope N_scope.

Definition dflt : U64 := mkU64 0 [].

Fixpoint tree_ok (t : Btree) : Prop :=
  match t with
  | [] => False
  | p :: rest =>
      lvl_ok p /\
      match rest with
      | [] => True
      | c :: _ =>
          ulen p = ceil64 (ulen c) /\
          (forall j, u_get p j = true <-> word_full c j) /\
          tree_ok rest
      end
  end.

Definition bt_ok (t : Btree) : Prop := tree_ok t /\ ulen (hd dflt t) <= 64.

Lemma bt_leaf_cons p c r : bt_leaf (p :: c :: r) = bt_leaf (c :: r).
Proof. reflexivity. Qed.
Lemma bt_leaf_single l : bt_leaf [l] = l.
Proof. reflexivity. Qed.
Lemma bt_get_cons p c r i : bt_get (p :: c :: r) i = bt_get (c :: r) i.
Proof. reflexivity. Qed.
Lemma bt_len_cons p c r : bt_len (p :: c :: r) = bt_len (c :: r).
Proof. reflexivity. Qed.

Lemma tree_ok_hd t : tree_ok t -> lvl_ok (hd dflt t).
Proof. destruct t; simpl; [tauto|]. tauto. Qed.

Lemma tree_ok_leaf t : tree_ok t -> lvl_ok (bt_leaf t).
Proof.
  induction t as [|p rest IH]; [simpl; tauto|].
  destruct rest as [|c r].
  - simpl. tauto.
  - intros [_ [_ [_ H]]]. rewrite bt_leaf_cons. apply IH. exact H.
Qed.

Lemma bt_get_oob t i : tree_ok t -> bt_len t <= i -> bt_get t i = true.
Proof. intros H Hi. apply (tree_ok_leaf t H). exact Hi. Qed.

Lemma bt_get_false_lt t i : tree_ok t -> bt_get t i = false -> i < bt_len t.
Proof.
  intros H Hg. destruct (N.lt_ge_cases i (bt_len t)); [assumption|].
  rewrite bt_get_oob in Hg by assumption. discriminate.
Qed.

(* a word above the length is full *)
Lemma word_full_above u j : upad u -> ceil64 (ulen u) <= j -> word_full u j.
Proof.
  intros Hp Hj i Hi. apply Hp. pose proof (ceil64_le (ulen u)).
  dmod i 64. nia.
Qed.

(* ---------------------------------------------------------------- find_first_unset *)

(* all bits of the head level below e are set *)
Definition below_set (u : U64) (e : N) : Prop := forall j, j < e -> u_get u j = true.

Lemma descend_spec rest : forall p e,
  tree_ok (p :: rest) -> e < ulen p -> u_get p e = false -> below_set p e ->
  exists r, bt_descend rest e = Some r /\ bt_get (p :: rest) r = false
            /\ (forall i, i < r -> bt_get (p :: rest) i = true).
Proof.
  induction rest as [|c r IH]; intros p e Hok He Hf Hb.
  - exists e. simpl. split; [reflexivity|]. split; [exact Hf|]. exact Hb.
  - destruct Hok as [Hp [Hlen [Hrel Hok]]].
    assert (lvl_ok c) as Hc by (apply (tree_ok_hd (c :: r) Hok)).
    assert (ulen c <> 0) as Hc0.
    { intro E. rewrite E, ceil64_0 in Hlen. lia. }
    assert (~ word_full c e) as Hnf.
    { intro W. apply Hrel in W. congruence. }
    assert (64 * e + 64 <= nlen (ubits c)) as Hw.
    { destruct Hc as [[w [H1 H2]] _]. rewrite H1.
      assert (ceil64 (ulen c) <= w) by (apply ceil64_le_iff; exact H2). nia. }
    cbn [bt_descend].
    destruct (u_first_unset c (64 * e)) as [e'|] eqn:Ef.
    2:{ exfalso. apply Hnf. apply u_first_unset_none; assumption. }
    apply u_first_unset_some in Ef; [|assumption]. destruct Ef as (E1 & E2 & E3).
    assert (e' < ulen c) as He'.
    { destruct (N.lt_ge_cases e' (ulen c)); [assumption|].
      destruct Hc as [_ Hpad]. rewrite (Hpad e') in E2 by assumption. discriminate. }
    assert (below_set c e') as Hb'.
    { intros j Hj. destruct (N.eq_dec (j / 64) e) as [Ej|Ej].
      - apply E3; assumption.
      - assert (j / 64 < e).
        { assert (j / 64 <= e' / 64) by (apply N.div_le_mono; lia). lia. }
        assert (word_full c (j / 64)) as W by (apply Hrel; apply Hb; assumption).
        apply W. reflexivity. }
    destruct (IH c e' Hok He' E2 Hb') as [x [X1 [X2 X3]]].
    exists x. split; [exact X1|]. rewrite !bt_get_cons || idtac.
    split; [exact X2|]. intros i Hi. rewrite bt_get_cons. apply X3. exact Hi.
Qed.

(* if every bit of the head level is set, so is every leaf bit *)
Lemma all_set_down t : tree_ok t -> (forall j, u_get (hd dflt t) j = true) -> forall i, bt_get t i = true.
Proof.
  induction t as [|p rest IH]; [simpl; tauto|].
  destruct rest as [|c r]; intros Hok Hall i.
  - apply Hall.
  - destruct Hok as [Hp [Hlen [Hrel Hok]]]. rewrite bt_get_cons. apply IH; [exact Hok|].
    intros j. simpl. assert (word_full c (j / 64)) as W by (apply Hrel; apply Hall).
    apply W. reflexivity.
Qed.

Lemma bt_find_spec t :
  bt_ok t ->
  match bt_find_first_unset t with
  | Some r => bt_get t r = false /\ (forall i, i < r -> bt_get t i = true)
  | None => forall i, bt_get t i = true
  end.
Proof.
  intros [Hok Hroot]. destruct t as [|p rest]; [simpl in Hok; tauto|].
  simpl in Hroot. unfold bt_find_first_unset.
  assert (lvl_ok p) as Hp by (apply (tree_ok_hd (p :: rest) Hok)).
  destruct (N.eq_dec (ulen p) 0) as [Z|NZ].
  - (* empty root: first_unset answers None, and indeed everything is set *)
    unfold u_first_unset. rewrite Z. simpl.
    apply all_set_down; [exact Hok|]. intros j. simpl. apply Hp. lia.
  - change 0 with (64 * 0) at 1.
    destruct (u_first_unset p (64 * 0)) as [e|] eqn:Ef.
    + apply u_first_unset_some in Ef; [|assumption]. destruct Ef as (E1 & E2 & E3).
      assert (e < ulen p) as He.
      { destruct (N.lt_ge_cases e (ulen p)); [assumption|].
        destruct Hp as [_ Hpad]. rewrite (Hpad e) in E2 by assumption. discriminate. }
      assert (below_set p e) as Hb.
      { intros j Hj. apply E3; [|assumption]. apply N.div_small.
        assert (e < 64); [|lia]. lia. }
      destruct (descend_spec rest p e Hok He E2 Hb) as [x [X1 [X2 X3]]].
      rewrite X1. split; assumption.
    + apply all_set_down; [exact Hok|]. intros j. simpl.
      destruct (N.lt_ge_cases j (ulen p)).
      * assert (64 * 0 + 64 <= nlen (ubits p)) as Hw.
        { destruct Hp as [[w [H1 H2]] _]. rewrite H1. destruct w; lia. }
        apply (u_first_unset_none p 0 NZ Hw) in Ef. apply Ef. apply N.div_small. lia.
      * apply Hp. assumption.
Qed.

Lemma bt_alloc_none t : bt_ok t -> fst (bt_alloc t) = None -> (forall i, bt_get t i = true) /\ snd (bt_alloc t) = t.
Proof.
  intros Hok. unfold bt_alloc. pose proof (bt_find_spec t Hok) as H.
  destruct (bt_find_first_unset t); simpl; [discriminate|]. auto.
Qed.

(* ---------------------------------------------------------------- set *)

Definition same_except (u u' : U64) (k : N) : Prop := forall j, j <> k -> u_get u' j = u_get u j.

Lemma word_full_same_except c c' k j : same_except c c' k -> k / 64 <> j -> (word_full c' j <-> word_full c j).
Proof.
  intros Hs Hk. unfold word_full. split; intros H i Hi.
  - rewrite <- Hs; [apply H; assumption|]. intro; subst. contradiction.
  - rewrite Hs; [apply H; assumption|]. intro; subst. contradiction.
Qed.

Lemma bt_set_aux_cons p c r i :
  bt_set_aux (p :: c :: r) i =
  let '(rest', full, ci) := bt_set_aux (c :: r) i in
  let pe := ci / 64 in
  if full then let '(l', f') := u_set p pe in (l' :: rest', f', pe)
  else (u_clear p pe :: rest', false, pe).
Proof. reflexivity. Qed.

Lemma bt_clear_aux_cons p c r i :
  bt_clear_aux (p :: c :: r) i =
  let '(rest', ci) := bt_clear_aux (c :: r) i in
  let pe := ci / 64 in (u_clear p pe :: rest', pe).
Proof. reflexivity. Qed.

Lemma bt_set_aux_spec t : forall i,
  tree_ok t -> i < bt_len t ->
  let '(t', full, ci) := bt_set_aux t i in
  tree_ok t' /\ length t' = length t /\ ci < ulen (hd dflt t) /\ ulen (hd dflt t') = ulen (hd dflt t)
  /\ same_except (hd dflt t) (hd dflt t') ci
  /\ (full = true <-> word_full (hd dflt t') (ci / 64))
  /\ bt_len t' = bt_len t /\ (forall j, bt_get t' j = (j =? i) || bt_get t j).
Proof.
  induction t as [|p rest IH]; intros i Hok Hi; [simpl in Hok; tauto|].
  destruct rest as [|c r].
  - (* leaf *)
    destruct Hok as [Hp _]. unfold bt_len in Hi. simpl in Hi.
    cbn [bt_set_aux]. destruct (u_set p i) as [p' full] eqn:E.
    assert (p' = fst (u_set p i)) as Ep by (rewrite E; reflexivity).
    assert (full = snd (u_set p i)) as Ef by (rewrite E; reflexivity).
    assert (i < nlen (ubits p)) as Hib by (apply (uwf_bits_bound p i); [apply Hp|exact Hi]).
    subst p' full. cbn [hd length].
    split. { simpl. split; [|exact I]. now apply lvl_ok_set. }
    split; [reflexivity|]. split; [exact Hi|]. split; [reflexivity|].
    split. { intros j Hj. rewrite u_get_set by assumption. destruct (N.eqb_spec j i); [contradiction|reflexivity]. }
    split. { apply u_set_full_iff; [apply Hp|exact Hi]. }
    split; [reflexivity|]. intros j. unfold bt_get. simpl. apply u_get_set. assumption.
  - destruct Hok as [Hp [Hlen [Hrel Hok]]].
    rewrite bt_len_cons in Hi.
    specialize (IH i Hok Hi).
    rewrite bt_set_aux_cons.
    destruct (bt_set_aux (c :: r) i) as [[rest' full] ci] eqn:E.
    destruct IH as (I1 & I2 & I3 & I4 & I5 & I7 & I8 & I9).
    destruct rest' as [|c' r']; [simpl in I2; discriminate|].
    cbn [hd] in *.
    assert (ci / 64 < ulen p) as Hpe by (rewrite Hlen; apply div64_lt_ceil; exact I3).
    assert (ci / 64 < nlen (ubits p)) as Hpb by (apply (uwf_bits_bound p); [apply Hp|exact Hpe]).
    destruct full.
    + (* the child's word became full: set the parent bit *)
      destruct (u_set p (ci / 64)) as [p' f'] eqn:E2.
      assert (p' = fst (u_set p (ci / 64))) as Ep by (rewrite E2; reflexivity).
      assert (f' = snd (u_set p (ci / 64))) as Ef by (rewrite E2; reflexivity).
      subst p' f'. cbv beta iota. cbn [hd length].
      split.
      { cbn [tree_ok]. split; [now apply lvl_ok_set|]. split; [simpl; rewrite I4; exact Hlen|].
        split; [|exact I1].
        intros j. rewrite u_get_set by assumption.
        destruct (N.eqb_spec j (ci / 64)) as [->|Hne].
        - simpl. split; [intros _; apply I7; reflexivity|reflexivity].
        - simpl. rewrite Hrel. symmetry. apply (word_full_same_except c c' ci); [exact I5|]. congruence. }
      split; [simpl in I2 |- *; lia|]. split; [exact Hpe|]. split; [reflexivity|].
      split. { intros j Hj. rewrite u_get_set by assumption. destruct (N.eqb_spec j (ci / 64)); [contradiction|reflexivity]. }
      split. { apply u_set_full_iff; [apply Hp|exact Hpe]. }
      split; [rewrite !bt_len_cons; exact I8|]. intros j. rewrite !bt_get_cons. apply I9.
    + (* not full: clear the parent bit *)
      cbv beta iota. cbn [hd length].
      assert (~ word_full c' (ci / 64)) as Hnf by (intro W; apply I7 in W; discriminate).
      split.
      { cbn [tree_ok]. split; [now apply lvl_ok_clear|]. split; [simpl; rewrite I4; exact Hlen|].
        split; [|exact I1].
        intros j. rewrite u_get_clear by assumption.
        destruct (N.eqb_spec j (ci / 64)) as [->|Hne].
        - simpl. split; [discriminate|]. intros W. contradiction.
        - simpl. rewrite Hrel. symmetry. apply (word_full_same_except c c' ci); [exact I5|]. congruence. }
      split; [simpl in I2 |- *; lia|]. split; [exact Hpe|]. split; [reflexivity|].
      split. { intros j Hj. rewrite u_get_clear by assumption. destruct (N.eqb_spec j (ci / 64)); [contradiction|reflexivity]. }
      split. { split; [discriminate|]. intros W. specialize (W (ci / 64) eq_refl).
               rewrite u_get_clear in W by assumption. rewrite N.eqb_refl in W. discriminate. }
      split; [rewrite !bt_len_cons; exact I8|]. intros j. rewrite !bt_get_cons. apply I9.
Qed.

Lemma hd_len_set_aux t i : tree_ok t -> i < bt_len t ->
  ulen (hd dflt (fst (fst (bt_set_aux t i)))) = ulen (hd dflt t).
Proof.
  intros H Hi. pose proof (bt_set_aux_spec t i H Hi) as S.
  destruct (bt_set_aux t i) as [[t' f] ci]. simpl. tauto.
Qed.

Lemma bt_set_ok t i : bt_ok t -> i < bt_len t -> bt_ok (bt_set t i).
Proof.
  intros [H Hr] Hi. pose proof (bt_set_aux_spec t i H Hi) as S. unfold bt_set.
  destruct (bt_set_aux t i) as [[t' f] ci]. simpl. split; [tauto|].
  destruct S as (_ & _ & _ & S & _). rewrite S. exact Hr.
Qed.

Lemma bt_set_len t i : tree_ok t -> i < bt_len t -> bt_len (bt_set t i) = bt_len t.
Proof.
  intros H Hi. pose proof (bt_set_aux_spec t i H Hi) as S. unfold bt_set.
  destruct (bt_set_aux t i) as [[t' f] ci]. simpl. tauto.
Qed.

Lemma bt_set_get t i j : tree_ok t -> i < bt_len t -> bt_get (bt_set t i) j = (j =? i) || bt_get t j.
Proof.
  intros H Hi. pose proof (bt_set_aux_spec t i H Hi) as S. unfold bt_set.
  destruct (bt_set_aux t i) as [[t' f] ci]. simpl. destruct S as (_ & _ & _ & _ & _ & _ & _ & S). apply S.
Qed.

Lemma bt_set_height t i : tree_ok t -> i < bt_len t -> length (bt_set t i) = length t.
Proof.
  intros H Hi. pose proof (bt_set_aux_spec t i H Hi) as S. unfold bt_set.
  destruct (bt_set_aux t i) as [[t' f] ci]. simpl. tauto.
Qed.

(* ---------------------------------------------------------------- clear *)

Lemma bt_clear_aux_spec t : forall i,
  tree_ok t -> i < bt_len t ->
  let '(t', ci) := bt_clear_aux t i in
  tree_ok t' /\ length t' = length t /\ ci < ulen (hd dflt t) /\ ulen (hd dflt t') = ulen (hd dflt t)
  /\ same_except (hd dflt t) (hd dflt t') ci /\ u_get (hd dflt t') ci = false
  /\ bt_len t' = bt_len t /\ (forall j, bt_get t' j = negb (j =? i) && bt_get t j).
Proof.
  induction t as [|p rest IH]; intros i Hok Hi; [simpl in Hok; tauto|].
  destruct rest as [|c r].
  - destruct Hok as [Hp _]. unfold bt_len in Hi. simpl in Hi.
    cbn [bt_clear_aux hd length].
    assert (i < nlen (ubits p)) as Hib by (apply (uwf_bits_bound p i); [apply Hp|exact Hi]).
    split. { simpl. split; [|exact I]. now apply lvl_ok_clear. }
    split; [reflexivity|]. split; [exact Hi|]. split; [reflexivity|].
    split. { intros j Hj. rewrite u_get_clear by assumption. destruct (N.eqb_spec j i); [contradiction|reflexivity]. }
    split. { rewrite u_get_clear by assumption. now rewrite N.eqb_refl. }
    split; [reflexivity|]. intros j. unfold bt_get. simpl. apply u_get_clear. assumption.
  - destruct Hok as [Hp [Hlen [Hrel Hok]]].
    rewrite bt_len_cons in Hi.
    specialize (IH i Hok Hi).
    rewrite bt_clear_aux_cons.
    destruct (bt_clear_aux (c :: r) i) as [rest' ci] eqn:E.
    destruct IH as (I1 & I2 & I3 & I4 & I5 & I6 & I8 & I9).
    destruct rest' as [|c' r']; [simpl in I2; discriminate|].
    cbn [hd length] in *.
    assert (ci / 64 < ulen p) as Hpe by (rewrite Hlen; apply div64_lt_ceil; exact I3).
    assert (ci / 64 < nlen (ubits p)) as Hpb by (apply (uwf_bits_bound p); [apply Hp|exact Hpe]).
    assert (~ word_full c' (ci / 64)) as Hnf.
    { intro W. specialize (W ci eq_refl). congruence. }
    split.
    { cbn [tree_ok]. split; [now apply lvl_ok_clear|]. split; [simpl; rewrite I4; exact Hlen|].
      split; [|exact I1].
      intros j. rewrite u_get_clear by assumption.
      destruct (N.eqb_spec j (ci / 64)) as [->|Hne].
      - simpl. split; [discriminate|]. intros W. contradiction.
      - simpl. rewrite Hrel. symmetry. apply (word_full_same_except c c' ci); [exact I5|]. congruence. }
    split; [simpl in I2 |- *; lia|]. split; [exact Hpe|]. split; [reflexivity|].
    split. { intros j Hj. rewrite u_get_clear by assumption. destruct (N.eqb_spec j (ci / 64)); [contradiction|reflexivity]. }
    split. { rewrite u_get_clear by assumption. now rewrite N.eqb_refl. }
    split; [rewrite !bt_len_cons; exact I8|]. intros j. rewrite !bt_get_cons. apply I9.
Qed.

Lemma bt_clear_ok t i : bt_ok t -> i < bt_len t -> bt_ok (bt_clear t i).
Proof.
  intros [H Hr] Hi. pose proof (bt_clear_aux_spec t i H Hi) as S. unfold bt_clear.
  destruct (bt_clear_aux t i) as [t' ci]. simpl. split; [tauto|].
  destruct S as (_ & _ & _ & S & _). rewrite S. exact Hr.
Qed.

Lemma bt_clear_len t i : tree_ok t -> i < bt_len t -> bt_len (bt_clear t i) = bt_len t.
Proof.
  intros H Hi. pose proof (bt_clear_aux_spec t i H Hi) as S. unfold bt_clear.
  destruct (bt_clear_aux t i) as [t' ci]. simpl. tauto.
Qed.

Lemma bt_clear_get t i j : tree_ok t -> i < bt_len t -> bt_get (bt_clear t i) j = negb (j =? i) && bt_get t j.
Proof.
  intros H Hi. pose proof (bt_clear_aux_spec t i H Hi) as S. unfold bt_clear.
  destruct (bt_clear_aux t i) as [t' ci]. simpl. destruct S as (_ & _ & _ & _ & _ & _ & _ & S). apply S.
Qed.

Lemma bt_clear_height t i : tree_ok t -> i < bt_len t -> length (bt_clear t i) = length t.
Proof.
  intros H Hi. pose proof (bt_clear_aux_spec t i H Hi) as S. unfold bt_clear.
  destruct (bt_clear_aux t i) as [t' ci]. simpl. tauto.
Qed.

(* ---------------------------------------------------------------- alloc *)

Lemma bt_alloc_some t r :
  bt_ok t -> fst (bt_alloc t) = Some r ->
  r < bt_len t /\ bt_get t r = false /\ (forall i, i < r -> bt_get t i = true)
  /\ snd (bt_alloc t) = bt_set t r.
Proof.
  intros Hok. unfold bt_alloc. pose proof (bt_find_spec t Hok) as H.
  destruct (bt_find_first_unset t) as [e|]; simpl; [|discriminate].
  intros E. inversion E; subst. destruct H as [H1 H2].
  split; [apply bt_get_false_lt; [apply Hok|exact H1]|]. auto.
Qed.

(* ---------------------------------------------------------------- has_unset *)

Lemma bt_has_unset_false t : tree_ok t -> (bt_has_unset t = false <-> forall i, bt_get t i = true).
Proof.
  intros _. unfold bt_has_unset, u_any_unset, bt_get, u_get.
  rewrite negb_false_iff. apply all_true_forall.
Qed.

Lemma bt_has_unset_true t : tree_ok t -> (bt_has_unset t = true <-> exists i, i < bt_len t /\ bt_get t i = false).
Proof.
  intros H. unfold bt_has_unset, u_any_unset. rewrite negb_true_iff, all_true_false_exists.
  split; intros [i [Hi Hg]]; exists i.
  - split; [|exact Hg]. apply bt_get_false_lt; assumption.
  - split; [|exact Hg]. destruct (N.lt_ge_cases i (nlen (ubits (bt_leaf t)))); [assumption|].
    unfold bt_get, u_get in Hg. rewrite nget_oob in Hg by assumption. discriminate.
Qed.

(* ---------------------------------------------------------------- resize (full = true) *)

Lemma u_get_resize_same u n j : upad u -> u_get (u_resize u n true) j = u_get u j.
Proof.
  intros Hp. rewrite u_get_resize_true by assumption.
  destruct (j <? N.min n (ulen u)); [reflexivity|].
  destruct (N.ltb_spec j (ulen u)); [reflexivity|]. symmetry. apply Hp. assumption.
Qed.

Lemma word_full_ext c c' j : (forall k, u_get c' k = u_get c k) -> (word_full c' j <-> word_full c j).
Proof. intros E. unfold word_full. split; intros H i Hi; [rewrite <- E|rewrite E]; apply H; assumption. Qed.

Lemma bt_resize_aux_cons p rest n :
  bt_resize_aux (p :: rest) n true =
  let '(rest', nl) := bt_resize_aux rest n true in (u_resize p nl true :: rest', ceil64 nl).
Proof. reflexivity. Qed.

Lemma bt_resize_aux_spec t : forall n,
  tree_ok t -> (forall j, n <= j -> bt_get t j = true) ->
  let '(t', nl) := bt_resize_aux t n true in
  tree_ok t' /\ length t' = length t /\ bt_len t' = n /\ (forall j, bt_get t' j = bt_get t j)
  /\ nl = ceil64 (ulen (hd dflt t'))
  /\ (forall j, u_get (hd dflt t') j = u_get (hd dflt t) j)
  /\ (forall j, ulen (hd dflt t') <= j -> u_get (hd dflt t) j = true).
Proof.
  induction t as [|p rest IH]; intros n Hok Hpre; [simpl in Hok; tauto|].
  rewrite bt_resize_aux_cons.
  destruct rest as [|c r].
  - destruct Hok as [Hp _]. cbn [bt_resize_aux hd length].
    assert (forall j, n <= j -> u_get p j = true) as Hpre' by exact Hpre.
    split. { simpl. split; [|exact I]. apply lvl_ok_resize; assumption. }
    split; [reflexivity|]. split; [unfold bt_len; simpl; apply u_resize_len|].
    split. { intros j. unfold bt_get. simpl. apply u_get_resize_same. apply Hp. }
    split; [now rewrite u_resize_len|].
    split. { intros j. apply u_get_resize_same. apply Hp. }
    intros j Hj. rewrite u_resize_len in Hj. apply Hpre'. exact Hj.
  - destruct Hok as [Hp [Hlen [Hrel Hok]]].
    assert (forall j, n <= j -> bt_get (c :: r) j = true) as Hpre' by (intros j Hj; rewrite <- (bt_get_cons p); now apply Hpre).
    specialize (IH n Hok Hpre').
    destruct (bt_resize_aux (c :: r) n true) as [rest' nl] eqn:E.
    destruct IH as (I1 & I2 & I3 & I4 & I5 & I6 & I7).
    destruct rest' as [|c' r']; [simpl in I2; discriminate|].
    cbn [hd length] in *.
    assert (forall j, nl <= j -> u_get p j = true) as Hpp.
    { intros j Hj. apply Hrel. intros k Hk. apply I7. subst nl.
      pose proof (ceil64_le (ulen c')). dmod k 64. nia. }
    split.
    { cbn [tree_ok]. split; [apply lvl_ok_resize; assumption|].
      split; [rewrite u_resize_len; exact I5|]. split; [|exact I1].
      intros j. rewrite u_get_resize_same by apply Hp. rewrite Hrel.
      symmetry. apply word_full_ext. exact I6. }
    split; [simpl in I2 |- *; lia|]. split; [rewrite bt_len_cons; exact I3|].
    split; [intros j; rewrite !bt_get_cons; apply I4|].
    split; [now rewrite u_resize_len|].
    split. { intros j. apply u_get_resize_same. apply Hp. }
    intros j Hj. rewrite u_resize_len in Hj. apply Hpp. exact Hj.
Qed.

(* the interface lemma: under resize's own assertion (root <= 64) and the caller's obligation that the
   dropped bits are set, resize changes the length and nothing else *)
Lemma bt_resize_ok t n :
  bt_ok t -> (forall j, n <= j -> bt_get t j = true) -> bt_resize_pre t n = true ->
  bt_ok (bt_resize t n true) /\ bt_len (bt_resize t n true) = n
  /\ (forall j, bt_get (bt_resize t n true) j = bt_get t j)
  /\ length (bt_resize t n true) = length t.
Proof.
  intros [Hok _] Hpre Hr. pose proof (bt_resize_aux_spec t n Hok Hpre) as S.
  unfold bt_resize_pre in Hr. unfold bt_resize in *.
  destruct (bt_resize_aux t n true) as [t' nl]. simpl in *.
  apply N.leb_le in Hr. unfold bt_ok. tauto.
Qed.

(* ---------------------------------------------------------------- new / new_padded *)

Definition alltrue (t : Btree) : Prop := forall u, In u t -> forall i, u_get u i = true.

Lemma size_nat_bound n : n < 2 ^ N.of_nat (N.size_nat n).
Proof.
  destruct n as [|p]; [simpl; lia|]. simpl N.size_nat.
  induction p; cbn [Pos.size_nat]; rewrite Nat2N.inj_succ, N.pow_succ_r'; lia.
Qed.

Lemma size_nat_mono a b : a <= b -> (N.size_nat a <= N.size_nat b)%nat.
Proof.
  intros H. destruct a as [|p], b as [|q]; simpl; try lia.
  destruct (Pos.eq_dec p q); [subst; lia|]. apply Pos.size_nat_monotone. lia.
Qed.

Lemma size_nat_half n : N.size_nat (N.div2 n) = Nat.pred (N.size_nat n).
Proof. destruct n as [|[p|p|]]; reflexivity. Qed.

Lemma ceil64_size cap : 64 < cap -> (N.size_nat (ceil64 cap) < N.size_nat cap)%nat.
Proof.
  intros H.
  assert (ceil64 cap <= N.div2 cap) as Hle.
  { rewrite N.div2_div. unfold ceil64. dmod (cap + 63) 64. dmod cap 2. lia. }
  apply size_nat_mono in Hle. rewrite size_nat_half in Hle.
  assert (0 < N.size_nat cap)%nat; [|lia]. destruct cap; [lia|]. simpl. destruct p; simpl; lia.
Qed.

Lemma size_nat_small cap : (N.size_nat cap <= 6)%nat -> cap <= 64.
Proof.
  intros H. pose proof (size_nat_bound cap).
  assert (2 ^ N.of_nat (N.size_nat cap) <= 2 ^ 6) by (apply N.pow_le_mono_r; lia).
  change (2 ^ 6) with 64 in *. lia.
Qed.

Lemma alltrue_word_full t u j : alltrue t -> In u t -> word_full u j.
Proof. intros H Hi i _. apply H. exact Hi. Qed.

Definition acc_ok (acc : Btree) (np : N) : Prop :=
  acc = [] \/ (tree_ok acc /\ alltrue acc /\ np = ceil64 (ulen (hd dflt acc))).

Lemma tree_ok_push acc np cap :
  np <= cap -> acc_ok acc np ->
  tree_ok (u_new_full np cap :: acc) /\ alltrue (u_new_full np cap :: acc).
Proof.
  intros Hle [->|[Hok [Hall Hnp]]].
  - split.
    + simpl. split; [now apply lvl_ok_new_full|exact I].
    + intros x [<-|[]] i. apply u_get_new_full.
  - assert (alltrue (u_new_full np cap :: acc)) as Hall'.
    { intros x [<-|Hin] i; [apply u_get_new_full|now apply Hall]. }
    split; [|exact Hall'].
    destruct acc as [|c r]; [simpl in Hok; tauto|].
    cbn [tree_ok]. split; [now apply lvl_ok_new_full|]. split; [exact Hnp|]. split; [|exact Hok].
    intros j. rewrite u_get_new_full. split; [|reflexivity]. intros _.
    apply (alltrue_word_full (c :: r)); [exact Hall|now left].
Qed.

Lemma bt_leaf_push u acc : acc <> [] -> bt_leaf (u :: acc) = bt_leaf acc.
Proof. destruct acc; [congruence|]. reflexivity. Qed.

Lemma bt_new_loop_ok fuel : forall np cap acc,
  np <= cap -> (N.size_nat cap <= fuel + 6)%nat -> acc_ok acc np ->
  let t := bt_new_loop fuel np cap acc in
  tree_ok t /\ alltrue t /\ ulen (hd dflt t) <= 64
  /\ bt_leaf t = (match acc with [] => u_new_full np cap | _ => bt_leaf acc end).
Proof.
  induction fuel as [|f IH]; intros np cap acc Hle Hf Hacc; cbn [bt_new_loop].
  - pose proof (tree_ok_push acc np cap Hle Hacc) as [H1 H2].
    split; [exact H1|]. split; [exact H2|]. split.
    + simpl. apply size_nat_small in Hf. lia.
    + destruct acc; [reflexivity|]. reflexivity.
  - pose proof (tree_ok_push acc np cap Hle Hacc) as [H1 H2].
    destruct (N.leb_spec cap 64).
    + split; [exact H1|]. split; [exact H2|]. split; [simpl; lia|].
      destruct acc; reflexivity.
    + assert (acc_ok (u_new_full np cap :: acc) (ceil64 np)) as Hacc'.
      { right. split; [exact H1|]. split; [exact H2|]. reflexivity. }
      assert (ceil64 np <= ceil64 cap) as Hle' by (now apply ceil64_mono).
      assert (N.size_nat (ceil64 cap) <= f + 6)%nat as Hf'.
      { pose proof (ceil64_size cap H). lia. }
      specialize (IH (ceil64 np) (ceil64 cap) (u_new_full np cap :: acc) Hle' Hf' Hacc').
      cbv zeta in IH. destruct IH as (I1 & I2 & I3 & I4).
      split; [exact I1|]. split; [exact I2|]. split; [exact I3|].
      rewrite I4. destruct acc; reflexivity.
Qed.

Lemma bt_new_ok np cap :
  np <= cap ->
  bt_ok (bt_new np cap) /\ alltrue (bt_new np cap) /\ bt_len (bt_new np cap) = np.
Proof.
  intros H. unfold bt_new.
  pose proof (bt_new_loop_ok (N.size_nat cap) np cap [] H ltac:(lia) (or_introl eq_refl)) as S.
  cbv zeta in S. destruct S as (S1 & S2 & S3 & S4).
  split; [split; assumption|]. split; [assumption|]. unfold bt_len. rewrite S4. reflexivity.
Qed.

Lemma pad_loop_ok fuel : forall t h,
  tree_ok t -> alltrue t -> ulen (hd dflt t) <= 64 ->
  let t' := pad_loop fuel t h in
  tree_ok t' /\ alltrue t' /\ ulen (hd dflt t') <= 64 /\ bt_leaf t' = bt_leaf t.
Proof.
  induction fuel as [|f IH]; intros t h Hok Hall Hr; cbn [pad_loop].
  - tauto.
  - destruct (nlen t <? h); [|tauto].
    change (mkU64 0 []) with dflt.
    set (pl := ceil64 (ulen (hd dflt t))).
    assert (acc_ok t pl) as Hacc by (right; split; [assumption|]; split; [assumption|reflexivity]).
    pose proof (tree_ok_push t pl pl (N.le_refl _) Hacc) as [H1 H2].
    assert (ulen (hd dflt (u_new_full pl pl :: t)) <= 64) as H3.
    { simpl. unfold pl. pose proof (ceil64_small _ Hr). lia. }
    specialize (IH (u_new_full pl pl :: t) h H1 H2 H3). cbv zeta in IH.
    destruct IH as (I1 & I2 & I3 & I4). split; [exact I1|]. split; [exact I2|]. split; [exact I3|].
    rewrite I4. apply bt_leaf_push. destruct t; [simpl in Hok; tauto|congruence].
Qed.

Lemma bt_new_padded_ok np cap maxcap :
  np <= cap ->
  bt_ok (bt_new_padded np cap maxcap) /\ bt_len (bt_new_padded np cap maxcap) = np
  /\ (forall i, bt_get (bt_new_padded np cap maxcap) i = true).
Proof.
  intros H. unfold bt_new_padded.
  destruct (bt_new_ok np cap H) as ([N1 N2] & N3 & N4).
  pose proof (pad_loop_ok (N.to_nat (height_for_capacity maxcap)) (bt_new np cap)
                (height_for_capacity maxcap) N1 N3 N2) as S.
  cbv zeta in S. destruct S as (S1 & S2 & S3 & S4).
  split; [split; assumption|]. split.
  - unfold bt_len. rewrite S4. exact N4.
  - intros i. unfold bt_get. apply S2. unfold bt_leaf.
    destruct (pad_loop _ _ _) eqn:E; [simpl in S1; tauto|].
    apply (@exists_last _ (u :: b)) || idtac.
    clear. generalize u. induction b; intros; simpl; [now left|]. right. apply IHb.
Qed.
