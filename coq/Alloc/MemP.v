(* C14 proofs, part 12: the page-manager level (Mem = layout + Allocators).
   minv: the layout is well-formed, the tracker invariant tinv holds (so every region allocator satisfies BInv
   and no region with a free block of order >= k is marked full at k), the allocators agree with the layout
   (count, lengths, max_order), every bitmap tree has the height its capacity needs.
   Kept by allocate_helper (retry, grow, retry), free_helper, mark_page_allocated and try_shrink; with the list of
   live blocks (region, index, order) also: live blocks stay pairwise disjoint and inside the layout. *)
From Coq Require Import List NArith Bool Lia.
From RV Require Import Base.Bytes Gen.Consts Alloc.Bitmap Alloc.BitmapP Alloc.TreeP Alloc.Buddy Alloc.BuddyP
  Alloc.ResizeP Alloc.LowestP Alloc.SerialP Alloc.OpsP Alloc.ObsP Alloc.Region Alloc.RegionP
  Alloc.TrackerP Alloc.CapP Alloc.LayoutP Alloc.TrailingP.
Import ListNotations.
Open Scope N_scope.

Definition minv (m : Mem) : Prop :=
  let l := lay m in
  let al := als m in
  lay_ok l /\ tinv al /\ nlen (regs al) = num_regions l
  /\ nlen (trk al) = MAX_MAX_PAGE_ORDER + 1 /\ tuni (trk al) /\ tcap (trk al) MAX_REGIONS
  /\ forall r, r < num_regions l ->
       blen (reg al r) = rpages l r /\ bmax (reg al r) = calculate_usable_order (full_pages l)
       /\ rcap (reg al r) (full_pages l).

Lemma usable_order_le c : calculate_usable_order c <= MAX_MAX_PAGE_ORDER.
Proof. unfold calculate_usable_order. lia. Qed.

(* ---------------------------------------------------------------- Allocators::new *)

Lemma allocators_new_spec l :
  let al := allocators_new l in
  tinv al /\ nlen (regs al) = num_regions l /\ nlen (trk al) = MAX_MAX_PAGE_ORDER + 1
  /\ tuni (trk al) /\ tcap (trk al) MAX_REGIONS
  /\ forall r, r < num_regions l -> reg al r = buddy_new (region_pages l r) (full_pages l).
Proof.
  cbv zeta. unfold allocators_new.
  set (IR := N.max INITIAL_REGIONS (num_regions l)).
  set (f := fun acc i => let a := buddy_new (region_pages l i) (full_pages l) in
                         mkAllocators (tracker_mark_free (trk acc) (bmax a) i) (regs acc ++ [a])).
  destruct (tracker_new_spec IR (MAX_MAX_PAGE_ORDER + 1)) as (W1 & W2 & W3).
  set (t0 := tracker_new IR (MAX_MAX_PAGE_ORDER + 1)) in *.
  set (al0 := mkAllocators t0 []).
  assert (forall m, N.of_nat m <= num_regions l ->
            let al := fold_left f (range_from m 0) al0 in
            tinv al /\ twf (trk al) IR /\ nlen (trk al) = MAX_MAX_PAGE_ORDER + 1 /\ nlen (regs al) = N.of_nat m
            /\ tlens t0 (trk al)
            /\ forall r, r < N.of_nat m -> reg al r = buddy_new (region_pages l r) (full_pages l)) as H.
  { induction m as [|m IH]; intros Hm.
    - cbn [range_from fold_left]. split; [|split; [exact W1|split; [exact W2|split; [reflexivity|split; [apply tlens_refl|intros r Hr; lia]]]]].
      unfold tinv, al0. cbn [trk regs nlen].
      split; [apply (twf_weaken _ _ IR W1); lia|]. split; [intros r Hr; lia|]. split; [intros; apply W3|intros r k Hr; lia].
    - specialize (IH ltac:(lia)). cbv zeta in IH. destruct IH as (I1 & I2 & I3 & I4 & I5 & I6).
      rewrite range_from_snoc, fold_left_app. cbn [fold_left]. rewrite N.add_0_l.
      set (al := fold_left f (range_from m 0) al0) in *.
      unfold f at 1. cbv zeta. rewrite <- I4.
      destruct (tinv_push al IR (region_pages l (nlen (regs al))) (full_pages l) I1 I2 ltac:(unfold IR; lia) I3) as (P1 & P2 & P3).
      split; [exact P1|]. split; [exact P2|]. split; [exact P3|]. unfold f. cbn [regs trk].
      split; [rewrite nlen_app; cbn [nlen]; lia|]. split.
      + eapply tlens_trans; [exact I5|]. apply (mark_free_tlens _ IR); [exact I2|unfold IR; lia|].
        destruct (new_spec (region_pages l (nlen (regs al))) (full_pages l)) as (_ & _ & -> & _).
        rewrite I3. pose proof (usable_order_le (full_pages l)). lia.
      + intros r Hr. unfold reg. cbn [regs]. rewrite lget_snoc.
        destruct (N.eqb_spec r (nlen (regs al))) as [->|Hne]; [reflexivity|]. apply I6. lia. }
  specialize (H (N.to_nat (num_regions l)) ltac:(lia)). cbv zeta in H. rewrite N2Nat.id in H.
  destruct H as (H1 & H2 & H3 & H4 & H5 & H6).
  split; [exact H1|]. split; [exact H4|]. split; [exact H3|].
  split; [eapply tuni_tlens; [exact H5|apply tracker_new_uni]|].
  split; [eapply tcap_tlens; [exact H5|apply tracker_new_cap]|exact H6].
Qed.

Theorem minv_new l : lay_ok l -> minv (mem_new l).
Proof.
  intros Hl. destruct (allocators_new_spec l) as (H1 & H2 & H3 & H4 & H5 & H6). cbv zeta in *.
  unfold minv, mem_new. cbn [lay als].
  split; [exact Hl|]. split; [exact H1|]. split; [exact H2|]. split; [exact H3|]. split; [exact H4|]. split; [exact H5|].
  intros r Hr. rewrite (H6 r Hr).
  destruct (new_spec (region_pages l r) (full_pages l)) as (_ & N2 & N3 & _).
  split; [rewrite N2; now apply region_pages_rpages|]. split; [exact N3|apply rcap_new].
Qed.

(* ---------------------------------------------------------------- allocate_helper_retry, in detail *)

Lemma lset_same_reg al r : lset (regs al) r (reg al r) = regs al.
Proof.
  apply (list_ext _ _ dummy_buddy); [apply nlen_lset|]. intros i Hi. rewrite lget_lset.
  destruct (N.eqb_spec i r) as [->|]; [|reflexivity]. destruct (_ <? _); reflexivity.
Qed.

Definition alloc_in (lowest : bool) (a : Buddy) (k : N) : option N * Buddy :=
  if lowest then buddy_alloc_lowest a k else buddy_alloc a k.

Lemma alloc_in_spec lowest a k :
  BInv a ->
  match alloc_in lowest a k with
  | (Some x, a') =>
      BInv a' /\ bmax a' = bmax a /\ blen a' = blen a /\ k <= bmax a /\ (x + 1) * 2 ^ k <= blen a
      /\ blk_free a k x /\ (forall p, pfree a' p <-> pfree a p /\ p / 2 ^ k <> x)
  | (None, a') => a' = a /\ forall j, k <= j -> ~ has_free a j
  end.
Proof. intros H. destruct lowest; [apply alloc_lowest_spec|apply alloc_spec]; exact H. Qed.

Lemma hm_alloc_in lowest a k : hm (snd (alloc_in lowest a k)) = hm a.
Proof. destruct lowest; [apply hm_alloc_lowest|apply hm_alloc]. Qed.

Lemma allocate_retry_spec fuel : forall al k lowest,
  tinv al -> k < nlen (trk al) ->
  let '(res, al') := allocate_retry fuel al k lowest in
  tinv al' /\ tlens (trk al) (trk al') /\
  match res with
  | Some (r, x) =>
      r < nlen (regs al) /\ exists a', alloc_in lowest (reg al r) k = (Some x, a') /\ regs al' = lset (regs al) r a'
  | None => regs al' = regs al
  end.
Proof.
  induction fuel as [|f IH]; intros al k lowest Hinv Hk; cbn [allocate_retry].
  - split; [exact Hinv|]. split; [apply tlens_refl|reflexivity].
  - pose proof Hinv as (T1 & T2 & T3 & T4).
    pose proof (tracker_find_free_spec (trk al) _ k T1 Hk) as Sf.
    destruct (tracker_find_free (trk al) k) as [r|]; [|split; [exact Hinv|split; [apply tlens_refl|reflexivity]]].
    assert (r < nlen (regs al)) as Hr.
    { destruct (N.lt_ge_cases r (nlen (regs al))); [assumption|]. rewrite T3 in Sf by assumption. discriminate. }
    destruct (T2 r Hr) as [Hb Hm]. fold (reg al r).
    change (if lowest then buddy_alloc_lowest (reg al r) k else buddy_alloc (reg al r) k) with (alloc_in lowest (reg al r) k).
    pose proof (alloc_in_spec lowest (reg al r) k Hb) as S.
    destruct (alloc_in lowest (reg al r) k) as [[x|] a'] eqn:EA.
    + destruct S as (S1 & S2 & S3 & _ & _ & _ & S7).
      split. { apply tinv_take; try assumption. intros p Hp. apply S7 in Hp. tauto. }
      cbn [trk regs]. split; [apply tlens_refl|]. split; [exact Hr|]. exists a'. split; [exact EA|reflexivity].
    + destruct S as [-> Hnone]. rewrite lset_same_reg.
      assert (tinv (mkAllocators (tracker_mark_full (trk al) k r) (regs al))) as Hinv1 by (now apply tinv_mark_full).
      destruct (tracker_mark_full_spec (trk al) _ k r T1 Hr ltac:(lia)) as (_ & M2 & _).
      specialize (IH (mkAllocators (tracker_mark_full (trk al) k r) (regs al)) k lowest Hinv1 ltac:(cbn [trk]; now rewrite M2)).
      destruct (allocate_retry f _ k lowest) as [res al'].
      destruct IH as (I1 & I2 & I3). cbn [trk regs] in I2, I3.
      split; [exact I1|]. split.
      { eapply tlens_trans; [|exact I2]. apply (mark_full_tlens _ (nlen (regs al))); [exact T1|exact Hr|lia]. }
      exact I3.
Qed.

(* the regions keep their heights, lengths and max_order when one of them is replaced by an hm-equal one *)
Lemma hm_lset_reg al r a' r' : hm a' = hm (reg al r) -> hm (lget (lset (regs al) r a') r' dummy_buddy) = hm (reg al r').
Proof.
  intros H. rewrite lget_lset. destruct (N.eqb_spec r' r) as [->|]; cbn [andb]; [|reflexivity].
  destruct (N.ltb_spec r (nlen (regs al))); [exact H|reflexivity].
Qed.

(* minv survives any change that keeps tinv, the layout, the tracker's shape and each region's (heights, max_order, length) *)
Lemma minv_same m al' :
  minv m -> tinv al' -> nlen (regs al') = nlen (regs (als m)) -> tlens (trk (als m)) (trk al') ->
  (forall r, hm (reg al' r) = hm (reg (als m) r)) ->
  minv (mkMem (lay m) al').
Proof.
  intros (H1 & H2 & H3 & H4 & H5 & H6 & H7) Ht Hn Htl Hhm. unfold minv. cbn [lay als].
  split; [exact H1|]. split; [exact Ht|]. split; [congruence|].
  split; [destruct Htl as [-> _]; exact H4|]. split; [eapply tuni_tlens; eauto|]. split; [eapply tcap_tlens; eauto|].
  intros r Hr. destruct (H7 r Hr) as (Q1 & Q2 & Q3). specialize (Hhm r).
  split; [rewrite (hm_blen _ _ Hhm); exact Q1|]. split; [rewrite (hm_bmax _ _ Hhm); exact Q2|].
  eapply rcap_heights; [|exact Q3]. symmetry. apply hm_heights. exact Hhm.
Qed.

(* ---------------------------------------------------------------- live blocks across regions *)

Definition rlive := (N * N * N)%type.       (* (region, index, order) *)

Definition blk_okR (rs : list Buddy) (b : rlive) : Prop :=
  let '(r, i, k) := b in
  let a := lget rs r dummy_buddy in
  r < nlen rs /\ k <= bmax a /\ (i + 1) * 2 ^ k <= blen a /\ blk_used a k i.

Definition rdisjoint (b b' : rlive) : Prop :=
  fst (fst b) <> fst (fst b') \/ disjoint_blk (snd (fst b), snd b) (snd (fst b'), snd b').

(* good (m, live): minv m; every live block lies inside an existing region, is aligned inside it and none of its
   pages is free; live blocks are pairwise disjoint as (region, index, order) triples *)
Definition mgood (s : Mem * list rlive) : Prop :=
  minv (fst s) /\ Forall (blk_okR (regs (als (fst s)))) (snd s) /\ ForallOrdPairs rdisjoint (snd s).

Lemma in_blk_lt i k p L : (i + 1) * 2 ^ k <= L -> p / 2 ^ k = i -> p < L.
Proof. intros H E. pose proof (pow2_pos k). dmod p (2 ^ k). nia. Qed.

(* regions only gain length and lose no free page below their old length: live blocks stay fine *)
Lemma blk_ok_mono rs rs' b :
  blk_okR rs b ->
  (forall r, r < nlen rs ->
     r < nlen rs' /\ bmax (lget rs' r dummy_buddy) = bmax (lget rs r dummy_buddy)
     /\ blen (lget rs r dummy_buddy) <= blen (lget rs' r dummy_buddy)
     /\ forall p, p < blen (lget rs r dummy_buddy) -> pfree (lget rs' r dummy_buddy) p -> pfree (lget rs r dummy_buddy) p) ->
  blk_okR rs' b.
Proof.
  destruct b as [[r i] k]. intros (B1 & B2 & B3 & B4) H. destruct (H r B1) as (H1 & H2 & H3 & H4).
  split; [exact H1|]. split; [lia|]. split; [lia|].
  intros p Hp Hf. apply (B4 p Hp). apply H4; [|exact Hf]. eapply in_blk_lt; eauto.
Qed.

(* space taken out of region r *)
Lemma live_take rs r a' live :
  Forall (blk_okR rs) live -> bmax a' = bmax (lget rs r dummy_buddy) -> blen a' = blen (lget rs r dummy_buddy) ->
  (forall p, pfree a' p -> pfree (lget rs r dummy_buddy) p) ->
  Forall (blk_okR (lset rs r a')) live.
Proof.
  intros Hl Hm Hb Hp. eapply Forall_impl; [|exact Hl]. intros b Hbk. apply (blk_ok_mono rs _ b Hbk).
  intros r' Hr'. rewrite nlen_lset. split; [exact Hr'|]. rewrite lget_lset.
  destruct (N.eqb_spec r' r) as [->|]; cbn [andb]; [|repeat split; auto; lia].
  destruct (N.ltb_spec r (nlen rs)); [|lia]. split; [exact Hm|]. split; [lia|]. intros p _. apply Hp.
Qed.

(* a block carved out of the free space of region r is disjoint from every live block *)
Lemma new_block_disjoint rs r x k live :
  Forall (blk_okR rs) live -> blk_free (lget rs r dummy_buddy) k x ->
  Forall (rdisjoint (r, x, k)) live.
Proof.
  intros Hl Hf. eapply Forall_impl; [|exact Hl]. intros [[r' i'] k'] (B1 & B2 & B3 & B4).
  unfold rdisjoint. cbn [fst snd]. destruct (N.eq_dec r r') as [<-|Hne]; [right|left; exact Hne].
  intros p [E1 E2]. unfold in_blk in E1, E2. cbn [fst snd] in E1, E2. apply (B4 p E2). apply Hf. exact E1.
Qed.

Lemma new_block_ok rs r x k a a' :
  a = lget rs r dummy_buddy -> r < nlen rs -> bmax a' = bmax a -> blen a' = blen a -> k <= bmax a ->
  (x + 1) * 2 ^ k <= blen a -> (forall p, pfree a' p <-> pfree a p /\ p / 2 ^ k <> x) ->
  blk_okR (lset rs r a') (r, x, k).
Proof.
  intros -> Hr Hm Hb Hk Hx Hp. unfold blk_okR. rewrite nlen_lset, lget_lset_same by exact Hr.
  split; [exact Hr|]. split; [lia|]. split; [lia|]. intros p E F. apply Hp in F. tauto.
Qed.

(* allocate_helper_retry on a good state *)
Lemma mgood_retry fuel l al live k lowest :
  mgood (mkMem l al, live) -> k <= MAX_MAX_PAGE_ORDER ->
  let '(res, al') := allocate_retry fuel al k lowest in
  mgood (mkMem l al', match res with Some (r, x) => (r, x, k) :: live | None => live end)
  /\ match res with Some (r, x) => r < num_regions l /\ (x + 1) * 2 ^ k <= region_pages l r | None => True end.
Proof.
  intros (Hm & Hl & Hd) Hk. cbn [fst snd als] in *.
  pose proof Hm as (M1 & M2 & M3 & M4 & M5 & M6 & M7). cbn [lay als] in *.
  pose proof (allocate_retry_spec fuel al k lowest M2 ltac:(lia)) as S.
  destruct (allocate_retry fuel al k lowest) as [[[r x]|] al'].
  - destruct S as (S1 & S2 & Hr & a' & EA & Er).
    destruct M2 as (_ & T2 & _). destruct (T2 r Hr) as [Hb _].
    pose proof (alloc_in_spec lowest (reg al r) k Hb) as Sp. rewrite EA in Sp.
    destruct Sp as (A1 & A2 & A3 & A4 & A5 & A6 & A7).
    pose proof (hm_alloc_in lowest (reg al r) k) as Hhm. rewrite EA in Hhm. cbn [snd] in Hhm.
    split.
    + unfold mgood. cbn [fst snd als]. split.
      * apply (minv_same (mkMem l al) al' Hm S1); cbn [als]; [rewrite Er; apply nlen_lset|exact S2|].
        intros r'. unfold reg at 1. rewrite Er. now apply hm_lset_reg.
      * rewrite Er. split.
        -- constructor.
           ++ apply (new_block_ok (regs al) r x k (reg al r) a' eq_refl Hr A2 A3 A4 A5 A7).
           ++ apply live_take; try assumption. intros p Hp. apply A7 in Hp. tauto.
        -- constructor; [|exact Hd]. eapply new_block_disjoint; eauto.
    + rewrite <- M3. split; [exact Hr|]. destruct (M7 r ltac:(lia)) as (Q1 & _).
      rewrite (region_pages_rpages l r M1 ltac:(lia)), <- Q1. exact A5.
  - destruct S as (S1 & S2 & Er). split; [|exact I].
    unfold mgood. cbn [fst snd als]. split.
    + apply (minv_same (mkMem l al) al' Hm S1); cbn [als]; [now rewrite Er|exact S2|].
      intros r'. unfold reg. now rewrite Er.
    + rewrite Er. split; assumption.
Qed.

(* ---------------------------------------------------------------- growing the layout *)

Lemma regs_nonempty m : minv m -> regs (als m) <> [].
Proof.
  intros (M1 & _ & M3 & _) E. rewrite E in M3. cbn [nlen] in M3. destruct M1 as (_ & H & _). lia.
Qed.

Lemma cur_last m : minv m -> blen (last (regs (als m)) dummy_buddy) = last_region_pages (lay m).
Proof.
  intros Hm. pose proof Hm as (M1 & _ & M3 & _ & _ & _ & M7).
  rewrite (last_lget _ _ (regs_nonempty m Hm)), M3. fold (reg (als m) (num_regions (lay m) - 1)).
  destruct M1 as (_ & H & _). destruct (M7 (num_regions (lay m) - 1) ltac:(lia)) as [-> _].
  unfold rpages. now rewrite N.eqb_refl.
Qed.

Lemma grown_region_facts al nl r C :
  r < num_regions nl -> full_pages nl = C -> region_pages nl r <= C ->
  (r < nlen (regs al) ->
     BInv (reg al r) /\ blen (reg al r) <= region_pages nl r /\ bmax (reg al r) = calculate_usable_order C
     /\ rcap (reg al r) C) ->
  let a' := grown_region al nl r in
  blen a' = region_pages nl r /\ bmax a' = calculate_usable_order C /\ rcap a' C
  /\ (r < nlen (regs al) -> bmax a' = bmax (reg al r) /\ blen (reg al r) <= blen a'
        /\ forall p, p < blen (reg al r) -> pfree a' p -> pfree (reg al r) p).
Proof.
  intros Hr HC Hp Hold. cbv zeta. unfold grown_region. destruct (N.ltb_spec r (nlen (regs al))) as [Hlt|Hge].
  - destruct (Hold Hlt) as (Q1 & Q2 & Q3 & Q4).
    destruct (N.eqb_spec (region_pages nl r) (blen (reg al r))) as [Eq|Ne].
    + split; [now rewrite Eq|]. split; [exact Q3|]. split; [exact Q4|]. intros _. split; [reflexivity|]. split; [lia|auto].
    + pose proof (usable_order_le C).
      destruct (resize_spec (reg al r) (region_pages nl r) Q1 ltac:(unfold MAX_MAX_PAGE_ORDER in *; lia) (Q4 _ Hp) ltac:(intros; lia))
        as (_ & R1 & R2 & R3 & R4).
      destruct (heights_resize (reg al r) (region_pages nl r)) as [Hh _].
      split; [exact R2|]. split; [congruence|]. split; [eapply rcap_heights; [symmetry; exact Hh|exact Q4]|].
      intros _. split; [exact R3|]. split; [lia|]. intros p Hlt' Hf. apply R4 in Hf. destruct Hf as [[Hf _]|Hf]; [exact Hf|lia].
  - destruct (new_spec (region_pages nl r) (full_pages nl)) as (_ & N2 & N3 & _).
    split; [exact N2|]. split; [rewrite N3, HC; reflexivity|]. split; [rewrite <- HC; apply rcap_new|]. intros; lia.
Qed.

(* resize_to towards a layout in which no region is smaller (what grow() produces) *)
Theorem mgood_grow m live nl :
  mgood (m, live) ->
  full_pages nl = full_pages (lay m) -> lay_ok nl -> num_regions (lay m) <= num_regions nl ->
  (forall r, r < num_regions (lay m) -> rpages (lay m) r <= rpages nl r) ->
  num_regions nl <= MAX_REGIONS ->
  mgood (mkMem nl (resize_to (als m) nl), live).
Proof.
  intros (Hm & Hl & Hd) Hfull Hok Hnum Hpages Hmax. cbn [fst snd] in *.
  pose proof Hm as (M1 & M2 & M3 & M4 & M5 & M6 & M7).
  pose proof (cur_last m Hm) as Hcur.
  pose proof M1 as (_ & Hn1 & _).
  assert (last_region_pages (lay m) <= rpages nl (num_regions (lay m) - 1)) as Hlast.
  { specialize (Hpages (num_regions (lay m) - 1) ltac:(lia)). unfold rpages at 1 in Hpages. now rewrite N.eqb_refl in Hpages. }
  destruct (resize_to_cases (als m) nl) as [(E & E1 & E2)|[(E & Hc)|(E & Hc)]]; rewrite E.
  - (* nothing to do *)
    unfold mgood. cbn [fst snd als]. split; [|split; assumption].
    unfold minv. cbn [lay als]. split; [exact Hok|]. split; [exact M2|]. split; [lia|]. split; [exact M4|].
    split; [exact M5|]. split; [exact M6|]. intros r Hr. rewrite E1, M3 in Hr. destruct (M7 r Hr) as (Q1 & Q2 & Q3).
    rewrite Hfull. split; [|split; assumption]. rewrite Q1. unfold rpages. rewrite E1, M3.
    destruct (N.eqb_spec r (num_regions (lay m) - 1)); [lia|congruence].
  - exfalso. rewrite Hcur, M3 in Hc. destruct Hc as [Hc|[Hc1 Hc2]]; [lia|].
    unfold rpages in Hlast. rewrite <- Hc1, N.eqb_refl in Hlast. lia.
  - (* growing *)
    assert (grow_pre (als m) nl) as Hpre.
    { split; [lia|]. split; [unfold MAX_MAX_PAGE_ORDER in *; lia|].
      split; [rewrite M4; pose proof (usable_order_le (full_pages nl)); lia|]. split; [exact M5|].
      split; [intros j n Hj Hn; apply M6; [exact Hj|lia]|].
      intros r Hr. rewrite M3 in Hr. destruct (M7 r Hr) as (Q1 & Q2 & Q3).
      rewrite (region_pages_rpages nl r Hok ltac:(lia)).
      split; [rewrite Q1; now apply Hpages|]. pose proof (usable_order_le (full_pages (lay m))).
      split; [unfold MAX_MAX_PAGE_ORDER in *; lia|]. apply Q3. rewrite <- Hfull. apply rpages_bounds; [exact Hok|lia]. }
    destruct (resize_grow_spec (als m) nl M2 Hpre) as (G1 & G2 & G3 & G4 & G5). cbv zeta in *.
    set (al' := resize_grow (als m) nl) in *.
    assert (forall r, r < num_regions nl ->
              let a' := reg al' r in
              blen a' = region_pages nl r /\ bmax a' = calculate_usable_order (full_pages (lay m)) /\ rcap a' (full_pages (lay m))
              /\ (r < nlen (regs (als m)) -> bmax a' = bmax (reg (als m) r) /\ blen (reg (als m) r) <= blen a'
                    /\ forall p, p < blen (reg (als m) r) -> pfree a' p -> pfree (reg (als m) r) p)) as Hreg.
    { intros r Hr. cbv zeta. rewrite (G5 r Hr). apply grown_region_facts; [exact Hr|exact Hfull| |].
      - rewrite (region_pages_rpages nl r Hok Hr), <- Hfull. now apply rpages_bounds.
      - intros Hlt. rewrite M3 in Hlt. destruct (M7 r Hlt) as (Q1 & Q2 & Q3).
        destruct M2 as (_ & T2 & _). destruct (T2 r ltac:(lia)) as [Hb _].
        split; [exact Hb|]. split; [|split; assumption].
        rewrite Q1, (region_pages_rpages nl r Hok Hr). now apply Hpages. }
    unfold mgood. cbn [fst snd als]. split; [|split; [|exact Hd]].
    + unfold minv. cbn [lay als]. split; [exact Hok|]. split; [exact G1|]. split; [exact G2|].
      split; [destruct G3 as [-> _]; exact M4|]. split; [exact G4|]. split; [eapply tcap_theights; eauto|].
      intros r Hr. destruct (Hreg r Hr) as (H1 & H2 & H3 & _). rewrite Hfull.
      split; [rewrite H1; now apply region_pages_rpages|]. split; assumption.
    + eapply Forall_impl; [|exact Hl]. intros b Hb. apply (blk_ok_mono _ _ b Hb).
      intros r Hr. split; [lia|]. apply (Hreg r ltac:(lia)). exact Hr.
Qed.

(* allocate_helper: retry; on failure grow the file and retry *)
Theorem mgood_allocate m live k lowest :
  mgood (m, live) -> k <= MAX_MAX_PAGE_ORDER -> num_regions (grow_layout (lay m) k) <= MAX_REGIONS ->
  let '(res, m') := mem_allocate m k lowest in
  mgood (m', match res with Some (r, x) => (r, x, k) :: live | None => live end)
  /\ match res with Some (r, x) => r < num_regions (lay m') /\ (x + 1) * 2 ^ k <= region_pages (lay m') r | None => True end.
Proof.
  intros Hg Hk Hmax. destruct m as [l al]. cbn [lay] in Hmax. unfold mem_allocate. cbn [lay als].
  pose proof (mgood_retry (retry_fuel al) l al live k lowest Hg Hk) as S1.
  destruct (allocate_retry (retry_fuel al) al k lowest) as [[[r x]|] al1].
  - exact S1.
  - destruct S1 as [S1 _].
    pose proof S1 as ((M1 & _) & _). cbn [fst lay] in M1.
    destruct (grow_layout_spec l k M1) as (L1 & L2 & L3 & L4). cbv zeta in *.
    pose proof (mgood_grow (mkMem l al1) live (grow_layout l k) S1 L1 L2 L3 L4 Hmax) as S2. cbn [als] in S2.
    set (al2 := resize_to al1 (grow_layout l k)) in *.
    pose proof (mgood_retry (retry_fuel al2) (grow_layout l k) al2 live k lowest S2 Hk) as S3.
    destruct (allocate_retry (retry_fuel al2) al2 k lowest) as [res al3]. exact S3.
Qed.

(* ---------------------------------------------------------------- free_helper *)

Definition rl_eqb (b b' : rlive) : bool :=
  (fst (fst b) =? fst (fst b')) && (snd (fst b) =? snd (fst b')) && (snd b =? snd b').

Fixpoint rremove1 (b : rlive) (l : list rlive) : list rlive :=
  match l with
  | [] => []
  | x :: r => if rl_eqb b x then r else x :: rremove1 b r
  end.

Lemma rl_eqb_eq b b' : rl_eqb b b' = true <-> b = b'.
Proof.
  destruct b as [[r i] k], b' as [[r' i'] k']. unfold rl_eqb. cbn [fst snd].
  rewrite !andb_true_iff, !N.eqb_eq. split; [intros [[-> ->] ->]; reflexivity|intros H; inversion H; auto].
Qed.

Lemma rdisjoint_sym b b' : rdisjoint b b' -> rdisjoint b' b.
Proof. intros [H|H]; [left; congruence|right]. intros p [H1 H2]. apply (H p). tauto. Qed.

Lemma rremove1_incl b l x : In x (rremove1 b l) -> In x l.
Proof. induction l as [|y r IH]; simpl; [tauto|]. destruct (rl_eqb b y); simpl; tauto. Qed.

Lemma rremove1_Forall {P : rlive -> Prop} b l : Forall P l -> Forall P (rremove1 b l).
Proof.
  intros H. apply Forall_forall. intros x Hx. rewrite Forall_forall in H. apply H. eapply rremove1_incl; eauto.
Qed.

Lemma rremove1_FOP b l : ForallOrdPairs rdisjoint l -> ForallOrdPairs rdisjoint (rremove1 b l).
Proof.
  induction 1 as [|y r Hy Hr IH]; simpl; [constructor|].
  destruct (rl_eqb b y); [exact Hr|]. constructor; [now apply rremove1_Forall|exact IH].
Qed.

Lemma rremove1_disjoint b l x : ForallOrdPairs rdisjoint l -> In b l -> In x (rremove1 b l) -> rdisjoint b x.
Proof.
  induction 1 as [|y r Hy Hr IH]; simpl; [tauto|]. intros Hb Hx.
  destruct (rl_eqb b y) eqn:E.
  - apply rl_eqb_eq in E. subst y. rewrite Forall_forall in Hy. auto.
  - destruct Hb as [->|Hb]; [assert (rl_eqb b b = true) by (now apply rl_eqb_eq); congruence|].
    destruct Hx as [->|Hx].
    + rewrite Forall_forall in Hy. apply rdisjoint_sym. auto.
    + auto.
Qed.

Theorem mgood_free m live r i k :
  mgood (m, live) -> In (r, i, k) live -> mgood (mem_free m r i k, rremove1 (r, i, k) live).
Proof.
  intros (Hm & Hl & Hd) Hin. cbn [fst snd] in *.
  pose proof Hl as Hl'. rewrite Forall_forall in Hl'. destruct (Hl' _ Hin) as (B1 & B2 & B3 & B4).
  fold (reg (als m) r) in B2, B3, B4.
  pose proof Hm as (M1 & M2 & M3 & M4 & M5 & M6 & M7).
  pose proof (mem_free_tinv m r i k M2 B1 B2 (idx_lt_of_range _ _ _ B3) B4) as Ht.
  pose proof M2 as (T1 & T2 & _). destruct (T2 r B1) as [Hb Hmx].
  pose proof (free_spec (reg (als m) r) i k Hb B2 (idx_lt_of_range _ _ _ B3) B4) as S.
  pose proof (hm_free (reg (als m) r) i k) as Hhm.
  unfold mem_free in *. fold (reg (als m) r) in *.
  destruct (buddy_free (reg (als m) r) i k) as [o a']. cbn [als snd] in *.
  destruct S as (S1 & S2 & S3 & S4 & S5 & _ & S7 & _).
  unfold mgood. cbn [fst snd als]. split; [|split].
  - apply (minv_same m _ Hm Ht); cbn [regs trk].
    + apply nlen_lset.
    + apply (mark_free_tlens _ (nlen (regs (als m)))); [exact T1|exact B1|lia].
    + intros r'. unfold reg at 1. cbn [regs]. now apply hm_lset_reg.
  - apply Forall_forall. intros [[r' i'] k'] Hb'.
    pose proof (rremove1_disjoint _ _ _ Hd Hin Hb') as Hdis.
    destruct (Hl' _ (rremove1_incl _ _ _ Hb')) as (C1 & C2 & C3 & C4).
    unfold blk_okR. cbn [regs]. rewrite nlen_lset, lget_lset.
    destruct (N.eqb_spec r' r) as [->|Hne]; cbn [andb]; [|repeat split; assumption].
    destruct (N.ltb_spec r (nlen (regs (als m)))); [|lia].
    fold (reg (als m) r) in C2, C3, C4.
    split; [exact C1|]. split; [lia|]. split; [lia|].
    intros p E F. apply S7 in F. destruct F as [F|F]; [apply (C4 p E F)|].
    destruct Hdis as [Hdis|Hdis]; [cbn [fst] in Hdis; congruence|].
    apply (Hdis p). split; [exact F|exact E].
  - now apply rremove1_FOP.
Qed.

(* ---------------------------------------------------------------- mark_page_allocated *)

Theorem mgood_record m live r i k :
  mgood (m, live) ->
  let '(ok, m') := mem_record_alloc m r i k in
  mgood (m', if ok then (r, i, k) :: live else live)
  /\ (ok = true -> r < num_regions (lay m') /\ (i + 1) * 2 ^ k <= region_pages (lay m') r).
Proof.
  intros Hg. pose proof Hg as (Hm & Hl & Hd). cbn [fst snd] in *.
  pose proof Hm as (M1 & M2 & M3 & M4 & M5 & M6 & M7).
  pose proof (mem_record_alloc_tinv m r i k M2) as Ht. unfold mem_record_alloc in *.
  destruct (MAX_MAX_PAGE_ORDER <? k); [split; [exact Hg|discriminate]|].
  destruct (N.leb_spec (num_regions (lay m)) r) as [|Hr]; [split; [exact Hg|discriminate]|].
  destruct (N.ltb_spec (region_pages (lay m) r) ((i + 1) * 2 ^ k)) as [|Hp]; [split; [exact Hg|discriminate]|].
  fold (reg (als m) r) in *.
  pose proof M2 as (T1 & T2 & _). destruct (T2 r ltac:(lia)) as [Hb _].
  pose proof (record_alloc_spec (reg (als m) r) i k Hb) as S.
  pose proof (hm_record (reg (als m) r) i k) as Hhm.
  destruct (buddy_record_alloc (reg (als m) r) i k) as [[|] a']; [|split; [exact Hg|discriminate]].
  cbn [snd als] in *. destruct S as (S1 & S2 & S3 & S4 & S5 & S6 & S7).
  split; [|intros _; cbn [lay]; split; assumption].
  unfold mgood. cbn [fst snd als]. split; [|split].
  - apply (minv_same m _ Hm Ht); cbn [regs trk]; [apply nlen_lset|apply tlens_refl|].
    intros r'. unfold reg at 1. cbn [regs]. now apply hm_lset_reg.
  - cbn [regs]. constructor.
    + apply (new_block_ok (regs (als m)) r i k (reg (als m) r) a' eq_refl ltac:(lia) S2 S3 S4 S5 S7).
    + apply live_take; try assumption. intros p Hp'. apply S7 in Hp'. tauto.
  - constructor; [|exact Hd]. eapply new_block_disjoint; eauto.
Qed.

(* ---------------------------------------------------------------- shrinking the layout *)

(* the same allocators under a layout that describes them equally well *)
Lemma minv_relayout m nl :
  minv m -> lay_ok nl -> full_pages nl = full_pages (lay m) -> num_regions nl = num_regions (lay m) ->
  last_region_pages nl = last_region_pages (lay m) -> minv (mkMem nl (als m)).
Proof.
  intros (M1 & M2 & M3 & M4 & M5 & M6 & M7) Hok Hf Hn Hlast. unfold minv. cbn [lay als].
  split; [exact Hok|]. split; [exact M2|]. split; [lia|]. split; [exact M4|]. split; [exact M5|]. split; [exact M6|].
  intros r Hr. rewrite Hn in Hr. destruct (M7 r Hr) as (Q1 & Q2 & Q3). rewrite Hf.
  split; [|split; assumption]. rewrite Q1. unfold rpages. rewrite Hn, Hlast, Hf. reflexivity.
Qed.

Lemma last_page_in_block i k : ((i + 1) * 2 ^ k - 1) / 2 ^ k = i.
Proof.
  pose proof (pow2_pos k). replace ((i + 1) * 2 ^ k - 1) with (i * 2 ^ k + (2 ^ k - 1)) by nia.
  rewrite N.div_add_l by lia. rewrite N.div_small by lia. lia.
Qed.

(* resize_to towards a layout that drops the (completely free) last region, or cuts a free tail off it *)
Theorem mgood_shrink_to m live nl :
  mgood (m, live) -> full_pages nl = full_pages (lay m) -> lay_ok nl ->
  let n := num_regions (lay m) in
  let la := reg (als m) (n - 1) in
  ((num_regions nl = n - 1 /\ last_region_pages nl = full_pages (lay m) /\ 1 < n /\ (forall p, p < blen la -> pfree la p))
   \/ (num_regions nl = n /\ last_region_pages nl <= blen la
       /\ (forall p, last_region_pages nl <= p -> p < blen la -> pfree la p))) ->
  mgood (mkMem nl (resize_to (als m) nl), live).
Proof.
  intros (Hm & Hl & Hd) Hfull Hok n la Hcase. cbn [fst snd] in *.
  pose proof Hm as (M1 & M2 & M3 & M4 & M5 & M6 & M7).
  pose proof (cur_last m Hm) as Hcur. pose proof M1 as (_ & Hn1 & _). fold n in Hn1, M3.
  pose proof M2 as (T1 & T2 & _).
  assert (blen la = last_region_pages (lay m)) as Hla.
  { unfold la. destruct (M7 (n - 1) ltac:(unfold n in *; lia)) as [-> _]. unfold rpages. fold n. now rewrite N.eqb_refl. }
  destruct (last_region_pages_bounds (lay m) M1) as [Hlb1 Hlb2].
  destruct (last_region_pages_bounds nl Hok) as [Hnb1 Hnb2].
  assert (forall r, r < n -> r <> n - 1 -> blen (reg (als m) r) = full_pages (lay m)) as Hfullr.
  { intros r Hr Hne. destruct (M7 r Hr) as [-> _]. unfold rpages. fold n. destruct (N.eqb_spec r (n - 1)); [lia|reflexivity]. }
  destruct (resize_to_cases (als m) nl) as [(E & E1 & E2)|[(E & Hc)|(E & Hc)]]; rewrite E.
  - (* nothing to do *)
    unfold mgood. cbn [fst snd als]. split; [|split; assumption].
    apply minv_relayout; try assumption; [lia|]. rewrite E2, Hcur. reflexivity.
  - (* the shrinking branch *)
    assert (shrink_pre (als m) nl) as Hpre.
    { destruct Hok as (_ & Hk1 & _). split; [exact Hk1|]. split; [destruct Hcase as [(H1 & _)|(H1 & _)]; lia|].
      cbv zeta. intros Hlt. destruct Hcase as [(H1 & H2 & H3 & H4)|(H1 & H2 & H3)].
      - exfalso. rewrite H1, H2 in Hlt. rewrite (Hfullr (n - 1 - 1)) in Hlt by lia. lia.
      - rewrite H1. fold la. destruct (M7 (n - 1) ltac:(lia)) as (_ & Q2 & _). fold la in Q2.
        pose proof (usable_order_le (full_pages (lay m))). split; [unfold MAX_MAX_PAGE_ORDER in *; lia|exact H3]. }
    destruct (resize_shrink_spec (als m) nl M2 Hpre) as (G1 & G2 & G3 & G5). cbv zeta in *.
    set (al' := resize_shrink (als m) nl) in *.
    (* every surviving region: the same, or the last one cut *)
    assert (forall r, r < num_regions nl ->
              let a := reg (als m) r in let a' := reg al' r in
              blen a' = rpages nl r /\ bmax a' = bmax a /\ heights a' = heights a /\ blen a' <= blen a
              /\ (forall p, pfree a' p -> pfree a p)) as Hreg.
    { intros r Hr. cbv zeta. rewrite (G5 r Hr). unfold shrunk_region.
      destruct ((r =? num_regions nl - 1) && (last_region_pages nl <? blen (reg (als m) r))) eqn:C.
      - apply andb_true_iff in C. destruct C as [C1 C2]. apply N.eqb_eq in C1. apply N.ltb_lt in C2.
        destruct (T2 r ltac:(destruct Hcase as [(H1 & _)|(H1 & _)]; lia)) as [Hb _].
        pose proof Hb as (Hsh & _).
        assert (bmax (reg (als m) r) <= 32) as H32.
        { destruct (M7 r ltac:(destruct Hcase as [(H1 & _)|(H1 & _)]; lia)) as (_ & -> & _).
          pose proof (usable_order_le (full_pages (lay m))). unfold MAX_MAX_PAGE_ORDER in *. lia. }
        assert (forall p, last_region_pages nl <= p -> p < blen (reg (als m) r) -> pfree (reg (als m) r) p) as Htail.
        { destruct Hcase as [(H1 & H2 & H3 & H4)|(H1 & H2 & H3)].
          - exfalso. rewrite H2 in C2. rewrite (Hfullr r) in C2 by lia. lia.
          - assert (r = n - 1) as -> by lia. exact H3. }
        destruct (resize_spec _ (last_region_pages nl) Hb H32 (resize_trees_pre_shrink (blen (reg (als m) r)) (reg (als m) r) (last_region_pages nl) Hsh (N.lt_le_incl _ _ C2)) Htail)
          as (_ & R1 & R2 & R3 & R4).
        destruct (heights_resize (reg (als m) r) (last_region_pages nl)) as [Hh _].
        split; [rewrite R2; unfold rpages; rewrite C1, N.eqb_refl; reflexivity|]. split; [exact R3|]. split; [exact Hh|].
        split; [lia|]. intros p Hp. apply R4 in Hp. destruct Hp as [[Hp _]|Hp]; [exact Hp|lia].
      - split; [|split; [reflexivity|split; [reflexivity|split; [lia|auto]]]].
        apply andb_false_iff in C. unfold rpages.
        destruct (N.eqb_spec r (num_regions nl - 1)) as [Er|Er].
        + destruct C as [C|C]; [discriminate|]. apply N.ltb_ge in C.
          destruct Hcase as [(H1 & H2 & H3 & H4)|(H1 & H2 & H3)].
          * rewrite H2. apply Hfullr; lia.
          * assert (r = n - 1) as -> by lia. fold la in C |- *. lia.
        + rewrite Hfull. apply Hfullr; destruct Hcase as [(H1 & _)|(H1 & _)]; lia. }
    unfold mgood. cbn [fst snd als]. split; [|split; [|exact Hd]].
    + unfold minv. cbn [lay als]. split; [exact Hok|]. split; [exact G1|]. split; [exact G2|].
      split; [destruct G3 as [-> _]; exact M4|]. split; [eapply tuni_tlens; eauto|]. split; [eapply tcap_tlens; eauto|].
      intros r Hr. destruct (Hreg r Hr) as (H1 & H2 & H3 & _).
      destruct (M7 r ltac:(destruct Hcase as [(H1' & _)|(H1' & _)]; lia)) as (_ & Q2 & Q3).
      rewrite Hfull. split; [exact H1|]. split; [congruence|]. eapply rcap_heights; [symmetry; exact H3|exact Q3].
    + apply Forall_forall. intros [[r' i'] k'] Hb'. rewrite Forall_forall in Hl.
      destruct (Hl _ Hb') as (C1 & C2 & C3 & C4). fold (reg (als m) r') in C2, C3, C4.
      (* the block's last page is not free, so it lies below any free tail *)
      assert (~ pfree (reg (als m) r') ((i' + 1) * 2 ^ k' - 1)) as Hq by (apply C4; apply last_page_in_block).
      assert ((i' + 1) * 2 ^ k' - 1 < blen (reg (als m) r')) as Hqlt by (pose proof (pow2_pos k'); nia).
      assert (r' < num_regions nl) as Hr'.
      { destruct Hcase as [(H1 & H2 & H3 & H4)|(H1 & _)]; [|lia].
        destruct (N.eq_dec r' (n - 1)) as [->|]; [|lia]. exfalso. apply Hq. apply H4. exact Hqlt. }
      destruct (Hreg r' Hr') as (H1 & H2 & H3 & H4 & H5).
      unfold blk_okR. fold (reg al' r'). split; [lia|]. split; [lia|]. split.
      * rewrite H1. unfold rpages. destruct (N.eqb_spec r' (num_regions nl - 1)) as [Er|Er].
        -- destruct Hcase as [(K1 & K2 & K3 & K4)|(K1 & K2 & K3)].
           ++ rewrite K2, <- (Hfullr r') by lia. exact C3.
           ++ assert (r' = n - 1) as -> by lia. fold la in Hq, Hqlt, C3.
              destruct (N.le_gt_cases ((i' + 1) * 2 ^ k') (last_region_pages nl)) as [Hle|Hgt]; [exact Hle|].
              exfalso. apply Hq. apply K3; [lia|exact Hqlt].
        -- rewrite Hfull, <- (Hfullr r'); [exact C3| |]; destruct Hcase as [(K1 & _)|(K1 & _)]; lia.
      * intros p E' F. apply (C4 p E'). apply H5. exact F.
  - (* the growing branch cannot be taken *)
    exfalso. rewrite Hcur, M3 in Hc. destruct Hcase as [(H1 & _)|(H1 & H2 & _)]; lia.
Qed.

(* try_shrink *)
Theorem mgood_try_shrink m live force : mgood (m, live) -> mgood (snd (mem_try_shrink m force), live).
Proof.
  intros Hg. pose proof Hg as (Hm & Hl & Hd). cbn [fst snd] in *.
  pose proof Hm as (M1 & M2 & M3 & M4 & M5 & M6 & M7).
  pose proof M1 as (_ & Hn1 & _).
  unfold mem_try_shrink. fold (reg (als m) (num_regions (lay m) - 1)).
  set (n := num_regions (lay m)) in *. set (la := reg (als m) (n - 1)).
  set (tf := trailing_free_pages la). set (ll := blen la).
  destruct (tf =? 0); [exact Hg|].
  destruct ((tf <? ll / 2) && negb force); [exact Hg|]. cbn [snd].
  assert (ll = last_region_pages (lay m)) as Hll.
  { unfold ll, la. destruct (M7 (n - 1) ltac:(lia)) as [-> _]. unfold rpages. fold n. now rewrite N.eqb_refl. }
  destruct (last_region_pages_bounds (lay m) M1) as [Hlb1 Hlb2].
  destruct M2 as (_ & T2 & _). destruct (T2 (n - 1) ltac:(lia)) as [Hb _]. fold la in Hb.
  destruct (trailing_free_pages_sound la Hb ltac:(fold ll; lia)) as [Htf1 Htf2]. fold tf ll in Htf1, Htf2.
  set (rb := if (1 <? n) && (tf =? ll) then tf else if force then N.min (ll - 1) tf else tf / 2).
  assert (rb <= tf /\ rb <= ll /\ (rb = ll -> 1 < n /\ tf = ll)) as (Hrb1 & Hrb2 & Hrb3).
  { unfold rb. destruct ((1 <? n) && (tf =? ll)) eqn:C.
    - apply andb_true_iff in C. destruct C as [C1 C2]. apply N.ltb_lt in C1. apply N.eqb_eq in C2. lia.
    - destruct force; [lia|]. dmod tf 2. lia. }
  destruct (reduce_last_region_spec (lay m) rb M1 ltac:(lia) ltac:(intros; apply Hrb3; lia)) as (F1 & F2 & F3).
  cbv zeta in *. apply mgood_shrink_to; try assumption. cbv zeta. fold n la ll.
  destruct F3 as [(K1 & K2 & K3)|(K1 & K2 & K3)].
  - left. destruct (Hrb3 ltac:(lia)) as [Hn Htf]. split; [exact K2|]. split; [exact K3|]. split; [exact Hn|].
    intros p Hp. apply Htf2; lia.
  - right. split; [exact K2|]. split; [lia|]. intros p Hp1 Hp2. apply Htf2; lia.
Qed.
