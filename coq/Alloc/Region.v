(* C14 model, part 3: region.rs (RegionTracker, Allocators) and the allocation bookkeeping of
   page_manager.rs (allocate_helper / allocate_helper_retry / grow, free_helper, try_shrink,
   mark_page_allocated).  Definitions only; proofs in RegionP.v.
   Layouts are counted in pages: every byte quantity in grow()/DatabaseLayout::calculate is a multiple
   of the page size, so the page size cancels. *)
From Coq Require Import List NArith Bool.
From RV Require Import Base.Bytes Gen.Consts Alloc.Bitmap Alloc.Buddy.
Import ListNotations.
Open Scope N_scope.

(* ---------------------------------------------------------------- RegionTracker *)

Definition Tracker := list Btree.

Definition tracker_new (regions orders : N) : Tracker :=
  nrepeat (bt_new_padded regions regions MAX_REGIONS) orders.

Definition tracker_to_vec (t : Tracker) : bytes :=
  let vecs := map bt_to_vec t in
  le_encode 4 (nlen t) ++ flat_map (fun v => le_encode 4 (nlen v)) vecs ++ concat vecs.

Fixpoint slices_len (data : bytes) (start : N) (lens : list N) : list bytes :=
  match lens with
  | [] => []
  | n :: r => nfirstn n (nskipn start data) :: slices_len data (start + n) r
  end.

Definition tracker_from_bytes (page : bytes) : Tracker :=
  let orders := le_decode (nfirstn 4 page) in
  let lens := map le_decode (chunks4 (N.to_nat orders) (nskipn 4 page)) in
  map bt_from_bytes (slices_len page (4 + 4 * orders) lens).

Definition tracker_find_free (t : Tracker) (order : N) : option N :=
  bt_find_first_unset (lget t order empty_bt).

Definition tracker_mark_free (t : Tracker) (order region : N) : Tracker :=
  fold_left (fun acc i => lset acc i (bt_clear (lget acc i empty_bt) region))
            (orders_up (S (N.to_nat order)) 0) t.

Definition tracker_mark_full (t : Tracker) (order region : N) : Tracker :=
  fold_left (fun acc i => lset acc i (bt_set (lget acc i empty_bt) region))
            (orders_up (N.to_nat (nlen t - order)) order) t.

Definition tracker_resize (t : Tracker) (new_capacity : N) : Tracker :=
  map (fun b => bt_resize b new_capacity true) t.

Definition tracker_len (t : Tracker) : N := bt_len (lget t 0 empty_bt).

(* is region r marked "may be free" at order k ? *)
Definition tracker_bit (t : Tracker) (order region : N) : bool := bt_get (lget t order empty_bt) region.

(* ---------------------------------------------------------------- layouts (in pages) *)

Record Layout := mkLayout { full_pages : N; num_full : N; trailing : option N }.

Definition num_regions (l : Layout) : N :=
  match trailing l with Some _ => num_full l + 1 | None => num_full l end.

Definition region_pages (l : Layout) (region : N) : N :=
  if region =? num_full l then match trailing l with Some t => t | None => 0 end else full_pages l.

Definition last_region_pages (l : Layout) : N :=
  match trailing l with Some t => t | None => full_pages l end.

Definition layout_usable (l : Layout) : N :=
  num_full l * full_pages l + match trailing l with Some t => t | None => 0 end.

Definition layout_calculate (desired capacity : N) : Layout :=
  if desired <=? capacity then mkLayout capacity 0 (Some desired)
  else
    let fr := desired / capacity in
    let rem := desired - fr * capacity in
    mkLayout capacity fr (if 0 <? rem then Some rem else None).

Definition reduce_last_region (l : Layout) (pages : N) : Layout :=
  match trailing l with
  | Some t => mkLayout (full_pages l) (num_full l) (if t - pages =? 0 then None else Some (t - pages))
  | None =>
      mkLayout (full_pages l) (num_full l - 1)
               (if pages <? full_pages l then Some (full_pages l - pages) else None)
  end.

(* ---------------------------------------------------------------- Allocators *)

Record Allocators := mkAllocators { trk : Tracker; regs : list Buddy }.

Definition dummy_buddy : Buddy := mkBuddy [] 0 0.

Definition allocators_new (l : Layout) : Allocators :=
  let initial_regions := N.max INITIAL_REGIONS (num_regions l) in
  let t0 := tracker_new initial_regions (MAX_MAX_PAGE_ORDER + 1) in
  fold_left (fun acc i =>
               let a := buddy_new (region_pages l i) (full_pages l) in
               mkAllocators (tracker_mark_free (trk acc) (bmax a) i) (regs acc ++ [a]))
            (range_from (N.to_nat (num_regions l)) 0) (mkAllocators t0 []).

Definition hfo (a : Buddy) : N := match highest_free_order a with Some o => o | None => 0 end.

Definition resize_to (al : Allocators) (nl : Layout) : Allocators :=
  let old_n := nlen (regs al) in
  let new_n := num_regions nl in
  let last_pages := last_region_pages nl in
  let cur_last_len := blen (last (regs al) dummy_buddy) in
  let shrink :=
    if new_n <? old_n then Some true
    else if new_n =? old_n then
      (if last_pages <? cur_last_len then Some true
       else if last_pages =? cur_last_len then None else Some false)
    else Some false in
  match shrink with
  | None => al
  | Some true =>
      let t1 := fold_left (fun t i => tracker_mark_full t 0 i) (range_from (N.to_nat (old_n - new_n)) new_n) (trk al) in
      let regs1 := nfirstn new_n (regs al) in
      let lastb := last regs1 dummy_buddy in
      let regs2 := if last_pages <? blen lastb
                   then lset regs1 (new_n - 1) (buddy_resize lastb last_pages) else regs1 in
      mkAllocators t1 regs2
  | Some false =>
      fold_left (fun acc i =>
                   let pages := region_pages nl i in
                   if i <? old_n then
                     let a := lget (regs acc) i dummy_buddy in
                     if pages =? blen a then acc
                     else
                       let a' := buddy_resize a pages in
                       mkAllocators (tracker_mark_free (trk acc) (hfo a') i) (lset (regs acc) i a')
                   else
                     let a := buddy_new pages (full_pages nl) in
                     let t1 := if tracker_len (trk acc) <=? i then tracker_resize (trk acc) (i + 1) else trk acc in
                     mkAllocators (tracker_mark_free t1 (hfo a) i) (regs acc ++ [a]))
                (range_from (N.to_nat new_n) 0) al
  end.

(* ---------------------------------------------------------------- page_manager bookkeeping *)

Record Mem := mkMem { lay : Layout; als : Allocators }.

Definition mem_new (l : Layout) : Mem := mkMem l (allocators_new l).

(* layout chosen by TransactionalMemory::new for an empty file (page_size a power of two >= 512) *)
Definition initial_layout (page_size region_pages : N) : Layout :=
  let trk_bytes := nlen (tracker_to_vec (tracker_new INITIAL_REGIONS (MAX_MAX_PAGE_ORDER + 1))) in
  let size := N.max MIN_DESIRED_USABLE_BYTES (page_size * MIN_USABLE_PAGES) in
  let tracker_space := page_size * ((trk_bytes + page_size - 1) / page_size) in
  layout_calculate ((size + tracker_space + page_size - 1) / page_size) region_pages.

(* allocate_helper_retry: (region, page index) *)
Fixpoint allocate_retry (fuel : nat) (al : Allocators) (order : N) (lowest : bool)
  : option (N * N) * Allocators :=
  match fuel with
  | O => (None, al)
  | S f =>
      match tracker_find_free (trk al) order with
      | None => (None, al)
      | Some r =>
          let a := lget (regs al) r dummy_buddy in
          let '(res, a') := if lowest then buddy_alloc_lowest a order else buddy_alloc a order in
          match res with
          | Some page => (Some (r, page), mkAllocators (trk al) (lset (regs al) r a'))
          | None =>
              allocate_retry f (mkAllocators (tracker_mark_full (trk al) order r) (lset (regs al) r a')) order lowest
          end
      end
  end.

Definition retry_fuel (al : Allocators) : nat := S (N.to_nat (tracker_len (trk al))).

Definition grow_layout (l : Layout) (order : N) : Layout :=
  let required := 2 ^ order in
  let maxr := full_pages l in
  let usable := layout_usable l in
  let next :=
    if 0 <? num_full l then
      match trailing l with
      | Some t => if 2 * required <? maxr - t then usable + (maxr - t) else usable + 2 * maxr - t
      | None => usable + maxr
      end
    else N.max (usable * 2) (usable + required * 2) in
  layout_calculate next maxr.

(* allocate_helper: retry, else grow and retry (the second retry is unwrapped) *)
Definition mem_allocate (m : Mem) (order : N) (lowest : bool) : option (N * N) * Mem :=
  match allocate_retry (retry_fuel (als m)) (als m) order lowest with
  | (Some p, al') => (Some p, mkMem (lay m) al')
  | (None, al') =>
      let nl := grow_layout (lay m) order in
      let al2 := resize_to al' nl in
      let '(res, al3) := allocate_retry (retry_fuel al2) al2 order lowest in
      (res, mkMem nl al3)
  end.

Definition mem_free (m : Mem) (region page order : N) : Mem :=
  let a := lget (regs (als m)) region dummy_buddy in
  let '(freed_order, a') := buddy_free a page order in
  mkMem (lay m) (mkAllocators (tracker_mark_free (trk (als m)) freed_order region)
                              (lset (regs (als m)) region a')).

(* mark_page_allocated: Err unless the page is inside the layout and record_alloc succeeds *)
Definition mem_record_alloc (m : Mem) (region page order : N) : bool * Mem :=
  if MAX_MAX_PAGE_ORDER <? order then (false, m)
  else if num_regions (lay m) <=? region then (false, m)
  else if region_pages (lay m) region <? (page + 1) * 2 ^ order then (false, m)
  else
    let a := lget (regs (als m)) region dummy_buddy in
    let '(r, a') := buddy_record_alloc a page order in
    if r then (true, mkMem (lay m) (mkAllocators (trk (als m)) (lset (regs (als m)) region a')))
    else (false, m).

Definition mem_try_shrink (m : Mem) (force : bool) : bool * Mem :=
  let l := lay m in
  let last_a := lget (regs (als m)) (num_regions l - 1) dummy_buddy in
  let trailing_free := trailing_free_pages last_a in
  let last_len := blen last_a in
  if trailing_free =? 0 then (false, m)
  else if (trailing_free <? last_len / 2) && negb force then (false, m)
  else
    let reduce_by :=
      if (1 <? num_regions l) && (trailing_free =? last_len) then trailing_free
      else if force then N.min (last_len - 1) trailing_free
      else trailing_free / 2 in
    let nl := reduce_last_region l reduce_by in
    (true, mkMem nl (resize_to (als m) nl)).
