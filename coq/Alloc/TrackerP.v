(* C14 proofs, part 10: the region tracker through Allocators::resize_to.
   resize_to_tinv: growing (existing regions resized upwards and re-marked free at their highest free
   order, brand-new regions pushed, the tracker widened on demand) and shrinking (dropped regions marked
   full, the new last region cut) keep the tracker invariant tinv and every region's BInv, under the
   code's own assertions (stated as resize_to_pre). *)
From Coq Require Import List NArith Bool Lia.
From RV Require Import Base.Bytes Gen.Consts Alloc.Bitmap Alloc.BitmapP Alloc.TreeP Alloc.Buddy Alloc.BuddyP
  Alloc.ResizeP Alloc.LowestP Alloc.SerialP Alloc.Region Alloc.RegionP.
Import ListNotations.
Open Scope N_scope.

(* ---------------------------------------------------------------- small facts *)

Lemma has_free_shrink2 L L' a a' j :
  BInvL L a -> shape L' a' -> bmax a' = bmax a -> (forall p, pfree a' p -> pfree a p) ->
  has_free a' j -> exists j', j <= j' /\ has_free a j'.
Proof.
  intros Hinv Hs' Hmax Hsub [i F].
  destruct (fr_lt L' a' j i Hs' F) as [Hj _].
  assert (blk_free a j i) as Hb.
  { intros p Hp. apply Hsub. eapply fr_pfree; eauto. }
  destruct (blk_free_marked L a Hinv j ltac:(lia) i Hb) as [j' [J1 [J2 J3]]].
  exists j'. split; [exact J1|]. eexists; eauto.
Qed.

(* taking space out of region r, possibly cutting its length: the tracker stays sound untouched *)
Lemma tinv_take2 al r a' :
  tinv al -> r < nlen (regs al) ->
  BInv a' -> bmax a' = bmax (reg al r) ->
  (forall p, pfree a' p -> pfree (reg al r) p) ->
  tinv (mkAllocators (trk al) (lset (regs al) r a')).
Proof.
  intros (T1 & T2 & T3 & T4) Hr Hinv Hmax Hsub. unfold tinv. cbn [trk regs]. rewrite nlen_lset.
  split; [exact T1|]. split; [|split; [exact T3|]].
  - intros r' Hr'. unfold reg. cbn [regs]. rewrite reg_lset by exact Hr.
    destruct (N.eqb_spec r' r) as [->|]; [|apply T2; exact Hr'].
    split; [exact Hinv|]. rewrite Hmax. apply T2. exact Hr.
  - intros r' k Hr' [j [Hj Hf]]. unfold reg in Hf. cbn [regs] in Hf. rewrite reg_lset in Hf by exact Hr.
    destruct (N.eqb_spec r' r) as [->|]; [|apply T4; [exact Hr'|eauto]].
    destruct (T2 r Hr) as [Hi _].
    assert (shape (blen a') a') as Hs' by (destruct Hinv as [Hs' _]; exact Hs').
    destruct (has_free_shrink2 _ _ (reg al r) a' j Hi Hs' Hmax Hsub Hf) as [j' [J1 J2]].
    apply T4; [exact Hr|]. exists j'. split; [lia|exact J2].
Qed.

(* find on the descending list of orders answers the largest order satisfying f *)
Lemma find_orders_down f n :
  match find f (orders_down n) with
  | Some o => f o = true /\ o < N.of_nat n /\ (forall j, o < j -> j < N.of_nat n -> f j = false)
  | None => forall j, j < N.of_nat n -> f j = false
  end.
Proof.
  induction n as [|m IH]; cbn [orders_down find].
  - intros j Hj. lia.
  - destruct (f (N.of_nat m)) eqn:E.
    + split; [exact E|]. split; [lia|]. intros j H1 H2. lia.
    + destruct (find f (orders_down m)) as [o|].
      * destruct IH as (I1 & I2 & I3). split; [exact I1|]. split; [lia|].
        intros j H1 H2. destruct (N.eq_dec j (N.of_nat m)) as [->|]; [exact E|]. apply I3; lia.
      * intros j Hj. destruct (N.eq_dec j (N.of_nat m)) as [->|]; [exact E|]. apply IH. lia.
Qed.

(* highest_free_order().unwrap() bounds every order that has a free block *)
Lemma hfo_spec a : BInv a -> hfo a <= bmax a /\ forall j, has_free a j -> j <= hfo a.
Proof.
  intros (Hs & _). unfold hfo, highest_free_order.
  pose proof (find_orders_down (fun o => bt_has_unset (ord a o)) (S (N.to_nat (bmax a)))) as F.
  assert (forall j, has_free a j -> j < N.of_nat (S (N.to_nat (bmax a))) /\ bt_has_unset (ord a j) = true) as Hh.
  { intros j [i Fi]. destruct (fr_lt _ a j i Hs Fi) as [Hj Hi]. split; [lia|].
    destruct Hs as [_ Hs]. destruct (Hs j Hj) as [[Hok _] Hl].
    apply (bt_has_unset_true _ Hok). exists i. split; [lia|]. unfold fr in Fi. now apply negb_true_iff in Fi. }
  destruct (find _ _) as [o|].
  - destruct F as (F1 & F2 & F3). split; [lia|]. intros j Hj. destruct (Hh j Hj) as [H1 H2].
    destruct (N.le_gt_cases j o) as [Hle|Hgt]; [exact Hle|]. rewrite (F3 j Hgt H1) in H2. discriminate.
  - split; [lia|]. intros j Hj. destruct (Hh j Hj) as [H1 H2]. rewrite (F j H1) in H2. discriminate.
Qed.

(* region r replaced by a', re-marked free up to order o that bounds its free orders *)
Lemma tinv_mark_region al r a' o :
  tinv al -> r < nlen (regs al) -> BInv a' -> bmax a' = bmax (reg al r) -> o <= bmax a' ->
  (forall j, has_free a' j -> j <= o) ->
  tinv (mkAllocators (tracker_mark_free (trk al) o r) (lset (regs al) r a')).
Proof.
  intros (T1 & T2 & T3 & T4) Hr Hinv Hmax Ho Hb.
  destruct (T2 r Hr) as [_ Hm].
  destruct (tracker_mark_free_spec (trk al) _ o r T1 Hr ltac:(lia)) as (M1 & M2 & M3).
  unfold tinv. cbn [trk regs]. rewrite nlen_lset.
  split; [exact M1|]. split; [|split].
  - intros r' Hr'. rewrite M2. unfold reg. cbn [regs]. rewrite reg_lset by exact Hr.
    destruct (N.eqb_spec r' r) as [->|]; [|apply T2; exact Hr']. split; [exact Hinv|lia].
  - intros j r' Hr'. rewrite M3. destruct (N.eqb_spec r' r) as [->|]; [lia|].
    rewrite andb_false_r. apply T3. exact Hr'.
  - intros r' j Hr' [j' [J1 J2]]. rewrite M3. unfold reg in J2. cbn [regs] in J2. rewrite reg_lset in J2 by exact Hr.
    destruct (N.eqb_spec r' r) as [->|Hne].
    + rewrite andb_true_r. destruct (N.leb_spec j o); [reflexivity|]. specialize (Hb j' J2). lia.
    + rewrite andb_false_r. apply T4; [exact Hr'|eauto].
Qed.

(* a new region a pushed at the end, the tracker t1 = the old one possibly widened *)
Lemma tinv_push2 al t1 a o :
  tinv al ->
  twf t1 (nlen (regs al) + 1) -> nlen t1 = nlen (trk al) ->
  (forall k r, tracker_bit t1 k r = tracker_bit (trk al) k r) ->
  BInv a -> bmax a < nlen (trk al) -> o <= bmax a -> (forall j, has_free a j -> j <= o) ->
  tinv (mkAllocators (tracker_mark_free t1 o (nlen (regs al))) (regs al ++ [a])).
Proof.
  intros (T1 & T2 & T3 & T4) Hw Hn Hbits Hinv Hm Ho Hb. set (R := nlen (regs al)) in *.
  destruct (tracker_mark_free_spec t1 (R + 1) o R Hw ltac:(lia) ltac:(lia)) as (M1 & M2 & M3).
  assert (nlen (regs al ++ [a]) = R + 1) as HR' by (rewrite nlen_app; simpl; lia).
  unfold tinv. cbn [trk regs]. rewrite HR'.
  split; [exact M1|]. split; [|split].
  - intros r Hr. rewrite M2, Hn. unfold reg. cbn [regs]. rewrite lget_snoc. fold R.
    destruct (N.eqb_spec r R) as [->|]; [split; [exact Hinv|exact Hm]|]. apply T2. lia.
  - intros k r Hr. rewrite M3. destruct (N.eqb_spec r R) as [->|]; [lia|].
    rewrite andb_false_r, Hbits. apply T3. lia.
  - intros r k Hr [j [J1 J2]]. rewrite M3. unfold reg in J2. cbn [regs] in J2. rewrite lget_snoc in J2. fold R in J2.
    destruct (N.eqb_spec r R) as [->|Hne].
    + rewrite andb_true_r. destruct (N.leb_spec k o); [reflexivity|]. specialize (Hb j J2). lia.
    + rewrite andb_false_r, Hbits. apply T4; [lia|eauto].
Qed.

(* ---------------------------------------------------------------- shape of the tracker: uniform lengths, heights *)

Definition tlens (t t' : Tracker) : Prop :=
  nlen t' = nlen t /\ forall j, bt_len (lget t' j empty_bt) = bt_len (lget t j empty_bt)
                               /\ length (lget t' j empty_bt) = length (lget t j empty_bt).

Lemma tlens_refl t : tlens t t.
Proof. split; [reflexivity|]. intros j. split; reflexivity. Qed.

Lemma tlens_trans t t' t'' : tlens t t' -> tlens t' t'' -> tlens t t''.
Proof.
  intros [H1 H2] [H3 H4]. split; [congruence|]. intros j. destruct (H2 j), (H4 j). split; congruence.
Qed.

Lemma mark_loop_len (g : Btree -> Btree) t R : forall n lo,
  (forall b, bt_ok b -> R <= bt_len b -> bt_ok (g b) /\ bt_len (g b) = bt_len b /\ length (g b) = length b) ->
  twf t R -> lo + N.of_nat n <= nlen t ->
  tlens t (fold_left (fun acc i => lset acc i (g (lget acc i empty_bt))) (orders_up n lo) t).
Proof.
  intros n. revert t. induction n as [|n IH]; intros t lo Hg Hw Hn; cbn [orders_up fold_left].
  - apply tlens_refl.
  - destruct (Hw lo ltac:(lia)) as [Hok Hl]. destruct (Hg _ Hok Hl) as (G1 & G2 & G3).
    set (t1 := lset t lo (g (lget t lo empty_bt))).
    assert (twf t1 R) as Hw1 by (apply twf_lset; [exact Hw|lia|exact G1|lia]).
    assert (tlens t t1) as H1.
    { split; [apply nlen_lset|]. intros j. unfold t1. rewrite lget_lset.
      destruct (N.eqb_spec j lo) as [->|]; cbn [andb]; [|split; reflexivity].
      destruct (N.ltb_spec lo (nlen t)); [split; assumption|split; reflexivity]. }
    eapply tlens_trans; [exact H1|]. apply IH; [exact Hg|exact Hw1|].
    unfold t1. rewrite nlen_lset. lia.
Qed.

Lemma mark_free_tlens t R k r : twf t R -> r < R -> k < nlen t -> tlens t (tracker_mark_free t k r).
Proof.
  intros Hw Hr Hk. unfold tracker_mark_free. apply (mark_loop_len (fun b => bt_clear b r) t R); [|exact Hw|lia].
  intros b Hok Hl. split; [apply bt_clear_ok; [exact Hok|lia]|]. destruct Hok as [Hok _].
  split; [apply bt_clear_len; [exact Hok|lia]|apply bt_clear_height; [exact Hok|lia]].
Qed.

Lemma mark_full_tlens t R k r : twf t R -> r < R -> k <= nlen t -> tlens t (tracker_mark_full t k r).
Proof.
  intros Hw Hr Hk. unfold tracker_mark_full. apply (mark_loop_len (fun b => bt_set b r) t R); [|exact Hw|lia].
  intros b Hok Hl. split; [apply bt_set_ok; [exact Hok|lia]|]. destruct Hok as [Hok _].
  split; [apply bt_set_len; [exact Hok|lia]|apply bt_set_height; [exact Hok|lia]].
Qed.

(* all orders of the tracker have the same number of regions *)
Definition tuni (t : Tracker) : Prop := forall j, j < nlen t -> bt_len (lget t j empty_bt) = tracker_len t.

Lemma tuni_tlens t t' : tlens t t' -> tuni t -> tuni t'.
Proof.
  intros [H1 H2] Hu j Hj. unfold tracker_len. destruct (H2 j) as [-> _]. destruct (H2 0) as [-> _].
  apply Hu. lia.
Qed.

Lemma tracker_len_tlens t t' : tlens t t' -> tracker_len t' = tracker_len t.
Proof. intros [_ H2]. unfold tracker_len. now destruct (H2 0) as [-> _]. Qed.

(* the resize assertion of BtreeBitmap depends on the height only *)
Lemma bt_resize_pre_height t t' n : length t = length t' -> bt_resize_pre t n = bt_resize_pre t' n.
Proof.
  intros H. unfold bt_resize_pre, bt_resize. change (mkU64 0 []) with dflt.
  destruct t as [|p r], t' as [|p' r']; try discriminate; [reflexivity|].
  destruct (resize_aux_hd (p :: r) n true ltac:(discriminate)) as [-> _].
  destruct (resize_aux_hd (p' :: r') n true ltac:(discriminate)) as [-> _]. now rewrite H.
Qed.

(* the tracker can be widened up to M regions *)
Definition tcap (t : Tracker) (M : N) : Prop :=
  forall j n, j < nlen t -> n <= M -> bt_resize_pre (lget t j empty_bt) n = true.

Lemma tcap_tlens t t' M : tlens t t' -> tcap t M -> tcap t' M.
Proof.
  intros [H1 H2] Hc j n Hj Hn. destruct (H2 j) as [_ Hh].
  rewrite (bt_resize_pre_height _ (lget t j empty_bt)) by exact Hh. apply Hc; [lia|exact Hn].
Qed.

Lemma tracker_resize_spec t R n :
  twf t R -> tuni t -> tracker_len t <= n -> 0 < nlen t ->
  (forall j, j < nlen t -> bt_resize_pre (lget t j empty_bt) n = true) ->
  let t' := tracker_resize t n in
  twf t' n /\ nlen t' = nlen t /\ (forall k r, tracker_bit t' k r = tracker_bit t k r)
  /\ tuni t' /\ tracker_len t' = n
  /\ (forall j, length (lget t' j empty_bt) = length (lget t j empty_bt)).
Proof.
  intros Hw Hu Hn Hpos Hpre. cbv zeta. unfold tracker_resize.
  assert (forall j, j < nlen t ->
            let b := lget t j empty_bt in let b' := bt_resize b n true in
            lget (map (fun b => bt_resize b n true) t) j empty_bt = b'
            /\ bt_ok b' /\ bt_len b' = n /\ (forall r, bt_get b' r = bt_get b r) /\ length b' = length b) as Hj.
  { intros j Hj. cbv zeta. split; [apply (lget_map (fun b => bt_resize b n true) t j empty_bt empty_bt Hj)|].
    destruct (Hw j Hj) as [Hok _].
    apply bt_resize_ok; [exact Hok| |apply Hpre; exact Hj].
    intros r Hr. apply bt_get_oob; [apply Hok|]. rewrite (Hu j Hj). lia. }
  assert (nlen (map (fun b => bt_resize b n true) t) = nlen t) as Hlen by apply nlen_map.
  split; [|split; [exact Hlen|split; [|split; [|split]]]].
  - intros j Hj'. rewrite Hlen in Hj'. destruct (Hj j Hj') as (-> & H2 & H3 & _). split; [exact H2|lia].
  - intros k r. unfold tracker_bit. destruct (N.lt_ge_cases k (nlen t)) as [Hk|Hk].
    + destruct (Hj k Hk) as (-> & _ & _ & H4 & _). apply H4.
    + rewrite !lget_oob; [reflexivity|exact Hk|lia].
  - intros j Hj'. rewrite Hlen in Hj'. unfold tracker_len.
    destruct (Hj j Hj') as (-> & _ & -> & _). destruct (Hj 0 Hpos) as (-> & _ & -> & _). reflexivity.
  - unfold tracker_len. destruct (Hj 0 Hpos) as (-> & _ & -> & _). reflexivity.
  - intros j. destruct (N.lt_ge_cases j (nlen t)) as [Hk|Hk].
    + destruct (Hj j Hk) as (-> & _ & _ & _ & H5). exact H5.
    + rewrite !lget_oob; [reflexivity|exact Hk|lia].
Qed.

(* ---------------------------------------------------------------- the two branches of resize_to *)

Definition grow_body (nl : Layout) (old_n : N) (acc : Allocators) (i : N) : Allocators :=
  let pages := region_pages nl i in
  if i <? old_n then
    let a := lget (regs acc) i dummy_buddy in
    if pages =? blen a then acc
    else
      let a' := buddy_resize a pages in
      mkAllocators (tracker_mark_free (trk acc) (hfo a') i) (lset (regs acc) i a')
  else
    let a := buddy_new pages (full_pages nl) in
    let t1 := if tracker_len (trk acc) <=? i then tracker_resize (trk acc) (i + 1) else trk acc in
    mkAllocators (tracker_mark_free t1 (hfo a) i) (regs acc ++ [a]).

Definition resize_grow (al : Allocators) (nl : Layout) : Allocators :=
  fold_left (grow_body nl (nlen (regs al))) (range_from (N.to_nat (num_regions nl)) 0) al.

Definition resize_shrink (al : Allocators) (nl : Layout) : Allocators :=
  let old_n := nlen (regs al) in
  let new_n := num_regions nl in
  let last_pages := last_region_pages nl in
  let t1 := fold_left (fun t i => tracker_mark_full t 0 i) (range_from (N.to_nat (old_n - new_n)) new_n) (trk al) in
  let regs1 := nfirstn new_n (regs al) in
  let lastb := last regs1 dummy_buddy in
  let regs2 := if last_pages <? blen lastb
               then lset regs1 (new_n - 1) (buddy_resize lastb last_pages) else regs1 in
  mkAllocators t1 regs2.

Lemma resize_to_cases al nl :
  let old_n := nlen (regs al) in
  let new_n := num_regions nl in
  let cur := blen (last (regs al) dummy_buddy) in
  (resize_to al nl = al /\ new_n = old_n /\ last_region_pages nl = cur)
  \/ (resize_to al nl = resize_shrink al nl /\ (new_n < old_n \/ (new_n = old_n /\ last_region_pages nl < cur)))
  \/ (resize_to al nl = resize_grow al nl /\ (old_n < new_n \/ (new_n = old_n /\ cur < last_region_pages nl))).
Proof.
  cbv zeta. unfold resize_to.
  destruct (N.ltb_spec (num_regions nl) (nlen (regs al))) as [H1|H1].
  - right. left. split; [reflexivity|]. left. exact H1.
  - destruct (N.eqb_spec (num_regions nl) (nlen (regs al))) as [H2|H2].
    + destruct (N.ltb_spec (last_region_pages nl) (blen (last (regs al) dummy_buddy))) as [H3|H3].
      * right. left. split; [reflexivity|]. right. split; assumption.
      * destruct (N.eqb_spec (last_region_pages nl) (blen (last (regs al) dummy_buddy))) as [H4|H4].
        -- left. split; [reflexivity|]. split; assumption.
        -- right. right. split; [reflexivity|]. right. split; [exact H2|lia].
    + right. right. split; [reflexivity|]. left. lia.
Qed.

Lemma last_lget {A} (l : list A) d : l <> [] -> last l d = lget l (nlen l - 1) d.
Proof.
  induction l as [|x r IH]; [congruence|]. intros _. destruct r as [|y r'].
  - reflexivity.
  - change (last (x :: y :: r') d) with (last (y :: r') d). rewrite IH by discriminate.
    rewrite (lget_cons_pos x (y :: r')) by (cbn [nlen]; lia). f_equal. cbn [nlen]. lia.
Qed.

(* ---------------------------------------------------------------- growing *)

Definition theights (t t' : Tracker) : Prop :=
  nlen t' = nlen t /\ forall j, length (lget t' j empty_bt) = length (lget t j empty_bt).

Lemma theights_of_tlens t t' : tlens t t' -> theights t t'.
Proof. intros [H1 H2]. split; [exact H1|]. intros j. apply H2. Qed.

Lemma theights_trans t t' t'' : theights t t' -> theights t' t'' -> theights t t''.
Proof. intros [H1 H2] [H3 H4]. split; [congruence|]. intros j. rewrite H4. apply H2. Qed.

Lemma tcap_theights t t' M : theights t t' -> tcap t M -> tcap t' M.
Proof.
  intros [H1 H2] Hc j n Hj Hn.
  rewrite (bt_resize_pre_height _ (lget t j empty_bt)) by apply H2. apply Hc; [lia|exact Hn].
Qed.

(* the region allocator of index r after growing to layout nl *)
Definition grown_region (al : Allocators) (nl : Layout) (r : N) : Buddy :=
  if r <? nlen (regs al) then
    (if region_pages nl r =? blen (reg al r) then reg al r else buddy_resize (reg al r) (region_pages nl r))
  else buddy_new (region_pages nl r) (full_pages nl).

(* what the code asserts / needs on the growing path *)
Definition grow_pre (al : Allocators) (nl : Layout) : Prop :=
  nlen (regs al) <= num_regions nl /\ 0 < nlen (trk al)
  /\ calculate_usable_order (full_pages nl) < nlen (trk al)
  /\ tuni (trk al) /\ tcap (trk al) (num_regions nl)
  /\ forall r, r < nlen (regs al) ->
       blen (reg al r) <= region_pages nl r /\ bmax (reg al r) <= 32
       /\ resize_trees_pre (reg al r) (region_pages nl r) = true.

Lemma resize_grow_spec al nl :
  tinv al -> grow_pre al nl ->
  let al' := resize_grow al nl in
  tinv al' /\ nlen (regs al') = num_regions nl /\ theights (trk al) (trk al') /\ tuni (trk al')
  /\ forall r, r < num_regions nl -> reg al' r = grown_region al nl r.
Proof.
  intros Hinv (P1 & P2 & P3 & P4 & P5 & P6). cbv zeta. unfold resize_grow.
  set (old_n := nlen (regs al)) in *. set (new_n := num_regions nl) in *.
  assert (forall m, N.of_nat m <= new_n ->
            let acc := fold_left (grow_body nl old_n) (range_from m 0) al in
            tinv acc /\ nlen (regs acc) = N.max old_n (N.of_nat m) /\ theights (trk al) (trk acc) /\ tuni (trk acc)
            /\ forall r, reg acc r = if r <? N.of_nat m then grown_region al nl r else reg al r) as H.
  { induction m as [|m IH]; intros Hm.
    - cbn [range_from fold_left]. split; [exact Hinv|]. split; [lia|].
      split; [split; [reflexivity|intros; reflexivity]|]. split; [exact P4|]. intros r. destruct (N.ltb_spec r (N.of_nat 0)); [lia|reflexivity].
    - specialize (IH ltac:(lia)). cbv zeta in IH.
      rewrite range_from_snoc, fold_left_app. cbn [fold_left]. rewrite N.add_0_l.
      set (acc := fold_left (grow_body nl old_n) (range_from m 0) al) in *.
      set (i := N.of_nat m) in *.
      destruct IH as (I1 & I2 & I3 & I4 & I5).
      pose proof I1 as (T1 & T2 & T3 & T4).
      assert (nlen (trk acc) = nlen (trk al)) as Hnt by apply I3.
      assert (tcap (trk acc) new_n) as Hcap by (eapply tcap_theights; eauto).
      replace (N.of_nat (S m)) with (i + 1) by lia.
      unfold grow_body. destruct (N.ltb_spec i old_n) as [Hlt|Hge].
      + (* an existing region *)
        assert (nlen (regs acc) = old_n) as HR by lia.
        fold (reg acc i). rewrite (I5 i), N.ltb_irrefl.
        destruct (P6 i Hlt) as (Q1 & Q2 & Q3).
        assert (reg acc i = reg al i) as Ei by (rewrite (I5 i), N.ltb_irrefl; reflexivity).
        destruct (N.eqb_spec (region_pages nl i) (blen (reg al i))) as [Eq|Ne].
        * split; [exact I1|]. split; [lia|]. split; [exact I3|]. split; [exact I4|].
          intros r. rewrite (I5 r). destruct (N.ltb_spec r i), (N.ltb_spec r (i + 1)); try lia; try reflexivity.
          assert (r = i) as -> by lia. unfold grown_region. fold old_n.
          destruct (N.ltb_spec i old_n); [|lia]. now rewrite Eq, N.eqb_refl.
        * set (a' := buddy_resize (reg al i) (region_pages nl i)).
          destruct (T2 i ltac:(lia)) as [Hb Hm']. rewrite Ei in Hb, Hm'.
          destruct (resize_spec (reg al i) (region_pages nl i) Hb Q2 Q3 ltac:(intros; lia)) as (_ & R1 & R2 & R3 & _).
          fold a' in R1, R2, R3. destruct (hfo_spec a' R1) as [Ho1 Ho2].
          assert (tinv (mkAllocators (tracker_mark_free (trk acc) (hfo a') i) (lset (regs acc) i a'))) as Hnew.
          { apply tinv_mark_region; try assumption; [lia|rewrite Ei; exact R3]. }
          assert (tlens (trk acc) (tracker_mark_free (trk acc) (hfo a') i)) as Htl.
          { apply (mark_free_tlens _ (nlen (regs acc))); [exact T1|lia|lia]. }
          split; [exact Hnew|]. cbn [regs trk]. split; [rewrite nlen_lset; lia|].
          split; [eapply theights_trans; [exact I3|apply theights_of_tlens; exact Htl]|].
          split; [eapply tuni_tlens; eauto|].
          intros r. unfold reg at 1. cbn [regs]. rewrite reg_lset by lia. rewrite (I5 r).
          destruct (N.eqb_spec r i) as [->|Hne].
          -- destruct (N.ltb_spec i (i + 1)); [|lia]. unfold grown_region. fold old_n.
             destruct (N.ltb_spec i old_n); [|lia].
             destruct (N.eqb_spec (region_pages nl i) (blen (reg al i))); [contradiction|reflexivity].
          -- destruct (N.ltb_spec r i), (N.ltb_spec r (i + 1)); try lia; reflexivity.
      + (* a brand-new region *)
        assert (nlen (regs acc) = i) as HR by lia.
        set (a := buddy_new (region_pages nl i) (full_pages nl)).
        destruct (new_spec (region_pages nl i) (full_pages nl)) as (N1 & N2 & N3 & N4). fold a in N1, N2, N3, N4.
        destruct (hfo_spec a N1) as [Ho1 Ho2].
        set (t1 := if tracker_len (trk acc) <=? i then tracker_resize (trk acc) (i + 1) else trk acc).
        assert (twf t1 (i + 1) /\ nlen t1 = nlen (trk acc)
                /\ (forall k r, tracker_bit t1 k r = tracker_bit (trk acc) k r)
                /\ tuni t1 /\ (forall j, length (lget t1 j empty_bt) = length (lget (trk acc) j empty_bt))) as (W1 & W2 & W3 & W4 & W5).
        { unfold t1. destruct (N.leb_spec (tracker_len (trk acc)) i) as [Hle|Hgt].
          - rewrite HR in T1.
            destruct (tracker_resize_spec (trk acc) i (i + 1) T1 I4 ltac:(lia) ltac:(lia)) as (X1 & X2 & X3 & X4 & _ & X6).
            { intros j Hj. apply Hcap; [exact Hj|lia]. }
            tauto.
          - split; [|tauto]. intros j Hj. rewrite HR in T1. destruct (T1 j Hj) as [Hok _]. split; [exact Hok|].
            rewrite (I4 j Hj). lia. }
        assert (tinv (mkAllocators (tracker_mark_free t1 (hfo a) i) (regs acc ++ [a]))) as Hnew.
        { rewrite <- HR. apply (tinv_push2 acc t1 a (hfo a) I1);
            [rewrite HR; exact W1|exact W2|exact W3|exact N1|rewrite Hnt, N3; exact P3|exact Ho1|exact Ho2]. }
        assert (tlens t1 (tracker_mark_free t1 (hfo a) i)) as Htl.
        { apply (mark_free_tlens _ (i + 1)); [exact W1|lia|]. rewrite W2, Hnt, <- N3 in *. lia. }
        split; [exact Hnew|]. cbn [regs trk]. split; [rewrite nlen_app; cbn [nlen]; lia|].
        split.
        { eapply theights_trans; [exact I3|]. eapply theights_trans; [|apply theights_of_tlens; exact Htl].
          split; [exact W2|exact W5]. }
        split; [eapply tuni_tlens; eauto|].
        intros r. unfold reg at 1. cbn [regs]. rewrite lget_snoc, HR. fold (reg acc r). rewrite (I5 r).
        destruct (N.eqb_spec r i) as [->|Hne].
        * destruct (N.ltb_spec i (i + 1)); [|lia]. unfold grown_region. fold old_n.
          destruct (N.ltb_spec i old_n); [lia|reflexivity].
        * destruct (N.ltb_spec r i), (N.ltb_spec r (i + 1)); try lia; reflexivity. }
  specialize (H (N.to_nat new_n) ltac:(lia)). cbv zeta in H. rewrite N2Nat.id in H.
  destruct H as (H1 & H2 & H3 & H4 & H5).
  split; [exact H1|]. split; [lia|]. split; [exact H3|]. split; [exact H4|].
  intros r Hr. rewrite (H5 r). destruct (N.ltb_spec r new_n); [reflexivity|lia].
Qed.

(* ---------------------------------------------------------------- shrinking *)

Lemma tracker_bit_oob t k r : nlen t <= k -> tracker_bit t k r = true.
Proof. intros H. unfold tracker_bit. rewrite lget_oob by exact H. reflexivity. Qed.

(* marking the dropped regions lo .. lo+m-1 full at every order *)
Lemma mark_full_range t R : forall m lo,
  twf t R -> lo + N.of_nat m <= R ->
  let t' := fold_left (fun t i => tracker_mark_full t 0 i) (range_from m lo) t in
  twf t' R /\ tlens t t'
  /\ forall k r, tracker_bit t' k r = if (lo <=? r) && (r <? lo + N.of_nat m) then true else tracker_bit t k r.
Proof.
  intros m. revert t. induction m as [|m IH]; intros t lo Hw Hm; cbn [range_from fold_left].
  - split; [exact Hw|]. split; [apply tlens_refl|]. intros k r.
    destruct (N.leb_spec lo r), (N.ltb_spec r (lo + N.of_nat 0)); try lia; reflexivity.
  - destruct (tracker_mark_full_spec t R 0 lo Hw ltac:(lia) ltac:(lia)) as (M1 & M2 & M3).
    pose proof (mark_full_tlens t R 0 lo Hw ltac:(lia) ltac:(lia)) as Htl.
    specialize (IH (tracker_mark_full t 0 lo) (lo + 1) M1 ltac:(lia)). cbv zeta in IH.
    destruct IH as (I1 & I2 & I3).
    split; [exact I1|]. split; [eapply tlens_trans; eauto|].
    intros k r. rewrite I3, M3.
    destruct (N.lt_ge_cases k (nlen t)) as [Hk|Hk].
    + assert ((0 <=? k) && (k <? nlen t) = true) as -> by (apply andb_true_iff; split; [apply N.leb_le|apply N.ltb_lt]; lia).
      cbn [andb].
      destruct (N.leb_spec (lo + 1) r), (N.ltb_spec r (lo + 1 + N.of_nat m)), (N.leb_spec lo r),
        (N.ltb_spec r (lo + N.of_nat (S m))), (N.eqb_spec r lo); try lia; reflexivity.
    + rewrite (tracker_bit_oob t k r Hk).
      destruct ((lo + 1 <=? r) && (r <? lo + 1 + N.of_nat m)), ((0 <=? k) && (k <? nlen t) && (r =? lo)),
        ((lo <=? r) && (r <? lo + N.of_nat (S m))); reflexivity.
Qed.

(* what the code asserts on the shrinking path: the cut tail of the new last region is free *)
Definition shrink_pre (al : Allocators) (nl : Layout) : Prop :=
  1 <= num_regions nl /\ num_regions nl <= nlen (regs al)
  /\ let lastb := reg al (num_regions nl - 1) in
     (last_region_pages nl < blen lastb ->
        bmax lastb <= 32 /\ forall p, last_region_pages nl <= p -> p < blen lastb -> pfree lastb p).

Definition shrunk_region (al : Allocators) (nl : Layout) (r : N) : Buddy :=
  if (r =? num_regions nl - 1) && (last_region_pages nl <? blen (reg al r))
  then buddy_resize (reg al r) (last_region_pages nl) else reg al r.

Lemma resize_shrink_spec al nl :
  tinv al -> shrink_pre al nl ->
  let al' := resize_shrink al nl in
  tinv al' /\ nlen (regs al') = num_regions nl /\ tlens (trk al) (trk al')
  /\ forall r, r < num_regions nl -> reg al' r = shrunk_region al nl r.
Proof.
  intros Hinv (P1 & P2 & P3). cbv zeta. unfold resize_shrink.
  set (old_n := nlen (regs al)) in *. set (new_n := num_regions nl) in *.
  set (lp := last_region_pages nl) in *.
  pose proof Hinv as (T1 & T2 & T3 & T4).
  destruct (mark_full_range (trk al) old_n (N.to_nat (old_n - new_n)) new_n T1 ltac:(lia)) as (M1 & M2 & M3).
  cbv zeta in M1, M2, M3.
  set (t1 := fold_left (fun t i => tracker_mark_full t 0 i) (range_from (N.to_nat (old_n - new_n)) new_n) (trk al)) in *.
  set (regs1 := nfirstn new_n (regs al)).
  assert (nlen regs1 = new_n) as Hn1 by (unfold regs1; rewrite nlen_nfirstn; fold old_n; lia).
  assert (forall r, r < new_n -> lget regs1 r dummy_buddy = reg al r) as Hg1.
  { intros r Hr. unfold regs1. now rewrite lget_nfirstn. }
  (* dropping the regions *)
  assert (tinv (mkAllocators t1 regs1)) as Hdrop.
  { unfold tinv. cbn [trk regs]. rewrite Hn1.
    split; [apply (twf_weaken _ _ old_n M1); lia|]. split; [|split].
    - intros r Hr. unfold reg. cbn [regs]. rewrite (Hg1 r Hr). destruct M2 as [-> _]. apply T2. fold old_n. lia.
    - intros k r Hr. rewrite M3.
      destruct (N.leb_spec new_n r); [|lia]. cbn [andb].
      destruct (N.ltb_spec r (new_n + N.of_nat (N.to_nat (old_n - new_n)))); [reflexivity|]. apply T3. fold old_n. lia.
    - intros r k Hr Hex. rewrite M3. destruct (N.leb_spec new_n r); [lia|]. cbn [andb].
      unfold reg in Hex. cbn [regs] in Hex. rewrite (Hg1 r Hr) in Hex. apply T4; [fold old_n; lia|exact Hex]. }
  assert (regs1 <> []) as Hne by (intros E; rewrite E in Hn1; cbn [nlen] in Hn1; lia).
  rewrite (last_lget regs1 dummy_buddy Hne), Hn1, (Hg1 (new_n - 1)) by lia.
  destruct (N.ltb_spec lp (blen (reg al (new_n - 1)))) as [Hlt|Hge].
  - (* the new last region is cut *)
    destruct (P3 Hlt) as [Q1 Q2].
    destruct (T2 (new_n - 1) ltac:(fold old_n; lia)) as [Hb _].
    pose proof Hb as (Hsh & _).
    pose proof (resize_trees_pre_shrink _ _ lp Hsh ltac:(lia)) as Htr.
    destruct (resize_spec (reg al (new_n - 1)) lp Hb Q1 Htr Q2) as (_ & R1 & R2 & R3 & R4).
    assert (reg (mkAllocators t1 regs1) (new_n - 1) = reg al (new_n - 1)) as Er.
    { unfold reg. cbn [regs]. apply Hg1. lia. }
    pose proof (tinv_take2 (mkAllocators t1 regs1) (new_n - 1) (buddy_resize (reg al (new_n - 1)) lp) Hdrop
                  ltac:(cbn [regs]; lia) R1 ltac:(rewrite Er; exact R3)) as Htk.
    cbn [trk regs] in Htk. split.
    { apply Htk. intros p Hp. rewrite Er. apply R4 in Hp. destruct Hp as [[Hp _]|Hp]; [exact Hp|lia]. }
    cbn [regs trk]. split; [rewrite nlen_lset; exact Hn1|]. split; [exact M2|].
    intros r Hr. unfold reg at 1. cbn [regs]. rewrite lget_lset, Hn1. unfold shrunk_region. fold new_n lp.
    destruct (N.eqb_spec r (new_n - 1)) as [->|Hne'].
    + destruct (N.ltb_spec (new_n - 1) new_n); [|lia]. cbn [andb].
      destruct (N.ltb_spec lp (blen (reg al (new_n - 1)))); [reflexivity|lia].
    + cbn [andb]. apply Hg1. exact Hr.
  - split; [exact Hdrop|]. cbn [regs trk]. split; [exact Hn1|]. split; [exact M2|].
    intros r Hr. unfold reg at 1. cbn [regs]. rewrite (Hg1 r Hr). unfold shrunk_region. fold new_n lp.
    destruct (N.eqb_spec r (new_n - 1)) as [->|]; cbn [andb]; [|reflexivity].
    destruct (N.ltb_spec lp (blen (reg al (new_n - 1)))); [lia|reflexivity].
Qed.

(* ---------------------------------------------------------------- resize_to *)

Definition resize_to_pre (al : Allocators) (nl : Layout) : Prop :=
  (resize_to al nl = resize_shrink al nl -> shrink_pre al nl)
  /\ (resize_to al nl = resize_grow al nl -> grow_pre al nl).

(* Allocators::resize_to keeps the tracker invariant (and with it every region's BInv), growing or shrinking *)
Theorem resize_to_tinv al nl : tinv al -> resize_to_pre al nl -> tinv (resize_to al nl).
Proof.
  intros Hinv [Hs Hg]. destruct (resize_to_cases al nl) as [[E _]|[[E _]|[E _]]].
  - rewrite E. exact Hinv.
  - rewrite E. apply resize_shrink_spec; [exact Hinv|apply Hs; exact E].
  - rewrite E. apply resize_grow_spec; [exact Hinv|apply Hg; exact E].
Qed.
