(* C14 proofs, part 11: tree capacity.  A region allocator made by BuddyAllocator::new(n, cap) can be resized
   to every length up to cap without a bitmap tree needing a new level (the assertion in BtreeBitmap::resize),
   and so can every allocator reached from it (the assertion sees the tree heights only, and no operation
   changes a height); the region tracker made by RegionTracker::new can be widened up to MAX_REGIONS. *)
From Coq Require Import List NArith Bool Lia.
From RV Require Import Base.Bytes Gen.Consts Alloc.Bitmap Alloc.BitmapP Alloc.TreeP Alloc.Buddy Alloc.BuddyP
  Alloc.ResizeP Alloc.LowestP Alloc.SerialP Alloc.OpsP Alloc.ObsP Alloc.Region Alloc.RegionP Alloc.TrackerP.
Import ListNotations.
Open Scope N_scope.

Lemma ceil64_le_self x : ceil64 x <= x.
Proof. unfold ceil64. dmod (x + 63) 64. lia. Qed.

Lemma iter_ceil_depth d' : forall d x, (d <= d')%nat -> iter_ceil d' x <= iter_ceil d x.
Proof.
  induction d' as [|d' IH]; intros d x Hd.
  - assert (d = O) by lia. subst. lia.
  - destruct (Nat.eq_dec d (S d')) as [->|Hne]; [lia|].
    cbn [iter_ceil]. pose proof (ceil64_le_self (iter_ceil d' x)). specialize (IH d x ltac:(lia)). lia.
Qed.

Lemma iter_ceil_shift d : forall x, iter_ceil (S d) x = iter_ceil d (ceil64 x).
Proof. induction d as [|d IH]; intros x; [reflexivity|]. cbn [iter_ceil] in *. now rewrite IH. Qed.

Lemma height_loop_spec fuel : forall c h,
  (N.size_nat c <= fuel)%nat ->
  h <= height_loop fuel c h /\ iter_ceil (N.to_nat (height_loop fuel c h - h)) c <= 64.
Proof.
  induction fuel as [|f IH]; intros c h Hf; cbn [height_loop].
  - rewrite N.sub_diag. cbn [N.to_nat iter_ceil]. split; [lia|].
    destruct c as [|p]; [lia|]. destruct p; simpl in Hf; lia.
  - destruct (N.ltb_spec 64 c) as [Hc|Hc].
    + pose proof (ceil64_size c Hc) as Hs.
      destruct (IH (ceil64 c) (h + 1) ltac:(lia)) as [I1 I2]. split; [lia|].
      replace (N.to_nat (height_loop f (ceil64 c) (h + 1) - h))
        with (S (N.to_nat (height_loop f (ceil64 c) (h + 1) - (h + 1)))) by lia.
      rewrite iter_ceil_shift. exact I2.
    + rewrite N.sub_diag. cbn [N.to_nat iter_ceil]. split; lia.
Qed.

Lemma height_for_capacity_spec c :
  1 <= height_for_capacity c /\ iter_ceil (N.to_nat (height_for_capacity c - 1)) c <= 64.
Proof. unfold height_for_capacity. apply height_loop_spec. lia. Qed.

Lemma pad_loop_len fuel : forall t h, N.min h (nlen t + N.of_nat fuel) <= nlen (pad_loop fuel t h).
Proof.
  induction fuel as [|f IH]; intros t h; cbn [pad_loop]; [lia|].
  destruct (N.ltb_spec (nlen t) h) as [Hlt|Hge]; [|lia].
  specialize (IH (u_new_full (ceil64 (ulen (hd (mkU64 0 []) t))) (ceil64 (ulen (hd (mkU64 0 []) t))) :: t) h).
  cbn [nlen] in IH. lia.
Qed.

Lemma bt_new_padded_height np cap maxcap : height_for_capacity maxcap <= nlen (bt_new_padded np cap maxcap).
Proof.
  unfold bt_new_padded. pose proof (pad_loop_len (N.to_nat (height_for_capacity maxcap)) (bt_new np cap) (height_for_capacity maxcap)). lia.
Qed.

(* a padded tree can be resized to anything up to max_capacity *)
Lemma bt_new_padded_cap np cap maxcap x : x <= maxcap -> bt_resize_pre (bt_new_padded np cap maxcap) x = true.
Proof.
  intros Hx. pose proof (bt_new_padded_height np cap maxcap) as Hh.
  destruct (height_for_capacity_spec maxcap) as [H1 H2].
  set (t := bt_new_padded np cap maxcap) in *.
  destruct t as [|p r] eqn:Et; [cbn [nlen] in Hh; lia|].
  unfold bt_resize_pre, bt_resize. change (mkU64 0 []) with dflt.
  destruct (resize_aux_hd (p :: r) x true ltac:(discriminate)) as [-> _]. apply N.leb_le.
  rewrite nlen_length in Hh.
  pose proof (iter_ceil_depth (Nat.pred (length (p :: r))) (N.to_nat (height_for_capacity maxcap - 1)) x ltac:(lia)).
  pose proof (iter_ceil_mono (N.to_nat (height_for_capacity maxcap - 1)) x maxcap Hx). lia.
Qed.

(* ---------------------------------------------------------------- region allocators *)

Definition rcap (a : Buddy) (C : N) : Prop := forall n, n <= C -> resize_trees_pre a n = true.

Lemma rcap_heights a b C : heights a = heights b -> rcap a C -> rcap b C.
Proof. intros H Hc n Hn. rewrite <- (resize_trees_pre_heights a b n H). now apply Hc. Qed.

Lemma heights_mark_order n o st : heights (fst (mark_order n o st)) = heights (fst st).
Proof.
  unfold mark_order.
  apply (while_fuel_inv (fun s => heights (fst s) = heights (fst st))); [|reflexivity].
  intros s Hs. cbn [fst]. rewrite <- Hs.
  change (with_ord (fst s) o (bt_clear (ord (fst s) o) (snd s / 2 ^ o))) with (clear_at (fst s) o (snd s / 2 ^ o)).
  apply hm_heights. apply hm_clear.
Qed.

Lemma heights_new n cap :
  heights (buddy_new n cap)
  = map (@length U64) (new_bitmaps (S (N.to_nat (calculate_usable_order cap))) n cap).
Proof.
  unfold buddy_new.
  set (a0 := mkBuddy _ n _).
  change (map (@length U64) (new_bitmaps (S (N.to_nat (calculate_usable_order cap))) n cap)) with (heights a0).
  apply (fold_left_inv (fun st => heights (fst st) = heights a0)); [|reflexivity].
  intros s o Hs. now rewrite heights_mark_order.
Qed.

Lemma rcap_new n cap : rcap (buddy_new n cap) cap.
Proof.
  set (M := calculate_usable_order cap).
  set (a0 := mkBuddy (new_bitmaps (S (N.to_nat M)) n cap) n M).
  apply (rcap_heights a0); [symmetry; apply heights_new|].
  intros m Hm. apply resize_trees_pre_intro. intros k Hk. cbn [bfree a0] in Hk. rewrite nlen_new_bitmaps in Hk.
  unfold ord. cbn [bfree a0]. rewrite lget_new_bitmaps by exact Hk.
  apply bt_new_padded_cap. now apply div_pow_mono.
Qed.

Lemma hm_alloc a k : hm (snd (buddy_alloc a k)) = hm a.
Proof. apply hm_alloc_inner. Qed.
Lemma hm_free a i k : hm (snd (buddy_free a i k)) = hm a.
Proof. apply hm_free_inner. Qed.
Lemma hm_record a i k : hm (snd (buddy_record_alloc a i k)) = hm a.
Proof. apply hm_record_inner. Qed.

(* ---------------------------------------------------------------- the tracker *)

Lemma tracker_new_cap regions orders : tcap (tracker_new regions orders) MAX_REGIONS.
Proof.
  intros j n Hj Hn. unfold tracker_new in *. rewrite nlen_nrepeat in Hj. rewrite lget_nrepeat.
  apply N.ltb_lt in Hj. rewrite Hj. now apply bt_new_padded_cap.
Qed.

Lemma tracker_new_uni regions orders : tuni (tracker_new regions orders).
Proof.
  intros j Hj. unfold tracker_new, tracker_len in *. rewrite nlen_nrepeat in Hj. rewrite !lget_nrepeat.
  assert (0 <? orders = true) as -> by (apply N.ltb_lt; lia). apply N.ltb_lt in Hj. now rewrite Hj.
Qed.
