(* C14 proofs, part 6: serialisation.  from_bytes (to_vec a) is `a` with every bitmap level trimmed to the
   words its length needs (the Rust to_vec writes exactly those); trimming changes no observable bit,
   keeps the invariant, and serialises to the same bytes again. *)
From Coq Require Import List NArith Bool Lia.
From RV Require Import Base.Bytes Base.BytesP Gen.Consts Alloc.Bitmap Alloc.BitmapP Alloc.TreeP Alloc.Buddy Alloc.BuddyP Alloc.ResizeP.
Import ListNotations.
Open Scope N_scope.

(* ---------------------------------------------------------------- list surgery *)

Lemma nfirstn_app_exact {A} (l1 l2 : list A) n : nlen l1 = n -> nfirstn n (l1 ++ l2) = l1.
Proof.
  intros H. rewrite nfirstn_firstn. rewrite nlen_length in H.
  replace (N.to_nat n) with (length l1 + 0)%nat by lia. rewrite firstn_app_2. simpl. apply app_nil_r.
Qed.

Lemma nskipn_app_exact {A} (l1 l2 : list A) n : nlen l1 = n -> nskipn n (l1 ++ l2) = l2.
Proof.
  intros H. rewrite nskipn_skipn. rewrite nlen_length in H.
  replace (N.to_nat n) with (length l1) by lia. apply skipn_app_exact || idtac.
  clear H. induction l1; simpl; auto.
Qed.

Lemma nfirstn_all {A} (l : list A) n : nlen l <= n -> nfirstn n l = l.
Proof. intros H. rewrite nfirstn_firstn. apply firstn_all2. rewrite nlen_length in H. lia. Qed.

Lemma nskipn_0 {A} (l : list A) : nskipn 0 l = l.
Proof. destruct l; reflexivity. Qed.

Lemma nlen_le_encode w n : nlen (le_encode w n) = N.of_nat w.
Proof. now rewrite nlen_length, le_encode_length. Qed.

Lemma nlen_map {A B} (f : A -> B) l : nlen (map f l) = nlen l.
Proof. now rewrite !nlen_length, map_length. Qed.

(* ---------------------------------------------------------------- bits <-> bytes *)

Lemma byte_bits_b2n b0 b1 b2 b3 b4 b5 b6 b7 :
  byte_bits (b2n b0 + 2 * b2n b1 + 4 * b2n b2 + 8 * b2n b3 + 16 * b2n b4 + 32 * b2n b5 + 64 * b2n b6 + 128 * b2n b7)
  = [b0; b1; b2; b3; b4; b5; b6; b7].
Proof. destruct b0, b1, b2, b3, b4, b5, b6, b7; reflexivity. Qed.

Lemma bits_bytes_roundtrip m : forall l, length l = (8 * m)%nat ->
  bytes_to_bits (bits_to_bytes l) = l /\ length (bits_to_bytes l) = m.
Proof.
  induction m as [|m IH]; intros l Hl.
  - destruct l; [split; reflexivity|simpl in Hl; lia].
  - destruct l as [|b0 [|b1 [|b2 [|b3 [|b4 [|b5 [|b6 [|b7 r]]]]]]]]; simpl in Hl; try lia.
    destruct (IH r ltac:(lia)) as [I1 I2].
    cbn [bits_to_bytes bytes_to_bits length]. rewrite byte_bits_b2n, I1, I2. split; reflexivity.
Qed.

Lemma bits_bytes_rt l m : nlen l = 8 * m ->
  bytes_to_bits (bits_to_bytes l) = l /\ nlen (bits_to_bytes l) = m.
Proof.
  intros H. rewrite nlen_length in H.
  destruct (bits_bytes_roundtrip (N.to_nat m) l ltac:(lia)) as [H1 H2].
  split; [exact H1|]. rewrite nlen_length, H2. lia.
Qed.

(* ---------------------------------------------------------------- U64GroupedBitmap *)

Definition trim (u : U64) : U64 := mkU64 (ulen u) (nfirstn (64 * ceil64 (ulen u)) (ubits u)).

Lemma trim_bits_len u : uwf u -> nlen (ubits (trim u)) = 64 * ceil64 (ulen u).
Proof.
  intros [w [H1 H2]]. unfold trim. cbn [ubits]. rewrite nlen_nfirstn, H1.
  assert (ceil64 (ulen u) <= w) by (apply ceil64_le_iff; exact H2). lia.
Qed.

Lemma u_get_trim u i : lvl_ok u -> u_get (trim u) i = u_get u i.
Proof.
  intros [Hw Hp]. unfold u_get, trim, nget. cbn [ubits].
  destruct (N.lt_ge_cases i (64 * ceil64 (ulen u))).
  - now rewrite lget_nfirstn.
  - rewrite lget_oob by (rewrite nlen_nfirstn; lia).
    symmetry. apply Hp. pose proof (ceil64_le (ulen u)). lia.
Qed.

Lemma lvl_ok_trim u : lvl_ok u -> lvl_ok (trim u).
Proof.
  intros H. pose proof H as [Hw Hp]. split.
  - exists (ceil64 (ulen u)). rewrite trim_bits_len by assumption. split; [reflexivity|]. apply ceil64_le.
  - intros i Hi. rewrite u_get_trim by assumption. apply Hp. exact Hi.
Qed.

Lemma u_to_vec_trim u : u_to_vec (trim u) = u_to_vec u.
Proof.
  unfold u_to_vec, trim, required_words. cbn [ulen ubits]. f_equal. f_equal.
  rewrite !nfirstn_firstn. rewrite firstn_firstn. f_equal. lia.
Qed.

Lemma u_vec_parts u : uwf u ->
  exists B, u_to_vec u = le_encode 4 (ulen u) ++ B /\ nlen B = 8 * ceil64 (ulen u)
            /\ bytes_to_bits B = ubits (trim u).
Proof.
  intros Hw. exists (bits_to_bytes (ubits (trim u))). split; [reflexivity|].
  pose proof (trim_bits_len u Hw) as Ht.
  destruct (bits_bytes_rt (ubits (trim u)) (8 * ceil64 (ulen u)) ltac:(lia)) as [H1 H2]. auto.
Qed.

Lemma nlen_u_to_vec u : uwf u -> nlen (u_to_vec u) = 4 + 8 * ceil64 (ulen u).
Proof.
  intros Hw. destruct (u_vec_parts u Hw) as [B [E [HB _]]]. rewrite E, nlen_app, nlen_le_encode. lia.
Qed.

Lemma u_roundtrip u : uwf u -> ulen u < 2 ^ 32 -> u_from_bytes (u_to_vec u) = trim u.
Proof.
  intros Hw Hl. destruct (u_vec_parts u Hw) as [B [E [HB HBb]]].
  unfold u_from_bytes. rewrite (nlen_u_to_vec u Hw). rewrite E.
  replace ((4 + 8 * ceil64 (ulen u) - 4) / 8) with (ceil64 (ulen u)).
  2:{ replace (4 + 8 * ceil64 (ulen u) - 4) with (ceil64 (ulen u) * 8) by lia. now rewrite N.div_mul. }
  rewrite nfirstn_app_exact by apply nlen_le_encode.
  rewrite nskipn_app_exact by apply nlen_le_encode.
  rewrite nfirstn_all by lia. rewrite HBb.
  rewrite le_decode_encode; [reflexivity|]. change (256 ^ N.of_nat 4) with (2 ^ 32). exact Hl.
Qed.

(* ---------------------------------------------------------------- offset tables *)

Fixpoint nsum (l : list N) : N := match l with [] => 0 | x :: r => x + nsum r end.

Lemma nlen_concat {A} (ls : list (list A)) : nlen (concat ls) = nsum (map nlen ls).
Proof. induction ls; simpl; [reflexivity|]. now rewrite nlen_app, IHls. Qed.

Lemma ends_from_bound start lens : Forall (fun e => e <= start + nsum lens) (ends_from start lens).
Proof.
  revert start. induction lens as [|n r IH]; intros start; cbn [ends_from nsum]; constructor; [lia|].
  eapply Forall_impl; [|apply IH]. simpl. intros. lia.
Qed.

Lemma length_ends_from start lens : length (ends_from start lens) = length lens.
Proof. revert start. induction lens; intros; simpl; [reflexivity|]. now rewrite IHlens. Qed.

Lemma chunks4_flat ends : forall rest,
  chunks4 (length ends) (flat_map (le_encode 4) ends ++ rest) = map (le_encode 4) ends.
Proof.
  induction ends as [|e r IH]; intros rest; cbn [length chunks4 flat_map map]; [reflexivity|].
  rewrite <- app_assoc. rewrite nfirstn_app_exact by apply nlen_le_encode.
  rewrite nskipn_app_exact by apply nlen_le_encode. now rewrite IH.
Qed.

Lemma le_rt4 e : e < 2 ^ 32 -> le_decode (le_encode 4 e) = e.
Proof. intros H. apply le_decode_encode. change (256 ^ N.of_nat 4) with (2 ^ 32). exact H. Qed.

Lemma decode_ends ends : Forall (fun e => e < 2 ^ 32) ends -> map le_decode (map (le_encode 4) ends) = ends.
Proof.
  induction 1; cbn [map]; [reflexivity|]. rewrite le_rt4 by assumption. now rewrite IHForall.
Qed.

Lemma nlen_flat_encode ends : nlen (flat_map (le_encode 4) ends) = 4 * N.of_nat (length ends).
Proof.
  induction ends; cbn [flat_map length]; [reflexivity|]. rewrite nlen_app, nlen_le_encode, IHends. lia.
Qed.

Lemma slices_spec vecs : forall pre start,
  nlen pre = start ->
  slices (pre ++ concat vecs) start (ends_from start (map nlen vecs)) = vecs.
Proof.
  induction vecs as [|v r IH]; intros pre start Hp; cbn [slices ends_from map concat]; [reflexivity|].
  f_equal.
  - rewrite nskipn_app_exact by exact Hp. replace (start + nlen v - start) with (nlen v) by lia.
    now apply nfirstn_app_exact.
  - rewrite app_assoc. apply IH. rewrite nlen_app. lia.
Qed.

(* ---------------------------------------------------------------- BtreeBitmap *)

Definition bt_small (t : Btree) : Prop := nlen (bt_to_vec t) < 2 ^ 32 /\ Forall (fun u => uwf u /\ ulen u < 2 ^ 32) t.

Lemma bt_roundtrip t : bt_small t -> bt_from_bytes (bt_to_vec t) = map trim t.
Proof.
  intros [Hsz Hall]. unfold bt_from_bytes.
  set (vecs := map u_to_vec t). set (h := nlen t).
  set (ends := ends_from (BITMAP_END_OFFSETS + 4 * h) (map nlen vecs)).
  assert (bt_to_vec t = le_encode 4 h ++ flat_map (le_encode 4) ends ++ concat vecs) as E by reflexivity.
  rewrite E in *. clear E.
  assert (length ends = length t) as Hle by (unfold ends, vecs; now rewrite length_ends_from, !map_length).
  assert (h < 2 ^ 32) as Hh.
  { rewrite !nlen_app, nlen_le_encode, nlen_flat_encode, Hle in Hsz. unfold h. rewrite nlen_length. lia. }
  unfold BITMAP_HEIGHT_OFFSET, BITMAP_END_OFFSETS in *. rewrite nskipn_0.
  rewrite nfirstn_app_exact by apply nlen_le_encode.
  rewrite le_rt4 by exact Hh.
  rewrite nskipn_app_exact by apply nlen_le_encode.
  replace (N.to_nat h) with (length ends) by (unfold h; rewrite nlen_length; lia).
  rewrite chunks4_flat.
  assert (Forall (fun e => e < 2 ^ 32) ends) as Hends.
  { eapply Forall_impl; [|apply ends_from_bound]. cbv beta. intros e He.
    rewrite !nlen_app, nlen_le_encode, nlen_flat_encode, nlen_concat in Hsz.
    rewrite Hle in Hsz. unfold h in He. rewrite nlen_length in He. lia. }
  rewrite decode_ends by exact Hends.
  replace (le_encode 4 h ++ flat_map (le_encode 4) ends ++ concat vecs)
    with ((le_encode 4 h ++ flat_map (le_encode 4) ends) ++ concat vecs) by (now rewrite app_assoc).
  unfold ends. rewrite slices_spec.
  - unfold vecs. rewrite map_map. clear -Hall. induction Hall as [|u r [Hw Hl] _ IH]; simpl; [reflexivity|].
    rewrite u_roundtrip by assumption. now rewrite IH.
  - rewrite nlen_app, nlen_le_encode, nlen_flat_encode. fold ends. rewrite Hle. unfold h.
    rewrite nlen_length. lia.
Qed.

Lemma bt_to_vec_trim t : bt_to_vec (map trim t) = bt_to_vec t.
Proof.
  assert (map u_to_vec (map trim t) = map u_to_vec t) as E.
  { rewrite map_map. apply map_ext. intros. apply u_to_vec_trim. }
  unfold bt_to_vec. rewrite E, nlen_map. reflexivity.
Qed.

(* trimming keeps the tree invariant and every bit *)
Lemma tree_ok_trim t : tree_ok t -> tree_ok (map trim t) /\ (forall i, bt_get (map trim t) i = bt_get t i)
                       /\ bt_len (map trim t) = bt_len t /\ ulen (hd dflt (map trim t)) = ulen (hd dflt t).
Proof.
  induction t as [|p rest IH]; [simpl; tauto|]. destruct rest as [|c r].
  - intros [Hp _]. simpl. split; [split; [now apply lvl_ok_trim|exact I]|].
    split; [intros i; unfold bt_get; simpl; now apply u_get_trim|]. split; reflexivity.
  - intros [Hp [Hlen [Hrel Hok]]]. destruct (IH Hok) as (I1 & I2 & I3 & I4).
    assert (lvl_ok c) as Hc by (apply (tree_ok_hd (c :: r) Hok)).
    cbn [map] in *. split.
    + cbn [tree_ok]. split; [now apply lvl_ok_trim|]. split; [exact Hlen|]. split; [|exact I1].
      intros j. rewrite u_get_trim by assumption. rewrite Hrel.
      symmetry. apply word_full_ext. intros k. now apply u_get_trim.
    + split; [intros i; rewrite !bt_get_cons; apply I2|]. split; [rewrite !bt_len_cons; exact I3|reflexivity].
Qed.

Lemma bt_ok_trim t : bt_ok t -> bt_ok (map trim t) /\ (forall i, bt_get (map trim t) i = bt_get t i)
                     /\ bt_len (map trim t) = bt_len t.
Proof.
  intros [Hok Hr]. destruct (tree_ok_trim t Hok) as (H1 & H2 & H3 & H4).
  split; [split; [exact H1|now rewrite H4]|]. split; assumption.
Qed.

(* ---------------------------------------------------------------- BuddyAllocator *)

Definition norm (a : Buddy) : Buddy := mkBuddy (map (map trim) (bfree a)) (blen a) (bmax a).

Definition buddy_small (a : Buddy) : Prop :=
  nlen (buddy_to_vec a) < 2 ^ 32 /\ blen a < 2 ^ 32 /\ bmax a < 256 /\ Forall bt_small (bfree a).

Lemma buddy_roundtrip a :
  buddy_small a -> nlen (bfree a) = bmax a + 1 -> buddy_from_bytes (buddy_to_vec a) = norm a.
Proof.
  intros (Hsz & Hl & Hm & Hall) Hn. unfold buddy_from_bytes.
  set (ser := map bt_to_vec (bfree a)).
  set (start := 1 + BUDDY_PADDING + 4 + (bmax a + 1) * 4).
  set (ends := ends_from start (map nlen ser)).
  set (H4 := [bmax a] ++ nrepeat 0 BUDDY_PADDING).
  set (LE := le_encode 4 (blen a)). set (FL := flat_map (le_encode 4) ends). set (CC := concat ser).
  assert (buddy_to_vec a = H4 ++ LE ++ FL ++ CC) as E.
  { unfold buddy_to_vec. fold ser. fold start. fold ends. unfold H4, LE, FL, CC. now rewrite <- !app_assoc. }
  rewrite E in *. clear E.
  assert (length ends = length (bfree a)) as Hle by (unfold ends, ser; now rewrite length_ends_from, !map_length).
  assert (nlen H4 = 4) as N4 by reflexivity.
  assert (nlen LE = 4) as NL by apply nlen_le_encode.
  assert (nlen FL = 4 * (bmax a + 1)) as NF.
  { unfold FL. rewrite nlen_flat_encode, Hle. rewrite nlen_length in Hn. lia. }
  unfold BUDDY_MAX_ORDER_OFFSET, BUDDY_NUM_PAGES_OFFSET, BUDDY_FREE_END_OFFSETS.
  assert (lget (H4 ++ LE ++ FL ++ CC) 0 0 = bmax a) as -> by reflexivity.
  assert (nskipn 4 (H4 ++ LE ++ FL ++ CC) = LE ++ FL ++ CC) as -> by (now apply nskipn_app_exact).
  assert (nskipn 8 (H4 ++ LE ++ FL ++ CC) = FL ++ CC) as ->.
  { replace (H4 ++ LE ++ FL ++ CC) with ((H4 ++ LE) ++ FL ++ CC) by (now rewrite <- app_assoc).
    apply nskipn_app_exact. rewrite nlen_app. lia. }
  rewrite nfirstn_app_exact by exact NL. unfold LE. rewrite le_rt4 by exact Hl.
  replace (S (N.to_nat (bmax a))) with (length ends) by (rewrite Hle; rewrite nlen_length in Hn; lia).
  unfold FL. rewrite chunks4_flat. fold FL.
  assert (Forall (fun e => e < 2 ^ 32) ends) as Hends.
  { eapply Forall_impl; [|apply ends_from_bound]. cbv beta. intros e He.
    rewrite !nlen_app, N4, NL, NF in Hsz. unfold CC in Hsz. rewrite nlen_concat in Hsz.
    unfold start, BUDDY_PADDING in He. lia. }
  rewrite decode_ends by exact Hends.
  replace (8 + (bmax a + 1) * 4) with start by (unfold start, BUDDY_PADDING; lia).
  unfold ends, CC.
  replace (H4 ++ le_encode 4 (blen a) ++ FL ++ concat ser) with ((H4 ++ LE ++ FL) ++ concat ser)
    by (unfold LE; now rewrite <- !app_assoc).
  rewrite slices_spec.
  - unfold norm. f_equal. unfold ser. rewrite map_map.
    clear -Hall. induction Hall as [|t r Ht _ IH]; cbn [map]; [reflexivity|].
    rewrite bt_roundtrip by exact Ht. now rewrite IH.
  - rewrite !nlen_app, N4, NL, NF. unfold start, BUDDY_PADDING. lia.
Qed.

Lemma buddy_to_vec_norm a : buddy_to_vec (norm a) = buddy_to_vec a.
Proof.
  assert (map bt_to_vec (map (map trim) (bfree a)) = map bt_to_vec (bfree a)) as E.
  { rewrite map_map. apply map_ext. intros. apply bt_to_vec_trim. }
  unfold buddy_to_vec, norm. cbn [bfree blen bmax]. rewrite E. reflexivity.
Qed.

Lemma lget_map {A B} (f : A -> B) l i d d' : i < nlen l -> lget (map f l) i d' = f (lget l i d).
Proof.
  rewrite !lget_nth, nlen_length. intros H.
  rewrite (nth_indep _ d' (f d)) by (rewrite map_length; lia). apply map_nth.
Qed.

Lemma norm_spec L a :
  BInvL L a -> BInvL L (norm a) /\ (forall k i, fr (norm a) k i = fr a k i) /\ (forall p, pfree (norm a) p <-> pfree a p).
Proof.
  intros Hinv. pose proof Hinv as ([Hn Hs] & _).
  assert (forall k, k <= bmax a -> ord (norm a) k = map trim (ord a k)) as Ho.
  { intros k Hk. unfold ord, norm. cbn [bfree]. apply (lget_map (map trim) (bfree a) k empty_bt empty_bt). unfold Btree in *. lia. }
  assert (forall k i, fr (norm a) k i = fr a k i) as Hfr.
  { intros k i. unfold fr. destruct (N.le_gt_cases k (bmax a)) as [Hk|Hk].
    - rewrite (Ho k Hk). destruct (Hs k Hk) as [Hok _]. destruct (bt_ok_trim _ Hok) as (_ & H2 & _).
      now rewrite H2.
    - rewrite !ord_above; [reflexivity|unfold Btree in *; lia|]. unfold norm. cbn [bfree]. rewrite nlen_map. unfold Btree in *. lia. }
  assert (shape L (norm a)) as Hs'.
  { split; [unfold norm; cbn [bfree bmax]; rewrite nlen_map; unfold Btree in *; exact Hn|].
    intros k Hk. cbn [bmax norm] in Hk. rewrite (Ho k Hk). destruct (Hs k Hk) as [Hok Hl].
    destruct (bt_ok_trim _ Hok) as (H1 & _ & H3). split; [exact H1|congruence]. }
  destruct (BInvL_same_fr L L a (norm a) Hinv Hs' eq_refl Hfr) as [H1 H2].
  split; [exact H1|]. split; assumption.
Qed.

(* ---------------------------------------------------------------- an executable check of the size side conditions *)

Definition uwfb (u : U64) : bool := (nlen (ubits u) mod 64 =? 0) && (ulen u <=? nlen (ubits u)).
Definition bt_smallb (t : Btree) : bool :=
  (nlen (bt_to_vec t) <? 2 ^ 32) && forallb (fun u => uwfb u && (ulen u <? 2 ^ 32)) t.
Definition buddy_smallb (a : Buddy) : bool :=
  (nlen (buddy_to_vec a) <? 2 ^ 32) && (blen a <? 2 ^ 32) && (bmax a <? 256) && forallb bt_smallb (bfree a).

Lemma uwfb_sound u : uwfb u = true -> uwf u.
Proof.
  unfold uwfb. rewrite andb_true_iff, N.eqb_eq, N.leb_le. intros [H1 H2].
  exists (nlen (ubits u) / 64). pose proof (N.div_mod (nlen (ubits u)) 64 ltac:(lia)) as E.
  rewrite H1, N.add_0_r in E. rewrite <- E. split; [reflexivity|exact H2].
Qed.

Lemma bt_smallb_sound t : bt_smallb t = true -> bt_small t.
Proof.
  unfold bt_smallb. rewrite andb_true_iff, N.ltb_lt, forallb_forall. intros [H1 H2].
  split; [exact H1|]. apply Forall_forall. intros u Hu. specialize (H2 u Hu).
  apply andb_true_iff in H2. destruct H2 as [H2 H3]. split; [now apply uwfb_sound|now apply N.ltb_lt].
Qed.

Lemma buddy_smallb_sound a : buddy_smallb a = true -> buddy_small a.
Proof.
  unfold buddy_smallb. rewrite !andb_true_iff, !N.ltb_lt, forallb_forall. intros [[[H1 H2] H3] H4].
  split; [exact H1|]. split; [exact H2|]. split; [exact H3|].
  apply Forall_forall. intros t Ht. apply bt_smallb_sound. now apply H4.
Qed.

(* saving and reloading keeps the invariant, every mark, the free space, and the serialised bytes *)
Lemma roundtrip_spec a :
  BInv a -> buddy_small a ->
  let a' := buddy_from_bytes (buddy_to_vec a) in
  BInv a' /\ blen a' = blen a /\ bmax a' = bmax a /\ (forall k i, fr a' k i = fr a k i)
  /\ (forall p, pfree a' p <-> pfree a p) /\ buddy_to_vec a' = buddy_to_vec a.
Proof.
  intros H Hs. pose proof H as ([Hn _] & _). cbv zeta. rewrite (buddy_roundtrip a Hs Hn).
  destruct (norm_spec (blen a) a H) as (N1 & N2 & N3).
  split; [exact N1|]. split; [reflexivity|]. split; [reflexivity|]. split; [exact N2|]. split; [exact N3|].
  apply buddy_to_vec_norm.
Qed.
