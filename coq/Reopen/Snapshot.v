(* C11 on top of the page-ownership model (Txn/Own.v): the allocation snapshot a quick-repair commit
   saves, the durable image a process leaves behind, the open paths as functions from that image to a
   fresh ownership state, check_integrity's comparison and the needs_repair latch.
   Definitions only (proofs in SnapshotP.v).

   Mirrors
     transactions.rs   durable_commit: delete ALLOCATOR_STATE_TABLE; if quick_repair && !needs_repair:
                       reserve_allocator_state / store_system_freed_pages(this id) / try_save_allocator_state
                       (retry loop; nothing allocates or frees between a successful save and mem.commit);
                       abort_inner (latch kept if it was set before); Drop while panicking (latch set, no rollback)
     page_manager.rs   is_valid_allocator_state (table id = last committed id), load_allocator_state
     db.rs             Database::new (load | do_repair + repair commit under the next id, two-phase),
                       get_allocator_state_table (two-phase flag, table present, id), rebuild_allocator_state
                       (roots + DATA_FREED + SYSTEM_FREED + unpersisted freed records, nothing else),
                       check_integrity_inner, close_database / ensure_allocator_state_table_and_trim.

   The snapshot is (snap_txid, snap_pages) := (lastid, alloc) of the ownership state at the point
   `commit_dur_pre .. qr:=true ..` (all tree pages of the committed roots written, SYSTEM_FREED stored under
   this transaction's id, nothing returned yet), stored with the version that commit publishes.
   What the byte-level decisions of the open path read (god byte, slot checksums, torn slots) is
   Reopen/Model.v; `abs_image` below maps a durable image of this file to an image of that model. *)
From Coq Require Import List PArith NArith Bool.
From RV Require Import Txn.PSet Txn.Own Reopen.Model.
Import ListNotations.
Open Scope N_scope.

Record snap := mksnap { snap_txid : N; snap_pages : list page }.

(* what the last durable commit left on disk, at the granularity of Own.v *)
Record dimg := mkdimg {
  d_ver : ver;                  (* id and page sets of the durable data / system roots *)
  d_dfreed : ftab;              (* DATA_FREED_TABLE under the durable system root *)
  d_sfreed : ftab;              (* SYSTEM_FREED_TABLE under the durable system root *)
  d_sps : list pin;             (* persistent savepoints recorded under the durable system root *)
  d_snap : option snap;         (* ALLOCATOR_STATE_TABLE: its TransactionId entry, its region allocators as a page set *)
  d_tpc : bool;                 (* god byte TWO_PHASE_COMMIT as written by that commit *)
  d_clean : bool                (* the close cleared RECOVERY_REQUIRED *)
}.

(* pages required by an image: reachable from the committed roots + DATA_FREED + SYSTEM_FREED *)
Definition required (i : dimg) : list page :=
  vdata (d_ver i) ++ vsys (d_ver i) ++ flat (d_dfreed i) ++ flat (d_sfreed i).

(* the same for the durable version as an ownership state names it at the moment it is published *)
Definition required_st (s : st) : list page :=
  vdata (dur s) ++ vsys (dur s) ++ flat (dfreed s) ++ flat (sfreed s).

(* ---------------------------------------------------------------- a durable commit and what it leaves *)

(* the state TransactionalMemory::commit publishes *)
Definition published (D' Sd : list page) (qr : bool) (s : st) : st :=
  c_publish_dur (commit_dur_pre D' Sd qr s).

(* try_save_allocator_state inside a quick-repair commit *)
Definition snapshot_at (D' Sd : list page) (s : st) : snap :=
  let s7 := commit_dur_pre D' Sd true s in mksnap (lastid s7) (alloc s7).

Definition commit_image (tpc : bool) (D' Sd : list page) (qr : bool) (s : st) : dimg :=
  let s9 := commit_dur_mid D' Sd qr s in
  mkdimg (dur s9) (dfreed s9) (sfreed s9) (filter ppersist (pins s9))
         (if qr then Some (snapshot_at D' Sd s) else None) tpc false.

(* ---------------------------------------------------------------- the open paths *)

(* get_allocator_state_table + is_valid_allocator_state at this granularity *)
Definition trusted (i : dimg) : option snap :=
  if d_tpc i then
    match d_snap i with
    | Some sn => if N.eqb (snap_txid sn) (vid (d_ver i)) then Some sn else None
    | None => None
    end
  else None.

Definition open_path (i : dimg) : path := match trusted i with Some _ => Load | None => Rebuild end.

(* rebuild_allocator_state: roots + freed tables (no unpersisted records exist in a new process) *)
Definition rebuild (i : dimg) : list page := required i.

(* the ownership state of the new process: allocator a, durable = latest = v, only persistent savepoints
   registered, tracker restarted after v (Database::new runs one aborted write transaction) *)
Definition open_state (i : dimg) (a : list page) (v : ver) : st :=
  mkst a (vid v + 2) v v (d_dfreed i) (d_sfreed i) [] [] [] (d_sps i) [] false
       (vdata v) (vsys v) [] [] [] (d_dfreed i) None [] [].

(* do_repair's commit: same roots, next id, two-phase; the system tree -- and with it an allocator
   state table -- is carried over unchanged, so the table is stale from here on *)
Definition repair_ver (v : ver) : ver := mkver (vid v + 1) (vdata v) (vsys v).
Definition repair_image (i : dimg) : dimg :=
  mkdimg (repair_ver (d_ver i)) (d_dfreed i) (d_sfreed i) (d_sps i) (d_snap i) true false.

Definition open_load (i : dimg) (sn : snap) : st := open_state i (snap_pages sn) (d_ver i).
Definition open_rebuild (i : dimg) : st := open_state i (rebuild i) (repair_ver (d_ver i)).

(* Database::new: state of the new process and the image after the open *)
Definition xopen (i : dimg) : st * dimg :=
  match trusted i with
  | Some sn => (open_load i sn,
                mkdimg (d_ver i) (d_dfreed i) (d_sfreed i) (d_sps i) (d_snap i) (d_tpc i) false)
  | None => (open_rebuild i, repair_image i)
  end.

(* ---------------------------------------------------------------- histories with leaks, checks and stops *)

(* next to the ownership state: pages leaked by write transactions that a panic unwound (allocated,
   owned by nobody), the needs_repair latch, and the durable image *)
Record xst := mkx { own : st; leaked : list page; nrep : bool; img : dimg }.

(* what the real allocator holds *)
Definition xalloc (x : xst) : list page := alloc (own x) ++ leaked x.

Inductive xop :=
| XOp (o : op) (tpc : bool)          (* an API call of Own.v; tpc = set_two_phase_commit (durable commits) *)
| XLeak                              (* a panic unwinds through the live write transaction *)
| XCheck (Sd : list page) (hdr : bool) (* check_integrity; Sd: system pages of the promoting commit, if any;
                                        hdr: clear_cache_and_reload found header and layout as the session left them *)
| XClose (Sd : list page)            (* Database::drop, then a new process opens the file *)
| XCrash.                            (* the process dies, a new one opens the file *)

Definition xinit : xst :=
  mkx init [] false (mkdimg (mkver 1 [] []) [] [] [] None false false).

(* quick_repair && !needs_repair *)
Definition eff_qr (x : xst) (qr : bool) : bool := qr && negb (nrep x).

Definition xcommit (D' Sd So : list page) (qr pcf tpc : bool) (x : xst) : xst :=
  let q := eff_qr x qr in
  mkx (commit_dur D' Sd So q pcf (own x)) (leaked x) (nrep x) (commit_image (tpc || qr) D' Sd q (own x)).

(* rebuild_allocator_state on the live state (repair_live_state / do_repair without a pending commit) *)
Definition rebuild_live (s : st) : list page := owned_c s.

(* check_integrity's comparison: the live allocator against a rebuild *)
Definition integrity_verdict (x : xst) : bool := seteqb (xalloc x) (rebuild_live (own x)) && nodupb (xalloc x).

(* the repair commit of check_integrity in a live session: next id, reserved in the tracker *)
Definition session_repair (s : st) : st :=
  let v := repair_ver (dur s) in
  mkst (rebuild_live s) (N.max (lastid s) (vid v)) v v (dfreed s) (sfreed s) (ufreed s) [] [] (pins s) [] false
       (vdata v) (vsys v) [] [] [] (dfreed s) None [] [].

Definition with_alloc (a : list page) (s : st) : st :=
  mkst a (lastid s) (dur s) (lat s) (dfreed s) (sfreed s) (ufreed s) (unpers s) (pca s) (pins s) (pend s) (inw s)
       (wdata s) (wsys s) (wasc s) (wdfr s) (wsfr s) (wdfreed s) (wrest s) (wcreated s) (wdeleted s).

Definition xcheck (Sd : list page) (hdr : bool) (x : xst) : xst :=
  let s := own x in
  match pend s with
  | _ :: _ =>
    (* the live state is rebuilt, then promoted by an empty durable commit (post-commit free disabled) *)
    let s1 := begin_write (with_alloc (rebuild_live s) s) in
    mkx (commit_dur (vdata (lat s)) Sd [] false false s1) [] false
        (commit_image false (vdata (lat s)) Sd false s1)
  | [] =>
    if hdr && integrity_verdict x then mkx (with_alloc (rebuild_live s) s) [] false (img x)
    else mkx (session_repair s) [] false (repair_image (img x))
  end.

Definition reopened (i : dimg) : xst := let (s, i') := xopen i in mkx s [] false i'.

(* close_database: the closing quick-repair commit (post-commit free disabled) unless needs_repair;
   mem.close records a clean shutdown only without the latch *)
Definition set_clean (i : dimg) : dimg :=
  mkdimg (d_ver i) (d_dfreed i) (d_sfreed i) (d_sps i) (d_snap i) (d_tpc i) true.
Definition closed_image (Sd : list page) (x : xst) : dimg :=
  if nrep x then img x
  else let s1 := begin_write (own x) in
       set_clean (commit_image true (vdata (lat (own x))) Sd true s1).
Definition xclose (Sd : list page) (x : xst) : xst := reopened (closed_image Sd x).

Definition xleak (x : xst) : xst :=
  mkx (abort (own x)) (leaked x ++ wasc (own x)) true (img x).

Definition xstep (x : xst) (o : xop) : xst :=
  match o with
  | XOp (OCommitDur D' Sd So qr pcf) tpc => xcommit D' Sd So qr pcf tpc x
  | XOp o _ => mkx (step (own x) o) (leaked x) (nrep x) (img x)
  | XLeak => xleak x
  | XCheck Sd hdr => xcheck Sd hdr x
  | XClose Sd => xclose Sd x
  | XCrash => reopened (img x)
  end.

(* side conditions: Own.v's on the ownership part; pages handed out are not leaked ones *)
Definition xok (x : xst) (o : xop) : bool :=
  match o with
  | XOp OReopen _ => false          (* a reopen is a stop followed by an open: XClose / XCrash *)
  | XOp (OCommitDur D' Sd So qr pcf) _ => oracle_ok (own x) (OCommitDur D' Sd So (eff_qr x qr) pcf)
  | XOp o _ => oracle_ok (own x) o
  | XLeak => inw (own x)
  | XCheck Sd _ =>
    negb (inw (own x)) &&
    match pend (own x) with
    | _ :: _ => let s1 := begin_write (with_alloc (rebuild_live (own x)) (own x)) in
                ok_commit_dur (vdata (lat (own x))) Sd [] false false s1
    | [] => true
    end
  | XClose Sd =>
    negb (inw (own x)) &&
    (nrep x || ok_commit_dur (vdata (lat (own x))) Sd [] true false (begin_write (own x)))
  | XCrash => true
  end.

Definition xrun (h : list xop) (x : xst) : xst := fold_left xstep h x.

Fixpoint xadmissible (x : xst) (h : list xop) : Prop :=
  match h with
  | [] => True
  | o :: r => xok x o = true /\ xadmissible (xstep x o) r
  end.

(* ---------------------------------------------------------------- tie to the byte-level decision model *)

Definition pN (p : page) : N := Npos p.

(* the slot of Reopen/Model.v that holds this image (slot checksum and trees intact) *)
Definition abs_slot (i : dimg) : slot :=
  mkSlot (vid (d_ver i)) true true
         (match d_snap i with Some sn => Some (snap_txid sn) | None => None end)
         (match d_snap i with Some sn => map pN (snap_pages sn) | None => [] end)
         (map pN (required i)).

(* an image whose primary slot holds it; `other` is whatever the secondary slot holds *)
Definition abs_image (i : dimg) (other : slot) : image :=
  mkImage false (negb (d_clean i)) (d_tpc i) (abs_slot i) other.

(* ---------------------------------------------------------------- the part of a durable commit's image that does not
   depend on page sets (used by the correspondence driver, which carries the image and the latch along the
   recorded history): is a snapshot saved, and the two-phase flag *)
Definition commit_flags (x : xst) (qr tpc : bool) : bool * bool := (eff_qr x qr, tpc || qr).

(* the image a commit leaves, given the flags and the id it publishes (page sets left out) *)
Definition flag_image (fl : bool * bool) (id : N) : dimg :=
  mkdimg (mkver id [] []) [] [] [] (if fst fl then Some (mksnap id []) else None) (snd fl) false.
