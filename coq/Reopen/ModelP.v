From Coq Require Import List NArith Bool Lia.
From RV Require Import Reopen.Model.
Import ListNotations.
Open Scope N_scope.

Definition wf_slot (sl : slot) : Prop :=
  s_snap sl = Some (s_txid sl) -> s_snap_pages sl = s_req sl.

Lemma select_tpc : forall i i1 k, select_primary i = Ok (i1, k) -> g_tpc i1 = g_tpc i.
Proof.
  intros i i1 k H. unfold select_primary in H.
  destruct (g_tpc i) eqn:T.
  - destruct (s_cksum_ok (primary i)); inversion H; subst; auto.
  - destruct (negb (s_cksum_ok (primary i))).
    + destruct (negb (s_cksum_ok (secondary i))); inversion H; subst; auto.
    + destruct (_ && _); inversion H; subst; auto.
Qed.

Lemma select_cases : forall i i1 k, select_primary i = Ok (i1, k) ->
  (i1 = i /\ k = true) \/ (i1 = swap i /\ k = false /\ g_tpc i = false).
Proof.
  intros i i1 k H. unfold select_primary in H.
  destruct (g_tpc i) eqn:T.
  - destruct (s_cksum_ok (primary i)); inversion H; subst; auto.
  - destruct (negb (s_cksum_ok (primary i))).
    + destruct (negb (s_cksum_ok (secondary i))); inversion H; subst; auto.
    + destruct (_ && _); inversion H; subst; auto.
Qed.

Lemma select_cksum : forall i i1 k, select_primary i = Ok (i1, k) -> s_cksum_ok (primary i1) = true.
Proof.
  intros i i1 k H. unfold select_primary in H.
  destruct (g_tpc i) eqn:T.
  - destruct (s_cksum_ok (primary i)) eqn:E; inversion H; subst; auto.
  - destruct (s_cksum_ok (primary i)) eqn:E; simpl in H.
    + destruct (N.ltb _ _ && s_cksum_ok (secondary i)) eqn:E2; inversion H; subst; auto.
      apply andb_true_iff in E2. destruct E2 as [_ E2]. unfold swap, primary, secondary in *; simpl.
      destruct (g_primary i); simpl; auto.
    + destruct (s_cksum_ok (secondary i)) eqn:E2; simpl in H; inversion H; subst.
      unfold swap, primary, secondary in *; simpl. destruct (g_primary i); simpl; auto.
Qed.

Lemma primary_swap : forall i, primary (swap i) = secondary i.
Proof. intros i. unfold primary, secondary, swap. simpl. destruct (g_primary i); reflexivity. Qed.
Lemma secondary_swap : forall i, secondary (swap i) = primary i.
Proof. intros i. unfold primary, secondary, swap. simpl. destruct (g_primary i); reflexivity. Qed.

(* A saved snapshot is used only if the header says the primary was written by a two-phase commit,
   the snapshot's transaction id equals the id of the commit being opened, and that commit is the
   on-disk primary (no slot was swapped). *)
Theorem snapshot_fresh : forall i o, open i = Ok o -> o_path o = Load ->
  g_tpc i = true /\ o_swapped o = false /\ o_slot o = primary i
  /\ s_snap (primary i) = Some (s_txid (primary i)) /\ s_cksum_ok (primary i) = true.
Proof.
  intros i o H HL. unfold open in H.
  destruct (select_primary i) as [[i1 k]|] eqn:S; [|discriminate].
  pose proof (select_tpc _ _ _ S) as T. pose proof (select_cksum _ _ _ S) as C.
  destruct (trusted_snapshot i1) eqn:TS.
  - inversion H; subst o; simpl in *. unfold trusted_snapshot in TS.
    apply andb_true_iff in TS. destruct TS as [T1 T2]. rewrite T in T1.
    destruct (select_cases _ _ _ S) as [[E1 E2]|[E1 [E2 E3]]]; [|congruence].
    subst i1 k. simpl. repeat split; auto.
    destruct (s_snap (primary i)) as [t|]; [|discriminate]. apply N.eqb_eq in T2. congruence.
  - destruct (repair_slot i1) as [[sl sw]|]; [|discriminate]. inversion H; subst o. simpl in HL. discriminate.
Qed.

(* Whatever path is taken, the allocator state after the open is exactly the page set required by
   the commit that is served -- provided a snapshot carrying that commit's own id describes it. *)
Theorem open_exact : forall i o, open i = Ok o -> wf_slot (o_slot o) -> o_alloc o = s_req (o_slot o).
Proof.
  intros i o H W. unfold open in H.
  destruct (select_primary i) as [[i1 k]|] eqn:S; [|discriminate].
  destruct (trusted_snapshot i1) eqn:TS.
  - inversion H; subst o; simpl in *. apply W. unfold trusted_snapshot in TS.
    apply andb_true_iff in TS. destruct TS as [_ T2].
    destruct (s_snap (primary i1)) as [t|]; [|discriminate]. apply N.eqb_eq in T2. congruence.
  - destruct (repair_slot i1) as [[sl sw]|]; [|discriminate]. inversion H; subst o. reflexivity.
Qed.

Theorem open_serves_verified : forall i o, open i = Ok o ->
  (o_slot o = slot0 i \/ o_slot o = slot1 i)
  /\ (o_path o = Rebuild -> s_tree_ok (o_slot o) = true)
  /\ (o_path o = Load -> s_cksum_ok (o_slot o) = true /\ g_tpc i = true).
Proof.
  intros i o H. pose proof H as H0. unfold open in H.
  destruct (select_primary i) as [[i1 k]|] eqn:S; [|discriminate].
  assert (forall x, (x = primary i1 \/ x = secondary i1) -> x = slot0 i \/ x = slot1 i) as PS.
  { intros x Hx. destruct (select_cases _ _ _ S) as [[E1 _]|[E1 _]]; subst i1;
      unfold primary, secondary, swap in Hx; simpl in Hx; destruct (g_primary i); simpl in Hx; tauto. }
  destruct (trusted_snapshot i1) eqn:TS.
  - inversion H; subst o; simpl. split; [apply PS; auto|]. split; [discriminate|]. intros _.
    destruct (snapshot_fresh i _ H0 eq_refl) as [A [_ [B [_ D]]]]. simpl in B. rewrite B. auto.
  - destruct (repair_slot i1) as [[sl sw]|] eqn:R; [|discriminate]. inversion H; subst o; simpl.
    unfold repair_slot in R.
    destruct (s_tree_ok (primary i1)) eqn:E1.
    + inversion R; subst. split; [apply PS; auto|]. split; auto. discriminate.
    + destruct (g_tpc i1); [discriminate|]. destruct (s_tree_ok (secondary i1)) eqn:E2; [|discriminate].
      inversion R; subst. split; [apply PS; auto|]. split; auto. discriminate.
Qed.

(* ------------------------------------------------------------------ crash images of one commit *)

Definition wf_running (i : image) : Prop :=
  g_rr i = true
  /\ s_cksum_ok (primary i) = true /\ s_tree_ok (primary i) = true /\ wf_slot (primary i)
  /\ (s_txid (secondary i) < s_txid (primary i) \/ secondary i = primary i).

Definition same_commit (a b : slot) : Prop :=
  s_txid a = s_txid b /\ s_req a = s_req b /\ s_snap a = s_snap b /\ s_snap_pages a = s_snap_pages b.

Lemma same_commit_refl : forall a, same_commit a a.
Proof. intros; repeat split. Qed.

Lemma wf_commit_slot : forall k t r, wf_slot (commit_slot k t r).
Proof. intros k t r _. reflexivity. Qed.

(* Every crash image a commit of any kind can leave (god byte old or new, secondary slot bytes old,
   new or torn, data pages complete or not, restricted only by what sync_data orders) opens, serves
   either the previous commit or the new one (the new one only if its data is complete), and ends with
   exactly the required allocation state. *)
Theorem crash_open_exact : forall i k txid req god sb data_ok,
  wf_running i -> s_txid (primary i) < txid ->
  crash_possible k god sb data_ok = true ->
  let ns := commit_slot k txid req in
  exists o, open (crash_image i k ns god sb data_ok) = Ok o
    /\ (same_commit (o_slot o) (primary i) \/ (same_commit (o_slot o) ns /\ data_ok = true /\ sb = SNew))
    /\ o_alloc o = s_req (o_slot o)
    /\ (o_path o = Load -> s_snap (o_slot o) = Some (s_txid (o_slot o))).
Proof.
  intros i k txid req god sb data_ok [Hrr [Hck [Htr [Hwf Hlt]]]] Hnew Hposs ns.
  unfold wf_slot in Hwf.
  destruct i as [gp grr gt s0 s1]. simpl in *.
  destruct gp; simpl in *;
  destruct s0 as [t0 c0 r0 sn0 sp0 rq0]; destruct s1 as [t1 c1 r1 sn1 sp1 rq1]; simpl in *; subst;
  (destruct Hlt as [Hlt|Heq]; [|inversion Heq; subst]);
  destruct god; destruct sb; destruct data_ok; destruct k; simpl in Hposs; try discriminate;
  destruct gt; unfold ns, open, crash_image, select_primary, trusted_snapshot, repair_slot, primary, secondary, swap,
    put_secondary, torn, commit_slot, kind_tpc; simpl;
  repeat match goal with
  | |- context [N.ltb ?a ?b] => let E := fresh "E" in destruct (N.ltb a b) eqn:E;
        [apply N.ltb_lt in E|apply N.ltb_ge in E]; try lia; simpl
  | |- context [N.eqb ?a ?b] => let E := fresh "E" in destruct (N.eqb a b) eqn:E;
        [apply N.eqb_eq in E|apply N.eqb_neq in E]; try lia; simpl
  | |- context [match ?x with Some _ => _ | None => _ end] => let E := fresh "E" in destruct x eqn:E; simpl
  | |- context [if ?c then _ else _] => let E := fresh "E" in destruct c eqn:E; simpl
  end;
  try (eexists; split; [reflexivity|]; simpl; unfold same_commit; simpl;
       split; [first [left; repeat split; reflexivity | right; repeat split; reflexivity]|];
       split; [first [reflexivity | apply Hwf; congruence | symmetry; apply Hwf; congruence]|];
       first [discriminate | intros _; congruence | intros _; reflexivity]).
Qed.

(* a clean close (quick-repair commit + cleared recovery flag) is opened by loading the snapshot *)
Theorem clean_close_loads : forall i txid req,
  wf_running i -> s_txid (primary i) < txid ->
  let ns := commit_slot CQR txid req in
  exists o, open (closed_image i ns) = Ok o /\ o_path o = Load /\ same_commit (o_slot o) ns
            /\ o_alloc o = req /\ o_swapped o = false.
Proof.
  intros i txid req [Hrr [Hck [Htr [Hwf _]]]] Hnew ns.
  destruct i as [gp grr gt s0 s1]. simpl in *.
  destruct gp; simpl in *; unfold ns, open, closed_image, committed_image, crash_image, select_primary,
    trusted_snapshot, primary, secondary, put_secondary, commit_slot, kind_tpc; simpl;
    rewrite N.eqb_refl; simpl; eexists; (split; [reflexivity|]); simpl; repeat split; reflexivity.
Qed.

(* After an open that had to rebuild, the file carries a repair commit whose system tree still holds
   whatever (now stale) allocator-state table the repaired commit had. A second open -- e.g. after a crash
   right after the first -- must not trust it, and does not: it rebuilds again to the same page set. *)
Theorem stale_snapshot_not_trusted : forall i o i',
  open i = Ok o -> o_path o = Rebuild -> image_after_open i = Ok i' ->
  (forall t, s_snap (o_slot o) = Some t -> t <= s_txid (o_slot o)) ->
  exists o', open i' = Ok o' /\ o_path o' = Rebuild /\ o_alloc o' = s_req (o_slot o)
             /\ s_txid (o_slot o') = s_txid (o_slot o) + 1 /\ s_req (o_slot o') = s_req (o_slot o).
Proof.
  intros i o i' H HR HA Hle. destruct (open_serves_verified i o H) as [_ [TO _]]. specialize (TO HR).
  unfold open in H. unfold image_after_open in HA.
  destruct (select_primary i) as [[i1 k]|] eqn:S; [|discriminate].
  destruct (trusted_snapshot i1) eqn:TS; [inversion H; subst o; discriminate|].
  destruct (repair_slot i1) as [[sl sw]|] eqn:R; [|discriminate]. inversion H; subst o; simpl in *.
  assert (trusted_stale : forall t, s_snap sl = Some t -> N.eqb t (s_txid sl + 1) = false).
  { intros t E. apply N.eqb_neq. specialize (Hle t E). lia. }
  destruct (g_primary (if sw then swap i1 else i1)) eqn:GP; inversion HA; subst i';
    unfold open, select_primary, trusted_snapshot, repair_slot, primary, secondary, repair_commit_slot; simpl;
    rewrite TO; destruct (s_snap sl) as [t|] eqn:E; try rewrite (trusted_stale t eq_refl); simpl;
    eexists; (split; [reflexivity|]); simpl; repeat split; reflexivity.
Qed.

(* ------------------------------------------------------------------ check_integrity *)

Lemma list_eqb_refl : forall l, list_eqb l l = true.
Proof. induction l as [|x l IH]; simpl; [reflexivity|]. rewrite N.eqb_refl, IH. reflexivity. Qed.

Theorem integrity_clean : forall l, healthy l ->
  exists l', check_integrity l = Ok (true, l') /\ healthy l'
             /\ l_latest l' = l_latest l /\ l_alloc l' = l_alloc l /\ l_pending l' = false.
Proof.
  intros l [A [B [C [D [D2 [E [F G]]]]]]]. unfold check_integrity.
  destruct (l_pending l) eqn:P.
  - rewrite E, B. simpl. rewrite A, list_eqb_refl, D, C. simpl. eexists. split; [reflexivity|].
    unfold healthy; simpl. repeat split; auto.
  - specialize (G eq_refl). rewrite C. rewrite F. simpl. rewrite A, G, list_eqb_refl. simpl.
    eexists. split; [reflexivity|]. unfold healthy; simpl. rewrite <- G. repeat split; auto; congruence.
Qed.

Theorem integrity_repeatable : forall n l, healthy l ->
  exists l', check_n n l = Ok l' /\ healthy l' /\ l_latest l' = l_latest l /\ l_alloc l' = l_alloc l.
Proof.
  induction n as [|n IH]; intros l H; simpl.
  - exists l. split; [reflexivity|]. split; [exact H|]. split; reflexivity.
  - destruct (integrity_clean l H) as [l1 [E1 [H1 [L1 [A1 _]]]]]. rewrite E1.
    destruct (IH l1 H1) as [l2 [E2 [H2 [L2 A2]]]]. exists l2. split; [exact E2|]. split; [exact H2|]. split; congruence.
Qed.
