(* Proofs about Reopen/Snapshot.v (C11 on top of the page-ownership model). *)
From Coq Require Import List PArith NArith Bool MSets.MSetPositive Permutation Lia.
From RV Require Import Txn.PSet Txn.PSetP Txn.Own Txn.OwnP Txn.OwnStepP Txn.OwnCommitP Txn.OwnThmP Txn.PinPersistP.
From RV Require Import Reopen.Model Reopen.ModelP Reopen.Snapshot.
Import ListNotations.
Open Scope N_scope.

(* ================================================================ 1. snapshot_exact *)

Lemma ok_commit_dur_parts : forall D' Sd So qr pcf s, ok_commit_dur D' Sd So qr pcf s = true ->
  inw s = true /\ ok_data D' (c_restored s) = true /\
  ok_sys Sd (c_drain (c_store_dfreed (c_adopt (mut_data D' (c_restored s))))) = true.
Proof.
  intros D' Sd So qr pcf s Hok. unfold ok_commit_dur in Hok.
  apply andb_true_iff in Hok. destruct Hok as [Hw Hok].
  apply andb_true_iff in Hok. destruct Hok as [Hok1 Hok].
  apply andb_true_iff in Hok. destruct Hok as [Hok2 _]. auto.
Qed.

Lemma ok_commit_dur_nopcf : forall D' Sd So So' qr pcf s, ok_commit_dur D' Sd So qr pcf s = true ->
  ok_commit_dur D' Sd So' qr false s = true.
Proof.
  intros D' Sd So So' qr pcf s Hok. destruct (ok_commit_dur_parts _ _ _ _ _ _ Hok) as (Hw & H1 & H2).
  unfold ok_commit_dur. rewrite Hw. cbv zeta. rewrite H1, H2. reflexivity.
Qed.

Lemma required_published : forall D' Sd qr s,
  let s7 := commit_dur_pre D' Sd qr s in
  required_st (published D' Sd qr s) = wdata s7 ++ wsys s7 ++ flat (wdfreed s7) ++ flat (sfreed s7).
Proof. intros. reflexivity. Qed.

Lemma wsfr_pre_qr : forall D' Sd s, wsfr (commit_dur_pre D' Sd true s) = [].
Proof. intros. reflexivity. Qed.

(* the allocator at the point the snapshot is taken, pointwise against the pages the published version requires *)
Lemma snapshot_bal : forall D' Sd So pcf s, Inv s -> ok_commit_dur D' Sd So true pcf s = true ->
  Bal (alloc (commit_dur_pre D' Sd true s)) (required_st (published D' Sd true s)).
Proof.
  intros D' Sd So pcf s H Hok. destruct (ok_commit_dur_parts _ _ _ _ _ _ Hok) as (Hw & H1 & H2).
  destruct (commit_dur_pre_W D' Sd true s H Hw H1 H2) as (W & Hr & Hd & Hu & Hl).
  rewrite required_published. set (s7 := commit_dur_pre D' Sd true s) in *.
  destruct W as [B _ _ _ _ _ _ _ _ _]. unfold owned_w, eff_ufreed in B. rewrite Hr, Hd, Hu in B.
  assert (Hs : wsfr s7 = []) by (apply wsfr_pre_qr). rewrite Hs in B.
  intro p. specialize (B p). cbn [flat map concat] in B. rewrite !cnt_app in *. rewrite !cnt_nil in B. lia.
Qed.

Theorem snapshot_exact_step : forall D' Sd So pcf s, Inv s -> oracle_ok s (OCommitDur D' Sd So true pcf) = true ->
  let sn := snapshot_at D' Sd s in
  let v := published D' Sd true s in
  snap_txid sn = vid (dur v) /\ dur (step s (OCommitDur D' Sd So true pcf)) = dur v /\
  NoDup (snap_pages sn) /\ NoDup (required_st v) /\
  (forall p, In p (snap_pages sn) <-> In p (required_st v)).
Proof.
  intros D' Sd So pcf s H Hok sn v. simpl in Hok.
  pose proof (snapshot_bal D' Sd So pcf s H Hok) as B.
  split; [reflexivity|]. split.
  { simpl. unfold commit_dur, commit_dur_mid. destruct pcf; [|reflexivity].
    unfold c_epilogue. match goal with |- context[if ?c then _ else _] => destruct c end; reflexivity. }
  split; [eapply Bal_NoDup_alloc; exact B|]. split; [eapply Bal_NoDup_owners; exact B|].
  apply Bal_seteq. exact B.
Qed.

(* for EVERY history of Own.v ending in a quick-repair durable commit *)
Theorem snapshot_exact : forall h D' Sd So pcf,
  admissible init (h ++ [OCommitDur D' Sd So true pcf]) ->
  let s := run h init in
  let sn := snapshot_at D' Sd s in
  let v := published D' Sd true s in
  snap_txid sn = vid (dur v) /\ dur (run (h ++ [OCommitDur D' Sd So true pcf]) init) = dur v /\
  NoDup (snap_pages sn) /\ NoDup (required_st v) /\
  (forall p, In p (snap_pages sn) <-> In p (required_st v)).
Proof.
  intros h D' Sd So pcf Ha. apply admissible_app in Ha. destruct Ha as [Ha [Hok _]].
  pose proof (inv_reach_init h Ha) as H. rewrite PinPersistP.run_app. simpl.
  exact (snapshot_exact_step D' Sd So pcf (run h init) H Hok).
Qed.

(* ================================================================ 2. ids are fresh *)

Lemma dur_commit_dur : forall D' Sd So qr pcf s,
  dur (commit_dur D' Sd So qr pcf s) = dur (published D' Sd qr s).
Proof.
  intros. unfold commit_dur, commit_dur_mid. destruct pcf; [|reflexivity].
  unfold c_epilogue. match goal with |- context[if ?c then _ else _] => destruct c end; reflexivity.
Qed.

Lemma dur_step_other : forall s o, (forall D' Sd So qr pcf, o <> OCommitDur D' Sd So qr pcf) -> dur (step s o) = dur s.
Proof.
  intros s o Hn. destruct o; simpl; try reflexivity.
  - unfold begin_write. destruct (inw s); reflexivity.
  - unfold sp_create. destruct persist; reflexivity.
  - unfold restore. destruct (find_pin h (pins s)); reflexivity.
  - exfalso. eapply Hn. reflexivity.
Qed.

(* a step keeps the durable version or publishes one with an id above every id committed so far *)
Lemma dur_step : forall s o, Inv s -> oracle_ok s o = true ->
  dur (step s o) = dur s \/ vid (lat s) < vid (dur (step s o)).
Proof.
  intros s o H Hok.
  destruct o; try (left; apply dur_step_other; intros; discriminate).
  right. cbn [step]. rewrite dur_commit_dur. cbn [oracle_ok] in Hok.
  destruct (ok_commit_dur_parts _ _ _ _ _ _ Hok) as (Hw & H1 & H2).
  destruct (commit_dur_pre_W D' Sd qr s H Hw H1 H2) as (_ & _ & _ & _ & Hl).
  unfold published. cbn [c_publish_dur dur vid]. rewrite Hl.
  destruct H as [_ _ _ _ _ _ _ (_ & _ & I3) _ _ _ _ _]. apply I3. exact Hw.
Qed.

Lemma dur_run : forall h s, Inv s -> admissible s h ->
  dur (run h s) = dur s \/ vid (dur s) < vid (dur (run h s)).
Proof.
  induction h as [|o r IH]; intros s H Ha; simpl in *; [left; reflexivity|].
  destruct Ha as [Hok Ha]. pose proof (inv_step s o H Hok) as H1.
  destruct (IH (step s o) H1 Ha) as [E|L]; destruct (dur_step s o H Hok) as [E1|L1].
  - left. congruence.
  - right. rewrite E. destruct H as [_ _ _ _ _ _ _ (I1 & _) _ _ _ _ _]. lia.
  - right. rewrite <- E1. exact L.
  - right. destruct H as [_ _ _ _ _ _ _ (I1 & _) _ _ _ _ _]. lia.
Qed.

Lemma run_cons : forall o h s, run (o :: h) s = run h (step s o).
Proof. reflexivity. Qed.

Lemma dur_after_commit : forall s D' Sd So pcf h2, Inv s ->
  admissible s (OCommitDur D' Sd So true pcf :: h2) ->
  dur (run (OCommitDur D' Sd So true pcf :: h2) s) = dur (published D' Sd true s) \/
  vid (dur (published D' Sd true s)) < vid (dur (run (OCommitDur D' Sd So true pcf :: h2) s)).
Proof.
  intros s D' Sd So pcf h2 H [Hok Ha2].
  destruct (snapshot_exact_step D' Sd So pcf s H Hok) as (_ & E2 & _).
  pose proof (inv_step s _ H Hok) as H1. rewrite run_cons.
  destruct (dur_run h2 _ H1 Ha2) as [E|L].
  - left. rewrite E. exact E2.
  - right. rewrite <- E2. exact L.
Qed.

(* whenever, later in any history, the durable version carries the id of a snapshot, it is the version
   that snapshot's own commit published (no other commit ever gets that id) *)
Theorem snapshot_id_fresh : forall h1 D' Sd So pcf h2,
  admissible init (h1 ++ OCommitDur D' Sd So true pcf :: h2) ->
  let s := run h1 init in
  let s' := run (h1 ++ OCommitDur D' Sd So true pcf :: h2) init in
  vid (dur s') = snap_txid (snapshot_at D' Sd s) -> dur s' = dur (published D' Sd true s).
Proof.
  intros h1 D' Sd So pcf h2 Ha s s' He.
  apply admissible_app in Ha. destruct Ha as [Ha1 Ha2].
  pose proof (inv_reach_init h1 Ha1) as H. fold s in H, Ha2.
  subst s'. rewrite PinPersistP.run_app in *. fold s in He |- *.
  destruct (dur_after_commit s D' Sd So pcf h2 H Ha2) as [E|L]; [exact E|].
  exfalso. change (snap_txid (snapshot_at D' Sd s)) with (vid (dur (published D' Sd true s))) in He. lia.
Qed.

(* a snapshot taken by a LATER quick-repair commit carries a larger id than any earlier one *)
Theorem snapshot_ids_differ : forall h1 D1 Sd1 So1 pcf1 h2 D2 Sd2 So2 pcf2,
  admissible init (h1 ++ OCommitDur D1 Sd1 So1 true pcf1 :: h2 ++ [OCommitDur D2 Sd2 So2 true pcf2]) ->
  let s1 := run h1 init in
  let s2 := run (h1 ++ OCommitDur D1 Sd1 So1 true pcf1 :: h2) init in
  snap_txid (snapshot_at D1 Sd1 s1) < snap_txid (snapshot_at D2 Sd2 s2).
Proof.
  intros h1 D1 Sd1 So1 pcf1 h2 D2 Sd2 So2 pcf2 Ha s1 s2.
  assert (Ha' : admissible init ((h1 ++ OCommitDur D1 Sd1 So1 true pcf1 :: h2) ++ [OCommitDur D2 Sd2 So2 true pcf2])).
  { rewrite <- app_assoc. exact Ha. }
  apply admissible_app in Ha'. destruct Ha' as [Ha12 [Hok2 _]]. fold s2 in Hok2.
  pose proof (inv_reach_init _ Ha12) as H2. fold s2 in H2.
  apply admissible_app in Ha12. destruct Ha12 as [Ha1 Ha2].
  pose proof (inv_reach_init h1 Ha1) as H1. fold s1 in H1, Ha2.
  assert (Hd : vid (dur (published D1 Sd1 true s1)) <= vid (dur s2)).
  { subst s2. rewrite PinPersistP.run_app. fold s1.
    destruct (dur_after_commit s1 D1 Sd1 So1 pcf1 h2 H1 Ha2) as [E|L]; [rewrite E|]; lia. }
  change (snap_txid (snapshot_at D1 Sd1 s1)) with (vid (dur (published D1 Sd1 true s1))).
  cbn [oracle_ok] in Hok2. destruct (ok_commit_dur_parts _ _ _ _ _ _ Hok2) as (Hw & Hk1 & Hk2).
  destruct (commit_dur_pre_W D2 Sd2 true s2 H2 Hw Hk1 Hk2) as (_ & _ & _ & _ & Hl).
  unfold snapshot_at. cbn [snap_txid]. rewrite Hl.
  destruct H2 as [_ _ _ _ _ _ _ (I1 & _ & I3) _ _ _ _ _]. specialize (I3 Hw). lia.
Qed.

(* ================================================================ 3. stale snapshots are never loaded *)

Lemma trusted_spec : forall i sn, trusted i = Some sn <->
  d_tpc i = true /\ d_snap i = Some sn /\ snap_txid sn = vid (d_ver i).
Proof.
  intros i sn. unfold trusted. destruct (d_tpc i); [|split; [discriminate | intros (H & _); discriminate]].
  destruct (d_snap i) as [s0|]; [|split; [discriminate | intros (_ & H & _); discriminate]].
  destruct (N.eqb (snap_txid s0) (vid (d_ver i))) eqn:E.
  - apply N.eqb_eq in E. split; [intros H; inversion H; subst; auto | intros (_ & H & _); exact H].
  - apply N.eqb_neq in E. split; [discriminate | intros (_ & H & H2); inversion H; subst; contradiction].
Qed.

Theorem stale_never_loaded : forall i,
  (forall sn, d_snap i = Some sn -> snap_txid sn <> vid (d_ver i)) ->
  open_path i = Rebuild /\ xopen i = (open_rebuild i, repair_image i) /\
  alloc (fst (xopen i)) = required i.
Proof.
  intros i Hs. assert (T : trusted i = None).
  { destruct (trusted i) as [sn|] eqn:E; [|reflexivity]. apply trusted_spec in E. destruct E as (_ & E1 & E2).
    exfalso. exact (Hs sn E1 E2). }
  unfold open_path, xopen. rewrite T. repeat split; reflexivity.
Qed.

Theorem loaded_only_own_id : forall i, open_path i = Load ->
  exists sn, d_snap i = Some sn /\ snap_txid sn = vid (d_ver i) /\ d_tpc i = true /\
             alloc (fst (xopen i)) = snap_pages sn /\ snd (xopen i) = mkdimg (d_ver i) (d_dfreed i) (d_sfreed i) (d_sps i) (d_snap i) (d_tpc i) false.
Proof.
  intros i H. unfold open_path in H. destruct (trusted i) as [sn|] eqn:E; [|discriminate].
  exists sn. pose proof E as E'. apply trusted_spec in E'. destruct E' as (T & S & I).
  unfold xopen. rewrite E. repeat split; assumption || reflexivity.
Qed.

(* the table a repair commit carries along is stale: the second open rebuilds again, the same page set *)
Theorem stale_after_repair : forall i,
  (forall sn, d_snap i = Some sn -> snap_txid sn <= vid (d_ver i)) ->
  open_path (repair_image i) = Rebuild /\ required (repair_image i) = required i /\
  alloc (fst (xopen (repair_image i))) = required i.
Proof.
  intros i Hs. destruct (stale_never_loaded (repair_image i)) as (P & _ & A).
  - intros sn Hsn. cbn in Hsn. specialize (Hs sn Hsn). cbn. lia.
  - repeat split; [exact P | exact A].
Qed.

(* tie to the byte-level decision model: with the image in the primary slot (checksums and trees intact) and
   the primary kept (two-phase flag, or the other slot not newer), Reopen/Model.v's open takes the same path,
   serves that slot and ends with the same allocator state *)
Theorem abs_open_agrees : forall i other,
  d_tpc i = true \/ s_txid other <= vid (d_ver i) ->
  exists o, open (abs_image i other) = Ok o /\ o_path o = open_path i /\ o_slot o = abs_slot i /\
            o_swapped o = false /\ o_alloc o = map pN (alloc (fst (xopen i))).
Proof.
  intros [v df sf sps sn tpc cl] other Hk. cbn [d_tpc d_ver] in Hk.
  unfold open, select_primary, abs_image, trusted_snapshot, repair_slot, open_path, xopen, trusted, abs_slot.
  destruct tpc.
  - destruct sn as [[t pg]|]; cbn -[N.eqb required];
      [destruct (N.eqb t (vid v)) eqn:E|]; eexists; (split; [reflexivity|]); cbn; repeat split; reflexivity.
  - destruct Hk as [Hk|Hk]; [discriminate|]. apply N.ltb_ge in Hk. cbn -[N.ltb required]. rewrite Hk.
    cbn -[required]. eexists; (split; [reflexivity|]); cbn; repeat split; reflexivity.
Qed.

(* ================================================================ 4. the state after an open satisfies Inv *)

(* a quiescent state re-based: allocator replaced by an equal page set, version id raised by k (repair commit),
   tracker at l, pins restricted to ps, write-transaction locals normal *)
Definition rebase (a : list page) (k l : N) (ps : list pin) (s : st) : st :=
  let v := mkver (vid (dur s) + k) (vdata (dur s)) (vsys (dur s)) in
  mkst a l v v (dfreed s) (sfreed s) (ufreed s) [] [] ps [] false (vdata v) (vsys v) [] [] [] (dfreed s) None [] [].

Lemma Sub_app_l : forall x y, Sub x (x ++ y).
Proof. intros x y p Hp. rewrite cnt_app. lia. Qed.

Lemma inv_rebase : forall a k l ps s, Inv s -> inw s = false -> pend s = [] ->
  (forall p, cnt p a = cnt p (alloc s)) -> vid (dur s) + k <= l -> incl ps (pins s) ->
  Inv (rebase a k l ps s).
Proof.
  intros a k l ps s [B2 B1 P Dc Dw L U I Pe K R Np Nm] Hw Hp Ha Hl Hps.
  destruct (Nm Hw) as (N1 & N2 & N3 & N4 & N5 & N6 & N7 & N8 & N9).
  rewrite Hp in Np. destruct Np as [Eld Eun].
  destruct K as (K1 & K2 & K3 & K4). destruct I as (I1 & I2 & I3).
  assert (Hv : vid (lat s) <= vid (dur s) + k) by (rewrite Eld; lia).
  unfold owned_c in B2. rewrite N3, app_nil_r, Eld in B2.
  constructor; unfold rebase, owned_c, owned_w, cover_c, cover_w, scover_c, scover_w, eff_ufreed;
    cbn [alloc lastid dur lat dfreed sfreed ufreed unpers pca pins pend inw wdata wsys wasc wdfr wsfr
         wdfreed wrest wcreated wdeleted vid vdata vsys].
  - intro p. specialize (B2 p). rewrite Ha. rewrite !cnt_app in *. rewrite cnt_nil. lia.
  - intro p. specialize (B2 p). rewrite Ha. rewrite !cnt_app in *. rewrite !cnt_nil. lia.
  - intros x Hx. apply Hps in Hx. destruct (P x Hx) as (H1 & H2 & H3 & H4 & H5 & H6).
    unfold pin_ok, cover_c, cover_w, eff_ufreed.
    cbn [alloc lastid dur lat dfreed sfreed ufreed unpers pca pins pend inw wdata wsys wasc wdfr wsfr
         wdfreed wrest wcreated wdeleted vid vdata vsys].
    unfold cover_c in H1. rewrite Eld in H1.
    repeat split.
    + exact H1.
    + intros p Hq. specialize (H1 p Hq). rewrite !cnt_app in *. rewrite cnt_nil. lia.
    + lia.
    + left. destruct H4 as [H4|H4]; [lia | rewrite Hp in H4; destruct H4].
    + intros _ p Hq. rewrite cnt_nil in Hq. lia.
    + exact H6.
  - split; apply Sub_app_l.
  - split; apply Sub_app_l.
  - split; apply Sub_app_l.
  - split; [intros p Hq; rewrite cnt_nil in Hq; lia | intros p Hq; exact Hq].
  - repeat split; try lia; intros; discriminate.
  - intros e [].
  - repeat split; eapply keys_le_mono; eassumption.
  - intros r Hr. discriminate.
  - split; reflexivity.
  - intros _. unfold normal_w.
    cbn [alloc lastid dur lat dfreed sfreed ufreed unpers pca pins pend inw wdata wsys wasc wdfr wsfr
         wdfreed wrest wcreated wdeleted vid vdata vsys]. repeat split; reflexivity.
Qed.

(* ---- what is known about a durable image *)
Definition quiet_dur (s : st) : Prop := Inv s /\ inw s = false /\ pend s = [] /\ ufreed s = [].

Definition snap_ok (i : dimg) (a : list page) : Prop :=
  forall sn, d_snap i = Some sn -> snap_txid sn <= vid (d_ver i) /\
    (snap_txid sn = vid (d_ver i) -> forall p, cnt p (snap_pages sn) = cnt p a).

(* the image is what a quiescent state satisfying the ownership invariant leaves on disk *)
Definition ImgOk (i : dimg) : Prop :=
  exists s, quiet_dur s /\ d_ver i = dur s /\ d_dfreed i = dfreed s /\ d_sfreed i = sfreed s /\
            d_sps i = filter ppersist (pins s) /\ snap_ok i (alloc s).

Lemma quiet_required : forall s i, quiet_dur s -> d_ver i = dur s -> d_dfreed i = dfreed s -> d_sfreed i = sfreed s ->
  Bal (alloc s) (required i).
Proof.
  intros s i (H & Hw & Hp & Hu) E1 E2 E3. destruct H as [B2 _ _ _ _ _ _ _ _ _ _ Np Nm].
  destruct (Nm Hw) as (_ & _ & N3 & _). rewrite Hp in Np. destruct Np as [Eld _].
  unfold owned_c in B2. rewrite N3, Hu, Eld in B2. unfold required. rewrite E1, E2, E3.
  intro p. specialize (B2 p). cbn [flat map concat] in B2. rewrite !cnt_app in *. rewrite !cnt_nil in B2. lia.
Qed.

Lemma open_state_rebase : forall s i a k, ufreed s = [] ->
  d_ver i = dur s -> d_dfreed i = dfreed s -> d_sfreed i = sfreed s -> d_sps i = filter ppersist (pins s) ->
  open_state i a (mkver (vid (dur s) + k) (vdata (dur s)) (vsys (dur s))) =
  rebase a k (vid (dur s) + k + 2) (filter ppersist (pins s)) s.
Proof. intros s i a k Hu E1 E2 E3 E4. unfold open_state, rebase. rewrite E2, E3, E4, Hu. reflexivity. Qed.

Lemma ver_eta : forall v, mkver (vid v + 0) (vdata v) (vsys v) = v.
Proof. intros [a b c]. cbn. rewrite N.add_0_r. reflexivity. Qed.

Lemma incl_filter : forall (A : Type) (f : A -> bool) l, incl (filter f l) l.
Proof. intros A f l x Hx. apply filter_In in Hx. tauto. Qed.

(* every open path: the allocator holds exactly the required pages and the new process starts from a state
   satisfying the ownership invariant, quiescent, with the image after the open describing it *)
Theorem open_sound : forall i, ImgOk i ->
  let s' := fst (xopen i) in let i' := snd (xopen i) in
  Inv s' /\ Bal (alloc s') (required i) /\ required i' = required i /\
  inw s' = false /\ pend s' = [] /\ ufreed s' = [] /\ leaked (reopened i) = [] /\ nrep (reopened i) = false /\
  d_ver i' = dur s' /\ d_dfreed i' = dfreed s' /\ d_sfreed i' = sfreed s' /\ d_sps i' = filter ppersist (pins s') /\
  snap_ok i' (alloc s') /\
  (open_path i = Load -> d_ver i' = d_ver i) /\ (open_path i = Rebuild -> d_ver i' = repair_ver (d_ver i)).
Proof.
  intros i (s & Q & E1 & E2 & E3 & E4 & Sk). pose proof Q as (H & Hw & Hp & Hu).
  pose proof (quiet_required s i Q E1 E2 E3) as Br.
  assert (Hff : forall l : list pin, filter ppersist (filter ppersist l) = filter ppersist l).
  { induction l as [|x l IH]; [reflexivity|]. simpl. destruct (ppersist x) eqn:E; simpl; rewrite ?E, IH; reflexivity. }
  unfold reopened, open_path, xopen. destruct (trusted i) as [sn|] eqn:T; cbn [fst snd leaked nrep].
  - apply trusted_spec in T. destruct T as (T1 & T2 & T3). destruct (Sk sn T2) as (_ & Sx). specialize (Sx T3).
    unfold open_load. rewrite E1. rewrite <- (ver_eta (dur s)) at 1 2.
    rewrite (open_state_rebase s i _ 0 Hu E1 E2 E3 E4).
    split; [apply inv_rebase; try assumption; [lia | apply incl_filter]|].
    split; [intro p; destruct (Br p) as [Bp1 Bp2]; unfold rebase; cbn [alloc]; rewrite Sx; split; assumption|].
    split; [unfold required; cbn [d_ver d_dfreed d_sfreed]; rewrite ?E1; reflexivity|].
    unfold open_state. cbn [alloc lastid dur lat dfreed sfreed ufreed unpers pca pins pend inw d_ver d_dfreed d_sfreed d_sps d_snap].
    rewrite E4, Hff. repeat match goal with |- _ /\ _ => split end; try assumption; try reflexivity; try (intros; discriminate).
    intros sn' Hs'. cbn [d_snap d_ver] in *. destruct (Sk sn' Hs') as (S1 & S2). rewrite E1 in S1, S2. split; [exact S1|].
    intros He p. rewrite (S2 He p). symmetry. apply Sx.
  - unfold open_rebuild, repair_ver, rebuild. rewrite E1.
    rewrite (open_state_rebase s i _ 1 Hu E1 E2 E3 E4).
    split; [apply inv_rebase; try assumption; [intro p; symmetry; apply (Br p) | lia | apply incl_filter]|].
    split; [intro p; destruct (Br p) as [Bp1 Bp2]; unfold rebase; cbn [alloc]; split; [reflexivity | assumption]|].
    split; [unfold required, repair_image, repair_ver; reflexivity|].
    unfold rebase, repair_image, repair_ver.
    cbn [alloc lastid dur lat dfreed sfreed ufreed unpers pca pins pend inw d_ver d_dfreed d_sfreed d_sps d_snap vid].
    rewrite Hff, ?E1. repeat match goal with |- _ /\ _ => split end; try assumption; try reflexivity; try (intros; discriminate).
    intros sn' Hs'. cbn [d_snap d_ver vid] in *. destruct (Sk sn' Hs') as (S1 & _). rewrite E1 in S1. split; [lia|]. intros He. exfalso. lia.
Qed.

(* ================================================================ 5. the invariant of histories with leaks, checks and stops *)

Ltac splits := repeat match goal with |- _ /\ _ => split end.

Record XInv (x : xst) : Prop := mkXInv {
  x_inv : Inv (own x);
  x_latch : leaked x <> [] -> nrep x = true;
  x_ver : d_ver (img x) = dur (own x);
  x_dirty : d_clean (img x) = false;
  x_img : ImgOk (img x)
}.

Lemma ufreed_commit_dur_mid : forall D' Sd qr s, ufreed (commit_dur_mid D' Sd qr s) = [].
Proof. intros. unfold commit_dur_mid, commit_dur_pre. destruct qr; reflexivity. Qed.

Lemma commit_dur_nopcf_eq : forall D' Sd So q s, commit_dur D' Sd So q false s = finish (commit_dur_mid D' Sd q s).
Proof. intros. unfold commit_dur. reflexivity. Qed.

(* projections through the closing pieces of a commit, over a variable state (cheap conversions only) *)
Lemma prj_reset_w : forall s, alloc (reset_w s) = alloc s /\ dur (reset_w s) = dur s /\ dfreed (reset_w s) = dfreed s /\
  sfreed (reset_w s) = sfreed s /\ pins (reset_w s) = pins s /\ pend (reset_w s) = pend s /\ ufreed (reset_w s) = ufreed s /\
  inw (reset_w s) = false.
Proof. intros s. destruct s. cbn. repeat split; reflexivity. Qed.
Lemma prj_apply_sp : forall s, alloc (c_apply_sp s) = alloc s /\ dur (c_apply_sp s) = dur s /\ dfreed (c_apply_sp s) = dfreed s /\
  sfreed (c_apply_sp s) = sfreed s /\ pend (c_apply_sp s) = pend s.
Proof. intros s. destruct s. cbn. repeat split; reflexivity. Qed.
Lemma prj_post_free : forall s, alloc (c_post_free s) = minus (alloc s) (wsfr s) /\ dur (c_post_free s) = dur s /\
  dfreed (c_post_free s) = dfreed s /\ sfreed (c_post_free s) = sfreed s /\ pend (c_post_free s) = pend s.
Proof. intros s. destruct s. cbn. repeat split; reflexivity. Qed.
Lemma prj_publish : forall s, alloc (c_publish_dur s) = alloc s /\ wsfr (c_publish_dur s) = wsfr s /\
  dur (c_publish_dur s) = mkver (lastid s) (wdata s) (wsys s) /\ pend (c_publish_dur s) = [].
Proof. intros s. destruct s. cbn. repeat split; reflexivity. Qed.

Lemma alloc_finish_mid_qr : forall D' Sd s,
  alloc (finish (commit_dur_mid D' Sd true s)) = alloc (commit_dur_pre D' Sd true s).
Proof.
  intros. unfold finish, commit_dur_mid.
  rewrite (proj1 (prj_reset_w _)), (proj1 (prj_apply_sp _)), (proj1 (prj_post_free _)).
  destruct (prj_publish (commit_dur_pre D' Sd true s)) as (E1 & E2 & _). rewrite E1, E2.
  rewrite wsfr_pre_qr, minus_nil_r. reflexivity.
Qed.

Lemma dur_mid : forall D' Sd q s, dur (commit_dur_mid D' Sd q s) = dur (published D' Sd q s).
Proof.
  intros. unfold commit_dur_mid, published.
  destruct (prj_apply_sp (c_post_free (c_publish_dur (commit_dur_pre D' Sd q s)))) as (_ & E & _). rewrite E.
  destruct (prj_post_free (c_publish_dur (commit_dur_pre D' Sd q s))) as (_ & E' & _). rewrite E'. reflexivity.
Qed.

Lemma pend_mid : forall D' Sd q s, pend (commit_dur_mid D' Sd q s) = [].
Proof.
  intros. unfold commit_dur_mid.
  destruct (prj_apply_sp (c_post_free (c_publish_dur (commit_dur_pre D' Sd q s)))) as (_ & _ & _ & _ & E). rewrite E.
  destruct (prj_post_free (c_publish_dur (commit_dur_pre D' Sd q s))) as (_ & _ & _ & _ & E'). rewrite E'.
  apply (prj_publish (commit_dur_pre D' Sd q s)).
Qed.

Lemma commit_image_ok : forall tpc D' Sd So q pcf s, Inv s -> ok_commit_dur D' Sd So q pcf s = true ->
  ImgOk (commit_image tpc D' Sd q s) /\ d_ver (commit_image tpc D' Sd q s) = dur (commit_dur D' Sd So q pcf s) /\
  d_clean (commit_image tpc D' Sd q s) = false.
Proof.
  intros tpc D' Sd So q pcf s H Hok.
  pose proof (ok_commit_dur_nopcf D' Sd So [] q pcf s Hok) as Hok0.
  pose proof (inv_commit_dur D' Sd [] q false s H Hok0) as HW. rewrite commit_dur_nopcf_eq in HW.
  destruct (prj_reset_w (commit_dur_mid D' Sd q s)) as (R1 & R2 & R3 & R4 & R5 & R6 & R7 & R8).
  split; [|split; [rewrite dur_commit_dur, <- dur_mid; unfold commit_image; cbn [d_ver]; reflexivity
                  | unfold commit_image; cbn [d_clean]; reflexivity]].
  exists (finish (commit_dur_mid D' Sd q s)). unfold finish. split; [|splits].
  - split; [exact HW|]. split; [exact R8|]. split; [rewrite R6; apply pend_mid | rewrite R7; apply ufreed_commit_dur_mid].
  - unfold commit_image. cbn [d_ver]. symmetry. exact R2.
  - unfold commit_image. cbn [d_dfreed]. symmetry. exact R3.
  - unfold commit_image. cbn [d_sfreed]. symmetry. exact R4.
  - unfold commit_image. cbn [d_sps]. rewrite R5. reflexivity.
  - intros sn Hs. unfold commit_image in Hs. cbn [d_snap] in Hs. destruct q; [|discriminate].
    injection Hs as <-. split.
    + unfold commit_image, snapshot_at. cbn [d_ver snap_txid]. rewrite dur_mid. unfold published.
      rewrite (proj1 (proj2 (proj2 (prj_publish _)))). cbn [vid]. apply N.le_refl.
    + intros _ p. pose proof (alloc_finish_mid_qr D' Sd s) as Ea. unfold finish in Ea. rewrite Ea. reflexivity.
Qed.

Lemma repair_image_ok : forall i, ImgOk i -> ImgOk (repair_image i).
Proof.
  intros i (s & Q & E1 & E2 & E3 & E4 & Sk). pose proof Q as (H & Hw & Hp & Hu).
  exists (rebase (alloc s) 1 (vid (dur s) + 1) (pins s) s). split; [|splits].
  - split; [apply inv_rebase; try assumption; [reflexivity | lia | apply incl_refl]|].
    split; [reflexivity|]. split; [reflexivity | exact Hu].
  - unfold repair_image, repair_ver. cbn. rewrite E1. reflexivity.
  - exact E2.
  - exact E3.
  - exact E4.
  - intros sn Hs. cbn [repair_image d_snap d_ver repair_ver vid] in *. destruct (Sk sn Hs) as (S1 & _).
    split; [lia|]. intros He. exfalso. lia.
Qed.

Lemma set_clean_ok : forall i, ImgOk i -> ImgOk (set_clean i).
Proof. intros i (s & Q & E1 & E2 & E3 & E4 & Sk). exists s. unfold quiet_dur in *. splits; try assumption; tauto. Qed.

Lemma xinv_reopened : forall i, ImgOk i -> XInv (reopened i).
Proof.
  intros i Hi. pose proof (open_sound i Hi) as S. cbv zeta in S.
  destruct S as (H & B & Rq & Hw & Hp & Hu & Hl & Hn & E1 & E2 & E3 & E4 & Sk & _).
  unfold reopened in *. destruct (xopen i) as [s' i'] eqn:E. cbn [fst snd own leaked nrep img] in *.
  constructor; cbn [own leaked nrep img].
  - exact H.
  - intros Hne. exfalso. apply Hne. reflexivity.
  - exact E1.
  - unfold xopen in E. destruct (trusted i); inversion E; reflexivity.
  - exists s'. unfold quiet_dur. splits; assumption.
Qed.

Lemma inv_with_alloc : forall a s, Inv s -> (forall p, cnt p a = cnt p (alloc s)) -> Inv (with_alloc a s).
Proof.
  intros a s [B2 B1 P Dc Dw L U I Pe K R Np Nm] Ha.
  constructor; try assumption.
  - intro p. specialize (B2 p). cbn [with_alloc alloc]. rewrite Ha. exact B2.
  - intro p. specialize (B1 p). cbn [with_alloc alloc]. rewrite Ha. exact B1.
Qed.

Lemma rebuild_live_cnt : forall s, Inv s -> inw s = false -> forall p, cnt p (rebuild_live s) = cnt p (alloc s).
Proof.
  intros s [B2 _ _ _ _ _ _ _ _ _ _ _ Nm] Hw p. destruct (Nm Hw) as (_ & _ & N3 & _).
  rewrite N3, app_nil_r in B2. symmetry. apply (B2 p).
Qed.

Theorem xinv_init : XInv xinit.
Proof.
  constructor; cbn.
  - exact inv_init.
  - intros H. exfalso. apply H. reflexivity.
  - reflexivity.
  - reflexivity.
  - exists init. split; [|splits]; try reflexivity.
    + split; [exact inv_init|]. repeat split; reflexivity.
    + intros sn Hs. discriminate.
Qed.

Lemma xinv_plain : forall x s', XInv x -> Inv s' -> dur s' = dur (own x) ->
  XInv (mkx s' (leaked x) (nrep x) (img x)).
Proof.
  intros x s' [H Hl Hv Hd Hi] H' E. constructor; cbn [own leaked nrep img]; try assumption. congruence.
Qed.

Theorem xinv_step : forall x o, XInv x -> xok x o = true -> XInv (xstep x o).
Proof.
  intros x o X Hok. pose proof X as [H Hl Hv Hd Hi]. destruct o as [o tpc| |Sd hdr|Sd|].
  - (* an API call *)
    assert (Hplain : forall o', (forall D' Sd So qr pcf, o' <> OCommitDur D' Sd So qr pcf) -> oracle_ok (own x) o' = true ->
              XInv (mkx (step (own x) o') (leaked x) (nrep x) (img x))).
    { intros o' Hn Hk. apply xinv_plain; [exact X | apply inv_step; assumption | apply dur_step_other; exact Hn]. }
    destruct o; cbn [xstep xok] in *; try discriminate; try (apply Hplain; [intros; discriminate | exact Hok]).
    unfold xcommit. cbn [oracle_ok] in Hok.
    destruct (commit_image_ok (tpc || qr) D' Sd So (eff_qr x qr) pcf (own x) H Hok) as (I1 & I2 & I3).
    constructor; cbn [own leaked nrep img]; try assumption.
    apply inv_commit_dur; assumption.
  - (* a panic unwinds through the write transaction *)
    cbn [xstep]. unfold xleak. constructor; cbn [own leaked nrep img]; try assumption.
    + apply inv_abort. exact H.
    + reflexivity.
  - (* check_integrity *)
    cbn [xstep xok] in *. apply andb_true_iff in Hok. destruct Hok as [Hw Hok]. apply negb_true_iff in Hw.
    pose proof (rebuild_live_cnt (own x) H Hw) as Hc.
    pose proof (inv_with_alloc _ _ H Hc) as H0.
    unfold xcheck. destruct (pend (own x)) as [|e l] eqn:Ep.
    + destruct (hdr && integrity_verdict x).
      * constructor; cbn [own leaked nrep img]; try assumption. intros Hne. exfalso. apply Hne. reflexivity.
      * constructor; cbn [own leaked nrep img].
        -- change (session_repair (own x)) with
             (rebase (rebuild_live (own x)) 1 (N.max (lastid (own x)) (vid (dur (own x)) + 1)) (pins (own x)) (own x)).
           apply inv_rebase; try assumption; [apply N.le_max_r | apply incl_refl].
        -- intros Hne. exfalso. apply Hne. reflexivity.
        -- cbn. rewrite Hv. reflexivity.
        -- reflexivity.
        -- apply repair_image_ok. exact Hi.
    + set (s1 := begin_write (with_alloc (rebuild_live (own x)) (own x))) in *.
      assert (H1 : Inv s1) by (apply inv_begin_write; [exact H0 | exact Hw]).
      destruct (commit_image_ok false (vdata (lat (own x))) Sd [] false false s1 H1 Hok) as (I1 & I2 & I3).
      constructor; cbn [own leaked nrep img]; try assumption.
      * apply inv_commit_dur; assumption.
      * intros Hne. exfalso. apply Hne. reflexivity.
  - (* clean close, then a new process *)
    cbn [xstep xok] in *. apply andb_true_iff in Hok. destruct Hok as [Hw Hok]. apply negb_true_iff in Hw.
    unfold xclose. apply xinv_reopened. unfold closed_image. destruct (nrep x); [exact Hi|].
    cbn [orb] in Hok. apply set_clean_ok.
    assert (H1 : Inv (begin_write (own x))) by (apply inv_begin_write; assumption).
    exact (proj1 (commit_image_ok true _ Sd [] true false _ H1 Hok)).
  - (* crash *)
    cbn [xstep]. apply xinv_reopened. exact Hi.
Qed.

Theorem xinv_reach : forall h x, XInv x -> xadmissible x h -> XInv (xrun h x).
Proof.
  induction h as [|o r IH]; intros x X Ha; simpl in *; [exact X|].
  destruct Ha as [Hok Ha]. apply IH; [apply xinv_step; assumption | exact Ha].
Qed.

Corollary xinv_reach_init : forall h, xadmissible xinit h -> XInv (xrun h xinit).
Proof. intros h Ha. apply xinv_reach; [exact xinv_init | exact Ha]. Qed.

(* ================================================================ 6. every history, every stop, every open path *)

Lemma Bal_exact : forall a o, Bal a o -> NoDup a /\ NoDup o /\ (forall p, In p a <-> In p o).
Proof.
  intros a o B. split; [eapply Bal_NoDup_alloc; exact B|]. split; [eapply Bal_NoDup_owners; exact B|].
  apply Bal_seteq. exact B.
Qed.

Lemma closed_image_ok : forall Sd x, XInv x -> xok x (XClose Sd) = true -> ImgOk (closed_image Sd x).
Proof.
  intros Sd x [H Hl Hv Hd Hi] Hok. cbn [xok] in Hok. apply andb_true_iff in Hok. destruct Hok as [Hw Hok].
  apply negb_true_iff in Hw. unfold closed_image. destruct (nrep x); [exact Hi|]. cbn [orb] in Hok.
  apply set_clean_ok. assert (H1 : Inv (begin_write (own x))) by (apply inv_begin_write; assumption).
  exact (proj1 (commit_image_ok true _ Sd [] true false _ H1 Hok)).
Qed.

(* the image a stop leaves: a crash leaves the image of the last durable commit, a clean close the image of
   its closing quick-repair commit (or, with the leak latch set, nothing new) *)
Definition stop_image (x : xst) (c : option (list page)) : dimg :=
  match c with None => img x | Some Sd => closed_image Sd x end.
Definition stop_ok (x : xst) (c : option (list page)) : Prop :=
  match c with None => True | Some Sd => xok x (XClose Sd) = true end.

Theorem open_exact_all_histories : forall h c, xadmissible xinit h ->
  let x := xrun h xinit in stop_ok x c ->
  let i := stop_image x c in
  let s' := fst (xopen i) in
  NoDup (alloc s') /\ NoDup (required i) /\ (forall p, In p (alloc s') <-> In p (required i)) /\
  required (snd (xopen i)) = required i /\
  (open_path i = Load -> exists sn, d_snap i = Some sn /\ snap_txid sn = vid (d_ver i) /\ alloc s' = snap_pages sn) /\
  (open_path i = Rebuild -> alloc s' = rebuild i).
Proof.
  intros h c Ha x Hc i s'. pose proof (xinv_reach_init h Ha) as X. fold x in X.
  assert (Hi : ImgOk i).
  { subst i. destruct c as [Sd|]; cbn [stop_image stop_ok] in *; [apply closed_image_ok; assumption | apply X]. }
  destruct (open_sound i Hi) as (_ & B & Rq & _). fold s' in B.
  destruct (Bal_exact _ _ B) as (N1 & N2 & N3).
  split; [exact N1|]. split; [exact N2|]. split; [exact N3|]. split; [exact Rq|]. split.
  - intros HL. destruct (loaded_only_own_id i HL) as (sn & S1 & S2 & _ & S4 & _). exists sn. auto.
  - intros HR. subst s'. unfold open_path, xopen in *. destruct (trusted i); [discriminate | reflexivity].
Qed.

(* a clean close without the leak latch is opened by loading the snapshot its closing commit saved *)
Theorem clean_close_loads : forall h Sd, xadmissible xinit h ->
  let x := xrun h xinit in xok x (XClose Sd) = true -> nrep x = false ->
  let i := closed_image Sd x in
  open_path i = Load /\ d_clean i = true /\
  d_snap i = Some (snapshot_at (vdata (lat (own x))) Sd (begin_write (own x))).
Proof.
  intros h Sd Ha x Hok Hn i. subst i. unfold closed_image. rewrite Hn.
  unfold open_path, trusted, set_clean, commit_image. cbn [d_tpc d_snap d_ver d_clean snapshot_at snap_txid].
  change (vid (dur (commit_dur_mid (vdata (lat (own x))) Sd true (begin_write (own x)))))
    with (lastid (commit_dur_pre (vdata (lat (own x))) Sd true (begin_write (own x)))).
  rewrite N.eqb_refl. repeat split; reflexivity.
Qed.

(* ================================================================ 7. writing after an open *)

Theorem write_after_open_safe : forall h c, xadmissible xinit h ->
  let x := xrun h xinit in stop_ok x c ->
  let s' := fst (xopen (stop_image x c)) in
  Inv s' /\ inw s' = false /\
  (forall h', admissible s' h' -> Inv (run h' s') /\ incl (pinned (run h' s')) (alloc (run h' s'))).
Proof.
  intros h c Ha x Hc s'. pose proof (xinv_reach_init h Ha) as X. fold x in X.
  assert (Hi : ImgOk (stop_image x c)).
  { destruct c as [Sd|]; cbn [stop_image stop_ok] in *; [apply closed_image_ok; assumption | apply X]. }
  destruct (open_sound _ Hi) as (H & _ & _ & Hw & _). fold s' in H, Hw.
  split; [exact H|]. split; [exact Hw|]. intros h' Ha'. split; [apply inv_reach; assumption | apply no_early_free; assumption].
Qed.

(* the ownership part of every state of every history with leaks, checks, crashes and clean closes *)
Theorem inv_all_histories : forall h, xadmissible xinit h -> Inv (own (xrun h xinit)).
Proof. intros h Ha. apply (xinv_reach_init h Ha). Qed.

(* ================================================================ 8. check_integrity and the leak latch *)

Theorem integrity_clean_all_histories : forall h, xadmissible xinit h ->
  let x := xrun h xinit in inw (own x) = false -> leaked x = [] ->
  integrity_verdict x = true /\
  NoDup (xalloc x) /\ (forall p, In p (xalloc x) <-> In p (rebuild_live (own x))).
Proof.
  intros h Ha x Hw Hl. pose proof (xinv_reach_init h Ha) as X. fold x in X. destruct X as [H _ _ _ _].
  destruct (no_leak _ H Hw) as (N1 & N2 & N3).
  unfold integrity_verdict, xalloc, rebuild_live. rewrite Hl, app_nil_r.
  split; [|split; assumption]. apply andb_true_iff. split.
  - apply seteqb_spec. exact N3.
  - apply nodupb_complete. exact N1.
Qed.

(* repeated: a check on a healthy session without a pending non-durable commit changes nothing the next check reads *)
Fixpoint xchecks (n : nat) (x : xst) : xst :=
  match n with O => x | S k => xchecks k (xstep x (XCheck [] true)) end.

Lemma check_healthy_step : forall x, XInv x -> inw (own x) = false -> pend (own x) = [] -> leaked x = [] ->
  let x' := xstep x (XCheck [] true) in
  integrity_verdict x = true /\ XInv x' /\ inw (own x') = false /\ pend (own x') = [] /\ leaked x' = [] /\ nrep x' = false /\
  img x' = img x /\ lat (own x') = lat (own x) /\ dur (own x') = dur (own x) /\ pins (own x') = pins (own x) /\
  (forall p, In p (alloc (own x')) <-> In p (alloc (own x))).
Proof.
  intros x X Hw Hp Hl x'. pose proof X as [H _ _ _ _].
  destruct (no_leak _ H Hw) as (N1 & N2 & N3).
  assert (V : integrity_verdict x = true).
  { unfold integrity_verdict, xalloc, rebuild_live. rewrite Hl, app_nil_r. apply andb_true_iff. split;
      [apply seteqb_spec; exact N3 | apply nodupb_complete; exact N1]. }
  assert (Hok : xok x (XCheck [] true) = true) by (cbn [xok]; rewrite Hw, Hp; reflexivity).
  pose proof (xinv_step x _ X Hok) as X'. fold x' in X'.
  subst x'. cbn [xstep] in *. unfold xcheck in *. rewrite Hp in *. rewrite V in *. cbn [andb] in *.
  cbn [own leaked nrep img with_alloc inw pend lat dur pins alloc].
  splits; try assumption; try reflexivity. intro p. unfold rebuild_live. symmetry. apply N3.
Qed.

Theorem integrity_repeatable_all_histories : forall n h, xadmissible xinit h ->
  let x := xrun h xinit in inw (own x) = false -> pend (own x) = [] -> leaked x = [] ->
  let x' := xchecks n x in
  integrity_verdict x' = true /\ img x' = img x /\ lat (own x') = lat (own x) /\ dur (own x') = dur (own x) /\
  (forall p, In p (alloc (own x')) <-> In p (alloc (own x))).
Proof.
  intros n h Ha x. pose proof (xinv_reach_init h Ha) as X. fold x in X. clearbody x. clear Ha h.
  revert x X. induction n as [|n IH]; intros x X Hw Hp Hl.
  - cbn [xchecks]. split; [|splits; try reflexivity; intro p; reflexivity].
    exact (proj1 (check_healthy_step x X Hw Hp Hl)).
  - cbn [xchecks]. destruct (check_healthy_step x X Hw Hp Hl) as (_ & X' & Hw' & Hp' & Hl' & _ & E1 & E2 & E3 & _ & E5).
    destruct (IH _ X' Hw' Hp' Hl') as (V & F1 & F2 & F3 & F5).
    split; [exact V|]. splits; try congruence. intro p. rewrite F5. apply E5.
Qed.

(* the latch: set by a panic-unwound transaction; while it is set no snapshot is saved and a close writes nothing and
   is not recorded clean; only a rebuild (check_integrity) or the end of the process clears it -- a later abort does not *)
Theorem leak_latch_blocks_snapshot : forall h, xadmissible xinit h ->
  let x := xrun h xinit in
  nrep (xstep x XLeak) = true /\
  (nrep x = true ->
     (forall D' Sd So qr pcf tpc, d_snap (img (xstep x (XOp (OCommitDur D' Sd So qr pcf) tpc))) = None) /\
     (forall Sd, closed_image Sd x = img x /\ d_clean (closed_image Sd x) = false) /\
     nrep (xstep x (XOp OAbort false)) = true /\
     (forall o, nrep (xstep x o) = false ->
        match o with XCheck _ _ | XClose _ | XCrash => True | _ => False end)) /\
  (leaked x <> [] -> nrep x = true).
Proof.
  intros h Ha x. pose proof (xinv_reach_init h Ha) as X. fold x in X. destruct X as [_ Hl _ Hd _].
  split; [reflexivity|]. split; [|exact Hl]. intros Hn. splits.
  - intros. cbn [xstep]. unfold xcommit, eff_qr. rewrite Hn, andb_false_r. reflexivity.
  - intros Sd. unfold closed_image. rewrite Hn. split; [reflexivity | exact Hd].
  - cbn [xstep nrep]. exact Hn.
  - intros o Ho. destruct o as [o tpc| | | |]; try exact I.
    + destruct o; cbn [xstep nrep xcommit] in Ho; congruence.
    + cbn [xstep xleak nrep] in Ho. discriminate.
Qed.

(* ================================================================ 9. what the correspondence driver carries *)

(* the flags the driver computes are those of the image a commit step leaves, and a saved snapshot carries the
   published id *)
Theorem commit_flags_sound : forall x D' Sd So qr pcf tpc,
  let x' := xstep x (XOp (OCommitDur D' Sd So qr pcf) tpc) in
  let fl := commit_flags x qr tpc in
  d_tpc (img x') = snd fl /\ nrep x' = nrep x /\
  (fst fl = false -> d_snap (img x') = None) /\
  (fst fl = true -> exists sn, d_snap (img x') = Some sn /\ snap_txid sn = vid (d_ver (img x'))).
Proof.
  intros x D' Sd So qr pcf tpc x' fl. subst x' fl. cbn [xstep]. unfold xcommit, commit_flags.
  cbn [img nrep fst snd]. unfold commit_image. cbn [d_tpc d_snap d_ver].
  split; [reflexivity|]. split; [reflexivity|]. split; intros E; rewrite E.
  - reflexivity.
  - eexists. split; [reflexivity|]. unfold snapshot_at. cbn [snap_txid]. rewrite dur_mid. unfold published.
    rewrite (proj1 (proj2 (proj2 (prj_publish _)))). reflexivity.
Qed.
