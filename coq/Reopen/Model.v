(* C11 model: which way a database file is opened and what allocation state results.
   Definitions only (proofs in ModelP.v).

   Mirrors, decision by decision:
     header.rs   UnrepairedDatabaseHeader::finalize / select_primary_slot
     db.rs       Database::new, get_allocator_state_table, do_repair, check_integrity_inner (decision part)
     page_manager.rs  is_valid_allocator_state, load_allocator_state
   An image is abstracted to the facts those decisions read: the god byte flags, and per commit slot its
   transaction id, whether the slot checksum verifies, whether the trees below it verify, whether its
   system tree holds an allocator-state table (and that table's transaction id and page set), and the
   set of pages required by its trees (reachable + pending-free lists).  Page sets are canonical
   (sorted, duplicate-free) lists of abstract order-0 page ids. *)
From Coq Require Import List NArith Bool.
Import ListNotations.
Open Scope N_scope.

Record slot := mkSlot {
  s_txid : N;
  s_cksum_ok : bool;            (* TransactionHeader::from_bytes: stored slot checksum matches *)
  s_tree_ok : bool;             (* verify_primary_checksums on this slot's roots *)
  s_snap : option N;            (* Some t: allocator-state table present, its TransactionId entry = t *)
  s_snap_pages : list N;        (* pages marked allocated by that table (after resize_to the layout) *)
  s_req : list N                (* pages required by this slot's trees: reachable + freed tables *)
}.

Record image := mkImage {
  g_primary : bool;             (* god byte PRIMARY_BIT: false = slot 0 *)
  g_rr : bool;                  (* RECOVERY_REQUIRED *)
  g_tpc : bool;                 (* TWO_PHASE_COMMIT *)
  slot0 : slot;
  slot1 : slot
}.

Definition primary (i : image) : slot := if g_primary i then slot1 i else slot0 i.
Definition secondary (i : image) : slot := if g_primary i then slot0 i else slot1 i.
Definition swap (i : image) : image := mkImage (negb (g_primary i)) (g_rr i) (g_tpc i) (slot0 i) (slot1 i).

Inductive path := Load | Rebuild.

Record opened := mkOpened {
  o_slot : slot;                (* the commit whose contents are served *)
  o_path : path;
  o_alloc : list N;             (* allocator state after the open *)
  o_swapped : bool              (* the on-disk primary was abandoned for the other slot *)
}.

Inductive result (A : Type) := Ok (a : A) | Err.
Arguments Ok {A} a.
Arguments Err {A}.

(* header.rs select_primary_slot: Ok (image', kept_primary) *)
Definition select_primary (i : image) : result (image * bool) :=
  if g_tpc i then
    if s_cksum_ok (primary i) then Ok (i, true) else Err
  else if negb (s_cksum_ok (primary i)) then
    if negb (s_cksum_ok (secondary i)) then Err else Ok (swap i, false)
  else if N.ltb (s_txid (primary i)) (s_txid (secondary i)) && s_cksum_ok (secondary i) then Ok (swap i, false)
  else Ok (i, true).

(* db.rs get_allocator_state_table + page_manager.rs is_valid_allocator_state *)
Definition trusted_snapshot (i : image) : bool :=
  g_tpc i &&
  match s_snap (primary i) with
  | Some t => N.eqb t (s_txid (primary i))
  | None => false
  end.

(* db.rs do_repair: which slot survives verification (image already through select_primary) *)
Definition repair_slot (i : image) : result (slot * bool) :=
  if s_tree_ok (primary i) then Ok (primary i, false)
  else if g_tpc i then Err
  else if s_tree_ok (secondary i) then Ok (secondary i, true)
  else Err.

(* Database::new *)
Definition open (i : image) : result opened :=
  match select_primary i with
  | Err => Err
  | Ok (i1, kept) =>
    if trusted_snapshot i1 then
      Ok (mkOpened (primary i1) Load (s_snap_pages (primary i1)) (negb kept))
    else
      match repair_slot i1 with
      | Err => Err
      | Ok (sl, sw) => Ok (mkOpened sl Rebuild (s_req sl) (xorb (negb kept) sw))
      end
  end.

(* ---- the file after the open (what a second open, or a crash right after, would see) *)
Definition repair_commit_slot (sl : slot) : slot :=
  (* Database::new commits the same roots again under the next id with 2PC; the system tree, and with
     it any allocator-state table, is carried over unchanged -- so the table is stale from here on *)
  mkSlot (s_txid sl + 1) true (s_tree_ok sl) (s_snap sl) (s_snap_pages sl) (s_req sl).

Definition image_after_open (i : image) : result image :=
  match select_primary i with
  | Err => Err
  | Ok (i1, kept) =>
    if trusted_snapshot i1 then Ok (mkImage (g_primary i1) true (g_tpc i1) (slot0 i1) (slot1 i1))
    else match repair_slot i1 with
         | Err => Err
         | Ok (sl, sw) =>
           let i2 := if sw then swap i1 else i1 in
           (* the repair commit goes to the secondary and becomes primary *)
           let ns := repair_commit_slot sl in
           if g_primary i2 then Ok (mkImage false true true ns (slot1 i2))
           else Ok (mkImage true true true (slot0 i2) ns)
         end
  end.

(* ---- commits and the crash images they can leave *)
Inductive ckind := C1PC | C2PC | CQR.

Definition kind_tpc (k : ckind) : bool := match k with C1PC => false | _ => true end.

(* the slot a WriteTransaction commit of kind k writes: the snapshot is saved inside the commit
   it describes (quick repair only); every durable commit deletes an older table first *)
Definition commit_slot (k : ckind) (txid : N) (req : list N) : slot :=
  mkSlot txid true true (match k with CQR => Some txid | _ => None end) req req.

(* what a crash may leave of the header + data writes of one commit:
   god byte old/new, the secondary slot's bytes old / new / torn, data pages complete or not *)
Inductive slot_bytes := SOld | SNew | STorn.

Definition put_secondary (i : image) (ns : slot) : image :=
  if g_primary i then mkImage (g_primary i) (g_rr i) (g_tpc i) ns (slot1 i)
  else mkImage (g_primary i) (g_rr i) (g_tpc i) (slot0 i) ns.

Definition torn (s : slot) : slot := mkSlot (s_txid s) false (s_tree_ok s) (s_snap s) (s_snap_pages s) (s_req s).

Definition crash_image (i : image) (k : ckind) (ns : slot) (god_new : bool) (sb : slot_bytes) (data_ok : bool) : image :=
  let ns' := mkSlot (s_txid ns) true data_ok (s_snap ns) (s_snap_pages ns) (s_req ns) in
  let i1 := match sb with
            | SOld => i
            | SNew => put_secondary i ns'
            | STorn => put_secondary i (torn ns')
            end in
  if god_new then mkImage (negb (g_primary i1)) true (kind_tpc k) (slot0 i1) (slot1 i1)
  else mkImage (g_primary i1) true (g_tpc i1) (slot0 i1) (slot1 i1).

(* the storage contract (sync_data orders writes) restricts the combinations:
   2PC / quick repair flip the god byte only after data and slot are durable *)
Definition crash_possible (k : ckind) (god_new : bool) (sb : slot_bytes) (data_ok : bool) : bool :=
  match k with
  | C1PC => true
  | _ => if god_new then (match sb with SNew => data_ok | _ => false end) else true
  end.

Definition committed_image (i : image) (k : ckind) (ns : slot) : image :=
  crash_image i k ns true SNew true.

(* clean close: a quick-repair commit (unless the allocator needs repair), then the recovery flag is cleared *)
Definition closed_image (i : image) (ns : slot) : image :=
  let c := committed_image i CQR ns in mkImage (g_primary c) false (g_tpc c) (slot0 c) (slot1 c).

(* ---- check_integrity on a live database (decision part of check_integrity_inner) *)
Record live := mkLive {
  l_alloc : list N;             (* the in-memory allocator state *)
  l_latest : slot;              (* what readers are served (secondary slot if a non-durable commit is pending) *)
  l_durable : slot;             (* the primary slot on disk *)
  l_pending : bool;             (* pending_non_durable_commit *)
  l_header_clean : bool;        (* clear_cache_and_reload: primary kept and layout matches the file *)
  l_file_ok : bool              (* file_len_matches_layout *)
}.

Fixpoint list_eqb (a b : list N) : bool :=
  match a, b with
  | [], [] => true
  | x :: a', y :: b' => N.eqb x y && list_eqb a' b'
  | _, _ => false
  end.

(* returns the verdict and the state afterwards *)
Definition check_integrity (l : live) : result (bool * live) :=
  if l_pending l then
    if l_file_ok l && s_tree_ok (l_latest l) then
      (* repair_live_state: rebuild from the live roots (s_req includes the in-memory freed records), compare hashes *)
      let rebuilt := s_req (l_latest l) in
      let live_clean := list_eqb (l_alloc l) rebuilt in
      let durable_clean := s_cksum_ok (l_durable l) && s_tree_ok (l_durable l) in
      (* promote: an empty durable commit of the live state *)
      Ok (live_clean && durable_clean,
          mkLive rebuilt (l_latest l) (l_latest l) false true (l_file_ok l))
    else
      (* roll back to the durable state and repair it *)
      if s_tree_ok (l_durable l) then
        Ok (false, mkLive (s_req (l_durable l)) (l_durable l) (l_durable l) false true true)
      else Err
  else
    if s_tree_ok (l_durable l) then
      let rebuilt := s_req (l_durable l) in
      let clean := l_header_clean l && list_eqb (l_alloc l) rebuilt in
      Ok (clean, mkLive rebuilt (l_durable l) (l_durable l) false true true)
    else Err.

Definition healthy (l : live) : Prop :=
  l_alloc l = s_req (l_latest l) /\ s_tree_ok (l_latest l) = true /\ s_tree_ok (l_durable l) = true
  /\ s_cksum_ok (l_durable l) = true /\ s_cksum_ok (l_latest l) = true /\ l_file_ok l = true /\ l_header_clean l = true
  /\ (l_pending l = false -> l_latest l = l_durable l).

Fixpoint check_n (n : nat) (l : live) : result live :=
  match n with
  | O => Ok l
  | S k => match check_integrity l with
           | Ok (true, l') => check_n k l'
           | _ => Err
           end
  end.
