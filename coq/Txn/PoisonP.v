(* C05 -- proofs about the poisoning state machine of Poison.v *)
From Coq Require Import List PArith NArith Bool Lia.
From RV Require Import Txn.PSet Txn.PSetP Txn.Own Txn.OwnP Txn.OwnThmP Txn.Abandon Txn.AbortP Txn.Poison.
Import ListNotations.
Open Scope N_scope.

(* ================================================================ the latches *)

Lemma fail_ok_facts : forall c f, fail_ok c f = true ->
  match f_err f with
  | ELogical => mutated f = false
  | EPanic => has_predicate (ck c) = true
  | EIo => True
  end /\ (f_lost f = true -> f_err f = EIo /\ mutated f = true).
Proof.
  intros c f H. unfold fail_ok in H. rewrite !andb_true_iff in H. destruct H as [[_ H1] H2]. split.
  - destruct (f_err f); [exact I | apply negb_true_iff; exact H1 | exact H1].
  - intros Hl. rewrite Hl in H2. simpl in H2. apply andb_true_iff in H2. destruct H2 as [H2 H3].
    split; [destruct (f_err f); try discriminate; reflexivity | exact H3].
Qed.

(* the sites named by the property: an error inside rename / delete / restore, a panicking predicate, a
   splice (or retain / extract finalisation) that lost changes already reported *)
Definition named_site (k : kind) (f : failure) : bool :=
  match k with
  | KRename | KDelete | KRestore => true
  | KRetain | KExtract => is_panic (f_err f) || f_lost f
  | KCursor => f_lost f
  | _ => false
  end.

Theorem partial_op_poisons : forall c f p, cfail c = Some f -> fail_ok c f = true -> mutated f = true ->
  named_site (ck c) f = true -> poisoned (exec c p) = true.
Proof.
  intros c f p Hc Hok Hm Hs. unfold exec. rewrite Hc. cbn [poisoned].
  apply orb_true_iff. right.
  destruct (fail_ok_facts c f Hok) as [He _].
  unfold named_site in Hs. unfold poisons.
  destruct (ck c); try discriminate Hs; try exact Hs; try exact Hm.
  - destruct (f_err f); [reflexivity | congruence | discriminate He].
  - destruct (f_err f); [reflexivity | congruence | discriminate He].
Qed.

(* every call that fails after its first mutation leaves the transaction unable to commit *)
Theorem failed_call_blocks : forall c f p, cfail c = Some f -> fail_ok c f = true -> mutated f = true ->
  blocked (exec c p) = true.
Proof.
  intros c f p Hc Hok Hm. unfold blocked, exec. rewrite Hc. cbn [poisoned iolatch].
  destruct (fail_ok_facts c f Hok) as [He _].
  destruct (f_err f) eqn:E.
  - rewrite !orb_true_iff. right. right. reflexivity.
  - congruence.
  - unfold poisons. destruct (ck c); try discriminate He; rewrite E; simpl; rewrite !orb_true_r; reflexivity.
Qed.

Lemma exec_poisoned_mono : forall c p, poisoned p = true -> poisoned (exec c p) = true.
Proof. intros c p H. unfold exec. destruct (cfail c); cbn [poisoned]; rewrite H; reflexivity. Qed.

Lemma exec_iolatch_mono : forall c p, iolatch p = true -> iolatch (exec c p) = true.
Proof. intros c p H. unfold exec. destruct (cfail c); cbn [iolatch]; rewrite H; reflexivity. Qed.

Theorem poisoned_is_sticky : forall cs p, poisoned p = true -> poisoned (run_calls cs p) = true.
Proof.
  induction cs as [|c cs IH]; intros p H; simpl; [exact H|]. apply IH. apply exec_poisoned_mono. exact H.
Qed.

Theorem iolatch_is_sticky : forall cs p, iolatch p = true -> iolatch (run_calls cs p) = true.
Proof.
  induction cs as [|c cs IH]; intros p H; simpl; [exact H|]. apply IH. apply exec_iolatch_mono. exact H.
Qed.

Theorem blocked_is_sticky : forall cs p, blocked p = true -> blocked (run_calls cs p) = true.
Proof.
  intros cs p H. unfold blocked in *. apply orb_true_iff in H. apply orb_true_iff. destruct H as [H|H].
  - left. apply poisoned_is_sticky. exact H.
  - right. apply iolatch_is_sticky. exact H.
Qed.

(* commit() of a poisoned transaction = abort_inner + Err(TransactionPoisoned); never Ok *)
Theorem poisoned_never_commits : forall cm p, poisoned p = true ->
  snd (commit_p cm p) <> COk /\
  (iolatch p = false -> commit_p cm p = (mkptx (abort (own p)) true false, CPoisoned)).
Proof.
  intros cm p H. unfold commit_p. rewrite H. destruct (iolatch p); simpl; split.
  - discriminate.
  - intros Hf. discriminate.
  - discriminate.
  - intros _. reflexivity.
Qed.

Theorem blocked_never_commits : forall cm p, blocked p = true ->
  snd (commit_p cm p) <> COk /\ dur (own (fst (commit_p cm p))) = dur (own p) /\ lat (own (fst (commit_p cm p))) = lat (own p).
Proof.
  intros cm p H. unfold blocked in H. unfold commit_p.
  destruct (poisoned p) eqn:Ep; destruct (iolatch p) eqn:Ei; try discriminate H; simpl.
  all: repeat split; try discriminate; try reflexivity.
Qed.

(* a transaction that is not blocked commits (the model is not vacuous: commit can succeed) *)
Theorem unblocked_commits : forall cm p, blocked p = false -> commit_p cm p = (mkptx (step (own p) cm) false false, COk).
Proof.
  intros cm p H. unfold blocked in H. apply orb_false_iff in H. destruct H as [H1 H2].
  unfold commit_p. rewrite H1, H2. reflexivity.
Qed.

(* Drop of the transaction = abort *)
Theorem drop_is_abort : forall p, iolatch p = false ->
  own (drop_p p) = abort (own p) /\ own (fst (abort_p p)) = abort (own p) /\ snd (abort_p p) = true.
Proof. intros p H. unfold drop_p, abort_p. rewrite H. repeat split; reflexivity. Qed.

(* the extracted flag-level function is the flag part of exec *)
Lemma poisons_flags : forall k f,
  poisons k f = poisons k (mkfail (if mutated f then 1%nat else 0%nat) (f_err f) None (f_lost f)).
Proof.
  intros k f. unfold poisons. destruct k; try reflexivity. cbn [f_err f_lost]. unfold mutated at 2. cbn [f_pos f_half].
  destruct (mutated f); reflexivity.
Qed.

Theorem flags_after_exec : forall c f p, cfail c = Some f ->
  (poisoned (exec c p), iolatch (exec c p)) =
  flags_after (ck c) (mutated f) (f_err f) (f_lost f) (poisoned p) (iolatch p).
Proof.
  intros c f p Hc. unfold exec, flags_after. rewrite Hc. cbn [poisoned iolatch f_err].
  rewrite (poisons_flags (ck c) f). reflexivity.
Qed.

Theorem commit_result_spec : forall cm p, snd (commit_p cm p) = commit_result (poisoned p) (iolatch p).
Proof. intros cm p. unfold commit_p, commit_result. destruct (poisoned p); destruct (iolatch p); reflexivity. Qed.

(* ================================================================ whatever happened inside, the end restores *)

Lemma pin_part_app : forall a b, pin_part (a ++ b) = pin_part a ++ pin_part b.
Proof. intros. unfold pin_part. apply flat_map_app. Qed.

Lemma intxn_exec : forall s0 sh c p, InTxn s0 sh (own p) -> call_ok c p ->
  InTxn s0 (run (pin_part (ran c)) sh) (own (exec c p)).
Proof.
  intros s0 sh c p I (Hb & Ha & Hf).
  pose proof (intxn_run (ran c) s0 sh (own p) I Hb Ha) as I'.
  unfold exec. destruct (cfail c) as [f|]; cbn [own]; [|exact I'].
  destruct Hf as [_ Hh]. destruct (f_half f) as [h|]; [|exact I'].
  apply intxn_half; assumption.
Qed.

Lemma intxn_run_calls : forall cs s0 sh p, InTxn s0 sh (own p) -> calls_ok cs p ->
  InTxn s0 (run (pin_part (ran_all cs)) sh) (own (run_calls cs p)).
Proof.
  induction cs as [|c cs IH]; intros s0 sh p I Hok; simpl in *; [exact I|].
  destruct Hok as [Hc Hr]. fold (ran_all cs). rewrite pin_part_app, run_app.
  apply IH; [apply intxn_exec; assumption | exact Hr].
Qed.

Lemma abort_after_calls : forall s cs, Inv s -> inw s = false -> calls_ok cs (start s) ->
  abort (own (run_calls cs (start s))) = bump (run (pin_part (ran_all cs)) s).
Proof.
  intros s cs H Hw Hok. pose proof (i_norm s H Hw) as Nm.
  apply (intxn_abort s); [|exact Nm | exact Hw].
  apply intxn_run_calls; [|exact Hok]. unfold start. cbn [own]. apply intxn_begin; assumption.
Qed.

Lemma existsb_failed_blocks : forall cs p, calls_ok cs p -> existsb failed_after_mutation cs = true ->
  blocked (run_calls cs p) = true.
Proof.
  induction cs as [|c cs IH]; intros p Hok He; simpl in *; [discriminate|].
  destruct Hok as [(_ & _ & Hf) Hr]. apply orb_true_iff in He. destruct He as [He|He].
  - apply blocked_is_sticky. unfold failed_after_mutation in He.
    destruct (cfail c) as [f|] eqn:Ec; [|discriminate]. destruct Hf as [Hf _].
    eapply failed_call_blocks; eassumption.
  - apply IH; assumption.
Qed.

(* THE property, second sentence: for every call sequence and every failure position, once some call
   failed after its first mutation a commit is never Ok and publishes nothing; if the storage is not
   latched (the failure was a panicking predicate) the commit's rollback restores exactly the state
   before begin_write (transaction id consumed, outside registrations as made meanwhile) *)
Theorem half_applied_never_commits : forall s cs cm, Inv s -> inw s = false -> calls_ok cs (start s) ->
  existsb failed_after_mutation cs = true ->
  let p := run_calls cs (start s) in
  snd (commit_p cm p) <> COk /\
  dur (own (fst (commit_p cm p))) = dur s /\ lat (own (fst (commit_p cm p))) = lat s /\
  (iolatch p = false ->
     snd (commit_p cm p) = CPoisoned /\
     own (fst (commit_p cm p)) = bump (run (pin_part (ran_all cs)) s)).
Proof.
  intros s cs cm H Hw Hok He p.
  pose proof (existsb_failed_blocks cs (start s) Hok He) as Hb. fold p in Hb.
  destruct (blocked_never_commits cm p Hb) as (B1 & B2 & B3).
  assert (I : InTxn s (run (pin_part (ran_all cs)) s) (own p)).
  { apply intxn_run_calls; [|exact Hok]. unfold start. cbn [own]. apply intxn_begin; [apply (i_norm s H Hw) | exact Hw]. }
  split; [exact B1|]. split; [rewrite B2; exact (it_dur _ _ _ I)|]. split; [rewrite B3; exact (it_lat _ _ _ I)|].
  intros Hio. unfold blocked in Hb. rewrite Hio, orb_false_r in Hb.
  destruct (poisoned_never_commits cm p Hb) as [_ Hc]. rewrite (Hc Hio). cbn [fst snd own].
  split; [reflexivity|]. apply abort_after_calls; assumption.
Qed.

(* THE property, first sentence, for every way of ending: abort(), Drop, commit() of a poisoned
   transaction -- after ANY sequence of calls, complete or failed at any position *)
Theorem abandoned_restores : forall s cs cm, Inv s -> inw s = false -> calls_ok cs (start s) ->
  let p := run_calls cs (start s) in
  let s' := bump (run (pin_part (ran_all cs)) s) in
  iolatch p = false ->
  own (fst (abort_p p)) = s' /\ snd (abort_p p) = true /\
  own (drop_p p) = s' /\
  (poisoned p = true -> own (fst (commit_p cm p)) = s' /\ snd (commit_p cm p) = CPoisoned).
Proof.
  intros s cs cm H Hw Hok p s' Hio.
  pose proof (abort_after_calls s cs H Hw Hok) as Ha. fold p in Ha. fold s' in Ha.
  destruct (drop_is_abort p Hio) as (D1 & D2 & D3).
  split; [rewrite D2; exact Ha|]. split; [exact D3|]. split; [rewrite D1; exact Ha|].
  intros Hp. destruct (poisoned_never_commits cm p Hp) as [_ Hc]. rewrite (Hc Hio). cbn [fst snd own].
  split; [exact Ha | reflexivity].
Qed.

(* ... and what that state is, observable by observable *)
Theorem abandoned_observables : forall s cs, Inv s -> inw s = false ->
  let s' := bump (run (pin_part (ran_all cs)) s) in
  same_committed s' s /\ NoDup (alloc s') /\ (forall q, In q (alloc s') <-> In q (alloc s)) /\
  pins s' = pins (run (pin_part (ran_all cs)) s) /\
  normal_w s' /\ inw s' = false /\ Inv s' /\ lastid s' = lastid s + 1 /\ lastid s < lastid s'.
Proof. intros s cs H Hw. apply bump_restores; assumption. Qed.

(* with the storage latched the rollback cannot run; nothing is published and no savepoint created in
   the transaction stays registered (the pages stay allocated until the reopen repairs: needs_repair) *)
Theorem latched_end_publishes_nothing : forall s cs cm, Inv s -> inw s = false -> calls_ok cs (start s) ->
  let p := run_calls cs (start s) in
  iolatch p = true ->
  snd (commit_p cm p) = CIoError /\ snd (abort_p p) = false /\
  dur (own (fst (commit_p cm p))) = dur s /\ lat (own (fst (commit_p cm p))) = lat s /\
  dur (own (fst (abort_p p))) = dur s /\ lat (own (fst (abort_p p))) = lat s /\
  dur (own (drop_p p)) = dur s /\ lat (own (drop_p p)) = lat s.
Proof.
  intros s cs cm H Hw Hok p Hio.
  assert (I : InTxn s (run (pin_part (ran_all cs)) s) (own p)).
  { apply intxn_run_calls; [|exact Hok]. unfold start. cbn [own]. apply intxn_begin; [apply (i_norm s H Hw) | exact Hw]. }
  pose proof (it_dur _ _ _ I) as Hd. pose proof (it_lat _ _ _ I) as Hl.
  unfold commit_p, abort_p, drop_p. rewrite Hio. destruct (poisoned p); cbn [fst snd own abort_latched dur lat];
    repeat split; try reflexivity; assumption.
Qed.
