(* C05 -- proofs about the poisoning state machine of Poison.v *)
From Coq Require Import List PArith NArith Bool Lia Arith PeanoNat.
From RV Require Import Txn.PSet Txn.PSetP Txn.Own Txn.OwnP Txn.OwnThmP Txn.Abandon Txn.AbortP Txn.Poison.
Import ListNotations.
Open Scope N_scope.

(* ================================================================ the latches *)

Lemma fail_ok_facts : forall c f, fail_ok c f = true ->
  match f_err f with
  | ELogical => mutated f = false
  | EPanic => has_predicate (ck c) = true
  | EIo => True
  | ECorrupt => corrupt_ok (ck c) f = true
  end /\ (f_lost f = true -> is_storage (f_err f) = true /\ mutated f = true) /\
  (is_mm (ck c) = true -> mutated f = true -> f_armed f = true).
Proof.
  intros c f H. unfold fail_ok in H. rewrite !andb_true_iff in H. destruct H as [[[[_ H1] H2] _] H4]. split; [|split].
  - destruct (f_err f); [exact I | apply negb_true_iff; exact H1 | exact H1 | exact H1].
  - intros Hl. rewrite Hl in H2. simpl in H2. apply andb_true_iff in H2. exact H2.
  - intros Hm Hu. rewrite Hm, Hu in H4. simpl in H4. exact H4.
Qed.

Lemma mutated_cases : forall f, mutated f = false -> f_pos f = 0%nat /\ f_half f = None.
Proof.
  intros f H. unfold mutated in H. apply orb_false_iff in H. destruct H as [H1 H2].
  apply negb_false_iff in H1. apply Nat.eqb_eq in H1. destruct (f_half f); [discriminate|]. split; [exact H1 | reflexivity].
Qed.

(* the sites named by the property: an error inside rename / delete / restore, a panicking predicate, a
   splice (or retain / extract finalisation) that lost changes already reported *)
Definition named_site (k : kind) (f : failure) : bool :=
  match k with
  | KRename | KDelete | KRestore => true
  | KRetain | KExtract => is_panic (f_err f) || f_lost f
  | KCursor => f_lost f
  | _ => false
  end.

Theorem partial_op_poisons : forall c f p, cfail c = Some f -> fail_ok c f = true -> mutated f = true ->
  named_site (ck c) f = true -> poisoned (exec c p) = true.
Proof.
  intros c f p Hc Hok Hm Hs. unfold exec, exec_with. rewrite Hc. cbn [poisoned].
  apply orb_true_iff. right.
  destruct (fail_ok_facts c f Hok) as (He & _ & Hg).
  unfold named_site in Hs. unfold poisons.
  destruct (ck c); try discriminate Hs; try exact Hs; try exact Hm.
  - destruct (f_err f); [reflexivity | congruence | discriminate He | reflexivity].
  - destruct (f_err f); [reflexivity | congruence | discriminate He | reflexivity].
Qed.

(* every call that fails after its first mutation -- by an I/O error, an argument / state error or a
   panicking predicate -- leaves the transaction unable to commit (corrupted reads: staged_partial_blocks) *)
Theorem failed_call_blocks : forall c f p, cfail c = Some f -> fail_ok c f = true ->
  is_corrupt (f_err f) = false -> mutated f = true -> blocked (exec c p) = true.
Proof.
  intros c f p Hc Hok Hnc Hm. unfold blocked, exec, exec_with. rewrite Hc. cbn [poisoned iolatch].
  destruct (fail_ok_facts c f Hok) as (He & _ & Hg).
  destruct (f_err f) eqn:E.
  - rewrite !orb_true_iff. right. right. reflexivity.
  - congruence.
  - unfold poisons. destruct (ck c); try discriminate He; rewrite E; simpl; rewrite !orb_true_r; reflexivity.
  - discriminate Hnc.
Qed.

Lemma staged_partial_mutated : forall c f, staged_partial c f = true -> mutated f = true.
Proof.
  intros c f H. unfold staged_partial in H. unfold mutated. apply orb_true_iff in H. apply orb_true_iff.
  destruct H as [H|H].
  - right. unfold has_half in H. destruct (f_half f); [reflexivity | discriminate].
  - left. apply andb_true_iff in H. destruct H as [_ H]. apply negb_true_iff in H. apply negb_true_iff.
    apply Nat.eqb_neq. intros E. rewrite E in H. discriminate H.
Qed.

(* THE statement for every kind of failure, corrupted reads included: whatever a failed call leaves of
   itself without having reported it as done (a half-executed step; complete steps of a call that is not
   entry-by-entry, beyond an id-consuming prefix) blocks the commit -- for every call kind, every failure
   position, every error kind the model allows *)
Theorem staged_partial_blocks : forall c f p, cfail c = Some f ->
  fail_ok c f = true -> staged_partial c f = true -> blocked (exec c p) = true.
Proof.
  intros c f p Hc Hok Hs.
  pose proof (staged_partial_mutated c f Hs) as Hm.
  destruct (is_corrupt (f_err f)) eqn:Ec; [|eapply failed_call_blocks; eassumption].
  destruct (f_err f) eqn:E; try discriminate Ec. clear Ec.
  destruct (fail_ok_facts c f Hok) as (He & Hl & Hg). rewrite E in He.
  unfold blocked, exec, exec_with. rewrite Hc. cbn [poisoned iolatch]. rewrite E.
  unfold staged_partial in Hs. unfold corrupt_ok in He. unfold poisons.
  destruct (ck c) eqn:K; cbn [per_entry ratchet_prefix negb andb] in Hs; try discriminate He.
  - (* KWrite *) apply andb_true_iff in He. destruct He as [H0 Hh]. apply Nat.eqb_eq in H0. rewrite H0 in Hs.
    apply negb_true_iff in Hh. rewrite Hh in Hs. discriminate Hs.
  - (* KRename *) rewrite E. simpl. rewrite !orb_true_r. reflexivity.
  - (* KDelete *) rewrite E. simpl. rewrite !orb_true_r. reflexivity.
  - (* KRestore *) rewrite Hm. rewrite !orb_true_r. reflexivity.
  - (* KRetain *) rewrite orb_false_r in Hs. rewrite Hs in He. simpl in He. rewrite He. rewrite !orb_true_r. reflexivity.
  - (* KExtract *) rewrite orb_false_r in Hs. rewrite Hs in He. simpl in He. rewrite He. rewrite !orb_true_r. reflexivity.
  - (* KCursor *) rewrite orb_false_r in Hs. rewrite Hs in He. simpl in He. rewrite He. rewrite !orb_true_r. reflexivity.
  - (* KSavepoint *) apply andb_true_iff in He. destruct He as [H0 Hh]. rewrite H0 in Hs.
    apply negb_true_iff in Hh. rewrite Hh in Hs. discriminate Hs.
  - (* KSpDelete *) apply andb_true_iff in He. destruct He as [H0 Hh]. apply Nat.eqb_eq in H0. rewrite H0 in Hs.
    apply negb_true_iff in Hh. rewrite Hh in Hs. discriminate Hs.
  - (* KMultimap: every mutation lies inside the guarded region *) rewrite (Hg eq_refl Hm). rewrite !orb_true_r. reflexivity.
Qed.

Lemma ran_length : forall c f, cfail c = Some f -> fail_ok c f = true -> length (ran c) = f_pos f.
Proof.
  intros c f Hc Hok. unfold ran. rewrite Hc. rewrite firstn_length. apply Nat.min_l.
  unfold fail_ok in Hok. rewrite !andb_true_iff in Hok. destruct Hok as [[[[H _] _] _] _]. apply Nat.leb_le. exact H.
Qed.

(* corrupted reads, full strength: for every call kind, every position and every
   lost / half combination the model allows, after a call failed by a corrupted read EITHER the transaction
   is blocked OR no step is half-executed, the working state is exactly the result of the complete micro
   steps that ran, and those are nothing at all (`own` unchanged), or only the id-consuming prefix
   (persistent_savepoint), or the prefix an entry-by-entry call had reported to its caller *)
Theorem corrupt_atomic_or_blocked : forall c f p, cfail c = Some f ->
  fail_ok c f = true -> f_err f = ECorrupt ->
  blocked (exec c p) = true \/
  (f_half f = None /\ own (exec c p) = run (ran c) (own p) /\
   poisoned (exec c p) = poisoned p /\ iolatch (exec c p) = iolatch p /\
   (per_entry (ck c) = true \/ (length (ran c) <= ratchet_prefix (ck c))%nat)).
Proof.
  intros c f p Hc Hok E.
  destruct (staged_partial c f) eqn:Hs; [left; eapply staged_partial_blocks; eassumption|].
  destruct (blocked (exec c p)) eqn:Hb; [left; reflexivity|]. right.
  unfold staged_partial in Hs. apply orb_false_iff in Hs. destruct Hs as [Hh Hp].
  assert (Hn : f_half f = None). { unfold has_half in Hh. destruct (f_half f); [discriminate | reflexivity]. }
  unfold blocked in Hb. apply orb_false_iff in Hb. destruct Hb as [Hb1 Hb2].
  unfold exec, exec_with in *. rewrite Hc in *. cbn [own poisoned iolatch] in *. rewrite Hn.
  apply orb_false_iff in Hb1. destruct Hb1 as [Hp0 Hpo]. apply orb_false_iff in Hb2. destruct Hb2 as [Hi0 _].
  split; [reflexivity|]. split; [reflexivity|].
  split; [rewrite Hp0, Hpo; reflexivity|]. split; [rewrite E; simpl; rewrite orb_false_r; reflexivity|].
  destruct (per_entry (ck c)) eqn:Pe; [left; reflexivity|]. right.
  simpl in Hp. apply negb_false_iff in Hp. apply Nat.leb_le in Hp.
  assert (L : length (ran c) = f_pos f) by (apply ran_length; [unfold ran; exact Hc | exact Hok]).
  rewrite L. exact Hp.
Qed.

(* ... in particular, for the call kinds that neither work entry by entry nor consume an id first (table and
   multimap writes, rename, delete, restore, delete_persistent_savepoint): blocked, or
   NOTHING of the call is staged -- the working state equals the state before the call *)
Theorem corrupt_nothing_staged_or_blocked : forall c f p,
  per_entry (ck c) = false -> ratchet_prefix (ck c) = 0%nat -> cfail c = Some f ->
  fail_ok c f = true -> f_err f = ECorrupt ->
  blocked (exec c p) = true \/ exec c p = p.
Proof.
  intros c f p Pe Rp Hc Hok E.
  destruct (corrupt_atomic_or_blocked c f p Hc Hok E) as [B|(Hn & Ho & Hpo & Hio & [P|L])]; [left; exact B| congruence |].
  right. rewrite Rp in L. destruct (ran c) eqn:R; [|simpl in L; inversion L]. simpl in Ho.
  destruct (exec c p) as [o po io]. destruct p as [o' po' io']. cbn [own poisoned iolatch] in *. congruence.
Qed.

Lemma exec_poisoned_mono : forall c p, poisoned p = true -> poisoned (exec c p) = true.
Proof. intros c p H. unfold exec, exec_with. destruct (cfail c); cbn [poisoned]; rewrite H; reflexivity. Qed.

Lemma exec_iolatch_mono : forall c p, iolatch p = true -> iolatch (exec c p) = true.
Proof. intros c p H. unfold exec, exec_with. destruct (cfail c); cbn [iolatch]; rewrite H; reflexivity. Qed.

Theorem poisoned_is_sticky : forall cs p, poisoned p = true -> poisoned (run_calls cs p) = true.
Proof.
  induction cs as [|c cs IH]; intros p H; simpl; [exact H|]. apply IH. apply exec_poisoned_mono. exact H.
Qed.

Theorem iolatch_is_sticky : forall cs p, iolatch p = true -> iolatch (run_calls cs p) = true.
Proof.
  induction cs as [|c cs IH]; intros p H; simpl; [exact H|]. apply IH. apply exec_iolatch_mono. exact H.
Qed.

Theorem blocked_is_sticky : forall cs p, blocked p = true -> blocked (run_calls cs p) = true.
Proof.
  intros cs p H. unfold blocked in *. apply orb_true_iff in H. apply orb_true_iff. destruct H as [H|H].
  - left. apply poisoned_is_sticky. exact H.
  - right. apply iolatch_is_sticky. exact H.
Qed.

(* commit() of a poisoned transaction = abort_inner + Err(TransactionPoisoned); never Ok *)
Theorem poisoned_never_commits : forall cm p, poisoned p = true ->
  snd (commit_p cm p) <> COk /\
  (iolatch p = false -> commit_p cm p = (mkptx (abort (own p)) true false, CPoisoned)).
Proof.
  intros cm p H. unfold commit_p. rewrite H. destruct (iolatch p); simpl; split.
  - discriminate.
  - intros Hf. discriminate.
  - discriminate.
  - intros _. reflexivity.
Qed.

Theorem blocked_never_commits : forall cm p, blocked p = true ->
  snd (commit_p cm p) <> COk /\ dur (own (fst (commit_p cm p))) = dur (own p) /\ lat (own (fst (commit_p cm p))) = lat (own p).
Proof.
  intros cm p H. unfold blocked in H. unfold commit_p.
  destruct (poisoned p) eqn:Ep; destruct (iolatch p) eqn:Ei; try discriminate H; simpl.
  all: repeat split; try discriminate; try reflexivity.
Qed.

(* a transaction that is not blocked commits (the model is not vacuous: commit can succeed) *)
Theorem unblocked_commits : forall cm p, blocked p = false -> commit_p cm p = (mkptx (step (own p) cm) false false, COk).
Proof.
  intros cm p H. unfold blocked in H. apply orb_false_iff in H. destruct H as [H1 H2].
  unfold commit_p. rewrite H1, H2. reflexivity.
Qed.

(* Drop of the transaction = abort *)
Theorem drop_is_abort : forall p, iolatch p = false ->
  own (drop_p p) = abort (own p) /\ own (fst (abort_p p)) = abort (own p) /\ snd (abort_p p) = true.
Proof. intros p H. unfold drop_p, abort_p. rewrite H. repeat split; reflexivity. Qed.

(* the extracted flag-level function is the flag part of exec *)
Lemma poisons_flags : forall k f,
  poisons k f = poisons k (mkfail (if mutated f then 1%nat else 0%nat) (f_err f) None (f_lost f) (f_armed f)).
Proof.
  intros k f. unfold poisons. destruct k; try reflexivity. cbn [f_err f_lost f_armed]. unfold mutated at 2. cbn [f_pos f_half].
  destruct (mutated f); reflexivity.
Qed.

Theorem flags_after_exec : forall c f p, cfail c = Some f ->
  (poisoned (exec c p), iolatch (exec c p)) =
  flags_after (ck c) (mutated f) (f_err f) (f_lost f) (f_armed f) (poisoned p) (iolatch p).
Proof.
  intros c f p Hc. unfold exec, exec_with, flags_after. rewrite Hc. cbn [poisoned iolatch f_err].
  rewrite (poisons_flags (ck c) f). reflexivity.
Qed.

Theorem commit_result_spec : forall cm p, snd (commit_p cm p) = commit_result (poisoned p) (iolatch p).
Proof. intros cm p. unfold commit_p, commit_result. destruct (poisoned p); destruct (iolatch p); reflexivity. Qed.

(* ================================================================ whatever happened inside, the end restores *)

Lemma pin_part_app : forall a b, pin_part (a ++ b) = pin_part a ++ pin_part b.
Proof. intros. unfold pin_part. apply flat_map_app. Qed.

Lemma intxn_exec : forall s0 sh c p, InTxn s0 sh (own p) -> call_ok c p ->
  InTxn s0 (run (pin_part (ran c)) sh) (own (exec c p)).
Proof.
  intros s0 sh c p I (Hb & Ha & Hf).
  pose proof (intxn_run (ran c) s0 sh (own p) I Hb Ha) as I'.
  unfold exec, exec_with. destruct (cfail c) as [f|]; cbn [own]; [|exact I'].
  destruct Hf as [_ Hh]. destruct (f_half f) as [h|]; [|exact I'].
  apply intxn_half; assumption.
Qed.

Lemma intxn_run_calls : forall cs s0 sh p, InTxn s0 sh (own p) -> calls_ok cs p ->
  InTxn s0 (run (pin_part (ran_all cs)) sh) (own (run_calls cs p)).
Proof.
  induction cs as [|c cs IH]; intros s0 sh p I Hok; simpl in *; [exact I|].
  destruct Hok as [Hc Hr]. fold (ran_all cs). rewrite pin_part_app, run_app.
  apply IH; [apply intxn_exec; assumption | exact Hr].
Qed.

Lemma abort_after_calls : forall s cs, Inv s -> inw s = false -> calls_ok cs (start s) ->
  abort (own (run_calls cs (start s))) = bump (run (pin_part (ran_all cs)) s).
Proof.
  intros s cs H Hw Hok. pose proof (i_norm s H Hw) as Nm.
  apply (intxn_abort s); [|exact Nm | exact Hw].
  apply intxn_run_calls; [|exact Hok]. unfold start. cbn [own]. apply intxn_begin; assumption.
Qed.

Lemma existsb_partial_blocks : forall cs p, calls_ok cs p ->
  existsb partial_failed cs = true -> blocked (run_calls cs p) = true.
Proof.
  induction cs as [|c cs IH]; intros p Hok He; simpl in *; [discriminate|].
  destruct Hok as [(_ & _ & Hf) Hr]. apply orb_true_iff in He. destruct He as [He|He].
  - apply blocked_is_sticky. unfold partial_failed in He.
    destruct (cfail c) as [f|] eqn:Ec; [|discriminate]. destruct Hf as [Hf _].
    eapply staged_partial_blocks; eassumption.
  - apply IH; assumption.
Qed.

Lemma existsb_failed_nc_blocks : forall cs p, calls_ok cs p -> existsb failed_after_mutation_nc cs = true ->
  blocked (run_calls cs p) = true.
Proof.
  induction cs as [|c cs IH]; intros p Hok He; simpl in *; [discriminate|].
  destruct Hok as [(_ & _ & Hf) Hr]. apply orb_true_iff in He. destruct He as [He|He].
  - apply blocked_is_sticky. unfold failed_after_mutation_nc in He.
    destruct (cfail c) as [f|] eqn:Ec; [|discriminate]. destruct Hf as [Hf _].
    apply andb_true_iff in He. destruct He as [Hm Hn]. apply negb_true_iff in Hn.
    eapply failed_call_blocks; eassumption.
  - apply IH; assumption.
Qed.

Lemma blocked_commit_restores : forall s cs cm, Inv s -> inw s = false -> calls_ok cs (start s) ->
  let p := run_calls cs (start s) in
  blocked p = true ->
  snd (commit_p cm p) <> COk /\
  dur (own (fst (commit_p cm p))) = dur s /\ lat (own (fst (commit_p cm p))) = lat s /\
  (iolatch p = false ->
     snd (commit_p cm p) = CPoisoned /\
     own (fst (commit_p cm p)) = bump (run (pin_part (ran_all cs)) s)).
Proof.
  intros s cs cm H Hw Hok p Hb.
  destruct (blocked_never_commits cm p Hb) as (B1 & B2 & B3).
  assert (I : InTxn s (run (pin_part (ran_all cs)) s) (own p)).
  { apply intxn_run_calls; [|exact Hok]. unfold start. cbn [own]. apply intxn_begin; [apply (i_norm s H Hw) | exact Hw]. }
  split; [exact B1|]. split; [rewrite B2; exact (it_dur _ _ _ I)|]. split; [rewrite B3; exact (it_lat _ _ _ I)|].
  intros Hio. unfold blocked in Hb. rewrite Hio, orb_false_r in Hb.
  destruct (poisoned_never_commits cm p Hb) as [_ Hc]. rewrite (Hc Hio). cbn [fst snd own].
  split; [reflexivity|]. apply abort_after_calls; assumption.
Qed.

(* THE property, second sentence: for every call sequence and every failure
   position and kind -- I/O error, argument / state error, panicking predicate, CORRUPTED READ -- once some
   call left an unreported part of itself (a half-executed step, or complete steps of a call that is not
   entry-by-entry) a commit is never Ok and publishes nothing; if the storage is not latched the commit's
   rollback restores exactly the state before begin_write (transaction id consumed, outside registrations
   as made meanwhile) *)
Theorem half_applied_never_commits : forall s cs cm, Inv s -> inw s = false -> calls_ok cs (start s) ->
  existsb partial_failed cs = true ->
  let p := run_calls cs (start s) in
  snd (commit_p cm p) <> COk /\
  dur (own (fst (commit_p cm p))) = dur s /\ lat (own (fst (commit_p cm p))) = lat s /\
  (iolatch p = false ->
     snd (commit_p cm p) = CPoisoned /\
     own (fst (commit_p cm p)) = bump (run (pin_part (ran_all cs)) s)).
Proof.
  intros s cs cm H Hw Hok He p. apply blocked_commit_restores; try assumption.
  apply existsb_partial_blocks; assumption.
Qed.

(* the statement of the first version of this model: a call
   that failed after its first mutation by anything but a corrupted read *)
Theorem mutated_noncorrupt_never_commits : forall s cs cm, Inv s -> inw s = false -> calls_ok cs (start s) ->
  existsb failed_after_mutation_nc cs = true ->
  let p := run_calls cs (start s) in
  snd (commit_p cm p) <> COk /\
  dur (own (fst (commit_p cm p))) = dur s /\ lat (own (fst (commit_p cm p))) = lat s /\
  (iolatch p = false ->
     snd (commit_p cm p) = CPoisoned /\
     own (fst (commit_p cm p)) = bump (run (pin_part (ran_all cs)) s)).
Proof.
  intros s cs cm H Hw Hok He p. apply blocked_commit_restores; try assumption.
  apply existsb_failed_nc_blocks; assumption.
Qed.

(* conversely: what a sequence of calls with corrupted-read failures leaves when it is NOT blocked is the run
   of complete, reported steps only -- so a commit publishes no half-executed step *)
Lemma unblocked_no_half : forall cs p, calls_ok cs p ->
  blocked (run_calls cs p) = false ->
  Forall (fun c => match cfail c with Some f => staged_partial c f = false | None => True end) cs.
Proof.
  induction cs as [|c cs IH]; intros p Hok Hb; [constructor|].
  change (run_calls (c :: cs) p) with (run_calls cs (exec c p)) in Hb.
  simpl in Hok. destruct Hok as [Hc Hr]. constructor; [|eapply IH; eassumption].
  destruct (cfail c) as [f|] eqn:Ec; [|exact I].
  destruct (staged_partial c f) eqn:Hs; [|reflexivity]. exfalso.
  destruct Hc as (_ & _ & Hf). rewrite Ec in Hf. destruct Hf as [Hf _].
  pose proof (staged_partial_blocks c f p Ec Hf Hs) as B.
  pose proof (blocked_is_sticky cs (exec c p) B) as B'. congruence.
Qed.

(* THE property, first sentence, for every way of ending: abort(), Drop, commit() of a poisoned
   transaction -- after ANY sequence of calls, complete or failed at any position *)
Theorem abandoned_restores : forall s cs cm, Inv s -> inw s = false -> calls_ok cs (start s) ->
  let p := run_calls cs (start s) in
  let s' := bump (run (pin_part (ran_all cs)) s) in
  iolatch p = false ->
  own (fst (abort_p p)) = s' /\ snd (abort_p p) = true /\
  own (drop_p p) = s' /\
  (poisoned p = true -> own (fst (commit_p cm p)) = s' /\ snd (commit_p cm p) = CPoisoned).
Proof.
  intros s cs cm H Hw Hok p s' Hio.
  pose proof (abort_after_calls s cs H Hw Hok) as Ha. fold p in Ha. fold s' in Ha.
  destruct (drop_is_abort p Hio) as (D1 & D2 & D3).
  split; [rewrite D2; exact Ha|]. split; [exact D3|]. split; [rewrite D1; exact Ha|].
  intros Hp. destruct (poisoned_never_commits cm p Hp) as [_ Hc]. rewrite (Hc Hio). cbn [fst snd own].
  split; [exact Ha | reflexivity].
Qed.

(* ... and what that state is, observable by observable *)
Theorem abandoned_observables : forall s cs, Inv s -> inw s = false ->
  let s' := bump (run (pin_part (ran_all cs)) s) in
  same_committed s' s /\ NoDup (alloc s') /\ (forall q, In q (alloc s') <-> In q (alloc s)) /\
  pins s' = pins (run (pin_part (ran_all cs)) s) /\
  normal_w s' /\ inw s' = false /\ Inv s' /\ lastid s' = lastid s + 1 /\ lastid s < lastid s'.
Proof. intros s cs H Hw. apply bump_restores; assumption. Qed.

(* with the storage latched the rollback cannot run; nothing is published and no savepoint created in
   the transaction stays registered (the pages stay allocated until the reopen repairs: needs_repair) *)
Theorem latched_end_publishes_nothing : forall s cs cm, Inv s -> inw s = false -> calls_ok cs (start s) ->
  let p := run_calls cs (start s) in
  iolatch p = true ->
  snd (commit_p cm p) = CIoError /\ snd (abort_p p) = false /\
  dur (own (fst (commit_p cm p))) = dur s /\ lat (own (fst (commit_p cm p))) = lat s /\
  dur (own (fst (abort_p p))) = dur s /\ lat (own (fst (abort_p p))) = lat s /\
  dur (own (drop_p p)) = dur s /\ lat (own (drop_p p)) = lat s.
Proof.
  intros s cs cm H Hw Hok p Hio.
  assert (I : InTxn s (run (pin_part (ran_all cs)) s) (own p)).
  { apply intxn_run_calls; [|exact Hok]. unfold start. cbn [own]. apply intxn_begin; [apply (i_norm s H Hw) | exact Hw]. }
  pose proof (it_dur _ _ _ I) as Hd. pose proof (it_lat _ _ _ I) as Hl.
  unfold commit_p, abort_p, drop_p. rewrite Hio. destruct (poisoned p); cbn [fst snd own abort_latched dur lat];
    repeat split; try reflexivity; assumption.
Qed.

(* ================================================================ corrupted reads: the extracted outcome test *)

(* whatever call of whatever kind fails by a corrupted read at whatever position the model allows, in a
   transaction that was not poisoned before: the pair (unreported part staged?, poisoned afterwards?) passes
   the extracted test the correspondence applies to the observed pair *)
Theorem corrupt_outcome_sound : forall c f p, cfail c = Some f -> fail_ok c f = true -> f_err f = ECorrupt ->
  poisoned p = false ->
  corrupt_outcome_ok (ck c) (staged_partial c f) (poisoned (exec c p)) = true.
Proof.
  intros c f p Hc Hok E Hp. unfold exec, exec_with. rewrite Hc. cbn [poisoned]. rewrite Hp. cbn [orb].
  destruct c as [k m cf]. destruct f as [pos e h l a]. cbn in E. subst e. cbn [ck] in *.
  unfold fail_ok in Hok. cbn [f_pos f_err f_lost f_armed ck micro] in Hok.
  rewrite !andb_true_iff in Hok. destruct Hok as [[[[_ Hco] Hl] Ha1] Ha2].
  destruct pos as [|[|pos]]; destruct h as [h|]; destruct l; destruct a; destruct k;
    try (cbn in Hco; discriminate Hco); try (cbn in Hl; discriminate Hl);
    try (cbn in Ha1; discriminate Ha1); try (cbn in Ha2; discriminate Ha2);
    vm_compute; reflexivity.
Qed.

Theorem corrupt_poison_sound : forall c f p, cfail c = Some f -> fail_ok c f = true -> f_err f = ECorrupt ->
  poisoned p = false -> corrupt_poison_ok (ck c) (poisoned (exec c p)) = true.
Proof.
  intros c f p Hc Hok E Hp. pose proof (corrupt_outcome_sound c f p Hc Hok E Hp) as H.
  unfold corrupt_poison_ok. destruct (staged_partial c f); rewrite H; [apply orb_true_r | reflexivity].
Qed.

(* ================================================================ the code before the PartialUpdateGuard *)

(* One committed data tree [1;2;3] (page 3: the leaf of a multimap key's subtree).  MultimapTable::insert on
   that key: the subtree is rewritten into the fresh page 4 and page 3 -- still named by the top-level entry --
   goes to the freed queue; then the second descent of the top-level tree hits a corrupted read.  With the
   guard (the code as it is) the transaction is poisoned: the commit is refused and the state restored.
   WITHOUT the guard (`poisons_unguarded`, the code before commit 90d01ff of /repo) nothing blocks the
   commit: it returns Ok and publishes a state in which page 3 is in the committed data tree but FREE in the
   allocator (its DATA_FREED record was processed by the post-commit epilogue: no reader pins it) and page 4
   is allocated but owned by nobody -- the property is false of that variant. *)
Definition w_hist : list op := [OBeginWrite; OMutData [1;2;3]%positive; OCommitDur [1;2;3]%positive [10;11]%positive [] false true].
Definition w_half : halfstep :=
  mkhalf [4%positive] [] (mkwv [1;2;3]%positive [10;11]%positive [3%positive] [] [] None []).
Definition w_calls : list call :=
  [ mkcall KMultimap [OMutData [1;2;4]%positive] (Some (mkfail 0 ECorrupt (Some w_half) false true)) ].
Definition w_commit : op := OCommitDur [1;2;3]%positive [10;12]%positive [] false true.

Theorem unguarded_multimap_refuted :
  let s := run w_hist init in
  Inv s /\ inw s = false /\ calls_ok w_calls (start s) /\ existsb partial_failed w_calls = true /\
  (* the code as it is *)
  commit_p w_commit (run_calls w_calls (start s)) = (mkptx (bump s) true false, CPoisoned) /\
  (* the variant without the guard *)
  let q := run_calls_with poisons_unguarded w_calls (start s) in
  blocked q = false /\ snd (commit_p w_commit q) = COk /\
  let s' := own (fst (commit_p w_commit q)) in
  own_checkb s' = false /\
  In 3%positive (vdata (lat s')) /\ ~ In 3%positive (alloc s') /\
  In 4%positive (alloc s') /\ ~ In 4%positive (owned_c s').
Proof.
  cbv zeta. split.
  { apply inv_reach; [apply inv_init|]. vm_compute. repeat split; reflexivity. }
  vm_compute. repeat split; try reflexivity; try (left; reflexivity); try (right; left; reflexivity);
    try (right; right; left; reflexivity).
  - intros H. repeat (destruct H as [H|H]; [discriminate H|]). exact H.
  - intros H. repeat (destruct H as [H|H]; [discriminate H|]). exact H.
Qed.

(* ================================================================ the code before c277127 (extract_if step unwinds) *)

(* extract_if over the committed tree [1;2;3]: the scan has allocated the fresh page 4 for a rebuilt leaf when a
   decoder (or a user compare) panics inside the step; the root was not swapped.  The code as it is poisons
   (an unwind out of a step counts like a predicate panic): commit refused, state restored.  The variant that
   only notices predicate panics commits Ok a state in which page 4 is allocated and owned by nobody. *)
Definition x_half : halfstep :=
  mkhalf [4%positive] [] (mkwv [1;2;3]%positive [10;11]%positive [] [] [] None []).
Definition x_calls : list call :=
  [ mkcall KExtract [OMutData [1;2;4]%positive] (Some (mkfail 0 EPanic (Some x_half) false false)) ].

Theorem unguarded_extract_unwind_refuted :
  let s := run w_hist init in
  Inv s /\ inw s = false /\ calls_ok x_calls (start s) /\ existsb partial_failed x_calls = true /\
  commit_p w_commit (run_calls x_calls (start s)) = (mkptx (bump s) true false, CPoisoned) /\
  let q := run_calls_with poisons_step_unwind_unguarded x_calls (start s) in
  blocked q = false /\ snd (commit_p w_commit q) = COk /\
  let s' := own (fst (commit_p w_commit q)) in
  own_checkb s' = false /\ In 4%positive (alloc s') /\ ~ In 4%positive (owned_c s').
Proof.
  cbv zeta. split.
  { apply inv_reach; [apply inv_init|]. vm_compute. repeat split; reflexivity. }
  vm_compute. repeat split; try reflexivity; try (left; reflexivity); try (right; left; reflexivity);
    try (right; right; left; reflexivity).
  intros H. repeat (destruct H as [H|H]; [discriminate H|]). exact H.
Qed.
