(* Proofs about the list/PositiveSet toolkit of PSet.v *)
From Coq Require Import List PArith NArith Bool MSets.MSetPositive Permutation Lia.
From RV Require Import Txn.PSet.
Import ListNotations.

Lemma mkset_spec : forall l p, PS.mem p (mkset l) = true <-> In p l.
Proof.
  induction l as [|a l IH]; intros p; simpl.
  - split; [intros H; discriminate | tauto].
  - rewrite PS.mem_spec, PS.add_spec, <- PS.mem_spec, IH. intuition congruence.
Qed.

Lemma mkset_false : forall l p, PS.mem p (mkset l) = false <-> ~ In p l.
Proof.
  intros l p. rewrite <- mkset_spec. destruct (PS.mem p (mkset l)); intuition congruence.
Qed.

Lemma In_minus : forall l x p, In p (minus l x) <-> In p l /\ ~ In p x.
Proof.
  intros l x p. unfold minus. rewrite filter_In, negb_true_iff, mkset_false. tauto.
Qed.

Lemma In_inter : forall l x p, In p (inter l x) <-> In p l /\ In p x.
Proof.
  intros l x p. unfold inter. rewrite filter_In, mkset_spec. tauto.
Qed.

Lemma NoDup_minus : forall l x, NoDup l -> NoDup (minus l x).
Proof. intros. apply NoDup_filter; assumption. Qed.

Lemma NoDup_inter : forall l x, NoDup l -> NoDup (inter l x).
Proof. intros. apply NoDup_filter; assumption. Qed.

Lemma minus_app : forall a b x, minus (a ++ b) x = minus a x ++ minus b x.
Proof. intros. unfold minus. apply filter_app. Qed.

Lemma minus_nil_r : forall l, minus l [] = l.
Proof.
  intros l. unfold minus. simpl. induction l as [|a l IH]; simpl; [reflexivity|].
  rewrite IH. reflexivity.
Qed.

Lemma filter_split_perm : forall (A : Type) (f : A -> bool) (l : list A),
  Permutation l (filter f l ++ filter (fun x => negb (f x)) l).
Proof.
  induction l as [|a l IH]; simpl; [constructor|].
  destruct (f a); simpl.
  - constructor. exact IH.
  - eapply Permutation_trans; [constructor; exact IH|]. apply Permutation_middle.
Qed.

Lemma perm_split : forall l x, Permutation l (inter l x ++ minus l x).
Proof. intros. unfold inter, minus. apply filter_split_perm. Qed.

(* ---- boolean checkers ---- *)

Lemma nodup_acc_sound : forall l seen,
  nodup_acc l seen = true -> NoDup l /\ (forall p, In p l -> PS.mem p seen = false).
Proof.
  induction l as [|a l IH]; intros seen H; simpl in *.
  - split; [constructor | tauto].
  - destruct (PS.mem a seen) eqn:E; [discriminate|].
    apply IH in H. destruct H as [Hnd Hs]. split.
    + constructor; [|exact Hnd]. intros Hin. apply Hs in Hin.
      assert (PS.mem a (PS.add a seen) = true) by (rewrite PS.mem_spec, PS.add_spec; auto).
      congruence.
    + intros p [->|Hin]; [exact E|].
      apply Hs in Hin. destruct (PS.mem p seen) eqn:E2; [|reflexivity].
      assert (PS.mem p (PS.add a seen) = true)
        by (rewrite PS.mem_spec, PS.add_spec; right; rewrite <- PS.mem_spec; exact E2).
      congruence.
Qed.

Lemma nodupb_sound : forall l, nodupb l = true -> NoDup l.
Proof. intros l H. apply nodup_acc_sound in H. tauto. Qed.

Lemma nodup_acc_complete : forall l seen,
  NoDup l -> (forall p, In p l -> PS.mem p seen = false) -> nodup_acc l seen = true.
Proof.
  induction l as [|a l IH]; intros seen Hnd Hs; simpl; [reflexivity|].
  inversion Hnd; subst. rewrite (Hs a (or_introl eq_refl)).
  apply IH; [assumption|]. intros p Hin.
  destruct (PS.mem p (PS.add a seen)) eqn:E; [|reflexivity].
  rewrite PS.mem_spec, PS.add_spec in E. destruct E as [->|E]; [contradiction|].
  rewrite <- PS.mem_spec in E. rewrite (Hs p (or_intror Hin)) in E. discriminate.
Qed.

Lemma nodupb_complete : forall l, NoDup l -> nodupb l = true.
Proof. intros. apply nodup_acc_complete; [assumption|]. intros. reflexivity. Qed.

Lemma inclb_spec : forall l x, inclb l x = true <-> incl l x.
Proof.
  intros l x. unfold inclb, incl. rewrite forallb_forall.
  split; intros H p Hp; specialize (H p Hp); apply mkset_spec; exact H.
Qed.

Lemma disjb_spec : forall l x, disjb l x = true <-> disjoint l x.
Proof.
  intros l x. unfold disjb, disjoint. rewrite forallb_forall.
  split; intros H p Hp; specialize (H p Hp).
  - rewrite negb_true_iff in H. apply mkset_false. exact H.
  - rewrite negb_true_iff. apply mkset_false. exact H.
Qed.

Lemma seteqb_spec : forall a b, seteqb a b = true <-> seteq a b.
Proof.
  intros a b. unfold seteqb, seteq. rewrite andb_true_iff, !inclb_spec. unfold incl.
  split.
  - intros [H1 H2] p. split; auto.
  - intros H. split; intros p; apply H.
Qed.

Lemma acctb_sound : forall a o, acctb a o = true -> Acct a o.
Proof.
  intros a o H. unfold acctb in H. apply andb_true_iff in H. destruct H as [H1 H2].
  split; [apply nodupb_sound; exact H1 | apply seteqb_spec; exact H2].
Qed.

Lemma acctb_complete : forall a o, Acct a o -> acctb a o = true.
Proof.
  intros a o [H1 H2]. unfold acctb. rewrite (nodupb_complete _ H1). simpl.
  apply seteqb_spec. exact H2.
Qed.

(* ---- NoDup / app ---- *)

Lemma NoDup_app_iff : forall (a b : list page),
  NoDup (a ++ b) <-> NoDup a /\ NoDup b /\ disjoint a b.
Proof.
  induction a as [|x a IH]; intros b; simpl.
  - unfold disjoint. split; [intros H; repeat split; [constructor | exact H | intros p []] | tauto].
  - split.
    + intros H. inversion H as [|? ? Hn Hd]; subst. apply IH in Hd. destruct Hd as (Ha & Hb & Hdis).
      rewrite in_app_iff in Hn. repeat split.
      * constructor; tauto.
      * exact Hb.
      * intros p [->|Hp]; [tauto | apply Hdis; exact Hp].
    + intros (Ha & Hb & Hdis). inversion Ha; subst. constructor.
      * rewrite in_app_iff. intros [H|H]; [contradiction | exact (Hdis x (or_introl eq_refl) H)].
      * apply IH. repeat split; try assumption. intros p Hp. apply Hdis. right. exact Hp.
Qed.

Lemma disjoint_sym : forall a b, disjoint a b -> disjoint b a.
Proof. unfold disjoint. intros a b H p Hb Ha. exact (H p Ha Hb). Qed.

Lemma disjoint_app_l : forall a b c, disjoint (a ++ b) c <-> disjoint a c /\ disjoint b c.
Proof.
  unfold disjoint. intros. split.
  - intros H. split; intros p Hp; apply H; rewrite in_app_iff; tauto.
  - intros [H1 H2] p Hp. rewrite in_app_iff in Hp. destruct Hp; auto.
Qed.

Lemma disjoint_app_r : forall a b c, disjoint c (a ++ b) <-> disjoint c a /\ disjoint c b.
Proof.
  unfold disjoint. intros. split.
  - intros H. split; intros p Hp Hq; apply (H p Hp); rewrite in_app_iff; tauto.
  - intros [H1 H2] p Hp Hq. rewrite in_app_iff in Hq. destruct Hq; [eapply H1 | eapply H2]; eauto.
Qed.

Lemma disjoint_incl_l : forall a a' b, incl a' a -> disjoint a b -> disjoint a' b.
Proof. unfold disjoint, incl. intros. auto. Qed.

Lemma disjoint_incl_r : forall a b b', incl b' b -> disjoint a b -> disjoint a b'.
Proof. unfold disjoint, incl. intros a b b' Hi H p Ha Hb. exact (H p Ha (Hi p Hb)). Qed.

Lemma disjoint_nil_l : forall a, disjoint [] a.
Proof. intros a p []. Qed.

Lemma disjoint_nil_r : forall a, disjoint a [].
Proof. intros a p _ []. Qed.

(* ---- accounting ---- *)

Lemma seteq_refl : forall a, seteq a a.
Proof. intros a p. tauto. Qed.

Lemma seteq_sym : forall a b, seteq a b -> seteq b a.
Proof. intros a b H p. symmetry. apply H. Qed.

Lemma seteq_trans : forall a b c, seteq a b -> seteq b c -> seteq a c.
Proof. intros a b c H1 H2 p. rewrite (H1 p). apply H2. Qed.

Lemma perm_seteq : forall a b : list page, Permutation a b -> seteq a b.
Proof.
  intros a b H p. split; intros Hp.
  - eapply Permutation_in; eauto.
  - eapply Permutation_in; [apply Permutation_sym|]; eauto.
Qed.

Lemma acct_perm : forall a o o', Permutation o o' -> Acct a o -> Acct a o'.
Proof.
  intros a o o' Hp [Hnd Heq]. split.
  - eapply Permutation_NoDup; eauto.
  - eapply seteq_trans; [exact Heq | apply perm_seteq; exact Hp].
Qed.

Lemma acct_seteq_l : forall a a' o, seteq a' a -> Acct a o -> Acct a' o.
Proof. intros a a' o H [Hnd Heq]. split; [exact Hnd | eapply seteq_trans; eauto]. Qed.

Lemma acct_add : forall A a o,
  NoDup A -> disjoint A a -> Acct a o -> Acct (A ++ a) (A ++ o).
Proof.
  intros A a o HA Hd [Hnd Heq]. split.
  - apply NoDup_app_iff. repeat split; try assumption.
    intros p Hp Ho. apply (Hd p Hp). apply Heq. exact Ho.
  - intros p. rewrite !in_app_iff, (Heq p). tauto.
Qed.

Lemma acct_minus : forall a o x, Acct a o -> Acct (minus a x) (minus o x).
Proof.
  intros a o x [Hnd Heq]. split.
  - apply NoDup_minus. exact Hnd.
  - intros p. rewrite !In_minus, (Heq p). tauto.
Qed.

Lemma acct_incl : forall a o x, Acct a o -> incl x o -> incl x a.
Proof. intros a o x [_ Heq] H p Hp. apply Heq. apply H. exact Hp. Qed.

(* ---- tables ---- *)

Lemma flat_app : forall a b, flat (a ++ b) = flat a ++ flat b.
Proof. intros. unfold flat. rewrite map_app, concat_app. reflexivity. Qed.

Lemma flat_cons : forall k ps t, flat ((k, ps) :: t) = ps ++ flat t.
Proof. reflexivity. Qed.

Lemma In_flat : forall t p, In p (flat t) <-> exists e, In e t /\ In p (snd e).
Proof.
  intros t p. unfold flat. rewrite in_concat. split.
  - intros (l & Hl & Hp). apply in_map_iff in Hl. destruct Hl as (e & <- & He). eauto.
  - intros (e & He & Hp). exists (snd e). split; [apply in_map; exact He | exact Hp].
Qed.

Lemma flat_filter_split : forall (f : N * list page -> bool) t,
  Permutation (flat t) (flat (filter f t) ++ flat (filter (fun e => negb (f e)) t)).
Proof.
  intros f. induction t as [|[k ps] t IH]; simpl; [constructor|].
  rewrite flat_cons. destruct (f (k, ps)); simpl; rewrite flat_cons.
  - rewrite <- app_assoc. apply Permutation_app_head. exact IH.
  - eapply Permutation_trans; [apply Permutation_app_head; exact IH|].
    rewrite !app_assoc. apply Permutation_app_tail. apply Permutation_app_comm.
Qed.

Lemma flat_keys_split : forall h t,
  Permutation (flat t) (flat (keys_lt h t) ++ flat (keys_ge h t)).
Proof. intros. apply flat_filter_split. Qed.

Lemma flat_late_split : forall r t,
  Permutation (flat t) (flat (late r t) ++ flat (early r t)).
Proof. intros. apply flat_filter_split. Qed.

Lemma flat_add_entry : forall k ps t, flat (add_entry k ps t) = flat t ++ ps.
Proof.
  intros k ps t. destruct ps as [|p ps]; simpl.
  - rewrite app_nil_r. reflexivity.
  - rewrite flat_app. unfold flat at 2. simpl. rewrite app_nil_r. reflexivity.
Qed.

Lemma incl_flat_filter : forall (f : N * list page -> bool) t, incl (flat (filter f t)) (flat t).
Proof.
  intros f t p Hp. apply In_flat in Hp. destruct Hp as (e & He & Hp).
  apply filter_In in He. apply In_flat. exists e. tauto.
Qed.

Lemma In_keys_add_entry : forall k ps t e, In e (add_entry k ps t) -> In e t \/ e = (k, ps).
Proof.
  intros k ps t e H. destruct ps; simpl in H; [left; exact H|].
  apply in_app_iff in H. destruct H as [H|[H|[]]]; auto.
Qed.

Lemma flat_tab_minus_gen : forall (sx : PS.t) t,
  flat (filter (fun e => negb (nilb (snd e)))
          (map (fun e => (fst e, filter (fun p => negb (PS.mem p sx)) (snd e))) t))
  = filter (fun p => negb (PS.mem p sx)) (flat t).
Proof.
  intros sx. induction t as [|[k ps] t IH]; [reflexivity|].
  rewrite flat_cons, filter_app, <- IH. cbn [map filter fst snd].
  destruct (filter (fun p => negb (PS.mem p sx)) ps) eqn:E; cbn [nilb negb snd]; [reflexivity|].
  rewrite flat_cons. reflexivity.
Qed.

Lemma flat_tab_minus : forall t x, flat (tab_minus t x) = minus (flat t) x.
Proof. intros. unfold tab_minus, minus. apply flat_tab_minus_gen. Qed.

Lemma tab_minus_keys : forall t x e, In e (tab_minus t x) ->
  exists e0, In e0 t /\ fst e0 = fst e /\ incl (snd e) (snd e0).
Proof.
  intros t x e H. unfold tab_minus in H. apply filter_In in H. destruct H as [H _].
  apply in_map_iff in H. destruct H as (e0 & <- & H0). exists e0. simpl.
  repeat split; try assumption. intros p Hp. apply filter_In in Hp. tauto.
Qed.
