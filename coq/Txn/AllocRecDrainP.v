(* C06/C07 no-leak: from any state of the page-ownership machine in which no reader and no savepoint is left,
   three durable commits that change no data (quick-repair off, post-commit free on) leave every pending-free
   table and the allocation records empty, and allocated = pages(data tree) + pages(system tree).
   (Three, not two: the first commit's epilogue may record the system pages it unlinked under a non-durable id,
   which holds its durable ancestor through the second commit.) *)
From Coq Require Import List PArith NArith Bool MSets.MSetPositive Permutation Lia.
From RV Require Import Txn.PSet Txn.PSetP Txn.Own Txn.OwnP Txn.OwnStepP Txn.OwnCommitP Txn.OwnThmP Txn.AllocRec.
From RV Require Import Txn.AllocRecBaseP Txn.AllocRecP.
Import ListNotations.
Open Scope N_scope.

Lemma minus_self : forall l, minus l l = [].
Proof.
  intros l. unfold minus. destruct (filter (fun p => negb (PS.mem p (mkset l))) l) as [|p t] eqn:E; [reflexivity|].
  assert (Hin : In p (filter (fun p => negb (PS.mem p (mkset l))) l)) by (rewrite E; left; reflexivity).
  apply filter_In in Hin. destruct Hin as [Hin Hm]. apply negb_true_iff in Hm. apply mkset_false in Hm. contradiction.
Qed.

Lemma keys_lt_all : forall b k (t : ftab), keys_le b t -> b < k -> keys_lt k t = t /\ keys_ge k t = [].
Proof.
  intros b k t. unfold keys_lt, keys_ge. induction t as [|e t IH]; intros Hk Hb; [split; reflexivity|].
  assert (He : fst e <= b) by (apply Hk; left; reflexivity).
  assert (Hk' : keys_le b t) by (intros e' He'; apply Hk; right; exact He').
  destruct (IH Hk' Hb) as [I1 I2]. simpl. assert (E : (fst e <? k) = true) by (apply N.ltb_lt; lia).
  rewrite E. simpl. rewrite I1, I2. split; reflexivity.
Qed.

Lemma keys_le_ge : forall b h (t : ftab), keys_le b t -> keys_le b (keys_ge h t).
Proof. intros. apply keys_le_filter. assumption. Qed.

Definition qhorizon (s : st) : N := match minN (map snd (pend s)) with Some m => m + 1 | None => lastid s + 1 end.

(* the shape of the state after such a commit *)
Lemma qcommit_shape : forall Sd So s, quiet s ->
  let s' := qcommit Sd So s in
  let T := keys_ge (qhorizon s) (dfreed s ++ ufreed s) in
  inw s' = false /\ pins s' = [] /\ ufreed s' = [] /\ vdata (lat s') = vdata (lat s) /\
  (flat (keys_lt (lastid s + 2) T) = [] ->
     pend s' = [] /\ unpers s' = [] /\ dfreed s' = T /\ sfreed s' = keys_ge (qhorizon s) (sfreed s) /\
     vid (lat s') = lastid s + 1 /\ lastid s' = lastid s + 1) /\
  (flat (keys_lt (lastid s + 2) T) <> [] -> dfreed s' = keys_ge (lastid s + 2) T).
Proof.
  intros Sd So s (H & Hw & Hp) s' T.
  destruct (i_norm s H Hw) as (N1 & N2 & N3 & N4 & N5 & N6 & N7 & N8 & N9).
  subst s' T. unfold qcommit, qhorizon.
  destruct s as [al li du la df sf uf un pc pn pe iw wd ws wa wf wsf wdf wr wc wdl].
  cbn [alloc lastid dur lat dfreed sfreed ufreed unpers pca pins pend inw wdata wsys wasc wdfr wsfr wdfreed wrest wcreated wdeleted] in *.
  subst. unfold begin_write. cbn [inw].
  unfold commit_dur, commit_dur_mid, commit_dur_pre. cbv zeta.
  unfold c_restored, eff_ufreed. cbn [alloc lastid dur lat dfreed sfreed ufreed unpers pca pins pend inw wdata wsys wasc wdfr wsfr wdfreed wrest wcreated wdeleted].
  unfold mut_data. cbn [alloc lastid dur lat dfreed sfreed ufreed unpers pca pins pend inw wdata wsys wasc wdfr wsfr wdfreed wrest wcreated wdeleted].
  rewrite minus_self. cbn [inter filter app]. change (minus [] []) with (@nil positive).
  unfold c_adopt, c_store_dfreed. cbn [alloc lastid dur lat dfreed sfreed ufreed unpers pca pins pend inw wdata wsys wasc wdfr wsfr wdfreed wrest wcreated wdeleted add_entry app].
  unfold c_drain, horizon, live_ids. cbn [alloc lastid dur lat dfreed sfreed ufreed unpers pca pins pend inw wdata wsys wasc wdfr wsfr wdfreed wrest wcreated wdeleted map app].
  set (h := match minN (map snd pe) with Some m => m + 1 | None => li + 1 end).
  unfold mut_sys. cbn [alloc lastid dur lat dfreed sfreed ufreed unpers pca pins pend inw wdata wsys wasc wdfr wsfr wdfreed wrest wcreated wdeleted vid vdata vsys map app remove_pins filter minN andb add_entry].
  unfold c_publish_dur. cbn [alloc lastid dur lat dfreed sfreed ufreed unpers pca pins pend inw wdata wsys wasc wdfr wsfr wdfreed wrest wcreated wdeleted vid vdata vsys map app remove_pins filter minN andb add_entry].
  unfold c_post_free. cbn [alloc lastid dur lat dfreed sfreed ufreed unpers pca pins pend inw wdata wsys wasc wdfr wsfr wdfreed wrest wcreated wdeleted vid vdata vsys map app remove_pins filter minN andb add_entry].
  unfold c_apply_sp. cbn [alloc lastid dur lat dfreed sfreed ufreed unpers pca pins pend inw wdata wsys wasc wdfr wsfr wdfreed wrest wcreated wdeleted vid vdata vsys map app remove_pins filter minN andb add_entry].
  unfold c_epilogue, epilogue_runs, horizon, live_ids. cbn [alloc lastid dur lat dfreed sfreed ufreed unpers pca pins pend inw wdata wsys wasc wdfr wsfr wdfreed wrest wcreated wdeleted vid vdata vsys map app remove_pins filter minN andb add_entry].
  replace (li + 1 + 1) with (li + 2) by lia.
  destruct (nilb (flat (keys_lt (li + 2) (keys_ge h (df ++ uf))))) eqn:En; cbn [negb].
  - unfold finish, reset_w. cbn [alloc lastid dur lat dfreed sfreed ufreed unpers pca pins pend inw wdata wsys wasc wdfr wsfr wdfreed wrest wcreated wdeleted vid vdata vsys].
    do 4 (split; [reflexivity|]). split.
    + intros _. repeat split; reflexivity.
    + intros Hne. exfalso. apply Hne. destruct (flat (keys_lt (li + 2) (keys_ge h (df ++ uf)))); [reflexivity | discriminate].
  - unfold e_drain, horizon, live_ids. cbn [alloc lastid dur lat dfreed sfreed ufreed unpers pca pins pend inw wdata wsys wasc wdfr wsfr wdfreed wrest wcreated wdeleted vid vdata vsys map app remove_pins filter minN andb add_entry].
    unfold mut_sys. cbn [alloc lastid dur lat dfreed sfreed ufreed unpers pca pins pend inw wdata wsys wasc wdfr wsfr wdfreed wrest wcreated wdeleted vid vdata vsys map app remove_pins filter minN andb add_entry].
    unfold c_store_sfreed. cbn [alloc lastid dur lat dfreed sfreed ufreed unpers pca pins pend inw wdata wsys wasc wdfr wsfr wdfreed wrest wcreated wdeleted vid vdata vsys map app remove_pins filter minN andb add_entry].
    unfold e_publish. cbn [alloc lastid dur lat dfreed sfreed ufreed unpers pca pins pend inw wdata wsys wasc wdfr wsfr wdfreed wrest wcreated wdeleted vid vdata vsys map app remove_pins filter minN andb add_entry].
    unfold finish, reset_w. cbn [alloc lastid dur lat dfreed sfreed ufreed unpers pca pins pend inw wdata wsys wasc wdfr wsfr wdfreed wrest wcreated wdeleted vid vdata vsys map app remove_pins filter minN andb add_entry].
    replace (li + 1 + 1) with (li + 2) by lia.
    do 4 (split; [reflexivity|]). split.
    + intros Hnil. rewrite Hnil in En. discriminate.
    + intros _. reflexivity.
Qed.

Lemma quiet_qcommit : forall Sd So s, quiet s -> qok Sd So s -> quiet (qcommit Sd So s).
Proof.
  intros Sd So s Q Hok. pose proof Q as (H & Hw & Hp).
  destruct (qcommit_shape Sd So s Q) as (Hw' & Hp' & _).
  split; [|split; assumption]. unfold qcommit.
  apply inv_commit_dur; [apply inv_begin_write; assumption | exact Hok].
Qed.

Lemma quiet_keys : forall s, quiet s ->
  keys_le (lastid s) (dfreed s ++ ufreed s) /\ keys_le (lastid s) (sfreed s).
Proof.
  intros s (H & _ & _). destruct (i_keys s H) as (Kd & Ks & Ku & _). destruct (i_ids s H) as (_ & Il & _).
  split; [apply keys_le_app|]; eapply keys_le_mono; eassumption.
Qed.

(* first commit: DATA_FREED and the unpersisted freed records are gone (the epilogue drains what the commit
   itself may not yet free) *)
Lemma qcommit_A : forall Sd So s, quiet s ->
  flat (dfreed (qcommit Sd So s)) = [] /\ ufreed (qcommit Sd So s) = [] /\
  vdata (lat (qcommit Sd So s)) = vdata (lat s).
Proof.
  intros Sd So s Q. destruct (qcommit_shape Sd So s Q) as (_ & _ & Hu & Hv & Hnil & Hne).
  destruct (quiet_keys s Q) as [Kd _].
  set (T := keys_ge (qhorizon s) (dfreed s ++ ufreed s)) in *.
  assert (KT : keys_le (lastid s) T) by (apply keys_le_ge; exact Kd).
  destruct (keys_lt_all (lastid s) (lastid s + 2) T KT ltac:(lia)) as [E1 E2].
  split; [|split; assumption].
  destruct (flat (keys_lt (lastid s + 2) T)) eqn:E.
  - destruct (Hnil eq_refl) as (_ & _ & Hd & _). rewrite Hd. rewrite E1 in E. exact E.
  - rewrite Hne by discriminate. rewrite E2. reflexivity.
Qed.

(* second commit: nothing is left for the epilogue, so no non-durable commit is pending afterwards *)
Lemma qcommit_B : forall Sd So s, quiet s -> flat (dfreed s) = [] -> ufreed s = [] ->
  pend (qcommit Sd So s) = [] /\ unpers (qcommit Sd So s) = [] /\ flat (dfreed (qcommit Sd So s)) = [] /\
  ufreed (qcommit Sd So s) = [] /\ vdata (lat (qcommit Sd So s)) = vdata (lat s).
Proof.
  intros Sd So s Q Hd Hu. destruct (qcommit_shape Sd So s Q) as (_ & _ & Hu' & Hv & Hnil & _).
  set (T := keys_ge (qhorizon s) (dfreed s ++ ufreed s)) in *.
  assert (HT : flat T = []).
  { subst T. unfold keys_ge. apply flat_nil_filter. rewrite Hu, app_nil_r. exact Hd. }
  assert (HT2 : flat (keys_lt (lastid s + 2) T) = []) by (unfold keys_lt; apply flat_nil_filter; exact HT).
  destruct (Hnil HT2) as (Hp & Hun & Hdf & _). rewrite Hdf. repeat split; assumption.
Qed.

(* third commit: with no live id left the horizon is the committing transaction: SYSTEM_FREED drains too *)
Lemma qcommit_C : forall Sd So s, quiet s -> pend s = [] -> flat (dfreed s) = [] -> ufreed s = [] ->
  pend (qcommit Sd So s) = [] /\ unpers (qcommit Sd So s) = [] /\ flat (dfreed (qcommit Sd So s)) = [] /\
  ufreed (qcommit Sd So s) = [] /\ sfreed (qcommit Sd So s) = [] /\ vdata (lat (qcommit Sd So s)) = vdata (lat s).
Proof.
  intros Sd So s Q Hpe Hd Hu. destruct (qcommit_shape Sd So s Q) as (_ & _ & Hu' & Hv & Hnil & _).
  destruct (quiet_keys s Q) as [_ Ks].
  set (T := keys_ge (qhorizon s) (dfreed s ++ ufreed s)) in *.
  assert (HT : flat T = []).
  { subst T. unfold keys_ge. apply flat_nil_filter. rewrite Hu, app_nil_r. exact Hd. }
  assert (HT2 : flat (keys_lt (lastid s + 2) T) = []) by (unfold keys_lt; apply flat_nil_filter; exact HT).
  destruct (Hnil HT2) as (Hp & Hun & Hdf & Hsf & _).
  assert (Hq : qhorizon s = lastid s + 1) by (unfold qhorizon; rewrite Hpe; reflexivity).
  rewrite Hq in Hsf. destruct (keys_lt_all (lastid s) (lastid s + 1) (sfreed s) Ks ltac:(lia)) as [_ E2].
  rewrite E2 in Hsf. rewrite Hdf. repeat split; assumption.
Qed.

(* bounded_storage / savepoint_no_leak on the ownership machine *)
Theorem bounded_storage : forall Sd1 So1 Sd2 So2 Sd3 So3 s, quiet s ->
  let s1 := qcommit Sd1 So1 s in let s2 := qcommit Sd2 So2 s1 in let s3 := qcommit Sd3 So3 s2 in
  qok Sd1 So1 s -> qok Sd2 So2 s1 -> qok Sd3 So3 s2 ->
  NoDup (alloc s3) /\ (forall p, In p (alloc s3) <-> In p (vdata (lat s3) ++ vsys (lat s3))) /\
  flat (dfreed s3) = [] /\ sfreed s3 = [] /\ ufreed s3 = [] /\ unpers s3 = [] /\ pend s3 = [] /\ pins s3 = [] /\
  inw s3 = false /\ vdata (lat s3) = vdata (lat s).
Proof.
  intros Sd1 So1 Sd2 So2 Sd3 So3 s Q s1 s2 s3 O1 O2 O3.
  pose proof (quiet_qcommit _ _ _ Q O1) as Q1. fold s1 in Q1.
  pose proof (quiet_qcommit _ _ _ Q1 O2) as Q2. fold s2 in Q2.
  pose proof (quiet_qcommit _ _ _ Q2 O3) as Q3. fold s3 in Q3.
  destruct (qcommit_A Sd1 So1 s Q) as (A1 & A2 & A3). fold s1 in A1, A2, A3.
  destruct (qcommit_B Sd2 So2 s1 Q1 A1 A2) as (B1 & B2 & B3 & B4 & B5). fold s2 in B1, B2, B3, B4, B5.
  destruct (qcommit_C Sd3 So3 s2 Q2 B1 B3 B4) as (C1 & C2 & C3 & C4 & C5 & C6). fold s3 in C1, C2, C3, C4, C5, C6.
  destruct Q3 as (H3 & Hw3 & Hp3).
  destruct (no_leak s3 H3 Hw3) as (Nd & _ & Heq).
  split; [exact Nd|]. split.
  - intro p. rewrite (Heq p). unfold owned_c. rewrite C3, C4, C5. cbn [flat map concat]. rewrite !app_nil_r. tauto.
  - repeat split; try assumption. congruence.
Qed.

(* ---------------------------------------------------------------- with the records, at the level of operations *)

Lemma valid_nil_of_pins : forall x, Inv2 x -> pins (fst x) = [] -> valid (snd x) = [].
Proof.
  intros [s r] [_ [[HC _] _]] Hp. cbn [fst snd] in *. destruct (valid r) as [|e v] eqn:E; [reflexivity|].
  destruct (ro_v1 s r HC e) as (y & Hy & _); [rewrite E; left; reflexivity|]. rewrite Hp in Hy. destruct Hy.
Qed.

Lemma r_track_valid : forall D' s r, valid (r_track D' s r) = valid r.
Proof. intros. unfold r_track. destruct (trk_on r); reflexivity. Qed.

Lemma r_commit_dur_novalid : forall D' s r, valid r = [] ->
  dalloc (r_commit_dur D' s r) = [] /\ ualloc (r_commit_dur D' s r) = [] /\ valid (r_commit_dur D' s r) = [].
Proof.
  intros D' s r Hv. unfold r_commit_dur, r_reset, r_apply_sp, r_dur_pre, r_flush, set_valid, set_ualloc. cbv zeta.
  cbn [dalloc ualloc trk trk_on dirty valid winval]. rewrite r_track_valid, Hv.
  unfold oldest_excl, valid_minus. cbn [filter]. repeat split; reflexivity.
Qed.

Lemma step2_bw_valid : forall x, valid (snd (step2 x OBeginWrite)) = valid (snd x).
Proof. intros [s r]. cbn [step2 fst snd]. unfold r_begin_write. destruct (inw s); reflexivity. Qed.

Lemma step2_cd_novalid : forall x D Sd So qr pcf, valid (snd x) = [] ->
  dalloc (snd (step2 x (OCommitDur D Sd So qr pcf))) = [] /\ ualloc (snd (step2 x (OCommitDur D Sd So qr pcf))) = [] /\
  valid (snd (step2 x (OCommitDur D Sd So qr pcf))) = [].
Proof. intros [s r] D Sd So qr pcf Hv. cbn [step2 fst snd] in *. apply r_commit_dur_novalid. exact Hv. Qed.

Theorem savepoint_no_leak : forall Sd1 So1 Sd2 So2 Sd3 So3 x, Inv2 x -> inw (fst x) = false -> pins (fst x) = [] ->
  let sched := no_leak_schedule (vdata (lat (fst x))) Sd1 So1 Sd2 So2 Sd3 So3 in
  admissible2 x sched ->
  let x' := run2 sched x in
  NoDup (alloc (fst x')) /\ (forall p, In p (alloc (fst x')) <-> In p (vdata (lat (fst x')) ++ vsys (lat (fst x')))) /\
  flat (dfreed (fst x')) = [] /\ sfreed (fst x') = [] /\ ufreed (fst x') = [] /\ unpers (fst x') = [] /\
  pend (fst x') = [] /\ vdata (lat (fst x')) = vdata (lat (fst x)) /\
  dalloc (snd x') = [] /\ ualloc (snd x') = [] /\ valid (snd x') = [].
Proof.
  intros Sd1 So1 Sd2 So2 Sd3 So3 [s r] Hx Hw Hp sched Ha x'. cbn [fst snd] in *.
  pose proof (valid_nil_of_pins (s, r) Hx Hp) as Hv. cbn [snd] in Hv.
  pose proof Hx as [H0 _]. cbn [fst] in H0.
  assert (Q : quiet s) by (split; [exact H0 | split; assumption]).
  subst sched. unfold no_leak_schedule in *. cbn [admissible2] in Ha.
  destruct Ha as (_ & Ha1 & _ & Ha2 & _ & Ha3 & _).
  apply oracle_ok2_ok in Ha1. apply oracle_ok2_ok in Ha2. apply oracle_ok2_ok in Ha3.
  cbn [step2 fst snd step oracle_ok] in Ha1, Ha2, Ha3.
  set (D := vdata (lat s)) in *.
  set (s1 := qcommit Sd1 So1 s).
  destruct (qcommit_A Sd1 So1 s Q) as (_ & _ & E1). fold s1 in E1.
  assert (F1 : commit_dur D Sd1 So1 false true (begin_write s) = s1) by reflexivity.
  rewrite F1 in Ha2, Ha3.
  assert (O1 : qok Sd1 So1 s) by exact Ha1.
  pose proof (quiet_qcommit _ _ _ Q O1) as Q1. fold s1 in Q1.
  assert (O2 : qok Sd2 So2 s1) by (unfold qok; rewrite E1; exact Ha2).
  set (s2 := qcommit Sd2 So2 s1).
  destruct (qcommit_A Sd2 So2 s1 Q1) as (_ & _ & E2). fold s2 in E2.
  assert (F2 : commit_dur D Sd2 So2 false true (begin_write s1) = s2) by (unfold s2, qcommit; rewrite E1; reflexivity).
  rewrite F2 in Ha3.
  assert (O3 : qok Sd3 So3 s2) by (unfold qok; rewrite E2, E1; exact Ha3).
  destruct (bounded_storage Sd1 So1 Sd2 So2 Sd3 So3 s Q O1 O2 O3)
    as (B1 & B2 & B3 & B4 & B5 & B6 & B7 & B8 & B9 & B10).
  fold s1 in B1, B2, B3, B4, B5, B6, B7, B8, B9, B10. fold s2 in B1, B2, B3, B4, B5, B6, B7, B8, B9, B10.
  set (s3 := qcommit Sd3 So3 s2) in *.
  assert (F3 : commit_dur D Sd3 So3 false true (begin_write s2) = s3) by (unfold s3, qcommit; rewrite E2, E1; reflexivity).
  assert (Ex : fst x' = s3).
  { subst x'. cbn [run2 fold_left step2 fst snd step]. rewrite F1, F2, F3. reflexivity. }
  rewrite Ex.
  assert (R : dalloc (snd x') = [] /\ ualloc (snd x') = [] /\ valid (snd x') = []).
  { subst x'. unfold run2. cbn [fold_left].
    set (x1 := step2 (s, r) OBeginWrite).
    assert (V1 : valid (snd x1) = []) by (unfold x1; rewrite step2_bw_valid; exact Hv).
    set (x2 := step2 x1 (OCommitDur D Sd1 So1 false true)).
    destruct (step2_cd_novalid x1 D Sd1 So1 false true V1) as (_ & _ & V2). fold x2 in V2.
    set (x3 := step2 x2 OBeginWrite).
    assert (V3 : valid (snd x3) = []) by (unfold x3; rewrite step2_bw_valid; exact V2).
    set (x4 := step2 x3 (OCommitDur D Sd2 So2 false true)).
    destruct (step2_cd_novalid x3 D Sd2 So2 false true V3) as (_ & _ & V4). fold x4 in V4.
    set (x5 := step2 x4 OBeginWrite).
    assert (V5 : valid (snd x5) = []) by (unfold x5; rewrite step2_bw_valid; exact V4).
    exact (step2_cd_novalid x5 D Sd3 So3 false true V5). }
  destruct R as (R1 & R2 & R3).
  split; [exact B1|]. split; [exact B2|]. split; [exact B3|]. split; [exact B4|]. split; [exact B5|].
  split; [exact B6|]. split; [exact B7|]. split; [exact B10|]. split; [exact R1|]. split; [exact R2 | exact R3].
Qed.
