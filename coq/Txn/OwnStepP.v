From Coq Require Import List PArith NArith Bool MSets.MSetPositive Permutation Lia.
From RV Require Import Txn.PSet Txn.PSetP Txn.Own Txn.OwnP.
Import ListNotations.
Open Scope N_scope.

Lemma ok_data_facts : forall D' s, ok_data D' s = true ->
  (forall p, (cnt p D' <= 1)%nat) /\ Dis (minus D' (wdata s)) (alloc s).
Proof.
  intros D' s H. unfold ok_data in H. apply andb_true_iff in H. destruct H as [H1 H2].
  split; [apply nodupb_cnt; exact H1 | apply disjb_Dis; exact H2].
Qed.

Lemma mut_data_W : forall K0 D' s, InvW K0 s -> pins_asc s -> ok_data D' s = true ->
  InvW K0 (mut_data D' s) /\ pins_asc (mut_data D' s).
Proof.
  intros K0 D' s [B P [D1 D2] U A I Pe K R Np] PA Hok.
  apply ok_data_facts in Hok. destruct Hok as [HD Hfresh].
  split.
  - constructor; red_st; try assumption.
    + pw.
    + intros x Hx. destruct (P x Hx) as (H1 & H2 & H3 & H4 & H4n). specialize (PA x Hx).
      unfold wpin_ok. red_st. repeat split; try assumption.
      clear D1 D2 U A. pw.
    + split; [|exact D2]. clear U. pw.
    + clear U. pw.
  - intros x Hx. red_st.
    destruct (P x Hx) as (H1 & _). specialize (PA x Hx). red_st.
    clear D1 D2 U A. pw.
Qed.

Lemma ok_sys_facts : forall S' s, ok_sys S' s = true ->
  (forall p, (cnt p S' <= 1)%nat) /\ Dis (minus S' (wsys s)) (alloc s).
Proof.
  intros S' s H. unfold ok_sys in H. apply andb_true_iff in H. destruct H as [H1 H2].
  split; [apply nodupb_cnt; exact H1 | apply disjb_Dis; exact H2].
Qed.

Lemma mut_sys_W : forall K0 S' s, InvW K0 s -> ok_sys S' s = true -> InvW K0 (mut_sys S' s).
Proof.
  intros K0 S' s [B P [D1 D2] U A I Pe K R Np] Hok.
  apply ok_sys_facts in Hok. destruct Hok as [HD Hfresh].
  constructor; red_st; try assumption.
  - pw.
  - split; [exact D1|]. clear U D1. pw.
  - clear U. pw.
Qed.

Lemma mut_sys_pins_asc : forall K0 S' s, InvW K0 s -> pins_asc s -> ok_sys S' s = true -> pins_asc (mut_sys S' s).
Proof.
  intros K0 S' s [B P _ _ _ _ _ _ _ _] PA Hok x Hx.
  apply ok_sys_facts in Hok. destruct Hok as [HD Hfresh]. red_st.
  destruct (P x Hx) as (H1 & _). specialize (PA x Hx). red_st. pw.
Qed.

(* committed view under tree mutations: nothing committed moves *)
Lemma mut_data_C : forall D' s, InvC s -> inw s = true -> ok_data D' s = true -> InvC (mut_data D' s).
Proof.
  intros D' s [B P D [L1 L2] Ic K Nm] Hw Hok.
  apply ok_data_facts in Hok. destruct Hok as [HD Hfresh].
  constructor; red_st; try assumption.
  - pw.
  - split; [|exact L2]. clear L2. pw.
  - intros Hf. congruence.
Qed.

Lemma mut_sys_C : forall S' s, InvC s -> inw s = true -> ok_sys S' s = true -> InvC (mut_sys S' s).
Proof.
  intros S' s [B P D [L1 L2] Ic K Nm] Hw Hok.
  apply ok_sys_facts in Hok. destruct Hok as [HD Hfresh].
  constructor; red_st; try assumption.
  - pw.
  - split; [exact L1|]. clear L1. pw.
  - intros Hf. congruence.
Qed.
Lemma inv_begin_write : forall s, Inv s -> inw s = false -> Inv (begin_write s).
Proof.
  intros s H Hw. unfold begin_write. rewrite Hw.
  destruct H as [B2 B1 P Dc Dw L U I Pe K R Np Nm].
  constructor; red_st; try assumption.
  - destruct I as (I1 & I2 & I3). repeat split; try lia.
  - intros Hf. discriminate.
Qed.

Lemma pend_ids_gt : forall s, (forall e, In e (pend s) -> pend_ok s e) ->
  forall k, In k (map fst (pend s)) -> vid (dur s) < k.
Proof.
  intros s H k Hk. apply in_map_iff in Hk. destruct Hk as (e & <- & He).
  destruct (H e He) as (_ & H2 & _). exact H2.
Qed.

Lemma list_cases : forall (A : Type) (l : list A) (P Q : Prop),
  match l with [] => P | _ :: _ => Q end -> (l = [] /\ P) \/ (l <> [] /\ Q).
Proof. intros A [|a l] P Q H; [left | right]; split; auto; discriminate. Qed.

Lemma inv_add_pin : forall h b s, Inv s -> Inv (add_pin h b s).
Proof.
  intros h b s H. destruct H as [B2 B1 P Dc Dw L U I Pe K R Np Nm].
  constructor; red_st; try assumption.
  intros x Hx. apply in_app_iff in Hx. destruct Hx as [Hx|[<-|[]]].
  - specialize (P x Hx). exact P.
  - unfold pin_ok. red_st. destruct L as [L1 L2]. destruct I as (I1 & I2 & I3).
    assert (Hcase : (pend s = [] /\ lat s = dur s /\ unpers s = []) \/ In (vid (lat s)) (map fst (pend s))).
    { apply list_cases in Np. destruct Np as [[Hp Hq]|[_ Hq]]; [left; tauto | right; exact Hq]. }
    repeat split.
    + intros p Hp. cnt_norm. lia.
    + clear U. pw.
    + lia.
    + destruct Hcase as [(Hp & Hl & Hu)|Hin]; [left; rewrite Hl; lia | right; exact Hin].
    + intros Hle. destruct Hcase as [(Hp & Hl & Hu)|Hin].
      * rewrite Hu. intros p Hp'. rewrite cnt_nil in Hp'. lia.
      * pose proof (pend_ids_gt s Pe _ Hin). lia.
    + apply NoDup_cnt. intros p. destruct (B2 p) as [_ Hle]. red_st. cnt_norm. lia.
Qed.

Lemma In_remove_pins : forall hs l x, In x (remove_pins hs l) -> In x l.
Proof. intros hs l x H. unfold remove_pins in H. apply filter_In in H. tauto. Qed.

Lemma inv_remove_pins : forall hs s, Inv s -> Inv (set_pins (remove_pins hs (pins s)) s).
Proof.
  intros hs s H. destruct H as [B2 B1 P Dc Dw L U I Pe K R Np Nm].
  constructor; red_st; try assumption.
  intros x Hx. apply In_remove_pins in Hx. exact (P x Hx).
Qed.

Lemma inv_drop_pin : forall h s, Inv s -> Inv (drop_pin h s).
Proof. intros. apply inv_remove_pins. assumption. Qed.

Lemma inv_sp_create : forall h b s, Inv s -> inw s = true -> Inv (sp_create h b s).
Proof.
  intros h b s H Hw. unfold sp_create. destruct b.
  - pose proof (inv_add_pin h true s H) as H1.
    assert (Hw1 : inw (add_pin h true s) = true) by exact Hw.
    destruct H1 as [B2 B1 P Dc Dw L U I Pe K R Np Nm].
    constructor; red_st; try assumption. intros Hf. congruence.
  - apply inv_add_pin. exact H.
Qed.

Lemma inv_sp_delete : forall h s, Inv s -> inw s = true -> Inv (sp_delete h s).
Proof.
  intros h s H Hw. destruct H as [B2 B1 P Dc Dw L U I Pe K R Np Nm].
  constructor; red_st; try assumption. intros Hf. congruence.
Qed.

Lemma inv_mut_data : forall D' s, Inv s -> inw s = true -> ok_data D' s = true -> Inv (mut_data D' s).
Proof.
  intros D' s H Hw Hok. pose proof (Inv_pins_asc s H) as PA.
  apply (Inv_join (lastid s)).
  - apply mut_data_W; try assumption. apply Inv_W; assumption.
  - apply mut_data_C; try assumption. apply Inv_C; assumption.
Qed.

Lemma inv_mut_sys : forall S' s, Inv s -> inw s = true -> ok_sys S' s = true -> Inv (mut_sys S' s).
Proof.
  intros S' s H Hw Hok.
  apply (Inv_join (lastid s)).
  - apply mut_sys_W; try assumption. apply Inv_W; assumption.
  - apply mut_sys_C; try assumption. apply Inv_C; assumption.
Qed.

Lemma inv_abort : forall s, Inv s -> Inv (abort s).
Proof.
  intros s H. destruct H as [B2 B1 P [Dc1 Dc2] Dw [L1 L2] [U1 U2] I Pe K R Np Nm].
  constructor; red_st; try assumption; try (split; assumption).
  all: try pw.
  all: try (split; pw).
  - intros x Hx. apply In_remove_pins in Hx. destruct (P x Hx) as (H1 & H2 & H3 & H4 & H5 & H6).
    unfold pin_ok. red_st. repeat split; try assumption.
  - destruct I as (I1 & I2 & I3). repeat split; try lia.
  - destruct K as (K1 & K2 & K3 & K4). repeat split; assumption.
  - intros r Hr. discriminate.
  - intros _. unfold normal_w. red_st. repeat split; reflexivity.
Qed.
Lemma find_pin_In : forall h l x, find_pin h l = Some x -> In x l.
Proof. intros h l x H. unfold find_pin in H. apply find_some in H. tauto. Qed.

Lemma early_early : forall r r0 t, r <= r0 -> early r (early r0 t) = early r t.
Proof.
  intros r r0 t Hr. unfold early. induction t as [|[k ps] t IH]; simpl; [reflexivity|].
  destruct (r0 <? k) eqn:E0; simpl; destruct (r <? k) eqn:E; simpl; rewrite ?IH; try reflexivity.
  apply N.ltb_lt in E0. apply N.ltb_ge in E. lia.
Qed.

(* an entry recorded after ry is either recorded after r too, or survives a purge of the entries after r *)
Lemma cnt_late_split : forall ry r p t,
  (cnt p (flat (late ry t)) <= cnt p (flat (late r t)) + cnt p (flat (late ry (early r t))))%nat.
Proof.
  intros ry r p t. unfold late, early. induction t as [|[k ps] t IH]; simpl; [lia|].
  destruct (ry <? k) eqn:E1; destruct (r <? k) eqn:E2; simpl; rewrite ?E1; rewrite ?flat_cons, ?cnt_app; lia.
Qed.

Lemma eff_early : forall r s, (match wrest s with Some r0 => r <= r0 | None => True end) ->
  early r (eff_ufreed s) = early r (ufreed s).
Proof.
  intros r s H. unfold eff_ufreed. destruct (wrest s); [apply early_early; exact H | reflexivity].
Qed.

Lemma inv_restore : forall h s, Inv s -> inw s = true -> ok_restore h s = true -> Inv (restore h s).
Proof.
  intros h s H Hw Hok. pose proof (Inv_pins_asc s H) as PA.
  unfold ok_restore in Hok. unfold restore.
  destruct (find_pin h (pins s)) as [sp|] eqn:Ef; [|discriminate].
  apply find_pin_In in Ef.
  destruct H as [B2 B1 P [Dc1 Dc2] [Dw1 Dw2] [L1 L2] [U1 U2] I Pe K R Np Nm].
  destruct (P sp Ef) as (Sc & Sw & St & _ & _ & Snd). pose proof (PA sp Ef) as Sa.
  rewrite NoDup_cnt in Snd.
  (* the table of unpersisted records as this transaction sees it *)
  assert (Hu : exists u, eff_ufreed s = u /\ early (ptxn sp) u = early (ptxn sp) (ufreed s) /\ keys_le (vid (lat s)) u).
  { exists (eff_ufreed s). split; [reflexivity|]. unfold eff_ufreed. destruct (wrest s) as [r0|].
    - split; [apply early_early; apply N.leb_le; exact Hok | apply keys_le_filter; tauto].
    - split; [reflexivity | tauto]. }
  destruct Hu as (u & Eu & Hee & Ku).
  unfold owned_w, cover_w in *. rewrite Eu in *. clear Hok.
  set (r := ptxn sp) in *. set (S := ppages sp) in *.
  constructor; cbn [alloc lastid dur lat dfreed sfreed ufreed unpers pca pins pend inw wdata wsys wasc wdfr wsfr
    wdfreed wrest wcreated wdeleted]; try assumption; try (split; assumption).
  - (* committed balance *) clear Dc1 Dc2 Dw1 Dw2 L1 L2 U1 U2 Sc Sw Hee. red_st. pw.
  - (* working balance *)
    unfold owned_w, eff_ufreed. cbn [alloc lastid dur lat dfreed sfreed ufreed unpers pca pins pend inw wdata wsys wasc wdfr wsfr
    wdfreed wrest wcreated wdeleted]. rewrite <- Hee.
    clear B2 Dc1 Dc2 Dw1 Dw2 L1 L2 U1 U2 Sc. pw.
  - (* pins *)
    intros x Hx. destruct (P x Hx) as (H1 & H2 & H3 & H4 & H5 & H6). pose proof (PA x Hx) as H7.
    unfold pin_ok. unfold cover_c, cover_w, eff_ufreed.
    cbn [alloc lastid dur lat dfreed sfreed ufreed unpers pca pins pend inw wdata wsys wasc wdfr wsfr
    wdfreed wrest wcreated wdeleted]. rewrite <- Hee. unfold cover_c in H1. unfold cover_w in H2. rewrite Eu in H2.
    repeat split; try assumption.
    clear B2 Dc1 Dc2 Dw1 Dw2 L1 L2 U1 U2 Sc H1 H5.
    intro p. pose proof (cnt_late_split (ptxn x) r p (wdfreed s)). pose proof (cnt_late_split (ptxn x) r p u).
    inst_at p. cnt_norm. split_matches; lia.
  - (* durable version, working cover *)
    unfold cover_w, scover_w, eff_ufreed.
    cbn [alloc lastid dur lat dfreed sfreed ufreed unpers pca pins pend inw wdata wsys wasc wdfr wsfr
    wdfreed wrest wcreated wdeleted]. rewrite <- Hee. split; [|exact Dw2].
    assert (Hda : Dis (vdata (dur s)) (wasc s)).
    { intros p Hp. specialize (Dc1 p Hp). destruct (B2 p) as [_ Hle].
      pose proof (cover_c_owned (vid (dur s)) s p). rewrite cnt_app in Hle. lia. }
    clear B2 Dc1 Dc2 L1 L2 U1 U2 Sc Dw2.
    intro p. pose proof (cnt_late_split (vid (dur s)) r p (wdfreed s)). pose proof (cnt_late_split (vid (dur s)) r p u).
    inst_at p. cnt_norm. split_matches; lia.
  - (* latest in working *)
    split; [|exact L2].
    assert (Hla : Dis (vdata (lat s)) (wasc s)).
    { intros p Hp. destruct (B2 p) as [_ Hle]. unfold owned_c in Hle. rewrite !cnt_app in Hle. lia. }
    clear B2 Dc1 Dc2 Dw1 Dw2 L2 U1 U2 Sc. pw.
  - (* keys *)
    destruct K as (K1 & K2 & K3 & K4). repeat split; try assumption. apply keys_le_filter. exact K4.
  - intros r' Hr'. inversion Hr'; subst. exact St.
  - intros Hf. congruence.
Qed.
