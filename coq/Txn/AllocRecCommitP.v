(* Allocation records: the commit pipelines.  A working-view invariant RW is carried through every stage of
   WriteTransaction::commit (Immediate and None), next to Own's InvW. *)
From Coq Require Import List PArith NArith Bool MSets.MSetPositive Permutation Lia.
From RV Require Import Txn.PSet Txn.PSetP Txn.Own Txn.OwnP Txn.OwnStepP Txn.OwnCommitP Txn.AllocRec.
From RV Require Import Txn.AllocRecBaseP Txn.AllocRecStepP Txn.AllocRecStep2P.
Import ListNotations.
Open Scope N_scope.

(* b: bound of the record keys (the latest committed id; the id of the committing transaction once its entry is
   written); ex: savepoints whose O5 is no longer maintained (pending deletions, once the records are purged) *)
Definition keys_rec_le (b : N) (r : arec) : Prop := forall e, In e (recs r) -> fst e <= b.

Record RW (b : N) (ex : list N) (s : st) (r : arec) : Prop := mkRW {
  rw_v1 : forall e, In e (valid r) -> exists x, sp_pin s e x;
  rw_v2 : NoDup (map ph (pins s));
  rw_v3 : forall e1 e2, In e1 (valid r) -> In e2 (valid r) -> fst e1 <= fst e2 -> snd e1 <= snd e2;
  rw_vt : forall e, In e (valid r) -> snd e <= vid (lat s);
  rw_kb : keys_rec_le b r /\ vid (lat s) <= b;
  rw_kw : forall e, In e (recs r) -> Sub (snd e) (cover_w (fst e) s);
  rw_o5 : forall e x, In e (valid r) -> ~ In (fst e) (winval r) -> ~ In (fst e) ex -> sp_pin s e x ->
          Sub (minus (cover_w (snd e) s) (ppages x)) (RC (snd e) r ++ trk r) /\ Dis (RC (snd e) r ++ trk r) (ppages x);
  rw_t1 : Sub (trk r) (wdata s) /\ Sub (trk r) (wasc s);
  rw_t2 : trk_on r = false -> valid r = [] /\ trk r = []
}.

(* ---------------------------------------------------------------- entering the pipeline *)

Lemma RW_of_RObs : forall s r, Inv s -> RObs s r -> RW (vid (lat s)) [] s r.
Proof.
  intros s r H [HC HW]. destruct HC as [V1 V2 V3 K O5 [Bd Bu] U]. destruct HW as [KW O5W RA [T1a T1b] T2 P Nn Dd W2].
  constructor; try assumption.
  - intros e He. apply (valid_le_lat s r); try assumption. constructor; try assumption. split; assumption.
  - split; [|apply N.le_refl]. intros e He. unfold recs in He. apply in_app_iff in He.
    destruct He as [He|He]; [apply Bd | apply Bu]; exact He.
  - intros e x He Hni _ Hp. split; [apply O5W; assumption|].
    destruct (O5 e x He Hp) as [_ O5b]. destruct Hp as (Hx & _).
    pose proof (pin_dis_trk s x (trk r) H Hx T1b) as Dt.
    intros p Hp. rewrite cnt_app in Hp. specialize (O5b p). specialize (Dt p). lia.
  - split; assumption.
  - intros Hoff. destruct (T2 Hoff) as (Hv & Ht & _). split; assumption.
Qed.

(* ---------------------------------------------------------------- stages that do not move the data lineage *)

(* any stage that leaves pins and the working cover (of the keys that matter: those up to b) alone *)
Lemma RW_frame : forall b ex s s' r,
  pins s' = pins s -> vid (lat s) <= vid (lat s') -> vid (lat s') <= b -> wdata s' = wdata s ->
  (forall a p, a <= b -> cnt p (cover_w a s') = cnt p (cover_w a s)) ->
  Sub (trk r) (wasc s') ->
  RW b ex s r -> RW b ex s' r.
Proof.
  intros b ex s s' r E1 E2 E2' E3 E4 T [V1 V2 V3 Vt [Kb Lb] KW O5 [T1a T1b] T2].
  constructor; unfold sp_pin in *; rewrite ?E1, ?E3; try assumption.
  - intros e He. specialize (Vt e He). lia.
  - split; assumption.
  - intros e He p Hp. rewrite E4; [exact (KW e He p Hp) | apply Kb; exact He].
  - intros e x He Hni Hex Hp. destruct (O5 e x He Hni Hex Hp) as [O5a O5b]. split; [|exact O5b].
    intros p Hp'. apply O5a. rewrite cnt_minus in *. rewrite E4 in Hp'; [exact Hp'|]. specialize (Vt e He). lia.
  - split; assumption.
Qed.

Lemma RW_restored : forall b ex s r, RW b ex s r -> RW b ex (c_restored s) r.
Proof.
  intros b ex s r W. destruct (rw_kb b ex s r W) as [_ Lb].
  apply (RW_frame b ex s); try reflexivity; try assumption.
  all: try solve [apply N.le_refl].
  all: try solve [exact (proj2 (rw_t1 b ex s r W))].
Qed.

(* ---------------------------------------------------------------- flush_and_close *)

Lemma RW_track : forall b ex D' s r, RW b ex s r -> Dis (flat (recs r)) (wasc s) ->
  Bal (alloc s) (owned_w s) -> ok_data D' s = true ->
  (forall x, In x (pins s) -> Dis (ppages x) (wasc s) /\ Sub (ppages x) (alloc s)) ->
  RW b ex (mut_data D' s) (r_track D' s r) /\ Dis (flat (recs (r_track D' s r))) (wasc (mut_data D' s)).
Proof.
  intros b ex D' s r [V1 V2 V3 Vt Kb KW O5 [T1a T1b] T2] RA B Hok PA.
  destruct r as [da ua tk on di va wi]. unfold r_track. cbn [dalloc ualloc trk trk_on dirty valid winval] in *.
  destruct on.
  - cbn [set_trk dalloc ualloc trk trk_on dirty valid winval]. fold (trk' D' s tk). split.
    + constructor; unfold recs in *; cbn [dalloc ualloc trk trk_on dirty valid winval] in *; try assumption.
      * apply (track_kw D' s Hok); assumption.
      * intros e x He Hni Hex Hp. destruct (O5 e x He Hni Hex Hp) as [O5a O5b]. destruct Hp as (Hx & _).
        destruct (PA x Hx) as [PA1 PA2]. split.
        -- apply (track_o5w D' s Hok B); assumption.
        -- apply (track_dis D' s Hok); assumption.
      * apply (track_t1 D' s Hok); assumption.
      * intros Hf. discriminate.
    + unfold recs in *. cbn [dalloc ualloc] in *. apply (track_ra D' s Hok B); assumption.
  - destruct (T2 eq_refl) as [Hva Htk]. subst va tk. split.
    + constructor; unfold recs in *; cbn [dalloc ualloc trk trk_on dirty valid winval] in *; try assumption.
      all: try solve [intros e x []].
      all: try solve [intros e []].
      all: try solve [intros _; split; reflexivity].
      all: try solve [split; intros p Hp; rewrite cnt_nil in Hp; lia].
      apply (track_kw D' s Hok); assumption.
    + unfold recs in *. cbn [dalloc ualloc] in *. apply (track_ra D' s Hok B); assumption.
Qed.

(* ---------------------------------------------------------------- adopt_unpersisted (claim) *)

Lemma cnt_late_tab_minus : forall t (u : ftab) x p,
  cnt p (flat (late t (tab_minus u x))) = match cnt p x with O => cnt p (flat (late t u)) | S _ => 0%nat end.
Proof. intros. rewrite late_tab_minus, flat_tab_minus, cnt_minus. reflexivity. Qed.

(* removing pages x from the unpersisted allocation records *)
Lemma RW_claim : forall b ex s r x,
  RW b ex s r ->
  (forall e p xx, In e (valid r) -> sp_pin s e xx -> (cnt p (minus (cover_w (snd e) s) (ppages xx)) > 0)%nat ->
                  (cnt p x > 0)%nat -> (cnt p (flat (ualloc r)) > 0)%nat -> False) ->
  RW b ex s (set_ualloc (tab_minus (ualloc r) x) r).
Proof.
  intros b ex s r x [V1 V2 V3 Vt [Kb Lb] KW O5 T1 T2] Hx.
  destruct r as [da ua tk on di va wi]. unfold set_ualloc, recs, RC, keys_rec_le in *.
  cbn [dalloc ualloc trk trk_on dirty valid winval] in *.
  constructor; unfold recs, RC, keys_rec_le; cbn [dalloc ualloc trk trk_on dirty valid winval]; try assumption.
  - split; [|exact Lb]. intros e He. apply in_app_iff in He. destruct He as [He|He].
    + apply Kb. apply in_app_iff. left. exact He.
    + apply tab_minus_keys in He. destruct He as (e1 & He1 & Hk & _). rewrite <- Hk. apply Kb. apply in_app_iff. right. exact He1.
  - intros e He. apply in_app_iff in He. destruct He as [He|He].
    + apply KW. apply in_app_iff. left. exact He.
    + apply tab_minus_keys in He. destruct He as (e1 & He1 & Hk & Hi). rewrite <- Hk.
      intros p Hp. apply (KW e1); [apply in_app_iff; right; exact He1|]. apply In_cnt. apply Hi. apply In_cnt. exact Hp.
  - intros e xx He Hni Hex Hp. destruct (O5 e xx He Hni Hex Hp) as [O5a O5b]. split; intro p.
    + specialize (O5a p). specialize (Hx e p xx He Hp). pose proof (cnt_late_le (snd e) ua p) as Hl.
      rewrite !cnt_app in *. rewrite cnt_late_tab_minus. destruct (cnt p x); lia.
    + specialize (O5b p). rewrite !cnt_app in *. rewrite cnt_late_tab_minus. destruct (cnt p x); lia.
Qed.

Lemma claim_flat : forall da ua x p,
  cnt p (flat (da ++ tab_minus ua x)) = (cnt p (flat da) + match cnt p x with O => cnt p (flat ua) | S _ => 0%nat end)%nat.
Proof. intros. rewrite flat_app, cnt_app, flat_tab_minus, cnt_minus. reflexivity. Qed.

Lemma RW_adopt : forall b ex s r, RW b ex s r ->
  Dis (flat (recs r)) (wasc s) -> Dis (flat (dalloc r)) (unpers s) -> Dis (flat (ualloc r)) (pca s) -> Sub (pca s) (unpers s) ->
  let r' := set_ualloc (tab_minus (ualloc r) (pca s)) r in
  RW b ex (c_adopt s) r' /\ Dis (flat (recs r')) (wasc (c_adopt s)).
Proof.
  intros b ex s r W RA U2 U3 Wu r'. split.
  - assert (W1 : RW b ex s r').
    { apply RW_claim; [exact W|]. intros e p xx _ _ _ Hp Hu. specialize (U3 p Hu). lia. }
    destruct (rw_kb _ _ _ _ W1) as [_ Lb]. destruct (rw_t1 _ _ _ _ W1) as [_ T1b].
    apply (RW_frame b ex s); try reflexivity; try assumption.
    all: try solve [apply N.le_refl].
    red_st. clear - T1b. pw.
  - subst r'. unfold recs, set_ualloc in *. cbn [dalloc ualloc] in *. red_st.
    intro p. rewrite claim_flat. specialize (RA p). specialize (U2 p). specialize (U3 p). specialize (Wu p).
    rewrite flat_app, !cnt_app in *. destruct (cnt p (pca s)); lia.
Qed.

(* ---------------------------------------------------------------- store_data_freed_pages *)

Lemma cover_w_store_dfreed : forall s a p, wrest s = None -> a < lastid s ->
  cnt p (cover_w a (c_store_dfreed s)) = cnt p (cover_w a s).
Proof.
  intros s a p Hr Ha. unfold cover_w, eff_ufreed. red_st. rewrite Hr.
  rewrite !cnt_app. rewrite cnt_late_add_entry_gt by exact Ha. rewrite late_app, flat_app, cnt_app.
  cbn. lia.
Qed.

Lemma RW_store_dfreed : forall b ex s r, RW b ex s r -> wrest s = None -> b < lastid s ->
  RW b ex (c_store_dfreed s) r.
Proof.
  intros b ex s r W Hr Hb. destruct (rw_kb _ _ _ _ W) as [_ Lb]. destruct (rw_t1 _ _ _ _ W) as [_ T1b].
  apply (RW_frame b ex s); try reflexivity; try assumption.
  all: try solve [apply N.le_refl].
  intros a p Ha. apply cover_w_store_dfreed; [exact Hr | lia].
Qed.

(* ---------------------------------------------------------------- process_freed_pages + flush_data_allocated_pages *)

(* every surviving DATA_ALLOCATED entry is at or after the transaction of some pin that outlives the commit *)
Definition PF (s : st) (r : arec) : Prop :=
  forall e, In e (dalloc r) -> exists x, In x (pins s) /\ ~ In (ph x) (wdeleted s) /\ ptxn x <= fst e.

Lemma cover_w_drain : forall s a p, wrest s = None -> horizon (lastid s) s <= a + 1 ->
  cnt p (cover_w a (c_drain s)) = cnt p (cover_w a s).
Proof.
  intros s a p Hr Hh. unfold cover_w, eff_ufreed, c_drain.
  cbn [alloc lastid dur lat dfreed sfreed ufreed unpers pca pins pend inw wdata wsys wasc wdfr wsfr wdfreed wrest wcreated wdeleted].
  rewrite Hr. rewrite late_keys_ge by exact Hh. reflexivity.
Qed.

Lemma In_tab_flush : forall k tk (t : ftab) e, In e (add_entry k tk t) -> In e t \/ e = (k, tk).
Proof. intros. apply In_keys_add_entry. assumption. Qed.

Lemma RW_drain_flush : forall b s s0 r,
  RW b [] s r -> wrest s = None -> b < lastid s -> lastid s0 = lastid s -> wdeleted s0 = wdeleted s ->
  let r' := r_flush s0 r in
  RW (lastid s) (wdeleted s) (c_drain s) r' /\ PF (c_drain s) r' /\ ualloc r' = [] /\ trk r' = [].
Proof.
  intros b s s0 r [V1 V2 V3 Vt [Kb Lb] KW O5 [T1a T1b] T2] Hr Hb El Ed r'.
  subst r'. unfold r_flush. rewrite El, Ed.
  destruct r as [da ua tk on di va wi]. unfold recs, RC, keys_rec_le, PF in *.
  cbn [dalloc ualloc trk trk_on dirty valid winval] in *.
  set (tab := add_entry (lastid s) tk (da ++ ua)).
  assert (Htab : forall e, In e tab -> (In e (da ++ ua) /\ fst e <= b) \/ e = (lastid s, tk)).
  { intros e He. apply In_tab_flush in He. destruct He as [He|He]; [left; split; [exact He | apply Kb; exact He] | right; exact He]. }
  assert (Hpins : pins (c_drain s) = pins s) by reflexivity.
  assert (Hlat : lat (c_drain s) = lat s) by reflexivity.
  assert (Hwd : wdata (c_drain s) = wdata s) by reflexivity.
  destruct (oldest_excl (wdeleted s) va) as [o|] eqn:Eo.
  - destruct (oldest_excl_some _ _ _ V3 Eo) as [(e0 & He0 & Hn0 & Ho) Hmin].
    destruct (V1 e0 He0) as (x0 & Hx0 & Hx0h & Hx0t).
    pose proof (horizon_le_pin (lastid s) s x0 Hx0) as Hh0. rewrite Hx0t, Ho in Hh0.
    split; [|split; [|split; reflexivity]].
    + constructor; unfold keys_rec_le, sp_pin, recs, RC; rewrite ?Hpins, ?Hlat, ?Hwd;
        cbn [dalloc ualloc trk trk_on dirty valid winval]; try assumption.
      * split; [|lia]. intros e He. rewrite app_nil_r in He. apply In_keys_ge in He. destruct He as [He _].
        destruct (Htab e He) as [[_ Hle]| ->]; [lia | apply N.le_refl].
      * intros e He. rewrite app_nil_r in He. apply In_keys_ge in He. destruct He as [He Hoe].
        intros p Hp. rewrite cover_w_drain; [|exact Hr | lia].
        destruct (Htab e He) as [[He' _]| ->]; [exact (KW e He' p Hp)|].
        cbn [fst snd] in *. specialize (T1a p Hp). unfold cover_w. rewrite !cnt_app. lia.
      * intros e x He Hni Hex Hp. assert (Hnil : ~ In (fst e) []) by (intros []).
        destruct (O5 e x He Hni Hnil Hp) as [O5a O5b].
        specialize (Hmin e He Hex). specialize (Vt e He).
        assert (Hrc : forall p, cnt p ((flat (late (snd e) (keys_ge o tab)) ++ flat (late (snd e) [])) ++ [])
                               = cnt p ((flat (late (snd e) da) ++ flat (late (snd e) ua)) ++ tk)).
        { intro p. rewrite late_keys_ge by lia. subst tab. rewrite !cnt_app. rewrite cnt_late_add_entry_gt by lia.
          rewrite late_app, flat_app, cnt_app. cbn. lia. }
        destruct Hp as (Hx & Hxh & Hxt).
        pose proof (horizon_le_pin (lastid s) s x Hx) as Hhx. rewrite Hxt in Hhx.
        split; intros p Hp'.
        -- rewrite Hrc. apply O5a. rewrite cnt_minus in *. rewrite cover_w_drain in Hp'; [exact Hp' | exact Hr | exact Hhx].
        -- rewrite Hrc in Hp'. exact (O5b p Hp').
      * split; intros p Hp; rewrite cnt_nil in Hp; lia.
      * intros Hoff. destruct (T2 Hoff) as [Hv _]. split; [exact Hv | reflexivity].
    + intros e He. cbn [dalloc] in He. apply In_keys_ge in He. destruct He as [_ Hoe].
      exists x0. rewrite Hpins. repeat split; [exact Hx0 | rewrite Hx0h; exact Hn0 | rewrite Hx0t, Ho; exact Hoe].
  - pose proof (oldest_excl_none _ _ Eo) as Hall.
    split; [|split; [|split; reflexivity]].
    + constructor; unfold keys_rec_le, sp_pin, recs, RC; rewrite ?Hpins, ?Hlat, ?Hwd;
        cbn [dalloc ualloc trk trk_on dirty valid winval]; try assumption.
      * split; [intros e [] | lia].
      * intros e [].
      * intros e x He _ Hex. exfalso. apply Hex. apply Hall. exact He.
      * split; intros p Hp; rewrite cnt_nil in Hp; lia.
      * intros Hoff. destruct (T2 Hoff) as [Hv _]. split; [exact Hv | reflexivity].
    + intros e [].
Qed.
