(* Finite sets of abstract page ids as lists, with membership tests through PositiveSet so that the
   extracted checker / model run in O(n log n).  Definitions only; proofs in PSetP.v. *)
From Coq Require Import List PArith NArith Bool MSets.MSetPositive.
Import ListNotations.

Notation page := positive (only parsing).
Module PS := PositiveSet.

Definition mkset (l : list page) : PS.t := fold_right PS.add PS.empty l.

(* l \ x *)
Definition minus (l x : list page) : list page :=
  let sx := mkset x in filter (fun p => negb (PS.mem p sx)) l.

(* l /\ x *)
Definition inter (l x : list page) : list page :=
  let sx := mkset x in filter (fun p => PS.mem p sx) l.

Fixpoint nodup_acc (l : list page) (seen : PS.t) : bool :=
  match l with
  | [] => true
  | p :: t => if PS.mem p seen then false else nodup_acc t (PS.add p seen)
  end.

Definition nodupb (l : list page) : bool := nodup_acc l PS.empty.

Definition inclb (l x : list page) : bool :=
  let sx := mkset x in forallb (fun p => PS.mem p sx) l.

Definition disjb (l x : list page) : bool :=
  let sx := mkset x in forallb (fun p => negb (PS.mem p sx)) l.

Definition seteqb (a b : list page) : bool := inclb a b && inclb b a.

Definition nilb (l : list page) : bool := match l with [] => true | _ => false end.

(* Prop-level counterparts *)
Definition disjoint (a b : list page) : Prop := forall p, In p a -> ~ In p b.
Definition seteq (a b : list page) : Prop := forall p, In p a <-> In p b.

(* exact accounting: the owner list names every allocated page exactly once *)
Definition Acct (alloc owners : list page) : Prop := NoDup owners /\ seteq alloc owners.
Definition acctb (alloc owners : list page) : bool := nodupb owners && seteqb alloc owners.

(* tables keyed by transaction id: DATA_FREED, SYSTEM_FREED, unpersisted data_freed *)
Definition ftab := list (N * list page).
Definition flat (t : ftab) : list page := concat (map snd t).
Definition keys_lt (h : N) (t : ftab) : ftab := filter (fun e => N.ltb (fst e) h) t.
Definition keys_ge (h : N) (t : ftab) : ftab := filter (fun e => negb (N.ltb (fst e) h)) t.
(* entries recorded by transactions after r *)
Definition late (r : N) (t : ftab) : ftab := filter (fun e => N.ltb r (fst e)) t.
Definition early (r : N) (t : ftab) : ftab := filter (fun e => negb (N.ltb r (fst e))) t.
Definition keys (t : ftab) : list N := map fst t.
(* add an entry unless it is empty *)
Definition add_entry (k : N) (ps : list page) (t : ftab) : ftab :=
  match ps with [] => t | _ => t ++ [(k, ps)] end.
(* remove the pages of x from every entry, dropping entries that become empty *)
Definition tab_minus (t : ftab) (x : list page) : ftab :=
  let sx := mkset x in
  filter (fun e => negb (nilb (snd e)))
         (map (fun e => (fst e, filter (fun p => negb (PS.mem p sx)) (snd e))) t).

Definition memN (k : N) (l : list N) : bool := existsb (N.eqb k) l.
Definition minN (l : list N) : option N :=
  match l with [] => None | a :: t => Some (fold_left N.min t a) end.

(* multiplicity of a page in a list: the pointwise view used by all accounting proofs *)
Definition cnt (p : page) (l : list page) : nat := count_occ Pos.eq_dec l p.
(* balanced: every page is named by the owners exactly as often as by the allocator, at most once *)
Definition Bal (a o : list page) : Prop := forall p, cnt p a = cnt p o /\ (cnt p o <= 1)%nat.
Definition Sub (x y : list page) : Prop := forall p, (cnt p x > 0)%nat -> (cnt p y > 0)%nat.
Definition Dis (x y : list page) : Prop := forall p, (cnt p x > 0)%nat -> cnt p y = 0%nat.
