(* C06/C05 -- page-ownership state machine over abstract page ids (definitions only; proofs in OwnP.v).

   What is modelled: the allocator's allocated set; the durable and the latest committed version
   (data / system page sets); DATA_FREED, SYSTEM_FREED and the unpersisted data_freed records keyed by
   transaction id; unpersisted pages and post-commit allocations; pins (live readers, ephemeral and
   persistent savepoints: transaction id + the data pages of that version); pending non-durable commits;
   and the live write transaction's locals (working data/system trees, allocated_since_commit, the two
   freed queues, the working DATA_FREED table, restored_transaction, staged savepoint creations/deletions).
   Every step mirrors the bookkeeping of src/transactions.rs / page_manager.rs on these sets.

   What is abstracted (validated per run by the correspondence, not proved):
   * b-tree page churn is an oracle: a tree mutation is given by the page set of the tree after it
     (new = pages allocated and still live, old \ new = pages unlinked); pages allocated and freed
     again inside one API call are invisible;
   * record pagination / byte layout of the tables; the order of entries;
   * DATA_ALLOCATED / unpersisted.allocations / PageTracker: `restore` is specified by WHAT must be
     queued for freeing (everything owned by the data lineage after the savepoint and not reachable
     from it); that redb's allocation records produce exactly this set is validated on every run;
   * the tracker's `unprocessed_freed_non_durable_commits` scan window (an optimisation): the model
     reclaims every unpersisted page named by an entry below the non-durable horizon;
   * concurrency (each API call is atomic), storage failures, repair. *)
From Coq Require Import List PArith NArith Bool.
From RV Require Import Txn.PSet.
Import ListNotations.
Open Scope N_scope.

Record ver := mkver { vid : N; vdata : list page; vsys : list page }.
(* a pin: handle, transaction id it is registered at, data pages of that version, persistent savepoint? *)
Record pin := mkpin { ph : N; ptxn : N; ppages : list page; ppersist : bool }.

Record st := mkst {
  alloc : list page;
  lastid : N;
  dur : ver;
  lat : ver;
  dfreed : ftab;
  sfreed : ftab;
  ufreed : ftab;
  unpers : list page;
  pca : list page;
  pins : list pin;
  pend : list (N * N);
  inw : bool;
  wdata : list page;
  wsys : list page;
  wasc : list page;
  wdfr : list page;
  wsfr : list page;
  wdfreed : ftab;
  wrest : option N;
  wcreated : list N;
  wdeleted : list N
}.

Definition set_alloc (v : list page) (s : st) : st := mkst v (lastid s) (dur s) (lat s) (dfreed s) (sfreed s) (ufreed s) (unpers s) (pca s) (pins s) (pend s) (inw s) (wdata s) (wsys s) (wasc s) (wdfr s) (wsfr s) (wdfreed s) (wrest s) (wcreated s) (wdeleted s).
Definition set_lastid (v : N) (s : st) : st := mkst (alloc s) v (dur s) (lat s) (dfreed s) (sfreed s) (ufreed s) (unpers s) (pca s) (pins s) (pend s) (inw s) (wdata s) (wsys s) (wasc s) (wdfr s) (wsfr s) (wdfreed s) (wrest s) (wcreated s) (wdeleted s).
Definition set_dur (v : ver) (s : st) : st := mkst (alloc s) (lastid s) v (lat s) (dfreed s) (sfreed s) (ufreed s) (unpers s) (pca s) (pins s) (pend s) (inw s) (wdata s) (wsys s) (wasc s) (wdfr s) (wsfr s) (wdfreed s) (wrest s) (wcreated s) (wdeleted s).
Definition set_lat (v : ver) (s : st) : st := mkst (alloc s) (lastid s) (dur s) v (dfreed s) (sfreed s) (ufreed s) (unpers s) (pca s) (pins s) (pend s) (inw s) (wdata s) (wsys s) (wasc s) (wdfr s) (wsfr s) (wdfreed s) (wrest s) (wcreated s) (wdeleted s).
Definition set_dfreed (v : ftab) (s : st) : st := mkst (alloc s) (lastid s) (dur s) (lat s) v (sfreed s) (ufreed s) (unpers s) (pca s) (pins s) (pend s) (inw s) (wdata s) (wsys s) (wasc s) (wdfr s) (wsfr s) (wdfreed s) (wrest s) (wcreated s) (wdeleted s).
Definition set_sfreed (v : ftab) (s : st) : st := mkst (alloc s) (lastid s) (dur s) (lat s) (dfreed s) v (ufreed s) (unpers s) (pca s) (pins s) (pend s) (inw s) (wdata s) (wsys s) (wasc s) (wdfr s) (wsfr s) (wdfreed s) (wrest s) (wcreated s) (wdeleted s).
Definition set_ufreed (v : ftab) (s : st) : st := mkst (alloc s) (lastid s) (dur s) (lat s) (dfreed s) (sfreed s) v (unpers s) (pca s) (pins s) (pend s) (inw s) (wdata s) (wsys s) (wasc s) (wdfr s) (wsfr s) (wdfreed s) (wrest s) (wcreated s) (wdeleted s).
Definition set_unpers (v : list page) (s : st) : st := mkst (alloc s) (lastid s) (dur s) (lat s) (dfreed s) (sfreed s) (ufreed s) v (pca s) (pins s) (pend s) (inw s) (wdata s) (wsys s) (wasc s) (wdfr s) (wsfr s) (wdfreed s) (wrest s) (wcreated s) (wdeleted s).
Definition set_pca (v : list page) (s : st) : st := mkst (alloc s) (lastid s) (dur s) (lat s) (dfreed s) (sfreed s) (ufreed s) (unpers s) v (pins s) (pend s) (inw s) (wdata s) (wsys s) (wasc s) (wdfr s) (wsfr s) (wdfreed s) (wrest s) (wcreated s) (wdeleted s).
Definition set_pins (v : list pin) (s : st) : st := mkst (alloc s) (lastid s) (dur s) (lat s) (dfreed s) (sfreed s) (ufreed s) (unpers s) (pca s) v (pend s) (inw s) (wdata s) (wsys s) (wasc s) (wdfr s) (wsfr s) (wdfreed s) (wrest s) (wcreated s) (wdeleted s).
Definition set_pend (v : list (N * N)) (s : st) : st := mkst (alloc s) (lastid s) (dur s) (lat s) (dfreed s) (sfreed s) (ufreed s) (unpers s) (pca s) (pins s) v (inw s) (wdata s) (wsys s) (wasc s) (wdfr s) (wsfr s) (wdfreed s) (wrest s) (wcreated s) (wdeleted s).
Definition set_inw (v : bool) (s : st) : st := mkst (alloc s) (lastid s) (dur s) (lat s) (dfreed s) (sfreed s) (ufreed s) (unpers s) (pca s) (pins s) (pend s) v (wdata s) (wsys s) (wasc s) (wdfr s) (wsfr s) (wdfreed s) (wrest s) (wcreated s) (wdeleted s).
Definition set_wdata (v : list page) (s : st) : st := mkst (alloc s) (lastid s) (dur s) (lat s) (dfreed s) (sfreed s) (ufreed s) (unpers s) (pca s) (pins s) (pend s) (inw s) v (wsys s) (wasc s) (wdfr s) (wsfr s) (wdfreed s) (wrest s) (wcreated s) (wdeleted s).
Definition set_wsys (v : list page) (s : st) : st := mkst (alloc s) (lastid s) (dur s) (lat s) (dfreed s) (sfreed s) (ufreed s) (unpers s) (pca s) (pins s) (pend s) (inw s) (wdata s) v (wasc s) (wdfr s) (wsfr s) (wdfreed s) (wrest s) (wcreated s) (wdeleted s).
Definition set_wasc (v : list page) (s : st) : st := mkst (alloc s) (lastid s) (dur s) (lat s) (dfreed s) (sfreed s) (ufreed s) (unpers s) (pca s) (pins s) (pend s) (inw s) (wdata s) (wsys s) v (wdfr s) (wsfr s) (wdfreed s) (wrest s) (wcreated s) (wdeleted s).
Definition set_wdfr (v : list page) (s : st) : st := mkst (alloc s) (lastid s) (dur s) (lat s) (dfreed s) (sfreed s) (ufreed s) (unpers s) (pca s) (pins s) (pend s) (inw s) (wdata s) (wsys s) (wasc s) v (wsfr s) (wdfreed s) (wrest s) (wcreated s) (wdeleted s).
Definition set_wsfr (v : list page) (s : st) : st := mkst (alloc s) (lastid s) (dur s) (lat s) (dfreed s) (sfreed s) (ufreed s) (unpers s) (pca s) (pins s) (pend s) (inw s) (wdata s) (wsys s) (wasc s) (wdfr s) v (wdfreed s) (wrest s) (wcreated s) (wdeleted s).
Definition set_wdfreed (v : ftab) (s : st) : st := mkst (alloc s) (lastid s) (dur s) (lat s) (dfreed s) (sfreed s) (ufreed s) (unpers s) (pca s) (pins s) (pend s) (inw s) (wdata s) (wsys s) (wasc s) (wdfr s) (wsfr s) v (wrest s) (wcreated s) (wdeleted s).
Definition set_wrest (v : option N) (s : st) : st := mkst (alloc s) (lastid s) (dur s) (lat s) (dfreed s) (sfreed s) (ufreed s) (unpers s) (pca s) (pins s) (pend s) (inw s) (wdata s) (wsys s) (wasc s) (wdfr s) (wsfr s) (wdfreed s) v (wcreated s) (wdeleted s).
Definition set_wcreated (v : list N) (s : st) : st := mkst (alloc s) (lastid s) (dur s) (lat s) (dfreed s) (sfreed s) (ufreed s) (unpers s) (pca s) (pins s) (pend s) (inw s) (wdata s) (wsys s) (wasc s) (wdfr s) (wsfr s) (wdfreed s) (wrest s) v (wdeleted s).
Definition set_wdeleted (v : list N) (s : st) : st := mkst (alloc s) (lastid s) (dur s) (lat s) (dfreed s) (sfreed s) (ufreed s) (unpers s) (pca s) (pins s) (pend s) (inw s) (wdata s) (wsys s) (wasc s) (wdfr s) (wsfr s) (wdfreed s) (wrest s) (wcreated s) v.

(* ---------------------------------------------------------------- views *)

Definition owned_c (s : st) : list page :=
  vdata (lat s) ++ vsys (lat s) ++ flat (dfreed s) ++ flat (sfreed s) ++ flat (ufreed s).

(* unpersisted data_freed records as the write transaction will leave them: a restore drops the
   records of the non-durable commits it rolled back (applied at commit) *)
Definition eff_ufreed (s : st) : ftab :=
  match wrest s with Some r => early r (ufreed s) | None => ufreed s end.

Definition owned_w (s : st) : list page :=
  wdata s ++ wsys s ++ wdfr s ++ wsfr s ++ flat (wdfreed s) ++ flat (sfreed s) ++ flat (eff_ufreed s).

(* where the data pages of version r may live: still in the tree, or pending free under a later key *)
Definition cover_c (r : N) (s : st) : list page :=
  vdata (lat s) ++ flat (late r (dfreed s)) ++ flat (late r (ufreed s)).
Definition cover_w (r : N) (s : st) : list page :=
  wdata s ++ wdfr s ++ flat (late r (wdfreed s)) ++ flat (late r (eff_ufreed s)).
Definition scover_c (r : N) (s : st) : list page := vsys (lat s) ++ flat (late r (sfreed s)).
Definition scover_w (r : N) (s : st) : list page := wsys s ++ wsfr s ++ flat (late r (sfreed s)).

Definition pinned (s : st) : list page :=
  vdata (dur s) ++ vsys (dur s) ++ concat (map ppages (pins s)).

Definition find_pin (h : N) (l : list pin) : option pin := find (fun x => N.eqb (ph x) h) l.
Definition remove_pins (hs : list N) (l : list pin) : list pin :=
  filter (fun x => negb (memN (ph x) hs)) l.

(* oldest_live_read_transaction: pins and the durable ancestors of pending non-durable commits *)
Definition live_ids (s : st) : list N := map ptxn (pins s) ++ map snd (pend s).
Definition horizon (dflt : N) (s : st) : N :=
  match minN (live_ids s) with Some m => m + 1 | None => dflt end.
(* oldest_live_read_nondurable_transaction *)
Definition nd_horizon (dflt : N) (s : st) : N :=
  match minN (filter (fun r => memN r (map fst (pend s))) (map ptxn (pins s))) with
  | Some m => m + 1 | None => dflt end.

(* ---------------------------------------------------------------- steps *)

Definition init : st :=
  mkst [] 1 (mkver 1 [] []) (mkver 1 [] []) [] [] [] [] [] [] [] false [] [] [] [] [] [] None [] [].

Definition begin_write (s : st) : st :=
  if inw s then s else set_inw true (set_lastid (lastid s + 1) s).

(* a data-tree mutation leaving the tree with page set D' *)
Definition mut_data (D' : list page) (s : st) : st :=
  let A := minus D' (wdata s) in
  let F := minus (wdata s) D' in
  let Fu := inter F (wasc s) in
  set_alloc (A ++ minus (alloc s) Fu)
    (set_wasc (A ++ minus (wasc s) Fu)
      (set_wdfr (wdfr s ++ minus F (wasc s))
        (set_wdata D' s))).
Definition ok_data (D' : list page) (s : st) : bool :=
  nodupb D' && disjb (minus D' (wdata s)) (alloc s).

Definition mut_sys (S' : list page) (s : st) : st :=
  let A := minus S' (wsys s) in
  let F := minus (wsys s) S' in
  let Fu := inter F (wasc s) in
  set_alloc (A ++ minus (alloc s) Fu)
    (set_wasc (A ++ minus (wasc s) Fu)
      (set_wsfr (wsfr s ++ minus F (wasc s))
        (set_wsys S' s))).
Definition ok_sys (S' : list page) (s : st) : bool :=
  nodupb S' && disjb (minus S' (wsys s)) (alloc s).

Definition add_pin (h : N) (persist : bool) (s : st) : st :=
  set_pins (pins s ++ [mkpin h (vid (lat s)) (vdata (lat s)) persist]) s.
Definition ok_new_handle (h : N) (s : st) : bool :=
  match find_pin h (pins s) with None => true | Some _ => false end.

Definition begin_read (h : N) (s : st) : st := add_pin h false s.
Definition drop_pin (h : N) (s : st) : st := set_pins (remove_pins [h] (pins s)) s.
Definition sp_create (h : N) (persist : bool) (s : st) : st :=
  let s1 := add_pin h persist s in
  if persist then set_wcreated (h :: wcreated s1) s1 else s1.
Definition sp_delete (h : N) (s : st) : st := set_wdeleted (h :: wdeleted s) s.

(* restore_savepoint_inner on the ownership state *)
Definition restore (h : N) (s : st) : st :=
  match find_pin h (pins s) with
  | None => s
  | Some sp =>
    let r := ptxn sp in
    let S := ppages sp in
    let X := wdata s ++ wdfr s ++ flat (late r (wdfreed s)) ++ flat (late r (eff_ufreed s)) in
    let Fu := inter X (wasc s) in
    set_alloc (minus (alloc s) Fu)
      (set_wasc (minus (wasc s) Fu)
        (set_wdata S
          (set_wdfr (minus (minus X (wasc s)) S)
            (set_wdfreed (early r (wdfreed s))
              (set_wrest (Some r) s)))))
  end.
Definition ok_restore (h : N) (s : st) : bool :=
  match find_pin h (pins s) with
  | None => false
  | Some sp => match wrest s with Some r0 => N.leb (ptxn sp) r0 | None => true end
  end.

Definition reset_w (s : st) : st :=
  set_inw false
    (set_wdata (vdata (lat s)) (set_wsys (vsys (lat s))
      (set_wasc [] (set_wdfr [] (set_wsfr [] (set_wdfreed (dfreed s)
        (set_wrest None (set_wcreated [] (set_wdeleted [] s))))))))).

Definition abort (s : st) : st :=
  reset_w (set_alloc (minus (alloc s) (wasc s)) (set_pins (remove_pins (wcreated s) (pins s)) s)).

(* -- commit pieces (names follow the code) -- *)

(* restored_transaction: drop the unpersisted freed records of the rolled-back commits *)
Definition c_restored (s : st) : st := set_wrest None (set_ufreed (eff_ufreed s) s).

(* adopt_unpersisted(take_post_commit_allocations()) *)
Definition c_adopt (s : st) : st :=
  set_wasc (pca s ++ wasc s) (set_unpers (minus (unpers s) (pca s)) (set_pca [] s)).

(* store_data_freed_pages + the unpersisted records written out *)
Definition c_store_dfreed (s : st) : st :=
  set_wdfreed (add_entry (lastid s) (wdfr s) (wdfreed s ++ ufreed s)) (set_wdfr [] (set_ufreed [] s)).

(* process_freed_pages *)
Definition c_drain (s : st) : st :=
  let h := horizon (lastid s) s in
  let X := flat (keys_lt h (wdfreed s)) ++ flat (keys_lt h (sfreed s)) in
  set_alloc (minus (alloc s) X)
    (set_wdfreed (keys_ge h (wdfreed s)) (set_sfreed (keys_ge h (sfreed s)) s)).

(* quick-repair: store_system_freed_pages under this transaction *)
Definition c_store_sfreed (k : N) (s : st) : st :=
  set_sfreed (add_entry k (wsfr s) (sfreed s)) (set_wsfr [] s).

(* TransactionalMemory::commit + take_allocated_since_commit + clear_pending_non_durable_commits *)
Definition c_publish_dur (s : st) : st :=
  let v := mkver (lastid s) (wdata s) (wsys s) in
  set_dur v (set_lat v (set_dfreed (wdfreed s)
    (set_unpers [] (set_pca [] (set_wasc [] (set_pend [] s)))))).

(* system pages freed right after the durable commit *)
Definition c_post_free (s : st) : st := set_alloc (minus (alloc s) (wsfr s)) (set_wsfr [] s).

(* apply_on_commit *)
Definition c_apply_sp (s : st) : st :=
  set_pins (remove_pins (wdeleted s) (pins s)) (set_wcreated [] (set_wdeleted [] s)).

Definition finish (s : st) : st := reset_w s.

(* process_data_freed_pages_after_commit: So = system tree pages after the epilogue *)
Definition c_epilogue (So : list page) (s : st) : st :=
  let e := lastid s + 1 in
  let h := horizon e s in
  let X := flat (keys_lt h (dfreed s)) in
  match X with
  | [] => s
  | _ =>
    let s1 := set_alloc (minus (alloc s) X)
               (set_dfreed (keys_ge h (dfreed s)) (set_wdfreed (keys_ge h (dfreed s)) s)) in
    let s2 := mut_sys So s1 in
    let s3 := c_store_sfreed e s2 in
    set_lat (mkver e (wdata s3) (wsys s3))
      (set_unpers (wasc s3) (set_pca (wasc s3) (set_wasc []
        (set_pend [(e, lastid s)] (set_lastid e s3)))))
  end.
Definition epilogue_runs (s : st) : bool :=
  negb (nilb (flat (keys_lt (horizon (lastid s + 1) s) (dfreed s)))).

(* WriteTransaction::commit with Durability::Immediate.
   D' data pages after flush_and_close, Sd system pages of the committed (durable) root,
   So system pages after the epilogue (ignored if it does not run), qr quick_repair, pcf post_commit_free *)
Definition commit_dur_pre (D' Sd : list page) (qr : bool) (s : st) : st :=
  let s1 := c_restored s in
  let s2 := mut_data D' s1 in
  let s3 := c_adopt s2 in
  let s4 := c_store_dfreed s3 in
  let s5 := c_drain s4 in
  let s6 := mut_sys Sd s5 in
  if qr then c_store_sfreed (lastid s6) s6 else s6.
Definition commit_dur_mid (D' Sd : list page) (qr : bool) (s : st) : st :=
  c_apply_sp (c_post_free (c_publish_dur (commit_dur_pre D' Sd qr s))).
Definition commit_dur (D' Sd So : list page) (qr pcf : bool) (s : st) : st :=
  let s9 := commit_dur_mid D' Sd qr s in
  finish (if pcf then c_epilogue So s9 else s9).

Definition ok_commit_dur (D' Sd So : list page) (qr pcf : bool) (s : st) : bool :=
  inw s &&
  let s1 := c_restored s in
  ok_data D' s1 &&
  let s5 := c_drain (c_store_dfreed (c_adopt (mut_data D' s1))) in
  ok_sys Sd s5 &&
  let s9 := commit_dur_mid D' Sd qr s in
  (if pcf && epilogue_runs s9 then
     let h := horizon (lastid s9 + 1) s9 in
     ok_sys So (set_alloc (minus (alloc s9) (flat (keys_lt h (dfreed s9)))) s9)
   else true).

(* -- non-durable commit -- *)

Definition n_store_ufreed (s : st) : st :=
  set_ufreed (add_entry (lastid s) (wdfr s) (ufreed s)) (set_wdfr [] s).

(* process_freed_pages_nondurable: reclaim unpersisted pages named by entries below the horizon *)
Definition n_reclaim (s : st) : st :=
  let fu := nd_horizon (lastid s) s in
  let R := inter (flat (keys_lt fu (ufreed s)) ++ flat (keys_lt fu (sfreed s))) (unpers s) in
  set_alloc (minus (alloc s) R)
    (set_ufreed (tab_minus (ufreed s) R) (set_sfreed (tab_minus (sfreed s) R)
      (set_unpers (minus (unpers s) R) (set_pca (minus (pca s) R) s)))).

(* system pages unlinked by a non-durable commit: persisted ones are recorded, unpersisted ones are
   freed right after the commit (post_commit_frees); returns the state and the latter *)
Definition n_store_sfreed (s : st) : st :=
  set_sfreed (add_entry (lastid s) (minus (wsfr s) (unpers s)) (sfreed s))
    (set_wsfr (inter (wsfr s) (unpers s)) s).

Definition n_publish (s : st) : st :=
  set_lat (mkver (lastid s) (wdata s) (wsys s)) (set_dfreed (wdfreed s)
    (set_unpers (unpers s ++ wasc s) (set_wasc []
      (set_pend (pend s ++ [(lastid s, vid (dur s))]) s)))).

Definition n_post_free (s : st) : st :=
  set_alloc (minus (alloc s) (wsfr s))
    (set_unpers (minus (unpers s) (wsfr s)) (set_pca (minus (pca s) (wsfr s)) (set_wsfr [] s))).

Definition commit_nd_pre (D' Sd : list page) (s : st) : st :=
  n_store_sfreed (mut_sys Sd (n_reclaim (n_store_ufreed (mut_data D' (c_restored s))))).
Definition commit_nd (D' Sd : list page) (s : st) : st :=
  finish (c_apply_sp (n_post_free (n_publish (commit_nd_pre D' Sd s)))).
Definition ok_commit_nd (D' Sd : list page) (s : st) : bool :=
  inw s && match wcreated s, wdeleted s with [], [] => true | _, _ => false end &&
  let s1 := c_restored s in
  ok_data D' s1 &&
  ok_sys Sd (n_reclaim (n_store_ufreed (mut_data D' s1))).

(* reopen after a clean close (the close commit is a separate commit_dur step): only persistent
   savepoints stay registered; the tracker restarts after the last committed id and Database::new
   runs one aborted write transaction *)
Definition reopen (s : st) : st :=
  set_pins (filter ppersist (pins s)) (set_lastid (vid (lat s) + 2) s).
Definition ok_reopen (s : st) : bool :=
  negb (inw s) && match pend s with [] => true | _ => false end.

(* ---------------------------------------------------------------- invariant and its checker *)

Definition keys_le (b : N) (t : ftab) : Prop := forall e, In e t -> fst e <= b.
Definition keys_leb (b : N) (t : ftab) : bool := forallb (fun e => N.leb (fst e) b) t.

Definition pin_ok (s : st) (x : pin) : Prop :=
  Sub (ppages x) (cover_c (ptxn x) s) /\ Sub (ppages x) (cover_w (ptxn x) s) /\
  ptxn x <= vid (lat s) /\
  (ptxn x <= vid (dur s) \/ In (ptxn x) (map fst (pend s))) /\
  (ptxn x <= vid (dur s) -> Dis (unpers s) (ppages x)).
Definition pin_okb (s : st) (x : pin) : bool :=
  inclb (ppages x) (cover_c (ptxn x) s) && inclb (ppages x) (cover_w (ptxn x) s) &&
  N.leb (ptxn x) (vid (lat s)) &&
  (N.leb (ptxn x) (vid (dur s)) || memN (ptxn x) (map fst (pend s))) &&
  (negb (N.leb (ptxn x) (vid (dur s))) || disjb (unpers s) (ppages x)).

Definition pend_ok (s : st) (e : N * N) : Prop :=
  snd e = vid (dur s) /\ vid (dur s) < fst e /\ fst e <= vid (lat s).
Definition pend_okb (s : st) (e : N * N) : bool :=
  N.eqb (snd e) (vid (dur s)) && N.ltb (vid (dur s)) (fst e) && N.leb (fst e) (vid (lat s)).

Definition normal_w (s : st) : Prop :=
  wdata s = vdata (lat s) /\ wsys s = vsys (lat s) /\ wasc s = [] /\ wdfr s = [] /\ wsfr s = [] /\
  wdfreed s = dfreed s /\ wrest s = None /\ wcreated s = [] /\ wdeleted s = [].

Record Inv (s : st) : Prop := mkInv {
  (* O1: exact, disjoint accounting of every allocated page -- committed view (what an abort returns to) *)
  i_bal_c : Bal (alloc s) (owned_c s ++ wasc s);
  (* O1 for the working view of the write transaction (what a commit publishes) *)
  i_bal_w : Bal (alloc s) (owned_w s);
  (* O2/O3: every pinned version is covered by the tree or by freed entries recorded after it *)
  i_pins : forall x, In x (pins s) -> pin_ok s x;
  i_dur_c : Sub (vdata (dur s)) (cover_c (vid (dur s)) s) /\ Sub (vsys (dur s)) (scover_c (vid (dur s)) s);
  i_dur_w : Sub (vdata (dur s)) (cover_w (vid (dur s)) s) /\ Sub (vsys (dur s)) (scover_w (vid (dur s)) s);
  i_lat : Sub (vdata (lat s)) (wdata s ++ wdfr s) /\ Sub (vsys (lat s)) (wsys s ++ wsfr s);
  (* O4: unpersisted pages are named by no durable root *)
  i_unp : Dis (unpers s) (vdata (dur s) ++ vsys (dur s)) /\ Sub (pca s) (unpers s);
  (* ids *)
  i_ids : vid (dur s) <= vid (lat s) /\ vid (lat s) <= lastid s /\ (inw s = true -> vid (lat s) < lastid s);
  i_pend : forall e, In e (pend s) -> pend_ok s e;
  i_keys : keys_le (vid (lat s)) (dfreed s) /\ keys_le (vid (lat s)) (sfreed s) /\
           keys_le (vid (lat s)) (ufreed s) /\ keys_le (vid (lat s)) (wdfreed s);
  i_rest : forall r, wrest s = Some r -> r <= vid (lat s);
  i_nopend : pend s = [] -> lat s = dur s /\ unpers s = [];
  i_norm : inw s = false -> normal_w s
}.

Definition veqb (a b : ver) : bool :=
  N.eqb (vid a) (vid b) && seteqb (vdata a) (vdata b) && seteqb (vsys a) (vsys b).

(* boolean checker for the observable part of the invariant; `lat = dur` and the normal form are
   checked up to set equality (the snapshot is unordered), which is all the consequences below use *)
Definition balb (a o : list page) : bool := nodupb a && nodupb o && seteqb a o.

Definition own_checkb (s : st) : bool :=
  balb (alloc s) (owned_c s ++ wasc s) &&
  balb (alloc s) (owned_w s) &&
  forallb (pin_okb s) (pins s) &&
  inclb (vdata (dur s)) (cover_c (vid (dur s)) s) && inclb (vsys (dur s)) (scover_c (vid (dur s)) s) &&
  inclb (vdata (dur s)) (cover_w (vid (dur s)) s) && inclb (vsys (dur s)) (scover_w (vid (dur s)) s) &&
  inclb (vdata (lat s)) (wdata s ++ wdfr s) && inclb (vsys (lat s)) (wsys s ++ wsfr s) &&
  disjb (unpers s) (vdata (dur s) ++ vsys (dur s)) && inclb (pca s) (unpers s) &&
  N.leb (vid (dur s)) (vid (lat s)) && N.leb (vid (lat s)) (lastid s) &&
  (negb (inw s) || N.ltb (vid (lat s)) (lastid s)) &&
  forallb (pend_okb s) (pend s) &&
  keys_leb (vid (lat s)) (dfreed s) && keys_leb (vid (lat s)) (sfreed s) &&
  keys_leb (vid (lat s)) (ufreed s) && keys_leb (vid (lat s)) (wdfreed s) &&
  match wrest s with Some r => N.leb r (vid (lat s)) | None => true end &&
  match pend s with [] => veqb (lat s) (dur s) && nilb (unpers s) | _ => true end.

(* the part of Inv that own_checkb establishes (everything except the syntactic normal form and
   syntactic lat = dur, which are facts about the model's representation, not about ownership) *)
Record InvObs (s : st) : Prop := mkInvObs {
  o_bal_c : Bal (alloc s) (owned_c s ++ wasc s);
  o_bal_w : Bal (alloc s) (owned_w s);
  o_pins : forall x, In x (pins s) -> pin_ok s x;
  o_dur_c : Sub (vdata (dur s)) (cover_c (vid (dur s)) s) /\ Sub (vsys (dur s)) (scover_c (vid (dur s)) s);
  o_dur_w : Sub (vdata (dur s)) (cover_w (vid (dur s)) s) /\ Sub (vsys (dur s)) (scover_w (vid (dur s)) s);
  o_lat : Sub (vdata (lat s)) (wdata s ++ wdfr s) /\ Sub (vsys (lat s)) (wsys s ++ wsfr s);
  o_unp : Dis (unpers s) (vdata (dur s) ++ vsys (dur s)) /\ Sub (pca s) (unpers s);
  o_ids : vid (dur s) <= vid (lat s) /\ vid (lat s) <= lastid s /\ (inw s = true -> vid (lat s) < lastid s);
  o_pend : forall e, In e (pend s) -> pend_ok s e;
  o_keys : keys_le (vid (lat s)) (dfreed s) /\ keys_le (vid (lat s)) (sfreed s) /\
           keys_le (vid (lat s)) (ufreed s) /\ keys_le (vid (lat s)) (wdfreed s);
  o_rest : forall r, wrest s = Some r -> r <= vid (lat s)
}.

(* ---------------------------------------------------------------- step language *)

Inductive op :=
| OBeginWrite
| OMutData (D' : list page)
| OMutSys (S' : list page)
| OBeginRead (h : N)
| ODropPin (h : N)
| OSpCreate (h : N) (persist : bool)
| OSpDelete (h : N)
| ORestore (h : N)
| OAbort
| OCommitDur (D' Sd So : list page) (qr pcf : bool)
| OCommitNd (D' Sd : list page)
| OReopen.

Definition step (s : st) (o : op) : st :=
  match o with
  | OBeginWrite => begin_write s
  | OMutData D' => mut_data D' s
  | OMutSys S' => mut_sys S' s
  | OBeginRead h => begin_read h s
  | ODropPin h => drop_pin h s
  | OSpCreate h p => sp_create h p s
  | OSpDelete h => sp_delete h s
  | ORestore h => restore h s
  | OAbort => abort s
  | OCommitDur D' Sd So qr pcf => commit_dur D' Sd So qr pcf s
  | OCommitNd D' Sd => commit_nd D' Sd s
  | OReopen => reopen s
  end.

(* side conditions on the oracle choices and on the caller (checked on every run) *)
Definition oracle_ok (s : st) (o : op) : bool :=
  match o with
  | OBeginWrite => negb (inw s)
  | OMutData D' => inw s && ok_data D' s
  | OMutSys S' => inw s && ok_sys S' s
  | OBeginRead h => ok_new_handle h s
  | ODropPin h => match find_pin h (pins s) with
                  | Some x => negb (ppersist x) | None => false end
  | OSpCreate h p => inw s && ok_new_handle h s
  | OSpDelete h => inw s && match find_pin h (pins s) with
                            | Some x => ppersist x && negb (memN h (wdeleted s)) | None => false end
  | ORestore h => inw s && ok_restore h s
  | OAbort => inw s
  | OCommitDur D' Sd So qr pcf => ok_commit_dur D' Sd So qr pcf s
  | OCommitNd D' Sd => ok_commit_nd D' Sd s
  | OReopen => ok_reopen s
  end.

Definition run (h : list op) (s : st) : st := fold_left step h s.
