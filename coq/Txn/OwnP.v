(* Proofs about the page-ownership state machine of Own.v *)
From Coq Require Import List PArith NArith Bool MSets.MSetPositive Permutation Lia.
From RV Require Import Txn.PSet Txn.PSetP Txn.Own.
Import ListNotations.

(* ================================================================ pointwise multiplicities *)

Lemma cnt_nil : forall p, cnt p [] = 0%nat.
Proof. reflexivity. Qed.

Lemma cnt_app : forall p a b, cnt p (a ++ b) = (cnt p a + cnt p b)%nat.
Proof. intros. unfold cnt. apply count_occ_app. Qed.

Lemma In_cnt : forall p l, In p l <-> (cnt p l > 0)%nat.
Proof. intros. unfold cnt. apply count_occ_In. Qed.

Lemma notIn_cnt : forall p l, ~ In p l <-> cnt p l = 0%nat.
Proof. intros. unfold cnt. apply count_occ_not_In. Qed.

Lemma cnt_filter : forall (f : positive -> bool) p l,
  cnt p (filter f l) = if f p then cnt p l else 0%nat.
Proof.
  intros f p. induction l as [|a l IH]; simpl.
  - destruct (f p); reflexivity.
  - destruct (f a) eqn:Ea; unfold cnt in *; simpl.
    + destruct (Pos.eq_dec a p) as [->|Hne].
      * rewrite Ea in *. rewrite IH. reflexivity.
      * exact IH.
    + destruct (Pos.eq_dec a p) as [->|Hne].
      * rewrite Ea in *. exact IH.
      * exact IH.
Qed.

Lemma mem_cnt : forall p x, PS.mem p (mkset x) = match cnt p x with O => false | S _ => true end.
Proof.
  intros p x. destruct (cnt p x) eqn:E.
  - apply mkset_false. apply notIn_cnt. exact E.
  - apply mkset_spec. apply In_cnt. lia.
Qed.

Lemma cnt_minus : forall p l x,
  cnt p (minus l x) = match cnt p x with O => cnt p l | S _ => 0%nat end.
Proof.
  intros. unfold minus. rewrite cnt_filter, mem_cnt. destruct (cnt p x); reflexivity.
Qed.

Lemma cnt_inter : forall p l x,
  cnt p (inter l x) = match cnt p x with O => 0%nat | S _ => cnt p l end.
Proof.
  intros. unfold inter. rewrite cnt_filter, mem_cnt. destruct (cnt p x); reflexivity.
Qed.

Lemma cnt_perm : forall p a b, Permutation a b -> cnt p a = cnt p b.
Proof.
  intros p a b H. induction H; simpl; try congruence.
  - unfold cnt in *. simpl. destruct (Pos.eq_dec x p); congruence.
  - unfold cnt. simpl. destruct (Pos.eq_dec x p); destruct (Pos.eq_dec y p); reflexivity.
Qed.

Lemma cnt_flat_app : forall p a b, cnt p (flat (a ++ b)) = (cnt p (flat a) + cnt p (flat b))%nat.
Proof. intros. rewrite flat_app. apply cnt_app. Qed.

Lemma cnt_flat_add_entry : forall p k ps t,
  cnt p (flat (add_entry k ps t)) = (cnt p (flat t) + cnt p ps)%nat.
Proof. intros. rewrite flat_add_entry. apply cnt_app. Qed.

Lemma cnt_flat_split : forall (f : N * list positive -> bool) p t,
  cnt p (flat t) = (cnt p (flat (filter f t)) + cnt p (flat (filter (fun e => negb (f e)) t)))%nat.
Proof. intros. rewrite <- cnt_app. apply cnt_perm. apply flat_filter_split. Qed.

Lemma cnt_flat_keys : forall h p t,
  cnt p (flat t) = (cnt p (flat (keys_lt h t)) + cnt p (flat (keys_ge h t)))%nat.
Proof. intros. apply cnt_flat_split. Qed.

Lemma cnt_flat_late : forall r p t,
  cnt p (flat t) = (cnt p (flat (late r t)) + cnt p (flat (early r t)))%nat.
Proof. intros. apply cnt_flat_split. Qed.

Lemma cnt_flat_tab_minus : forall p t x,
  cnt p (flat (tab_minus t x)) = match cnt p x with O => cnt p (flat t) | S _ => 0%nat end.
Proof. intros. rewrite flat_tab_minus. apply cnt_minus. Qed.

(* ================================================================ booleans -> pointwise *)

Lemma NoDup_cnt : forall l, NoDup l <-> forall p, (cnt p l <= 1)%nat.
Proof. intros. unfold cnt. apply NoDup_count_occ. Qed.

Lemma balb_sound : forall a o, balb a o = true -> Bal a o.
Proof.
  intros a o H. unfold balb in H. rewrite !andb_true_iff in H. destruct H as [[Ha Ho] He].
  apply nodupb_sound in Ha. apply nodupb_sound in Ho. apply seteqb_spec in He.
  rewrite NoDup_cnt in Ha, Ho. intros p. specialize (Ha p). specialize (Ho p). specialize (He p).
  rewrite !In_cnt in He. split; [|exact Ho]. lia.
Qed.

Lemma Bal_NoDup_alloc : forall a o, Bal a o -> NoDup a.
Proof. intros a o H. apply NoDup_cnt. intros p. destruct (H p). lia. Qed.

Lemma Bal_NoDup_owners : forall a o, Bal a o -> NoDup o.
Proof. intros a o H. apply NoDup_cnt. intros p. destruct (H p). lia. Qed.

Lemma Bal_seteq : forall a o, Bal a o -> seteq a o.
Proof. intros a o H p. rewrite !In_cnt. destruct (H p). lia. Qed.

Lemma balb_complete : forall a o, Bal a o -> balb a o = true.
Proof.
  intros a o H. unfold balb.
  rewrite (nodupb_complete _ (Bal_NoDup_alloc _ _ H)), (nodupb_complete _ (Bal_NoDup_owners _ _ H)).
  simpl. apply seteqb_spec. apply Bal_seteq. exact H.
Qed.

Lemma inclb_Sub : forall x y, inclb x y = true <-> Sub x y.
Proof.
  intros x y. rewrite inclb_spec. unfold incl, Sub. split; intros H p; specialize (H p);
  rewrite !In_cnt in *; exact H.
Qed.

Lemma disjb_Dis : forall x y, disjb x y = true <-> Dis x y.
Proof.
  intros x y. rewrite disjb_spec. unfold disjoint, Dis. split; intros H p Hp.
  - apply notIn_cnt. apply H. apply In_cnt. exact Hp.
  - apply notIn_cnt. apply H. apply In_cnt. exact Hp.
Qed.

Lemma Sub_incl : forall x y, Sub x y <-> incl x y.
Proof. intros. rewrite <- inclb_Sub. apply inclb_spec. Qed.

Lemma Dis_disjoint : forall x y, Dis x y <-> disjoint x y.
Proof. intros. rewrite <- disjb_Dis. apply disjb_spec. Qed.

Lemma keys_leb_spec : forall b t, keys_leb b t = true <-> keys_le b t.
Proof.
  intros b t. unfold keys_leb, keys_le. rewrite forallb_forall.
  split; intros H e He; specialize (H e He); apply N.leb_le; exact H.
Qed.

Lemma memN_spec : forall k l, memN k l = true <-> In k l.
Proof.
  intros k l. unfold memN. rewrite existsb_exists. split.
  - intros (x & Hx & He). apply N.eqb_eq in He. subst. exact Hx.
  - intros H. exists k. split; [exact H | apply N.eqb_refl].
Qed.

Lemma pin_okb_sound : forall s x, pin_okb s x = true -> pin_ok s x.
Proof.
  intros s x H. unfold pin_okb in H. rewrite !andb_true_iff in H.
  destruct H as [[[[[H1 H2] H3] H4] H5] H6]. unfold pin_ok.
  apply inclb_Sub in H1. apply inclb_Sub in H2. apply N.leb_le in H3. apply nodupb_sound in H6.
  repeat split; try assumption.
  - apply orb_true_iff in H4. destruct H4 as [H4|H4]; [left; apply N.leb_le; exact H4 | right; apply memN_spec; exact H4].
  - intros Hle. apply orb_true_iff in H5. destruct H5 as [H5|H5].
    + apply negb_true_iff in H5. apply N.leb_le in Hle. congruence.
    + apply disjb_Dis. exact H5.
Qed.

Lemma pend_okb_sound : forall s e, pend_okb s e = true -> pend_ok s e.
Proof.
  intros s e H. unfold pend_okb in H. rewrite !andb_true_iff in H. destruct H as [[H1 H2] H3].
  unfold pend_ok. apply N.eqb_eq in H1. apply N.ltb_lt in H2. apply N.leb_le in H3. auto.
Qed.

Theorem own_check_sound_obs : forall s, own_checkb s = true -> InvObs s.
Proof.
  intros s H. unfold own_checkb in H. rewrite !andb_true_iff in H.
  repeat match goal with H : _ /\ _ |- _ => destruct H end.
  constructor.
  - apply balb_sound; assumption.
  - apply balb_sound; assumption.
  - intros x Hx. apply pin_okb_sound.
    match goal with H : forallb (pin_okb s) _ = true |- _ => rewrite forallb_forall in H; apply H; exact Hx end.
  - split; apply inclb_Sub; assumption.
  - split; apply inclb_Sub; assumption.
  - split; apply inclb_Sub; assumption.
  - split; [apply disjb_Dis | apply inclb_Sub]; assumption.
  - repeat split.
    + apply N.leb_le; assumption.
    + apply N.leb_le; assumption.
    + intros Hw. match goal with H : negb (inw s) || _ = true |- _ => rewrite Hw in H; simpl in H; apply N.ltb_lt in H; exact H end.
  - intros e He. apply pend_okb_sound.
    match goal with H : forallb (pend_okb s) _ = true |- _ => rewrite forallb_forall in H; apply H; exact He end.
  - repeat split; apply keys_leb_spec; assumption.
  - intros r Hr. match goal with H : match wrest s with _ => _ end = true |- _ => rewrite Hr in H; apply N.leb_le in H; exact H end.
Qed.

(* ================================================================ automation *)

Lemma Bal_pw : forall a o, Bal a o -> forall p, cnt p a = cnt p o /\ (cnt p o <= 1)%nat.
Proof. intros a o H. exact H. Qed.

Lemma nodupb_cnt : forall l, nodupb l = true -> forall p, (cnt p l <= 1)%nat.
Proof. intros l H. apply NoDup_cnt. apply nodupb_sound. exact H. Qed.

Lemma disjb_cnt : forall x y, disjb x y = true -> forall p, (cnt p x > 0)%nat -> cnt p y = 0%nat.
Proof. intros x y H. apply disjb_Dis. exact H. Qed.

(* unfold the step functions / views and reduce projections of the (flat) constructor applications *)
Ltac red_st :=
  unfold owned_c, owned_w, cover_c, cover_w, scover_c, scover_w, eff_ufreed,
    mut_data, mut_sys, begin_write, begin_read, add_pin, drop_pin, set_pins, sp_delete, abort, reset_w,
    c_restored, c_adopt, c_store_dfreed, c_drain, c_store_sfreed, c_publish_dur, c_post_free, c_apply_sp,
    finish, reset_w, n_store_ufreed, n_reclaim, n_store_sfreed, n_publish, n_post_free, reopen, e_drain, e_publish in *;
  cbn [alloc lastid dur lat dfreed sfreed ufreed unpers pca pins pend inw wdata wsys wasc wdfr wsfr
    wdfreed wrest wcreated wdeleted vid vdata vsys ph ptxn ppages ppersist] in *.

(* rewrite multiplicities of compound lists into multiplicities of their parts *)
Ltac cnt_norm :=
  repeat (rewrite ?cnt_app, ?cnt_minus, ?cnt_inter, ?cnt_nil, ?cnt_flat_add_entry, ?cnt_flat_app,
            ?cnt_flat_tab_minus in *).

Ltac split_matches :=
  repeat match goal with
  | |- context[match ?c with O => _ | S _ => _ end] => destruct c eqn:?
  | H : context[match ?c with O => _ | S _ => _ end] |- _ => destruct c eqn:?
  end.

(* instantiate every pointwise hypothesis at p *)
Ltac inst_at p :=
  repeat match goal with
  | H : Bal _ _ |- _ => let H' := fresh "Hb" in pose proof (H p) as H'; clear H
  | H : Sub _ _ |- _ => let H' := fresh "Hs" in pose proof (H p) as H'; clear H
  | H : Dis _ _ |- _ => let H' := fresh "Hd" in pose proof (H p) as H'; clear H
  | H : forall q : positive, _ |- _ => let H' := fresh "Hq" in pose proof (H p) as H'; clear H
  end.

Ltac pose_unique H :=
  let T := type of H in
  lazymatch goal with
  | _ : T |- _ => fail
  | _ => pose proof H
  end.

(* total = late + early and total = below + above the horizon, for every filtered table in sight *)
Ltac tab_facts p :=
  repeat match goal with
  | |- context[flat (late ?r ?t)] => pose_unique (cnt_flat_late r p t)
  | H : context[flat (late ?r ?t)] |- _ => pose_unique (cnt_flat_late r p t)
  | |- context[flat (early ?r ?t)] => pose_unique (cnt_flat_late r p t)
  | H : context[flat (early ?r ?t)] |- _ => pose_unique (cnt_flat_late r p t)
  | |- context[flat (keys_lt ?h ?t)] => pose_unique (cnt_flat_keys h p t)
  | H : context[flat (keys_lt ?h ?t)] |- _ => pose_unique (cnt_flat_keys h p t)
  | |- context[flat (keys_ge ?h ?t)] => pose_unique (cnt_flat_keys h p t)
  | H : context[flat (keys_ge ?h ?t)] |- _ => pose_unique (cnt_flat_keys h p t)
  end.

Ltac pw_core p := inst_at p; cnt_norm; tab_facts p; cnt_norm; split_matches; lia.

Ltac pw :=
  match goal with
  | |- Bal _ _ => let p := fresh "p" in intro p; pw_core p
  | |- Sub _ _ => let p := fresh "p" in intro p; pw_core p
  | |- Dis _ _ => let p := fresh "p" in intro p; pw_core p
  end.

Open Scope N_scope.

(* ================================================================ small facts *)

Lemma minN_fold_le : forall l a x, In x (a :: l) -> fold_left N.min l a <= x.
Proof.
  induction l as [|b l IH]; intros a x H; simpl in *.
  - destruct H as [->|[]]. apply N.le_refl.
  - destruct H as [->|[->|H]].
    + eapply N.le_trans; [apply IH; left; reflexivity | apply N.le_min_l].
    + eapply N.le_trans; [apply IH; left; reflexivity | apply N.le_min_r].
    + apply IH. right. exact H.
Qed.

Lemma minN_le : forall l m x, minN l = Some m -> In x l -> m <= x.
Proof.
  intros l m x H Hx. destruct l as [|a l]; [destruct Hx|]. simpl in H. inversion H; subst.
  apply minN_fold_le. exact Hx.
Qed.

Lemma minN_none : forall l, minN l = None -> l = [].
Proof. intros [|a l] H; [reflexivity | discriminate]. Qed.

Lemma minN_in : forall l m, minN l = Some m -> In m l.
Proof.
  intros [|a l] m H; [discriminate|]. simpl in H. inversion H; subst. clear H.
  revert a. induction l as [|b l IH]; intros a; simpl.
  - left. reflexivity.
  - destruct (IH (N.min a b)) as [H|H].
    + rewrite <- H. destruct (N.min_spec a b) as [ [_ Hm] | [_ Hm] ]; rewrite Hm; auto.
    + right. right. exact H.
Qed.

(* filters on keys *)
Lemma late_keys_ge : forall h r t, h <= r + 1 -> late r (keys_ge h t) = late r t.
Proof.
  intros h r t Hh. unfold late, keys_ge. induction t as [|[k ps] t IH]; simpl; [reflexivity|].
  destruct (k <? h) eqn:E1; simpl; destruct (r <? k) eqn:E2; simpl; rewrite ?IH; try reflexivity.
  apply N.ltb_lt in E1. apply N.ltb_lt in E2. lia.
Qed.

Lemma late_nil_of_keys_le : forall r b t, keys_le b t -> b <= r -> late r t = [].
Proof.
  intros r b t Hk Hb. unfold late. induction t as [|e t IH]; simpl; [reflexivity|].
  assert (fst e <= b) by (apply Hk; left; reflexivity).
  destruct (r <? fst e) eqn:E; [apply N.ltb_lt in E; lia|].
  apply IH. intros e' He'. apply Hk. right. exact He'.
Qed.

Lemma keys_le_filter : forall b (f : N * list positive -> bool) t, keys_le b t -> keys_le b (filter f t).
Proof. intros b f t H e He. apply filter_In in He. apply H. tauto. Qed.

Lemma keys_le_app : forall b t u, keys_le b t -> keys_le b u -> keys_le b (t ++ u).
Proof. intros b t u H1 H2 e He. apply in_app_iff in He. destruct He; auto. Qed.

Lemma keys_le_add_entry : forall b k ps t, keys_le b t -> k <= b -> keys_le b (add_entry k ps t).
Proof.
  intros b k ps t H Hk e He. apply In_keys_add_entry in He. destruct He as [He | Heq]; [auto | subst e; exact Hk].
Qed.

Lemma keys_le_mono : forall b b' t, keys_le b t -> b <= b' -> keys_le b' t.
Proof. intros b b' t H Hb e He. specialize (H e He). lia. Qed.

Lemma keys_le_tab_minus : forall b t x, keys_le b t -> keys_le b (tab_minus t x).
Proof.
  intros b t x H e He. apply tab_minus_keys in He. destruct He as (e0 & H0 & Hk & _).
  rewrite <- Hk. apply H. exact H0.
Qed.

(* ================================================================ the invariant, split by view *)

Definition wpin_ok (s : st) (x : pin) : Prop :=
  Sub (ppages x) (cover_w (ptxn x) s) /\ ptxn x <= vid (lat s) /\
  (ptxn x <= vid (dur s) \/ In (ptxn x) (map fst (pend s))) /\
  (ptxn x <= vid (dur s) -> Dis (unpers s) (ppages x)) /\
  NoDup (ppages x).

(* keys of the freed tables: at most the latest committed id, or the id K under which the running
   write transaction (or the epilogue of a commit) records its own entries *)
Definition keysK (b K : N) (t : ftab) : Prop := forall e, In e t -> fst e <= b \/ fst e = K.

(* working view: what holds at every point inside a write transaction, including inside commit *)
Record InvW (K : N) (s : st) : Prop := mkInvW {
  w_bal : Bal (alloc s) (owned_w s);
  w_pins : forall x, In x (pins s) -> wpin_ok s x;
  w_dur : Sub (vdata (dur s)) (cover_w (vid (dur s)) s) /\ Sub (vsys (dur s)) (scover_w (vid (dur s)) s);
  w_unp : Dis (unpers s) (vdata (dur s) ++ vsys (dur s)) /\ Sub (pca s) (unpers s);
  w_ascd : Dis (vdata (dur s) ++ vsys (dur s)) (wasc s);
  w_ids : vid (dur s) <= vid (lat s) /\ vid (lat s) < K;
  w_pend : forall e, In e (pend s) -> pend_ok s e;
  w_keys : keysK (vid (lat s)) K (sfreed s) /\ keysK (vid (lat s)) K (ufreed s) /\ keysK (vid (lat s)) K (wdfreed s);
  w_rest : forall r, wrest s = Some r -> r <= vid (lat s);
  w_nopend : match pend s with [] => lat s = dur s /\ unpers s = []
             | _ => In (vid (lat s)) (map fst (pend s)) end
}.

(* the uncommitted pages of the transaction are not pinned (holds until post-commit allocations are adopted) *)
Definition pins_asc (s : st) : Prop := forall x, In x (pins s) -> Dis (ppages x) (wasc s).

(* committed view: what an abort returns to *)
Record InvC (s : st) : Prop := mkInvC {
  c_bal : Bal (alloc s) (owned_c s ++ wasc s);
  c_pins : forall x, In x (pins s) -> Sub (ppages x) (cover_c (ptxn x) s) /\ NoDup (ppages x);
  c_dur : Sub (vdata (dur s)) (cover_c (vid (dur s)) s) /\ Sub (vsys (dur s)) (scover_c (vid (dur s)) s);
  c_lat : Sub (vdata (lat s)) (wdata s ++ wdfr s) /\ Sub (vsys (lat s)) (wsys s ++ wsfr s);
  c_ids : vid (lat s) <= lastid s /\ (inw s = true -> vid (lat s) < lastid s);
  c_keys : keys_le (vid (lat s)) (dfreed s) /\ keys_le (vid (lat s)) (sfreed s) /\
           keys_le (vid (lat s)) (ufreed s) /\ keys_le (vid (lat s)) (wdfreed s);
  c_norm : inw s = false -> normal_w s
}.

Lemma keysK_of_le : forall b K t, keys_le b t -> keysK b K t.
Proof. intros b K t H e He. left. apply H. exact He. Qed.

Lemma cnt_late_le : forall r t p, (cnt p (flat (late r t)) <= cnt p (flat t))%nat.
Proof. intros. rewrite (cnt_flat_late r p t). lia. Qed.

Lemma cnt_early_le : forall r t p, (cnt p (flat (early r t)) <= cnt p (flat t))%nat.
Proof. intros. rewrite (cnt_flat_late r p t). lia. Qed.

Lemma cover_c_owned : forall r s p, (cnt p (cover_c r s) <= cnt p (owned_c s))%nat.
Proof.
  intros. unfold cover_c, owned_c. cnt_norm.
  pose proof (cnt_late_le r (dfreed s) p). pose proof (cnt_late_le r (ufreed s) p). lia.
Qed.

Lemma scover_c_owned : forall r s p, (cnt p (scover_c r s) <= cnt p (owned_c s))%nat.
Proof.
  intros. unfold scover_c, owned_c. cnt_norm. pose proof (cnt_late_le r (sfreed s) p). lia.
Qed.

Lemma Inv_W : forall s, Inv s -> inw s = true -> InvW (lastid s) s.
Proof.
  intros s [B2 B1 P Dc Dw L U I Pe K R Np Nm] Hw.
  constructor; try assumption.
  - intros x Hx. destruct (P x Hx) as (_ & H2 & H3 & H4 & H5 & H6). unfold wpin_ok. auto 10.
  - intros p Hp. destruct Dc as [Dc1 Dc2]. specialize (Dc1 p). specialize (Dc2 p).
    destruct (B2 p) as [_ Hle]. rewrite !cnt_app in *.
    pose proof (cover_c_owned (vid (dur s)) s p). pose proof (scover_c_owned (vid (dur s)) s p).
    assert (Hpos : (cnt p (owned_c s) > 0)%nat) by lia. lia.
  - destruct I as (I1 & I2 & I3). split; [exact I1 | apply I3; exact Hw].
  - destruct K as (K1 & K2 & K3 & K4). repeat split; apply keysK_of_le; assumption.
Qed.

Lemma Inv_C : forall s, Inv s -> InvC s.
Proof.
  intros s [B2 B1 P Dc Dw L U I Pe K R Np Nm].
  constructor; try assumption; try tauto.
  intros x Hx. destruct (P x Hx) as (H1 & _ & _ & _ & _ & H6). split; assumption.
Qed.

Lemma Inv_join : forall K s, InvW K s -> InvC s -> Inv s.
Proof.
  intros K0 s [B1 P Dw U A I Pe K R Np] [B2 Pc Dc L Ic Kc Nm].
  constructor; try assumption; try tauto.
  intros x Hx. destruct (P x Hx) as (H2 & H3 & H4 & H5 & _). destruct (Pc x Hx) as [Pc1 Pc2]. unfold pin_ok. auto 10.
Qed.

Lemma Inv_pins_asc : forall s, Inv s -> pins_asc s.
Proof.
  intros s H x Hx p Hp. destruct H as [B2 _ P _ _ _ _ _ _ _ _ _ _].
  destruct (P x Hx) as (H1 & _). specialize (H1 p Hp). destruct (B2 p) as [_ Hle].
  pose proof (cover_c_owned (ptxn x) s p). rewrite cnt_app in Hle. lia.
Qed.
