(* Proofs about the page-ownership state machine of Own.v *)
From Coq Require Import List PArith NArith Bool MSets.MSetPositive Permutation Lia.
From RV Require Import Txn.PSet Txn.PSetP Txn.Own.
Import ListNotations.

(* ================================================================ pointwise multiplicities *)

Lemma cnt_nil : forall p, cnt p [] = 0%nat.
Proof. reflexivity. Qed.

Lemma cnt_app : forall p a b, cnt p (a ++ b) = (cnt p a + cnt p b)%nat.
Proof. intros. unfold cnt. apply count_occ_app. Qed.

Lemma In_cnt : forall p l, In p l <-> (cnt p l > 0)%nat.
Proof. intros. unfold cnt. apply count_occ_In. Qed.

Lemma notIn_cnt : forall p l, ~ In p l <-> cnt p l = 0%nat.
Proof. intros. unfold cnt. apply count_occ_not_In. Qed.

Lemma cnt_filter : forall (f : positive -> bool) p l,
  cnt p (filter f l) = if f p then cnt p l else 0%nat.
Proof.
  intros f p. induction l as [|a l IH]; simpl.
  - destruct (f p); reflexivity.
  - destruct (f a) eqn:Ea; unfold cnt in *; simpl.
    + destruct (Pos.eq_dec a p) as [->|Hne].
      * rewrite Ea in *. rewrite IH. reflexivity.
      * exact IH.
    + destruct (Pos.eq_dec a p) as [->|Hne].
      * rewrite Ea in *. exact IH.
      * exact IH.
Qed.

Lemma mem_cnt : forall p x, PS.mem p (mkset x) = match cnt p x with O => false | S _ => true end.
Proof.
  intros p x. destruct (cnt p x) eqn:E.
  - apply mkset_false. apply notIn_cnt. exact E.
  - apply mkset_spec. apply In_cnt. lia.
Qed.

Lemma cnt_minus : forall p l x,
  cnt p (minus l x) = match cnt p x with O => cnt p l | S _ => 0%nat end.
Proof.
  intros. unfold minus. rewrite cnt_filter, mem_cnt. destruct (cnt p x); reflexivity.
Qed.

Lemma cnt_inter : forall p l x,
  cnt p (inter l x) = match cnt p x with O => 0%nat | S _ => cnt p l end.
Proof.
  intros. unfold inter. rewrite cnt_filter, mem_cnt. destruct (cnt p x); reflexivity.
Qed.

Lemma cnt_perm : forall p a b, Permutation a b -> cnt p a = cnt p b.
Proof.
  intros p a b H. induction H; simpl; try congruence.
  - unfold cnt in *. simpl. destruct (Pos.eq_dec x p); congruence.
  - unfold cnt. simpl. destruct (Pos.eq_dec x p); destruct (Pos.eq_dec y p); reflexivity.
Qed.

Lemma cnt_flat_app : forall p a b, cnt p (flat (a ++ b)) = (cnt p (flat a) + cnt p (flat b))%nat.
Proof. intros. rewrite flat_app. apply cnt_app. Qed.

Lemma cnt_flat_add_entry : forall p k ps t,
  cnt p (flat (add_entry k ps t)) = (cnt p (flat t) + cnt p ps)%nat.
Proof. intros. rewrite flat_add_entry. apply cnt_app. Qed.

Lemma cnt_flat_split : forall (f : N * list positive -> bool) p t,
  cnt p (flat t) = (cnt p (flat (filter f t)) + cnt p (flat (filter (fun e => negb (f e)) t)))%nat.
Proof. intros. rewrite <- cnt_app. apply cnt_perm. apply flat_filter_split. Qed.

Lemma cnt_flat_keys : forall h p t,
  cnt p (flat t) = (cnt p (flat (keys_lt h t)) + cnt p (flat (keys_ge h t)))%nat.
Proof. intros. apply cnt_flat_split. Qed.

Lemma cnt_flat_late : forall r p t,
  cnt p (flat t) = (cnt p (flat (late r t)) + cnt p (flat (early r t)))%nat.
Proof. intros. apply cnt_flat_split. Qed.

Lemma cnt_flat_tab_minus : forall p t x,
  cnt p (flat (tab_minus t x)) = match cnt p x with O => cnt p (flat t) | S _ => 0%nat end.
Proof. intros. rewrite flat_tab_minus. apply cnt_minus. Qed.

(* ================================================================ booleans -> pointwise *)

Lemma NoDup_cnt : forall l, NoDup l <-> forall p, (cnt p l <= 1)%nat.
Proof. intros. unfold cnt. apply NoDup_count_occ. Qed.

Lemma balb_sound : forall a o, balb a o = true -> Bal a o.
Proof.
  intros a o H. unfold balb in H. rewrite !andb_true_iff in H. destruct H as [[Ha Ho] He].
  apply nodupb_sound in Ha. apply nodupb_sound in Ho. apply seteqb_spec in He.
  rewrite NoDup_cnt in Ha, Ho. intros p. specialize (Ha p). specialize (Ho p). specialize (He p).
  rewrite !In_cnt in He. split; [|exact Ho]. lia.
Qed.

Lemma Bal_NoDup_alloc : forall a o, Bal a o -> NoDup a.
Proof. intros a o H. apply NoDup_cnt. intros p. destruct (H p). lia. Qed.

Lemma Bal_NoDup_owners : forall a o, Bal a o -> NoDup o.
Proof. intros a o H. apply NoDup_cnt. intros p. destruct (H p). lia. Qed.

Lemma Bal_seteq : forall a o, Bal a o -> seteq a o.
Proof. intros a o H p. rewrite !In_cnt. destruct (H p). lia. Qed.

Lemma balb_complete : forall a o, Bal a o -> balb a o = true.
Proof.
  intros a o H. unfold balb.
  rewrite (nodupb_complete _ (Bal_NoDup_alloc _ _ H)), (nodupb_complete _ (Bal_NoDup_owners _ _ H)).
  simpl. apply seteqb_spec. apply Bal_seteq. exact H.
Qed.

Lemma inclb_Sub : forall x y, inclb x y = true <-> Sub x y.
Proof.
  intros x y. rewrite inclb_spec. unfold incl, Sub. split; intros H p; specialize (H p);
  rewrite !In_cnt in *; exact H.
Qed.

Lemma disjb_Dis : forall x y, disjb x y = true <-> Dis x y.
Proof.
  intros x y. rewrite disjb_spec. unfold disjoint, Dis. split; intros H p Hp.
  - apply notIn_cnt. apply H. apply In_cnt. exact Hp.
  - apply notIn_cnt. apply H. apply In_cnt. exact Hp.
Qed.

Lemma Sub_incl : forall x y, Sub x y <-> incl x y.
Proof. intros. rewrite <- inclb_Sub. apply inclb_spec. Qed.

Lemma Dis_disjoint : forall x y, Dis x y <-> disjoint x y.
Proof. intros. rewrite <- disjb_Dis. apply disjb_spec. Qed.

Lemma keys_leb_spec : forall b t, keys_leb b t = true <-> keys_le b t.
Proof.
  intros b t. unfold keys_leb, keys_le. rewrite forallb_forall.
  split; intros H e He; specialize (H e He); apply N.leb_le; exact H.
Qed.

Lemma memN_spec : forall k l, memN k l = true <-> In k l.
Proof.
  intros k l. unfold memN. rewrite existsb_exists. split.
  - intros (x & Hx & He). apply N.eqb_eq in He. subst. exact Hx.
  - intros H. exists k. split; [exact H | apply N.eqb_refl].
Qed.

Lemma pin_okb_sound : forall s x, pin_okb s x = true -> pin_ok s x.
Proof.
  intros s x H. unfold pin_okb in H. rewrite !andb_true_iff in H.
  destruct H as [[[[H1 H2] H3] H4] H5]. unfold pin_ok.
  apply inclb_Sub in H1. apply inclb_Sub in H2. apply N.leb_le in H3.
  repeat split; try assumption.
  - apply orb_true_iff in H4. destruct H4 as [H4|H4]; [left; apply N.leb_le; exact H4 | right; apply memN_spec; exact H4].
  - intros Hle. apply orb_true_iff in H5. destruct H5 as [H5|H5].
    + apply negb_true_iff in H5. apply N.leb_le in Hle. congruence.
    + apply disjb_Dis. exact H5.
Qed.

Lemma pend_okb_sound : forall s e, pend_okb s e = true -> pend_ok s e.
Proof.
  intros s e H. unfold pend_okb in H. rewrite !andb_true_iff in H. destruct H as [[H1 H2] H3].
  unfold pend_ok. apply N.eqb_eq in H1. apply N.ltb_lt in H2. apply N.leb_le in H3. auto.
Qed.

Theorem own_check_sound_obs : forall s, own_checkb s = true -> InvObs s.
Proof.
  intros s H. unfold own_checkb in H. rewrite !andb_true_iff in H.
  repeat match goal with H : _ /\ _ |- _ => destruct H end.
  constructor.
  - apply balb_sound; assumption.
  - apply balb_sound; assumption.
  - intros x Hx. apply pin_okb_sound.
    match goal with H : forallb (pin_okb s) _ = true |- _ => rewrite forallb_forall in H; apply H; exact Hx end.
  - split; apply inclb_Sub; assumption.
  - split; apply inclb_Sub; assumption.
  - split; apply inclb_Sub; assumption.
  - split; [apply disjb_Dis | apply inclb_Sub]; assumption.
  - repeat split.
    + apply N.leb_le; assumption.
    + apply N.leb_le; assumption.
    + intros Hw. match goal with H : negb (inw s) || _ = true |- _ => rewrite Hw in H; simpl in H; apply N.ltb_lt in H; exact H end.
  - intros e He. apply pend_okb_sound.
    match goal with H : forallb (pend_okb s) _ = true |- _ => rewrite forallb_forall in H; apply H; exact He end.
  - repeat split; apply keys_leb_spec; assumption.
  - intros r Hr. match goal with H : match wrest s with _ => _ end = true |- _ => rewrite Hr in H; apply N.leb_le in H; exact H end.
Qed.
