(* C05 -- proofs about Latched.v: after a write transaction that ended with the storage latched, the next open
   serves the durable version from before begin_write, with exact page accounting (C11's open theorems) *)
From Coq Require Import List PArith NArith Bool Lia.
From RV Require Import Txn.PSet Txn.PSetP Txn.Own Txn.OwnP Txn.OwnThmP Txn.Abandon Txn.AbortP Txn.Poison Txn.PoisonP
  Reopen.Snapshot Reopen.SnapshotP Txn.Latched.
Import ListNotations.
Open Scope N_scope.

Lemma open_state_fields : forall i,
  let s' := fst (xopen i) in
  vdata (dur s') = vdata (d_ver i) /\ vsys (dur s') = vsys (d_ver i) /\ lat s' = dur s' /\
  dfreed s' = d_dfreed i /\ sfreed s' = d_sfreed i /\ pins s' = d_sps i /\
  ufreed s' = [] /\ unpers s' = [] /\ pend s' = [] /\
  (vid (dur s') = vid (d_ver i) \/ vid (dur s') = vid (d_ver i) + 1).
Proof.
  intros i. unfold xopen. destruct (trusted i); cbn [fst]; unfold open_load, open_rebuild, open_state, repair_ver;
    cbn [dur lat dfreed sfreed pins ufreed unpers pend vdata vsys vid]; repeat split; auto.
Qed.

(* THE completion of `latched_end_publishes_nothing`: for every history of Snapshot.v (all steps of Own.v,
   leaks, check_integrity, clean closes, crashes) reaching a session state x with no live write transaction,
   every call sequence of a write transaction begun there (complete calls and calls failed at any position),
   every way of ending it -- if the storage is latched at the end, the process that opens the file afterwards
   (i) is given exactly the durable image the session had before begin_write, hence
   (ii) serves the data and system trees of the durable version from before begin_write (non-durable commits
        of the session are lost, as after any crash), with its DATA_FREED / SYSTEM_FREED tables and its
        persistent savepoints, nothing pending, and
   (iii) starts with exactly the pages that image requires allocated -- nothing the abandoned transaction
        consumed stays consumed --, satisfies the ownership invariant, and so does everything done afterwards *)
Theorem latched_end_reopen_serves_pre : forall h cs e, xadmissible xinit h ->
  let x := xrun h xinit in
  inw (Snapshot.own x) = false -> calls_ok cs (start (Snapshot.own x)) ->
  iolatch (run_calls cs (start (Snapshot.own x))) = true ->
  let y := reopen_after x cs e in
  let s' := Snapshot.own y in
  nrep (session_after x cs e) = true /\ img (session_after x cs e) = img x /\
  y = reopened (img x) /\
  vdata (dur s') = vdata (dur (Snapshot.own x)) /\ vsys (dur s') = vsys (dur (Snapshot.own x)) /\ lat s' = dur s' /\
  dfreed s' = d_dfreed (img x) /\ sfreed s' = d_sfreed (img x) /\ pins s' = d_sps (img x) /\
  ufreed s' = [] /\ unpers s' = [] /\ pend s' = [] /\
  NoDup (alloc s') /\ (forall q, In q (alloc s') <-> In q (required (img x))) /\
  leaked y = [] /\ nrep y = false /\
  Inv s' /\ inw s' = false /\
  (forall h', admissible s' h' -> Inv (run h' s') /\ incl (pinned (run h' s')) (alloc (run h' s'))).
Proof.
  intros h cs e Ha x Hw Hok Hio y s'.
  pose proof (xinv_reach_init h Ha) as X. fold x in X.
  assert (Hl : iolatch (end_p e (run_calls cs (start (Snapshot.own x)))) = true).
  { destruct e; unfold end_p, commit_p, abort_p, drop_p; rewrite Hio;
      destruct (poisoned (run_calls cs (start (Snapshot.own x)))); cbn [fst iolatch]; try reflexivity; exact Hio. }
  assert (Ey : y = reopened (img x)) by reflexivity.
  assert (Es : s' = fst (xopen (img x))).
  { subst s'. rewrite Ey. unfold reopened. destruct (xopen (img x)); reflexivity. }
  split; [unfold session_after; cbn [nrep]; rewrite Hl; apply orb_true_r|].
  split; [reflexivity|]. split; [exact Ey|].
  destruct (open_state_fields (img x)) as (F1 & F2 & F3 & F4 & F5 & F6 & F7 & F8 & F9 & _).
  rewrite <- Es in F1, F2, F3, F4, F5, F6, F7, F8, F9. rewrite (x_ver x X) in F1, F2.
  destruct (open_sound (img x) (x_img x X)) as (I1 & B & _ & I2 & _ & _ & L1 & L2 & _).
  rewrite <- Es in I1, B, I2. destruct (Bal_exact _ _ B) as (N1 & _ & N3).
  repeat match goal with |- _ /\ _ => split end; try assumption.
  intros h' Ha'. split; [apply inv_reach; assumption | apply no_early_free; assumption].
Qed.
