(* Allocation records: WriteTransaction::commit with Durability::None preserves the invariant. *)
From Coq Require Import List PArith NArith Bool MSets.MSetPositive Permutation Lia.
From RV Require Import Txn.PSet Txn.PSetP Txn.Own Txn.OwnP Txn.OwnStepP Txn.OwnCommitP Txn.AllocRec.
From RV Require Import Txn.AllocRecBaseP Txn.AllocRecStepP Txn.AllocRecStep2P Txn.AllocRecCommitP Txn.AllocRecCommit2P Txn.AllocRecCommit3P.
Import ListNotations.
Open Scope N_scope.

(* the facts about unpersisted pages / post-commit allocations / uncommitted pages carried through the stages *)
Record UB (s : st) (r : arec) : Prop := mkUB {
  ub_u1 : Sub (flat (ualloc r)) (unpers s);
  ub_u2 : Dis (flat (dalloc r)) (unpers s);
  ub_u3 : Dis (flat (ualloc r)) (pca s);
  ub_p1 : Sub (pca s) (alloc s);
  ub_p2 : Dis (pca s) (wasc s);
  ub_ra : Dis (flat (recs r)) (wasc s)
}.

Lemma UB_of_RObs : forall s r, RObs s r -> UB s r.
Proof.
  intros s r [HC HW]. destruct (ro_u s r HC) as (U1 & U2 & U3). destruct (ro_p s r HW) as [P1 P2].
  constructor; try assumption. exact (ro_ra s r HW).
Qed.

(* ---------------------------------------------------------------- n_store_ufreed *)

Lemma cover_w_store_ufreed : forall s a p, wrest s = None -> a < lastid s ->
  cnt p (cover_w a (n_store_ufreed s)) = cnt p (cover_w a s).
Proof.
  intros s a p Hr Ha. unfold cover_w, eff_ufreed. red_st. rewrite Hr.
  rewrite !cnt_app. rewrite cnt_late_add_entry_gt by exact Ha. cbn. lia.
Qed.

Lemma RW_store_ufreed : forall b ex s r, RW b ex s r -> wrest s = None -> b < lastid s ->
  RW b ex (n_store_ufreed s) r.
Proof.
  intros b ex s r W Hr Hb. destruct (rw_kb _ _ _ _ W) as [_ Lb]. destruct (rw_t1 _ _ _ _ W) as [_ T1b].
  apply (RW_frame b ex s); try reflexivity; try assumption.
  all: try solve [apply N.le_refl].
  intros a p Ha. apply cover_w_store_ufreed; [exact Hr | lia].
Qed.

(* ---------------------------------------------------------------- process_freed_pages_nondurable (claim) *)

Lemma reclaim_set_eq : forall s, n_reclaim s =
  let R := reclaim_set s in
  mkst (minus (alloc s) R) (lastid s) (dur s) (lat s) (dfreed s) (tab_minus (sfreed s) R) (tab_minus (ufreed s) R)
       (minus (unpers s) R) (minus (pca s) R) (pins s) (pend s) (inw s) (wdata s) (wsys s) (wasc s) (wdfr s) (wsfr s)
       (wdfreed s) (wrest s) (wcreated s) (wdeleted s).
Proof. reflexivity. Qed.

Lemma cnt_reclaim_le : forall s p, (cnt p (reclaim_set s) > 0)%nat ->
  (cnt p (unpers s) > 0)%nat /\ (cnt p (flat (ufreed s)) + cnt p (flat (sfreed s)) > 0)%nat.
Proof.
  intros s p H. unfold reclaim_set in H. cbv zeta in H. rewrite cnt_inter in H.
  destruct (cnt p (unpers s)) eqn:E; [lia|]. split; [lia|]. rewrite cnt_app in H.
  pose proof (cnt_flat_keys (nd_horizon (lastid s) s) p (ufreed s)). pose proof (cnt_flat_keys (nd_horizon (lastid s) s) p (sfreed s)). lia.
Qed.

Lemma cover_w_reclaim : forall s a p, wrest s = None ->
  cnt p (cover_w a (n_reclaim s)) =
  (cnt p (wdata s) + cnt p (wdfr s) + cnt p (flat (late a (wdfreed s))) +
   match cnt p (reclaim_set s) with O => cnt p (flat (late a (ufreed s))) | S _ => 0 end)%nat.
Proof.
  intros s a p Hr. rewrite reclaim_set_eq. cbv zeta. unfold cover_w, eff_ufreed.
  cbn [alloc lastid dur lat dfreed sfreed ufreed unpers pca pins pend inw wdata wsys wasc wdfr wsfr wdfreed wrest wcreated wdeleted].
  rewrite Hr. rewrite !cnt_app. rewrite cnt_late_tab_minus. lia.
Qed.

Lemma RW_reclaim : forall b s r, RW b [] s r -> Bal (alloc s) (owned_w s) -> wrest s = None ->
  Dis (flat (dalloc r)) (unpers s) ->
  RW b [] (n_reclaim s) (set_ualloc (tab_minus (ualloc r) (reclaim_set s)) r).
Proof.
  intros b s r [V1 V2 V3 Vt [Kb Lb] KW O5 [T1a T1b] T2] B Hr U2.
  set (R := reclaim_set s).
  assert (Hpins : pins (n_reclaim s) = pins s) by reflexivity.
  assert (Hlat : lat (n_reclaim s) = lat s) by reflexivity.
  assert (Hwd : wdata (n_reclaim s) = wdata s) by reflexivity.
  assert (Hwa : wasc (n_reclaim s) = wasc s) by reflexivity.
  (* a reclaimed page is pending free: it is not in the tree, the queue or DATA_FREED *)
  assert (HRdis : forall a p, (cnt p R > 0)%nat ->
            (cnt p (wdata s) + cnt p (wdfr s) + cnt p (flat (late a (wdfreed s))) = 0)%nat).
  { intros a p Hp. destruct (cnt_reclaim_le s p Hp) as [_ Hf]. destruct (B p) as [_ Hle].
    unfold owned_w, eff_ufreed in Hle. rewrite Hr in Hle. rewrite !cnt_app in Hle.
    pose proof (cnt_late_le a (wdfreed s) p). lia. }
  assert (Hcw : forall a p, cnt p (cover_w a s) =
            (cnt p (wdata s) + cnt p (wdfr s) + cnt p (flat (late a (wdfreed s))) + cnt p (flat (late a (ufreed s))))%nat).
  { intros a p. unfold cover_w, eff_ufreed. rewrite Hr. rewrite !cnt_app. lia. }
  destruct r as [da ua tk on di va wi]. unfold set_ualloc, recs, RC, keys_rec_le in *.
  cbn [dalloc ualloc trk trk_on dirty valid winval] in *.
  constructor; unfold keys_rec_le, sp_pin, recs, RC; rewrite ?Hpins, ?Hlat, ?Hwd, ?Hwa;
    cbn [dalloc ualloc trk trk_on dirty valid winval]; try assumption.
  - split; [|exact Lb]. intros e He. apply in_app_iff in He. destruct He as [He|He].
    + apply Kb. apply in_app_iff. left. exact He.
    + apply tab_minus_keys in He. destruct He as (e1 & He1 & Hk & _). rewrite <- Hk. apply Kb. apply in_app_iff. right. exact He1.
  - intros e He p Hp. rewrite cover_w_reclaim by exact Hr. fold R.
    assert (Hold : (cnt p (cover_w (fst e) s) > 0)%nat /\ cnt p R = 0%nat).
    { apply in_app_iff in He. destruct He as [He|He].
      - split; [apply (KW e); [apply in_app_iff; left; exact He | exact Hp]|].
        assert (Hd : (cnt p (flat da) > 0)%nat) by (apply cnt_flat_pos; exists e; tauto).
        specialize (U2 p Hd). destruct (cnt p R) eqn:ER; [reflexivity|].
        assert (HR : (cnt p (reclaim_set s) > 0)%nat) by (fold R; lia). destruct (cnt_reclaim_le s p HR). lia.
      - unfold tab_minus in He. apply filter_In in He. destruct He as [He _]. apply in_map_iff in He.
        destruct He as (e1 & <- & He1). cbn [fst snd] in *. rewrite cnt_filter in Hp. rewrite mem_cnt in Hp. fold R in Hp.
        destruct (cnt p R) eqn:ER; [|cbn in Hp; lia]. cbn in Hp. split; [|reflexivity].
        apply (KW e1); [apply in_app_iff; right; exact He1 | exact Hp]. }
    destruct Hold as [Hc HR0]. rewrite HR0. rewrite Hcw in Hc. lia.
  - intros e x He Hni Hex Hp. destruct (O5 e x He Hni Hex Hp) as [O5a O5b]. split; intro p.
    + specialize (O5a p). rewrite cnt_minus in *. rewrite cover_w_reclaim by exact Hr. fold R. rewrite Hcw in O5a.
      rewrite !cnt_app in *. rewrite cnt_late_tab_minus. fold R.
      pose proof (HRdis (snd e) p). destruct (cnt p R); destruct (cnt p (ppages x)); lia.
    + specialize (O5b p). rewrite !cnt_app in *. rewrite cnt_late_tab_minus. fold R. destruct (cnt p R); lia.
  - split; assumption.
Qed.

Lemma UB_reclaim : forall s r, UB s r -> UB (n_reclaim s) (set_ualloc (tab_minus (ualloc r) (reclaim_set s)) r).
Proof.
  intros s r [U1 U2 U3 P1 P2 RA]. rewrite reclaim_set_eq. cbv zeta.
  destruct r as [da ua tk on di va wi]. unfold set_ualloc, recs in *. cbn [dalloc ualloc] in *.
  constructor; unfold recs; cbn [dalloc ualloc alloc unpers pca wasc].
  - intro p. rewrite flat_tab_minus, !cnt_minus. specialize (U1 p). destruct (cnt p (reclaim_set s)); lia.
  - intro p. rewrite cnt_minus. specialize (U2 p). destruct (cnt p (reclaim_set s)); lia.
  - intro p. rewrite flat_tab_minus, !cnt_minus. specialize (U3 p). destruct (cnt p (reclaim_set s)); lia.
  - intro p. rewrite !cnt_minus. specialize (P1 p). destruct (cnt p (reclaim_set s)); lia.
  - intro p. rewrite cnt_minus. specialize (P2 p). destruct (cnt p (reclaim_set s)); lia.
  - intro p. rewrite claim_flat. specialize (RA p). rewrite flat_app, cnt_app in RA. destruct (cnt p (reclaim_set s)); lia.
Qed.

(* ---------------------------------------------------------------- tree mutations inside the commit *)

Lemma UB_track : forall D' s r, UB s r -> (forall e, In e (recs r) -> Sub (snd e) (cover_w (fst e) s)) ->
  Bal (alloc s) (owned_w s) -> ok_data D' s = true -> UB (mut_data D' s) (r_track D' s r).
Proof.
  intros D' s r [U1 U2 U3 P1 P2 RA] KW B Hok.
  destruct (track_fields D' s r) as (Fd & Fu & _ & _).
  destruct (track_pca D' s Hok B P1 P2) as [P1' P2'].
  constructor; unfold recs; rewrite ?Fd, ?Fu; try assumption.
  exact (track_ra D' s Hok B (dalloc r ++ ualloc r) KW RA).
Qed.

Lemma UB_mut_sys : forall S' s r, UB s r -> (forall e, In e (recs r) -> Sub (snd e) (cover_w (fst e) s)) ->
  Bal (alloc s) (owned_w s) -> ok_sys S' s = true -> UB (mut_sys S' s) r.
Proof.
  intros S' s r [U1 U2 U3 P1 P2 RA] KW B Hok.
  pose proof (mut_sys_ra S' s r KW B Hok RA) as RA'.
  apply ok_sys_facts in Hok. destruct Hok as [HD Hfresh].
  constructor; try assumption; red_st; clear - P1 P2 Hfresh; pw.
Qed.

Lemma RW_mut_sys_gen : forall b ex S' s r, RW b ex s r -> Bal (alloc s) (owned_w s) -> ok_sys S' s = true ->
  RW b ex (mut_sys S' s) r.
Proof.
  intros b ex S' s r W B Hok. destruct (rw_kb _ _ _ _ W) as [_ Lb]. destruct (rw_t1 _ _ _ _ W) as [T1a T1b].
  apply (RW_frame b ex s); try reflexivity; try assumption.
  all: try solve [apply N.le_refl].
  apply ok_sys_facts in Hok. destruct Hok as [HD Hfresh]. unfold owned_w in B. red_st. clear - B T1a T1b. pw.
Qed.

Lemma RW_n_store_sfreed : forall b ex s r, RW b ex s r -> RW b ex (n_store_sfreed s) r.
Proof.
  intros b ex s r W. destruct (rw_kb _ _ _ _ W) as [_ Lb]. destruct (rw_t1 _ _ _ _ W) as [_ T1b].
  apply (RW_frame b ex s); try reflexivity; try assumption.
  all: try solve [apply N.le_refl].
Qed.

Lemma UB_n_store_sfreed : forall s r, UB s r -> UB (n_store_sfreed s) r.
Proof. intros s r [U1 U2 U3 P1 P2 RA]. constructor; assumption. Qed.

Lemma UB_store_ufreed : forall s r, UB s r -> UB (n_store_ufreed s) r.
Proof. intros s r [U1 U2 U3 P1 P2 RA]. constructor; assumption. Qed.

Lemma UB_restored : forall s r, UB s r -> UB (c_restored s) r.
Proof. intros s r [U1 U2 U3 P1 P2 RA]. constructor; assumption. Qed.

(* ---------------------------------------------------------------- publish, record, post-commit frees, apply_on_commit *)

Definition r_nd_close (s0 s6 : st) (r : arec) : arec :=
  let r7 := set_trk [] (set_ualloc (add_entry (lastid s0) (trk r) (ualloc r)) r) in
  r_apply_sp s0 (set_ualloc (tab_minus (ualloc r7) (wsfr s6)) r7).

Lemma RW_nd_close : forall b s s0 r, RW b [] s r -> UB s r -> Bal (alloc s) (owned_w s) -> wrest s = None ->
  b < lastid s -> lastid s0 = lastid s -> wdeleted s0 = wdeleted s ->
  let s' := c_apply_sp (n_post_free (n_publish s)) in
  let r' := r_nd_close s0 s r in
  RW (lastid s) [] s' r' /\ trk r' = [] /\
  Sub (flat (ualloc r')) (unpers s') /\ Dis (flat (dalloc r')) (unpers s') /\ Dis (flat (ualloc r')) (pca s') /\
  Sub (pca s') (alloc s') /\ (forall e, In e (valid r') -> ~ In (fst e) (winval r')).
Proof.
  intros b s s0 r [V1 V2 V3 Vt [Kb Lb] KW O5 [T1a T1b] T2] [U1 U2 U3 P1 P2 RA] B Hr Hb El Ed s' r'.
  subst s' r'. unfold r_nd_close, r_apply_sp. cbv zeta. rewrite El, Ed.
  destruct r as [da ua tk on di va wi]. unfold set_ualloc, set_trk, set_valid, recs, RC, keys_rec_le in *.
  cbn [dalloc ualloc trk trk_on dirty valid winval] in *.
  set (s9 := c_apply_sp (n_post_free (n_publish s))).
  assert (Hpins : pins s9 = remove_pins (wdeleted s) (pins s)) by reflexivity.
  assert (Hcov : forall a p, cnt p (cover_w a s9) = cnt p (cover_w a s)) by reflexivity.
  assert (Hcw : forall a p, cnt p (cover_w a s) =
            (cnt p (wdata s) + cnt p (wdfr s) + cnt p (flat (late a (wdfreed s))) + cnt p (flat (late a (ufreed s))))%nat).
  { intros a p. unfold cover_w, eff_ufreed. rewrite Hr. rewrite !cnt_app. lia. }
  (* the system pages freed right after the commit are not data-lineage pages *)
  assert (Hsf : forall a p, (cnt p (cover_w a s) > 0)%nat -> cnt p (wsfr s) = 0%nat).
  { intros a p Hp. rewrite Hcw in Hp. destruct (B p) as [_ Hle]. unfold owned_w, eff_ufreed in Hle. rewrite Hr in Hle.
    rewrite !cnt_app in Hle. pose proof (cnt_late_le a (wdfreed s) p). pose proof (cnt_late_le a (ufreed s) p). lia. }
  set (ua7 := add_entry (lastid s) tk ua).
  assert (Hua7 : forall t p, t < lastid s -> cnt p (flat (late t ua7)) = (cnt p (flat (late t ua)) + cnt p tk)%nat).
  { intros t p Ht. subst ua7. apply cnt_late_add_entry_gt. exact Ht. }
  assert (Hsp : forall e x, In e (valid_minus (wi ++ wdeleted s) va) -> sp_pin s9 e x ->
                 In e va /\ ~ In (fst e) wi /\ sp_pin s e x).
  { intros e x He (Hx & Hp). apply In_valid_minus in He. destruct He as [He Hn]. rewrite Hpins in Hx.
    apply In_remove_pins in Hx. repeat split; try assumption; try tauto. intros Hi. apply Hn. apply in_app_iff. tauto. }
  assert (Hnil : forall h : N, ~ In h []) by (intros h []).
  split; [|split; [reflexivity|]].
  - constructor; unfold keys_rec_le, recs, RC; cbn [dalloc ualloc trk trk_on dirty valid winval].
    + intros e He. apply In_valid_minus in He. destruct He as [He Hn]. destruct (V1 e He) as (x & Hx & Hxh & Hxt).
      exists x. split; [|tauto]. rewrite Hpins. apply In_remove_pins_iff. split; [exact Hx|].
      rewrite Hxh. intros Hi. apply Hn. apply in_app_iff. right. exact Hi.
    + rewrite Hpins. unfold remove_pins. apply NoDup_map_filter. exact V2.
    + intros e1 e2 H1 H2. apply In_valid_minus in H1. apply In_valid_minus in H2. apply V3; tauto.
    + intros e He. apply In_valid_minus in He. destruct He as [He _]. specialize (Vt e He). subst s9. red_st. lia.
    + split; [|subst s9; red_st; apply N.le_refl]. intros e He. apply in_app_iff in He. destruct He as [He|He].
      * assert (fst e <= b) by (apply Kb; apply in_app_iff; left; exact He). lia.
      * apply tab_minus_keys in He. destruct He as (e1 & He1 & Hk & _). rewrite <- Hk. subst ua7.
        apply In_keys_add_entry in He1. destruct He1 as [He1| ->]; [|apply N.le_refl].
        assert (fst e1 <= b) by (apply Kb; apply in_app_iff; right; exact He1). lia.
    + intros e He p Hp. rewrite Hcov. apply in_app_iff in He. destruct He as [He|He].
      * apply (KW e); [apply in_app_iff; left; exact He | exact Hp].
      * apply tab_minus_keys in He. destruct He as (e1 & He1 & Hk & Hi). rewrite <- Hk.
        assert (Hp1 : (cnt p (snd e1) > 0)%nat) by (apply In_cnt; apply Hi; apply In_cnt; exact Hp).
        subst ua7. apply In_keys_add_entry in He1. destruct He1 as [He1| ->].
        -- apply (KW e1); [apply in_app_iff; right; exact He1 | exact Hp1].
        -- cbn [fst snd] in *. specialize (T1a p Hp1). rewrite Hcw. lia.
    + intros e x He _ _ Hp. destruct (Hsp e x He Hp) as (He' & Hni & Hp').
      destruct (O5 e x He' Hni (Hnil _) Hp') as [O5a O5b]. specialize (Vt e He').
      split; intro p.
      * specialize (O5a p). rewrite cnt_minus in *. rewrite Hcov. pose proof (Hsf (snd e) p) as Hs.
        rewrite !cnt_app in *. rewrite cnt_late_tab_minus. rewrite Hua7 by lia. rewrite cnt_nil.
        destruct (cnt p (ppages x)); destruct (cnt p (wsfr s)) eqn:Ew; lia.
      * specialize (O5b p). rewrite !cnt_app in *. rewrite cnt_late_tab_minus. rewrite Hua7 by lia. rewrite cnt_nil.
        destruct (cnt p (wsfr s)); lia.
    + split; intros p Hp; rewrite cnt_nil in Hp; lia.
    + intros Hoff. destruct (T2 Hoff) as [Hv _]. rewrite Hv. split; reflexivity.
  - assert (Hflat7 : forall p, cnt p (flat ua7) = (cnt p (flat ua) + cnt p tk)%nat).
    { intro p. subst ua7. rewrite cnt_flat_add_entry. reflexivity. }
    subst s9. red_st.
    split; [|split; [|split; [|split]]].
    + intro p. rewrite flat_tab_minus, !cnt_minus, cnt_app, Hflat7. specialize (U1 p). specialize (T1b p).
      destruct (cnt p (wsfr s)); lia.
    + intro p. rewrite cnt_minus, cnt_app. specialize (U2 p). specialize (RA p). rewrite flat_app, cnt_app in RA.
      destruct (cnt p (wsfr s)); lia.
    + intro p. rewrite flat_tab_minus, !cnt_minus, Hflat7. specialize (U3 p). specialize (P2 p). specialize (T1b p).
      destruct (cnt p (wsfr s)); destruct (cnt p (pca s)) eqn:Ep; lia.
    + intro p. rewrite !cnt_minus. specialize (P1 p). destruct (cnt p (wsfr s)); lia.
    + intros e He. apply In_valid_minus in He. destruct He as [_ Hn]. intros Hi. apply Hn. apply in_app_iff. left. exact Hi.
Qed.

Theorem robs_commit_nd : forall D' Sd s r, Inv s -> RObs s r -> ok_commit_nd D' Sd s = true ->
  RObs (commit_nd D' Sd s) (r_commit_nd D' Sd s r).
Proof.
  intros D' Sd s r H HR Hok. unfold ok_commit_nd in Hok.
  apply andb_true_iff in Hok. destruct Hok as [Hok Hok12].
  apply andb_true_iff in Hok. destruct Hok as [Hw _].
  cbv zeta in Hok12. apply andb_true_iff in Hok12. destruct Hok12 as [Hok1 Hok2].
  pose proof (Inv_pins_asc s H) as PA. pose proof (Inv_W s H Hw) as W0.
  destruct (restored_W _ s W0) as [W1 R1]. pose proof (restored_pins_asc s PA) as PA1.
  destruct (mut_data_W _ D' _ W1 PA1 Hok1) as [W2 PA2].
  (* records up to the tree flush *)
  pose proof (RW_of_RObs s r H HR) as RW0.
  pose proof (RW_restored _ _ _ _ RW0) as RW1.
  pose proof (UB_restored s r (UB_of_RObs s r HR)) as UB1.
  destruct (RW_track _ _ D' _ r RW1 (ub_ra _ _ UB1) (w_bal _ _ W1) Hok1 (pins_facts s H)) as [RW2 _].
  pose proof (UB_track D' _ r UB1 (rw_kw _ _ _ _ RW1) (w_bal _ _ W1) Hok1) as UB2.
  set (r2 := r_track D' (c_restored s) r) in *.
  set (s2 := mut_data D' (c_restored s)) in *.
  destruct (i_ids s H) as (_ & _ & Ilt). specialize (Ilt Hw).
  pose proof (n_store_ufreed_W s2 W2 eq_refl) as W3.
  assert (RW3 : RW (vid (lat s)) [] (n_store_ufreed s2) r2) by (apply RW_store_ufreed; [exact RW2 | reflexivity | exact Ilt]).
  pose proof (UB_store_ufreed _ _ UB2) as UB3.
  set (s3 := n_store_ufreed s2) in *.
  pose proof (n_reclaim_W s3 W3 eq_refl) as W4.
  pose proof (RW_reclaim _ s3 r2 RW3 (w_bal _ _ W3) eq_refl (ub_u2 _ _ UB3)) as RW4.
  pose proof (UB_reclaim _ _ UB3) as UB4.
  set (r4 := set_ualloc (tab_minus (ualloc r2) (reclaim_set s3)) r2) in *.
  pose proof (mut_sys_W _ Sd _ W4 Hok2) as W5.
  pose proof (RW_mut_sys_gen _ _ Sd _ _ RW4 (w_bal _ _ W4) Hok2) as RW5.
  pose proof (UB_mut_sys Sd _ _ UB4 (rw_kw _ _ _ _ RW4) (w_bal _ _ W4) Hok2) as UB5.
  pose proof (mut_sys_pins_asc _ Sd _ W4 PA2 Hok2) as PA5.
  set (s5 := mut_sys Sd (n_reclaim s3)) in *.
  pose proof (n_store_sfreed_W s5 W5) as W6.
  pose proof (RW_n_store_sfreed _ _ _ _ RW5) as RW6.
  pose proof (UB_n_store_sfreed _ _ UB5) as UB6.
  set (s6 := n_store_sfreed s5) in *.
  assert (PA6 : pins_asc s6) by exact PA5.
  assert (Hsub : incl (wsfr s6) (unpers s6)).
  { intros p Hp. change (In p (inter (wsfr s5) (unpers s5))) in Hp. apply In_inter in Hp.
    change (In p (unpers s5)). tauto. }
  destruct (n_close_W s6 W6 PA6 eq_refl eq_refl Hsub) as (W7 & C7 & Hv7 & Hl7 & Ks & Ku & Kd).
  destruct (RW_nd_close _ s6 s r4 RW6 UB6 (w_bal _ _ W6) eq_refl Ilt eq_refl eq_refl)
    as (RW9 & Ht9 & U1 & U2 & U3 & P1 & Hwi).
  unfold commit_nd, commit_nd_pre, r_commit_nd. fold s2. fold s3. fold s5. fold s6.
  change (r_apply_sp s (r_nd_pre D' Sd s r)) with (r_nd_close s s6 r4).
  apply (robs_finish (lastid s6) _ _ RW9 C7 Ht9); try assumption.
  rewrite Hv7. apply N.le_refl.
Qed.
