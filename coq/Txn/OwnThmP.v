(* C06 / C05: the theorems about the page-ownership state machine *)
From Coq Require Import List PArith NArith Bool MSets.MSetPositive Permutation Lia.
From RV Require Import Txn.PSet Txn.PSetP Txn.Own Txn.OwnP Txn.OwnStepP Txn.OwnCommitP.
Import ListNotations.
Open Scope N_scope.

Lemma inv_reopen : forall s, Inv s -> Inv (reopen s).
Proof.
  intros s [B2 B1 P Dc Dw L U I Pe K R Np Nm].
  constructor; red_st; try assumption.
  - intros x Hx. apply filter_In in Hx. destruct Hx as [Hx _]. exact (P x Hx).
  - destruct I as (I1 & I2 & I3). repeat split; try lia.
Qed.

Theorem inv_init : Inv init.
Proof.
  constructor; unfold init; red_st.
  all: try solve [intros p; cbn; split; lia].
  all: try solve [intros x []].
  all: try solve [split; intros p Hp; cbn in Hp; lia].
  all: try solve [split; [intros p Hp; reflexivity | intros p Hp; exact Hp]].
  all: try solve [repeat split; try lia; intros; discriminate].
  all: try solve [repeat split; intros e []].
  all: try solve [intros; discriminate].
  all: try solve [split; reflexivity].
  all: try solve [intros _; unfold normal_w; red_st; repeat split; reflexivity].
Qed.

Theorem inv_step : forall s o, Inv s -> oracle_ok s o = true -> Inv (step s o).
Proof.
  intros s o H Hok. destruct o; simpl in *.
  - apply inv_begin_write; [exact H | apply negb_true_iff; exact Hok].
  - apply andb_true_iff in Hok. destruct Hok. apply inv_mut_data; assumption.
  - apply andb_true_iff in Hok. destruct Hok. apply inv_mut_sys; assumption.
  - apply inv_add_pin. exact H.
  - apply inv_drop_pin. exact H.
  - apply andb_true_iff in Hok. destruct Hok as [Hw _]. apply inv_sp_create; assumption.
  - apply andb_true_iff in Hok. destruct Hok as [Hw _]. apply inv_sp_delete; assumption.
  - apply andb_true_iff in Hok. destruct Hok. apply inv_restore; assumption.
  - apply inv_abort. exact H.
  - apply inv_commit_dur; assumption.
  - apply inv_commit_nd; assumption.
  - apply inv_reopen. exact H.
Qed.

(* every history whose steps satisfy the (checked) side conditions *)
Fixpoint admissible (s : st) (h : list op) : Prop :=
  match h with
  | [] => True
  | o :: r => oracle_ok s o = true /\ admissible (step s o) r
  end.

Theorem inv_reach : forall h s, Inv s -> admissible s h -> Inv (run h s).
Proof.
  induction h as [|o r IH]; intros s H Ha; simpl in *; [exact H|].
  destruct Ha as [Hok Ha]. apply IH; [apply inv_step; assumption | exact Ha].
Qed.

Corollary inv_reach_init : forall h, admissible init h -> Inv (run h init).
Proof. intros h Ha. apply inv_reach; [exact inv_init | exact Ha]. Qed.

(* ================================================================ consequences *)

Lemma In_concat_map : forall (l : list pin) p, In p (concat (map ppages l)) -> exists x, In x l /\ In p (ppages x).
Proof.
  intros l p H. apply in_concat in H. destruct H as (y & Hy & Hp). apply in_map_iff in Hy.
  destruct Hy as (x & <- & Hx). eauto.
Qed.

(* O2 on the working view: whatever is pinned is allocated, at every point inside a transaction / commit *)
Lemma pinned_allocated_W : forall K0 s, InvW K0 s -> incl (pinned s) (alloc s).
Proof.
  intros K0 s [B P [D1 D2] _ _ _ _ _ _ _] p Hp. unfold pinned in Hp.
  apply In_cnt. destruct (B p) as [Hb _]. rewrite Hb. clear Hb.
  rewrite !in_app_iff in Hp. destruct Hp as [Hp|[Hp|Hp]].
  - apply In_cnt in Hp. specialize (D1 p Hp). unfold cover_w, owned_w in *. cnt_norm.
    pose proof (cnt_late_le (vid (dur s)) (wdfreed s) p). pose proof (cnt_late_le (vid (dur s)) (eff_ufreed s) p). lia.
  - apply In_cnt in Hp. specialize (D2 p Hp). unfold scover_w, owned_w in *. cnt_norm.
    pose proof (cnt_late_le (vid (dur s)) (sfreed s) p). lia.
  - apply In_concat_map in Hp. destruct Hp as (x & Hx & Hp). destruct (P x Hx) as (H1 & _).
    apply In_cnt in Hp. specialize (H1 p Hp). unfold cover_w, owned_w in *. cnt_norm.
    pose proof (cnt_late_le (ptxn x) (wdfreed s) p). pose proof (cnt_late_le (ptxn x) (eff_ufreed s) p). lia.
Qed.

(* O2: pages reachable from the durable commit, a live reader or a savepoint are allocated *)
Theorem pinned_allocated : forall s, Inv s -> incl (pinned s) (alloc s).
Proof.
  intros s [B2 _ P [D1 D2] _ _ _ _ _ _ _ _ _] p Hp. unfold pinned in Hp.
  apply In_cnt. destruct (B2 p) as [Hb _]. rewrite Hb. clear Hb. rewrite cnt_app.
  rewrite !in_app_iff in Hp. destruct Hp as [Hp|[Hp|Hp]].
  - apply In_cnt in Hp. specialize (D1 p Hp). pose proof (cover_c_owned (vid (dur s)) s p). lia.
  - apply In_cnt in Hp. specialize (D2 p Hp). pose proof (scover_c_owned (vid (dur s)) s p). lia.
  - apply In_concat_map in Hp. destruct Hp as (x & Hx & Hp). destruct (P x Hx) as (H1 & _).
    apply In_cnt in Hp. specialize (H1 p Hp). pose proof (cover_c_owned (ptxn x) s p). lia.
Qed.

(* O1: exact, disjoint accounting. At a transaction boundary the owners are the current trees, the
   two freed tables and the unpersisted freed records -- nothing else, and nothing twice. *)
Theorem no_leak : forall s, Inv s -> inw s = false ->
  NoDup (alloc s) /\ NoDup (owned_c s) /\ (forall p, In p (alloc s) <-> In p (owned_c s)).
Proof.
  intros s H Hw. destruct H as [B2 _ _ _ _ _ _ _ _ _ _ _ Nm].
  destruct (Nm Hw) as (_ & _ & Ha & _). rewrite Ha, app_nil_r in B2.
  split; [eapply Bal_NoDup_alloc; eassumption|]. split; [eapply Bal_NoDup_owners; eassumption|].
  apply Bal_seteq. exact B2.
Qed.

(* inside a write transaction the only additional owner is the transaction's own allocation set *)
Theorem no_leak_in_txn : forall s, Inv s ->
  NoDup (owned_c s ++ wasc s) /\ (forall p, In p (alloc s) <-> In p (owned_c s ++ wasc s)) /\
  NoDup (owned_w s) /\ (forall p, In p (alloc s) <-> In p (owned_w s)).
Proof.
  intros s H. destruct H as [B2 B1 _ _ _ _ _ _ _ _ _ _ _].
  split; [eapply Bal_NoDup_owners; exact B2|].
  split; [apply Bal_seteq; exact B2|].
  split; [eapply Bal_NoDup_owners; exact B1|].
  apply Bal_seteq; exact B1.
Qed.

(* a page handed out by the allocator during a mutation is not pinned (nothing pinned is rewritten) *)
Theorem fresh_not_pinned_data : forall D' s, Inv s -> ok_data D' s = true ->
  disjoint (minus D' (wdata s)) (pinned s).
Proof.
  intros D' s H Hok p Hp Hq. apply ok_data_facts in Hok. destruct Hok as [_ Hf].
  apply (pinned_allocated s H) in Hq. apply In_cnt in Hp. apply In_cnt in Hq. specialize (Hf p Hp). lia.
Qed.

Theorem fresh_not_pinned_sys : forall S' s, Inv s -> ok_sys S' s = true ->
  disjoint (minus S' (wsys s)) (pinned s).
Proof.
  intros S' s H Hok p Hp Hq. apply ok_sys_facts in Hok. destruct Hok as [_ Hf].
  apply (pinned_allocated s H) in Hq. apply In_cnt in Hp. apply In_cnt in Hq. specialize (Hf p Hp). lia.
Qed.

(* No early free, durable commit: at the two points where the commit has already returned pages to the
   allocator but has not switched the header yet (after process_freed_pages, and right before
   TransactionalMemory::commit), every page that was pinned when the commit started is still allocated;
   the system-tree pages it allocates in between are fresh w.r.t. that allocator state (ok_sys), so no
   pinned page is handed out or rewritten. *)
Theorem no_early_free_commit_dur : forall D' Sd So qr pcf s, Inv s ->
  ok_commit_dur D' Sd So qr pcf s = true ->
  incl (pinned s) (alloc (c_drain (c_store_dfreed (c_adopt (mut_data D' (c_restored s)))))) /\
  incl (pinned s) (alloc (commit_dur_pre D' Sd qr s)).
Proof.
  intros D' Sd So qr pcf s H Hok. unfold ok_commit_dur in Hok.
  apply andb_true_iff in Hok. destruct Hok as [Hw Hok].
  apply andb_true_iff in Hok. destruct Hok as [Hok1 Hok].
  apply andb_true_iff in Hok. destruct Hok as [Hok2 Hok3].
  pose proof (Inv_pins_asc s H) as PA. pose proof (Inv_W s H Hw) as W0.
  destruct (restored_W _ s W0) as [W1 R1]. apply restored_pins_asc in PA.
  destruct (mut_data_W _ D' _ W1 PA Hok1) as [W2 PA2].
  pose proof (adopt_W _ _ W2) as W3.
  set (s3 := c_adopt (mut_data D' (c_restored s))) in *.
  destruct (store_dfreed_W s3 W3 eq_refl) as [W4 R4].
  destruct (drain_W (c_store_dfreed s3) W4 R4) as [W5 R5].
  destruct (commit_dur_pre_W D' Sd qr s H Hw Hok1 Hok2) as (W7 & _).
  split.
  - exact (pinned_allocated_W _ _ W5).
  - destruct qr; exact (pinned_allocated_W _ _ W7).
Qed.

(* No early free, non-durable commit: after reclaiming unpersisted pages from the freed records (the
   only pages a non-durable commit returns before it publishes) everything pinned is still allocated *)
Theorem no_early_free_commit_nd : forall D' Sd s, Inv s -> ok_commit_nd D' Sd s = true ->
  incl (pinned s) (alloc (n_reclaim (n_store_ufreed (mut_data D' (c_restored s))))) /\
  incl (pinned s) (alloc (commit_nd_pre D' Sd s)).
Proof.
  intros D' Sd s H Hok. unfold ok_commit_nd in Hok.
  apply andb_true_iff in Hok. destruct Hok as [Hok Hok12].
  apply andb_true_iff in Hok. destruct Hok as [Hw _].
  cbv zeta in Hok12. apply andb_true_iff in Hok12. destruct Hok12 as [Hok1 Hok2].
  pose proof (Inv_pins_asc s H) as PA. pose proof (Inv_W s H Hw) as W0.
  destruct (restored_W _ s W0) as [W1 R1]. apply restored_pins_asc in PA.
  destruct (mut_data_W _ D' _ W1 PA Hok1) as [W2 PA2].
  set (s2 := mut_data D' (c_restored s)) in *.
  pose proof (n_store_ufreed_W s2 W2 eq_refl) as W3.
  pose proof (n_reclaim_W (n_store_ufreed s2) W3 eq_refl) as W4.
  pose proof (mut_sys_W _ Sd _ W4 Hok2) as W5.
  pose proof (n_store_sfreed_W (mut_sys Sd (n_reclaim (n_store_ufreed s2))) W5) as W6.
  split.
  - exact (pinned_allocated_W _ _ W4).
  - exact (pinned_allocated_W _ _ W6).
Qed.

(* after every step of every admissible history nothing pinned has been freed *)
Corollary no_early_free : forall h s, Inv s -> admissible s h -> incl (pinned (run h s)) (alloc (run h s)).
Proof. intros h s H Ha. apply pinned_allocated. apply inv_reach; assumption. Qed.
