(* C05 -- poisoning of a write transaction as an explicit state machine (definitions only; proofs in PoisonP.v).

   A write transaction = the page-ownership state of Own.v + two latches:
     poisoned  WriteTransaction::poisoned   set by WriteTransaction::poison(), never cleared
     iolatch   the storage layer's failure latch (CheckedBackend / check_io_errors): set by the first I/O
               error, never cleared before the database is reopened
   An API call is a list of micro mutations (steps of Own.v) and an optional failure: the call stops
   after `f_pos` complete micro steps, possibly in the middle of the next one (`f_half`: a half-executed
   step, see Abandon.v), with an error of kind `f_err`.  `poisons` transcribes the wrapper of each site:

     rename_table / rename_multimap_table / delete_table / delete_multimap_table (TableNamespace):
         result = inner(..); if matches!(result, Err(TableError::Storage(_))) { poison }
     restore_savepoint: validity / durability checks return early; then
         result = restore_savepoint_inner(..) (first action: the root swap); if result.is_err() { poison }
     retain / retain_in (Table::retain_in_bounds): RetainPanicGuard poisons when unwinding; the b-tree's
         `poisoned` out-flag (rejected entries left in the tree) poisons
     extract_if / extract_from_if (ExtractIf::drop): close_failed() || predicate_panicked() poisons
     CursorMut (latch_error / finish): a failed splice that lost reported inserts poisons
   `f_lost` is that internal out-flag / close_failed condition of the b-tree layer (not observable from
   outside; for those failures only `blocked` = poisoned || iolatch is claimed).

   commit():  if poisoned { abort_inner()?; return Err(TransactionPoisoned) }  -- abort_inner_impl runs
   check_io_errors()? before rollback_all, so with the I/O latch set the rollback stops there and the
   error is the latched I/O error; otherwise commit_inner, whose first fallible action fails on the latch.
   Drop: abort_inner() unless the latch is set (then only the staged roots are cleared). *)
From Coq Require Import List PArith NArith Bool.
From RV Require Import Txn.PSet Txn.Own Txn.OwnThmP Txn.Abandon.
Import ListNotations.
Open Scope N_scope.

Inductive errk := EIo | ELogical | EPanic.
Inductive kind :=
| KWrite       (* insert / remove / pop / get_mut / multimap insert / remove ... and table open / create *)
| KRename | KDelete | KRestore | KRetain | KExtract | KCursor
| KSavepoint   (* ephemeral_savepoint / persistent_savepoint *)
| KSpDelete    (* delete_persistent_savepoint *)
| KSetting.    (* set_durability / set_two_phase_commit / set_quick_repair *)

Record failure := mkfail { f_pos : nat; f_err : errk; f_half : option halfstep; f_lost : bool }.
Record call := mkcall { ck : kind; micro : list op; cfail : option failure }.

Record ptx := mkptx { own : st; poisoned : bool; iolatch : bool }.

Definition is_io (e : errk) : bool := match e with EIo => true | _ => false end.
Definition is_panic (e : errk) : bool := match e with EPanic => true | _ => false end.
Definition has_predicate (k : kind) : bool := match k with KRetain | KExtract => true | _ => false end.

(* the failure happened after the call's first mutation *)
Definition mutated (f : failure) : bool :=
  negb (Nat.eqb (f_pos f) 0) || match f_half f with Some _ => true | None => false end.

(* failures the model considers possible: argument / state errors (TableDoesNotExist, TableAlreadyOpen,
   TableTypeMismatch, InvalidSavepoint, ImmediateDurabilityRequired, ValueTooLarge, UnorderedKey ...) are
   detected before the first mutation; only user predicates can panic; the b-tree "lost changes" flag
   is raised only by a storage error after a mutation *)
Definition fail_ok (c : call) (f : failure) : bool :=
  Nat.leb (f_pos f) (length (micro c)) &&
  match f_err f with
  | ELogical => negb (mutated f)
  | EPanic => has_predicate (ck c)
  | EIo => true
  end &&
  (negb (f_lost f) || (is_io (f_err f) && mutated f)).

Definition poisons (k : kind) (f : failure) : bool :=
  match k with
  | KRename | KDelete => is_io (f_err f)
  | KRestore => mutated f
  | KRetain | KExtract => is_panic (f_err f) || f_lost f
  | KCursor => f_lost f
  | KWrite | KSavepoint | KSpDelete | KSetting => false
  end.

(* the micro steps that ran *)
Definition ran (c : call) : list op :=
  match cfail c with None => micro c | Some f => firstn (f_pos f) (micro c) end.

Definition exec (c : call) (p : ptx) : ptx :=
  let t := run (ran c) (own p) in
  match cfail c with
  | None => mkptx t (poisoned p) (iolatch p)
  | Some f =>
    mkptx (match f_half f with Some h => half h t | None => t end)
          (poisoned p || poisons (ck c) f)
          (iolatch p || is_io (f_err f))
  end.

Definition run_calls (cs : list call) (p : ptx) : ptx := fold_left (fun q c => exec c q) cs p.
Definition ran_all (cs : list call) : list op := flat_map ran cs.

Definition start (s : st) : ptx := mkptx (begin_write s) false false.
Definition blocked (p : ptx) : bool := poisoned p || iolatch p.

(* ---- how the transaction ends *)
Inductive cres := COk | CPoisoned | CIoError.

(* committed side only: what a rollback stopped by the I/O latch leaves (apply_on_abort has run, the
   pages of allocated_since_commit stay allocated and needs_repair stays latched until the reopen) *)
Definition abort_latched (s : st) : st :=
  mkst (alloc s) (lastid s) (dur s) (lat s) (dfreed s) (sfreed s) (ufreed s) (unpers s) (pca s)
       (remove_pins (wcreated s) (pins s)) (pend s) (inw s) (wdata s) (wsys s) (wasc s) (wdfr s) (wsfr s)
       (wdfreed s) (wrest s) [] [].

(* `cm` is the commit step (OCommitDur / OCommitNd with its oracle) that would run *)
Definition commit_p (cm : op) (p : ptx) : ptx * cres :=
  if poisoned p then
    if iolatch p then (mkptx (abort_latched (own p)) true true, CIoError)
    else (mkptx (abort (own p)) true false, CPoisoned)
  else if iolatch p then (p, CIoError)
  else (mkptx (step (own p) cm) false false, COk).

Definition abort_p (p : ptx) : ptx * bool :=
  if iolatch p then (mkptx (abort_latched (own p)) (poisoned p) true, false)
  else (mkptx (abort (own p)) (poisoned p) false, true).

Definition drop_p (p : ptx) : ptx :=
  if iolatch p then p else mkptx (abort (own p)) (poisoned p) false.

(* ---- validity of a call sequence: the micro steps that run are body steps whose oracle side conditions
   hold, the failure is a possible one, a half-executed step respects the allocator discipline *)
Definition call_ok (c : call) (p : ptx) : Prop :=
  is_body (ran c) = true /\ admissible (own p) (ran c) /\
  match cfail c with
  | None => True
  | Some f => fail_ok c f = true /\
              match f_half f with Some h => ok_half h (run (ran c) (own p)) = true | None => True end
  end.

Fixpoint calls_ok (cs : list call) (p : ptx) : Prop :=
  match cs with
  | [] => True
  | c :: r => call_ok c p /\ calls_ok r (exec c p)
  end.

(* some call failed after its first mutation *)
Definition failed_after_mutation (c : call) : bool :=
  match cfail c with Some f => mutated f | None => false end.

(* ---- the flag-level part, extracted for the correspondence: (kind, failure position class, error kind,
   lost flag) -> poisoned / latched after the call; result of commit *)
Definition flags_after (k : kind) (mut : bool) (e : errk) (lost : bool) (po io : bool) : bool * bool :=
  let f := mkfail (if mut then 1%nat else 0%nat) e None lost in
  (po || poisons k f, io || is_io e).
Definition commit_result (po io : bool) : cres :=
  if po then (if io then CIoError else CPoisoned) else if io then CIoError else COk.
