(* C05 -- poisoning of a write transaction as an explicit state machine (definitions only; proofs in PoisonP.v).

   A write transaction = the page-ownership state of Own.v + two latches:
     poisoned  WriteTransaction::poisoned   set by WriteTransaction::poison(), never cleared
     iolatch   the storage layer's failure latch (CheckedBackend / check_io_errors): set by the first I/O
               error, never cleared before the database is reopened
   An API call is a list of micro mutations (steps of Own.v) and an optional failure: the call stops
   after `f_pos` complete micro steps, possibly in the middle of the next one (`f_half`: a half-executed
   step, see Abandon.v), with an error of kind `f_err`.  `poisons` transcribes the wrapper of each site:

     rename_table / rename_multimap_table / delete_table / delete_multimap_table (TableNamespace):
         result = inner(..); if matches!(result, Err(TableError::Storage(_))) { poison }
     restore_savepoint: validity / durability checks return early; then
         result = restore_savepoint_inner(..) (first action: the root swap); if result.is_err() { poison }
     retain / retain_in (Table::retain_in_bounds): RetainPanicGuard poisons when unwinding; the b-tree's
         `poisoned` out-flag (rejected entries left in the tree) poisons
     extract_if / extract_from_if (ExtractIf::drop): close_failed() || predicate_panicked() poisons; since commit
         c277127 of /repo predicate_panicked() is also true while a STEP of the iterator runs (scan, decoder, user
         compare), so any unwind out of a step poisons, exactly like RetainPanicGuard does for retain: EPanic of
         these two kinds = an unwind out of the call, the predicate's or not.  Before that commit an unwind that
         was not the predicate's did not poison: `poisons_step_unwind_unguarded` (refuted:
         unguarded_extract_unwind_refuted)
     CursorMut (latch_error / finish): a failed splice that lost reported inserts poisons
   `f_lost` is that internal out-flag / close_failed condition of the b-tree layer (not observable from
   outside; for those failures only `blocked` = poisoned || iolatch is claimed).

   Error kind ECorrupt = a LOGICAL failure caused by a corrupted read (StorageError::Corrupted from a page
   number / depth check, a record decoder such as SerializedSavepoint::to_savepoint, a system-table type
   check): not an I/O error, so nothing is latched; it can strike at ANY read of a call.  `corrupt_ok`
   transcribes, per call kind, where the reads and parses stand relative to the mutations in the code:
     KWrite     one b-tree update (Table::insert / remove / pop_*, open / create of a table, multimap calls on
                an inline collection): the descent's reads precede the rebuild, the root is swapped last
     KSpDelete  delete_persistent_savepoint: get_system_table_root, open_system_table, table.get(id),
                to_savepoint (parse) ALL precede table.remove(id) and record_deleted -- atomic by ordering
     KSavepoint persistent_savepoint: open NEXT_SAVEPOINT_TABLE, read it, store the ratcheted id counter
                (micro step 1: an id is consumed, like a transaction id), THEN open SAVEPOINT_TABLE (a read
                that can fail), insert the record, register it -- a failure after step 1 leaves only the
                counter (`ratchet_prefix`)
     KRename / KDelete   any TableError::Storage poisons (Corrupted included), wherever it strikes
     KRestore   the checks before the root swap fail atomically; restore_savepoint_inner poisons on any error
     KRetain / KExtract / KCursor   entry by entry: every removal / insertion is reported to the caller
                (predicate verdict, yielded entry, cursor call) when it is made; a failure leaves the
                reported prefix applied as complete steps, or -- if reported changes were lost / a step is
                half-executed -- raises the b-tree's lost flag, which poisons
     KMultimap  MultimapTable::insert / remove / remove_all: the key's collection is updated (for a subtree
                collection: copy-on-write of the subtree, the replaced pages queued for freeing) and THEN the
                top-level entry that points at it is rewritten (remove_all: the entry is removed, then the
                subtree is walked to queue its pages).  The two steps are not error-atomic; a
                PartialUpdateGuard, armed after the initial lookup (remove_all: at the start) and disarmed
                only when the update ran to completion, poisons the transaction on ANY error or unwind in
                between (`f_armed`; every mutation of such a call lies inside the guarded region).  Before
                commit 90d01ff of /repo there was no guard: `poisons_unguarded`, for which the property is
                false (theorem unguarded_multimap_refuted).
*)
From Coq Require Import List PArith NArith Bool.
From RV Require Import Txn.PSet Txn.Own Txn.OwnThmP Txn.Abandon.
Import ListNotations.
Open Scope N_scope.

Inductive errk := EIo | ELogical | EPanic | ECorrupt.
Inductive kind :=
| KWrite       (* insert / remove / pop / get_mut / multimap insert / remove ... and table open / create *)
| KRename | KDelete | KRestore | KRetain | KExtract | KCursor
| KSavepoint   (* ephemeral_savepoint / persistent_savepoint *)
| KSpDelete    (* delete_persistent_savepoint *)
| KSetting     (* set_durability / set_two_phase_commit / set_quick_repair *)
| KMultimap.   (* MultimapTable::insert / remove / remove_all *)

(* f_armed: a guard that poisons on any failure or unwind was armed when the call failed (PartialUpdateGuard) *)
Record failure := mkfail { f_pos : nat; f_err : errk; f_half : option halfstep; f_lost : bool; f_armed : bool }.
Record call := mkcall { ck : kind; micro : list op; cfail : option failure }.

Record ptx := mkptx { own : st; poisoned : bool; iolatch : bool }.

Definition is_io (e : errk) : bool := match e with EIo => true | _ => false end.
Definition is_panic (e : errk) : bool := match e with EPanic => true | _ => false end.
Definition is_corrupt (e : errk) : bool := match e with ECorrupt => true | _ => false end.
(* StorageError: what `matches!(result, Err(TableError::Storage(_)))` sees *)
Definition is_storage (e : errk) : bool := is_io e || is_corrupt e.
Definition has_predicate (k : kind) : bool := match k with KRetain | KExtract => true | _ => false end.

(* the failure happened after the call's first mutation *)
Definition mutated (f : failure) : bool :=
  negb (Nat.eqb (f_pos f) 0) || match f_half f with Some _ => true | None => false end.

Definition has_half (f : failure) : bool := match f_half f with Some _ => true | None => false end.
(* calls that work entry by entry, reporting every change to the caller when it is made *)
Definition per_entry (k : kind) : bool := match k with KRetain | KExtract | KCursor => true | _ => false end.
(* leading micro steps that only consume an id (persistent_savepoint: the savepoint id counter) *)
Definition ratchet_prefix (k : kind) : nat := match k with KSavepoint => 1%nat | _ => 0%nat end.
Definition is_mm (k : kind) : bool := match k with KMultimap => true | _ => false end.

(* where a corrupted read can fail a call (see header) *)
Definition corrupt_ok (k : kind) (f : failure) : bool :=
  match k with
  | KWrite | KSpDelete => Nat.eqb (f_pos f) 0 && negb (has_half f)
  | KSavepoint => Nat.leb (f_pos f) 1 && negb (has_half f)
  | KRename | KDelete | KRestore => true
  | KRetain | KExtract | KCursor => negb (has_half f) || f_lost f
  | KMultimap => true
  | KSetting => false
  end.

(* failures the model considers possible: argument / state errors (TableDoesNotExist, TableAlreadyOpen,
   TableTypeMismatch, InvalidSavepoint, ImmediateDurabilityRequired, ValueTooLarge, UnorderedKey ...) are
   detected before the first mutation; only user predicates can panic; the b-tree "lost changes" flag
   is raised only by a storage error (I/O or corruption) after a mutation; corrupted reads: `corrupt_ok` *)
Definition fail_ok (c : call) (f : failure) : bool :=
  Nat.leb (f_pos f) (length (micro c)) &&
  match f_err f with
  | ELogical => negb (mutated f)
  | EPanic => has_predicate (ck c)
  | EIo => true
  | ECorrupt => corrupt_ok (ck c) f
  end &&
  (negb (f_lost f) || (is_storage (f_err f) && mutated f)) &&
  (* only multimap calls have the guard; all their mutations lie inside the guarded region *)
  (negb (f_armed f) || is_mm (ck c)) && (negb (is_mm (ck c)) || negb (mutated f) || f_armed f).

Definition poisons (k : kind) (f : failure) : bool :=
  match k with
  | KRename | KDelete => is_storage (f_err f)
  | KRestore => mutated f
  | KRetain | KExtract => is_panic (f_err f) || f_lost f
  | KCursor => f_lost f
  | KMultimap => f_armed f
  | KWrite | KSavepoint | KSpDelete | KSetting => false
  end.
(* the code before commit c277127: an unwind out of an extract_if step that is not the predicate's is not noticed *)
Definition poisons_step_unwind_unguarded (k : kind) (f : failure) : bool :=
  match k with KExtract => f_lost f | _ => poisons k f end.
(* the code before commit 90d01ff: no PartialUpdateGuard *)
Definition poisons_unguarded (k : kind) (f : failure) : bool :=
  match k with KMultimap => false | _ => poisons k f end.

(* what a failed call leaves of itself WITHOUT having reported it as done: a half-executed step, or complete
   micro steps of a call that is not entry-by-entry beyond the id-consuming prefix *)
Definition staged_partial (c : call) (f : failure) : bool :=
  has_half f || (negb (per_entry (ck c)) && negb (Nat.leb (f_pos f) (ratchet_prefix (ck c)))).

(* the micro steps that ran *)
Definition ran (c : call) : list op :=
  match cfail c with None => micro c | Some f => firstn (f_pos f) (micro c) end.

(* `ps`: which failures poison (the wrappers of the code: `poisons`) *)
Definition exec_with (ps : kind -> failure -> bool) (c : call) (p : ptx) : ptx :=
  let t := run (ran c) (own p) in
  match cfail c with
  | None => mkptx t (poisoned p) (iolatch p)
  | Some f =>
    mkptx (match f_half f with Some h => half h t | None => t end)
          (poisoned p || ps (ck c) f)
          (iolatch p || is_io (f_err f))
  end.
Definition exec (c : call) (p : ptx) : ptx := exec_with poisons c p.

Definition run_calls_with (ps : kind -> failure -> bool) (cs : list call) (p : ptx) : ptx :=
  fold_left (fun q c => exec_with ps c q) cs p.
Definition run_calls (cs : list call) (p : ptx) : ptx := run_calls_with poisons cs p.
Definition ran_all (cs : list call) : list op := flat_map ran cs.

Definition start (s : st) : ptx := mkptx (begin_write s) false false.
Definition blocked (p : ptx) : bool := poisoned p || iolatch p.

(* ---- how the transaction ends *)
Inductive cres := COk | CPoisoned | CIoError.

(* committed side only: what a rollback stopped by the I/O latch leaves (apply_on_abort has run, the
   pages of allocated_since_commit stay allocated and needs_repair stays latched until the reopen) *)
Definition abort_latched (s : st) : st :=
  mkst (alloc s) (lastid s) (dur s) (lat s) (dfreed s) (sfreed s) (ufreed s) (unpers s) (pca s)
       (remove_pins (wcreated s) (pins s)) (pend s) (inw s) (wdata s) (wsys s) (wasc s) (wdfr s) (wsfr s)
       (wdfreed s) (wrest s) [] [].

(* `cm` is the commit step (OCommitDur / OCommitNd with its oracle) that would run *)
Definition commit_p (cm : op) (p : ptx) : ptx * cres :=
  if poisoned p then
    if iolatch p then (mkptx (abort_latched (own p)) true true, CIoError)
    else (mkptx (abort (own p)) true false, CPoisoned)
  else if iolatch p then (p, CIoError)
  else (mkptx (step (own p) cm) false false, COk).

Definition abort_p (p : ptx) : ptx * bool :=
  if iolatch p then (mkptx (abort_latched (own p)) (poisoned p) true, false)
  else (mkptx (abort (own p)) (poisoned p) false, true).

Definition drop_p (p : ptx) : ptx :=
  if iolatch p then p else mkptx (abort (own p)) (poisoned p) false.

(* ---- validity of a call sequence: the micro steps that run are body steps whose oracle side conditions
   hold, the failure is a possible one, a half-executed step respects the allocator discipline *)
Definition call_ok (c : call) (p : ptx) : Prop :=
  is_body (ran c) = true /\ admissible (own p) (ran c) /\
  match cfail c with
  | None => True
  | Some f => fail_ok c f = true /\
              match f_half f with Some h => ok_half h (run (ran c) (own p)) = true | None => True end
  end.

Fixpoint calls_ok (cs : list call) (p : ptx) : Prop :=
  match cs with
  | [] => True
  | c :: r => call_ok c p /\ calls_ok r (exec c p)
  end.

(* some call failed after its first mutation *)
Definition failed_after_mutation (c : call) : bool :=
  match cfail c with Some f => mutated f | None => false end.

(* some call left an unreported part of itself *)
Definition partial_failed (c : call) : bool :=
  match cfail c with Some f => staged_partial c f | None => false end.
(* ... after a failure that is not a corrupted read (the statement of the first version of this model) *)
Definition failed_after_mutation_nc (c : call) : bool :=
  match cfail c with Some f => mutated f && negb (is_corrupt (f_err f)) | None => false end.

(* ---- the flag-level part, extracted for the correspondence: (kind, failure position class, error kind,
   lost flag) -> poisoned / latched after the call; result of commit *)
Definition flags_after (k : kind) (mut : bool) (e : errk) (lost armed : bool) (po io : bool) : bool * bool :=
  let f := mkfail (if mut then 1%nat else 0%nat) e None lost armed in
  (po || poisons k f, io || is_io e).
Definition commit_result (po io : bool) : cres :=
  if po then (if io then CIoError else CPoisoned) else if io then CIoError else COk.

(* ---- corrupted reads, extracted for the correspondence: is (unreported part staged?, poisoned?) an outcome
   the model allows for a call of kind k that failed with Err(Corrupted) in a transaction that was not
   poisoned?  Representatives: position 0 / 1 / 2, with or without a half-executed step, lost flag or not,
   guard armed or not. *)
Definition dummy_half : halfstep := mkhalf [] [] (mkwv [] [] [] [] [] None []).
Definition corrupt_cases : list failure :=
  flat_map (fun pos => flat_map (fun h => flat_map (fun l => map (fun a => mkfail pos ECorrupt h l a) [false; true])
                                                   [false; true])
                                [None; Some dummy_half]) [0%nat; 1%nat; 2%nat].
Definition dummy_micro : list op := [OAbort; OAbort].
Definition corrupt_outcome_ok (k : kind) (staged pois : bool) : bool :=
  existsb (fun f => let c := mkcall k dummy_micro (Some f) in
                    fail_ok c f && Bool.eqb (staged_partial c f) staged && Bool.eqb (poisons k f) pois)
          corrupt_cases.
(* the same when the harness cannot tell a reported prefix from an unreported part (entry-by-entry kinds) *)
Definition corrupt_poison_ok (k : kind) (pois : bool) : bool :=
  corrupt_outcome_ok k false pois || corrupt_outcome_ok k true pois.
