From Coq Require Import List NArith Bool Permutation.
From RV Require Import Txn.PSet Txn.Own.
Import ListNotations.

(* what each piece does to (pins, wcreated, wdeleted) *)
Definition pcd (s : st) := (pins s, wcreated s, wdeleted s).
Ltac t f := intros; unfold pcd, f; reflexivity.
Lemma pcd_c_restored s : pcd (c_restored s) = pcd s. Proof. t c_restored. Qed.
Lemma pcd_mut_data D s : pcd (mut_data D s) = pcd s. Proof. t mut_data. Qed.
Lemma pcd_mut_sys D s : pcd (mut_sys D s) = pcd s. Proof. t mut_sys. Qed.
Lemma pcd_c_adopt s : pcd (c_adopt s) = pcd s. Proof. t c_adopt. Qed.
Lemma pcd_c_store_dfreed s : pcd (c_store_dfreed s) = pcd s. Proof. t c_store_dfreed. Qed.
Lemma pcd_c_drain s : pcd (c_drain s) = pcd s. Proof. t c_drain. Qed.
Lemma pcd_c_store_sfreed k s : pcd (c_store_sfreed k s) = pcd s. Proof. t c_store_sfreed. Qed.
Lemma pcd_c_publish_dur s : pcd (c_publish_dur s) = pcd s. Proof. t c_publish_dur. Qed.
Lemma pcd_c_post_free s : pcd (c_post_free s) = pcd s. Proof. t c_post_free. Qed.
Lemma pcd_c_apply_sp s : pcd (c_apply_sp s) = (remove_pins (wdeleted s) (pins s), [], []). Proof. t c_apply_sp. Qed.
Lemma pcd_e_drain s : pcd (e_drain s) = pcd s. Proof. t e_drain. Qed.
Lemma pcd_e_publish s : pcd (e_publish s) = pcd s. Proof. t e_publish. Qed.
Lemma pcd_n_store_ufreed s : pcd (n_store_ufreed s) = pcd s. Proof. t n_store_ufreed. Qed.
Lemma pcd_n_reclaim s : pcd (n_reclaim s) = pcd s. Proof. t n_reclaim. Qed.
Lemma pcd_n_store_sfreed s : pcd (n_store_sfreed s) = pcd s. Proof. t n_store_sfreed. Qed.
Lemma pcd_n_publish s : pcd (n_publish s) = pcd s. Proof. t n_publish. Qed.
Lemma pcd_n_post_free s : pcd (n_post_free s) = pcd s. Proof. t n_post_free. Qed.
Lemma pcd_reset_w s : pcd (reset_w s) = (pins s, [], []). Proof. t reset_w. Qed.

Lemma pcd_eq : forall a b, pcd a = pcd b -> pins a = pins b /\ wcreated a = wcreated b /\ wdeleted a = wdeleted b.
Proof. intros a b E. unfold pcd in E. inversion E. auto. Qed.
Lemma pcd_eq3 : forall a x y z, pcd a = (x, y, z) -> pins a = x /\ wcreated a = y /\ wdeleted a = z.
Proof. intros a x y z E. unfold pcd in E. inversion E. auto. Qed.

Lemma pcd_c_epilogue So s : pcd (c_epilogue So s) = pcd s.
Proof.
  unfold c_epilogue. destruct (epilogue_runs s); [|reflexivity].
  now rewrite pcd_e_publish, pcd_c_store_sfreed, pcd_mut_sys, pcd_e_drain.
Qed.

Lemma pcd_commit_dur : forall D' Sd So qr pcf s,
  pcd (commit_dur D' Sd So qr pcf s) = (remove_pins (wdeleted s) (pins s), [], []).
Proof.
  intros. unfold commit_dur, finish. rewrite pcd_reset_w.
  assert (E : pcd (commit_dur_mid D' Sd qr s) = (remove_pins (wdeleted s) (pins s), [], [])).
  { unfold commit_dur_mid. rewrite pcd_c_apply_sp.
    assert (E1 : pcd (c_post_free (c_publish_dur (commit_dur_pre D' Sd qr s))) = pcd s).
    { rewrite pcd_c_post_free, pcd_c_publish_dur. unfold commit_dur_pre.
      destruct qr; [rewrite pcd_c_store_sfreed|];
        now rewrite pcd_mut_sys, pcd_c_drain, pcd_c_store_dfreed, pcd_c_adopt, pcd_mut_data, pcd_c_restored. }
    apply pcd_eq in E1. destruct E1 as [Ea [Eb Ec]]. now rewrite Ea, Ec. }
  assert (E2 : pcd (if pcf then c_epilogue So (commit_dur_mid D' Sd qr s) else commit_dur_mid D' Sd qr s)
               = (remove_pins (wdeleted s) (pins s), [], [])).
  { destruct pcf; [rewrite pcd_c_epilogue|]; exact E. }
  apply pcd_eq3 in E2. destruct E2 as [Ea [Eb Ec]]. now rewrite Ea.
Qed.

Lemma pcd_commit_nd : forall D' Sd s,
  pcd (commit_nd D' Sd s) = (remove_pins (wdeleted s) (pins s), [], []).
Proof.
  intros. unfold commit_nd, finish. rewrite pcd_reset_w.
  assert (E : pcd (c_apply_sp (n_post_free (n_publish (commit_nd_pre D' Sd s)))) = (remove_pins (wdeleted s) (pins s), [], [])).
  { rewrite pcd_c_apply_sp.
    assert (E1 : pcd (n_post_free (n_publish (commit_nd_pre D' Sd s))) = pcd s).
    { rewrite pcd_n_post_free, pcd_n_publish. unfold commit_nd_pre.
      now rewrite pcd_n_store_sfreed, pcd_mut_sys, pcd_n_reclaim, pcd_n_store_ufreed, pcd_mut_data, pcd_c_restored. }
    apply pcd_eq in E1. destruct E1 as [Ea [Eb Ec]]. now rewrite Ea, Ec. }
  apply pcd_eq3 in E. destruct E as [Ea [Eb Ec]]. now rewrite Ea.
Qed.

(* ---------------------------------------------------------------- unique handles *)
Definition uniq (s : st) : Prop := NoDup (map ph (pins s)).

Lemma find_pin_none : forall h l, find_pin h l = None -> ~ In h (map ph l).
Proof.
  intros h l. unfold find_pin. induction l as [|x l IH]; simpl; intros E; [tauto|].
  destruct (N.eqb (ph x) h) eqn:Hx; [discriminate|]. apply N.eqb_neq in Hx.
  intros [H|H]; [contradiction | exact (IH E H)].
Qed.

Lemma find_pin_in : forall h l x, find_pin h l = Some x -> In x l /\ ph x = h.
Proof.
  intros h l x E. unfold find_pin in E. apply find_some in E. destruct E as [Hi He]. apply N.eqb_eq in He. auto.
Qed.

Lemma uniq_same : forall l x y, NoDup (map ph l) -> In x l -> In y l -> ph x = ph y -> x = y.
Proof.
  induction l as [|a l IH]; simpl; intros x y Hn Hx Hy E; [tauto|].
  inversion Hn as [|? ? Hna Hnl]; subst.
  destruct Hx as [Hx|Hx], Hy as [Hy|Hy]; subst; auto.
  - exfalso. apply Hna. rewrite E. apply in_map. exact Hy.
  - exfalso. apply Hna. rewrite <- E. apply in_map. exact Hx.
Qed.

Lemma NoDup_map_filter : forall (f : pin -> bool) l, NoDup (map ph l) -> NoDup (map ph (filter f l)).
Proof.
  intros f l. induction l as [|a l IH]; simpl; intros Hn; [constructor|].
  inversion Hn as [|? ? Hna Hnl]; subst. destruct (f a); simpl; [|auto].
  constructor; [|auto]. intros Hin. apply Hna. apply in_map_iff in Hin. destruct Hin as [x [Ex Hx]].
  apply filter_In in Hx. rewrite <- Ex. apply in_map. tauto.
Qed.

Lemma uniq_add_pin : forall h p s, uniq s -> ok_new_handle h s = true -> uniq (add_pin h p s).
Proof.
  intros h p s Hu Hok. unfold uniq, add_pin; simpl. rewrite map_app. simpl.
  unfold ok_new_handle in Hok. destruct (find_pin h (pins s)) eqn:E; [discriminate|].
  apply find_pin_none in E.
  assert (H : NoDup (h :: map ph (pins s))) by (constructor; assumption).
  eapply Permutation_NoDup; [|exact H].
  apply Permutation_cons_append.
Qed.

Theorem uniq_step : forall s o, uniq s -> oracle_ok s o = true -> uniq (step s o).
Proof.
  intros s o Hu Hok. destruct o; simpl in *.
  - unfold begin_write. destruct (inw s); exact Hu.
  - exact Hu.
  - exact Hu.
  - apply uniq_add_pin; assumption.
  - unfold uniq, drop_pin, set_pins, remove_pins; simpl. apply NoDup_map_filter. exact Hu.
  - apply andb_prop in Hok. destruct Hok as [_ Hok].
    unfold sp_create. destruct persist; [|apply uniq_add_pin; assumption].
    pose proof (uniq_add_pin h true s Hu Hok) as H. exact H.
  - exact Hu.
  - unfold restore. destruct (find_pin h (pins s)); exact Hu.
  - unfold uniq. change (pins (abort s)) with (remove_pins (wcreated s) (pins s)).
    unfold remove_pins. apply NoDup_map_filter. exact Hu.
  - unfold uniq. pose proof (pcd_commit_dur D' Sd So qr pcf s) as E. apply pcd_eq3 in E. destruct E as [Ea _].
    rewrite Ea. unfold remove_pins. apply NoDup_map_filter. exact Hu.
  - unfold uniq. pose proof (pcd_commit_nd D' Sd s) as E. apply pcd_eq3 in E. destruct E as [Ea _].
    rewrite Ea. unfold remove_pins. apply NoDup_map_filter. exact Hu.
  - unfold uniq, reopen; simpl. apply NoDup_map_filter. exact Hu.
Qed.

(* ---------------------------------------------------------------- a reader's pin persists *)
From RV Require Import Txn.OwnP Txn.OwnThmP.

Definition keeps (h : N) (o : op) : bool :=
  match o with ODropPin h' => negb (N.eqb h' h) | OReopen => false | _ => true end.

Definition held (s : st) (r : pin) : Prop :=
  In r (pins s) /\ ~ In (ph r) (wcreated s) /\ ~ In (ph r) (wdeleted s).

Lemma memN_false : forall k l, memN k l = false <-> ~ In k l.
Proof.
  intros k l. unfold memN. split.
  - intros E H. assert (X : existsb (N.eqb k) l = true) by (apply existsb_exists; exists k; split; [exact H|apply N.eqb_refl]).
    congruence.
  - intros H. destruct (existsb (N.eqb k) l) eqn:E; [|reflexivity]. apply existsb_exists in E.
    destruct E as [x [Hx Ex]]. apply N.eqb_eq in Ex. subst. contradiction.
Qed.

Lemma in_remove_pins : forall hs l r, In r l -> ~ In (ph r) hs -> In r (remove_pins hs l).
Proof.
  intros hs l r Hi Hn. unfold remove_pins. apply filter_In. split; [exact Hi|].
  apply negb_true_iff. apply memN_false. exact Hn.
Qed.

Lemma held_step : forall s o r, uniq s -> ppersist r = false -> held s r ->
  oracle_ok s o = true -> keeps (ph r) o = true -> held (step s o) r.
Proof.
  intros s o r Hu Hp [Hi [Hc Hd]] Hok Hk. destruct o; simpl in *.
  - unfold begin_write. destruct (inw s); repeat split; assumption.
  - repeat split; assumption.
  - repeat split; assumption.
  - unfold held, begin_read, add_pin; simpl. repeat split; try assumption. apply in_or_app. left. exact Hi.
  - unfold held, drop_pin, set_pins; simpl. repeat split; try assumption.
    apply in_remove_pins; [exact Hi|]. simpl. intros [E|[]]. apply negb_true_iff in Hk. apply N.eqb_neq in Hk. congruence.
  - apply andb_prop in Hok. destruct Hok as [_ Hok]. unfold ok_new_handle in Hok.
    destruct (find_pin h (pins s)) eqn:E; [discriminate|]. apply find_pin_none in E.
    assert (Hne : h <> ph r) by (intros ->; apply E; apply in_map; exact Hi).
    unfold held, sp_create. destruct persist; unfold add_pin; simpl; repeat split; try assumption;
      try (apply in_or_app; left; exact Hi).
    intros [X|X]; [congruence | contradiction].
  - apply andb_prop in Hok. destruct Hok as [_ Hok].
    destruct (find_pin h (pins s)) eqn:E; [|discriminate]. apply andb_prop in Hok. destruct Hok as [Hpp _].
    apply find_pin_in in E. destruct E as [Hin Eh].
    unfold held, sp_delete; simpl. repeat split; try assumption.
    intros [X|X]; [|contradiction]. subst h.
    assert (p = r) by (apply (uniq_same (pins s)); [exact Hu|exact Hin|exact Hi|congruence]). subst p. congruence.
  - unfold held, restore. destruct (find_pin h (pins s)); simpl; repeat split; assumption.
  - unfold held. change (pins (abort s)) with (remove_pins (wcreated s) (pins s)).
    change (wcreated (abort s)) with (@nil N). change (wdeleted (abort s)) with (@nil N).
    repeat split; [apply in_remove_pins; assumption| |]; intros [].
  - pose proof (pcd_commit_dur D' Sd So qr pcf s) as E. apply pcd_eq3 in E. destruct E as [Ea [Eb Ec]].
    unfold held. rewrite Ea, Eb, Ec. repeat split; [apply in_remove_pins; assumption| |]; intros [].
  - pose proof (pcd_commit_nd D' Sd s) as E. apply pcd_eq3 in E. destruct E as [Ea [Eb Ec]].
    unfold held. rewrite Ea, Eb, Ec. repeat split; [apply in_remove_pins; assumption| |]; intros [].
  - discriminate.
Qed.

(* a reader (or ephemeral savepoint) registered in s, whose handle is neither dropped nor lost to a
   reopen in the history, is still registered with the SAME page set after the history -- whatever
   commits of any durability, aborts, savepoint operations and restores happen in between *)
Theorem held_run : forall h s r, uniq s -> ppersist r = false -> held s r -> admissible s h ->
  forallb (keeps (ph r)) h = true -> held (run h s) r /\ uniq (run h s).
Proof.
  induction h as [|o t IH]; intros s r Hu Hp Hh Ha Hk; simpl in *; [split; assumption|].
  destruct Ha as [Hok Ha]. apply andb_prop in Hk. destruct Hk as [Hk1 Hk2].
  apply IH; try assumption; [apply uniq_step; assumption | apply held_step; assumption].
Qed.

(* ... and therefore (with the invariant) every page of its snapshot is still allocated and none of
   them is among the pages any later tree mutation is handed by the allocator *)
Theorem snapshot_pages_protected : forall h s r, Inv s -> uniq s -> ppersist r = false -> held s r ->
  admissible s h -> forallb (keeps (ph r)) h = true ->
  let s' := run h s in
  In r (pins s') /\ incl (ppages r) (alloc s') /\
  (forall D', ok_data D' s' = true -> disjoint (minus D' (wdata s')) (ppages r)) /\
  (forall S', ok_sys S' s' = true -> disjoint (minus S' (wsys s')) (ppages r)).
Proof.
  intros h s r HI Hu Hp Hh Ha Hk s'. destruct (held_run h s r Hu Hp Hh Ha Hk) as [[Hi _] _].
  assert (HI' : Inv s') by (apply inv_reach; assumption).
  assert (Hpin : incl (ppages r) (pinned s')).
  { intros p Hin. unfold pinned. apply in_or_app. right. apply in_or_app. right.
    apply in_concat. exists (ppages r). split; [apply in_map; exact Hi | exact Hin]. }
  split; [exact Hi|]. split.
  - intros p Hin. apply (pinned_allocated s' HI'). apply Hpin. exact Hin.
  - split.
    + intros D' Hok p Hp' Hin. apply (fresh_not_pinned_data D' s' HI' Hok p Hp'). apply Hpin. exact Hin.
    + intros S' Hok p Hp' Hin. apply (fresh_not_pinned_sys S' s' HI' Hok p Hp'). apply Hpin. exact Hin.
Qed.

Lemma uniq_init : uniq init. Proof. constructor. Qed.
Lemma uniq_reach : forall h s, uniq s -> admissible s h -> uniq (run h s).
Proof.
  induction h as [|o t IH]; intros s Hu Ha; simpl in *; [exact Hu|]. destruct Ha as [Hok Ha].
  apply IH; [apply uniq_step; assumption | exact Ha].
Qed.

(* begin_read in a reachable state yields a held pin carrying exactly the latest committed data pages *)
Lemma begin_read_held : forall s h, ok_new_handle h s = true ->
  held (begin_read h s) (mkpin h (vid (lat s)) (vdata (lat s)) false) \/ In h (wcreated s ++ wdeleted s).
Proof.
  intros s h Hok. destruct (in_dec N.eq_dec h (wcreated s ++ wdeleted s)) as [Hin|Hn]; [right; exact Hin|left].
  unfold held, begin_read, add_pin; simpl. repeat split.
  - apply in_or_app. right. left. reflexivity.
  - intros X. apply Hn. apply in_or_app. left. exact X.
  - intros X. apply Hn. apply in_or_app. right. exact X.
Qed.

(* handles staged in the write transaction's created / deleted lists name persistent pins *)
Definition wnamed (s : st) : Prop :=
  forall h, In h (wcreated s ++ wdeleted s) -> exists x, In x (pins s) /\ ph x = h /\ ppersist x = true.

Lemma wnamed_nil : forall s, wcreated s = [] -> wdeleted s = [] -> wnamed s.
Proof. intros s E1 E2 h. rewrite E1, E2. intros []. Qed.

Lemma wnamed_step : forall s o, uniq s -> wnamed s -> oracle_ok s o = true -> wnamed (step s o).
Proof.
  intros s o Hu Hw Hok. destruct o; simpl in *.
  - unfold begin_write. destruct (inw s); exact Hw.
  - exact Hw.
  - exact Hw.
  - intros k Hk. destruct (Hw k Hk) as [x [Hx [Eh Ep]]]. exists x. split; [|auto].
    unfold begin_read, add_pin; simpl. apply in_or_app. left. exact Hx.
  - destruct (find_pin h (pins s)) eqn:E; [|discriminate]. apply find_pin_in in E. destruct E as [Hin Eh].
    apply negb_true_iff in Hok.
    intros k Hk. destruct (Hw k Hk) as [x [Hx [Ek Ep]]]. exists x. split; [|auto].
    unfold drop_pin, set_pins; simpl. apply in_remove_pins; [exact Hx|]. simpl. intros [X|[]].
    assert (p = x) by (apply (uniq_same (pins s)); [exact Hu|exact Hin|exact Hx|congruence]). subst p. congruence.
  - apply andb_prop in Hok. destruct Hok as [_ Hok].
    unfold sp_create. destruct persist.
    + intros k Hk. simpl in Hk. destruct Hk as [Hk|Hk].
      * subst k. exists (mkpin h (vid (lat s)) (vdata (lat s)) true). split; [|auto].
        unfold add_pin; simpl. apply in_or_app. right. left. reflexivity.
      * destruct (Hw k Hk) as [x [Hx [Ek Ep]]]. exists x. split; [|auto].
        unfold add_pin; simpl. apply in_or_app. left. exact Hx.
    + intros k Hk. destruct (Hw k Hk) as [x [Hx [Ek Ep]]]. exists x. split; [|auto].
      unfold add_pin; simpl. apply in_or_app. left. exact Hx.
  - apply andb_prop in Hok. destruct Hok as [_ Hok].
    destruct (find_pin h (pins s)) eqn:E; [|discriminate]. apply andb_prop in Hok. destruct Hok as [Hpp _].
    apply find_pin_in in E. destruct E as [Hin Eh].
    intros k Hk. unfold sp_delete in Hk; simpl in Hk. apply in_app_or in Hk. destruct Hk as [Hk|[Hk|Hk]].
    + apply Hw. apply in_or_app. left. exact Hk.
    + subst k. exists p. auto.
    + apply Hw. apply in_or_app. right. exact Hk.
  - unfold restore. destruct (find_pin h (pins s)); exact Hw.
  - apply wnamed_nil; reflexivity.
  - pose proof (pcd_commit_dur D' Sd So qr pcf s) as E. apply pcd_eq3 in E. destruct E as [_ [Eb Ec]]. apply wnamed_nil; assumption.
  - pose proof (pcd_commit_nd D' Sd s) as E. apply pcd_eq3 in E. destruct E as [_ [Eb Ec]]. apply wnamed_nil; assumption.
  - intros k Hk. destruct (Hw k Hk) as [x [Hx [Ek Ep]]]. exists x. split; [|auto].
    unfold reopen; simpl. apply filter_In. auto.
Qed.

Lemma uw_reach : forall h s, uniq s -> wnamed s -> admissible s h -> uniq (run h s) /\ wnamed (run h s).
Proof.
  induction h as [|o t IH]; intros s Hu Hw Ha; simpl in *; [auto|]. destruct Ha as [Hok Ha].
  apply IH; [apply uniq_step | apply wnamed_step | ]; assumption.
Qed.

Lemma admissible_app : forall a b s, admissible s (a ++ b) <-> admissible s a /\ admissible (run a s) b.
Proof.
  induction a as [|o t IH]; intros b s; simpl; [tauto|]. rewrite IH. tauto.
Qed.

Lemma run_app : forall a b s, run (a ++ b) s = run b (run a s).
Proof. intros. unfold run. apply fold_left_app. Qed.

(* C02 at page level, over EVERY history of the ownership model from creation: a reader begun after any
   history h0, and not dropped / not lost to a reopen during any continuation h1 -- durable and non-durable
   commits with early reclaim, aborts, savepoint creation / deletion / restore -- is still registered,
   every data page of the version that was the latest commit when begin_read ran is still allocated, and no
   later tree mutation is handed any of them by the allocator (so none is rewritten). *)
Theorem reader_snapshot_pages_frozen : forall h0 h h1,
  admissible init (h0 ++ OBeginRead h :: h1) -> forallb (keeps h) h1 = true ->
  let s0 := run h0 init in
  let s' := run (h0 ++ OBeginRead h :: h1) init in
  let snap := vdata (lat s0) in
  In (mkpin h (vid (lat s0)) snap false) (pins s') /\ incl snap (alloc s') /\
  (forall D', ok_data D' s' = true -> disjoint (minus D' (wdata s')) snap) /\
  (forall S', ok_sys S' s' = true -> disjoint (minus S' (wsys s')) snap).
Proof.
  intros h0 h h1 Ha Hk s0 s' snap.
  apply admissible_app in Ha. destruct Ha as [Ha0 Ha1]. simpl in Ha1. destruct Ha1 as [Hok Ha1].
  fold s0 in Hok, Ha1.
  destruct (uw_reach h0 init uniq_init (wnamed_nil init eq_refl eq_refl) Ha0) as [Hu0 Hw0]. fold s0 in Hu0, Hw0.
  assert (HI0 : Inv s0) by (apply inv_reach_init; exact Ha0).
  set (r := mkpin h (vid (lat s0)) snap false).
  assert (Hheld : held (begin_read h s0) r).
  { destruct (begin_read_held s0 h Hok) as [X|X]; [exact X|]. exfalso.
    destruct (Hw0 h X) as [x [Hx [Eh _]]]. unfold ok_new_handle in Hok.
    destruct (find_pin h (pins s0)) eqn:E; [discriminate|]. apply find_pin_none in E. apply E. rewrite <- Eh. apply in_map. exact Hx. }
  assert (HI1 : Inv (begin_read h s0)) by (apply (inv_step s0 (OBeginRead h)); assumption).
  assert (Hu1 : uniq (begin_read h s0)) by (apply (uniq_step s0 (OBeginRead h)); assumption).
  pose proof (snapshot_pages_protected h1 (begin_read h s0) r HI1 Hu1 eq_refl Hheld Ha1 Hk) as P.
  unfold s'. rewrite run_app. simpl. exact P.
Qed.
