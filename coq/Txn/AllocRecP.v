(* Allocation records (AllocRec.v): the theorems.
   rec_inv                  the invariant RInv (with Own.Inv) holds initially and after every admissible step
   restore_frees_exactly    the record-based restore computes exactly what Own.restore specifies
   tracking_disabled_safe   the PageTracker is off only when no savepoint exists, and then none can be consulted *)
From Coq Require Import List PArith NArith Bool MSets.MSetPositive Permutation Lia.
From RV Require Import Txn.PSet Txn.PSetP Txn.Own Txn.OwnP Txn.OwnStepP Txn.OwnCommitP Txn.OwnThmP Txn.AllocRec.
From RV Require Import Txn.AllocRecBaseP Txn.AllocRecStepP Txn.AllocRecStep2P Txn.AllocRecStep3P Txn.AllocRecRestoreP Txn.AllocRecCommitP Txn.AllocRecCommit2P Txn.AllocRecCommit3P Txn.AllocRecCommit4P.
Import ListNotations.
Open Scope N_scope.

Lemma step2_fst : forall x o, fst (step2 x o) = step (fst x) o.
Proof. reflexivity. Qed.

Lemma run2_fst : forall h x, fst (run2 h x) = run h (fst x).
Proof. induction h as [|o h IH]; intros x; simpl; [reflexivity|]. rewrite IH. reflexivity. Qed.

Lemma oracle_ok2_ok : forall x o, oracle_ok2 x o = true -> oracle_ok (fst x) o = true.
Proof. intros x o H. unfold oracle_ok2 in H. apply andb_true_iff in H. tauto. Qed.

Lemma admissible2_admissible : forall h x, admissible2 x h -> admissible (fst x) h.
Proof.
  induction h as [|o h IH]; intros x Ha; simpl in *; [exact I|]. destruct Ha as [Hok Ha].
  split; [apply oracle_ok2_ok; exact Hok | apply (IH (step2 x o)); exact Ha].
Qed.

Theorem rinv_init : Inv2 (init, rinit).
Proof.
  split; [exact inv_init|]. split; [|intros Hf; discriminate].
  split; constructor; unfold init, rinit; cbn.
  all: try solve [intros e []].
  all: try solve [intros e x []].
  all: try solve [intros e1 e2 []].
  all: try solve [constructor].
  all: try solve [split; intros e []].
  all: try solve [repeat split; intros p Hp; cbn in Hp; lia].
  all: try solve [intros p Hp; cbn in Hp; lia].
  all: try solve [intros; discriminate].
  all: try solve [intros _; repeat split; try reflexivity; intros p Hp; cbn in Hp; lia].
  all: try solve [intros r0 e Hf; discriminate].
Qed.

Theorem rinv_step : forall x o, Inv2 x -> oracle_ok2 x o = true -> Inv2 (step2 x o).
Proof.
  intros [s r] o [H HR] Hok2. cbn [fst snd] in *.
  pose proof (oracle_ok2_ok (s, r) o Hok2) as Hok. cbn [fst] in Hok.
  split; [exact (inv_step s o H Hok)|].
  pose proof HR as [HO HW1]. cbn [fst snd] in HO, HW1.
  unfold oracle_ok2 in Hok2. cbn [fst snd] in Hok2. apply andb_true_iff in Hok2. destruct Hok2 as [_ Hx].
  destruct o; cbn [step2 step fst snd oracle_ok] in *.
  - (* begin_write *) apply negb_true_iff in Hok. split; cbn [fst snd].
    + apply robs_begin_write; assumption.
    + intros _. apply rinv_w1_begin_write; assumption.
  - (* mut_data *) apply andb_true_iff in Hok. destruct Hok as [Hw Hd]. split; cbn [fst snd].
    + apply robs_mut_data; assumption.
    + intros _. exact (HW1 Hw).
  - (* mut_sys *) apply andb_true_iff in Hok. destruct Hok as [Hw Hd]. split; cbn [fst snd].
    + apply robs_mut_sys; assumption.
    + intros _. exact (HW1 Hw).
  - (* begin_read *) split; cbn [fst snd].
    + apply robs_add_pin; assumption.
    + exact HW1.
  - (* drop_pin *) split; cbn [fst snd].
    + apply robs_drop_pin; assumption.
    + exact HW1.
  - (* sp_create *) apply andb_true_iff in Hok. destruct Hok as [Hw Hn].
    apply andb_true_iff in Hx. destruct Hx as [Hd Hlt]. apply negb_true_iff in Hd.
    split; cbn [fst snd].
    + apply robs_sp_create; try assumption.
      intros e He. rewrite forallb_forall in Hlt. apply N.ltb_lt. apply Hlt. exact He.
    + intros _. unfold sp_create. destruct persist; exact (HW1 Hw).
  - (* sp_delete *) apply andb_true_iff in Hok. destruct Hok as [Hw _]. split; cbn [fst snd].
    + apply robs_sp_delete; assumption.
    + intros _. exact (HW1 Hw).
  - (* restore *) apply andb_true_iff in Hok. destruct Hok as [Hw Hres].
    assert (Hok2' : oracle_ok2 (s, r) (ORestore h) = true).
    { unfold oracle_ok2. cbn [fst snd oracle_ok]. rewrite Hw, Hres, Hx. reflexivity. }
    destruct (restore_ctx h s r H HR Hw Hok2') as (e0 & sp & CX).
    split; cbn [fst snd].
    + exact (robs_restore h s r e0 sp CX).
    + intros _. exact (rinv_w1_restore h s r e0 sp CX).
  - (* abort *) split; cbn [fst snd].
    + apply robs_abort; assumption.
    + intros Hf. discriminate.
  - (* commit, Immediate *) split; cbn [fst snd].
    + apply robs_commit_dur; assumption.
    + intros Hf. discriminate.
  - (* commit, None *) split; cbn [fst snd].
    + apply robs_commit_nd; assumption.
    + intros Hf. discriminate.
  - (* reopen *) split; cbn [fst snd].
    + apply robs_reopen; assumption.
    + intros Hf. exfalso. unfold ok_reopen in Hok. apply andb_true_iff in Hok. destruct Hok as [Hw _].
      apply negb_true_iff in Hw. change (inw s = true) in Hf. rewrite Hw in Hf. discriminate.
Qed.

(* every history (induction on its length), from any state satisfying the invariant *)
Theorem rec_inv : forall h x, Inv2 x -> admissible2 x h -> Inv2 (run2 h x).
Proof.
  induction h as [|o h IH]; intros x Hx Ha; simpl in *; [exact Hx|].
  destruct Ha as [Hok Ha]. apply IH; [apply rinv_step; assumption | exact Ha].
Qed.

Corollary rec_inv_init : forall h, admissible2 (init, rinit) h -> Inv2 (run2 h (init, rinit)).
Proof. intros h Ha. apply rec_inv; [exact rinv_init | exact Ha]. Qed.

(* the record-based restore (tracker pages freed at once; DATA_ALLOCATED / unpersisted allocations after the
   savepoint queued) is a refinement of Own.restore, in every state satisfying the invariant *)
Theorem restore_frees_exactly : forall x h, Inv2 x -> oracle_ok2 x (ORestore h) = true ->
  st_eqv (restore_rec h (fst x) (snd x)) (restore h (fst x)).
Proof.
  intros [s r] h [H HR] Hok. cbn [fst snd] in *.
  pose proof (oracle_ok2_ok (s, r) _ Hok) as Hok1. cbn [fst oracle_ok] in Hok1.
  apply andb_true_iff in Hok1. destruct Hok1 as [Hw _].
  destruct (restore_ctx h s r H HR Hw Hok) as (e0 & sp & CX).
  exact (restore_rec_exact h s r e0 sp CX).
Qed.

(* ... the two sets, explicitly: freed at once = the tracker's pages; queued = the records after the savepoint *)
Theorem restore_sets_exact : forall x h sp, Inv2 x -> oracle_ok2 x (ORestore h) = true ->
  find_pin h (pins (fst x)) = Some sp ->
  let X := cover_w (ptxn sp) (fst x) in
  seteq (inter X (wasc (fst x))) (trk (snd x)) /\
  seteq (minus (minus X (wasc (fst x))) (ppages sp)) (RC (ptxn sp) (snd x)).
Proof.
  intros [s r] h sp [H HR] Hok Hf. cbn [fst snd] in *.
  pose proof (oracle_ok2_ok (s, r) _ Hok) as Hok1. cbn [fst oracle_ok] in Hok1.
  apply andb_true_iff in Hok1. destruct Hok1 as [Hw _].
  destruct (restore_ctx h s r H HR Hw Hok) as (e0 & sp' & CX).
  assert (sp' = sp) by (destruct CX; congruence). subst sp'.
  assert (Ht : ptxn sp = snd e0) by (destruct CX; assumption). rewrite Ht.
  split; intro p; rewrite !In_cnt.
  - exact (rx_freed h s r e0 sp CX p).
  - exact (rx_queue h s r e0 sp CX p).
Qed.

(* the PageTracker is disabled only when no savepoint exists; the transaction is then dirty, so no savepoint can
   be created in it and none exists that could be restored: no restore ever consults an incomplete tracker *)
Theorem tracking_disabled_safe : forall x, Inv2 x -> trk_on (snd x) = false ->
  valid (snd x) = [] /\ trk (snd x) = [] /\ dirty (snd x) = true /\
  (forall h p, oracle_ok2 x (OSpCreate h p) = false) /\ (forall h, oracle_ok2 x (ORestore h) = false).
Proof.
  intros [s r] [H [[HC HW] _]] Hoff. cbn [fst snd] in *.
  destruct (ro_t2 s r HW Hoff) as (Hv & Ht & Hd). repeat split; try assumption.
  - intros h p. unfold oracle_ok2. cbn [fst snd]. rewrite Hd. cbn. apply andb_false_r.
  - intros h. unfold oracle_ok2. cbn [fst snd]. rewrite Hv. cbn. apply andb_false_r.
Qed.

(* ... and whenever a restore is admissible the tracker is on *)
Corollary restore_tracker_complete : forall x h, Inv2 x -> oracle_ok2 x (ORestore h) = true -> trk_on (snd x) = true.
Proof.
  intros x h Hx Hok. destruct (trk_on (snd x)) eqn:E; [reflexivity|].
  destruct (tracking_disabled_safe x Hx E) as (_ & _ & _ & _ & Hr). rewrite Hr in Hok. discriminate.
Qed.
