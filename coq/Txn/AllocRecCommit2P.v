(* Allocation records: commit pipelines, part 2 (publish, epilogue, closing a commit). *)
From Coq Require Import List PArith NArith Bool MSets.MSetPositive Permutation Lia.
From RV Require Import Txn.PSet Txn.PSetP Txn.Own Txn.OwnP Txn.OwnStepP Txn.OwnCommitP Txn.AllocRec.
From RV Require Import Txn.AllocRecBaseP Txn.AllocRecStepP Txn.AllocRecStep2P Txn.AllocRecCommitP.
Import ListNotations.
Open Scope N_scope.

Lemma RW_b_mono : forall b b' ex s r, b <= b' -> RW b ex s r -> RW b' ex s r.
Proof.
  intros b b' ex s r Hb [V1 V2 V3 Vt [Kb Lb] KW O5 T1 T2]. constructor; try assumption.
  split; [|lia]. intros e He. specialize (Kb e He). lia.
Qed.

(* every surviving DATA_ALLOCATED entry is at or after the transaction of some remaining pin *)
Definition PF' (s : st) (r : arec) : Prop :=
  forall e, In e (dalloc r) -> exists x, In x (pins s) /\ ptxn x <= fst e.

Lemma PF_frame : forall s s' r, pins s' = pins s -> wdeleted s' = wdeleted s -> PF s r -> PF s' r.
Proof. intros s s' r E1 E2 H e He. rewrite E1, E2. exact (H e He). Qed.

Lemma PF'_frame : forall s s' r, pins s' = pins s -> PF' s r -> PF' s' r.
Proof. intros s s' r E1 H e He. rewrite E1. exact (H e He). Qed.

(* ---------------------------------------------------------------- TransactionalMemory::commit .. apply_on_commit *)

Lemma RW_publish : forall s s0 r, RW (lastid s) (wdeleted s) s r -> PF s r -> trk r = [] -> wdeleted s0 = wdeleted s ->
  let s' := c_apply_sp (c_post_free (c_publish_dur s)) in
  let r' := r_apply_sp s0 r in
  RW (lastid s) [] s' r' /\ PF' s' r' /\ dalloc r' = dalloc r /\ ualloc r' = ualloc r /\ trk r' = [].
Proof.
  intros s s0 r [V1 V2 V3 Vt [Kb Lb] KW O5 [T1a T1b] T2] Pf Ht Ed s' r'.
  subst s' r'. unfold r_apply_sp. rewrite Ed.
  destruct r as [da ua tk on di va wi]. unfold recs, RC, keys_rec_le, PF, PF', set_valid in *.
  cbn [dalloc ualloc trk trk_on dirty valid winval] in *. subst tk.
  assert (Hpins : pins (c_apply_sp (c_post_free (c_publish_dur s))) = remove_pins (wdeleted s) (pins s)) by reflexivity.
  assert (Hcov : forall a p, cnt p (cover_w a (c_apply_sp (c_post_free (c_publish_dur s)))) = cnt p (cover_w a s)) by reflexivity.
  assert (Hsp : forall e x, In e (valid_minus (wi ++ wdeleted s) va) -> sp_pin (c_apply_sp (c_post_free (c_publish_dur s))) e x ->
                 In e va /\ ~ In (fst e) wi /\ ~ In (fst e) (wdeleted s) /\ sp_pin s e x).
  { intros e x He (Hx & Hp). apply In_valid_minus in He. destruct He as [He Hn]. rewrite Hpins in Hx.
    apply In_remove_pins in Hx. repeat split; try assumption; try tauto; intros Hi; apply Hn; apply in_app_iff; tauto. }
  split; [|split; [|split; [|split]]]; try reflexivity.
  - constructor; unfold keys_rec_le, recs, RC; cbn [dalloc ualloc trk trk_on dirty valid winval].
    + intros e He. apply In_valid_minus in He. destruct He as [He Hn]. destruct (V1 e He) as (x & Hx & Hxh & Hxt).
      exists x. split; [|tauto]. rewrite Hpins. apply In_remove_pins_iff. split; [exact Hx|].
      rewrite Hxh. intros Hi. apply Hn. apply in_app_iff. right. exact Hi.
    + rewrite Hpins. unfold remove_pins. apply NoDup_map_filter. exact V2.
    + intros e1 e2 H1 H2. apply In_valid_minus in H1. apply In_valid_minus in H2. apply V3; tauto.
    + intros e He. apply In_valid_minus in He. destruct He as [He _]. specialize (Vt e He). red_st. lia.
    + split; [exact Kb | red_st; apply N.le_refl].
    + intros e He p Hp. rewrite Hcov. exact (KW e He p Hp).
    + intros e x He _ _ Hp. destruct (Hsp e x He Hp) as (He' & Hni & Hnd & Hp').
      destruct (O5 e x He' Hni Hnd Hp') as [O5a O5b]. split; [|exact O5b].
      intros p Hp2. apply O5a. rewrite cnt_minus in *. rewrite Hcov in Hp2. exact Hp2.
    + split; intros p Hp; rewrite cnt_nil in Hp; lia.
    + intros Hoff. destruct (T2 Hoff) as [Hv _]. rewrite Hv. split; reflexivity.
  - intros e He. destruct (Pf e He) as (x & Hx & Hn & Hle). exists x. split; [|exact Hle].
    rewrite Hpins. apply In_remove_pins_iff. tauto.
Qed.

(* ---------------------------------------------------------------- the epilogue's drain *)

Lemma cover_w_e_drain : forall s a p, wrest s = None -> dfreed s = wdfreed s -> horizon (lastid s + 1) s <= a + 1 ->
  cnt p (cover_w a (e_drain s)) = cnt p (cover_w a s).
Proof.
  intros s a p Hr Hd Hh. unfold cover_w, eff_ufreed, e_drain.
  cbn [alloc lastid dur lat dfreed sfreed ufreed unpers pca pins pend inw wdata wsys wasc wdfr wsfr wdfreed wrest wcreated wdeleted].
  rewrite Hr, Hd. rewrite late_keys_ge by exact Hh. reflexivity.
Qed.

Lemma RW_e_drain : forall b s r, RW b [] s r -> PF' s r -> ualloc r = [] -> wrest s = None -> dfreed s = wdfreed s ->
  RW b [] (e_drain s) r.
Proof.
  intros b s r [V1 V2 V3 Vt [Kb Lb] KW O5 [T1a T1b] T2] Pf Hu Hr Hd.
  assert (Hpins : pins (e_drain s) = pins s) by reflexivity.
  constructor; unfold sp_pin in *; rewrite ?Hpins; try assumption.
  - split; assumption.
  - intros e He p Hp. unfold recs in He. rewrite Hu, app_nil_r in He. destruct (Pf e He) as (x & Hx & Hle).
    pose proof (horizon_le_pin (lastid s + 1) s x Hx) as Hh.
    rewrite cover_w_e_drain; try assumption; [|lia].
    apply (KW e); [unfold recs; rewrite Hu, app_nil_r; exact He | exact Hp].
  - intros e x He Hni Hex Hp. destruct (O5 e x He Hni Hex Hp) as [O5a O5b]. split; [|exact O5b].
    destruct Hp as (Hx & _ & Hxt). pose proof (horizon_le_pin (lastid s + 1) s x Hx) as Hh. rewrite Hxt in Hh.
    intros p Hp'. apply O5a. rewrite cnt_minus in *. rewrite cover_w_e_drain in Hp'; assumption.
  - split; assumption.
Qed.

(* a system-tree mutation allocates fresh pages only: the records stay apart from the uncommitted pages *)
Lemma mut_sys_ra : forall S' s r,
  (forall e, In e (recs r) -> Sub (snd e) (cover_w (fst e) s)) -> Bal (alloc s) (owned_w s) -> ok_sys S' s = true ->
  Dis (flat (recs r)) (wasc s) -> Dis (flat (recs r)) (wasc (mut_sys S' s)).
Proof.
  intros S' s r KW B Hok RA. pose proof (recs_sub_alloc s r KW B) as RS.
  apply ok_sys_facts in Hok. destruct Hok as [HD Hfresh]. red_st. clear KW B. pw.
Qed.

Lemma mut_sys_wasc_alloc : forall S' s, Sub (wasc s) (alloc s) -> Sub (wasc (mut_sys S' s)) (alloc (mut_sys S' s)).
Proof. intros S' s H. red_st. pw. Qed.

Lemma RW_mut_sys : forall b ex S' s r, RW b ex s r -> trk r = [] -> RW b ex (mut_sys S' s) r.
Proof.
  intros b ex S' s r W Ht. destruct (rw_kb _ _ _ _ W) as [_ Lb].
  apply (RW_frame b ex s); try reflexivity; try assumption.
  all: try solve [apply N.le_refl].
  rewrite Ht. intros p Hp. rewrite cnt_nil in Hp. lia.
Qed.

Lemma RW_store_sfreed : forall b ex k s r, RW b ex s r -> RW b ex (c_store_sfreed k s) r.
Proof.
  intros b ex k s r W. destruct (rw_kb _ _ _ _ W) as [_ Lb]. destruct (rw_t1 _ _ _ _ W) as [_ T1b].
  apply (RW_frame b ex s); try reflexivity; try assumption.
  all: try solve [apply N.le_refl].
Qed.

Lemma RW_e_publish : forall b ex s r, RW b ex s r -> trk r = [] -> vid (lat s) <= lastid s -> lastid s + 1 <= b ->
  RW b ex (e_publish s) r.
Proof.
  intros b ex s r W Ht Hl Hb.
  apply (RW_frame b ex s); try reflexivity; try assumption.
  - red_st. lia.
  - rewrite Ht. intros p Hp. rewrite cnt_nil in Hp. lia.
Qed.

(* ---------------------------------------------------------------- closing a commit *)

Lemma cover_closed : forall s a p, closed s ->
  cnt p (cover_c a (finish s)) = cnt p (cover_w a s) /\ cnt p (cover_w a (finish s)) = cnt p (cover_w a s).
Proof.
  intros s a p (C1 & C2 & C3 & C4 & C5 & C6 & C7).
  unfold cover_c, cover_w, eff_ufreed, finish, reset_w.
  cbn [alloc lastid dur lat dfreed sfreed ufreed unpers pca pins pend inw wdata wsys wasc wdfr wsfr wdfreed wrest wcreated wdeleted].
  rewrite C2, C4, C5, C6. rewrite !cnt_app, !cnt_nil. lia.
Qed.

Lemma robs_finish : forall b s r, RW b [] s r -> closed s -> trk r = [] -> b <= vid (lat s) ->
  Sub (flat (ualloc r)) (unpers s) -> Dis (flat (dalloc r)) (unpers s) -> Dis (flat (ualloc r)) (pca s) ->
  Sub (pca s) (alloc s) -> (forall e, In e (valid r) -> ~ In (fst e) (winval r)) ->
  RObs (finish s) (r_reset r).
Proof.
  intros b s r [V1 V2 V3 Vt [Kb Lb] KW O5 [T1a T1b] T2] Hc Ht Hb U1 U2 U3 P1 Hwi.
  pose proof Hc as (C1 & C2 & C3 & C4 & C5 & C6 & C7).
  assert (Hpins : pins (finish s) = pins s) by reflexivity.
  assert (Hnil : forall h : N, ~ In h []) by (intros h []).
  split.
  - constructor; unfold sp_pin, r_reset, recs, RC in *; cbn [dalloc ualloc trk trk_on dirty valid winval]; rewrite ?Hpins; try assumption.
    + intros e He p Hp. rewrite (proj1 (cover_closed s (fst e) p Hc)). exact (KW e He p Hp).
    + intros e x He Hp. destruct (O5 e x He (Hwi e He) (Hnil _) Hp) as [O5a O5b]. rewrite Ht, app_nil_r in O5a, O5b.
      split; [|exact O5b]. intros p Hp'. apply O5a. rewrite cnt_minus in *.
      rewrite (proj1 (cover_closed s (snd e) p Hc)) in Hp'. exact Hp'.
    + assert (Hlat : vid (lat (finish s)) = vid (lat s)) by reflexivity. rewrite Hlat.
      split; intros e He; (eapply N.le_trans; [apply Kb | exact Hb]); unfold recs; apply in_app_iff; [left | right]; exact He.
    + repeat split; assumption.
  - constructor; unfold sp_pin, r_reset, recs, RC in *; cbn [dalloc ualloc trk trk_on dirty valid winval]; rewrite ?Hpins.
    + intros e He p Hp. rewrite (proj2 (cover_closed s (fst e) p Hc)). exact (KW e He p Hp).
    + intros e x He _ Hp. destruct (O5 e x He (Hwi e He) (Hnil _) Hp) as [O5a _]. rewrite Ht in O5a.
      intros p Hp'. apply O5a. rewrite cnt_minus in *.
      rewrite (proj2 (cover_closed s (snd e) p Hc)) in Hp'. exact Hp'.
    + intros p Hp. reflexivity.
    + split; intros p Hp; rewrite cnt_nil in Hp; lia.
    + intros Hf. discriminate.
    + split; [exact P1 | intros p Hp; reflexivity].
    + intros _. repeat split; reflexivity.
    + intros _. repeat split; try reflexivity. red_st. intros p Hp. rewrite !cnt_app in Hp. rewrite cnt_nil in Hp. lia.
    + intros r0 e Hr. discriminate.
Qed.
