From Coq Require Import List PArith NArith Bool MSets.MSetPositive Permutation Lia.
From RV Require Import Txn.PSet Txn.PSetP Txn.Own Txn.OwnP Txn.OwnStepP.
Import ListNotations.
Open Scope N_scope.

(* ---- filters ---- *)
Lemma late_app : forall r a b, late r (a ++ b) = late r a ++ late r b.
Proof. intros. unfold late. apply filter_app. Qed.

Lemma cnt_late_add_entry_gt : forall r k ps t p, r < k ->
  cnt p (flat (late r (add_entry k ps t))) = (cnt p (flat (late r t)) + cnt p ps)%nat.
Proof.
  intros r k ps t p Hr. destruct ps as [|a ps]; [cbn [add_entry]; change (cnt p []) with 0%nat; lia|].
  cbn [add_entry]. rewrite late_app, flat_app, cnt_app. f_equal.
  unfold late. simpl. apply N.ltb_lt in Hr. rewrite Hr. unfold flat. simpl. rewrite app_nil_r. reflexivity.
Qed.

Lemma late_keys_ge_K : forall d K h t, keysK d K t -> h <= K -> late d (keys_ge h t) = late d t.
Proof.
  intros d K h t Hk Hh. unfold late, keys_ge. induction t as [|[k ps] t IH]; simpl; [reflexivity|].
  assert (Hk0 : k <= d \/ k = K) by (apply (Hk (k, ps)); left; reflexivity).
  assert (IH' : keysK d K t) by (intros e He; apply Hk; right; exact He).
  destruct (k <? h) eqn:E1; simpl; destruct (d <? k) eqn:E2; simpl; rewrite ?IH by exact IH'; try reflexivity.
  apply N.ltb_lt in E1. apply N.ltb_lt in E2. lia.
Qed.

Lemma keysK_filter : forall b K (f : N * list positive -> bool) t, keysK b K t -> keysK b K (filter f t).
Proof. intros b K f t H e He. apply filter_In in He. apply H. tauto. Qed.

Lemma keysK_app : forall b K t u, keysK b K t -> keysK b K u -> keysK b K (t ++ u).
Proof. intros b K t u H1 H2 e He. apply in_app_iff in He. destruct He; auto. Qed.

Lemma keysK_add_entry : forall b K ps t, keysK b K t -> keysK b K (add_entry K ps t).
Proof.
  intros b K ps t H e He. apply In_keys_add_entry in He. destruct He as [He|He]; [auto | subst e; right; reflexivity].
Qed.

Lemma keysK_tab_minus : forall b K t x, keysK b K t -> keysK b K (tab_minus t x).
Proof.
  intros b K t x H e He. apply tab_minus_keys in He. destruct He as (e0 & H0 & Hk & _).
  rewrite <- Hk. apply H. exact H0.
Qed.

Lemma keysK_nil : forall b K, keysK b K [].
Proof. intros b K e []. Qed.

(* ---- horizon ---- *)
Lemma horizon_le_live : forall d s x, In x (live_ids s) -> horizon d s <= x + 1.
Proof.
  intros d s x Hx. unfold horizon. destruct (minN (live_ids s)) as [m|] eqn:E.
  - pose proof (minN_le _ _ _ E Hx). lia.
  - apply minN_none in E. rewrite E in Hx. destruct Hx.
Qed.

Lemma horizon_le_pin : forall d s x, In x (pins s) -> horizon d s <= ptxn x + 1.
Proof.
  intros d s x Hx. apply horizon_le_live. unfold live_ids. apply in_app_iff. left. apply in_map. exact Hx.
Qed.

Lemma horizon_bound : forall d s b, (forall x, In x (live_ids s) -> x <= b) -> b < d -> horizon d s <= d.
Proof.
  intros d s b Hb Hd. unfold horizon. destruct (minN (live_ids s)) as [m|] eqn:E; [|lia].
  apply minN_in in E. apply Hb in E. lia.
Qed.

(* ---- commit pieces on the working view ---- *)

Lemma restored_W : forall K0 s, InvW K0 s -> InvW K0 (c_restored s) /\ wrest (c_restored s) = None.
Proof.
  intros K0 s [B P D U A I Pe K R Np]. split; [|reflexivity].
  assert (Hk : keysK (vid (lat s)) K0 (eff_ufreed s)).
  { unfold eff_ufreed. destruct (wrest s); [apply keysK_filter|]; tauto. }
  constructor; try assumption.
  - destruct K as (K1 & K2 & K3). repeat split; assumption.
  - intros r Hr. discriminate.
Qed.

Lemma restored_pins_asc : forall s, pins_asc s -> pins_asc (c_restored s).
Proof. intros s H x Hx. exact (H x Hx). Qed.

Lemma adopt_W : forall K0 s, InvW K0 s -> InvW K0 (c_adopt s).
Proof.
  intros K0 s [B P [D1 D2] [U1 U2] A I Pe K R Np].
  constructor; red_st; try assumption; try (split; assumption).
  - intros x Hx. destruct (P x Hx) as (H1 & H2 & H3 & H4 & H4n). unfold wpin_ok. red_st.
    repeat split; try assumption. intros Hle. specialize (H4 Hle). clear - H4. pw.
  - split; [clear - U1; pw | intros p Hp; rewrite cnt_nil in Hp; lia].
  - clear - U1 U2 A. pw.
  - apply list_cases in Np. destruct Np as [(Hp & Hl & Hu)|(Hp & Hin)].
    + rewrite Hp. split; [exact Hl|]. rewrite Hu. reflexivity.
    + destruct (pend s); [congruence | exact Hin].
Qed.

Lemma store_dfreed_W : forall s, InvW (lastid s) s -> wrest s = None -> InvW (lastid s) (c_store_dfreed s) /\ wrest (c_store_dfreed s) = None.
Proof.
  intros s [B P [D1 D2] U A [I1 I2] Pe (K1 & K2 & K3) R Np] Hr. split; [|exact Hr].
  unfold owned_w, cover_w, eff_ufreed in *. rewrite Hr in *.
  constructor; unfold owned_w, cover_w, eff_ufreed; red_st; rewrite ?Hr; try assumption; try (split; assumption).
  - clear - B. pw.
  - intros x Hx. destruct (P x Hx) as (H1 & H2 & H3 & H4 & H4n). unfold wpin_ok, cover_w, eff_ufreed in *. red_st.
    rewrite Hr in *. repeat split; try assumption.
    clear - H1 H2 I2. intros p Hp. specialize (H1 p Hp). rewrite !cnt_app in *.
    rewrite cnt_late_add_entry_gt by lia. rewrite late_app, flat_app, cnt_app. lia.
  - split; [|exact D2]. clear - D1 I1 I2. intros p Hp. specialize (D1 p Hp). rewrite !cnt_app in *.
    rewrite cnt_late_add_entry_gt by lia. rewrite late_app, flat_app, cnt_app. lia.
  - repeat split; try assumption; [apply keysK_nil | apply keysK_add_entry; apply keysK_app; assumption].
Qed.

Lemma live_ids_le_lat : forall K0 s, InvW K0 s -> forall x, In x (live_ids s) -> x <= vid (lat s).
Proof.
  intros K0 s [B P D U A [I1 I2] Pe K R Np] x Hx. unfold live_ids in Hx. apply in_app_iff in Hx.
  destruct Hx as [Hx|Hx]; apply in_map_iff in Hx; destruct Hx as (y & <- & Hy).
  - destruct (P y Hy) as (_ & H2 & _). exact H2.
  - destruct (Pe y Hy) as (H1 & _ & _). rewrite H1. exact I1.
Qed.

(* the horizon never passes the durable version while it differs from the latest one *)
Lemma dur_late_keys_ge : forall K0 s h t, InvW K0 s -> h = horizon K0 s -> keysK (vid (lat s)) K0 t ->
  late (vid (dur s)) (keys_ge h t) = late (vid (dur s)) t.
Proof.
  intros K0 s h t W Hh Hk. pose proof (live_ids_le_lat K0 s W) as Hl.
  destruct W as [B P D U A [I1 I2] Pe K R Np].
  apply list_cases in Np. destruct Np as [(Hp & Hl' & Hu)|(Hp & Hin)].
  - apply (late_keys_ge_K _ K0); [rewrite <- Hl'; exact Hk|].
    subst h. apply (horizon_bound _ _ (vid (lat s))); assumption.
  - apply late_keys_ge. subst h. apply horizon_le_live. unfold live_ids. apply in_app_iff. right.
    destruct (pend s) as [|e l] eqn:E; [congruence|]. destruct (Pe e (or_introl eq_refl)) as (H1 & _).
    rewrite <- H1. left. reflexivity.
Qed.

Lemma drain_W : forall s, InvW (lastid s) s -> wrest s = None -> InvW (lastid s) (c_drain s) /\ wrest (c_drain s) = None.
Proof.
  intros s W Hr. split; [|exact Hr].
  pose proof (dur_late_keys_ge _ s _ (wdfreed s) W eq_refl) as Hd1.
  pose proof (dur_late_keys_ge _ s _ (sfreed s) W eq_refl) as Hd2.
  destruct W as [B P [D1 D2] U A [I1 I2] Pe (K1 & K2 & K3) R Np].
  specialize (Hd1 K3). specialize (Hd2 K1).
  set (h := horizon (lastid s) s) in *.
  unfold owned_w, cover_w, scover_w, eff_ufreed in *. rewrite Hr in *.
  constructor; unfold owned_w, cover_w, scover_w, eff_ufreed, c_drain; fold h;
    cbn [alloc lastid dur lat dfreed sfreed ufreed unpers pca pins pend inw wdata wsys wasc wdfr wsfr
    wdfreed wrest wcreated wdeleted]; rewrite ?Hr; try assumption; try (split; assumption).
  - clear - B. pw.
  - intros x Hx. destruct (P x Hx) as (H1 & H2 & H3 & H4 & H4n). unfold wpin_ok, cover_w, eff_ufreed in *.
    cbn [alloc lastid dur lat dfreed sfreed ufreed unpers pca pins pend inw wdata wsys wasc wdfr wsfr
    wdfreed wrest wcreated wdeleted]. rewrite Hr in *. repeat split; try assumption.
    rewrite late_keys_ge; [exact H1 | apply horizon_le_pin; exact Hx].
  - rewrite Hd1, Hd2. split; assumption.
  - repeat split; try assumption; apply keysK_filter; assumption.
Qed.

Lemma store_sfreed_W : forall K0 s, InvW K0 s -> InvW K0 (c_store_sfreed K0 s).
Proof.
  intros K0 s [B P [D1 D2] U A [I1 I2] Pe (K1 & K2 & K3) R Np].
  constructor; red_st; try assumption; try (split; assumption).
  - clear - B. pw.
  - split; [exact D1|]. clear - D2 I1 I2. intros p Hp. specialize (D2 p Hp). rewrite !cnt_app in *.
    rewrite cnt_late_add_entry_gt by lia. rewrite cnt_nil. lia.
  - repeat split; try assumption. apply keysK_add_entry. exact K1.
Qed.

(* ---- closing a commit: the working view becomes the committed one ---- *)

Definition closed (s : st) : Prop :=
  wasc s = [] /\ wdfr s = [] /\ wsfr s = [] /\ wrest s = None /\ dfreed s = wdfreed s /\
  vdata (lat s) = wdata s /\ vsys (lat s) = wsys s.

Lemma finish_inv : forall K0 s, InvW K0 s -> closed s -> vid (lat s) <= lastid s ->
  keys_le (vid (lat s)) (sfreed s) -> keys_le (vid (lat s)) (ufreed s) -> keys_le (vid (lat s)) (wdfreed s) ->
  Inv (finish s).
Proof.
  intros K0 s [B P [D1 D2] U A [I1 I2] Pe K R Np] (C1 & C2 & C3 & C4 & C5 & C6 & C7) Hl Ks Ku Kd.
  unfold owned_w, cover_w, scover_w, eff_ufreed in *. rewrite C1, C2, C3, C4 in *.
  constructor; unfold owned_c, owned_w, cover_c, cover_w, scover_c, scover_w, eff_ufreed, finish, reset_w;
    cbn [alloc lastid dur lat dfreed sfreed ufreed unpers pca pins pend inw wdata wsys wasc wdfr wsfr
    wdfreed wrest wcreated wdeleted]; rewrite ?C5, ?C6, ?C7; try assumption; try (split; assumption).
  - clear - B. pw.
  - intros x Hx. destruct (P x Hx) as (H1 & H2 & H3 & H4 & H5). unfold pin_ok, cover_c, cover_w, eff_ufreed.
    cbn [alloc lastid dur lat dfreed sfreed ufreed unpers pca pins pend inw wdata wsys wasc wdfr wsfr
    wdfreed wrest wcreated wdeleted]. rewrite ?C5, ?C6, ?C7. unfold cover_w, eff_ufreed in H1. rewrite C2, C4 in H1.
    repeat split; try tauto; clear - H1; pw.
  - split; intros p Hp; cnt_norm; lia.
  - repeat split; try lia.
  - repeat split; assumption.
  - intros _. unfold normal_w. cbn [alloc lastid dur lat dfreed sfreed ufreed unpers pca pins pend inw wdata wsys wasc wdfr wsfr
    wdfreed wrest wcreated wdeleted]. rewrite ?C5, ?C6, ?C7. repeat split; reflexivity.
Qed.

Lemma keysK_le_succ : forall b K t, keysK b K t -> b < K -> keys_le K t.
Proof. intros b K t H Hb e He. destruct (H e He); lia. Qed.

Lemma keysK_shift : forall b K t, keysK b K t -> b < K -> keysK K (K + 1) t.
Proof. intros b K t H Hb e He. left. destruct (H e He); lia. Qed.

(* TransactionalMemory::commit, the frees after it and apply_on_commit *)
Lemma publish_W : forall s, InvW (lastid s) s -> wrest s = None -> wdfr s = [] -> ufreed s = [] ->
  let s' := c_apply_sp (c_post_free (c_publish_dur s)) in
  InvW (lastid s + 1) s' /\ closed s' /\ pend s' = [] /\ unpers s' = [] /\ lat s' = dur s' /\
  vid (lat s') = lastid s /\ lastid s' = lastid s /\
  keys_le (lastid s) (sfreed s') /\ keys_le (lastid s) (ufreed s') /\ keys_le (lastid s) (wdfreed s').
Proof.
  intros s [B P [D1 D2] U A [I1 I2] Pe (K1 & K2 & K3) R Np] Hr Hd Hu s'.
  unfold owned_w, cover_w, scover_w, eff_ufreed in *. rewrite Hr, Hd, Hu in *.
  subst s'. split.
  2: { unfold closed. red_st. rewrite ?Hr, ?Hd, ?Hu.
       repeat split; try reflexivity; try (eapply keysK_le_succ; eassumption); try (intros e []). }
  constructor; red_st; rewrite ?Hr, ?Hd, ?Hu; try (split; lia).
  all: try solve [intros e []].
  all: try solve [intros r Hr'; discriminate].
  all: try solve [split; reflexivity].
  all: try solve [intros p Hp; reflexivity].
  all: try solve [split; intros p Hp; cnt_norm; lia].
  all: try solve [split; intros p Hp; rewrite cnt_nil in Hp; lia].
  all: try solve [repeat split; try (eapply keysK_shift; eassumption); intros e []].
  - clear - B. pw.
  - intros x Hx. apply In_remove_pins in Hx. destruct (P x Hx) as (H1 & H2 & H3 & H4 & H5).
    unfold wpin_ok, cover_w, eff_ufreed in *. red_st. rewrite Hr, Hd, Hu in *.
    repeat split; try assumption; try lia.
    intros _ p Hp. rewrite cnt_nil in Hp. lia.
Qed.

(* ---- the epilogue ---- *)

Lemma e_drain_W : forall s, InvW (lastid s + 1) s -> wrest s = None -> dfreed s = wdfreed s ->
  InvW (lastid s + 1) (e_drain s).
Proof.
  intros s W Hr He.
  pose proof (dur_late_keys_ge _ s _ (wdfreed s) W eq_refl) as Hd1.
  destruct W as [B P [D1 D2] U A [I1 I2] Pe (K1 & K2 & K3) R Np].
  specialize (Hd1 K3).
  set (h := horizon (lastid s + 1) s) in *.
  unfold owned_w, cover_w, scover_w, eff_ufreed in *. rewrite Hr in *.
  constructor; unfold owned_w, cover_w, scover_w, eff_ufreed, e_drain; fold h;
    cbn [alloc lastid dur lat dfreed sfreed ufreed unpers pca pins pend inw wdata wsys wasc wdfr wsfr
    wdfreed wrest wcreated wdeleted]; rewrite ?Hr, ?He; try assumption; try (split; assumption).
  - clear - B. pw.
  - intros x Hx. destruct (P x Hx) as (H1 & H2 & H3 & H4 & H5). unfold wpin_ok, cover_w, eff_ufreed in *.
    cbn [alloc lastid dur lat dfreed sfreed ufreed unpers pca pins pend inw wdata wsys wasc wdfr wsfr
    wdfreed wrest wcreated wdeleted]. rewrite Hr, ?He in *. repeat split; try assumption.
    rewrite late_keys_ge; [exact H1 | apply horizon_le_pin; exact Hx].
  - rewrite Hd1. split; assumption.
  - repeat split; try assumption; apply keysK_filter; assumption.
Qed.

Lemma e_publish_W : forall s, InvW (lastid s + 1) s -> pins_asc s ->
  pend s = [] -> lat s = dur s -> vid (lat s) = lastid s ->
  InvW (lastid s + 2) (e_publish s).
Proof.
  intros s [B P [D1 D2] [U1 U2] A [I1 I2] Pe (K1 & K2 & K3) R Np] PA Hp Hl Hv.
  constructor; red_st; try assumption; try (split; assumption); try (split; lia).
  all: try solve [intros p Hp'; reflexivity].
  all: try solve [split; [clear - A; pw | intros p Hp'; exact Hp']].
  all: try solve [intros e [<-|[]]; unfold pend_ok; red_st; rewrite <- Hl; rewrite Hv; repeat split; lia].
  all: try solve [intros r Hr; specialize (R r Hr); lia].
  all: try solve [left; reflexivity].
  - intros x Hx. destruct (P x Hx) as (H1 & H2 & H3 & H4 & H5). pose proof (PA x Hx) as H6.
    unfold wpin_ok in *. red_st. repeat split; try assumption; try lia.
    all: try solve [left; rewrite <- Hl; exact H2].
    all: try solve [intros _; clear - H6; pw].
    all: try tauto.
  - intros e He. destruct He as [He|[]]. subst e. unfold pend_ok. red_st. cbn [fst snd]. rewrite <- Hl. rewrite Hv. lia.
  - repeat split; intros e He; left.
    + destruct (K1 e He); lia.
    + destruct (K2 e He); lia.
    + destruct (K3 e He); lia.
Qed.

Lemma pins_asc_nil : forall s, wasc s = [] -> pins_asc s.
Proof. intros s H x Hx p Hp. rewrite H. reflexivity. Qed.

Lemma commit_dur_pre_W : forall D' Sd qr s, Inv s -> inw s = true ->
  ok_data D' (c_restored s) = true ->
  ok_sys Sd (c_drain (c_store_dfreed (c_adopt (mut_data D' (c_restored s))))) = true ->
  let s7 := commit_dur_pre D' Sd qr s in
  InvW (lastid s) s7 /\ wrest s7 = None /\ wdfr s7 = [] /\ ufreed s7 = [] /\ lastid s7 = lastid s.
Proof.
  intros D' Sd qr s H Hw Hok1 Hok2 s7.
  pose proof (Inv_pins_asc s H) as PA. pose proof (Inv_W s H Hw) as W0.
  destruct (restored_W _ s W0) as [W1 R1]. apply restored_pins_asc in PA.
  destruct (mut_data_W _ D' _ W1 PA Hok1) as [W2 PA2].
  pose proof (adopt_W _ _ W2) as W3.
  set (s3 := c_adopt (mut_data D' (c_restored s))) in *.
  destruct (store_dfreed_W s3 W3 eq_refl) as [W4 R4].
  destruct (drain_W (c_store_dfreed s3) W4 R4) as [W5 R5].
  pose proof (mut_sys_W _ Sd _ W5 Hok2) as W6.
  subst s7. unfold commit_dur_pre. destruct qr.
  - pose proof (store_sfreed_W (lastid s) _ W6) as W7. split; [exact W7 | repeat split; reflexivity].
  - split; [exact W6 | repeat split; reflexivity].
Qed.

Theorem inv_commit_dur : forall D' Sd So qr pcf s, Inv s ->
  ok_commit_dur D' Sd So qr pcf s = true -> Inv (commit_dur D' Sd So qr pcf s).
Proof.
  intros D' Sd So qr pcf s H Hok. unfold ok_commit_dur in Hok.
  apply andb_true_iff in Hok. destruct Hok as [Hw Hok].
  apply andb_true_iff in Hok. destruct Hok as [Hok1 Hok].
  apply andb_true_iff in Hok. destruct Hok as [Hok2 Hok3].
  destruct (commit_dur_pre_W D' Sd qr s H Hw Hok1 Hok2) as (W7 & R7 & Hd7 & Hu7 & Hl7).
  set (s7 := commit_dur_pre D' Sd qr s) in *.
  rewrite <- Hl7 in W7.
  destruct (publish_W s7 W7 R7 Hd7 Hu7) as (W10 & C10 & Hp10 & Hun10 & Hld10 & Hv10 & Hl10 & Ks & Ku & Kd).
  unfold commit_dur. cbv zeta. unfold commit_dur_mid in *. fold s7. fold s7 in Hok3.
  set (s10 := c_apply_sp (c_post_free (c_publish_dur s7))) in *.
  destruct (pcf && epilogue_runs s10) eqn:Ep.
  - (* the epilogue runs *)
    apply andb_true_iff in Ep. destruct Ep as [Epcf Erun]. rewrite Epcf. unfold c_epilogue. rewrite Erun.
    destruct C10 as (C1 & C2 & C3 & C4 & C5 & C6 & C7).
    rewrite <- Hl10 in W10.
    pose proof (e_drain_W s10 W10 C4 C5) as W11.
    assert (PA11 : pins_asc (e_drain s10)) by (apply pins_asc_nil; exact C1).
    pose proof (mut_sys_W _ So _ W11 Hok3) as W12.
    pose proof (mut_sys_pins_asc _ So _ W11 PA11 Hok3) as PA12.
    pose proof (store_sfreed_W (lastid s10 + 1) _ W12) as W13.
    set (s13 := c_store_sfreed (lastid s10 + 1) (mut_sys So (e_drain s10))) in *.
    assert (PA13 : pins_asc s13) by exact PA12.
    assert (Hp13 : pend s13 = []) by exact Hp10.
    assert (Hld13 : lat s13 = dur s13) by exact Hld10.
    assert (Hv13 : vid (lat s13) = lastid s13) by (change (vid (lat s10) = lastid s10); congruence).
    pose proof (e_publish_W s13 W13 PA13 Hp13 Hld13 Hv13) as W14.
    destruct W13 as [_ _ _ _ _ [_ I13] _ (K1 & K2 & K3) _ _].
    apply (finish_inv (lastid s13 + 2) (e_publish s13) W14).
    + unfold closed. red_st. repeat split; try reflexivity; try assumption.
    + red_st. lia.
    + apply (keysK_le_succ _ _ _ K1 I13).
    + apply (keysK_le_succ _ _ _ K2 I13).
    + apply (keysK_le_succ _ _ _ K3 I13).
  - (* no epilogue *)
    assert (Hs : (if pcf then c_epilogue So s10 else s10) = s10).
    { destruct pcf; [|reflexivity]. simpl in Ep. unfold c_epilogue. rewrite Ep. reflexivity. }
    rewrite Hs. apply (finish_inv (lastid s7 + 1) s10 W10 C10); rewrite ?Hv10; try assumption.
    rewrite Hl10. apply N.le_refl.
Qed.
Lemma n_store_ufreed_W : forall s, InvW (lastid s) s -> wrest s = None ->
  InvW (lastid s) (n_store_ufreed s).
Proof.
  intros s [B P [D1 D2] U A [I1 I2] Pe (K1 & K2 & K3) R Np] Hr.
  unfold owned_w, cover_w, eff_ufreed in *. rewrite Hr in *.
  constructor; unfold owned_w, cover_w, eff_ufreed; red_st; rewrite ?Hr; try assumption; try (split; assumption).
  - clear - B. pw.
  - intros x Hx. destruct (P x Hx) as (H1 & H2 & H3 & H4 & H5). unfold wpin_ok, cover_w, eff_ufreed in *. red_st.
    rewrite Hr in *. repeat split; try assumption.
    clear - H1 H2 I2. intros p Hp. specialize (H1 p Hp). rewrite !cnt_app in *.
    rewrite cnt_late_add_entry_gt by lia. rewrite cnt_nil. lia.
  - split; [|exact D2]. clear - D1 I1 I2. intros p Hp. specialize (D1 p Hp). rewrite !cnt_app in *.
    rewrite cnt_late_add_entry_gt by lia. rewrite cnt_nil. lia.
  - repeat split; try assumption. apply keysK_add_entry. exact K2.
Qed.

(* filters commute with removing pages from entries *)
Lemma late_tab_minus : forall r t x, late r (tab_minus t x) = tab_minus (late r t) x.
Proof.
  intros r t x. unfold late, tab_minus. induction t as [|[k ps] t IH]; simpl; [reflexivity|].
  destruct (r <? k) eqn:E; simpl.
  - destruct (filter (fun p => negb (PS.mem p (mkset x))) ps) eqn:Ef; simpl; rewrite ?E; rewrite IH; reflexivity.
  - destruct (filter (fun p => negb (PS.mem p (mkset x))) ps) eqn:Ef; simpl; rewrite ?E; rewrite IH; reflexivity.
Qed.

(* an entry below the horizon is not one recorded after a version the horizon protects *)
Lemma cnt_lt_late_disjoint : forall fu r p t, fu <= r + 1 ->
  (cnt p (flat (keys_lt fu t)) + cnt p (flat (late r t)) <= cnt p (flat t))%nat.
Proof.
  intros fu r p t Hf. unfold keys_lt, late. induction t as [|[k ps] t IH]; simpl; [lia|].
  rewrite flat_cons, cnt_app.
  destruct (k <? fu) eqn:E1; destruct (r <? k) eqn:E2; simpl; rewrite ?flat_cons, ?cnt_app; try lia.
  apply N.ltb_lt in E1. apply N.ltb_lt in E2. lia.
Qed.

Lemma nd_horizon_le_pin : forall d s x, In x (pins s) -> In (ptxn x) (map fst (pend s)) ->
  nd_horizon d s <= ptxn x + 1.
Proof.
  intros d s x Hx Hp. unfold nd_horizon.
  destruct (minN (filter (fun r => memN r (map fst (pend s))) (map ptxn (pins s)))) as [m|] eqn:E.
  - assert (Hin : In (ptxn x) (filter (fun r => memN r (map fst (pend s))) (map ptxn (pins s)))).
    { apply filter_In. split; [apply in_map; exact Hx | apply memN_spec; exact Hp]. }
    pose proof (minN_le _ _ _ E Hin). lia.
  - apply minN_none in E.
    assert (Hin : In (ptxn x) (filter (fun r => memN r (map fst (pend s))) (map ptxn (pins s)))).
    { apply filter_In. split; [apply in_map; exact Hx | apply memN_spec; exact Hp]. }
    rewrite E in Hin. destruct Hin.
Qed.

Lemma n_reclaim_W : forall s, InvW (lastid s) s -> wrest s = None -> InvW (lastid s) (n_reclaim s).
Proof.
  intros s [B P [D1 D2] [U1 U2] A [I1 I2] Pe (K1 & K2 & K3) R Np] Hr.
  unfold owned_w, cover_w, scover_w, eff_ufreed in *. rewrite Hr in *.
  set (fu := nd_horizon (lastid s) s) in *.
  constructor; unfold owned_w, cover_w, scover_w, eff_ufreed, n_reclaim; fold fu;
    cbn [alloc lastid dur lat dfreed sfreed ufreed unpers pca pins pend inw wdata wsys wasc wdfr wsfr
    wdfreed wrest wcreated wdeleted]; rewrite ?Hr; try assumption; try (split; assumption).
  - (* balance *) clear - B. pw.
  - (* pins *)
    intros x Hx. destruct (P x Hx) as (H1 & H2 & H3 & H4 & H5). unfold wpin_ok, cover_w, eff_ufreed in *.
    cbn [alloc lastid dur lat dfreed sfreed ufreed unpers pca pins pend inw wdata wsys wasc wdfr wsfr
    wdfreed wrest wcreated wdeleted]. rewrite Hr in *. repeat split; try assumption; try tauto.
    + rewrite late_tab_minus. destruct H3 as [H3|H3].
      * (* an old pin: unpersisted pages are not in it *)
        specialize (H4 H3). clear - H1 H4 B. pw.
      * (* a pin on a pending non-durable commit: the horizon stops at it *)
        pose proof (nd_horizon_le_pin (lastid s) s x Hx H3) as Hfu. fold fu in Hfu.
        clear - H1 B Hfu. intro p.
        pose proof (cnt_lt_late_disjoint fu (ptxn x) p (ufreed s) Hfu).
        pose proof (cnt_late_le (ptxn x) (ufreed s) p).
        inst_at p. cnt_norm. tab_facts p. cnt_norm. split_matches; lia.
    + intros Hle. specialize (H4 Hle). clear - H4. pw.
  - (* durable version *)
    split.
    + rewrite late_tab_minus. clear - D1 U1. pw.
    + rewrite late_tab_minus. clear - D2 U1. pw.
  - split; [clear - U1; pw | clear - U2; pw].
  - repeat split; try assumption; apply keysK_tab_minus; assumption.
  - apply list_cases in Np. destruct Np as [(Hp & Hl & Hu)|(Hp & Hin)].
    + rewrite Hp. split; [exact Hl|]. rewrite Hu. reflexivity.
    + destruct (pend s); [congruence | exact Hin].
Qed.

Lemma n_store_sfreed_W : forall s, InvW (lastid s) s -> InvW (lastid s) (n_store_sfreed s).
Proof.
  intros s [B P [D1 D2] U A [I1 I2] Pe (K1 & K2 & K3) R Np].
  constructor; red_st; try assumption; try (split; assumption).
  - clear - B. pw.
  - split; [exact D1|]. clear - D2 I1 I2. intros p Hp. specialize (D2 p Hp). rewrite !cnt_app in *.
    rewrite cnt_late_add_entry_gt by lia. rewrite cnt_inter, cnt_minus. destruct (cnt p (unpers s)); lia.
  - repeat split; try assumption. apply keysK_add_entry. exact K1.
Qed.

(* TransactionalMemory::non_durable_commit, the post-commit frees and apply_on_commit *)
Lemma n_close_W : forall s, InvW (lastid s) s -> pins_asc s -> wrest s = None -> wdfr s = [] ->
  incl (wsfr s) (unpers s) ->
  let s' := c_apply_sp (n_post_free (n_publish s)) in
  InvW (lastid s + 1) s' /\ closed s' /\ vid (lat s') = lastid s /\ lastid s' = lastid s /\
  keys_le (lastid s) (sfreed s') /\ keys_le (lastid s) (ufreed s') /\ keys_le (lastid s) (wdfreed s').
Proof.
  intros s [B P [D1 D2] [U1 U2] A [I1 I2] Pe (K1 & K2 & K3) R Np] PA Hr Hd Hsub s'.
  unfold owned_w, cover_w, scover_w, eff_ufreed in *. rewrite Hr, Hd in *.
  subst s'. split.
  2: { unfold closed. red_st. rewrite ?Hr, ?Hd.
       repeat split; try reflexivity; try (eapply keysK_le_succ; eassumption). }
  constructor; red_st; rewrite ?Hr, ?Hd; try (split; lia).
  all: try solve [intros r Hr'; discriminate].
  all: try solve [intros p Hp; reflexivity].
  - clear - B. pw.
  - intros x Hx. apply In_remove_pins in Hx. destruct (P x Hx) as (H1 & H2 & H3 & H4 & H5).
    pose proof (PA x Hx) as H6.
    unfold wpin_ok, cover_w, eff_ufreed in *. red_st. rewrite Hr, Hd in *.
    repeat split; try assumption; try lia.
    + destruct H3 as [H3|H3]; [left; exact H3 | right; rewrite map_app; apply in_app_iff; left; exact H3].
    + intros Hle. specialize (H4 Hle). clear - H4 H6. pw.
  - split.
    + clear - D1. pw.
    + (* the system pages unlinked by this commit and freed right after it were unpersisted: the durable tree does not name them *)
      apply Sub_incl in Hsub. clear - D2 U1 Hsub. pw.
  - split; [clear - U1 A; pw | clear - U2; pw].
  - intros e He. apply in_app_iff in He. destruct He as [He|[<-|[]]].
    + destruct (Pe e He) as (E1 & E2 & E3). unfold pend_ok. red_st. repeat split; try assumption. lia.
    + unfold pend_ok. red_st. cbn [fst snd]. repeat split; lia.
  - repeat split; eapply keysK_shift; eassumption.
  - destruct (pend s) as [|e0 l0]; cbn [app].
    + left. reflexivity.
    + change (In (lastid s) (map fst ((e0 :: l0) ++ [(lastid s, vid (dur s))]))). rewrite map_app. apply in_app_iff. right. left. reflexivity.
Qed.

Theorem inv_commit_nd : forall D' Sd s, Inv s -> ok_commit_nd D' Sd s = true -> Inv (commit_nd D' Sd s).
Proof.
  intros D' Sd s H Hok. unfold ok_commit_nd in Hok.
  apply andb_true_iff in Hok. destruct Hok as [Hok Hok12].
  apply andb_true_iff in Hok. destruct Hok as [Hw _].
  cbv zeta in Hok12. apply andb_true_iff in Hok12. destruct Hok12 as [Hok1 Hok2].
  pose proof (Inv_pins_asc s H) as PA. pose proof (Inv_W s H Hw) as W0.
  destruct (restored_W _ s W0) as [W1 R1]. apply restored_pins_asc in PA.
  destruct (mut_data_W _ D' _ W1 PA Hok1) as [W2 PA2].
  set (s2 := mut_data D' (c_restored s)) in *.
  pose proof (n_store_ufreed_W s2 W2 eq_refl) as W3.
  pose proof (n_reclaim_W (n_store_ufreed s2) W3 eq_refl) as W4.
  assert (PA4 : pins_asc (n_reclaim (n_store_ufreed s2))) by exact PA2.
  pose proof (mut_sys_W _ Sd _ W4 Hok2) as W5.
  pose proof (mut_sys_pins_asc _ Sd _ W4 PA4 Hok2) as PA5.
  set (s5 := mut_sys Sd (n_reclaim (n_store_ufreed s2))) in *.
  pose proof (n_store_sfreed_W s5 W5) as W6.
  assert (PA6 : pins_asc (n_store_sfreed s5)) by exact PA5.
  assert (Hsub : incl (wsfr (n_store_sfreed s5)) (unpers (n_store_sfreed s5))).
  { intros p Hp. change (In p (inter (wsfr s5) (unpers s5))) in Hp. apply In_inter in Hp.
    change (In p (unpers s5)). tauto. }
  destruct (n_close_W (n_store_sfreed s5) W6 PA6 eq_refl eq_refl Hsub) as (W7 & C7 & Hv7 & Hl7 & Ks & Ku & Kd).
  unfold commit_nd, commit_nd_pre. fold s2. fold s5.
  apply (finish_inv _ _ W7 C7); rewrite ?Hv7; try assumption.
  rewrite Hl7. apply N.le_refl.
Qed.
