(* Allocation records (AllocRec.v): the invariant RInv is preserved by every step outside commit. *)
From Coq Require Import List PArith NArith Bool MSets.MSetPositive Permutation Lia.
From RV Require Import Txn.PSet Txn.PSetP Txn.Own Txn.OwnP Txn.OwnStepP Txn.OwnCommitP Txn.AllocRec.
From RV Require Import Txn.AllocRecBaseP.
Import ListNotations.
Open Scope N_scope.

Lemma cover_w_owned : forall a s p, (cnt p (cover_w a s) <= cnt p (owned_w s))%nat.
Proof.
  intros. unfold cover_w, owned_w. cnt_norm.
  pose proof (cnt_late_le a (wdfreed s) p). pose proof (cnt_late_le a (eff_ufreed s) p). lia.
Qed.

(* records name allocated pages *)
Lemma recs_sub_alloc : forall s r,
  (forall e, In e (recs r) -> Sub (snd e) (cover_w (fst e) s)) -> Bal (alloc s) (owned_w s) ->
  Sub (flat (recs r)) (alloc s).
Proof.
  intros s r K B p Hp. apply cnt_recs_pos in Hp. destruct Hp as (e & He & Hp).
  specialize (K e He p Hp). pose proof (cover_w_owned (fst e) s p). destruct (B p) as [Hb _]. lia.
Qed.

Lemma entry_page : forall r e p, In e (recs r) -> (cnt p (snd e) > 0)%nat -> (cnt p (flat (recs r)) > 0)%nat.
Proof. intros r e p He Hp. apply cnt_recs_pos. exists e. tauto. Qed.

Lemma find_pin_none_notin : forall h l, find_pin h l = None -> ~ In h (map ph l).
Proof.
  intros h l H Hin. apply in_map_iff in Hin. destruct Hin as (x & Hx & Hl).
  unfold find_pin in H. apply (find_none _ _ H) in Hl. simpl in Hl. rewrite Hx, N.eqb_refl in Hl. discriminate.
Qed.

Lemma ok_new_handle_notin : forall h s, ok_new_handle h s = true -> ~ In h (map ph (pins s)).
Proof.
  intros h s H. unfold ok_new_handle in H. destruct (find_pin h (pins s)) eqn:E; [discriminate|].
  apply find_pin_none_notin. exact E.
Qed.

Lemma NoDup_map_filter : forall (A B : Type) (f : A -> B) (g : A -> bool) l, NoDup (map f l) -> NoDup (map f (filter g l)).
Proof.
  intros A B f g. induction l as [|a l IH]; simpl; intros H; [constructor|].
  inversion H as [|? ? Hn Hl]; subst. destruct (g a); simpl; [constructor|]; auto.
  intros Hin. apply Hn. apply in_map_iff in Hin. destruct Hin as (x & Hx & Hf). apply filter_In in Hf.
  apply in_map_iff. exists x. tauto.
Qed.

Lemma In_remove_pins_iff : forall hs l x, In x (remove_pins hs l) <-> In x l /\ ~ In (ph x) hs.
Proof.
  intros. unfold remove_pins. rewrite filter_In, negb_true_iff. split; intros [H1 H2]; split; try assumption.
  - intros Hin. apply memN_spec in Hin. rewrite Hin in H2. discriminate.
  - destruct (memN (ph x) hs) eqn:E; [|reflexivity]. apply memN_spec in E. contradiction.
Qed.

(* ================================================================ data-tree mutation (tracker follows) *)

Section Track.
Variables (D' : list page) (s : st).
Hypothesis Hok : ok_data D' s = true.
Hypothesis B : Bal (alloc s) (owned_w s).

Lemma track_kw : forall (rc : ftab),
  (forall e, In e rc -> Sub (snd e) (cover_w (fst e) s)) -> Dis (flat rc) (wasc s) ->
  forall e, In e rc -> Sub (snd e) (cover_w (fst e) (mut_data D' s)).
Proof.
  intros rc K RA e He p Hp. specialize (K e He p Hp).
  assert (Hr : (cnt p (flat rc) > 0)%nat) by (apply cnt_flat_pos; exists e; tauto).
  specialize (RA p Hr). clear Hr He.
  apply ok_data_facts in Hok. destruct Hok as [HD Hfresh].
  unfold cover_w in *. red_st. clear Hfresh. inst_at p. cnt_norm. split_matches; lia.
Qed.

Lemma track_ra : forall (rc : ftab),
  (forall e, In e rc -> Sub (snd e) (cover_w (fst e) s)) -> Dis (flat rc) (wasc s) ->
  Dis (flat rc) (wasc (mut_data D' s)).
Proof.
  intros rc K RA p Hp. specialize (RA p Hp).
  assert (Ha : (cnt p (alloc s) > 0)%nat).
  { apply cnt_flat_pos in Hp. destruct Hp as (e & He & Hp). specialize (K e He p Hp).
    pose proof (cover_w_owned (fst e) s p). destruct (B p) as [Hb _]. lia. }
  apply ok_data_facts in Hok. destruct Hok as [HD Hfresh]. red_st. inst_at p. cnt_norm. split_matches; lia.
Qed.

(* the tracker after the mutation, when tracking *)
Definition trk' (tk : list page) : list page := minus D' (wdata s) ++ minus tk (inter (minus (wdata s) D') (wasc s)).

Lemma track_t1 : forall tk, Sub tk (wdata s) -> Sub tk (wasc s) ->
  Sub (trk' tk) (wdata (mut_data D' s)) /\ Sub (trk' tk) (wasc (mut_data D' s)).
Proof.
  intros tk T1 T2. apply ok_data_facts in Hok. destruct Hok as [HD Hfresh]. unfold trk'. red_st.
  split; intro p; inst_at p; cnt_norm; split_matches; lia.
Qed.

Lemma track_o5w : forall tk R S t, Sub tk (wdata s) -> Sub tk (wasc s) ->
  Sub (minus (cover_w t s) S) (R ++ tk) ->
  Sub (minus (cover_w t (mut_data D' s)) S) (R ++ trk' tk).
Proof.
  intros tk R S t T1 T2 O. apply ok_data_facts in Hok. destruct Hok as [HD Hfresh].
  unfold trk', cover_w, owned_w in *. red_st. intro p. inst_at p. cnt_norm. tab_facts p. cnt_norm. split_matches; lia.
Qed.

Lemma track_dis : forall tk R S, Dis (R ++ tk) S -> Dis S (wasc s) -> Sub S (alloc s) ->
  Dis (R ++ trk' tk) S.
Proof.
  intros tk R S O PA SA. apply ok_data_facts in Hok. destruct Hok as [HD Hfresh].
  unfold trk'. intro p. inst_at p. cnt_norm. split_matches; lia.
Qed.

Lemma track_pca : Sub (pca s) (alloc s) -> Dis (pca s) (wasc s) ->
  Sub (pca s) (alloc (mut_data D' s)) /\ Dis (pca s) (wasc (mut_data D' s)).
Proof.
  intros P1 P2. apply ok_data_facts in Hok. destruct Hok as [HD Hfresh]. red_st.
  split; intro p; inst_at p; cnt_norm; split_matches; lia.
Qed.
End Track.

(* ================================================================ frames *)

Lemma robsC_frame : forall s s' r r',
  pins s' = pins s -> lat s' = lat s -> dfreed s' = dfreed s -> ufreed s' = ufreed s ->
  unpers s' = unpers s -> pca s' = pca s ->
  dalloc r' = dalloc r -> ualloc r' = ualloc r -> valid r' = valid r ->
  RObsC s r -> RObsC s' r'.
Proof.
  intros s s' r r' E1 E2 E3 E4 E5 E6 E7 E8 E9 [V1 V2 V3 K O5 Bk U].
  constructor; unfold sp_pin, cover_c, recs, RC in *; rewrite ?E1, ?E2, ?E3, ?E4, ?E5, ?E6, ?E7, ?E8, ?E9; assumption.
Qed.

Lemma pin_sub_alloc : forall s x, Inv s -> In x (pins s) -> Sub (ppages x) (alloc s).
Proof.
  intros s x H Hx p Hp. destruct H as [_ B1 P _ _ _ _ _ _ _ _ _ _].
  destruct (P x Hx) as (_ & H2 & _). specialize (H2 p Hp).
  pose proof (cover_w_owned (ptxn x) s p). destruct (B1 p) as [Hb _]. lia.
Qed.

(* the tracker's pages are not part of any pinned version *)
Lemma pin_dis_trk : forall s x tk, Inv s -> In x (pins s) -> Sub tk (wasc s) -> Dis tk (ppages x).
Proof.
  intros s x tk H Hx T p Hp. specialize (T p Hp). pose proof (Inv_pins_asc s H x Hx p) as PA.
  destruct (cnt p (ppages x)) eqn:E; [reflexivity|]. assert (Hq : (S n > 0)%nat) by lia.
  specialize (PA Hq). lia.
Qed.

(* ================================================================ OMutData *)

Lemma robs_mut_data : forall D' s r, Inv s -> RObs s r -> inw s = true -> ok_data D' s = true ->
  RObs (mut_data D' s) (r_mut_data D' s r).
Proof.
  intros D' s r H [HC HW] Hw Hok.
  pose proof (i_bal_w s H) as B.
  assert (Hinw : inw (mut_data D' s) = true) by exact Hw.
  split.
  - apply (robsC_frame s _ r); try reflexivity; try assumption.
    + unfold r_mut_data, r_track, r_set_dirty. destruct (valid r); cbn; [reflexivity|]. destruct (trk_on r); reflexivity.
    + unfold r_mut_data, r_track, r_set_dirty. destruct (valid r); cbn; [reflexivity|]. destruct (trk_on r); reflexivity.
    + unfold r_mut_data, r_track, r_set_dirty. destruct (valid r); cbn; [reflexivity|]. destruct (trk_on r); reflexivity.
  - destruct HW as [KW O5W RA [T1a T1b] T2 [P1 P2] Nn Dd W2].
    destruct r as [da ua tk on di va wi]. unfold r_mut_data, r_track, r_set_dirty. cbn [dalloc ualloc trk trk_on dirty valid winval] in *.
    destruct va as [|e0 va].
    + (* no savepoint: tracking is switched off *)
      cbn [dalloc ualloc trk trk_on dirty valid winval].
      constructor; cbn [dalloc ualloc trk trk_on dirty valid winval].
      * apply (track_kw D' s Hok); assumption.
      * intros e x [].
      * apply (track_ra D' s Hok B); assumption.
      * split; intros p Hp; rewrite cnt_nil in Hp; lia.
      * intros _. repeat split; reflexivity.
      * apply (track_pca D' s Hok); assumption.
      * intros Hf. rewrite Hinw in Hf. discriminate.
      * intros Hf. discriminate.
      * intros r0 e _ [].
    + destruct on.
      2: { destruct (T2 eq_refl) as (Hv & _). discriminate. }
      cbn [dalloc ualloc trk trk_on dirty valid winval set_trk].
      fold (trk' D' s tk).
      constructor; cbn [dalloc ualloc trk trk_on dirty valid winval].
      * apply (track_kw D' s Hok); assumption.
      * intros e x He Hni Hp. apply (track_o5w D' s Hok B); try assumption.
        apply O5W; try assumption.
      * apply (track_ra D' s Hok B); assumption.
      * apply (track_t1 D' s Hok); assumption.
      * intros Hf. discriminate.
      * apply (track_pca D' s Hok); assumption.
      * intros Hf. rewrite Hinw in Hf. discriminate.
      * intros Hf. discriminate.
      * exact W2.
Qed.
