(* C07/C06 -- redb's ALLOCATION RECORDS on top of the page-ownership model Own.v (definitions only).
   Proofs: AllocRecBaseP.v (filters, savepoint horizon, checker soundness), AllocRecStepP.v / Step2P / Step3P
   (steps outside restore and commit), AllocRecRestoreP.v (restore: exactness + preservation), AllocRecCommitP.v /
   Commit2P / Commit3P / Commit4P (the two commit pipelines, stage by stage), AllocRecP.v (rec_inv,
   restore_frees_exactly, tracking_disabled_safe), AllocRecDrainP.v (bounded_storage / savepoint_no_leak).
   Statements: coq/Props/C07.v and coq/Props/C06.v.

   Own.v specifies `restore` by WHAT must be queued for freeing.  This file models the mechanism the
   code uses to find that set, as a record state `arec` carried next to an `Own.st`:

     dalloc   DATA_ALLOCATED_TABLE as of the last commit: transaction id |-> data pages the
              transaction allocated that were still allocated at its commit (pagination merged)
     ualloc   UnpersistedState::allocations, the in-memory stand-in of non-durable commits
              (`allocation_txn`, its inverse index, is what `claim` uses to find the entry of a page;
              here `claim` removes the page from every entry -- that the index is the inverse of the
              map is checked directly on every observed state by the harness)
     trk      the PageTracker of the live write transaction (TableNamespace::allocated_pages)
     trk_on   its `tracking` flag (false = PageTrackerPolicy::Ignore)
     dirty    WriteTransaction::dirty
     valid    TransactionTracker::valid_savepoints: savepoint id |-> transaction id.  Savepoint ids are
              the pin handles of Own.v (the harness uses handle = 1_000_000 + savepoint id)
     winval   SavepointTransactionState::invalidated

   `step2` is a product step over the SAME op language as Own.v; its first component is exactly
   `Own.step`.  Each r_* function mirrors the record handling of one function of src/transactions.rs /
   page_manager.rs / base.rs (named in the comments).  The b-tree page churn is still an oracle.
   An `OMutData` op stands for a table operation: it opens a table (TableNamespace::set_dirty) and
   then changes the data tree.

   What stays abstracted: PageList pagination (chunks of 400) and entry order; the working copy of
   DATA_ALLOCATED_TABLE inside a write transaction (it is only written by flush_data_allocated_pages
   during the commit; the harness checks working = committed on every observed state); concurrency
   (the clamp of the epilogue horizon to the savepoint horizon is a no-op without it). *)
From Coq Require Import List PArith NArith Bool.
From RV Require Import Txn.PSet Txn.Own.
Import ListNotations.
Open Scope N_scope.

Record arec := mkrec {
  dalloc : ftab;
  ualloc : ftab;
  trk : list page;
  trk_on : bool;
  dirty : bool;
  valid : list (N * N);
  winval : list N
}.

Definition rinit : arec := mkrec [] [] [] true false [] [].

Definition set_ualloc (u : ftab) (r : arec) : arec :=
  mkrec (dalloc r) u (trk r) (trk_on r) (dirty r) (valid r) (winval r).
Definition set_trk (t : list page) (r : arec) : arec :=
  mkrec (dalloc r) (ualloc r) t (trk_on r) (dirty r) (valid r) (winval r).
Definition set_valid (v : list (N * N)) (r : arec) : arec :=
  mkrec (dalloc r) (ualloc r) (trk r) (trk_on r) (dirty r) v (winval r).

(* ---------------------------------------------------------------- views *)

Definition recs (r : arec) : ftab := dalloc r ++ ualloc r.
(* what the records say was allocated by transactions after t *)
Definition RC (t : N) (r : arec) : list page := flat (late t (dalloc r)) ++ flat (late t (ualloc r)).

Definition valid_minus (hs : list N) (v : list (N * N)) : list (N * N) :=
  filter (fun e => negb (memN (fst e) hs)) v.

(* TransactionTracker::oldest_savepoint_excluding: valid_savepoints is a BTreeMap keyed by savepoint
   id; the FIRST entry (smallest id) that is not excluded; returns its transaction id *)
Definition min_by_id (e : N * N) (l : list (N * N)) : N * N :=
  fold_left (fun m x => if N.ltb (fst x) (fst m) then x else m) l e.
Definition oldest_excl (ex : list N) (v : list (N * N)) : option N :=
  match valid_minus ex v with [] => None | e :: t => Some (snd (min_by_id e t)) end.

(* TransactionTracker::list_savepoints_after *)
Definition later_valid (h : N) (v : list (N * N)) : list N :=
  map fst (filter (fun e => N.ltb h (fst e)) v).

(* ---------------------------------------------------------------- steps *)

(* the transaction-local part as TableNamespace::new / WriteTransaction::new create it *)
Definition r_reset (r : arec) : arec := mkrec (dalloc r) (ualloc r) [] true false (valid r) [].

Definition r_begin_write (s : st) (r : arec) : arec := if inw s then r else r_reset r.

(* TableNamespace::set_dirty: with no savepoint in the tracker, allocation tracking is switched off *)
Definition r_set_dirty (r : arec) : arec :=
  match valid r with
  | [] => mkrec (dalloc r) (ualloc r) [] false true (valid r) (winval r)
  | _ :: _ => mkrec (dalloc r) (ualloc r) (trk r) (trk_on r) true (valid r) (winval r)
  end.

(* PageTracker::insert on allocation / ::remove when an uncommitted page is freed at once *)
Definition r_track (D' : list page) (s : st) (r : arec) : arec :=
  if trk_on r then
    set_trk (minus D' (wdata s) ++ minus (trk r) (inter (minus (wdata s) D') (wasc s))) r
  else r.

Definition r_mut_data (D' : list page) (s : st) (r : arec) : arec := r_track D' s (r_set_dirty r).

(* allocate_savepoint / register_persistent_savepoint *)
Definition r_sp_create (h : N) (s : st) (r : arec) : arec := set_valid (valid r ++ [(h, vid (lat s))]) r.

(* Savepoint::drop of an ephemeral savepoint -> deallocate_savepoint (a reader's handle is not in valid) *)
Definition r_drop_pin (h : N) (r : arec) : arec := set_valid (valid_minus [h] (valid r)) r.

(* restore_savepoint(_inner): PageTracker::reset (its pages are freed at once), dirty, later savepoints
   invalidated for this transaction *)
Definition r_restore (h : N) (s : st) (r : arec) : arec :=
  match find_pin h (pins s) with
  | None => r
  | Some _ => mkrec (dalloc r) (ualloc r) [] (trk_on r) true (valid r) (winval r ++ later_valid h (valid r))
  end.

(* abort: apply_on_abort deallocates the persistent savepoints created in the transaction *)
Definition r_abort (s : st) (r : arec) : arec := r_reset (set_valid (valid_minus (wcreated s) (valid r)) r).

(* flush_data_allocated_pages(allocated_pages.close()): take_unpersisted_allocations, write them and this
   transaction's entry, purge every entry below the oldest savepoint that is not pending deletion *)
Definition r_flush (s : st) (r : arec) : arec :=
  let tab := add_entry (lastid s) (trk r) (dalloc r ++ ualloc r) in
  let tab' := match oldest_excl (wdeleted s) (valid r) with Some o => keys_ge o tab | None => [] end in
  mkrec tab' [] [] (trk_on r) (dirty r) (valid r) (winval r).

(* SavepointTransactionState::apply_on_commit *)
Definition r_apply_sp (s : st) (r : arec) : arec :=
  set_valid (valid_minus (winval r ++ wdeleted s) (valid r)) r.

(* commit with Durability::Immediate (the record handling of commit_inner_helper + durable_commit):
   flush_and_close (tracker follows the tree), adopt_unpersisted (claim), [store / process freed pages],
   flush_data_allocated_pages, [TransactionalMemory::commit clears the unpersisted state],
   apply_on_commit; the epilogue does not touch the records *)
Definition r_dur_pre (D' : list page) (s : st) (r : arec) : arec :=
  let s1 := c_restored s in
  let r2 := r_track D' s1 r in
  let r3 := set_ualloc (tab_minus (ualloc r2) (pca s)) r2 in
  r_flush s r3.
Definition r_commit_dur (D' : list page) (s : st) (r : arec) : arec :=
  r_reset (r_apply_sp s (r_dur_pre D' s r)).

(* the pages process_freed_pages_nondurable reclaims (the set R of Own.n_reclaim) *)
Definition reclaim_set (s : st) : list page :=
  let fu := nd_horizon (lastid s) s in
  inter (flat (keys_lt fu (ufreed s)) ++ flat (keys_lt fu (sfreed s))) (unpers s).

(* commit with Durability::None: flush_and_close, free_if_unpersisted (claim) of the reclaimed pages,
   record_unpersisted_allocations(allocated_pages.close()), post_commit_frees (claim), apply_on_commit *)
Definition r_nd_pre (D' Sd : list page) (s : st) (r : arec) : arec :=
  let s1 := c_restored s in
  let r2 := r_track D' s1 r in
  let s3 := n_store_ufreed (mut_data D' s1) in
  let r4 := set_ualloc (tab_minus (ualloc r2) (reclaim_set s3)) r2 in
  let s6 := n_store_sfreed (mut_sys Sd (n_reclaim s3)) in
  let r7 := set_trk [] (set_ualloc (add_entry (lastid s) (trk r4) (ualloc r4)) r4) in
  set_ualloc (tab_minus (ualloc r7) (wsfr s6)) r7.
Definition r_commit_nd (D' Sd : list page) (s : st) (r : arec) : arec :=
  r_reset (r_apply_sp s (r_nd_pre D' Sd s r)).

(* a new process: only the persistent savepoints are registered again; the unpersisted state is new *)
Definition r_reopen (s : st) (r : arec) : arec :=
  mkrec (dalloc r) [] [] true false
    (filter (fun e => match find_pin (fst e) (pins s) with Some x => ppersist x | None => false end) (valid r)) [].

Definition step2 (x : st * arec) (o : op) : st * arec :=
  (step (fst x) o,
   match o with
   | OBeginWrite => r_begin_write (fst x) (snd x)
   | OMutData D' => r_mut_data D' (fst x) (snd x)
   | OMutSys _ => snd x
   | OBeginRead _ => snd x
   | ODropPin h => r_drop_pin h (snd x)
   | OSpCreate h _ => r_sp_create h (fst x) (snd x)
   | OSpDelete _ => snd x
   | ORestore h => r_restore h (fst x) (snd x)
   | OAbort => r_abort (fst x) (snd x)
   | OCommitDur D' _ _ _ _ => r_commit_dur D' (fst x) (snd x)
   | OCommitNd D' Sd => r_commit_nd D' Sd (fst x) (snd x)
   | OReopen => r_reopen (fst x) (snd x)
   end).

(* side conditions of the caller, in addition to Own.oracle_ok (checked on every run):
   a savepoint is created only in a clean transaction (the code rejects it otherwise) and savepoint ids
   grow; a savepoint is restored only while it is valid and not invalidated by this transaction *)
Definition oracle_ok2 (x : st * arec) (o : op) : bool :=
  oracle_ok (fst x) o &&
  match o with
  | OSpCreate h _ => negb (dirty (snd x)) && forallb (fun e => N.ltb (fst e) h) (valid (snd x))
  | ORestore h => memN h (map fst (valid (snd x))) && negb (memN h (winval (snd x)))
  | _ => true
  end.

Definition run2 (h : list op) (x : st * arec) : st * arec := fold_left step2 h x.

Fixpoint admissible2 (x : st * arec) (h : list op) : Prop :=
  match h with
  | [] => True
  | o :: t => oracle_ok2 x o = true /\ admissible2 (step2 x o) t
  end.

(* ---------------------------------------------------------------- the record-based restore *)

(* restore_savepoint_inner as the CODE computes it: the tracker's pages are freed at once, the queue of
   freed data pages becomes DATA_ALLOCATED[> t] ++ unpersisted_allocations_after(t); `lt` is the range
   test (the code: key > t) *)
Definition restore_rec_gen (lt : N -> N -> bool) (h : N) (s : st) (r : arec) : st :=
  match find_pin h (pins s) with
  | None => s
  | Some sp =>
    let t := ptxn sp in
    let Q := flat (filter (fun e => lt t (fst e)) (dalloc r)) ++ flat (filter (fun e => lt t (fst e)) (ualloc r)) in
    mkst (minus (alloc s) (trk r)) (lastid s) (dur s) (lat s) (dfreed s) (sfreed s) (ufreed s) (unpers s) (pca s)
         (pins s) (pend s) (inw s) (ppages sp) (wsys s) (minus (wasc s) (trk r)) Q (wsfr s)
         (early t (wdfreed s)) (Some t) (wcreated s) (wdeleted s)
  end.
Definition restore_rec := restore_rec_gen N.ltb.
(* the off-by-one variant: range(t..) / key >= t *)
Definition restore_rec_ge := restore_rec_gen N.leb.

(* equality of ownership states up to the order / multiplicity inside the three page lists a restore changes *)
Definition st_eqv (a b : st) : Prop :=
  seteq (alloc a) (alloc b) /\ seteq (wasc a) (wasc b) /\ seteq (wdfr a) (wdfr b) /\
  lastid a = lastid b /\ dur a = dur b /\ lat a = lat b /\ dfreed a = dfreed b /\ sfreed a = sfreed b /\
  ufreed a = ufreed b /\ unpers a = unpers b /\ pca a = pca b /\ pins a = pins b /\ pend a = pend b /\
  inw a = inw b /\ wdata a = wdata b /\ wsys a = wsys b /\ wsfr a = wsfr b /\ wdfreed a = wdfreed b /\
  wrest a = wrest b /\ wcreated a = wcreated b /\ wdeleted a = wdeleted b.

(* ---------------------------------------------------------------- invariant *)

Definition sp_pin (s : st) (e : N * N) (x : pin) : Prop := In x (pins s) /\ ph x = fst e /\ ptxn x = snd e.

(* the part of the invariant that can be evaluated on an observed state, in two groups:
   RObsC speaks about the committed view only (pins, latest version, DATA_FREED / unpersisted freed records,
   unpersisted pages, the two record tables, valid savepoints); RObsW about the live write transaction *)
Record RObsC (s : st) (r : arec) : Prop := mkRObsC {
  (* a valid savepoint holds a pin at its transaction; handles are unique; ids and transactions grow together *)
  ro_v1 : forall e, In e (valid r) -> exists x, sp_pin s e x;
  ro_v2 : NoDup (map ph (pins s));
  ro_v3 : forall e1 e2, In e1 (valid r) -> In e2 (valid r) -> fst e1 <= fst e2 -> snd e1 <= snd e2;
  (* a page recorded under key a is in the data tree or pending free under a later key *)
  ro_k : forall e, In e (recs r) -> Sub (snd e) (cover_c (fst e) s);
  (* O5: for a valid savepoint at t the records after t name every page of the data lineage that is not
     part of the savepoint's version, and none that is *)
  ro_o5c : forall e x, In e (valid r) -> sp_pin s e x ->
           Sub (minus (cover_c (snd e) s) (ppages x)) (RC (snd e) r) /\ Dis (RC (snd e) r) (ppages x);
  ro_b : keys_le (vid (lat s)) (dalloc r) /\ keys_le (vid (lat s)) (ualloc r);
  ro_u : Sub (flat (ualloc r)) (unpers s) /\ Dis (flat (dalloc r)) (unpers s) /\ Dis (flat (ualloc r)) (pca s)
}.

Record RObsW (s : st) (r : arec) : Prop := mkRObsW {
  (* the same two facts in the working view of the write transaction *)
  ro_kw : forall e, In e (recs r) -> Sub (snd e) (cover_w (fst e) s);
  ro_o5w : forall e x, In e (valid r) -> ~ In (fst e) (winval r) -> sp_pin s e x ->
           Sub (minus (cover_w (snd e) s) (ppages x)) (RC (snd e) r ++ trk r);
  (* records name committed pages; the tracker names uncommitted pages of the data tree *)
  ro_ra : Dis (flat (recs r)) (wasc s);
  ro_t1 : Sub (trk r) (wdata s) /\ Sub (trk r) (wasc s);
  (* tracking is off only when no savepoint exists (and then the transaction is dirty) *)
  ro_t2 : trk_on r = false -> valid r = [] /\ trk r = [] /\ dirty r = true;
  ro_p : Sub (pca s) (alloc s) /\ Dis (pca s) (wasc s);
  ro_n : inw s = false -> trk r = [] /\ winval r = [] /\ trk_on r = true /\ dirty r = false;
  ro_d : dirty r = false -> Sub (wdata s ++ wdfr s) (vdata (lat s)) /\ wrest s = None /\ winval r = [] /\ trk_on r = true;
  ro_w2 : forall r0 e, wrest s = Some r0 -> In e (valid r) -> ~ In (fst e) (winval r) -> snd e <= r0
}.

Definition RObs (s : st) (r : arec) : Prop := RObsC s r /\ RObsW s r.

(* ... plus a fact about the model's representation: the working DATA_FREED table is the committed one
   cut at the restored transaction *)
Definition effd (s : st) : ftab := match wrest s with Some r0 => early r0 (dfreed s) | None => dfreed s end.
Definition RInv (x : st * arec) : Prop :=
  RObs (fst x) (snd x) /\ (inw (fst x) = true -> wdfreed (fst x) = effd (fst x)).

(* the invariant of the product machine *)
Definition Inv2 (x : st * arec) : Prop := Inv (fst x) /\ RInv x.

(* ---------------------------------------------------------------- the no-leak schedule *)

(* a state with no write transaction, no reader, no savepoint *)
Definition quiet (s : st) : Prop := Inv s /\ inw s = false /\ pins s = [].

(* one durable commit without data change: begin_write; commit(Immediate, quick_repair off, post-commit free on);
   Sd / So = system-tree pages of the committed root / after the epilogue (oracle) *)
Definition qcommit (Sd So : list page) (s : st) : st :=
  commit_dur (vdata (lat s)) Sd So false true (begin_write s).
Definition qok (Sd So : list page) (s : st) : Prop :=
  ok_commit_dur (vdata (lat s)) Sd So false true (begin_write s) = true.

Definition no_leak_schedule (D Sd1 So1 Sd2 So2 Sd3 So3 : list page) : list op :=
  [OBeginWrite; OCommitDur D Sd1 So1 false true; OBeginWrite; OCommitDur D Sd2 So2 false true;
   OBeginWrite; OCommitDur D Sd3 So3 false true].

(* ---------------------------------------------------------------- the checker *)

Definition sp_pinb (e : N * N) (x : pin) : bool := N.eqb (ph x) (fst e) && N.eqb (ptxn x) (snd e).

Fixpoint nodupN (l : list N) : bool :=
  match l with [] => true | a :: t => negb (memN a t) && nodupN t end.

Definition rec_okb (cover : N -> list page) (e : N * list page) : bool := inclb (snd e) (cover (fst e)).

Definition o5cb (s : st) (r : arec) (e : N * N) : bool :=
  forallb (fun x => negb (sp_pinb e x) ||
                    (inclb (minus (cover_c (snd e) s) (ppages x)) (RC (snd e) r) && disjb (RC (snd e) r) (ppages x)))
          (pins s).
Definition o5wb (s : st) (r : arec) (e : N * N) : bool :=
  memN (fst e) (winval r) ||
  forallb (fun x => negb (sp_pinb e x) || inclb (minus (cover_w (snd e) s) (ppages x)) (RC (snd e) r ++ trk r))
          (pins s).

Definition rinv_checkb (x : st * arec) : bool :=
  let s := fst x in let r := snd x in
  forallb (fun e => existsb (sp_pinb e) (pins s)) (valid r) &&
  nodupN (map ph (pins s)) &&
  forallb (fun e1 => forallb (fun e2 => negb (N.leb (fst e1) (fst e2)) || N.leb (snd e1) (snd e2)) (valid r)) (valid r) &&
  forallb (rec_okb (fun a => cover_c a s)) (recs r) &&
  forallb (rec_okb (fun a => cover_w a s)) (recs r) &&
  forallb (o5cb s r) (valid r) &&
  forallb (o5wb s r) (valid r) &&
  disjb (flat (recs r)) (wasc s) &&
  inclb (trk r) (wdata s) && inclb (trk r) (wasc s) &&
  (trk_on r || (match valid r with [] => true | _ => false end && nilb (trk r) && dirty r)) &&
  keys_leb (vid (lat s)) (dalloc r) && keys_leb (vid (lat s)) (ualloc r) &&
  inclb (flat (ualloc r)) (unpers s) && disjb (flat (dalloc r)) (unpers s) && disjb (flat (ualloc r)) (pca s) &&
  inclb (pca s) (alloc s) && disjb (pca s) (wasc s) &&
  (inw s || (nilb (trk r) && match winval r with [] => true | _ => false end && trk_on r && negb (dirty r))) &&
  (dirty r || (inclb (wdata s ++ wdfr s) (vdata (lat s)) &&
               match wrest s with None => true | Some _ => false end &&
               match winval r with [] => true | _ => false end && trk_on r)) &&
  match wrest s with
  | None => true
  | Some r0 => forallb (fun e => memN (fst e) (winval r) || N.leb (snd e) r0) (valid r)
  end.
