(* C05 -- a write transaction that ends with the storage LATCHED by an I/O error, inside a session of
   Reopen/Snapshot.v (C11's model of the durable image a process leaves behind and of the open paths).
   Definitions only; proofs in LatchedP.v.

   After the first I/O error CheckedBackend refuses every further call (C08), so from the failure on nothing
   reaches the file: the failed call's remaining writes, the rollback (abort_inner_impl stops at
   check_io_errors), commit() (CIoError), Drop and Database::drop (the close writes nothing and records no
   clean shutdown) all leave the durable image `img x` of the session as the last durable commit wrote it.
   At the granularity of Snapshot.v that is `xstep` itself: only a durable commit replaces `img`.  What the
   file holds BELOW this granularity while an unsynced write-back is cut short is C01's subject (pages of the
   durable version are never overwritten); it is validated for C05 by the fault sweep of the harness (mode B:
   reopen after the k-th backend call failed). *)
From Coq Require Import List PArith NArith Bool.
From RV Require Import Txn.PSet Txn.Own Txn.Abandon Txn.Poison Reopen.Snapshot.
Import ListNotations.

(* how the transaction is ended *)
Inductive tend := TCommit (cm : op) | TAbort | TDrop.

Definition end_p (e : tend) (p : ptx) : ptx :=
  match e with
  | TCommit cm => fst (commit_p cm p)
  | TAbort => fst (abort_p p)
  | TDrop => drop_p p
  end.

(* the session after the calls `cs` of a write transaction and its end: the ownership part is the
   transaction's, needs_repair is latched when the storage is (the rollback did not run), the image is the
   session's *)
Definition session_after (x : xst) (cs : list call) (e : tend) : xst :=
  let p := end_p e (run_calls cs (start (Snapshot.own x))) in
  mkx (Poison.own p) (leaked x) (nrep x || iolatch p) (img x).

(* the process ends (the handle is dropped or the process dies) and the file is opened again *)
Definition reopen_after (x : xst) (cs : list call) (e : tend) : xst := xstep (session_after x cs e) XCrash.
