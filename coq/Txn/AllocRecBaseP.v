(* Allocation records (AllocRec.v): basic facts about the key filters, the covers, the savepoint horizon,
   and soundness of the boolean checker. *)
From Coq Require Import List PArith NArith Bool MSets.MSetPositive Permutation Lia.
From RV Require Import Txn.PSet Txn.PSetP Txn.Own Txn.OwnP Txn.OwnStepP Txn.OwnCommitP Txn.AllocRec.
Import ListNotations.
Open Scope N_scope.

Ltac red_rec :=
  unfold recs, RC, set_ualloc, set_trk, set_valid, r_reset, r_begin_write, r_sp_create, r_drop_pin,
    r_abort, r_apply_sp, r_reopen in *;
  cbn [dalloc ualloc trk trk_on dirty valid winval fst snd] in *.

(* ---------------------------------------------------------------- key filters *)

Lemma In_late : forall a t e, In e (late a t) <-> In e t /\ a < fst e.
Proof. intros. unfold late. rewrite filter_In. rewrite N.ltb_lt. tauto. Qed.

Lemma In_early : forall a t e, In e (early a t) <-> In e t /\ fst e <= a.
Proof. intros. unfold early. rewrite filter_In. rewrite negb_true_iff, N.ltb_ge. tauto. Qed.

Lemma In_keys_ge : forall a (t : ftab) e, In e (keys_ge a t) <-> In e t /\ a <= fst e.
Proof. intros. unfold keys_ge. rewrite filter_In. rewrite negb_true_iff, N.ltb_ge. tauto. Qed.

Lemma In_keys_lt : forall a (t : ftab) e, In e (keys_lt a t) <-> In e t /\ fst e < a.
Proof. intros. unfold keys_lt. rewrite filter_In. rewrite N.ltb_lt. tauto. Qed.

Lemma cnt_flat_pos : forall p t, (cnt p (flat t) > 0)%nat <-> exists e, In e t /\ (cnt p (snd e) > 0)%nat.
Proof.
  intros p t. rewrite <- In_cnt, In_flat. split; intros (e & He & Hp); exists e; split; try assumption;
    apply In_cnt; assumption.
Qed.

Lemma cnt_late_mono : forall a b p t, a <= b -> (cnt p (flat (late b t)) <= cnt p (flat (late a t)))%nat.
Proof.
  intros a b p t Hab. unfold late. induction t as [|[k ps] t IH]; simpl; [lia|].
  destruct (b <? k) eqn:E1; destruct (a <? k) eqn:E2; simpl; rewrite ?flat_cons, ?cnt_app; try lia.
  apply N.ltb_lt in E1. apply N.ltb_ge in E2. lia.
Qed.

(* for a <= t: entries after a = entries after a that survive a cut at t + entries after t *)
Lemma cnt_late_early : forall a t p (x : ftab), a <= t ->
  cnt p (flat (late a x)) = (cnt p (flat (late a (early t x))) + cnt p (flat (late t x)))%nat.
Proof.
  intros a t p x Hat. unfold late, early. induction x as [|[k ps] x IH]; simpl; [reflexivity|].
  destruct (a <? k) eqn:E1; destruct (t <? k) eqn:E2; simpl; rewrite ?E1; rewrite ?flat_cons, ?cnt_app; try lia.
  apply N.ltb_lt in E2. apply N.ltb_ge in E1. lia.
Qed.

Lemma late_early_nil : forall t (x : ftab), late t (early t x) = [].
Proof.
  intros t x. unfold late, early. induction x as [|[k ps] x IH]; simpl; [reflexivity|].
  destruct (t <? k) eqn:E; simpl; rewrite ?E; exact IH.
Qed.

Lemma cover_c_mono : forall a b s p, a <= b -> (cnt p (cover_c b s) <= cnt p (cover_c a s))%nat.
Proof.
  intros a b s p H. unfold cover_c. rewrite !cnt_app.
  pose proof (cnt_late_mono a b p (dfreed s) H). pose proof (cnt_late_mono a b p (ufreed s) H). lia.
Qed.

Lemma cover_w_mono : forall a b s p, a <= b -> (cnt p (cover_w b s) <= cnt p (cover_w a s))%nat.
Proof.
  intros a b s p H. unfold cover_w. rewrite !cnt_app.
  pose proof (cnt_late_mono a b p (wdfreed s) H). pose proof (cnt_late_mono a b p (eff_ufreed s) H). lia.
Qed.

Lemma late_keys_ge_le : forall o t (x : ftab), o <= t + 1 -> late t (keys_ge o x) = late t x.
Proof. intros. apply late_keys_ge. assumption. Qed.

Lemma flat_nil_filter : forall (f : N * list positive -> bool) t, flat t = [] -> flat (filter f t) = [].
Proof.
  intros f t H. destruct (flat (filter f t)) as [|p l] eqn:E; [reflexivity|].
  assert (Hin : In p (flat (filter f t))) by (rewrite E; left; reflexivity).
  apply incl_flat_filter in Hin. rewrite H in Hin. destruct Hin.
Qed.

(* ---------------------------------------------------------------- records *)

Lemma cnt_RC_pos : forall t r p, (cnt p (RC t r) > 0)%nat <->
  exists e, In e (recs r) /\ t < fst e /\ (cnt p (snd e) > 0)%nat.
Proof.
  intros t r p. unfold RC, recs. rewrite cnt_app. split.
  - intros H. assert (Hc : (cnt p (flat (late t (dalloc r))) > 0 \/ cnt p (flat (late t (ualloc r))) > 0)%nat) by lia.
    destruct Hc as [Hc|Hc]; apply cnt_flat_pos in Hc; destruct Hc as (e & He & Hp); apply In_late in He;
      exists e; rewrite in_app_iff; tauto.
  - intros (e & He & Hk & Hp). apply in_app_iff in He. destruct He as [He|He].
    + assert (Hc : (cnt p (flat (late t (dalloc r))) > 0)%nat).
      { apply cnt_flat_pos. exists e. split; [apply In_late; tauto | exact Hp]. } lia.
    + assert (Hc : (cnt p (flat (late t (ualloc r))) > 0)%nat).
      { apply cnt_flat_pos. exists e. split; [apply In_late; tauto | exact Hp]. } lia.
Qed.

Lemma cnt_recs_pos : forall r p, (cnt p (flat (recs r)) > 0)%nat <->
  exists e, In e (recs r) /\ (cnt p (snd e) > 0)%nat.
Proof. intros. apply cnt_flat_pos. Qed.

Lemma RC_sub_recs : forall t r p, (cnt p (RC t r) <= cnt p (flat (recs r)))%nat.
Proof.
  intros. unfold RC, recs. rewrite flat_app, !cnt_app.
  pose proof (cnt_late_le t (dalloc r) p). pose proof (cnt_late_le t (ualloc r) p). lia.
Qed.

(* K (every entry within the cover of its key) gives: everything recorded after t is in the cover of t *)
Lemma RC_sub_cover_c : forall t s r,
  (forall e, In e (recs r) -> Sub (snd e) (cover_c (fst e) s)) -> Sub (RC t r) (cover_c t s).
Proof.
  intros t s r K p Hp. apply cnt_RC_pos in Hp. destruct Hp as (e & He & Hk & Hp).
  specialize (K e He p Hp). pose proof (cover_c_mono t (fst e) s p). lia.
Qed.

Lemma RC_sub_cover_w : forall t s r,
  (forall e, In e (recs r) -> Sub (snd e) (cover_w (fst e) s)) -> Sub (RC t r) (cover_w t s).
Proof.
  intros t s r K p Hp. apply cnt_RC_pos in Hp. destruct Hp as (e & He & Hk & Hp).
  specialize (K e He p Hp). pose proof (cover_w_mono t (fst e) s p). lia.
Qed.

(* ---------------------------------------------------------------- valid savepoints *)

Lemma In_valid_minus : forall hs v e, In e (valid_minus hs v) <-> In e v /\ ~ In (fst e) hs.
Proof.
  intros. unfold valid_minus. rewrite filter_In, negb_true_iff. split; intros [H1 H2]; split; try assumption.
  - intros Hin. apply memN_spec in Hin. congruence.
  - destruct (memN (fst e) hs) eqn:E; [|reflexivity]. apply memN_spec in E. contradiction.
Qed.

Lemma min_by_id_spec : forall l e, In (min_by_id e l) (e :: l) /\ forall x, In x (e :: l) -> fst (min_by_id e l) <= fst x.
Proof.
  unfold min_by_id. induction l as [|a l IH]; intros e; simpl.
  - split; [left; reflexivity|]. intros x [<-|[]]. apply N.le_refl.
  - destruct (fst a <? fst e) eqn:E.
    + destruct (IH a) as [H1 H2]. split.
      * destruct H1 as [H1|H1]; [right; left; exact H1 | right; right; exact H1].
      * intros x [<-|[<-|Hx]].
        -- apply N.ltb_lt in E. specialize (H2 a (or_introl eq_refl)). lia.
        -- apply H2. left. reflexivity.
        -- apply H2. right. exact Hx.
    + destruct (IH e) as [H1 H2]. split.
      * destruct H1 as [H1|H1]; [left; exact H1 | right; right; exact H1].
      * intros x [<-|[<-|Hx]].
        -- apply H2. left. reflexivity.
        -- apply N.ltb_ge in E. specialize (H2 e (or_introl eq_refl)). lia.
        -- apply H2. right. exact Hx.
Qed.

(* the savepoint horizon is the transaction of a remaining valid savepoint and, ids and transactions growing
   together, no remaining savepoint is older *)
Lemma oldest_excl_some : forall ex v o,
  (forall e1 e2, In e1 v -> In e2 v -> fst e1 <= fst e2 -> snd e1 <= snd e2) ->
  oldest_excl ex v = Some o ->
  (exists e, In e v /\ ~ In (fst e) ex /\ snd e = o) /\
  (forall e, In e v -> ~ In (fst e) ex -> o <= snd e).
Proof.
  intros ex v o Hm H. unfold oldest_excl in H. destruct (valid_minus ex v) as [|e0 l] eqn:E; [discriminate|].
  inversion H; subst. clear H. destruct (min_by_id_spec l e0) as [H1 H2]. rewrite <- E in H1, H2.
  apply In_valid_minus in H1. split.
  - exists (min_by_id e0 l). tauto.
  - intros e He Hex. apply Hm; [tauto | exact He|]. apply H2. apply In_valid_minus. tauto.
Qed.

Lemma oldest_excl_none : forall ex v, oldest_excl ex v = None -> forall e, In e v -> In (fst e) ex.
Proof.
  intros ex v H e He. unfold oldest_excl in H. destruct (valid_minus ex v) as [|e0 l] eqn:E; [|discriminate].
  destruct (in_dec N.eq_dec (fst e) ex) as [Hi|Hi]; [exact Hi|].
  assert (Hin : In e (valid_minus ex v)) by (apply In_valid_minus; tauto). rewrite E in Hin. destruct Hin.
Qed.

Lemma In_later_valid : forall h v k, In k (later_valid h v) <-> exists e, In e v /\ fst e = k /\ h < fst e.
Proof.
  intros. unfold later_valid. rewrite in_map_iff. split.
  - intros (e & Hk & He). apply filter_In in He. destruct He as [He Hl]. apply N.ltb_lt in Hl. exists e. tauto.
  - intros (e & He & Hk & Hl). exists e. split; [exact Hk|]. apply filter_In. split; [exact He | apply N.ltb_lt; exact Hl].
Qed.

(* with unique handles, the pin of a savepoint is the one find_pin returns *)
Lemma find_pin_unique : forall h l x, NoDup (map ph l) -> In x l -> ph x = h -> find_pin h l = Some x.
Proof.
  intros h l x. unfold find_pin. induction l as [|a l IH]; intros Hn Hx Hh; [destruct Hx|].
  simpl in *. inversion Hn as [|? ? Hna Hnl]; subst. destruct Hx as [->|Hx].
  - rewrite N.eqb_refl. reflexivity.
  - destruct (N.eqb (ph a) (ph x)) eqn:E.
    + apply N.eqb_eq in E. exfalso. apply Hna. rewrite E. apply in_map. exact Hx.
    + apply IH; auto.
Qed.

Lemma find_pin_ph : forall h l x, find_pin h l = Some x -> ph x = h.
Proof. intros h l x H. unfold find_pin in H. apply find_some in H. destruct H as [_ H]. apply N.eqb_eq in H. exact H. Qed.

Lemma sp_pin_unique : forall s e x y, NoDup (map ph (pins s)) -> sp_pin s e x -> sp_pin s e y -> x = y.
Proof.
  intros s e x y Hn (Hx & Hxh & _) (Hy & Hyh & _).
  pose proof (find_pin_unique (fst e) _ x Hn Hx Hxh) as E1.
  pose proof (find_pin_unique (fst e) _ y Hn Hy Hyh) as E2. congruence.
Qed.

(* ---------------------------------------------------------------- the checker is sound *)

Lemma nodupN_sound : forall l, nodupN l = true -> NoDup l.
Proof.
  induction l as [|a l IH]; simpl; intros H; [constructor|].
  apply andb_true_iff in H. destruct H as [H1 H2]. constructor; [|apply IH; exact H2].
  intros Hin. apply memN_spec in Hin. rewrite Hin in H1. discriminate.
Qed.

Lemma sp_pinb_spec : forall s e x, In x (pins s) -> (sp_pinb e x = true <-> sp_pin s e x).
Proof.
  intros s e x Hx. unfold sp_pinb, sp_pin. rewrite andb_true_iff, !N.eqb_eq. tauto.
Qed.

Lemma list_nil_match : forall (A : Type) (l : list A), match l with [] => true | _ :: _ => false end = true -> l = [].
Proof. intros A [|a l] H; [reflexivity | discriminate]. Qed.

Ltac spl H N := apply andb_true_iff in H; destruct H as [H N].

Theorem rinv_check_sound : forall x, rinv_checkb x = true -> RObs (fst x) (snd x).
Proof.
  intros [s r] H. unfold rinv_checkb in H. cbn [fst snd] in *.
  spl H W2; spl H Dd; spl H Nn; spl H P2; spl H P1; spl H U3; spl H U2; spl H U1; spl H B2; spl H B1;
  spl H T2; spl H T1b; spl H T1a; spl H Ra; spl H O5w; spl H O5c; spl H Kw; spl H Kc; spl H V3; spl H V2.
  split; constructor.
  - intros e He. rewrite forallb_forall in H. specialize (H e He). apply existsb_exists in H.
    destruct H as (x & Hx & Hb). exists x. apply sp_pinb_spec; assumption.
  - apply nodupN_sound. assumption.
  - intros e1 e2 H1 H2 Hle. rewrite forallb_forall in V3. specialize (V3 e1 H1). rewrite forallb_forall in V3.
    specialize (V3 e2 H2). apply orb_true_iff in V3. destruct V3 as [Hc|Hc].
    + apply negb_true_iff in Hc. apply N.leb_gt in Hc. lia.
    + apply N.leb_le. exact Hc.
  - intros e He. rewrite forallb_forall in Kc. specialize (Kc e He). unfold rec_okb in Kc. apply inclb_Sub. exact Kc.
  - intros e x He Hp. rewrite forallb_forall in O5c. specialize (O5c e He). unfold o5cb in O5c.
    rewrite forallb_forall in O5c. destruct Hp as (Hx & Hp). specialize (O5c x Hx).
    apply orb_true_iff in O5c. destruct O5c as [Hc|Hc].
    + apply negb_true_iff in Hc. assert (Hsp : sp_pinb e x = true) by (apply (sp_pinb_spec s); [exact Hx | split; tauto]). rewrite Hsp in Hc. discriminate.
    + apply andb_true_iff in Hc. destruct Hc as [Hc1 Hc2]. split; [apply inclb_Sub; exact Hc1 | apply disjb_Dis; exact Hc2].
  - split; apply keys_leb_spec; assumption.
  - repeat split; [apply inclb_Sub | apply disjb_Dis | apply disjb_Dis]; assumption.
  - intros e He. rewrite forallb_forall in Kw. specialize (Kw e He). unfold rec_okb in Kw. apply inclb_Sub. exact Kw.
  - intros e x He Hni Hp. rewrite forallb_forall in O5w. specialize (O5w e He). unfold o5wb in O5w.
    apply orb_true_iff in O5w. destruct O5w as [Hc|Hc]; [apply memN_spec in Hc; contradiction|].
    rewrite forallb_forall in Hc. destruct Hp as (Hx & Hp). specialize (Hc x Hx).
    apply orb_true_iff in Hc. destruct Hc as [Hc|Hc].
    + apply negb_true_iff in Hc. assert (Hsp : sp_pinb e x = true) by (apply (sp_pinb_spec s); [exact Hx | split; tauto]). rewrite Hsp in Hc. discriminate.
    + apply inclb_Sub. exact Hc.
  - apply disjb_Dis. assumption.
  - split; apply inclb_Sub; assumption.
  - intros Hoff. rewrite Hoff in T2. simpl in T2.
    apply andb_true_iff in T2. destruct T2 as [T2 Cd]. apply andb_true_iff in T2. destruct T2 as [Cv Ct].
    apply list_nil_match in Cv. destruct (trk r); [|discriminate]. repeat split; assumption.
  - split; [apply inclb_Sub | apply disjb_Dis]; assumption.
  - intros Hw. rewrite Hw in Nn. simpl in Nn.
    apply andb_true_iff in Nn. destruct Nn as [Nn Cd]. apply andb_true_iff in Nn. destruct Nn as [Nn Co].
    apply andb_true_iff in Nn. destruct Nn as [Ct Cw]. apply list_nil_match in Cw.
    destruct (trk r); [|discriminate]. apply negb_true_iff in Cd. repeat split; assumption.
  - intros Hd. rewrite Hd in Dd. simpl in Dd.
    apply andb_true_iff in Dd. destruct Dd as [Dd Co]. apply andb_true_iff in Dd. destruct Dd as [Dd Cw].
    apply andb_true_iff in Dd. destruct Dd as [Ci Cr]. apply list_nil_match in Cw.
    repeat split; try assumption; [apply inclb_Sub; exact Ci | destruct (wrest s); [discriminate | reflexivity]].
  - intros r0 e Hr He Hni. rewrite Hr in W2. rewrite forallb_forall in W2. specialize (W2 e He).
    apply orb_true_iff in W2. destruct W2 as [Hc|Hc]; [apply memN_spec in Hc; contradiction | apply N.leb_le; exact Hc].
Qed.

Lemma NoDup_app_iff_N : forall (l : list N) h, NoDup l -> ~ In h l -> NoDup (l ++ [h]).
Proof.
  induction l as [|a l IH]; intros h Hn Hh; simpl; [constructor; [intros [] | constructor]|].
  inversion Hn as [|? ? Ha Hl]; subst. constructor.
  - intros Hin. apply in_app_iff in Hin. destruct Hin as [Hin|[Hin|[]]]; [contradiction|]. apply Hh. left. symmetry. exact Hin.
  - apply IH; [exact Hl|]. intros Hin. apply Hh. right. exact Hin.
Qed.
