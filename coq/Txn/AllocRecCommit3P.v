(* Allocation records: WriteTransaction::commit with Durability::Immediate preserves the invariant. *)
From Coq Require Import List PArith NArith Bool MSets.MSetPositive Permutation Lia.
From RV Require Import Txn.PSet Txn.PSetP Txn.Own Txn.OwnP Txn.OwnStepP Txn.OwnCommitP Txn.AllocRec.
From RV Require Import Txn.AllocRecBaseP Txn.AllocRecStepP Txn.AllocRecStep2P Txn.AllocRecCommitP Txn.AllocRecCommit2P.
Import ListNotations.
Open Scope N_scope.

Lemma track_fields : forall D' s r,
  dalloc (r_track D' s r) = dalloc r /\ ualloc (r_track D' s r) = ualloc r /\ valid (r_track D' s r) = valid r /\
  winval (r_track D' s r) = winval r.
Proof. intros. unfold r_track. destruct (trk_on r); repeat split; reflexivity. Qed.

Lemma pins_facts : forall s, Inv s -> forall x, In x (pins s) -> Dis (ppages x) (wasc s) /\ Sub (ppages x) (alloc s).
Proof. intros s H x Hx. split; [exact (Inv_pins_asc s H x Hx) | exact (pin_sub_alloc s x H Hx)]. Qed.

Lemma apply_sp_not_inval : forall s0 r e, In e (valid (r_apply_sp s0 r)) -> ~ In (fst e) (winval (r_apply_sp s0 r)).
Proof.
  intros s0 r e He. unfold r_apply_sp, set_valid in *. cbn [valid winval] in *.
  apply In_valid_minus in He. destruct He as [_ Hn]. intros Hi. apply Hn. apply in_app_iff. left. exact Hi.
Qed.

Theorem robs_commit_dur : forall D' Sd So qr pcf s r, Inv s -> RObs s r ->
  ok_commit_dur D' Sd So qr pcf s = true ->
  RObs (commit_dur D' Sd So qr pcf s) (r_commit_dur D' s r).
Proof.
  intros D' Sd So qr pcf s r H HR Hok. unfold ok_commit_dur in Hok.
  apply andb_true_iff in Hok. destruct Hok as [Hw Hok].
  apply andb_true_iff in Hok. destruct Hok as [Hok1 Hok].
  apply andb_true_iff in Hok. destruct Hok as [Hok2 Hok3].
  pose proof (Inv_pins_asc s H) as PA. pose proof (Inv_W s H Hw) as W0.
  destruct (restored_W _ s W0) as [W1 R1]. pose proof (restored_pins_asc s PA) as PA1.
  destruct (mut_data_W _ D' _ W1 PA1 Hok1) as [W2 PA2].
  pose proof (adopt_W _ _ W2) as W3.
  set (s3 := c_adopt (mut_data D' (c_restored s))) in *.
  destruct (store_dfreed_W s3 W3 eq_refl) as [W4 R4].
  destruct (drain_W (c_store_dfreed s3) W4 R4) as [W5 R5].
  (* records *)
  pose proof (RW_of_RObs s r H HR) as RW0.
  pose proof (RW_restored _ _ _ _ RW0) as RW1.
  destruct HR as [HC HWo].
  assert (RA1 : Dis (flat (recs r)) (wasc (c_restored s))) by exact (ro_ra s r HWo).
  destruct (RW_track _ _ D' _ r RW1 RA1 (w_bal _ _ W1) Hok1 (pins_facts s H)) as [RW2 RA2].
  set (r2 := r_track D' (c_restored s) r) in *.
  destruct (track_fields D' (c_restored s) r) as (Fd & Fu & Fv & Fw). fold r2 in Fd, Fu, Fv, Fw.
  destruct (ro_u s r HC) as (U1 & U2 & U3). destruct (i_unp s H) as [_ Wu].
  assert (U2' : Dis (flat (dalloc r2)) (unpers (mut_data D' (c_restored s)))) by (rewrite Fd; exact U2).
  assert (U3' : Dis (flat (ualloc r2)) (pca (mut_data D' (c_restored s)))) by (rewrite Fu; exact U3).
  destruct (RW_adopt _ _ _ r2 RW2 RA2 U2' U3' Wu) as [RW3 RA3].
  change (pca (mut_data D' (c_restored s))) with (pca s) in RW3, RA3.
  set (r3 := set_ualloc (tab_minus (ualloc r2) (pca s)) r2) in *.
  fold s3 in RW3, RA3.
  destruct (i_ids s H) as (_ & _ & Ilt). specialize (Ilt Hw).
  assert (RW4 : RW (vid (lat s)) [] (c_store_dfreed s3) r3) by (apply RW_store_dfreed; [exact RW3 | reflexivity | exact Ilt]).
  destruct (RW_drain_flush (vid (lat s)) (c_store_dfreed s3) s r3 RW4 eq_refl Ilt eq_refl eq_refl) as (RW5 & PF5 & Hu5 & Ht5).
  change (r_flush s r3) with (r_dur_pre D' s r) in RW5, PF5, Hu5, Ht5.
  set (r5 := r_dur_pre D' s r) in *.
  set (s5 := c_drain (c_store_dfreed s3)) in *.
  pose proof (RW_mut_sys _ _ Sd _ _ RW5 Ht5) as RW6.
  pose proof (PF_frame s5 (mut_sys Sd s5) r5 eq_refl eq_refl PF5) as PF6.
  pose proof (mut_sys_W _ Sd _ W5 Hok2) as W6.
  destruct (commit_dur_pre_W D' Sd qr s H Hw Hok1 Hok2) as (W7 & R7 & Hd7 & Hu7 & Hl7).
  set (s7 := commit_dur_pre D' Sd qr s) in *.
  assert (RW7 : RW (lastid s7) (wdeleted s7) s7 r5 /\ PF s7 r5).
  { subst s7. unfold commit_dur_pre. fold s3. fold s5. destruct qr.
    - split; [exact (RW_store_sfreed _ _ _ _ _ RW6) | exact (PF_frame _ _ r5 eq_refl eq_refl PF6)].
    - split; assumption. }
  destruct RW7 as [RW7 PF7].
  rewrite <- Hl7 in W7.
  destruct (publish_W s7 W7 R7 Hd7 Hu7) as (W10 & C10 & Hp10 & Hun10 & Hld10 & Hv10 & Hl10 & Ks & Ku & Kd).
  assert (Ed7 : wdeleted s = wdeleted s7) by (subst s7; unfold commit_dur_pre; destruct qr; reflexivity).
  destruct (RW_publish s7 s r5 RW7 PF7 Ht5 Ed7) as (RW10 & PF10 & Hd10 & Hua10 & Ht10).
  unfold commit_dur, r_commit_dur. cbv zeta. unfold commit_dur_mid in *. fold s7. fold s7 in Hok3. fold r5.
  set (s10 := c_apply_sp (c_post_free (c_publish_dur s7))) in *.
  set (r10 := r_apply_sp s r5) in *.
  assert (Hwi : forall e, In e (valid r10) -> ~ In (fst e) (winval r10)) by (intros e; apply apply_sp_not_inval).
  assert (Hua : ualloc r10 = []) by (rewrite Hua10; exact Hu5).
  assert (U1f : forall X, Sub (flat (ualloc r10)) X) by (intros X p Hp; rewrite Hua in Hp; rewrite cnt_nil in Hp; lia).
  assert (U3f : forall X, Dis (flat (ualloc r10)) X) by (intros X p Hp; rewrite Hua in Hp; rewrite cnt_nil in Hp; lia).
  destruct (pcf && epilogue_runs s10) eqn:Ep.
  - (* the epilogue runs *)
    apply andb_true_iff in Ep. destruct Ep as [Epcf Erun]. rewrite Epcf. unfold c_epilogue. rewrite Erun.
    pose proof C10 as (C1 & C2 & C3 & C4 & C5 & C6 & C7).
    rewrite <- Hl10 in W10.
    pose proof (e_drain_W s10 W10 C4 C5) as W11.
    pose proof (RW_e_drain _ s10 r10 RW10 PF10 Hua C4 C5) as RW11.
    pose proof (mut_sys_W _ So _ W11 Hok3) as W12.
    pose proof (RW_mut_sys _ _ So _ _ RW11 Ht10) as RW12.
    assert (RA11 : Dis (flat (recs r10)) (wasc (e_drain s10))).
    { change (wasc (e_drain s10)) with (wasc s10). rewrite C1. intros p Hp. reflexivity. }
    pose proof (mut_sys_ra So _ r10 (rw_kw _ _ _ _ RW11) (w_bal _ _ W11) Hok3 RA11) as RA12.
    assert (P011 : Sub (wasc (e_drain s10)) (alloc (e_drain s10))).
    { change (wasc (e_drain s10)) with (wasc s10). rewrite C1. intros p Hp. rewrite cnt_nil in Hp. lia. }
    pose proof (mut_sys_wasc_alloc So _ P011) as P012.
    pose proof (store_sfreed_W (lastid s10 + 1) _ W12) as W13.
    pose proof (RW_store_sfreed _ _ (lastid s10 + 1) _ _ RW12) as RW13.
    set (s13 := c_store_sfreed (lastid s10 + 1) (mut_sys So (e_drain s10))) in *.
    assert (Hv13 : vid (lat s13) = lastid s13) by (change (vid (lat s10) = lastid s10); congruence).
    assert (Hl13 : lastid s13 = lastid s7) by exact Hl10.
    assert (Hb13 : lastid s7 <= lastid s13 + 1) by (rewrite Hl13; lia).
    pose proof (RW_b_mono (lastid s7) (lastid s13 + 1) [] s13 r10 Hb13 RW13) as RW13'.
    assert (Hvl13 : vid (lat s13) <= lastid s13) by (rewrite Hv13; apply N.le_refl).
    pose proof (RW_e_publish (lastid s13 + 1) [] s13 r10 RW13' Ht10 Hvl13 (N.le_refl _)) as RW14.
    apply (robs_finish (lastid s13 + 1) (e_publish s13) r10 RW14); try assumption.
    all: try solve [apply U1f].
    all: try solve [apply U3f].
    all: try solve [unfold closed; red_st; repeat split; try reflexivity; try assumption].
    all: try solve [red_st; apply N.le_refl].
    (* DATA_ALLOCATED names none of the epilogue's (now unpersisted) pages *)
    change (unpers (e_publish s13)) with (wasc (mut_sys So (e_drain s10))).
    intros p Hp. apply RA12. unfold recs. rewrite flat_app, cnt_app. lia.
  - (* no epilogue *)
    assert (Hs : (if pcf then c_epilogue So s10 else s10) = s10).
    { destruct pcf; [|reflexivity]. simpl in Ep. unfold c_epilogue. rewrite Ep. reflexivity. }
    rewrite Hs.
    apply (robs_finish (lastid s7) s10 r10 RW10 C10 Ht10); try assumption.
    all: try solve [apply U1f].
    all: try solve [apply U3f].
    all: try solve [rewrite Hv10; apply N.le_refl].
    all: try solve [rewrite Hun10; intros p Hp; reflexivity].
    all: try solve [change (pca s10) with (@nil positive); intros p Hp; rewrite cnt_nil in Hp; lia].
Qed.
