(* C05 -- proofs: an abandoned write transaction leaves no trace in the page-ownership model *)
From Coq Require Import List PArith NArith Bool MSets.MSetPositive Permutation Lia.
From RV Require Import Txn.PSet Txn.PSetP Txn.Own Txn.OwnP Txn.OwnStepP Txn.OwnCommitP Txn.OwnThmP Txn.Abandon.
Import ListNotations.
Open Scope N_scope.

(* ================================================================ list facts *)

Lemma minus_ext : forall l x y, (forall p, In p l -> (In p x <-> In p y)) -> minus l x = minus l y.
Proof.
  intros l x y H. unfold minus. apply filter_ext_in. intros p Hp. f_equal.
  destruct (PS.mem p (mkset x)) eqn:Ex; destruct (PS.mem p (mkset y)) eqn:Ey; try reflexivity.
  - apply mkset_spec in Ex. apply mkset_false in Ey. exfalso. apply Ey. apply (H p Hp). exact Ex.
  - apply mkset_false in Ex. apply mkset_spec in Ey. exfalso. apply Ex. apply (H p Hp). exact Ey.
Qed.

Lemma filter_filter : forall (A : Type) (f g : A -> bool) l,
  filter f (filter g l) = filter (fun x => g x && f x) l.
Proof.
  intros A f g. induction l as [|a l IH]; simpl; [reflexivity|].
  destruct (g a) eqn:Eg; simpl; [destruct (f a); rewrite IH; reflexivity | exact IH].
Qed.

Lemma minus_minus : forall l a b, minus (minus l a) b = minus l (a ++ b).
Proof.
  intros l a b. unfold minus at 1 2. rewrite filter_filter. unfold minus. apply filter_ext_in. intros p _.
  destruct (PS.mem p (mkset a)) eqn:Ea; destruct (PS.mem p (mkset b)) eqn:Eb;
    destruct (PS.mem p (mkset (a ++ b))) eqn:Eab; try reflexivity; exfalso.
  all: rewrite ?mkset_spec, ?mkset_false in *; rewrite ?in_app_iff in *; tauto.
Qed.

Lemma minus_all : forall l x, incl l x -> minus l x = [].
Proof.
  intros l x H. unfold minus. induction l as [|a l IH]; simpl; [reflexivity|].
  assert (Ha : PS.mem a (mkset x) = true) by (apply mkset_spec; apply H; left; reflexivity).
  rewrite Ha. simpl. apply IH. intros p Hp. apply H. right. exact Hp.
Qed.

(* the allocator / allocated_since_commit pair under an in-transaction mutation: fresh pages A are added
   to both, uncommitted pages Fu are removed from both; the committed part is untouched *)
Lemma alloc_wasc_step : forall A Fu al wa, disjoint A al -> incl Fu wa ->
  minus (A ++ minus al Fu) (A ++ minus wa Fu) = minus al wa.
Proof.
  intros A Fu al wa Hd Hi. rewrite minus_app.
  rewrite (minus_all A (A ++ minus wa Fu)) by (intros p Hp; apply in_or_app; left; exact Hp).
  simpl. rewrite minus_minus. apply minus_ext. intros p Hp.
  rewrite !in_app_iff, In_minus. split.
  - intros [H|[H|[H _]]]; [apply Hi; exact H | exfalso; exact (Hd p H Hp) | exact H].
  - intros H. destruct (in_dec Pos.eq_dec p Fu) as [Hf|Hf]; [left; exact Hf | right; right; split; assumption].
Qed.

Lemma disjb_disjoint : forall a b, disjb a b = true -> disjoint a b.
Proof. intros a b H. apply disjb_spec. exact H. Qed.

Lemma incl_inter_r : forall l x, incl (inter l x) x.
Proof. intros l x p Hp. apply In_inter in Hp. tauto. Qed.

(* ---- pins *)

Lemma find_pin_none : forall h l, find_pin h l = None -> forall x, In x l -> ph x <> h.
Proof.
  intros h l H x Hx He. unfold find_pin in H. pose proof (find_none _ _ H x Hx) as Hn. simpl in Hn.
  rewrite He, N.eqb_refl in Hn. discriminate.
Qed.

Lemma find_pin_ph : forall h l x, find_pin h l = Some x -> ph x = h.
Proof. intros h l x H. unfold find_pin in H. apply find_some in H. destruct H as [_ H]. apply N.eqb_eq. exact H. Qed.

Lemma remove_pins_app : forall hs l m, remove_pins hs (l ++ m) = remove_pins hs l ++ remove_pins hs m.
Proof. intros. unfold remove_pins. apply filter_app. Qed.

Lemma remove_pins_comm : forall a b l, remove_pins a (remove_pins b l) = remove_pins b (remove_pins a l).
Proof.
  intros a b l. unfold remove_pins. rewrite !filter_filter. apply filter_ext. intros x. apply andb_comm.
Qed.

Lemma remove_pins_cons_fresh : forall h hs l, (forall x, In x l -> ph x <> h) ->
  remove_pins (h :: hs) l = remove_pins hs l.
Proof.
  intros h hs l H. unfold remove_pins. apply filter_ext_in. intros x Hx. f_equal. unfold memN. simpl.
  destruct (N.eqb (ph x) h) eqn:E; [apply N.eqb_eq in E; exfalso; exact (H x Hx E) | reflexivity].
Qed.

Lemma In_remove_pins_iff : forall hs l x, In x (remove_pins hs l) <-> In x l /\ ~ In (ph x) hs.
Proof.
  intros hs l x. unfold remove_pins. rewrite filter_In, negb_true_iff. split; intros [H1 H2]; split; try exact H1.
  - intros Hin. apply memN_spec in Hin. congruence.
  - destruct (memN (ph x) hs) eqn:E; [apply memN_spec in E; contradiction | reflexivity].
Qed.

(* ================================================================ the in-transaction relation *)

Lemma set_pins_id : forall s, s = set_pins (pins s) s.
Proof. intros []. reflexivity. Qed.

Lemma intxn_begin : forall s, normal_w s -> inw s = false -> InTxn s s (begin_write s).
Proof.
  intros s (_ & _ & Ha & _ & _ & _ & _ & Hc & _) Hw. unfold begin_write. rewrite Hw.
  constructor; cbn [alloc lastid dur lat dfreed sfreed ufreed unpers pca pins pend inw wdata wsys wasc wdfr wsfr
    wdfreed wrest wcreated wdeleted]; try reflexivity.
  - rewrite Ha. apply minus_nil_r.
  - rewrite Hc. unfold remove_pins. simpl. induction (pins s) as [|a l IH]; simpl; [reflexivity | rewrite IH; reflexivity].
  - rewrite Hc. intros h [].
  - rewrite Hc. intros x _ [].
  - apply set_pins_id.
Qed.

Ltac cbn_st := cbn [alloc lastid dur lat dfreed sfreed ufreed unpers pca pins pend inw wdata wsys wasc wdfr wsfr
    wdfreed wrest wcreated wdeleted vid vdata vsys ph ptxn ppages ppersist].

(* a new registration made from inside or beside the transaction *)
Lemma intxn_add_pin : forall s0 sh t h, InTxn s0 sh t -> ok_new_handle h t = true ->
  InTxn s0 (begin_read h sh) (add_pin h false t).
Proof.
  intros s0 sh t h [Ia Il Id Ila Idf Isf Iuf Iu Ip Ipe Iw Ipins Icr Icp Ish] Hok.
  unfold ok_new_handle in Hok. destruct (find_pin h (pins t)) eqn:Ef; [discriminate|].
  pose proof (find_pin_none _ _ Ef) as Hfresh.
  assert (Hnc : ~ In h (wcreated t)).
  { intros Hin. destruct (Icr h Hin) as (x & Hx & Hph). exact (Hfresh x Hx Hph). }
  constructor; unfold begin_read, add_pin; cbn_st; try assumption.
  - rewrite remove_pins_app, Ipins. f_equal. unfold remove_pins. simpl.
    destruct (memN h (wcreated t)) eqn:E; [apply memN_spec in E; contradiction|]. simpl.
    rewrite Ila. rewrite Ish. reflexivity.
  - intros h' Hh'. destruct (Icr h' Hh') as (x & Hx & Hph). exists x. split; [apply in_or_app; left; exact Hx | exact Hph].
  - intros x Hx Hc. apply in_app_iff in Hx. destruct Hx as [Hx|[<-|[]]]; [exact (Icp x Hx Hc)|]. simpl in Hc. contradiction.
  - rewrite Ish. reflexivity.
Qed.

Lemma intxn_step : forall s0 sh t o, InTxn s0 sh t -> body_op o = true -> oracle_ok t o = true ->
  InTxn s0 (run (pin_part1 o) sh) (step t o).
Proof.
  intros s0 sh t o I Hb Hok. destruct o; try discriminate Hb; simpl in Hok |- *.
  - (* mut_data *)
    apply andb_true_iff in Hok. destruct Hok as [_ Hok]. unfold ok_data in Hok.
    apply andb_true_iff in Hok. destruct Hok as [_ Hd]. apply disjb_disjoint in Hd.
    destruct I as [Ia Il Id Ila Idf Isf Iuf Iu Ip Ipe Iw Ipins Icr Icp Ish].
    constructor; unfold mut_data; cbn_st; try assumption.
    rewrite alloc_wasc_step; [exact Ia | exact Hd | apply incl_inter_r].
  - (* mut_sys *)
    apply andb_true_iff in Hok. destruct Hok as [_ Hok]. unfold ok_sys in Hok.
    apply andb_true_iff in Hok. destruct Hok as [_ Hd]. apply disjb_disjoint in Hd.
    destruct I as [Ia Il Id Ila Idf Isf Iuf Iu Ip Ipe Iw Ipins Icr Icp Ish].
    constructor; unfold mut_sys; cbn_st; try assumption.
    rewrite alloc_wasc_step; [exact Ia | exact Hd | apply incl_inter_r].
  - (* begin_read *)
    apply intxn_add_pin; assumption.
  - (* drop_pin *)
    destruct (find_pin h (pins t)) as [x|] eqn:Ef; [|discriminate].
    apply negb_true_iff in Hok. pose proof (find_pin_ph _ _ _ Ef) as Hph. pose proof (find_pin_In _ _ _ Ef) as Hin.
    destruct I as [Ia Il Id Ila Idf Isf Iuf Iu Ip Ipe Iw Ipins Icr Icp Ish].
    assert (Hnc : ~ In h (wcreated t)).
    { intros Hc. rewrite <- Hph in Hc. rewrite (Icp x Hin Hc) in Hok. discriminate. }
    constructor; unfold drop_pin, set_pins; cbn_st; try assumption.
    + rewrite remove_pins_comm, Ipins. reflexivity.
    + intros h' Hh'. destruct (Icr h' Hh') as (y & Hy & Hyh). exists y. split; [|exact Hyh].
      apply In_remove_pins_iff. split; [exact Hy|]. rewrite Hyh. intros [<-|[]]. contradiction.
    + intros y Hy Hc. apply In_remove_pins in Hy. exact (Icp y Hy Hc).
    + rewrite Ish. reflexivity.
  - (* sp_create *)
    apply andb_true_iff in Hok. destruct Hok as [_ Hok]. destruct persist.
    + (* persistent: staged in wcreated, removed again by apply_on_abort *)
      unfold sp_create. simpl.
      pose proof Hok as Hok'. unfold ok_new_handle in Hok'. destruct (find_pin h (pins t)) eqn:Ef; [discriminate|].
      pose proof (find_pin_none _ _ Ef) as Hfresh.
      destruct I as [Ia Il Id Ila Idf Isf Iuf Iu Ip Ipe Iw Ipins Icr Icp Ish].
      constructor; unfold add_pin; cbn_st; try assumption.
      * rewrite remove_pins_app. rewrite (remove_pins_cons_fresh h (wcreated t) (pins t) Hfresh), Ipins.
        unfold remove_pins. simpl. unfold memN. simpl. rewrite N.eqb_refl. simpl. apply app_nil_r.
      * intros h' [<-|Hh'].
        -- eexists. split; [apply in_or_app; right; left; reflexivity | reflexivity].
        -- destruct (Icr h' Hh') as (x & Hx & Hph). exists x. split; [apply in_or_app; left; exact Hx | exact Hph].
      * intros x Hx Hc. apply in_app_iff in Hx. destruct Hx as [Hx|[<-|[]]]; [|reflexivity].
        destruct Hc as [Hc|Hc]; [exfalso; exact (Hfresh x Hx (eq_sym Hc)) | exact (Icp x Hx Hc)].
    + (* ephemeral: a registration owned by the caller's Savepoint handle *)
      unfold sp_create. apply intxn_add_pin; assumption.
  - (* sp_delete *)
    destruct I as [Ia Il Id Ila Idf Isf Iuf Iu Ip Ipe Iw Ipins Icr Icp Ish].
    constructor; unfold sp_delete; cbn_st; assumption.
  - (* restore *)
    apply andb_true_iff in Hok. destruct Hok as [_ Hok]. unfold ok_restore in Hok. unfold restore.
    destruct (find_pin h (pins t)) as [sp|]; [|discriminate].
    destruct I as [Ia Il Id Ila Idf Isf Iuf Iu Ip Ipe Iw Ipins Icr Icp Ish].
    constructor; cbn_st; try assumption.
    pose proof (alloc_wasc_step [] (inter (wdata t ++ wdfr t ++ flat (late (ptxn sp) (wdfreed t)) ++ flat (late (ptxn sp) (eff_ufreed t))) (wasc t))
      (alloc t) (wasc t) (disjoint_nil_l _) (incl_inter_r _ _)) as H. simpl in H. rewrite H. exact Ia.
Qed.

Lemma run_app : forall a b s, run (a ++ b) s = run b (run a s).
Proof. intros. unfold run. apply fold_left_app. Qed.

Lemma intxn_run : forall b s0 sh t, InTxn s0 sh t -> is_body b = true -> admissible t b ->
  InTxn s0 (run (pin_part b) sh) (run b t).
Proof.
  induction b as [|o b IH]; intros s0 sh t I Hb Ha; simpl in *; [exact I|].
  apply andb_true_iff in Hb. destruct Hb as [Hb1 Hb2]. destruct Ha as [Hok Ha].
  fold (pin_part b). rewrite run_app. apply IH; [apply intxn_step; assumption | exact Hb2 | exact Ha].
Qed.

(* a half-executed operation keeps the relation: whatever it left in the working view *)
Lemma intxn_half : forall s0 sh t h, InTxn s0 sh t -> ok_half h t = true -> InTxn s0 sh (half h t).
Proof.
  intros s0 sh t h [Ia Il Id Ila Idf Isf Iuf Iu Ip Ipe Iw Ipins Icr Icp Ish] Hok.
  unfold ok_half in Hok. apply andb_true_iff in Hok. destruct Hok as [Hok Hi].
  apply andb_true_iff in Hok. destruct Hok as [_ Hd].
  apply disjb_disjoint in Hd. apply inclb_spec in Hi.
  constructor; unfold half; cbn_st; try assumption.
  rewrite alloc_wasc_step; assumption.
Qed.

(* abort_inner_impl from any state inside the transaction *)
Lemma intxn_abort : forall s0 sh t, InTxn s0 sh t -> normal_w s0 -> inw s0 = false -> abort t = bump sh.
Proof.
  intros s0 sh t [Ia Il Id Ila Idf Isf Iuf Iu Ip Ipe Iw Ipins Icr Icp Ish]
    (N1 & N2 & N3 & N4 & N5 & N6 & N7 & N8 & N9) Hw.
  rewrite Ish. unfold abort, reset_w, bump, set_pins. cbn_st.
  rewrite Ia, Il, Id, Ila, Idf, Isf, Iuf, Iu, Ip, Ipe, Ipins, Hw, N1, N2, N3, N4, N5, N6, N7, N8, N9.
  reflexivity.
Qed.

(* ================================================================ invariants of what is left *)

Lemma inv_pin_part : forall b s, Inv s -> Inv (run (pin_part b) s).
Proof.
  induction b as [|o b IH]; intros s H; simpl; [exact H|].
  fold (pin_part b). rewrite run_app. apply IH.
  destruct o; simpl; try exact H.
  - apply inv_add_pin. exact H.
  - apply inv_drop_pin. exact H.
  - destruct persist; simpl; [exact H | apply inv_add_pin; exact H].
Qed.

Lemma pin_part_only_pins : forall b s, run (pin_part b) s = set_pins (pins (run (pin_part b) s)) s.
Proof.
  induction b as [|o b IH]; intros s; simpl; [apply set_pins_id|].
  fold (pin_part b). rewrite run_app.
  assert (H1 : exists v, run (pin_part1 o) s = set_pins v s).
  { destruct o; simpl; try (exists (pins s); apply set_pins_id).
    - eexists. unfold begin_read, add_pin, set_pins. reflexivity.
    - eexists. unfold drop_pin. reflexivity.
    - destruct persist; simpl; [exists (pins s); apply set_pins_id | eexists; unfold begin_read, add_pin, set_pins; reflexivity]. }
  destruct H1 as (v & Hv). rewrite Hv. rewrite (IH (set_pins v s)) at 1. reflexivity.
Qed.

Lemma inv_bump : forall s, Inv s -> inw s = false -> Inv (bump s).
Proof.
  intros s [B2 B1 P Dc Dw L U I Pe K R Np Nm] Hw.
  constructor; unfold bump; red_st; try assumption.
  - destruct I as (I1 & I2 & I3). repeat split; try lia.
Qed.

Lemma pin_part_fields : forall b s, let sh := run (pin_part b) s in
  alloc sh = alloc s /\ lastid sh = lastid s /\ dur sh = dur s /\ lat sh = lat s /\ dfreed sh = dfreed s /\
  sfreed sh = sfreed s /\ ufreed sh = ufreed s /\ unpers sh = unpers s /\ pca sh = pca s /\ pend sh = pend s /\
  inw sh = inw s /\ wdata sh = wdata s /\ wsys sh = wsys s /\ wasc sh = wasc s /\ wdfr sh = wdfr s /\
  wsfr sh = wsfr s /\ wdfreed sh = wdfreed s /\ wrest sh = wrest s /\ wcreated sh = wcreated s /\ wdeleted sh = wdeleted s.
Proof.
  intros b s sh. subst sh. rewrite (pin_part_only_pins b s). unfold set_pins. cbn_st. repeat split; reflexivity.
Qed.

Lemma no_ext_pin_part : forall b, no_ext b = true -> pin_part b = [].
Proof.
  induction b as [|o b IH]; intros H; simpl in *; [reflexivity|].
  apply andb_true_iff in H. destruct H as [H1 H2]. fold (pin_part b). rewrite (IH H2).
  destruct (pin_part1 o); [reflexivity | discriminate].
Qed.

(* ================================================================ the theorems *)

(* abort(), for every body: the state is the one before begin_write, except that the transaction id is
   consumed and the outside registrations made / dropped meanwhile are as if made / dropped without it *)
Theorem abort_restores_eq : forall s body, Inv s -> inw s = false -> is_body body = true ->
  admissible (begin_write s) body ->
  abort (run body (begin_write s)) = bump (run (pin_part body) s).
Proof.
  intros s body H Hw Hb Ha. pose proof (i_norm s H Hw) as Nm.
  apply (intxn_abort s); [|exact Nm | exact Hw].
  apply intxn_run; [apply intxn_begin; assumption | exact Hb | exact Ha].
Qed.

Definition same_committed (s' s : st) : Prop :=
  alloc s' = alloc s /\ dur s' = dur s /\ lat s' = lat s /\ dfreed s' = dfreed s /\ sfreed s' = sfreed s /\
  ufreed s' = ufreed s /\ unpers s' = unpers s /\ pca s' = pca s /\ pend s' = pend s.

Lemma bump_restores : forall s b, Inv s -> inw s = false ->
  let s' := bump (run (pin_part b) s) in
  same_committed s' s /\ NoDup (alloc s') /\ (forall p, In p (alloc s') <-> In p (alloc s)) /\
  pins s' = pins (run (pin_part b) s) /\
  normal_w s' /\ inw s' = false /\ Inv s' /\ lastid s' = lastid s + 1 /\ lastid s < lastid s'.
Proof.
  intros s b H Hw s'. pose proof (pin_part_fields b s) as F. cbv zeta in F.
  destruct F as (F1 & F2 & F3 & F4 & F5 & F6 & F7 & F8 & F9 & F10 & F11 & F12 & F13 & F14 & F15 & F16 & F17 & F18 & F19 & F20).
  assert (Hi : Inv s') by (apply inv_bump; [apply inv_pin_part; exact H | rewrite F11; exact Hw]).
  assert (Ha : alloc s' = alloc s) by exact F1.
  split; [unfold same_committed, s', bump; cbn_st; repeat split; assumption|].
  split; [eapply Bal_NoDup_alloc; exact (i_bal_c _ Hi)|].
  split; [intros p; rewrite Ha; tauto|].
  split; [reflexivity|].
  assert (Hw' : inw s' = false) by (unfold s', bump; cbn_st; rewrite F11; exact Hw).
  split; [exact (i_norm _ Hi Hw')|].
  split; [exact Hw'|]. split; [exact Hi|].
  unfold s', bump. cbn_st. rewrite F2. split; [reflexivity | lia].
Qed.

(* the same, observable by observable *)
Theorem abort_restores : forall s body, Inv s -> inw s = false -> is_body body = true ->
  admissible (begin_write s) body ->
  let s' := abort (run body (begin_write s)) in
  same_committed s' s /\ NoDup (alloc s') /\ (forall p, In p (alloc s') <-> In p (alloc s)) /\
  pins s' = pins (run (pin_part body) s) /\
  normal_w s' /\ inw s' = false /\ Inv s' /\ lastid s' = lastid s + 1 /\ lastid s < lastid s'.
Proof.
  intros s body H Hw Hb Ha s'. subst s'. rewrite (abort_restores_eq s body H Hw Hb Ha).
  apply bump_restores; assumption.
Qed.

(* bodies that touch no outside registration (table writes, persistent savepoint creation, deletion,
   restore): the pins are exactly the old ones -- persistent savepoints created in the body are gone,
   those whose deletion was staged (directly or by a restore) are back -- and the whole state is the old
   one with the transaction id consumed *)
Theorem abort_restores_closed : forall s body, Inv s -> inw s = false -> is_body body = true ->
  no_ext body = true -> admissible (begin_write s) body ->
  abort (run body (begin_write s)) = bump s /\ pins (abort (run body (begin_write s))) = pins s.
Proof.
  intros s body H Hw Hb Hn Ha. rewrite (abort_restores_eq s body H Hw Hb Ha), (no_ext_pin_part body Hn).
  split; reflexivity.
Qed.

(* a registration that existed before and whose handle was not dropped meanwhile is still there,
   whatever the body staged (delete_persistent_savepoint, restore's deletion of later savepoints) *)
Lemma pin_part_keeps : forall b s x, In x (pins s) -> ~ In (ODropPin (ph x)) b -> In x (pins (run (pin_part b) s)).
Proof.
  induction b as [|o b IH]; intros s x Hx Hn; simpl; [exact Hx|].
  fold (pin_part b). rewrite run_app. apply IH; [|intros Hc; apply Hn; right; exact Hc].
  destruct o; simpl; try exact Hx.
  - apply in_or_app. left. exact Hx.
  - apply In_remove_pins_iff. split; [exact Hx|]. intros [He|[]]. apply Hn. left. rewrite He. reflexivity.
  - destruct persist; simpl; [exact Hx | apply in_or_app; left; exact Hx].
Qed.

Theorem abort_keeps_pins : forall s body x, Inv s -> inw s = false -> is_body body = true ->
  admissible (begin_write s) body -> In x (pins s) -> ~ In (ODropPin (ph x)) body ->
  In x (pins (abort (run body (begin_write s)))).
Proof.
  intros s body x H Hw Hb Ha Hx Hn. rewrite (abort_restores_eq s body H Hw Hb Ha).
  unfold bump. cbn_st. apply pin_part_keeps; assumption.
Qed.

(* a persistent savepoint created in the body is gone *)
Lemma wcreated_mono : forall b t h, is_body b = true -> In h (wcreated t) -> In h (wcreated (run b t)).
Proof.
  induction b as [|o b IH]; intros t h Hb Hh; simpl in *; [exact Hh|].
  apply andb_true_iff in Hb. destruct Hb as [Hb1 Hb2]. apply IH; [exact Hb2|].
  destruct o; try discriminate Hb1; simpl;
    unfold mut_data, mut_sys, begin_read, drop_pin, set_pins, sp_create, add_pin, sp_delete, restore;
    try destruct persist; try destruct (find_pin _ _); cbn_st; try exact Hh; try (right; exact Hh).
Qed.

Lemma created_in_wcreated : forall b t h, is_body b = true -> In (OSpCreate h true) b -> In h (wcreated (run b t)).
Proof.
  induction b as [|o b IH]; intros t h Hb Hin; simpl in *; [destruct Hin|].
  apply andb_true_iff in Hb. destruct Hb as [Hb1 Hb2]. destruct Hin as [->|Hin].
  - apply wcreated_mono; [exact Hb2|]. simpl. unfold sp_create. cbn_st. left. reflexivity.
  - apply IH; assumption.
Qed.

Theorem abort_drops_created : forall s body h, Inv s -> inw s = false -> is_body body = true ->
  admissible (begin_write s) body -> In (OSpCreate h true) body ->
  forall x, In x (pins (abort (run body (begin_write s)))) -> ph x <> h.
Proof.
  intros s body h H Hw Hb Ha Hin x Hx He.
  unfold abort, reset_w in Hx. cbn_st. simpl in Hx. apply In_remove_pins_iff in Hx. destruct Hx as [_ Hx].
  apply Hx. rewrite He. apply created_in_wcreated; assumption.
Qed.
