(* Allocation records: remaining steps outside restore / commit. *)
From Coq Require Import List PArith NArith Bool MSets.MSetPositive Permutation Lia.
From RV Require Import Txn.PSet Txn.PSetP Txn.Own Txn.OwnP Txn.OwnStepP Txn.OwnCommitP Txn.AllocRec.
From RV Require Import Txn.AllocRecBaseP Txn.AllocRecStepP.
Import ListNotations.
Open Scope N_scope.

(* ================================================================ OMutSys *)

Lemma robs_mut_sys : forall S' s r, Inv s -> RObs s r -> inw s = true -> ok_sys S' s = true ->
  RObs (mut_sys S' s) r.
Proof.
  intros S' s r H [HC HW] Hw Hok.
  pose proof (i_bal_w s H) as B.
  split; [apply (robsC_frame s _ r); try reflexivity; assumption|].
  destruct HW as [KW O5W RA [T1a T1b] T2 [P1 P2] Nn Dd W2].
  pose proof (recs_sub_alloc s r KW B) as RS.
  apply ok_sys_facts in Hok. destruct Hok as [HD Hfresh].
  constructor; try assumption.
  - red_st. clear T1a T1b P1 P2. pw.
  - split; [exact T1a|]. unfold owned_w in B. red_st. clear P1 P2 RA RS. pw.
  - split; red_st; clear T1a T1b RA RS; pw.
Qed.

(* ================================================================ pins *)

Lemma sp_pin_add_old : forall h b s e x, ~ In h (map ph (pins s)) ->
  (exists y, sp_pin s e y) -> sp_pin (add_pin h b s) e x -> sp_pin s e x.
Proof.
  intros h b s e x Hn (y & Hy & Hyh & _) (Hx & Hxh & Hxt). unfold add_pin in Hx. cbn [pins] in Hx.
  apply in_app_iff in Hx. destruct Hx as [Hx|[<-|[]]]; [split; [exact Hx | tauto]|].
  cbn [ph] in Hxh. exfalso. apply Hn. rewrite Hxh, <- Hyh. apply in_map. exact Hy.
Qed.

Lemma robs_add_pin : forall h b s r, RObs s r -> ok_new_handle h s = true -> RObs (add_pin h b s) r.
Proof.
  intros h b s r [HC HW] Hok. apply ok_new_handle_notin in Hok.
  split.
  - destruct HC as [V1 V2 V3 K O5 Bk U]. constructor; try assumption.
    + intros e He. destruct (V1 e He) as (x & Hx & Hp). exists x. split; [|exact Hp].
      unfold add_pin. cbn [pins]. apply in_app_iff. left. exact Hx.
    + unfold add_pin. cbn [pins]. rewrite map_app. cbn [map ph]. apply NoDup_app_iff_N; assumption.
    + intros e x He Hp. apply (O5 e x He). apply (sp_pin_add_old h b); auto.
  - destruct HW as [KW O5W RA T1 T2 P Nn Dd W2]. constructor; try assumption.
    intros e x He Hni Hp. destruct HC as [V1 _ _ _ _ _ _]. apply (O5W e x He Hni). apply (sp_pin_add_old h b); auto.
Qed.

Lemma robs_drop_pin : forall h s r, RObs s r -> RObs (drop_pin h s) (r_drop_pin h r).
Proof.
  intros h s r [HC HW].
  assert (Hpin : forall e x, In e (valid_minus [h] (valid r)) -> sp_pin (drop_pin h s) e x -> In e (valid r) /\ sp_pin s e x).
  { intros e x He (Hx & Hp). apply In_valid_minus in He. split; [tauto|]. split; [|exact Hp].
    unfold drop_pin, set_pins in Hx. cbn [pins] in Hx. apply In_remove_pins in Hx. exact Hx. }
  split.
  - destruct HC as [V1 V2 V3 K O5 Bk U]. constructor; red_rec; try assumption.
    + intros e He. apply In_valid_minus in He. destruct He as [He Hn]. destruct (V1 e He) as (x & Hx & Hxh & Hxt).
      exists x. split; [|tauto]. unfold drop_pin, set_pins. cbn [pins]. apply In_remove_pins_iff. split; [exact Hx|].
      rewrite Hxh. exact Hn.
    + unfold drop_pin, set_pins, remove_pins. cbn [pins]. apply NoDup_map_filter. exact V2.
    + intros e1 e2 H1 H2. apply In_valid_minus in H1. apply In_valid_minus in H2. apply V3; tauto.
    + intros e x He Hp. destruct (Hpin e x He Hp) as [He' Hp']. exact (O5 e x He' Hp').
  - destruct HW as [KW O5W RA T1 T2 P Nn Dd W2]. constructor; red_rec; try assumption.
    + intros e x He Hni Hp. destruct (Hpin e x He Hp) as [He' Hp']. exact (O5W e x He' Hni Hp').
    + intros Hf. destruct (T2 Hf) as (Hv & Ht & Hd). rewrite Hv. repeat split; assumption.
    + intros r0 e Hr He Hni. apply In_valid_minus in He. apply (W2 r0 e Hr); tauto.
Qed.

Lemma robs_sp_delete : forall h s r, RObs s r -> RObs (sp_delete h s) r.
Proof.
  intros h s r [HC HW]. split.
  - apply (robsC_frame s _ r); try reflexivity; assumption.
  - destruct HW as [KW O5W RA T1 T2 P Nn Dd W2]. constructor; assumption.
Qed.

(* ================================================================ OSpCreate *)

Lemma valid_le_lat : forall s r e, Inv s -> RObsC s r -> In e (valid r) -> snd e <= vid (lat s).
Proof.
  intros s r e H HC He. destruct (ro_v1 s r HC e He) as (x & Hx & _ & Hxt).
  destruct (i_pins s H x Hx) as (_ & _ & Hle & _). rewrite <- Hxt. exact Hle.
Qed.

Lemma late_lat_nil : forall s t, keys_le (vid (lat s)) t -> flat (late (vid (lat s)) t) = [].
Proof. intros s t H. rewrite (late_nil_of_keys_le _ _ _ H (N.le_refl _)). reflexivity. Qed.

Lemma robs_sp_create_true : forall h s r, Inv s -> RObs s r -> inw s = true -> ok_new_handle h s = true ->
  dirty r = false -> (forall e, In e (valid r) -> fst e < h) ->
  RObs (sp_create h true s) (r_sp_create h s r).
Proof.
  intros h s r H HR Hw Hok Hd Hlt.
  pose proof (robs_add_pin h true s r HR Hok) as [HC HW].
  destruct HR as [HC0 HW0].
  pose proof (ok_new_handle_notin h s Hok) as Hnew.
  set (np := mkpin h (vid (lat s)) (vdata (lat s)) true).
  assert (Hpins : pins (sp_create h true s) = pins s ++ [np]) by reflexivity.
  assert (Hnp : forall x, sp_pin (sp_create h true s) (h, vid (lat s)) x -> x = np).
  { intros x (Hx & Hxh & _). rewrite Hpins in Hx. apply in_app_iff in Hx. destruct Hx as [Hx|[<-|[]]]; [|reflexivity].
    exfalso. apply Hnew. cbn [fst] in Hxh. rewrite <- Hxh. apply in_map. exact Hx. }
  assert (Hold : forall e x, In e (valid r) -> sp_pin (sp_create h true s) e x -> sp_pin (add_pin h true s) e x).
  { intros e x He (Hx & Hp). split; [|exact Hp]. rewrite Hpins in Hx. exact Hx. }
  destruct (i_keys s H) as (Kd & Ks & Ku & Kw).
  destruct (ro_b s r HC0) as [Bd Bu].
  assert (Hcc : forall p, cnt p (minus (cover_c (vid (lat s)) s) (vdata (lat s))) = 0%nat).
  { intro p. unfold cover_c. rewrite (late_lat_nil s _ Kd), (late_lat_nil s _ Ku). cnt_norm. split_matches; lia. }
  assert (Hrc : forall p, cnt p (RC (vid (lat s)) r) = 0%nat).
  { intro p. unfold RC. rewrite (late_lat_nil s _ Bd), (late_lat_nil s _ Bu). reflexivity. }
  destruct (ro_d s r HW0 Hd) as (Dsub & Drest & Dinv & Don).
  assert (Hcw : forall p, cnt p (minus (cover_w (vid (lat s)) s) (vdata (lat s))) = 0%nat).
  { intro p. unfold cover_w, eff_ufreed. rewrite Drest. rewrite (late_lat_nil s _ Kw), (late_lat_nil s _ Ku).
    specialize (Dsub p). cnt_norm. split_matches; lia. }
  split.
  - destruct HC as [V1 V2 V3 K O5 Bk U].
    constructor; unfold r_sp_create; red_rec.
    + intros e He. apply in_app_iff in He. destruct He as [He|[<-|[]]].
      * destruct (V1 e He) as (x & Hx & Hp). exists x. split; [|exact Hp]. rewrite Hpins. exact Hx.
      * exists np. split; [rewrite Hpins; apply in_app_iff; right; left; reflexivity | split; reflexivity].
    + rewrite Hpins. exact V2.
    + intros e1 e2 H1 H2 Hle. apply in_app_iff in H1. apply in_app_iff in H2.
      destruct H1 as [H1|[<-|[]]]; destruct H2 as [H2|[<-|[]]]; cbn [fst snd] in *.
      * apply V3; assumption.
      * apply (valid_le_lat s r); assumption.
      * specialize (Hlt e2 H2). lia.
      * apply N.le_refl.
    + exact K.
    + intros e x He Hp. apply in_app_iff in He. destruct He as [He|[<-|[]]].
      * apply (O5 e x He). apply Hold; assumption.
      * rewrite (Hnp x Hp). cbn [snd ppages np]. split; intros p Hp'.
        -- rewrite Hcc in Hp'. lia.
        -- rewrite Hrc in Hp'. lia.
    + exact Bk.
    + exact U.
  - destruct HW as [KW O5W RA T1 T2 P Nn Dd W2].
    constructor; unfold r_sp_create; red_rec.
    + exact KW.
    + intros e x He Hni Hp. apply in_app_iff in He. destruct He as [He|[<-|[]]].
      * apply (O5W e x He Hni). apply Hold; assumption.
      * rewrite (Hnp x Hp). cbn [snd ppages np]. intros p Hp'. rewrite Hcw in Hp'. lia.
    + exact RA.
    + exact T1.
    + intros Hf. rewrite Don in Hf. discriminate.
    + exact P.
    + intros Hf. exfalso. cbn in Hf; rewrite Hw in Hf; discriminate.
    + exact Dd.
    + intros r0 e Hr. exfalso. cbn in Hr; rewrite Drest in Hr; discriminate.
Qed.

Lemma robs_sp_create_false : forall h s r, Inv s -> RObs s r -> inw s = true -> ok_new_handle h s = true ->
  dirty r = false -> (forall e, In e (valid r) -> fst e < h) ->
  RObs (sp_create h false s) (r_sp_create h s r).
Proof.
  intros h s r H HR Hw Hok Hd Hlt.
  pose proof (robs_add_pin h false s r HR Hok) as [HC HW].
  destruct HR as [HC0 HW0].
  pose proof (ok_new_handle_notin h s Hok) as Hnew.
  set (np := mkpin h (vid (lat s)) (vdata (lat s)) false).
  assert (Hpins : pins (sp_create h false s) = pins s ++ [np]) by reflexivity.
  assert (Hnp : forall x, sp_pin (sp_create h false s) (h, vid (lat s)) x -> x = np).
  { intros x (Hx & Hxh & _). rewrite Hpins in Hx. apply in_app_iff in Hx. destruct Hx as [Hx|[<-|[]]]; [|reflexivity].
    exfalso. apply Hnew. cbn [fst] in Hxh. rewrite <- Hxh. apply in_map. exact Hx. }
  assert (Hold : forall e x, In e (valid r) -> sp_pin (sp_create h false s) e x -> sp_pin (add_pin h false s) e x).
  { intros e x He (Hx & Hp). split; [|exact Hp]. rewrite Hpins in Hx. exact Hx. }
  destruct (i_keys s H) as (Kd & Ks & Ku & Kw).
  destruct (ro_b s r HC0) as [Bd Bu].
  assert (Hcc : forall p, cnt p (minus (cover_c (vid (lat s)) s) (vdata (lat s))) = 0%nat).
  { intro p. unfold cover_c. rewrite (late_lat_nil s _ Kd), (late_lat_nil s _ Ku). cnt_norm. split_matches; lia. }
  assert (Hrc : forall p, cnt p (RC (vid (lat s)) r) = 0%nat).
  { intro p. unfold RC. rewrite (late_lat_nil s _ Bd), (late_lat_nil s _ Bu). reflexivity. }
  destruct (ro_d s r HW0 Hd) as (Dsub & Drest & Dinv & Don).
  assert (Hcw : forall p, cnt p (minus (cover_w (vid (lat s)) s) (vdata (lat s))) = 0%nat).
  { intro p. unfold cover_w, eff_ufreed. rewrite Drest. rewrite (late_lat_nil s _ Kw), (late_lat_nil s _ Ku).
    specialize (Dsub p). cnt_norm. split_matches; lia. }
  split.
  - destruct HC as [V1 V2 V3 K O5 Bk U].
    constructor; unfold r_sp_create; red_rec.
    + intros e He. apply in_app_iff in He. destruct He as [He|[<-|[]]].
      * destruct (V1 e He) as (x & Hx & Hp). exists x. split; [|exact Hp]. rewrite Hpins. exact Hx.
      * exists np. split; [rewrite Hpins; apply in_app_iff; right; left; reflexivity | split; reflexivity].
    + rewrite Hpins. exact V2.
    + intros e1 e2 H1 H2 Hle. apply in_app_iff in H1. apply in_app_iff in H2.
      destruct H1 as [H1|[<-|[]]]; destruct H2 as [H2|[<-|[]]]; cbn [fst snd] in *.
      * apply V3; assumption.
      * apply (valid_le_lat s r); assumption.
      * specialize (Hlt e2 H2). lia.
      * apply N.le_refl.
    + exact K.
    + intros e x He Hp. apply in_app_iff in He. destruct He as [He|[<-|[]]].
      * apply (O5 e x He). apply Hold; assumption.
      * rewrite (Hnp x Hp). cbn [snd ppages np]. split; intros p Hp'.
        -- rewrite Hcc in Hp'. lia.
        -- rewrite Hrc in Hp'. lia.
    + exact Bk.
    + exact U.
  - destruct HW as [KW O5W RA T1 T2 P Nn Dd W2].
    constructor; unfold r_sp_create; red_rec.
    + exact KW.
    + intros e x He Hni Hp. apply in_app_iff in He. destruct He as [He|[<-|[]]].
      * apply (O5W e x He Hni). apply Hold; assumption.
      * rewrite (Hnp x Hp). cbn [snd ppages np]. intros p Hp'. rewrite Hcw in Hp'. lia.
    + exact RA.
    + exact T1.
    + intros Hf. rewrite Don in Hf. discriminate.
    + exact P.
    + intros Hf. exfalso. cbn in Hf; rewrite Hw in Hf; discriminate.
    + exact Dd.
    + intros r0 e Hr. exfalso. cbn in Hr; rewrite Drest in Hr; discriminate.
Qed.

Lemma robs_sp_create : forall h b s r, Inv s -> RObs s r -> inw s = true -> ok_new_handle h s = true ->
  dirty r = false -> (forall e, In e (valid r) -> fst e < h) ->
  RObs (sp_create h b s) (r_sp_create h s r).
Proof. intros h b. destruct b; [apply robs_sp_create_true | apply robs_sp_create_false]. Qed.
