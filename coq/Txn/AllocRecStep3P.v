(* Allocation records: begin_write, abort, reopen. *)
From Coq Require Import List PArith NArith Bool MSets.MSetPositive Permutation Lia.
From RV Require Import Txn.PSet Txn.PSetP Txn.Own Txn.OwnP Txn.OwnStepP Txn.OwnCommitP Txn.AllocRec.
From RV Require Import Txn.AllocRecBaseP Txn.AllocRecStepP Txn.AllocRecStep2P.
Import ListNotations.
Open Scope N_scope.

Lemma arec_eta : forall r, r = mkrec (dalloc r) (ualloc r) (trk r) (trk_on r) (dirty r) (valid r) (winval r).
Proof. intros []. reflexivity. Qed.

Lemma robs_begin_write : forall s r, RObs s r -> inw s = false -> RObs (begin_write s) (r_begin_write s r).
Proof.
  intros s r [HC HW] Hw.
  destruct (ro_n s r HW Hw) as (Nt & Nw & No & Nd).
  assert (Er : r_begin_write s r = r).
  { clear - Hw Nt Nw No Nd. unfold r_begin_write, r_reset. rewrite Hw. destruct r; cbn in *. subst. reflexivity. }
  rewrite Er. unfold begin_write. rewrite Hw.
  split.
  - apply (robsC_frame s _ r); try reflexivity; assumption.
  - destruct HW as [KW O5W RA T1 T2 P Nn Dd W2]. constructor; try assumption.
    intros Hf. discriminate.
Qed.

Lemma rinv_w1_begin_write : forall s, Inv s -> inw s = false ->
  wdfreed (begin_write s) = effd (begin_write s).
Proof.
  intros s H Hw. unfold begin_write. rewrite Hw. unfold effd. cbn.
  destruct (i_norm s H Hw) as (_ & _ & _ & _ & _ & Hd & Hr & _). rewrite Hr. exact Hd.
Qed.

(* ================================================================ OAbort *)

Lemma robs_abort : forall s r, RObs s r -> RObs (abort s) (r_abort s r).
Proof.
  intros s r [HC HW].
  destruct HC as [V1 V2 V3 K O5 Bk U]. destruct HW as [KW O5W RA T1 T2 [P1 P2] Nn Dd W2].
  assert (Hpin : forall e x, In e (valid_minus (wcreated s) (valid r)) -> sp_pin (abort s) e x -> In e (valid r) /\ sp_pin s e x).
  { intros e x He (Hx & Hp). apply In_valid_minus in He. split; [tauto|]. split; [|exact Hp].
    unfold abort, reset_w in Hx. cbn [pins] in Hx. apply In_remove_pins in Hx. exact Hx. }
  split.
  - constructor; unfold r_abort; red_rec; try assumption.
    + intros e He. apply In_valid_minus in He. destruct He as [He Hn]. destruct (V1 e He) as (x & Hx & Hxh & Hxt).
      exists x. split; [|tauto]. unfold abort, reset_w. cbn [pins]. apply In_remove_pins_iff. split; [exact Hx|].
      rewrite Hxh. exact Hn.
    + unfold abort, reset_w, remove_pins. cbn [pins]. apply NoDup_map_filter. exact V2.
    + intros e1 e2 H1 H2. apply In_valid_minus in H1. apply In_valid_minus in H2. apply V3; tauto.
    + intros e x He Hp. destruct (Hpin e x He Hp) as [He' Hp']. exact (O5 e x He' Hp').
  - constructor; unfold r_abort; red_rec.
    + exact K.
    + intros e x He _ Hp. destruct (Hpin e x He Hp) as [He' Hp']. destruct (O5 e x He' Hp') as [O5a _].
      rewrite app_nil_r. exact O5a.
    + intros p Hp. reflexivity.
    + split; intros p Hp; rewrite cnt_nil in Hp; lia.
    + intros Hf. discriminate.
    + split; [|intros p Hp; reflexivity]. red_st. clear - P1 P2. pw.
    + intros _. repeat split; reflexivity.
    + intros _. repeat split; try reflexivity. red_st. intros p Hp. rewrite !cnt_app in Hp. rewrite cnt_nil in Hp. lia.
    + intros r0 e Hr. discriminate.
Qed.

(* ================================================================ OReopen *)

Lemma robs_reopen : forall s r, Inv s -> RObs s r -> ok_reopen s = true -> RObs (reopen s) (r_reopen s r).
Proof.
  intros s r H [HC HW] Hok. unfold ok_reopen in Hok. apply andb_true_iff in Hok. destruct Hok as [Hw Hp].
  apply negb_true_iff in Hw. destruct (pend s) eqn:Ep; [|discriminate]. clear Hp.
  pose proof (i_nopend s H) as Np. rewrite Ep in Np. destruct Np as [_ Hun].
  destruct HC as [V1 V2 V3 K O5 [Bd Bu] (U1 & U2 & U3)]. destruct HW as [KW O5W RA T1 T2 P Nn Dd W2].
  destruct (Nn Hw) as (Nt & Nw & No & Nd).
  assert (Hua : forall p, cnt p (flat (ualloc r)) = 0%nat).
  { intro p. specialize (U1 p). rewrite Hun in U1. rewrite cnt_nil in U1. lia. }
  assert (Hual : forall t p, cnt p (flat (late t (ualloc r))) = 0%nat).
  { intros t p. pose proof (cnt_late_le t (ualloc r) p) as Hl. rewrite Hua in Hl. lia. }
  set (f := fun e : N * N => match find_pin (fst e) (pins s) with Some x => ppersist x | None => false end).
  assert (Hpin : forall e x, In e (filter f (valid r)) -> sp_pin (reopen s) e x -> In e (valid r) /\ sp_pin s e x).
  { intros e x He (Hx & Hpp). apply filter_In in He. split; [tauto|]. split; [|exact Hpp].
    unfold reopen in Hx. cbn [pins] in Hx. apply filter_In in Hx. tauto. }
  assert (Hrec : forall e, In e (dalloc r ++ []) -> In e (dalloc r ++ ualloc r)).
  { intros e He. rewrite app_nil_r in He. apply in_app_iff. left. exact He. }
  split.
  - constructor; unfold r_reopen; red_rec; fold f.
    + intros e He. apply filter_In in He. destruct He as [He Hf]. unfold f in Hf.
      destruct (find_pin (fst e) (pins s)) as [x|] eqn:Ef; [|discriminate].
      destruct (V1 e He) as (y & Hy & Hyh & Hyt).
      pose proof (find_pin_unique _ _ y V2 Hy Hyh) as Ey. rewrite Ef in Ey. inversion Ey; subst y.
      exists x. split; [|tauto]. unfold reopen. cbn [pins]. apply filter_In. tauto.
    + unfold reopen. cbn [pins]. apply NoDup_map_filter. exact V2.
    + intros e1 e2 H1 H2. apply filter_In in H1. apply filter_In in H2. apply V3; tauto.
    + intros e He. apply (K e). apply Hrec. exact He.
    + intros e x He Hpp. destruct (Hpin e x He Hpp) as [He' Hp']. destruct (O5 e x He' Hp') as [O5a O5b].
      unfold RC in *. cbn [late filter flat map concat]. change (cover_c (snd e) (reopen s)) with (cover_c (snd e) s). split; intro p.
      * specialize (O5a p). specialize (Hual (snd e) p). rewrite !cnt_app in *. rewrite cnt_nil. lia.
      * specialize (O5b p). rewrite !cnt_app in *. rewrite cnt_nil. lia.
    + split; [exact Bd | intros e []].
    + repeat split; [intros p Hp'; rewrite cnt_nil in Hp'; lia | exact U2 | intros p Hp'; rewrite cnt_nil in Hp'; lia].
  - destruct (Dd Nd) as (Ds & Dr & _ & _).
    constructor; unfold r_reopen; red_rec; fold f.
    + intros e He. apply (KW e). apply Hrec. exact He.
    + intros e x He _ Hpp. destruct (Hpin e x He Hpp) as [He' Hp'].
      assert (Hni : ~ In (fst e) (winval r)) by (rewrite Nw; intros []).
      pose proof (O5W e x He' Hni Hp') as O5a. rewrite Nt in O5a.
      unfold RC in *. cbn [late filter flat map concat]. change (cover_w (snd e) (reopen s)) with (cover_w (snd e) s). intro p.
      specialize (O5a p). specialize (Hual (snd e) p). rewrite !cnt_app in *. rewrite !cnt_nil in *. lia.
    + intros p Hp'. apply RA. rewrite flat_app, cnt_app in *. rewrite cnt_nil in Hp'. lia.
    + split; intros p Hp'; rewrite cnt_nil in Hp'; lia.
    + intros Hf. discriminate.
    + exact P.
    + intros _. repeat split; reflexivity.
    + intros _. repeat split; try reflexivity; assumption.
    + intros r0 e Hr. exfalso. change (wrest s = Some r0) in Hr. rewrite Dr in Hr. discriminate.
Qed.
