(* Allocation records: restore.  The set the code's records produce is the set Own.restore specifies, and the
   invariant is preserved. *)
From Coq Require Import List PArith NArith Bool MSets.MSetPositive Permutation Lia.
From RV Require Import Txn.PSet Txn.PSetP Txn.Own Txn.OwnP Txn.OwnStepP Txn.OwnCommitP Txn.AllocRec.
From RV Require Import Txn.AllocRecBaseP Txn.AllocRecStepP Txn.AllocRecStep2P.
Import ListNotations.
Open Scope N_scope.

(* the situation of an admissible restore *)
Record RestoreCtx (h : N) (s : st) (r : arec) (e0 : N * N) (sp : pin) : Prop := mkRestoreCtx {
  rx_inv : Inv s;
  rx_obs : RObs s r;
  rx_inw : inw s = true;
  rx_w1 : wdfreed s = effd s;
  rx_e0 : In e0 (valid r);
  rx_h : fst e0 = h;
  rx_ni : ~ In h (winval r);
  rx_find : find_pin h (pins s) = Some sp;
  rx_t : ptxn sp = snd e0;
  rx_le : forall r0, wrest s = Some r0 -> snd e0 <= r0
}.

Lemma restore_ctx : forall h s r, Inv s -> RInv (s, r) -> inw s = true ->
  oracle_ok2 (s, r) (ORestore h) = true -> exists e0 sp, RestoreCtx h s r e0 sp.
Proof.
  intros h s r H [HR HW1] Hw Hok. cbn [fst snd] in *. unfold oracle_ok2 in Hok. cbn [fst snd oracle_ok] in Hok.
  apply andb_true_iff in Hok. destruct Hok as [Hok1 Hok2].
  apply andb_true_iff in Hok1. destruct Hok1 as [_ Hres].
  apply andb_true_iff in Hok2. destruct Hok2 as [Hv Hni].
  apply memN_spec in Hv. apply in_map_iff in Hv. destruct Hv as (e0 & Hh & He0).
  apply negb_true_iff in Hni.
  destruct HR as [HC HWo].
  destruct (ro_v1 s r HC e0 He0) as (x & Hx & Hxh & Hxt).
  pose proof (find_pin_unique (fst e0) _ x (ro_v2 s r HC) Hx Hxh) as Ef. rewrite Hh in Ef.
  exists e0, x. constructor; try assumption.
  - split; assumption.
  - apply HW1. exact Hw.
  - intros Hin. apply memN_spec in Hin. rewrite Hin in Hni. discriminate.
  - intros r0 Hr. unfold ok_restore in Hres. rewrite Ef, Hr in Hres. apply N.leb_le in Hres. rewrite <- Hxt. exact Hres.
Qed.

Section Restore.
Variables (h : N) (s : st) (r : arec) (e0 : N * N) (sp : pin).
Hypothesis CX : RestoreCtx h s r e0 sp.

Let t := snd e0.
Let S := ppages sp.
Let X := cover_w t s.
Let Q := RC t r.

Lemma rx_sp : sp_pin s e0 sp.
Proof.
  destruct CX. split; [apply find_pin_In with (h := h); assumption|]. split; [|assumption].
  rewrite rx_h0. apply (find_pin_ph h (pins s)). assumption.
Qed.

(* page-level facts of the pre-state *)
Lemma rx_facts : forall p,
  ((cnt p (minus X S) > 0)%nat -> (cnt p (Q ++ trk r) > 0)%nat) /\
  ((cnt p Q > 0)%nat -> (cnt p X > 0)%nat) /\
  ((cnt p Q > 0)%nat -> cnt p (wasc s) = 0%nat) /\
  ((cnt p Q > 0)%nat -> cnt p S = 0%nat) /\
  ((cnt p (trk r) > 0)%nat -> (cnt p (wdata s) > 0)%nat) /\
  ((cnt p (trk r) > 0)%nat -> (cnt p (wasc s) > 0)%nat) /\
  ((cnt p S > 0)%nat -> cnt p (wasc s) = 0%nat) /\
  ((cnt p (minus (cover_c t s) S) > 0)%nat -> (cnt p Q > 0)%nat) /\
  ((cnt p S > 0)%nat -> (cnt p (cover_c t s) > 0)%nat) /\
  ((cnt p Q > 0)%nat -> (cnt p (cover_c t s) > 0)%nat).
Proof.
  intro p. pose proof rx_sp as Hsp. destruct CX. destruct rx_obs0 as [HC HW].
  destruct HC as [V1 V2 V3 K O5 Bk U]. destruct HW as [KW O5W RA [T1a T1b] T2 P Nn Dd W2].
  destruct (O5 e0 sp rx_e1 Hsp) as [O5a O5b].
  assert (Hni : ~ In (fst e0) (winval r)) by (rewrite rx_h0; assumption).
  pose proof (O5W e0 sp rx_e1 Hni Hsp) as O5w.
  pose proof (RC_sub_cover_w t s r KW) as Hqx. pose proof (RC_sub_cover_c t s r K) as Hqc.
  pose proof (RC_sub_recs t r p) as Hqr.
  destruct Hsp as (Hin & _ & Ht).
  pose proof (Inv_pins_asc s rx_inv0 sp Hin) as PA.
  destruct (i_pins s rx_inv0 sp Hin) as (Pc & _). rewrite Ht in Pc.
  subst t S X Q. repeat split.
  - apply O5w.
  - apply Hqx.
  - intros Hq. apply RA. lia.
  - apply O5b.
  - apply T1a.
  - apply T1b.
  - apply PA.
  - apply O5a.
  - apply Pc.
  - apply Hqc.
Qed.

(* restore_frees_exactly, page level: the queue of Own.restore is the queue the records give, and the pages
   Own.restore frees at once are the tracker's *)
Lemma rx_queue : forall p, (cnt p (minus (minus X (wasc s)) S) > 0)%nat <-> (cnt p Q > 0)%nat.
Proof.
  intro p. destruct (rx_facts p) as (F1 & F2 & F3 & F4 & F5 & F6 & F7 & _).
  rewrite !cnt_minus in *. rewrite cnt_app in F1. split_matches; lia.
Qed.

Lemma rx_freed : forall p, (cnt p (inter X (wasc s)) > 0)%nat <-> (cnt p (trk r) > 0)%nat.
Proof.
  intro p. destruct (rx_facts p) as (F1 & F2 & F3 & F4 & F5 & F6 & F7 & _).
  assert (Hx : (cnt p (wdata s) <= cnt p X)%nat) by (subst X; unfold cover_w; rewrite !cnt_app; lia).
  rewrite cnt_inter. rewrite !cnt_minus in *. rewrite cnt_app in F1. split_matches; lia.
Qed.

(* the tables as the restored transaction sees them *)
Lemma rx_early_dfreed : early t (wdfreed s) = early t (dfreed s).
Proof.
  destruct CX. rewrite rx_w2. unfold effd. destruct (wrest s) as [r0|] eqn:E; [|reflexivity].
  apply early_early. apply rx_le0. reflexivity.
Qed.

Lemma rx_early_ufreed : early t (eff_ufreed s) = early t (ufreed s).
Proof.
  destruct CX. apply eff_early. destruct (wrest s) as [r0|] eqn:E; [|exact I]. apply rx_le0. reflexivity.
Qed.

Lemma restore_unfold : restore h s =
  mkst (minus (alloc s) (inter X (wasc s))) (lastid s) (dur s) (lat s) (dfreed s) (sfreed s) (ufreed s) (unpers s) (pca s)
       (pins s) (pend s) (inw s) S (wsys s) (minus (wasc s) (inter X (wasc s))) (minus (minus X (wasc s)) S) (wsfr s)
       (early t (wdfreed s)) (Some t) (wcreated s) (wdeleted s).
Proof. destruct CX. unfold restore. rewrite rx_find0. subst t S X. rewrite rx_t0. reflexivity. Qed.

(* after the restore the working cover of every key a <= t is the committed cover *)
Lemma rx_cover : forall a p, a <= t ->
  ((cnt p (cover_w a (restore h s)) > 0)%nat <-> (cnt p (cover_c a s) > 0)%nat).
Proof.
  intros a p Ha. rewrite restore_unfold.
  destruct (rx_facts p) as (F1 & F2 & F3 & F4 & F5 & F6 & F7 & F8 & F9 & F10).
  pose proof (rx_queue p) as Hq.
  pose proof (cover_c_mono a t s p Ha) as Hm.
  unfold cover_w, eff_ufreed. cbn [wdata wdfr wdfreed wrest ufreed].
  rewrite rx_early_dfreed.
  unfold cover_c in *.
  pose proof (cnt_late_early a t p (dfreed s) Ha) as Hd. pose proof (cnt_late_early a t p (ufreed s) Ha) as Hu.
  rewrite !cnt_app in *. rewrite cnt_minus in F8. rewrite !cnt_app in F8. split_matches; lia.
Qed.
End Restore.

Lemma robs_restore : forall h s r e0 sp, RestoreCtx h s r e0 sp -> RObs (restore h s) (r_restore h s r).
Proof.
  intros h s r e0 sp CX.
  pose proof (rx_sp h s r e0 sp CX) as Hsp.
  pose proof (restore_unfold h s r e0 sp CX) as EU.
  pose proof CX as CX'. destruct CX' as [H [HC HW] Hinw W1 He0 Hh Hni Hf Ht Hle].
  set (t := snd e0) in *.
  assert (Er : r_restore h s r = mkrec (dalloc r) (ualloc r) [] (trk_on r) true (valid r) (winval r ++ later_valid h (valid r))).
  { unfold r_restore. rewrite Hf. reflexivity. }
  rewrite Er.
  assert (Hle_t : forall e, In e (valid r) -> ~ In (fst e) (winval r ++ later_valid h (valid r)) -> snd e <= t).
  { intros e He Hn. apply (ro_v3 s r HC e e0 He He0). rewrite Hh.
    destruct (N.le_gt_cases (fst e) h) as [Hl|Hg]; [exact Hl|]. exfalso. apply Hn. apply in_app_iff. right.
    apply In_later_valid. exists e. repeat split; assumption. }
  split.
  - apply (robsC_frame s _ r); try (rewrite EU; reflexivity); try reflexivity. exact HC.
  - destruct HC as [V1 V2 V3 K O5 Bk U]. destruct HW as [KW O5W RA [T1a T1b] T2 [P1 P2] Nn Dd W2].
    assert (Hpin : forall e x, sp_pin (restore h s) e x -> sp_pin s e x).
    { intros e x Hp. rewrite EU in Hp. exact Hp. }
    constructor; cbn [dalloc ualloc trk trk_on dirty valid winval].
    + (* records within the working cover *)
      intros e He p Hp. destruct (N.le_gt_cases (fst e) t) as [Hl|Hg].
      * apply (rx_cover h s r e0 sp CX (fst e) p Hl). exact (K e He p Hp).
      * assert (Hq : (cnt p (RC t r) > 0)%nat) by (apply cnt_RC_pos; exists e; repeat split; assumption).
        apply (rx_queue h s r e0 sp CX p) in Hq. rewrite EU. unfold cover_w in *. cbn [wdata wdfr wdfreed]. rewrite !cnt_app. unfold t in *. lia.
    + (* O5, working view, for the savepoints that stay usable in this transaction *)
      intros e x He Hn Hp. apply Hpin in Hp. specialize (Hle_t e He Hn).
      destruct (O5 e x He Hp) as [O5a _]. intros p Hp'. rewrite app_nil_r. apply O5a.
      rewrite cnt_minus in *. destruct (cnt p (ppages x)); [|lia].
      apply (rx_cover h s r e0 sp CX (snd e) p Hle_t). exact Hp'.
    + rewrite EU. cbn [wasc]. unfold recs in *. cbn [dalloc ualloc] in *. clear - RA. pw.
    + split; intros p Hp; rewrite cnt_nil in Hp; lia.
    + intros Hoff. destruct (T2 Hoff) as (Hv & _). rewrite Hv in He0. destruct He0.
    + rewrite EU. cbn [pca alloc wasc]. split; clear - P1 P2; pw.
    + intros Hw. rewrite EU in Hw. cbn [inw] in Hw. rewrite Hinw in Hw. discriminate.
    + intros Hd. discriminate.
    + intros r0 e Hr He Hn. rewrite EU in Hr. cbn [wrest] in Hr. inversion Hr; subst r0. apply Hle_t; assumption.
Qed.

Lemma rinv_w1_restore : forall h s r e0 sp, RestoreCtx h s r e0 sp -> wdfreed (restore h s) = effd (restore h s).
Proof.
  intros h s r e0 sp CX. rewrite (restore_unfold h s r e0 sp CX). unfold effd. cbn [wdfreed wrest dfreed].
  apply (rx_early_dfreed h s r e0 sp CX).
Qed.

(* restore_frees_exactly: what the code's records produce IS what Own.restore specifies *)
Lemma restore_rec_exact : forall h s r e0 sp, RestoreCtx h s r e0 sp -> st_eqv (restore_rec h s r) (restore h s).
Proof.
  intros h s r e0 sp CX. rewrite (restore_unfold h s r e0 sp CX).
  destruct CX as [H HR Hinw W1 He0 Hh Hni Hf Ht Hle] eqn:ECX. clear ECX.
  unfold restore_rec, restore_rec_gen. rewrite Hf. rewrite Ht.
  pose proof (rx_freed h s r e0 sp (mkRestoreCtx h s r e0 sp H HR Hinw W1 He0 Hh Hni Hf Ht Hle)) as Hfr.
  pose proof (rx_queue h s r e0 sp (mkRestoreCtx h s r e0 sp H HR Hinw W1 He0 Hh Hni Hf Ht Hle)) as Hq.
  unfold st_eqv. cbn [alloc lastid dur lat dfreed sfreed ufreed unpers pca pins pend inw wdata wsys wasc wdfr wsfr
    wdfreed wrest wcreated wdeleted].
  repeat split; try reflexivity.
  all: try (intros Hp; apply In_cnt in Hp; apply In_cnt).
  - specialize (Hfr p). rewrite !cnt_minus in *. split_matches; lia.
  - specialize (Hfr p). rewrite !cnt_minus in *. split_matches; lia.
  - specialize (Hfr p). rewrite !cnt_minus in *. split_matches; lia.
  - specialize (Hfr p). rewrite !cnt_minus in *. split_matches; lia.
  - apply Hq. exact Hp.
  - apply Hq. exact Hp.
Qed.
