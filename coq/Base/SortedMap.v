(* SortedMap -- the specification object for ordered tables (C04, C09, C18, ...).
   An ordered map is an association list sorted strictly by an abstract comparison `cmp`
   (laws: record OrderLaws below; they are hypotheses of the lemmas in SortedMapP.v, never axioms).
   Definitions only; every function is total and executable.  Proofs: SortedMapP.v.

   Semantics follow the redb table API:
     get / insert (returns old value) / remove (returns old value) / range with any Bound pair,
     forward, backward and double-ended consumption / first / last / pop_first / pop_last / len /
     retain / retain_in / extract_if / extract_from_if (lazy, double-ended: only yielded entries are removed) /
     gap cursor (zipper) with peek/next/prev/insert_before/insert_after/remove_next/remove_prev. *)
From Coq Require Import List NArith Bool Sorted.
Import ListNotations.

Inductive bound (K : Type) : Type :=
| Unbounded
| Included (k : K)
| Excluded (k : K).
Arguments Unbounded {K}.
Arguments Included {K} k.
Arguments Excluded {K} k.

Record OrderLaws {K : Type} (cmp : K -> K -> comparison) : Prop := {
  cmp_eq : forall a b, cmp a b = Eq -> a = b;
  cmp_refl : forall a, cmp a a = Eq;
  cmp_antisym : forall a b, cmp b a = CompOpp (cmp a b);
  cmp_trans : forall a b c, cmp a b = Lt -> cmp b c = Lt -> cmp a c = Lt
}.

(* generic list helpers (kept here so that the spec is self-contained) *)
Section ListHelpers.
  Context {A : Type}.
  Fixpoint take_while (f : A -> bool) (l : list A) : list A :=
    match l with
    | [] => []
    | x :: r => if f x then x :: take_while f r else []
    end.
  Fixpoint drop_while (f : A -> bool) (l : list A) : list A :=
    match l with
    | [] => []
    | x :: r => if f x then drop_while f r else l
    end.
  Fixpoint last_opt (l : list A) : option A :=
    match l with
    | [] => None
    | [x] => Some x
    | _ :: r => last_opt r
    end.
End ListHelpers.

Section SortedMap.
  Context {K V : Type}.
  Variable cmp : K -> K -> comparison.

  Definition map := list (K * V).

  Definition klt (a b : K) : bool := match cmp a b with Lt => true | _ => false end.
  Definition kle (a b : K) : bool := match cmp a b with Gt => false | _ => true end.
  Definition keq (a b : K) : bool := match cmp a b with Eq => true | _ => false end.

  (* strictly increasing keys *)
  Fixpoint sortedb (m : map) : bool :=
    match m with
    | [] => true
    | (k, _) :: r =>
        match r with
        | [] => true
        | (k', _) :: _ => klt k k' && sortedb r
        end
    end.

  Definition sorted (m : map) : Prop :=
    StronglySorted (fun a b => cmp (fst a) (fst b) = Lt) m.

  (* ---------------------------------------------------------------- point operations *)
  Fixpoint get (m : map) (k : K) : option V :=
    match m with
    | [] => None
    | (k', v) :: r => match cmp k k' with Eq => Some v | _ => get r k end
    end.

  Fixpoint insert (m : map) (k : K) (v : V) : map :=
    match m with
    | [] => [(k, v)]
    | (k', v') :: r =>
        match cmp k k' with
        | Lt => (k, v) :: m
        | Eq => (k, v) :: r
        | Gt => (k', v') :: insert r k v
        end
    end.

  Fixpoint remove (m : map) (k : K) : map :=
    match m with
    | [] => []
    | (k', v') :: r =>
        match cmp k k' with
        | Eq => r
        | _ => (k', v') :: remove r k
        end
    end.

  Definition contains (m : map) (k : K) : bool :=
    match get m k with Some _ => true | None => false end.

  (* ---------------------------------------------------------------- ranges *)
  Definition above_lower (lo : bound K) (k : K) : bool :=
    match lo with
    | Unbounded => true
    | Included b => kle b k
    | Excluded b => klt b k
    end.

  Definition below_upper (hi : bound K) (k : K) : bool :=
    match hi with
    | Unbounded => true
    | Included b => kle k b
    | Excluded b => klt k b
    end.

  Definition in_range (lo hi : bound K) (k : K) : bool :=
    above_lower lo k && below_upper hi k.

  (* redb: bounds_are_empty -- reversed or empty bound pairs select nothing (never an error) *)
  Definition bounds_empty (lo hi : bound K) : bool :=
    match lo, hi with
    | Unbounded, _ | _, Unbounded => false
    | Included s, Included e => match cmp s e with Gt => true | _ => false end
    | Included s, Excluded e | Excluded s, Included e | Excluded s, Excluded e =>
        match cmp s e with Lt => false | _ => true end
    end.

  Definition range (m : map) (lo hi : bound K) : map :=
    filter (fun e => in_range lo hi (fst e)) m.

  Definition range_rev (m : map) (lo hi : bound K) : map := rev (range m lo hi).

  (* double-ended consumption of a range: the iterator state is the list of entries not yet yielded *)
  Definition iter_next (it : map) : option (K * V) * map :=
    match it with
    | [] => (None, [])
    | e :: r => (Some e, r)
    end.

  Definition iter_next_back (it : map) : option (K * V) * map :=
    (last_opt it, removelast it).

  (* ---------------------------------------------------------------- ends *)
  Definition first (m : map) : option (K * V) := hd_error m.
  Definition last (m : map) : option (K * V) := last_opt m.
  Definition pop_first (m : map) : option (K * V) * map := iter_next m.
  Definition pop_last (m : map) : option (K * V) * map := iter_next_back m.
  Definition len (m : map) : N := N.of_nat (length m).
  Definition is_empty (m : map) : bool := match m with [] => true | _ => false end.

  (* ---------------------------------------------------------------- bulk removal *)
  (* retain: entries for which the predicate is false are removed *)
  Definition retain (p : K -> V -> bool) (m : map) : map :=
    filter (fun e => p (fst e) (snd e)) m.

  Definition retain_in (lo hi : bound K) (p : K -> V -> bool) (m : map) : map :=
    filter (fun e => negb (in_range lo hi (fst e)) || p (fst e) (snd e)) m.

  (* extract_if / extract_from_if: a lazy double-ended iterator.  The window `x_mid` holds the
     in-range entries not yet tested; entries tested and rejected move to x_pre (front end) or
     x_post (back end) and stay in the map; entries tested and accepted are yielded and removed. *)
  Record ext_state : Type := mk_ext { x_pre : map; x_mid : map; x_post : map }.

  Definition ext_begin (m : map) (lo hi : bound K) : ext_state :=
    let nb := fun e : K * V => negb (above_lower lo (fst e)) in
    let bu := fun e : K * V => below_upper hi (fst e) in
    let rest := drop_while nb m in
    mk_ext (take_while nb m) (take_while bu rest) (drop_while bu rest).

  Definition ext_next (p : K -> V -> bool) (st : ext_state) : option (K * V) * ext_state :=
    let np := fun e : K * V => negb (p (fst e) (snd e)) in
    let skipped := take_while np (x_mid st) in
    match drop_while np (x_mid st) with
    | e :: rest => (Some e, mk_ext (x_pre st ++ skipped) rest (x_post st))
    | [] => (None, mk_ext (x_pre st ++ skipped) [] (x_post st))
    end.

  Definition ext_next_back (p : K -> V -> bool) (st : ext_state) : option (K * V) * ext_state :=
    let np := fun e : K * V => negb (p (fst e) (snd e)) in
    let rmid := rev (x_mid st) in
    let skipped := rev (take_while np rmid) in
    match drop_while np rmid with
    | e :: rest => (Some e, mk_ext (x_pre st) (rev rest) (skipped ++ x_post st))
    | [] => (None, mk_ext (x_pre st) [] (skipped ++ x_post st))
    end.

  (* dropping / closing the iterator: untested entries stay *)
  Definition ext_finish (st : ext_state) : map := x_pre st ++ x_mid st ++ x_post st.

  (* a consumption script: true = next(), false = next_back() *)
  Fixpoint ext_run (p : K -> V -> bool) (script : list bool) (st : ext_state)
    : list (option (K * V)) * ext_state :=
    match script with
    | [] => ([], st)
    | front :: r =>
        let '(o, st') := if front then ext_next p st else ext_next_back p st in
        let '(os, st'') := ext_run p r st' in
        (o :: os, st'')
    end.

  Definition extract_script (m : map) (lo hi : bound K) (p : K -> V -> bool) (script : list bool)
    : list (option (K * V)) * map :=
    let '(os, st) := ext_run p script (ext_begin m lo hi) in (os, ext_finish st).

  (* full consumption from the front = classic drain_filter on the range *)
  Definition extract_all (m : map) (lo hi : bound K) (p : K -> V -> bool) : map * map :=
    (filter (fun e => in_range lo hi (fst e) && p (fst e) (snd e)) m,
     filter (fun e => negb (in_range lo hi (fst e) && p (fst e) (snd e))) m).

  (* ---------------------------------------------------------------- gap cursor (zipper) *)
  (* c_before is stored REVERSED: its head is the entry just before the gap. *)
  Record cursor : Type := mk_cursor { c_before : map; c_after : map }.

  Definition cursor_map (c : cursor) : map := rev (c_before c) ++ c_after c.

  (* lower_bound: gap before the smallest key >= (Included) / > (Excluded) the bound; Unbounded = start *)
  Definition seek_lower (m : map) (b : bound K) : cursor :=
    let f := fun e : K * V => negb (above_lower b (fst e)) in
    mk_cursor (rev (take_while f m)) (drop_while f m).

  (* upper_bound: gap after the greatest key <= (Included) / < (Excluded) the bound; Unbounded = end *)
  Definition seek_upper (m : map) (b : bound K) : cursor :=
    let f := fun e : K * V => below_upper b (fst e) in
    mk_cursor (rev (take_while f m)) (drop_while f m).

  Definition peek_next (c : cursor) : option (K * V) := hd_error (c_after c).
  Definition peek_prev (c : cursor) : option (K * V) := hd_error (c_before c).

  Definition move_next (c : cursor) : option (K * V) * cursor :=
    match c_after c with
    | [] => (None, c)
    | e :: r => (Some e, mk_cursor (e :: c_before c) r)
    end.

  Definition move_prev (c : cursor) : option (K * V) * cursor :=
    match c_before c with
    | [] => (None, c)
    | e :: r => (Some e, mk_cursor r (e :: c_after c))
    end.

  (* the key fits the gap iff it sorts strictly between the neighbours *)
  Definition gap_accepts (c : cursor) (k : K) : bool :=
    match peek_prev c with Some (p, _) => klt p k | None => true end &&
    match peek_next c with Some (n, _) => klt k n | None => true end.

  (* insert_before: the new entry ends up BEFORE the gap (cursor stays after it) *)
  Definition insert_before (c : cursor) (k : K) (v : V) : bool * cursor :=
    if gap_accepts c k then (true, mk_cursor ((k, v) :: c_before c) (c_after c)) else (false, c).

  (* insert_after: the new entry ends up AFTER the gap *)
  Definition insert_after (c : cursor) (k : K) (v : V) : bool * cursor :=
    if gap_accepts c k then (true, mk_cursor (c_before c) ((k, v) :: c_after c)) else (false, c).

  Definition remove_next (c : cursor) : option (K * V) * cursor :=
    match c_after c with
    | [] => (None, c)
    | e :: r => (Some e, mk_cursor (c_before c) r)
    end.

  Definition remove_prev (c : cursor) : option (K * V) * cursor :=
    match c_before c with
    | [] => (None, c)
    | e :: r => (Some e, mk_cursor r (c_after c))
    end.

  (* cursor scripts: what the cursor API returns, step by step *)
  Inductive cursor_op : Type :=
  | CPeekNext
  | CPeekPrev
  | CNext
  | CPrev
  | CInsertBefore (k : K) (v : V)
  | CInsertAfter (k : K) (v : V)
  | CRemoveNext
  | CRemovePrev.

  Inductive cursor_out : Type :=
  | CEntry (e : option (K * V))
  | CAccepted (b : bool).

  Definition cursor_step (c : cursor) (o : cursor_op) : cursor_out * cursor :=
    match o with
    | CPeekNext => (CEntry (peek_next c), c)
    | CPeekPrev => (CEntry (peek_prev c), c)
    | CNext => let '(e, c') := move_next c in (CEntry e, c')
    | CPrev => let '(e, c') := move_prev c in (CEntry e, c')
    | CInsertBefore k v => let '(b, c') := insert_before c k v in (CAccepted b, c')
    | CInsertAfter k v => let '(b, c') := insert_after c k v in (CAccepted b, c')
    | CRemoveNext => let '(e, c') := remove_next c in (CEntry e, c')
    | CRemovePrev => let '(e, c') := remove_prev c in (CEntry e, c')
    end.

  Fixpoint cursor_script (ops : list cursor_op) (c : cursor) : list cursor_out * cursor :=
    match ops with
    | [] => ([], c)
    | o :: r =>
        let '(x, c') := cursor_step c o in
        let '(xs, c'') := cursor_script r c' in
        (x :: xs, c'')
    end.

  (* ---------------------------------------------------------------- read queries and programs *)
  Inductive query : Type :=
  | QGet (k : K)
  | QRange (lo hi : bound K)
  | QRangeRev (lo hi : bound K)
  | QFirst
  | QLast
  | QLen.

  Inductive out : Type :=
  | OVal (v : option V)
  | OEntry (e : option (K * V))
  | OList (l : list (K * V))
  | ONum (n : N)
  | OUnit.

  Definition run_query (m : map) (q : query) : out :=
    match q with
    | QGet k => OVal (get m k)
    | QRange lo hi => OList (range m lo hi)
    | QRangeRev lo hi => OList (range_rev m lo hi)
    | QFirst => OEntry (first m)
    | QLast => OEntry (last m)
    | QLen => ONum (len m)
    end.

  Inductive op : Type :=
  | OpQuery (q : query)
  | OpInsert (k : K) (v : V)
  | OpRemove (k : K)
  | OpPopFirst
  | OpPopLast
  | OpRetain (p : K -> V -> bool)
  | OpRetainIn (lo hi : bound K) (p : K -> V -> bool)
  | OpExtract (lo hi : bound K) (p : K -> V -> bool) (script : list bool).

  Definition apply_op (m : map) (o : op) : out * map :=
    match o with
    | OpQuery q => (run_query m q, m)
    | OpInsert k v => (OVal (get m k), insert m k v)
    | OpRemove k => (OVal (get m k), remove m k)
    | OpPopFirst => let '(e, m') := pop_first m in (OEntry e, m')
    | OpPopLast => let '(e, m') := pop_last m in (OEntry e, m')
    | OpRetain p => (OUnit, retain p m)
    | OpRetainIn lo hi p => (OUnit, retain_in lo hi p m)
    | OpExtract lo hi p script =>
        let '(os, m') := extract_script m lo hi p script in
        (OList (flat_map (fun o => match o with Some e => [e] | None => [] end) os), m')
    end.

  Fixpoint run (ops : list op) (m : map) : list out * map :=
    match ops with
    | [] => ([], m)
    | o :: r =>
        let '(x, m') := apply_op m o in
        let '(xs, m'') := run r m' in
        (x :: xs, m'')
    end.

End SortedMap.

Arguments mk_ext {K V}.
Arguments mk_cursor {K V}.
