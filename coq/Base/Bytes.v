(* Bytes as lists of N (each < 256 where it matters), little-endian integer codecs, lexicographic order. *)
From Coq Require Export List NArith ZArith Lia Bool.
Export ListNotations.
Open Scope N_scope.

Definition byte := N.
Definition bytes := list N.

Definition is_byte (b : N) : bool := b <? 256.
Definition all_bytes (l : bytes) : bool := forallb is_byte l.

(* little-endian encoding of n in exactly w bytes (n mod 256^w) *)
Fixpoint le_encode (w : nat) (n : N) : bytes :=
  match w with
  | O => []
  | S w' => (n mod 256) :: le_encode w' (n / 256)
  end.

Fixpoint le_decode (l : bytes) : N :=
  match l with
  | [] => 0
  | b :: r => b + 256 * le_decode r
  end.

(* lexicographic comparison of byte strings: Rust's <[u8] as Ord>::cmp *)
Fixpoint lex_cmp (a b : bytes) : comparison :=
  match a, b with
  | [], [] => Eq
  | [], _ :: _ => Lt
  | _ :: _, [] => Gt
  | x :: a', y :: b' =>
      match x ?= y with
      | Eq => lex_cmp a' b'
      | c => c
      end
  end.

Fixpoint common_prefix_len (a b : bytes) : nat :=
  match a, b with
  | x :: a', y :: b' => if x =? y then S (common_prefix_len a' b') else O
  | _, _ => O
  end.
