From RV Require Import Base.Bytes.
Open Scope N_scope.

Lemma le_encode_length w n : length (le_encode w n) = w.
Proof. revert n; induction w as [|w IH]; intros n; cbn [le_encode length]; [reflexivity|]. now rewrite IH. Qed.

Lemma le_decode_encode w n : n < 256 ^ N.of_nat w -> le_decode (le_encode w n) = n.
Proof.
  revert n; induction w as [|w IH]; intros n Hn.
  - cbn in *. lia.
  - cbn [le_encode le_decode].
    rewrite IH.
    + pose proof (N.div_mod n 256). lia.
    + rewrite Nat2N.inj_succ, N.pow_succ_r' in Hn.
      apply N.div_lt_upper_bound; lia.
Qed.

Lemma le_encode_all_bytes w n : all_bytes (le_encode w n) = true.
Proof.
  revert n; induction w as [|w IH]; intros n; cbn [le_encode all_bytes forallb]; [reflexivity|].
  apply andb_true_iff; split; [|apply IH].
  unfold is_byte. apply N.ltb_lt. apply N.mod_lt. lia.
Qed.

Lemma lex_cmp_refl a : lex_cmp a a = Eq.
Proof. induction a as [|x a IH]; cbn; [reflexivity|]. now rewrite N.compare_refl. Qed.

Lemma lex_cmp_eq a b : lex_cmp a b = Eq -> a = b.
Proof.
  revert b; induction a as [|x a IH]; intros [|y b]; cbn; try discriminate; [reflexivity|].
  destruct (x ?= y) eqn:E; try discriminate. intros H.
  apply N.compare_eq in E. subst. f_equal. now apply IH.
Qed.

Lemma lex_cmp_antisym a b : lex_cmp b a = CompOpp (lex_cmp a b).
Proof.
  revert b; induction a as [|x a IH]; intros [|y b]; cbn; try reflexivity.
  rewrite (N.compare_antisym x y). destruct (x ?= y); cbn; auto.
Qed.

Lemma lex_cmp_trans_lt a b c : lex_cmp a b = Lt -> lex_cmp b c = Lt -> lex_cmp a c = Lt.
Proof.
  revert b c; induction a as [|x a IH]; intros [|y b] [|z c]; cbn; try discriminate; try reflexivity.
  destruct (x ?= y) eqn:E1; try discriminate; destruct (y ?= z) eqn:E2; try discriminate; intros H1 H2.
  - apply N.compare_eq in E1, E2; subst. rewrite N.compare_refl. eauto.
  - apply N.compare_eq in E1; subst. now rewrite E2.
  - apply N.compare_eq in E2; subst. now rewrite E1.
  - rewrite N.compare_lt_iff in *. assert (x < z) by lia. rewrite <- N.compare_lt_iff in H. now rewrite H.
Qed.
