(* Proofs about the SortedMap specification object. All lemmas are inside a Section whose
   hypothesis is `OrderLaws cmp`; closed statements therefore carry it as an explicit premise. *)
From Coq Require Import List NArith Bool Sorted Lia Permutation.
From RV Require Import Base.SortedMap.
Import ListNotations.

Section ListHelpersP.
  Context {A : Type}.
  Lemma take_drop_while (f : A -> bool) l : take_while f l ++ drop_while f l = l.
  Proof. induction l as [|x l IH]; cbn; [reflexivity|]. destruct (f x); cbn; [now rewrite IH|reflexivity]. Qed.

  Lemma take_while_Forall (f : A -> bool) l : Forall (fun x => f x = true) (take_while f l).
  Proof. induction l as [|x l IH]; cbn; [constructor|]. destruct (f x) eqn:E; constructor; auto. Qed.

  Lemma drop_while_head (f : A -> bool) l x r : drop_while f l = x :: r -> f x = false.
  Proof.
    induction l as [|y l IH]; cbn; [discriminate|]. destruct (f y) eqn:E; auto.
    intros H; inversion H; subst; auto.
  Qed.

  Lemma take_while_all (f : A -> bool) l : Forall (fun x => f x = true) l -> take_while f l = l /\ drop_while f l = [].
  Proof. induction 1 as [|x l Hx _ [IH1 IH2]]; cbn; [auto|]. rewrite Hx, IH1, IH2; auto. Qed.

  Lemma take_while_app_stop (f : A -> bool) l1 x l2 :
    Forall (fun x => f x = true) l1 -> f x = false ->
    take_while f (l1 ++ x :: l2) = l1 /\ drop_while f (l1 ++ x :: l2) = x :: l2.
  Proof. induction 1 as [|y l Hy _ IH]; cbn; intros Hx; [now rewrite Hx|]. rewrite Hy. destruct (IH Hx) as [-> ->]; auto. Qed.

  Lemma last_opt_app (l : list A) x : last_opt (l ++ [x]) = Some x.
  Proof. induction l as [|y l IH]; cbn; [reflexivity|]. destruct (l ++ [x]) eqn:E; [destruct l; discriminate|]. exact IH. Qed.

  Lemma removelast_last_opt (l : list A) : l <> [] -> exists x, last_opt l = Some x /\ l = removelast l ++ [x].
  Proof.
    intros H. destruct (exists_last H) as [l' [x ->]]. exists x. rewrite last_opt_app, removelast_last. auto.
  Qed.

  Lemma last_opt_none (l : list A) : last_opt l = None -> l = [].
  Proof. destruct l as [|x l]; [reflexivity|]. intros H. destruct (@removelast_last_opt (x :: l)) as [y [E _]]; congruence. Qed.

  Lemma filter_Forall_id (f : A -> bool) l : Forall (fun x => f x = true) l -> filter f l = l.
  Proof. induction 1 as [|x l Hx _ IH]; cbn; [reflexivity|]. now rewrite Hx, IH. Qed.

  Lemma filter_Forall_nil (f : A -> bool) l : Forall (fun x => f x = false) l -> filter f l = [].
  Proof. induction 1 as [|x l Hx _ IH]; cbn; [reflexivity|]. now rewrite Hx, IH. Qed.

  Lemma StronglySorted_filter (R : A -> A -> Prop) (f : A -> bool) l : StronglySorted R l -> StronglySorted R (filter f l).
  Proof.
    induction 1 as [|x l Hs IH Hx]; cbn; [constructor|].
    destruct (f x); auto. constructor; auto.
    rewrite Forall_forall in *. intros y Hy. apply filter_In in Hy as [Hy _]. auto.
  Qed.

  Lemma StronglySorted_app_inv (R : A -> A -> Prop) l1 l2 :
    StronglySorted R (l1 ++ l2) ->
    StronglySorted R l1 /\ StronglySorted R l2 /\ (forall x y, In x l1 -> In y l2 -> R x y).
  Proof.
    induction l1 as [|a l1 IH]; cbn; intros H.
    - split; [constructor|]. split; [exact H|]. intros ? ? [].
    - inversion H as [|? ? Hs Hf]; subst. destruct (IH Hs) as (H1 & H2 & H3).
      rewrite Forall_app in Hf. destruct Hf as [Hf1 Hf2].
      repeat split; auto.
      + constructor; auto.
      + intros x y [->|Hx] Hy; [rewrite Forall_forall in Hf2; auto|auto].
  Qed.

  Lemma StronglySorted_app (R : A -> A -> Prop) l1 l2 :
    StronglySorted R l1 -> StronglySorted R l2 -> (forall x y, In x l1 -> In y l2 -> R x y) ->
    StronglySorted R (l1 ++ l2).
  Proof.
    induction 1 as [|a l1 Hs IH Hf]; cbn; intros H2 H3; [exact H2|].
    constructor.
    - apply IH; auto.
    - rewrite Forall_app; split; [exact Hf|]. rewrite Forall_forall. intros y Hy. apply H3; cbn; auto.
  Qed.
End ListHelpersP.

Section SortedMapP.
  Context {K V : Type}.
  Variable cmp : K -> K -> comparison.
  Hypothesis laws : OrderLaws cmp.

  Notation map := (@map K V).
  Notation sorted := (@sorted K V cmp).
  Notation get := (@get K V cmp).
  Notation insert := (@insert K V cmp).
  Notation remove := (@remove K V cmp).
  Notation klt := (klt cmp).
  Notation kle := (kle cmp).
  Implicit Types (m l : map) (e : K * V) (k : K) (v : V) (lo hi : bound K) (p : K -> V -> bool).

  (* ------------------------------------------------------------ order facts *)
  Lemma cmp_gt_lt a b : cmp a b = Gt <-> cmp b a = Lt.
  Proof. rewrite (cmp_antisym _ laws b a). destruct (cmp b a); cbn; split; congruence. Qed.

  Lemma cmp_lt_gt a b : cmp a b = Lt <-> cmp b a = Gt.
  Proof. rewrite (cmp_antisym _ laws b a). destruct (cmp b a); cbn; split; congruence. Qed.

  Lemma cmp_eq_iff a b : cmp a b = Eq <-> a = b.
  Proof. split; [apply (cmp_eq _ laws)|intros ->; apply (cmp_refl _ laws)]. Qed.

  Lemma cmp_lt_irrefl a : cmp a a <> Lt.
  Proof. rewrite (cmp_refl _ laws). discriminate. Qed.

  Lemma cmp_le_lt_trans a b c : cmp a b <> Gt -> cmp b c = Lt -> cmp a c = Lt.
  Proof.
    intros H1 H2. destruct (cmp a b) eqn:E; try congruence.
    - apply cmp_eq_iff in E; now subst.
    - eapply (cmp_trans _ laws); eauto.
  Qed.

  Lemma cmp_lt_le_trans a b c : cmp a b = Lt -> cmp b c <> Gt -> cmp a c = Lt.
  Proof.
    intros H1 H2. destruct (cmp b c) eqn:E; try congruence.
    - apply cmp_eq_iff in E; now subst.
    - eapply (cmp_trans _ laws); eauto.
  Qed.

  Lemma cmp_le_trans a b c : cmp a b <> Gt -> cmp b c <> Gt -> cmp a c <> Gt.
  Proof.
    intros H1 H2. destruct (cmp a b) eqn:E; try congruence.
    - apply cmp_eq_iff in E; now subst.
    - rewrite (cmp_lt_le_trans a b c E H2). discriminate.
  Qed.

  Lemma klt_iff a b : klt a b = true <-> cmp a b = Lt.
  Proof. unfold SortedMap.klt. destruct (cmp a b); split; congruence. Qed.

  Lemma kle_iff a b : kle a b = true <-> cmp a b <> Gt.
  Proof. unfold SortedMap.kle. destruct (cmp a b); split; congruence. Qed.

  Lemma klt_false_iff a b : klt a b = false <-> cmp b a <> Gt.
  Proof.
    unfold SortedMap.klt. rewrite (cmp_antisym _ laws a b). destruct (cmp a b); cbn; split; congruence.
  Qed.

  Lemma kle_false_iff a b : kle a b = false <-> cmp b a = Lt.
  Proof.
    unfold SortedMap.kle. rewrite (cmp_antisym _ laws a b). destruct (cmp a b); cbn; split; congruence.
  Qed.

  (* ------------------------------------------------------------ sortedness *)
  Definition keys_lt (k : K) (m : map) : Prop := Forall (fun e => cmp k (fst e) = Lt) m.
  Definition keys_gt (k : K) (m : map) : Prop := Forall (fun e => cmp (fst e) k = Lt) m.

  Lemma sorted_nil : sorted [].
  Proof. constructor. Qed.

  Lemma sorted_cons_inv e m : sorted (e :: m) -> sorted m /\ keys_lt (fst e) m.
  Proof. intros H. inversion H; subst. split; assumption. Qed.

  Lemma sorted_cons e m : sorted m -> keys_lt (fst e) m -> sorted (e :: m).
  Proof. intros. constructor; assumption. Qed.

  Lemma sortedb_sound m : sortedb cmp m = true -> sorted m.
  Proof.
    induction m as [|[k v] m IH]; [constructor|].
    cbn [sortedb]. destruct m as [|[k' v'] m'].
    - intros _. constructor; constructor.
    - intros H. apply andb_true_iff in H as [H1 H2]. apply klt_iff in H1.
      specialize (IH H2). constructor; [exact IH|].
      constructor; [exact H1|].
      apply sorted_cons_inv in IH as [_ IH]. cbn in IH.
      eapply Forall_impl; [|exact IH]. cbn. intros e He. eapply (cmp_trans _ laws); eauto.
  Qed.

  Lemma sortedb_complete m : sorted m -> sortedb cmp m = true.
  Proof.
    induction m as [|[k v] m IH]; [reflexivity|].
    intros H. apply sorted_cons_inv in H as [H1 H2]. cbn [sortedb].
    destruct m as [|[k' v'] m']; [reflexivity|].
    apply andb_true_iff. split; [|auto].
    apply klt_iff. inversion H2; subst; assumption.
  Qed.

  Lemma sorted_app_inv (m1 m2 : map) : sorted (m1 ++ m2) ->
    sorted m1 /\ sorted m2 /\ (forall a b, In a m1 -> In b m2 -> cmp (fst a) (fst b) = Lt).
  Proof. apply StronglySorted_app_inv. Qed.

  Lemma sorted_app (m1 m2 : map) : sorted m1 -> sorted m2 ->
    (forall a b, In a m1 -> In b m2 -> cmp (fst a) (fst b) = Lt) -> sorted (m1 ++ m2).
  Proof. apply StronglySorted_app. Qed.

  Lemma sorted_filter f (m : map) : sorted m -> sorted (filter f m).
  Proof. apply StronglySorted_filter. Qed.

  Lemma sorted_remove_middle (m1 : map) e m2 : sorted (m1 ++ e :: m2) -> sorted (m1 ++ m2).
  Proof.
    intros H. apply sorted_app_inv in H as (H1 & H2 & H3).
    apply sorted_cons_inv in H2 as [H2 _].
    apply sorted_app; auto. intros a b Ha Hb. apply H3; cbn; auto.
  Qed.

  (* ------------------------------------------------------------ get *)
  Lemma get_In m k v : get m k = Some v -> In (k, v) m.
  Proof.
    induction m as [|[k' v'] m IH]; cbn; [discriminate|].
    destruct (cmp k k') eqn:E; auto.
    intros H; inversion H; subst. apply cmp_eq_iff in E; subst; auto.
  Qed.

  Lemma get_none_notin m k : get m k = None -> forall v, ~ In (k, v) m.
  Proof.
    induction m as [|[k' v'] m IH]; cbn; [tauto|].
    destruct (cmp k k') eqn:E; try discriminate; intros H v [Hi|Hi]; try (eapply IH; eauto; fail);
      inversion Hi; subst; rewrite (cmp_refl _ laws) in E; discriminate.
  Qed.

  Lemma keys_lt_get_none k m : keys_lt k m -> get m k = None.
  Proof.
    induction 1 as [|[k' v'] m H _ IH]; cbn; [reflexivity|]. cbn in H. now rewrite H.
  Qed.

  Lemma keys_gt_get_none k m : keys_gt k m -> get m k = None.
  Proof.
    induction 1 as [|[k' v'] m H _ IH]; cbn; [reflexivity|]. cbn in H.
    apply cmp_lt_gt in H. now rewrite H.
  Qed.

  Lemma In_get m k v : sorted m -> In (k, v) m -> get m k = Some v.
  Proof.
    induction m as [|[k' v'] m IH]; cbn; [tauto|].
    intros Hs [Hi|Hi].
    - inversion Hi; subst. now rewrite (cmp_refl _ laws).
    - apply sorted_cons_inv in Hs as [Hs Hlt]. cbn in Hlt.
      unfold keys_lt in Hlt. rewrite Forall_forall in Hlt. specialize (Hlt _ Hi). cbn in Hlt.
      apply cmp_lt_gt in Hlt. rewrite Hlt. auto.
  Qed.

  Lemma get_app m1 m2 k : get (m1 ++ m2) k = match get m1 k with Some v => Some v | None => get m2 k end.
  Proof. induction m1 as [|[k' v'] m1 IH]; cbn; [reflexivity|]. destruct (cmp k k'); auto. Qed.

  Lemma map_ext m1 m2 : sorted m1 -> sorted m2 -> (forall k, get m1 k = get m2 k) -> m1 = m2.
  Proof.
    revert m2; induction m1 as [|[k1 v1] m1 IH]; intros [|[k2 v2] m2] H1 H2 He.
    - reflexivity.
    - specialize (He k2). cbn in He. rewrite (cmp_refl _ laws) in He. discriminate.
    - specialize (He k1). cbn in He. rewrite (cmp_refl _ laws) in He. discriminate.
    - apply sorted_cons_inv in H1 as [H1 L1]. apply sorted_cons_inv in H2 as [H2 L2]. cbn in L1, L2.
      assert (Hk : k1 = k2).
      { destruct (cmp k1 k2) eqn:E.
        - now apply cmp_eq_iff.
        - pose proof (He k1) as H. cbn in H. rewrite (cmp_refl _ laws), E in H.
          rewrite keys_lt_get_none in H; [discriminate|].
          eapply Forall_impl; [|exact L2]. cbn. intros e He'. eapply (cmp_trans _ laws); eauto.
        - apply cmp_gt_lt in E.
          pose proof (He k2) as H. cbn in H. rewrite (cmp_refl _ laws), E in H.
          rewrite keys_lt_get_none in H; [discriminate|].
          eapply Forall_impl; [|exact L1]. cbn. intros e He'. eapply (cmp_trans _ laws); eauto. }
      subst k2.
      assert (Hv : v1 = v2).
      { specialize (He k1). cbn in He. rewrite (cmp_refl _ laws) in He. congruence. }
      subst v2. f_equal. apply IH; auto.
      intros k. specialize (He k). cbn in He.
      destruct (cmp k k1) eqn:E; auto.
      apply cmp_eq_iff in E; subst.
      rewrite !keys_lt_get_none; auto.
  Qed.

  (* ------------------------------------------------------------ insert *)
  Lemma insert_Forall (P : K * V -> Prop) m k v : P (k, v) -> Forall P m -> Forall P (insert m k v).
  Proof.
    intros Hp. induction 1 as [|[k' v'] m H Hf IH]; cbn; [auto|].
    destruct (cmp k k'); auto.
  Qed.

  Lemma sorted_insert m k v : sorted m -> sorted (insert m k v).
  Proof.
    induction m as [|[k' v'] m IH]; cbn; intros H.
    - constructor; constructor.
    - apply sorted_cons_inv in H as [Hs Hlt]. cbn in Hlt.
      destruct (cmp k k') eqn:E.
      + apply cmp_eq_iff in E; subst. constructor; auto.
      + constructor; [constructor; auto|].
        constructor; [exact E|].
        eapply Forall_impl; [|exact Hlt]. cbn. intros e He. eapply (cmp_trans _ laws); eauto.
      + constructor; [apply IH; exact Hs|]. apply insert_Forall; [|exact Hlt]. cbn. now apply cmp_gt_lt.
  Qed.

  Lemma get_insert_same m k v : get (insert m k v) k = Some v.
  Proof.
    induction m as [|[k' v'] m IH]; cbn.
    - now rewrite (cmp_refl _ laws).
    - destruct (cmp k k') eqn:E; cbn; rewrite ?(cmp_refl _ laws), ?E; auto.
  Qed.

  Lemma get_insert_other m k v k' : k' <> k -> get (insert m k v) k' = get m k'.
  Proof.
    intros Hne. assert (Hc : cmp k' k <> Eq) by (intros H; apply cmp_eq_iff in H; auto).
    induction m as [|[k2 v2] m IH]; cbn.
    - destruct (cmp k' k); congruence.
    - destruct (cmp k k2) eqn:E; cbn.
      + apply cmp_eq_iff in E; subst k2. destruct (cmp k' k); congruence.
      + destruct (cmp k' k); try congruence; reflexivity.
      + destruct (cmp k' k2); auto.
  Qed.

  Lemma In_insert m k v e : In e (insert m k v) -> e = (k, v) \/ In e m.
  Proof.
    induction m as [|[k' v'] m IH]; cbn; [intros [H|[]]; auto|].
    destruct (cmp k k'); cbn; intuition.
  Qed.


  (* for a sorted map the insertion point decides membership: Lt means absent *)
  Lemma length_insert m k v : sorted m ->
    length (insert m k v) = match get m k with Some _ => length m | None => S (length m) end.
  Proof.
    induction m as [|[k' v'] m IH]; cbn; [reflexivity|].
    intros H. apply sorted_cons_inv in H as [Hs Hlt]. cbn in Hlt.
    destruct (cmp k k') eqn:E; cbn; auto.
    - rewrite keys_lt_get_none; [reflexivity|].
      eapply Forall_impl; [|exact Hlt]. cbn. intros e He. eapply (cmp_trans _ laws); eauto.
    - rewrite IH by assumption. destruct (get m k); reflexivity.
  Qed.

  Lemma len_insert m k v : sorted m ->
    len (insert m k v) = match get m k with Some _ => len m | None => (len m + 1)%N end.
  Proof.
    intros H. unfold len. rewrite length_insert by assumption. destruct (get m k); lia.
  Qed.

  (* insertion into a concatenation, used by every tree-level refinement proof *)
  Lemma insert_app_left m1 m2 k v :
    (forall e, In e m2 -> cmp k (fst e) = Lt) -> insert (m1 ++ m2) k v = insert m1 k v ++ m2.
  Proof.
    intros H2. induction m1 as [|[k' v'] m1 IH]; cbn.
    - destruct m2 as [|[k2 v2] m2]; [reflexivity|].
      cbn. pose proof (H2 (k2, v2) (or_introl eq_refl)) as H. cbn in H. now rewrite H.
    - destruct (cmp k k') eqn:E; cbn; auto. now rewrite IH.
  Qed.

  Lemma insert_app_right m1 m2 k v :
    (forall e, In e m1 -> cmp (fst e) k = Lt) -> insert (m1 ++ m2) k v = m1 ++ insert m2 k v.
  Proof.
    intros H1. induction m1 as [|[k' v'] m1 IH]; cbn; [reflexivity|].
    pose proof (H1 (k', v') (or_introl eq_refl)) as H. cbn in H. apply cmp_lt_gt in H. rewrite H.
    f_equal. apply IH. intros; apply H1; cbn; auto.
  Qed.

  (* ------------------------------------------------------------ remove *)
  Lemma remove_Forall (P : K * V -> Prop) m k : Forall P m -> Forall P (remove m k).
  Proof. induction 1 as [|[k' v'] m H Hf IH]; cbn; [auto|]. destruct (cmp k k'); auto. Qed.

  Lemma sorted_remove m k : sorted m -> sorted (remove m k).
  Proof.
    induction m as [|[k' v'] m IH]; cbn; intros H; [constructor|].
    apply sorted_cons_inv in H as [Hs Hlt]. cbn in Hlt.
    destruct (cmp k k'); auto; (constructor; [apply IH; exact Hs|apply remove_Forall; exact Hlt]).
  Qed.

  Lemma get_remove_same m k : sorted m -> get (remove m k) k = None.
  Proof.
    induction m as [|[k' v'] m IH]; cbn; intros H; [reflexivity|].
    apply sorted_cons_inv in H as [Hs Hlt]. cbn in Hlt.
    destruct (cmp k k') eqn:E; cbn; rewrite ?E; auto.
    apply cmp_eq_iff in E; subst. now apply keys_lt_get_none.
  Qed.

  Lemma get_remove_other m k k' : k' <> k -> get (remove m k) k' = get m k'.
  Proof.
    intros Hne. assert (Hc : cmp k' k <> Eq) by (intros H; apply cmp_eq_iff in H; auto).
    induction m as [|[k2 v2] m IH]; cbn; [reflexivity|].
    destruct (cmp k k2) eqn:E; cbn.
    - apply cmp_eq_iff in E; subst k2. destruct (cmp k' k); congruence.
    - destruct (cmp k' k2); auto.
    - destruct (cmp k' k2); auto.
  Qed.

  Lemma In_remove m k e : In e (remove m k) -> In e m.
  Proof.
    induction m as [|[k' v'] m IH]; cbn; [tauto|]. destruct (cmp k k'); cbn; intuition.
  Qed.

  Lemma remove_absent m k : get m k = None -> remove m k = m.
  Proof.
    induction m as [|[k' v'] m IH]; cbn; [reflexivity|].
    destruct (cmp k k'); try discriminate; intros H; f_equal; auto.
  Qed.

  Lemma length_remove m k :
    length (remove m k) = match get m k with Some _ => pred (length m) | None => length m end.
  Proof.
    induction m as [|[k' v'] m IH]; cbn; [reflexivity|].
    destruct (cmp k k') eqn:E; cbn; auto; rewrite IH; destruct (get m k) eqn:G; auto;
      apply get_In in G; destruct m; cbn in *; tauto || reflexivity.
  Qed.

  Lemma len_remove m k :
    len (remove m k) = match get m k with Some _ => (len m - 1)%N | None => len m end.
  Proof. unfold len. rewrite length_remove. destruct (get m k); lia. Qed.

  Lemma remove_app_left m1 m2 k :
    (forall e, In e m2 -> cmp k (fst e) = Lt) -> remove (m1 ++ m2) k = remove m1 k ++ m2.
  Proof.
    intros H2. induction m1 as [|[k' v'] m1 IH]; cbn.
    - apply remove_absent. apply keys_lt_get_none. unfold keys_lt. now rewrite Forall_forall.
    - destruct (cmp k k'); cbn; auto; now rewrite IH.
  Qed.

  Lemma remove_app_right m1 m2 k :
    (forall e, In e m1 -> cmp (fst e) k = Lt) -> remove (m1 ++ m2) k = m1 ++ remove m2 k.
  Proof.
    intros H1. induction m1 as [|[k' v'] m1 IH]; cbn; [reflexivity|].
    pose proof (H1 (k', v') (or_introl eq_refl)) as H. cbn in H. apply cmp_lt_gt in H. rewrite H.
    f_equal. apply IH. intros; apply H1; cbn; auto.
  Qed.

  (* ------------------------------------------------------------ ranges *)
  Lemma In_range m lo hi e : In e (range cmp m lo hi) <-> In e m /\ in_range cmp lo hi (fst e) = true.
  Proof. unfold range. apply filter_In. Qed.

  Lemma sorted_range m lo hi : sorted m -> sorted (range cmp m lo hi).
  Proof. apply sorted_filter. Qed.

  Lemma range_full m : range cmp m Unbounded Unbounded = m.
  Proof. unfold range. apply filter_Forall_id. rewrite Forall_forall. reflexivity. Qed.

  Lemma range_app m1 m2 lo hi : range cmp (m1 ++ m2) lo hi = range cmp m1 lo hi ++ range cmp m2 lo hi.
  Proof. unfold range. apply filter_app. Qed.

  Lemma bounds_empty_range m lo hi : bounds_empty cmp lo hi = true -> range cmp m lo hi = [].
  Proof.
    intros Hb. unfold range. apply filter_Forall_nil. rewrite Forall_forall. intros [k v] _. cbn.
    unfold in_range. apply andb_false_iff.
    destruct lo as [|s|s], hi as [|e|e]; cbn in Hb; try discriminate; cbn.
    - destruct (kle s k) eqn:E1; [|auto]. right. apply kle_iff in E1. apply kle_false_iff.
      destruct (cmp s e) eqn:E; try discriminate. apply cmp_gt_lt in E. eapply cmp_lt_le_trans; eauto.
    - destruct (kle s k) eqn:E1; [|auto]. right. apply kle_iff in E1. apply klt_false_iff.
      destruct (cmp s e) eqn:E; try discriminate.
      + apply cmp_eq_iff in E; subst. exact E1.
      + apply cmp_gt_lt in E. intros Hc. apply cmp_gt_lt in Hc.
        pose proof (cmp_trans _ laws _ _ _ Hc E) as H. apply cmp_lt_gt in H. congruence.
    - destruct (klt s k) eqn:E1; [|auto]. right. apply klt_iff in E1. apply kle_false_iff.
      destruct (cmp s e) eqn:E; try discriminate.
      + apply cmp_eq_iff in E; subst. exact E1.
      + apply cmp_gt_lt in E. eapply (cmp_trans _ laws); eauto.
    - destruct (klt s k) eqn:E1; [|auto]. right. apply klt_iff in E1. apply klt_false_iff.
      destruct (cmp s e) eqn:E; try discriminate.
      + apply cmp_eq_iff in E; subst. rewrite E1. discriminate.
      + apply cmp_gt_lt in E. rewrite (cmp_trans _ laws _ _ _ E E1). discriminate.
  Qed.

  (* ------------------------------------------------------------ ends *)
  Lemma first_min m e : sorted m -> first m = Some e -> forall e', In e' m -> cmp (fst e) (fst e') <> Gt.
  Proof.
    destruct m as [|a m]; cbn; [discriminate|]. intros Hs H; inversion H; subst.
    apply sorted_cons_inv in Hs as [_ Hlt]. unfold keys_lt in Hlt. rewrite Forall_forall in Hlt.
    intros e' [->|Hi]; [rewrite (cmp_refl _ laws); discriminate|]. rewrite (Hlt _ Hi). discriminate.
  Qed.

  Lemma last_max m e : sorted m -> last m = Some e -> forall e', In e' m -> cmp (fst e') (fst e) <> Gt.
  Proof.
    intros Hs Hl e' Hi. unfold last in Hl.
    destruct m as [|a m']; [discriminate|].
    destruct (@removelast_last_opt _ (a :: m')) as [x [Hx Hd]]; [discriminate|].
    rewrite Hl in Hx. inversion Hx; subst x. rewrite Hd in Hs, Hi.
    apply sorted_app_inv in Hs as (_ & _ & H3). apply in_app_or in Hi as [Hi|[->|[]]].
    - rewrite (H3 _ _ Hi (or_introl eq_refl)). discriminate.
    - rewrite (cmp_refl _ laws). discriminate.
  Qed.

  Lemma pop_first_spec m : pop_first m = (first m, match first m with Some e => remove m (fst e) | None => m end).
  Proof.
    destruct m as [|[k v] m]; cbn; [reflexivity|]. now rewrite (cmp_refl _ laws).
  Qed.

  Lemma sorted_removelast m : sorted m -> sorted (removelast m).
  Proof.
    intros Hs. destruct m as [|a m']; [exact Hs|].
    destruct (@removelast_last_opt _ (a :: m')) as [x [_ Hd]]; [discriminate|].
    rewrite Hd in Hs. apply sorted_app_inv in Hs. tauto.
  Qed.

  Lemma pop_last_spec m : sorted m ->
    pop_last m = (last m, match last m with Some e => remove m (fst e) | None => m end).
  Proof.
    intros Hs. unfold pop_last, iter_next_back, last. f_equal.
    destruct m as [|a m']; [reflexivity|].
    destruct (@removelast_last_opt _ (a :: m')) as [[k v] [Hx Hd]]; [discriminate|].
    rewrite Hx. cbn [fst]. rewrite Hd at 2. rewrite Hd in Hs.
    apply sorted_app_inv in Hs as (_ & _ & H3).
    rewrite remove_app_right.
    - cbn. now rewrite (cmp_refl _ laws), app_nil_r.
    - intros e He. apply (H3 e (k, v) He). cbn; auto.
  Qed.

  Lemma sorted_pop_first m : sorted m -> sorted (snd (pop_first m)).
  Proof. destruct m; cbn; [auto|]. intros H. now apply sorted_cons_inv in H. Qed.

  Lemma sorted_pop_last m : sorted m -> sorted (snd (pop_last m)).
  Proof. apply sorted_removelast. Qed.

  (* ------------------------------------------------------------ retain *)
  Lemma sorted_retain p m : sorted m -> sorted (retain p m).
  Proof. apply sorted_filter. Qed.

  Lemma sorted_retain_in lo hi p m : sorted m -> sorted (retain_in cmp lo hi p m).
  Proof. apply sorted_filter. Qed.

  Lemma In_retain_in lo hi p m e :
    In e (retain_in cmp lo hi p m) <-> In e m /\ (in_range cmp lo hi (fst e) = false \/ p (fst e) (snd e) = true).
  Proof.
    unfold retain_in. rewrite filter_In, orb_true_iff, negb_true_iff. tauto.
  Qed.

  Lemma retain_in_full p m : retain_in cmp Unbounded Unbounded p m = retain p m.
  Proof. reflexivity. Qed.

  (* ------------------------------------------------------------ extract_if *)
  Lemma ext_begin_finish m lo hi : ext_finish (ext_begin cmp m lo hi) = m.
  Proof.
    unfold ext_finish, ext_begin. cbn. rewrite take_drop_while. apply take_drop_while.
  Qed.

  (* on a sorted map the window is exactly the range *)
  Lemma ext_begin_mid m lo hi : sorted m -> x_mid (ext_begin cmp m lo hi) = range cmp m lo hi.
  Proof.
    intros Hs. unfold ext_begin. cbn [x_mid].
    set (nb := fun e : K * V => negb (above_lower cmp lo (fst e))).
    set (bu := fun e : K * V => below_upper cmp hi (fst e)).
    rewrite <- (take_drop_while nb m) at 2. rewrite range_app.
    assert (H1 : range cmp (take_while nb m) lo hi = []).
    { unfold range. apply filter_Forall_nil.
      eapply Forall_impl; [|apply take_while_Forall]. intros e He. cbn in He. unfold nb in He.
      apply negb_true_iff in He. unfold in_range. now rewrite He. }
    rewrite H1. cbn [app].
    (* everything after the first in-range-from-below entry is above the lower bound *)
    assert (H2 : Forall (fun e => above_lower cmp lo (fst e) = true) (drop_while nb m)).
    { rewrite <- (take_drop_while nb m) in Hs. apply sorted_app_inv in Hs as (_ & Hs2 & _).
      destruct (drop_while nb m) as [|a r] eqn:Ed; [constructor|].
      pose proof (drop_while_head _ _ _ _ Ed) as Ha. unfold nb in Ha. apply negb_false_iff in Ha.
      constructor; [exact Ha|].
      apply sorted_cons_inv in Hs2 as [_ Hlt]. eapply Forall_impl; [|exact Hlt]. cbn. intros e He.
      destruct lo as [|b|b]; cbn in *; auto.
      - apply kle_iff in Ha. apply kle_iff. rewrite (cmp_le_lt_trans _ _ _ Ha He). discriminate.
      - apply klt_iff in Ha. apply klt_iff. eapply (cmp_trans _ laws); eauto. }
    set (rest := drop_while nb m) in *.
    assert (Hs2 : sorted rest).
    { rewrite <- (take_drop_while nb m) in Hs. apply sorted_app_inv in Hs. tauto. }
    clearbody rest. clear H1 Hs.
    rewrite <- (take_drop_while bu rest) at 2. rewrite range_app.
    assert (H3 : range cmp (drop_while bu rest) lo hi = []).
    { rewrite <- (take_drop_while bu rest) in Hs2. apply sorted_app_inv in Hs2 as (_ & Hs3 & _).
      destruct (drop_while bu rest) as [|a r] eqn:Ed; [reflexivity|].
      pose proof (drop_while_head _ _ _ _ Ed) as Ha. unfold bu in Ha.
      unfold range. apply filter_Forall_nil. constructor.
      - unfold in_range. rewrite Ha. apply andb_false_r.
      - apply sorted_cons_inv in Hs3 as [_ Hlt]. eapply Forall_impl; [|exact Hlt]. cbn. intros e He.
        unfold in_range. apply andb_false_iff. right.
        destruct hi as [|b|b]; cbn in *; try discriminate.
        + apply kle_false_iff in Ha. apply kle_false_iff. eapply (cmp_trans _ laws); eauto.
        + apply klt_false_iff in Ha. apply klt_false_iff. rewrite (cmp_le_lt_trans _ _ _ Ha He). discriminate. }
    rewrite H3, app_nil_r. symmetry. unfold range. apply filter_Forall_id.
    assert (H4 : Forall (fun e => above_lower cmp lo (fst e) = true) (take_while bu rest)).
    { rewrite <- (take_drop_while bu rest) in H2. now apply Forall_app in H2. }
    pose proof (take_while_Forall bu rest) as H5.
    rewrite Forall_forall in *. intros e He. unfold in_range. rewrite (H4 _ He). apply (H5 _ He).
  Qed.

  Lemma ext_next_some p st e st' : ext_next p st = (Some e, st') ->
    exists l1 l2, ext_finish st = l1 ++ e :: l2 /\ ext_finish st' = l1 ++ l2 /\
                  p (fst e) (snd e) = true /\ In e (x_mid st) /\ incl (x_mid st') (x_mid st).
  Proof.
    unfold ext_next. set (np := fun e : K * V => negb (p (fst e) (snd e))).
    destruct (drop_while np (x_mid st)) as [|a rest] eqn:Ed; intros H; inversion H; subst; clear H.
    exists (x_pre st ++ take_while np (x_mid st)), (rest ++ x_post st).
    pose proof (take_drop_while np (x_mid st)) as Hm. rewrite Ed in Hm.
    unfold ext_finish. cbn. split; [|split; [|split; [|split]]].
    - rewrite <- Hm at 1. repeat rewrite <- app_assoc; reflexivity.
    - repeat rewrite <- app_assoc; reflexivity.
    - apply drop_while_head in Ed. unfold np in Ed. now apply negb_false_iff in Ed.
    - rewrite <- Hm. apply in_or_app. right; cbn; auto.
    - intros x Hx. rewrite <- Hm. apply in_or_app. right; cbn; auto.
  Qed.

  Lemma ext_next_none p st st' : ext_next p st = (None, st') ->
    ext_finish st' = ext_finish st /\ x_mid st' = [] /\ Forall (fun e => p (fst e) (snd e) = false) (x_mid st).
  Proof.
    unfold ext_next. set (np := fun e : K * V => negb (p (fst e) (snd e))).
    destruct (drop_while np (x_mid st)) as [|a rest] eqn:Ed; intros H; inversion H; subst; clear H.
    pose proof (take_drop_while np (x_mid st)) as Hm. rewrite Ed, app_nil_r in Hm.
    unfold ext_finish. cbn. rewrite Hm. repeat split.
    - repeat rewrite <- app_assoc; reflexivity.
    - rewrite <- Hm. eapply Forall_impl; [|apply take_while_Forall]. intros e He. cbn in He. now apply negb_true_iff in He.
  Qed.

  Lemma ext_next_back_some p st e st' : ext_next_back p st = (Some e, st') ->
    exists l1 l2, ext_finish st = l1 ++ e :: l2 /\ ext_finish st' = l1 ++ l2 /\
                  p (fst e) (snd e) = true /\ In e (x_mid st) /\ incl (x_mid st') (x_mid st).
  Proof.
    unfold ext_next_back. set (np := fun e : K * V => negb (p (fst e) (snd e))).
    destruct (drop_while np (rev (x_mid st))) as [|a rest] eqn:Ed; intros H; inversion H; subst; clear H.
    pose proof (take_drop_while np (rev (x_mid st))) as Hm. rewrite Ed in Hm.
    apply (f_equal (@rev _)) in Hm. rewrite rev_involutive, rev_app_distr in Hm. cbn in Hm.
    rewrite <- app_assoc in Hm. cbn in Hm.
    exists (x_pre st ++ rev rest), (rev (take_while np (rev (x_mid st))) ++ x_post st).
    unfold ext_finish. cbn. split; [|split; [|split; [|split]]].
    - rewrite <- Hm at 1. repeat rewrite <- app_assoc; reflexivity.
    - repeat rewrite <- app_assoc; reflexivity.
    - apply drop_while_head in Ed. unfold np in Ed. now apply negb_false_iff in Ed.
    - rewrite <- Hm. apply in_or_app. right; cbn; auto.
    - intros x Hx. rewrite <- Hm. apply in_or_app. auto.
  Qed.

  Lemma ext_next_back_none p st st' : ext_next_back p st = (None, st') ->
    ext_finish st' = ext_finish st /\ x_mid st' = [] /\ Forall (fun e => p (fst e) (snd e) = false) (x_mid st).
  Proof.
    unfold ext_next_back. set (np := fun e : K * V => negb (p (fst e) (snd e))).
    destruct (drop_while np (rev (x_mid st))) as [|a rest] eqn:Ed; intros H; inversion H; subst; clear H.
    pose proof (take_drop_while np (rev (x_mid st))) as Hm. rewrite Ed, app_nil_r in Hm.
    unfold ext_finish. cbn. rewrite Hm, rev_involutive. repeat split.
    pose proof (take_while_Forall np (rev (x_mid st))) as Hf. rewrite Hm in Hf.
    rewrite Forall_forall in *. intros e He. specialize (Hf e). rewrite <- in_rev in Hf.
    specialize (Hf He). cbn in Hf. now apply negb_true_iff in Hf.
  Qed.

  (* whatever the consumption script, the map stays sorted and only shrinks by yielded entries *)
  Lemma ext_run_sorted p script st os st' :
    ext_run p script st = (os, st') -> sorted (ext_finish st) -> sorted (ext_finish st').
  Proof.
    revert st os st'. induction script as [|front r IH]; cbn; intros st os st' H Hs.
    - inversion H; subst; exact Hs.
    - destruct (if front then ext_next p st else ext_next_back p st) as [o st1] eqn:E1.
      destruct (ext_run p r st1) as [os1 st2] eqn:E2. inversion H; subst. eapply IH; [exact E2|].
      destruct front, o as [e|].
      + apply ext_next_some in E1 as (l1 & l2 & H1 & H2 & _). rewrite H2. rewrite H1 in Hs. eapply sorted_remove_middle; eauto.
      + apply ext_next_none in E1 as (H1 & _). now rewrite H1.
      + apply ext_next_back_some in E1 as (l1 & l2 & H1 & H2 & _). rewrite H2. rewrite H1 in Hs. eapply sorted_remove_middle; eauto.
      + apply ext_next_back_none in E1 as (H1 & _). now rewrite H1.
  Qed.

  Lemma remove_middle_sorted (l1 : map) e l2 : sorted (l1 ++ e :: l2) -> remove (l1 ++ e :: l2) (fst e) = l1 ++ l2.
  Proof.
    intros Hs. apply sorted_app_inv in Hs as (_ & _ & H3).
    rewrite remove_app_right.
    - destruct e as [k v]. cbn. now rewrite (cmp_refl _ laws).
    - intros a Ha. apply H3; cbn; auto.
  Qed.

  (* one step of the iterator = SortedMap.remove of the yielded key (or nothing) *)
  Lemma ext_step_remove p (front : bool) st o st' :
    (if front then ext_next p st else ext_next_back p st) = (o, st') -> sorted (ext_finish st) ->
    ext_finish st' = match o with Some e => remove (ext_finish st) (fst e) | None => ext_finish st end.
  Proof.
    intros E Hs. destruct front, o as [e|].
    - apply ext_next_some in E as (l1 & l2 & H1 & H2 & _). rewrite H2, H1. rewrite H1 in Hs. now rewrite remove_middle_sorted.
    - now apply ext_next_none in E as (H1 & _).
    - apply ext_next_back_some in E as (l1 & l2 & H1 & H2 & _). rewrite H2, H1. rewrite H1 in Hs. now rewrite remove_middle_sorted.
    - now apply ext_next_back_none in E as (H1 & _).
  Qed.

  Lemma sorted_extract_script m lo hi p script : sorted m -> sorted (snd (extract_script cmp m lo hi p script)).
  Proof.
    intros Hs. unfold extract_script. destruct (ext_run p script (ext_begin cmp m lo hi)) as [os st] eqn:E. cbn.
    eapply ext_run_sorted; [exact E|]. now rewrite ext_begin_finish.
  Qed.

  (* ------------------------------------------------------------ programs *)
  Lemma sorted_apply_op m o : sorted m -> sorted (snd (apply_op cmp m o)).
  Proof.
    intros Hs. destruct o; cbn; auto using sorted_insert, sorted_remove, sorted_retain, sorted_retain_in.
    - destruct m; cbn; [auto|]. now apply sorted_cons_inv in Hs.
    - now apply sorted_removelast.
    - pose proof (sorted_extract_script m lo hi p script Hs) as H.
      destruct (extract_script cmp m lo hi p script); exact H.
  Qed.

  Lemma sorted_run ops m : sorted m -> sorted (snd (run cmp ops m)).
  Proof.
    revert m; induction ops as [|o r IH]; cbn; intros m Hs; [exact Hs|].
    pose proof (sorted_apply_op m o Hs) as H1. destruct (apply_op cmp m o) as [x m'].
    pose proof (IH m' H1) as H2. destruct (run cmp r m') as [xs m'']. exact H2.
  Qed.

  (* ------------------------------------------------------------ gap cursor (zipper) *)
  Implicit Types (c : @cursor K V).

  Lemma cursor_map_seek_lower m (b : bound K) : cursor_map (seek_lower cmp m b) = m.
  Proof. unfold cursor_map, seek_lower. cbn. rewrite rev_involutive. apply take_drop_while. Qed.

  Lemma cursor_map_seek_upper m (b : bound K) : cursor_map (seek_upper cmp m b) = m.
  Proof. unfold cursor_map, seek_upper. cbn. rewrite rev_involutive. apply take_drop_while. Qed.

  (* the gap of lower_bound: everything before it fails the bound, the entry after it meets it *)
  Lemma seek_lower_gap m (b : bound K) :
    Forall (fun e => above_lower cmp b (fst e) = false) (c_before (seek_lower cmp m b)) /\
    match peek_next (seek_lower cmp m b) with Some e => above_lower cmp b (fst e) = true | None => True end.
  Proof.
    unfold seek_lower, peek_next. cbn. split.
    - apply Forall_rev. eapply Forall_impl; [|apply take_while_Forall]. intros e He. cbn in He. now apply negb_true_iff in He.
    - destruct (drop_while _ m) as [|e r] eqn:E; [exact I|]. cbn. apply drop_while_head in E. now apply negb_false_iff in E.
  Qed.

  Lemma seek_upper_gap m (b : bound K) :
    Forall (fun e => below_upper cmp b (fst e) = true) (c_before (seek_upper cmp m b)) /\
    match peek_next (seek_upper cmp m b) with Some e => below_upper cmp b (fst e) = false | None => True end.
  Proof.
    unfold seek_upper, peek_next. cbn. split.
    - apply Forall_rev. apply take_while_Forall.
    - destruct (drop_while _ m) as [|e r] eqn:E; [exact I|]. cbn. now apply drop_while_head in E.
  Qed.

  Lemma cursor_map_move_next c : cursor_map (snd (move_next c)) = cursor_map c.
  Proof.
    unfold move_next, cursor_map. destruct c as [b a]. cbn. destruct a as [|e r]; cbn; [reflexivity|].
    now rewrite <- app_assoc.
  Qed.

  Lemma cursor_map_move_prev c : cursor_map (snd (move_prev c)) = cursor_map c.
  Proof.
    unfold move_prev, cursor_map. destruct c as [b a]. cbn. destruct b as [|e r]; cbn; [reflexivity|].
    now rewrite <- app_assoc.
  Qed.

  Lemma seek_lower_spec m (b : bound K) :
    cursor_map (seek_lower cmp m b) = m /\
    Forall (fun e => above_lower cmp b (fst e) = false) (c_before (seek_lower cmp m b)) /\
    match peek_next (seek_lower cmp m b) with Some e => above_lower cmp b (fst e) = true | None => True end.
  Proof. split; [apply cursor_map_seek_lower|apply seek_lower_gap]. Qed.

  Lemma seek_upper_spec m (b : bound K) :
    cursor_map (seek_upper cmp m b) = m /\
    Forall (fun e => below_upper cmp b (fst e) = true) (c_before (seek_upper cmp m b)) /\
    match peek_next (seek_upper cmp m b) with Some e => below_upper cmp b (fst e) = false | None => True end.
  Proof. split; [apply cursor_map_seek_upper|apply seek_upper_gap]. Qed.

  Lemma moves_keep_content c :
    cursor_map (snd (move_next c)) = cursor_map c /\ cursor_map (snd (move_prev c)) = cursor_map c.
  Proof. split; [apply cursor_map_move_next|apply cursor_map_move_prev]. Qed.

  Lemma sorted_rev_before_le (b : map) e (a : map) : sorted (rev (e :: b) ++ a) ->
    forall x, In x (rev (e :: b)) -> cmp (fst x) (fst e) <> Gt.
  Proof.
    intros Hs x Hx. apply sorted_app_inv in Hs as (Hs & _ & _). cbn in Hs, Hx.
    apply sorted_app_inv in Hs as (_ & _ & H3). apply in_app_or in Hx as [Hx|[<-|[]]].
    - rewrite (H3 x e Hx (or_introl eq_refl)). discriminate.
    - rewrite (cmp_refl _ laws). discriminate.
  Qed.

  (* accepted iff strictly between the neighbours; then the edit is SortedMap.insert *)
  Lemma gap_accepts_insert c k v : sorted (cursor_map c) -> gap_accepts cmp c k = true ->
    rev (c_before c) ++ (k, v) :: c_after c = insert (cursor_map c) k v.
  Proof.
    unfold gap_accepts, cursor_map, peek_prev, peek_next. destruct c as [b a]. cbn [c_before c_after].
    intros Hs Hacc. apply andb_true_iff in Hacc as [Hp Hn].
    rewrite (insert_app_right).
    - f_equal. destruct a as [|[kn vn] a']; [reflexivity|]. cbn in Hn. apply klt_iff in Hn. cbn. now rewrite Hn.
    - intros x Hx. destruct b as [|[kp vp] b']; [destruct Hx|]. cbn [hd_error] in Hp. apply klt_iff in Hp.
      pose proof (sorted_rev_before_le b' (kp, vp) a Hs x Hx) as Hle. cbn in Hle.
      eapply cmp_le_lt_trans; eauto.
  Qed.

  Lemma insert_before_spec c k v : sorted (cursor_map c) ->
    let '(ok, c') := insert_before cmp c k v in
    ok = gap_accepts cmp c k /\
    cursor_map c' = (if ok then insert (cursor_map c) k v else cursor_map c) /\ sorted (cursor_map c').
  Proof.
    intros Hs. unfold insert_before. destruct (gap_accepts cmp c k) eqn:E; [|auto].
    split; [reflexivity|]. pose proof (gap_accepts_insert c k v Hs E) as H.
    unfold cursor_map at 1 3. cbn. rewrite <- app_assoc. cbn. rewrite H. split; [reflexivity|]. now apply sorted_insert.
  Qed.

  Lemma insert_after_spec c k v : sorted (cursor_map c) ->
    let '(ok, c') := insert_after cmp c k v in
    ok = gap_accepts cmp c k /\
    cursor_map c' = (if ok then insert (cursor_map c) k v else cursor_map c) /\ sorted (cursor_map c').
  Proof.
    intros Hs. unfold insert_after. destruct (gap_accepts cmp c k) eqn:E; [|auto].
    split; [reflexivity|]. pose proof (gap_accepts_insert c k v Hs E) as H.
    unfold cursor_map at 1 3. cbn. rewrite H. split; [reflexivity|]. now apply sorted_insert.
  Qed.

  Lemma remove_next_spec c : sorted (cursor_map c) ->
    let '(e, c') := remove_next c in
    e = peek_next c /\
    cursor_map c' = (match e with Some x => remove (cursor_map c) (fst x) | None => cursor_map c end) /\ sorted (cursor_map c').
  Proof.
    intros Hs. unfold remove_next, peek_next, cursor_map in *. destruct c as [b a]. cbn in *.
    destruct a as [|x a']; cbn; [auto|]. split; [reflexivity|]. split.
    - symmetry. now apply remove_middle_sorted.
    - eapply sorted_remove_middle; eauto.
  Qed.

  Lemma remove_prev_spec c : sorted (cursor_map c) ->
    let '(e, c') := remove_prev c in
    e = peek_prev c /\
    cursor_map c' = (match e with Some x => remove (cursor_map c) (fst x) | None => cursor_map c end) /\ sorted (cursor_map c').
  Proof.
    intros Hs. unfold remove_prev, peek_prev, cursor_map in *. destruct c as [b a]. cbn in *.
    destruct b as [|x b']; cbn; [auto|]. cbn in Hs. rewrite <- app_assoc in Hs. cbn in Hs. split; [reflexivity|]. split.
    - rewrite <- app_assoc. cbn. symmetry. now apply remove_middle_sorted.
    - eapply sorted_remove_middle; eauto.
  Qed.

  (* every cursor script keeps the map sorted *)
  Lemma cursor_step_sorted c o : sorted (cursor_map c) -> sorted (cursor_map (snd (cursor_step cmp c o))).
  Proof.
    intros Hs. destruct o; cbn; auto.
    - pose proof (cursor_map_move_next c) as H. destruct (move_next c); cbn in *. now rewrite H.
    - pose proof (cursor_map_move_prev c) as H. destruct (move_prev c); cbn in *. now rewrite H.
    - pose proof (insert_before_spec c k v Hs) as H. destruct (insert_before cmp c k v); cbn. tauto.
    - pose proof (insert_after_spec c k v Hs) as H. destruct (insert_after cmp c k v); cbn. tauto.
    - pose proof (remove_next_spec c Hs) as H. destruct (remove_next c); cbn. tauto.
    - pose proof (remove_prev_spec c Hs) as H. destruct (remove_prev c); cbn. tauto.
  Qed.

End SortedMapP.
