(* C15 -- Built-in key types order correctly and separators are valid.
   This file contains only statements; every proof is `exact <lemma>`. *)
From RV Require Import Base.Bytes Types.KeyTypes Types.KeyTypesP.
Open Scope N_scope.

Theorem c15_roundtrip : forall t v, has_type t v -> decode t (encode t v) = Some v.
Proof. exact roundtrip. Qed.

Theorem c15_compare_is_value_order : forall t a b,
  has_type t a -> has_type t b -> kcompare t (encode t a) (encode t b) = vcompare t a b.
Proof. exact compare_is_value_order. Qed.

Theorem c15_separator_valid : forall t a b,
  has_type t a -> has_type t b -> vcompare t a b = Lt ->
  let s := separator t (encode t a) (encode t b) in
  exists sv, has_type t sv /\ encode t sv = s /\ vcompare t a sv <> Gt /\ vcompare t sv b = Lt
             /\ (length s <= length (encode t a))%nat.
Proof. exact separator_valid. Qed.

Theorem c15_order_eq_same_encoding : forall t a b,
  has_type t a -> has_type t b -> vcompare t a b = Eq -> encode t a = encode t b.
Proof. exact vcompare_eq_encode. Qed.

Theorem c15_order_antisym : forall t a b,
  has_type t a -> has_type t b -> vcompare t b a = CompOpp (vcompare t a b).
Proof. exact vcompare_antisym. Qed.

Theorem c15_order_trans : forall t a b c,
  has_type t a -> has_type t b -> has_type t c ->
  vcompare t a b = Lt -> vcompare t b c = Lt -> vcompare t a c = Lt.
Proof. exact vcompare_trans. Qed.

(* non-vacuity: the hypotheses are met by concrete, non-trivial values *)
Example c15_nonvacuous_bytes :
  has_type TBytes (VBytes [1;2;3;4;5]) /\ has_type TBytes (VBytes [1;2;9;9;9;9]) /\
  vcompare TBytes (VBytes [1;2;3;4;5]) (VBytes [1;2;9;9;9;9]) = Lt /\
  separator TBytes [1;2;3;4;5] [1;2;9;9;9;9] = [1;2;9].
Proof. vm_compute. repeat split; reflexivity. Qed.
