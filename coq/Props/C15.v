(* C15 -- Built-in key types order correctly and separators are valid.
   This file contains only statements; every proof is `exact <lemma>` (proofs: Types/KeyTypesP.v,
   Types/Utf8P.v).  Model: Types/KeyTypes.v -- every built-in key type by structural recursion
   (kty), so each theorem below holds for every nesting of Option / array / tuple, not a sample.

   t ranges over kty with `wf_ty t = true` (the integer widths and tuple arities that exist in Rust);
   `has_type t v` says v is a value of t (ranges, scalar values, lengths; composite encodings
   below 4 GiB as redb's u32 offsets / varints require).
   kcompare / separator / min_encoded_key / fixed_width / branch_separator mirror the byte-level
   Rust functions; vcompare is the order of the VALUES. *)
From RV Require Import Base.Bytes.
From RV.Types Require Import Utf8 Utf8P KeyTypes KeyTypesP.
Open Scope N_scope.

(* every value decodes to what was encoded *)
Theorem c15_roundtrip : forall t, wf_ty t = true ->
  forall v, has_type t v -> decode t (encode t v) = Some v.
Proof. exact roundtrip. Qed.

(* the byte-level comparison orders encoded keys exactly as the values order *)
Theorem c15_compare_is_value_order : forall t, wf_ty t = true ->
  forall a b, has_type t a -> has_type t b -> kcompare t (encode t a) (encode t b) = vcompare t a b.
Proof. exact compare_is_value_order. Qed.

(* byte order of UTF-8 = order by Unicode scalar values (the &str / String instance, spelled out) *)
Theorem c15_utf8_order : forall a b, forallb is_scalar a = true -> forallb is_scalar b = true ->
  lex_cmp (utf8_encode a) (utf8_encode b) = lexc N.compare a b.
Proof. exact utf8_order. Qed.

(* the value order is a total order: Eq only on identical values (hence identical encodings),
   antisymmetric, transitive *)
Theorem c15_order_eq_same_value : forall t a b,
  has_type t a -> has_type t b -> vcompare t a b = Eq -> a = b.
Proof. exact (fun t => o_eq t (order_ok t)). Qed.

Theorem c15_order_eq_same_encoding : forall t a b,
  has_type t a -> has_type t b -> vcompare t a b = Eq -> encode t a = encode t b.
Proof. exact vcompare_eq_encode. Qed.

Theorem c15_order_refl : forall t a, has_type t a -> vcompare t a a = Eq.
Proof. exact (fun t => o_refl t (order_ok t)). Qed.

Theorem c15_order_antisym : forall t a b,
  has_type t a -> has_type t b -> vcompare t b a = CompOpp (vcompare t a b).
Proof. exact (fun t => o_anti t (order_ok t)). Qed.

Theorem c15_order_trans : forall t a b c,
  has_type t a -> has_type t b -> has_type t c ->
  vcompare t a b = Lt -> vcompare t b c = Lt -> vcompare t a c = Lt.
Proof. exact (fun t => o_trans t (order_ok t)). Qed.

(* hence Key::compare itself is transitive on encodings: iteration order = value order *)
Theorem c15_compare_trans : forall t a b c, wf_ty t = true ->
  has_type t a -> has_type t b -> has_type t c ->
  kcompare t (encode t a) (encode t b) = Lt -> kcompare t (encode t b) (encode t c) = Lt ->
  kcompare t (encode t a) (encode t c) = Lt.
Proof. exact kcompare_trans. Qed.

(* the separator of a < b is an encoding of a value sv of the same type (for &str: valid UTF-8),
   a <= sv < b, and it is no longer than a's encoding *)
Theorem c15_separator_valid : forall t, wf_ty t = true ->
  forall a b, has_type t a -> has_type t b -> vcompare t a b = Lt ->
  let s := separator t (encode t a) (encode t b) in
  exists sv, has_type t sv /\ encode t sv = s /\ vcompare t a sv <> Gt /\ vcompare t sv b = Lt
             /\ (length s <= length (encode t a))%nat.
Proof. exact separator_valid. Qed.

(* ... so from_bytes / compare accept it *)
Theorem c15_separator_decodes : forall t a b, wf_ty t = true ->
  has_type t a -> has_type t b -> vcompare t a b = Lt ->
  exists sv, has_type t sv /\ decode t (separator t (encode t a) (encode t b)) = Some sv.
Proof. exact separator_decodes. Qed.

(* the &str instance spelled out: the cut is on a character boundary *)
Theorem c15_str_separator_valid_utf8 : forall a b,
  forallb is_scalar a = true -> forallb is_scalar b = true -> lexc N.compare a b = Lt ->
  exists sv, forallb is_scalar sv = true /\ utf8_encode sv = str_sep (utf8_encode a) (utf8_encode b) /\
             lexc N.compare a sv <> Gt /\ lexc N.compare sv b = Lt /\
             (length (str_sep (utf8_encode a) (utf8_encode b)) <= length (utf8_encode a))%nat.
Proof. exact str_sep_valid. Qed.

(* lookups route correctly: every key k <= a compares <= s, every key k >= b compares > s,
   under the byte-level Key::compare *)
Theorem c15_routing_ok : forall t a b k, wf_ty t = true ->
  has_type t a -> has_type t b -> has_type t k -> vcompare t a b = Lt ->
  let s := separator t (encode t a) (encode t b) in
  (vcompare t k a <> Gt -> kcompare t (encode t k) s <> Gt) /\
  (vcompare t b k <> Gt -> kcompare t s (encode t k) = Lt).
Proof. exact routing_ok. Qed.

(* what the B-tree stores (branch_separator): as above, and fixed width types are never shortened *)
Theorem c15_branch_separator_valid : forall t, wf_ty t = true ->
  forall a b, has_type t a -> has_type t b -> vcompare t a b = Lt ->
  let s := branch_separator t (encode t a) (encode t b) in
  exists sv, has_type t sv /\ encode t sv = s /\ vcompare t a sv <> Gt /\ vcompare t sv b = Lt
             /\ (length s <= length (encode t a))%nat
             /\ (forall w, fixed_width t = Some w -> length s = w).
Proof. exact branch_separator_valid. Qed.

(* fixed_width is the length of every encoding *)
Theorem c15_fixed_width : forall t v w,
  has_type t v -> fixed_width t = Some w -> length (encode t v) = w.
Proof. exact encode_fixed_len. Qed.

(* min_encoded_key is the encoding of a least value *)
Theorem c15_min_encoded_key : forall t m, wf_ty t = true -> min_encoded_key t = Some m -> size_ok m = true ->
  exists mv, has_type t mv /\ encode t mv = m /\ forall v, has_type t v -> vcompare t mv v <> Gt.
Proof. exact min_key_valid. Qed.

(* ---- non-vacuity: the hypotheses are met by concrete, non-trivial values, and the model computes
   what the Rust unit tests expect *)

Definition vstr (l : list N) := VStr l.

Example c15_nonvacuous_bytes :
  has_type TBytes (VBytes [1;2;3;4;5]) /\ has_type TBytes (VBytes [1;2;9;9;9;9]) /\
  vcompare TBytes (VBytes [1;2;3;4;5]) (VBytes [1;2;9;9;9;9]) = Lt /\
  separator TBytes [1;2;3;4;5] [1;2;9;9;9;9] = [1;2;9].
Proof. vm_compute. repeat split; reflexivity. Qed.

(* ("aaaaaa", "a\u{e9}zz") -> "a\u{e9}": the cut inside a two byte character keeps the character *)
Example c15_nonvacuous_str :
  has_type TStr (vstr [97;97;97;97;97;97]) /\ has_type TStr (vstr [97;233;122;122]) /\
  vcompare TStr (vstr [97;97;97;97;97;97]) (vstr [97;233;122;122]) = Lt /\
  separator TStr (encode TStr (vstr [97;97;97;97;97;97])) (encode TStr (vstr [97;233;122;122])) = encode TStr (vstr [97;233]) /\
  encode TStr (vstr [97;233]) = [97;195;169].
Proof. vm_compute. repeat split; reflexivity. Qed.

(* [Option<&str>;2]: [Some("aaaa"),Some("zzzz")] < [Some("bbbb"),Some("yyyy")] -> [Some("b"),None] *)
Example c15_nonvacuous_array_of_option :
  let t := TArr 2 (TOpt TStr) in
  let a := VList [VSome (vstr [97;97;97;97]); VSome (vstr [122;122;122;122])] in
  let b := VList [VSome (vstr [98;98;98;98]); VSome (vstr [121;121;121;121])] in
  wf_ty t = true /\ has_type t a /\ has_type t b /\ vcompare t a b = Lt /\
  separator t (encode t a) (encode t b) = encode t (VList [VSome (vstr [98]); VNone]) /\
  kcompare t (encode t a) (encode t b) = Lt.
Proof. vm_compute. repeat split; reflexivity. Qed.

(* signed integers: -1 < 0 although 0xff > 0x00 bytewise; i64 extremes *)
Example c15_nonvacuous_signed :
  has_type (TI 1) (VI (-1)) /\ has_type (TI 1) (VI 0) /\ encode (TI 1) (VI (-1)) = [255] /\
  kcompare (TI 1) (encode (TI 1) (VI (-1))) (encode (TI 1) (VI 0)) = Lt /\
  has_type (TI 8) (VI (-9223372036854775808)) /\ has_type (TI 8) (VI 9223372036854775807) /\
  kcompare (TI 8) (encode (TI 8) (VI (-9223372036854775808))) (encode (TI 8) (VI 9223372036854775807)) = Lt.
Proof. vm_compute. repeat split; reflexivity. Qed.

(* a variable width tuple inside an Option: (&str, u8, &[u8]) with the varint length header *)
Example c15_nonvacuous_tuple :
  let t := TOpt (TTup [TStr; TU 1; TBytes]) in
  let a := VSome (VList [vstr [104;105]; VU 7; VBytes [1;2]]) in
  let b := VSome (VList [vstr [104;105]; VU 8; VBytes []]) in
  wf_ty t = true /\ has_type t a /\ has_type t b /\
  encode t a = [1; 2; 104; 105; 7; 1; 2] /\
  vcompare t a b = Lt /\ kcompare t (encode t a) (encode t b) = Lt /\
  decode t (encode t a) = Some a /\
  fixed_width t = None /\ fixed_width (TOpt (TTup [TU 2; TBool])) = Some 4%nat /\
  encode (TOpt (TU 4)) VNone = [0;0;0;0;0] /\ min_encoded_key (TOpt (TU 8)) = Some [0;0;0;0;0;0;0;0;0].
Proof. vm_compute. repeat split; reflexivity. Qed.

(* ------------------------------------------------------------------------------------------------
   Tie to the code (Gen/Fns.v is regenerated from complex_types.rs on every run by tools/gen_fns.py): the
   varint length header of the model is what encode_varint_len appends to its output buffer, and the
   checked conversions of the code succeed for every length below 4 GiB. *)
From RV Require Import Gen.FnsLib Gen.Fns Gen.FnsTypesP.

Theorem c15_code_encode_varint_len_is_model : forall len out,
  Fns.encode_varint_len len out = (out ++ KeyTypes.encode_varint_len len)%list.
Proof. exact encode_varint_len_is_model. Qed.

Theorem c15_code_encode_varint_len_guard_holds : forall len out, (len < 2 ^ 32)%N ->
  Fns.encode_varint_len_guard len out = true.
Proof. exact encode_varint_len_guard_u32. Qed.

(* ------------------------------------------------------------------------------------------------
   Tie to the code, wave 2 (see design.d/GEN.md): decode_varint_len, the little-endian unsigned integer keys
   (instances of the le_value! / le_impl! macros of types.rs) and the classification byte of a TypeName. *)
From RV Require Import Gen.Consts Gen.FnsLibB.

Theorem c15_code_decode_varint_len_is_model : forall d, all_bytes d = true ->
  KeyTypes.decode_varint_len d =
  if Fns.decode_varint_len_guard d
  then Some (fst (Fns.decode_varint_len d), slice_from d (snd (Fns.decode_varint_len d)))
  else None.
Proof. exact decode_varint_len_is_model. Qed.

Theorem c15_code_le_uint_compare_is_model : forall w a b,
  kcompare (TU w) a b = le_u64_compare a b /\ kcompare (TU w) a b = le_u32_compare a b
  /\ kcompare (TU w) a b = le_u128_compare a b.
Proof. exact le_uint_compare_is_model. Qed.

Theorem c15_code_le_uint_from_bytes_is_model : forall d,
  decode (TU 8) d = (if le_u64_from_bytes_guard d then Some (VU (le_u64_from_bytes d)) else None)
  /\ decode (TU 4) d = (if le_u32_from_bytes_guard d then Some (VU (le_u32_from_bytes d)) else None)
  /\ decode (TU 16) d = (if le_u128_from_bytes_guard d then Some (VU (le_u128_from_bytes d)) else None).
Proof. exact le_uint_from_bytes_is_model. Qed.

Theorem c15_code_type_classification_is_model :
  TypeClassification_to_byte TypeClassification_Internal = TYPE_CLASS_INTERNAL
  /\ TypeClassification_to_byte TypeClassification_UserDefined = TYPE_CLASS_USER
  /\ TypeClassification_to_byte TypeClassification_Internal2 = TYPE_CLASS_INTERNAL2
  /\ TypeClassification_to_byte TypeClassification_Internal3 = TYPE_CLASS_INTERNAL3
  /\ (forall c, TypeClassification_from_byte (TypeClassification_to_byte c) = c
              /\ TypeClassification_from_byte_guard (TypeClassification_to_byte c) = true).
Proof. exact type_classification_is_model. Qed.
