(* C06 -- Every page has exactly one owner; no leak, no early reuse.
   This file contains only statements; every proof is `exact <lemma>`. *)
From Coq Require Import List NArith.
From RV Require Import Txn.PSet Txn.Own Txn.OwnP.
Import ListNotations.

(* the boolean checker run on every observed state of the implementation is sound *)
Theorem c06_own_check_sound : forall s, own_checkb s = true -> InvObs s.
Proof. exact own_check_sound_obs. Qed.
