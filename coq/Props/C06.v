(* C06 -- Every page has exactly one owner; no leak, no early reuse.
   This file contains only statements; every proof is `exact <lemma>`.
   Model: coq/Txn/Own.v (page-ownership state machine over abstract page ids; the header of that file
   lists what is abstracted).  `Inv` is the invariant O1..O4 + id bookkeeping; `oracle_ok` are the
   side conditions on the oracle choices (page sets of the trees after a mutation), checked on every run. *)
From Coq Require Import List NArith.
From RV Require Import Txn.PSet Txn.Own Txn.OwnP Txn.OwnThmP.
Import ListNotations.

Theorem c06_inv_init : Inv init.
Proof. exact inv_init. Qed.

(* every step, every admissible oracle choice *)
Theorem c06_inv_step : forall s o, Inv s -> oracle_ok s o = true -> Inv (step s o).
Proof. exact inv_step. Qed.

(* every history (induction on its length), from any state satisfying the invariant *)
Theorem c06_inv_reach : forall h s, Inv s -> admissible s h -> Inv (run h s).
Proof. exact inv_reach. Qed.

Theorem c06_inv_reach_init : forall h, admissible init h -> Inv (run h init).
Proof. exact inv_reach_init. Qed.

(* O1: at a transaction boundary every allocated page has exactly one owner among the current trees,
   DATA_FREED, SYSTEM_FREED and the unpersisted freed records; every other page is free *)
Theorem c06_no_leak : forall s, Inv s -> inw s = false ->
  NoDup (alloc s) /\ NoDup (owned_c s) /\ (forall p, In p (alloc s) <-> In p (owned_c s)).
Proof. exact no_leak. Qed.

Theorem c06_no_leak_in_txn : forall s, Inv s ->
  NoDup (owned_c s ++ wasc s) /\ (forall p, In p (alloc s) <-> In p (owned_c s ++ wasc s)) /\
  NoDup (owned_w s) /\ (forall p, In p (alloc s) <-> In p (owned_w s)).
Proof. exact no_leak_in_txn. Qed.

(* O2: pages of the durable commit, of every live reader and of every savepoint are allocated *)
Theorem c06_pinned_allocated : forall s, Inv s -> incl (pinned s) (alloc s).
Proof. exact pinned_allocated. Qed.

Theorem c06_no_early_free : forall h s, Inv s -> admissible s h -> incl (pinned (run h s)) (alloc (run h s)).
Proof. exact no_early_free. Qed.

(* ... also at the points inside a commit where pages have been returned but the header not switched *)
Theorem c06_no_early_free_commit_dur : forall D' Sd So qr pcf s, Inv s ->
  ok_commit_dur D' Sd So qr pcf s = true ->
  incl (pinned s) (alloc (c_drain (c_store_dfreed (c_adopt (mut_data D' (c_restored s)))))) /\
  incl (pinned s) (alloc (commit_dur_pre D' Sd qr s)).
Proof. exact no_early_free_commit_dur. Qed.

Theorem c06_no_early_free_commit_nd : forall D' Sd s, Inv s -> ok_commit_nd D' Sd s = true ->
  incl (pinned s) (alloc (n_reclaim (n_store_ufreed (mut_data D' (c_restored s))))) /\
  incl (pinned s) (alloc (commit_nd_pre D' Sd s)).
Proof. exact no_early_free_commit_nd. Qed.

(* pages handed out by the allocator are never pinned ones (nothing pinned is rewritten) *)
Theorem c06_fresh_not_pinned_data : forall D' s, Inv s -> ok_data D' s = true ->
  disjoint (minus D' (wdata s)) (pinned s).
Proof. exact fresh_not_pinned_data. Qed.

Theorem c06_fresh_not_pinned_sys : forall S' s, Inv s -> ok_sys S' s = true ->
  disjoint (minus S' (wsys s)) (pinned s).
Proof. exact fresh_not_pinned_sys. Qed.

(* the boolean checker run on every observed state of the implementation is sound *)
Theorem c06_own_check_sound : forall s, own_checkb s = true -> InvObs s.
Proof. exact own_check_sound_obs. Qed.

(* ---- non-vacuity: a concrete admissible history reaching a state where a savepoint keeps pages
   alive through DATA_FREED entries, with a quick-repair SYSTEM_FREED entry, after durable and
   non-durable commits, a reader begun and dropped ---- *)
Definition c06_example_history : list op :=
  [ OBeginWrite; OMutData [1;2;3]; OCommitDur [1;2;3] [10;11] [] false true;
    OBeginRead 7%N;
    OBeginWrite; OMutData [1;2;4;5]; OCommitDur [1;2;4;5] [10;12] [] false true;
    OBeginWrite; OSpCreate 9%N false; OMutData [1;6]; OCommitNd [1;6] [10;12;13];
    ODropPin 7%N;
    OBeginWrite; OMutData [1;8]; OCommitDur [1;8] [14;15] [16] true true ]%positive.

Example c06_nonvacuous_history :
  admissible init c06_example_history /\
  own_checkb (run c06_example_history init) = true /\
  pins (run c06_example_history init) = [mkpin 9 3 [1;2;4;5]%positive false] /\
  dfreed (run c06_example_history init) = [(4%N, [2;4;5]%positive); (5%N, [6]%positive)] /\
  sfreed (run c06_example_history init) = [(5%N, [10;12;13]%positive)] /\
  inw (run c06_example_history init) = false.
Proof. vm_compute. repeat split; reflexivity. Qed.

(* the hypotheses of the commit theorems are satisfiable on a non-trivial state: a durable commit
   with live pins and pending freed entries *)
Example c06_nonvacuous_commit :
  let s := run [ OBeginWrite; OMutData [1;2;3]; OCommitDur [1;2;3] [10;11] [] false true;
                 OBeginRead 7%N; OBeginWrite; OMutData [1;2;4;5] ]%positive init in
  ok_commit_dur [1;2;4;5]%positive [10;12]%positive [] false true s = true /\ pinned s <> [] /\ wdfr s = [3%positive].
Proof. vm_compute. repeat split; try reflexivity. discriminate. Qed.

(* ======================================================================================================
   bounded_storage (DESIGN C06 "no_leak ... corollary bounded_storage"): storage returns to pages(current)
   once nothing holds old pages.  `quiet s` = invariant, no write transaction, no reader, no savepoint;
   `qcommit Sd So` = begin_write; commit(Immediate, quick-repair off, post-commit free on) without data change
   (Sd / So: system-tree pages of the committed root / after the epilogue, an oracle); `qok` = the side
   conditions of that commit.  After THREE such commits every pending-free table is empty and the allocator
   holds exactly the pages of the current data and system trees.  Three, not two: the first commit's epilogue
   drains DATA_FREED under a non-durable id that holds its durable ancestor through the second commit (whose
   own epilogue has nothing left to do); the third drains SYSTEM_FREED.  Definitions: coq/Txn/AllocRec.v. *)
From RV Require Import Txn.AllocRec Txn.AllocRecDrainP.

Theorem c06_bounded_storage : forall Sd1 So1 Sd2 So2 Sd3 So3 s, quiet s ->
  let s1 := qcommit Sd1 So1 s in let s2 := qcommit Sd2 So2 s1 in let s3 := qcommit Sd3 So3 s2 in
  qok Sd1 So1 s -> qok Sd2 So2 s1 -> qok Sd3 So3 s2 ->
  NoDup (alloc s3) /\ (forall p, In p (alloc s3) <-> In p (vdata (lat s3) ++ vsys (lat s3))) /\
  flat (dfreed s3) = [] /\ sfreed s3 = [] /\ ufreed s3 = [] /\ unpers s3 = [] /\ pend s3 = [] /\ pins s3 = [] /\
  inw s3 = false /\ vdata (lat s3) = vdata (lat s).
Proof. exact bounded_storage. Qed.

(* after the first of them DATA_FREED and the unpersisted freed records are already empty *)
Theorem c06_first_quiet_commit_drains_data : forall Sd So s, quiet s ->
  flat (dfreed (qcommit Sd So s)) = [] /\ ufreed (qcommit Sd So s) = [] /\ vdata (lat (qcommit Sd So s)) = vdata (lat s).
Proof. exact qcommit_A. Qed.

(* ---- non-vacuity, and why three: after a non-durable commit (pending: an unpersisted freed record, a
   SYSTEM_FREED entry, a pending non-durable id) the first quiet commit's epilogue runs and leaves a pending id,
   the second still leaves the epilogue's SYSTEM_FREED entry, the third leaves exactly the current trees *)
Definition c06_quiet_history : list op :=
  [ OBeginWrite; OMutData [1;2;3]; OCommitDur [1;2;3] [10;11] [] false true;
    OBeginWrite; OMutData [1;2;4]; OCommitNd [1;2;4] [10;12] ]%positive.

Example c06_bounded_storage_nonvacuous :
  let s := run c06_quiet_history init in
  let s1 := qcommit [10;12]%positive [10;13]%positive s in
  let s2 := qcommit [10;13]%positive [] s1 in
  let s3 := qcommit [10;13]%positive [] s2 in
  admissible init c06_quiet_history /\ inw s = false /\ pins s = [] /\
  ufreed s = [(3%N, [3]%positive)] /\ sfreed s = [(3%N, [11]%positive)] /\ pend s = [(3%N, 2%N)] /\
  qok [10;12]%positive [10;13]%positive s /\ qok [10;13]%positive [] s1 /\ qok [10;13]%positive [] s2 /\
  pend s1 = [(5%N, 4%N)] /\ sfreed s1 = [(3%N, [11]%positive); (5%N, [12]%positive)] /\
  pend s2 = [] /\ sfreed s2 = [(5%N, [12]%positive)] /\
  sfreed s3 = [] /\ alloc s3 = [13; 4; 10; 1; 2]%positive /\ vdata (lat s3) = [1;2;4]%positive /\ vsys (lat s3) = [10;13]%positive.
Proof. vm_compute. repeat split; reflexivity. Qed.

(* ------------------------------------------------------------------------------------------------
   Tie to the code (Gen/Fns.v is regenerated from transactions.rs on every run by tools/gen_fns.py; see
   design.d/GEN.md): the free horizons of the ownership model are the expressions translated from
   durable_commit / non_durable_commit (`oldest_live_read...().map_or(transaction_id, |x| x.next())`). *)
From RV Require Import Gen.FnsLib Gen.Fns Gen.FnsTxnP.

Theorem c06_code_durable_commit_free_until_is_model : forall dflt s,
  Own.horizon dflt s = durable_commit_free_until (PSet.minN (Own.live_ids s)) dflt.
Proof. exact own_horizon_is_model. Qed.

Theorem c06_code_non_durable_commit_free_until_is_model : forall dflt s,
  Own.nd_horizon dflt s
  = non_durable_commit_free_until
      (PSet.minN (filter (fun r => PSet.memN r (map fst (Own.pend s))) (map Own.ptxn (Own.pins s)))) dflt.
Proof. exact own_nd_horizon_is_model. Qed.
