(* C04 -- A table behaves as an ordered map.
   This file contains only statements; every proof is `exact <lemma>`.
   K, V: abstract key and value types; cmp: the key order (Key::compare on encodings; C15 ties it to
   the value order); OrderLaws cmp is an explicit premise everywhere (instantiated below for the
   concrete key type of the oracle, so it is satisfiable). *)
From Coq Require Import List NArith Bool.
From RV Require Import Base.Bytes Base.SortedMap Base.SortedMapP
  Btree.Tree Btree.TreeP Btree.Read Btree.ReadP Btree.Mutator Btree.MutatorP Btree.DeleteP Btree.ProgramP Btree.Inst Btree.InstP.
Import ListNotations.

(* ---- the specification object is well behaved ------------------------------------------- *)
Theorem c04_spec_programs_keep_sorted : forall K V (cmp : K -> K -> comparison), OrderLaws cmp ->
  forall (ops : list (@op K V)) m, sorted cmp m -> sorted cmp (snd (run cmp ops m)).
Proof. exact (@sorted_run). Qed.

Theorem c04_spec_get_insert_same : forall K V (cmp : K -> K -> comparison), OrderLaws cmp ->
  forall (m : @map K V) k v, SortedMap.get cmp (SortedMap.insert cmp m k v) k = Some v.
Proof. exact (@get_insert_same). Qed.

Theorem c04_spec_get_insert_other : forall K V (cmp : K -> K -> comparison), OrderLaws cmp ->
  forall (m : @map K V) k v k', k' <> k -> SortedMap.get cmp (SortedMap.insert cmp m k v) k' = SortedMap.get cmp m k'.
Proof. exact (@get_insert_other). Qed.

Theorem c04_spec_get_remove_same : forall K V (cmp : K -> K -> comparison), OrderLaws cmp ->
  forall (m : @map K V) k, sorted cmp m -> SortedMap.get cmp (SortedMap.remove cmp m k) k = None.
Proof. exact (@get_remove_same). Qed.

Theorem c04_spec_get_remove_other : forall K V (cmp : K -> K -> comparison), OrderLaws cmp ->
  forall (m : @map K V) k k', k' <> k -> SortedMap.get cmp (SortedMap.remove cmp m k) k' = SortedMap.get cmp m k'.
Proof. exact (@get_remove_other). Qed.

(* a sorted map is determined by its lookups: the list model has no hidden state *)
Theorem c04_spec_extensional : forall K V (cmp : K -> K -> comparison), OrderLaws cmp ->
  forall (m1 m2 : @map K V), sorted cmp m1 -> sorted cmp m2 ->
  (forall k, SortedMap.get cmp m1 k = SortedMap.get cmp m2 k) -> m1 = m2.
Proof. exact (@map_ext). Qed.

(* pop_first / pop_last return first / last and remove exactly that key *)
Theorem c04_spec_pop_last : forall K V (cmp : K -> K -> comparison), OrderLaws cmp ->
  forall (m : @map K V), sorted cmp m ->
  pop_last m = (last m, match last m with Some e => SortedMap.remove cmp m (fst e) | None => m end).
Proof. exact (@pop_last_spec). Qed.

(* one step of extract_if (either end) removes exactly the yielded key, nothing else *)
Theorem c04_spec_extract_step : forall K V (cmp : K -> K -> comparison), OrderLaws cmp ->
  forall (p : K -> V -> bool) (front : bool) st o st',
  (if front then ext_next p st else ext_next_back p st) = (o, st') -> sorted cmp (ext_finish st) ->
  ext_finish st' = match o with Some e => SortedMap.remove cmp (ext_finish st) (fst e) | None => ext_finish st end.
Proof. exact (@ext_step_remove). Qed.

Theorem c04_spec_extract_window_is_range : forall K V (cmp : K -> K -> comparison), OrderLaws cmp ->
  forall (m : @map K V) lo hi, sorted cmp m -> x_mid (ext_begin cmp m lo hi) = range cmp m lo hi.
Proof. exact (@ext_begin_mid). Qed.

(* ---- reads on a well-formed tree are the map's reads --------------------------------------- *)
(* get (binary search + child_for_key routing), range with any bounds in both directions,
   first, last, len *)
Theorem c04_read_correct : forall K V (cmp : K -> K -> comparison), OrderLaws cmp ->
  forall (bt : @btree K V), TreeInv cmp bt ->
  forall q, Read.query cmp bt q = SortedMap.run_query cmp (abs_tree bt) q.
Proof. exact (@read_correct_lemma). Qed.

Theorem c04_wf_check_sound : forall K V (cmp : K -> K -> comparison), OrderLaws cmp ->
  forall (t : @node K V), wf_checkb cmp t = true -> BTreeInv cmp t.
Proof. exact (@wf_check_sound_lemma). Qed.

Theorem c04_tree_check_sound : forall K V (cmp : K -> K -> comparison), OrderLaws cmp ->
  forall (bt : @btree K V), tree_checkb cmp bt = true -> TreeInv cmp bt.
Proof. exact (@tree_check_sound). Qed.

Theorem c04_inv_sorted : forall K V (cmp : K -> K -> comparison), OrderLaws cmp ->
  forall (t : @node K V), BTreeInv cmp t -> sorted cmp (abs t).
Proof. exact (@BTreeInv_sorted). Qed.

(* ---- the modelled mutator refines the map ------------------------------------------------------ *)
(* MutateHelper::insert on the logical tree: size-driven splits (leaf build_split at half the bytes,
   branch split at keys/2 with >= 3 keys), single-large-value sibling path, rightmost-append path,
   root growth.  Holds for every page size, size function, fixed-width flag, every valid separator
   function and EVERY behaviour of the in-place oracle (dirty/clean pages, page order). *)
Theorem c04_insert_refines : forall K V (cmp : K -> K -> comparison), OrderLaws cmp ->
  forall (ksize : K -> N) (vsize : V -> N) (fixed_k fixed_v : bool) (page_size : N)
         (sep : K -> K -> K) (inplace : list (K * V) -> K -> V -> bool),
  valid_sep cmp sep ->
  forall (bt : @btree K V) k v, TreeInv cmp bt ->
  let '(bt', old) := Mutator.insert cmp ksize vsize fixed_k fixed_v page_size sep inplace bt k v in
  TreeInv cmp bt' /\ abs_tree bt' = SortedMap.insert cmp (abs_tree bt) k v /\ old = SortedMap.get cmp (abs_tree bt) k.
Proof. exact (@insert_refines_lemma). Qed.

(* MutateHelper::delete_key on the logical tree: DeletionResult {Subtree, DeletedSubtree, PartialLeaf,
   PartialBranch, DeletedBranch}, plan_leaf_delete (delete / merge below a third of a page / rebuild),
   apply_child_deletion_result (merge with the left sibling unless index 0, single-large-value
   exemption, re-split of the merged node, dropping the separator between the merged pair),
   finalize_branch_builder, finish_deletion (root collapse). *)
Theorem c04_delete_refines : forall K V (cmp : K -> K -> comparison), OrderLaws cmp ->
  forall (ksize : K -> N) (vsize : V -> N) (fixed_k fixed_v : bool) (page_size : N) (sep : K -> K -> K),
  valid_sep cmp sep ->
  forall (bt : @btree K V) k, TreeInv cmp bt ->
  let '(bt', old) := Mutator.delete cmp ksize vsize fixed_k fixed_v page_size sep bt k in
  TreeInv cmp bt' /\ abs_tree bt' = SortedMap.remove cmp (abs_tree bt) k /\ old = SortedMap.get cmp (abs_tree bt) k.
Proof. exact (@delete_refines_lemma). Qed.

(* programs made of every read query, insert, remove, pop_first, pop_last (the operations of Mutator.v);
   the program theorem over all proved writers is c04_program_refines_partial further down *)
Theorem c04_program_refines_base : forall K V (cmp : K -> K -> comparison), OrderLaws cmp ->
  forall (ksize : K -> N) (vsize : V -> N) (fixed_k fixed_v : bool) (page_size : N)
         (sep : K -> K -> K) (inplace : list (K * V) -> K -> V -> bool),
  valid_sep cmp sep ->
  forall (ops : list (@tree_op K V)) (bt : @btree K V), TreeInv cmp bt ->
  let '(xs, bt') := run_tree cmp ksize vsize fixed_k fixed_v page_size sep inplace ops bt in
  TreeInv cmp bt' /\ (xs, abs_tree bt') = run cmp (List.map spec_op ops) (abs_tree bt).
Proof. exact (@program_refines_partial_lemma). Qed.

(* config independence is a corollary: the right-hand sides above do not mention page_size, the size
   functions, the separator or the in-place oracle *)
Theorem c04_config_independent : forall K V (cmp : K -> K -> comparison), OrderLaws cmp ->
  forall ksize vsize fk fv ps sep inplace ksize' vsize' fk' fv' ps' sep' inplace',
  valid_sep cmp sep -> valid_sep cmp sep' ->
  forall (ops : list (@tree_op K V)) (bt bt2 : @btree K V), TreeInv cmp bt -> TreeInv cmp bt2 ->
  abs_tree bt = abs_tree bt2 ->
  let '(xs, r) := run_tree cmp ksize vsize fk fv ps sep inplace ops bt in
  let '(xs', r') := run_tree cmp ksize' vsize' fk' fv' ps' sep' inplace' ops bt2 in
  xs = xs' /\ abs_tree r = abs_tree r'.
Proof. exact (@config_independent_lemma). Qed.

(* the order of the oracle's key type satisfies the laws (so none of the above is vacuous) *)
Theorem c04_key_order_laws : OrderLaws key_cmp.
Proof. exact key_cmp_laws. Qed.

(* ---- non-vacuity ---------------------------------------------------------------------------- *)
Definition ex_tree : @btree key bytes :=
  mk_btree (Some (Branch (Leaf [(KBytes [1], [10]); (KBytes [1;2], [])])
                         [(KBytes [1;9], Branch (Leaf [(KBytes [2], [7;7])]) [(KBytes [2], Leaf [(KBytes [3], [1])])]);
                          (KBytes [5], Branch (Leaf [(KBytes [6], [])]) [(KBytes [7], Leaf [(KBytes [8;0], [2])])])]))
           6%N.

Example c04_nonvacuous_tree_inv_fails_on_uneven_depth : tree_checkb key_cmp ex_tree = false.
Proof. vm_compute. reflexivity. Qed.

Definition ex_tree2 : @btree key bytes :=
  mk_btree (Some (Branch (Branch (Leaf [(KBytes [1], [10]); (KBytes [1;2], [])]) [(KBytes [1;9], Leaf [(KBytes [2], [7;7])])])
                         [(KBytes [2], Branch (Leaf [(KBytes [3], [1]); (KBytes [4], [])]) [(KBytes [5], Leaf [(KBytes [6], [])]); (KBytes [7], Leaf [(KBytes [8;0], [2])])])]))
           7%N.

Example c04_nonvacuous_tree_inv : TreeInv key_cmp ex_tree2.
Proof. apply (tree_check_sound key_cmp key_cmp_laws). vm_compute. reflexivity. Qed.

Example c04_nonvacuous_read :
  Read.query key_cmp ex_tree2 (QRange (Excluded (KBytes [1;2])) (Included (KBytes [6]))) =
  OList [(KBytes [2], [7;7]%N); (KBytes [3], [1]%N); (KBytes [4], []); (KBytes [6], [])] /\
  Read.query key_cmp ex_tree2 (QGet (KBytes [8;0])) = OVal (Some [2]%N).
Proof. vm_compute. split; reflexivity. Qed.

(* the mutator on a concrete 64-byte "page": 20 inserts build a three-level tree that checks, and the
   hypotheses of c04_insert_refines are met (left-separator is valid) *)
Definition ex_sep (l r : key) : key := l.
Lemma ex_sep_valid : valid_sep key_cmp ex_sep.
Proof.
  intros l r H. unfold ex_sep. split; [rewrite (cmp_refl _ key_cmp_laws); discriminate|exact H].
Qed.

Definition ex_ins (bt : @btree key bytes) (n : N) : @btree key bytes :=
  fst (Mutator.insert key_cmp key_size val_size true false 64%N ex_sep (fun _ _ _ => false) bt (KU64 ((n * 7) mod 23)) [n; n]%N).

Definition ex_built : @btree key bytes :=
  fold_left ex_ins [1;2;3;4;5;6;7;8;9;10;11;12;13;14;15;16;17;18;19;20]%N empty_tree.

Example c04_nonvacuous_mutator :
  tree_checkb key_cmp ex_built = true /\
  match bt_root ex_built with Some t => height t | None => O end = 2%nat /\
  tlen ex_built = 20%N /\
  tget key_cmp ex_built (KU64 21) = Some [3; 3]%N.
Proof. vm_compute. repeat split; reflexivity. Qed.

Definition ex_del (bt : @btree key bytes) (n : N) : @btree key bytes :=
  fst (Mutator.delete key_cmp key_size val_size true false 64%N ex_sep bt (KU64 ((n * 7) mod 23))).

Example c04_nonvacuous_delete :
  let bt15 := fold_left ex_del [1;2;3;4;5;6;7;8;9;10;11;12;13;14;15]%N ex_built in
  tree_checkb key_cmp bt15 = true /\ tlen bt15 = 5%N /\
  match bt_root bt15 with Some t => height t | None => O end = 1%nat /\
  tget key_cmp bt15 (KU64 21) = None /\ tget key_cmp bt15 (KU64 ((16 * 7) mod 23)) = Some [16; 16]%N /\
  bt_root (fold_left ex_del [16;17;18;19;20]%N bt15) = None.
Proof. vm_compute. repeat split; reflexivity. Qed.

(* ---- the shape model (the trees compared with the real B-tree) IS the logical mutator ----------- *)
(* Btree/Shape.v decorates the logical tree with what the code's shape decisions also depend on (dirty =
   uncommitted page, allocated length of a leaf page, "same page" results) and takes the in-place decisions
   from them (sufficient_insert/replace_inplace_space); `./check C04` compares its trees node by node with
   Table::verif_shape after every operation.  Erasing the decorations gives exactly Mutator.v, with
   Mutator's arbitrary in-place oracle instantiated by the decision Shape.v takes. *)
From RV Require Import Btree.Shape Btree.ShapeP Btree.ShapeRefP Btree.ShapeInst Btree.ShapeInstP.

Theorem c04_shape_insert_erases : forall K V (cmp : K -> K -> comparison)
  (ksize : K -> N) (vsize : V -> N) (fixed_k fixed_v : bool) (page_size : N) (sep : K -> K -> K)
  (st : @sbtree K V) k v,
  let '(st', old) := s_insert cmp ksize vsize fixed_k fixed_v page_size sep st k v in
  Mutator.insert cmp ksize vsize fixed_k fixed_v page_size sep
    (s_oracle cmp ksize vsize fixed_k fixed_v page_size st k v) (erase_tree st) k v = (erase_tree st', old).
Proof. exact (@erase_insert). Qed.

Theorem c04_shape_delete_erases : forall K V (cmp : K -> K -> comparison)
  (ksize : K -> N) (vsize : V -> N) (fixed_k fixed_v : bool) (page_size : N) (sep : K -> K -> K)
  (st : @sbtree K V) k,
  let '(st', old) := s_delete cmp ksize vsize fixed_k fixed_v page_size sep st k in
  Mutator.delete cmp ksize vsize fixed_k fixed_v page_size sep (erase_tree st) k = (erase_tree st', old).
Proof. exact (@erase_delete). Qed.

Theorem c04_shape_pop_first_erases : forall K V (cmp : K -> K -> comparison)
  (ksize : K -> N) (vsize : V -> N) (fixed_k fixed_v : bool) (page_size : N) (sep : K -> K -> K) (st : @sbtree K V),
  let '(st', e) := s_pop_first cmp ksize vsize fixed_k fixed_v page_size sep st in
  pop_first_tree cmp ksize vsize fixed_k fixed_v page_size sep (erase_tree st) = (erase_tree st', e).
Proof. exact (@erase_pop_first). Qed.

Theorem c04_shape_pop_last_erases : forall K V (cmp : K -> K -> comparison)
  (ksize : K -> N) (vsize : V -> N) (fixed_k fixed_v : bool) (page_size : N) (sep : K -> K -> K) (st : @sbtree K V),
  let '(st', e) := s_pop_last cmp ksize vsize fixed_k fixed_v page_size sep st in
  pop_last_tree cmp ksize vsize fixed_k fixed_v page_size sep (erase_tree st) = (erase_tree st', e).
Proof. exact (@erase_pop_last). Qed.

(* commit only clears dirty flags *)
Theorem c04_shape_commit_erases : forall K V (st : @sbtree K V), erase_tree (s_commit st) = erase_tree st.
Proof. exact (@erase_commit). Qed.

(* hence the refinement theorems hold for the shape model's trees: SInv st := TreeInv (erase_tree st),
   sabs st := abs_tree (erase_tree st) *)
Theorem c04_shape_insert_refines : forall K V (cmp : K -> K -> comparison), OrderLaws cmp ->
  forall (ksize : K -> N) (vsize : V -> N) (fixed_k fixed_v : bool) (page_size : N) (sep : K -> K -> K),
  valid_sep cmp sep ->
  forall (st : @sbtree K V) k v, SInv cmp st ->
  let '(st', old) := s_insert cmp ksize vsize fixed_k fixed_v page_size sep st k v in
  SInv cmp st' /\ sabs st' = SortedMap.insert cmp (sabs st) k v /\ old = SortedMap.get cmp (sabs st) k.
Proof. exact (@shape_insert_refines_lemma). Qed.

Theorem c04_shape_delete_refines : forall K V (cmp : K -> K -> comparison), OrderLaws cmp ->
  forall (ksize : K -> N) (vsize : V -> N) (fixed_k fixed_v : bool) (page_size : N) (sep : K -> K -> K),
  valid_sep cmp sep ->
  forall (st : @sbtree K V) k, SInv cmp st ->
  let '(st', old) := s_delete cmp ksize vsize fixed_k fixed_v page_size sep st k in
  SInv cmp st' /\ sabs st' = SortedMap.remove cmp (sabs st) k /\ old = SortedMap.get cmp (sabs st) k.
Proof. exact (@shape_delete_refines_lemma). Qed.

Theorem c04_shape_pop_first_refines : forall K V (cmp : K -> K -> comparison), OrderLaws cmp ->
  forall (ksize : K -> N) (vsize : V -> N) (fixed_k fixed_v : bool) (page_size : N) (sep : K -> K -> K),
  valid_sep cmp sep ->
  forall (st : @sbtree K V), SInv cmp st ->
  let '(st', e) := s_pop_first cmp ksize vsize fixed_k fixed_v page_size sep st in
  SInv cmp st' /\ (e, sabs st') = pop_first (sabs st).
Proof. exact (@shape_pop_first_refines_lemma). Qed.

Theorem c04_shape_pop_last_refines : forall K V (cmp : K -> K -> comparison), OrderLaws cmp ->
  forall (ksize : K -> N) (vsize : V -> N) (fixed_k fixed_v : bool) (page_size : N) (sep : K -> K -> K),
  valid_sep cmp sep ->
  forall (st : @sbtree K V), SInv cmp st ->
  let '(st', e) := s_pop_last cmp ksize vsize fixed_k fixed_v page_size sep st in
  SInv cmp st' /\ (e, sabs st') = pop_last (sabs st).
Proof. exact (@shape_pop_last_refines_lemma). Qed.

(* the separator functions the check runs the shape model with (C15's <&[u8]>::separator and
   <&str>::separator behind a validity guard, `left` for fixed-width keys) satisfy valid_sep *)
Theorem c04_shape_separators_valid :
  valid_sep key_cmp key_sep_bytes /\ valid_sep key_cmp key_sep_str /\ valid_sep key_cmp key_sep_left.
Proof. exact (conj key_sep_bytes_valid (conj key_sep_str_valid key_sep_left_valid)). Qed.

(* non-vacuity: 48 inserts, a commit, 4 removes and 3 inserts on a 128-byte "page" give a tree of
   height 2 with committed and uncommitted pages, leaves of different allocated length; it satisfies SInv,
   and its erasure is what Mutator.v computes *)
Definition ex_s_ins (st : @sbtree key bytes) (n : N) : @sbtree key bytes :=
  fst (s_insert key_cmp key_size val_size false false 128%N key_sep_bytes st (KBytes [n * 37 mod 64; n]%N) (repeat n (N.to_nat (n mod 7)))).
Definition ex_s_del (st : @sbtree key bytes) (n : N) : @sbtree key bytes :=
  fst (s_delete key_cmp key_size val_size false false 128%N key_sep_bytes st (KBytes [n * 37 mod 64; n]%N)).
Definition ex_shape1 : @sbtree key bytes :=
  s_commit (fold_left ex_s_ins (List.map N.of_nat (seq 1 48)) sempty).
Definition ex_shape2 : @sbtree key bytes :=
  fold_left ex_s_ins [60; 61]%N
    (fst (s_insert key_cmp key_size val_size false false 128%N key_sep_bytes
            (fold_left ex_s_del [2;4;6;8]%N ex_shape1) (KBytes [7]%N) (repeat 5%N 150))).

Fixpoint ex_count (t : @snode key bytes) : N * N * N :=      (* dirty pages, clean pages, leaves larger than one page *)
  match t with
  | SLeaf d a _ => (if d then 1 else 0, if d then 0 else 1, if 128 <? a then 1 else 0)%N
  | SBranch d c0 rest =>
      fold_left (fun acc p => let '(x, y, z) := acc in let '(x', y', z') := ex_count (snd p) in (x + x', y + y', z + z')%N)
                rest (let '(x, y, z) := ex_count c0 in (if d then x + 1 else x, if d then y else y + 1, z)%N)
  end.

Example c04_nonvacuous_shape :
  tree_checkb key_cmp (erase_tree ex_shape2) = true /\
  match sb_root ex_shape2 with Some t => (sheight t, ex_count t) | None => (O, (0, 0, 0)%N) end = (2%nat, (10, 2, 1)%N) /\
  sb_len ex_shape2 = 47%N /\
  tget key_cmp (erase_tree ex_shape2) (KBytes [7]%N) = Some (repeat 5%N 150).
Proof. vm_compute. repeat split; reflexivity. Qed.

(* ---- the remaining writers of the statement --------------------------------------------------- *)
From RV Require Import Btree.Guard Btree.GuardP Btree.ShapeGuard Btree.ShapeGuardP
  Btree.Scan Btree.RangeMut Btree.ScanTree Btree.ScanTreeP Btree.SpliceP Btree.SpliceTreeP Btree.ScanP Btree.ScanBackP Btree.RetainTreeP Btree.ProgramX Btree.ProgramXE.

(* get_mut(k) followed by AccessGuardMut::insert(v) (in place, or the leaf rebuilt on a new page and the
   parent pointer patched): the entry's value is replaced, nothing else changes; absent key: nothing happens *)
Theorem c04_guard_set_refines : forall K V (cmp : K -> K -> comparison), OrderLaws cmp ->
  forall (ksize : K -> N) (vsize : V -> N) (fixed_k fixed_v : bool) (page_size : N) (sep : K -> K -> K),
  valid_sep cmp sep ->
  forall (bt : @btree K V) k v, TreeInv cmp bt ->
  let '(bt', old) := guard_set cmp bt k v in
  TreeInv cmp bt' /\
  abs_tree bt' = match SortedMap.get cmp (abs_tree bt) k with Some _ => SortedMap.insert cmp (abs_tree bt) k v | None => abs_tree bt end /\
  old = SortedMap.get cmp (abs_tree bt) k.
Proof. exact (@guard_set_refines_lemma). Qed.

(* insert_reserve (+ the write through AccessGuardMutInPlace), get_mut with any number of guard writes, and
   the entry API (or_insert, and_modify + or_insert, Occupied/Vacant insert, remove, remove_entry, get) *)
Theorem c04_guard_ops_refine : forall K V (cmp : K -> K -> comparison), OrderLaws cmp ->
  forall (ksize : K -> N) (vsize : V -> N) (fixed_k fixed_v : bool) (page_size : N) (sep : K -> K -> K),
  valid_sep cmp sep ->
  forall (inplace : list (K * V) -> K -> V -> bool) (blank : V -> V) (bt : @btree K V) (o : @gop K V), TreeInv cmp bt ->
  let '(x, bt') := apply_gop cmp ksize vsize fixed_k fixed_v page_size sep inplace blank bt o in
  TreeInv cmp bt' /\ (x, abs_tree bt') = spec_gop cmp (abs_tree bt) o.
Proof. exact (@apply_gop_refines). Qed.

(* the shape model of these operations (compared with the real tree) erases to Guard.v *)
Theorem c04_shape_guard_ops_erase : forall K V (cmp : K -> K -> comparison)
  (ksize : K -> N) (vsize : V -> N) (fixed_k fixed_v : bool) (page_size : N) (sep : K -> K -> K) (blank : V -> V)
  (st : @sbtree K V) (o : @gop K V),
  let '(x, st') := s_apply_gop cmp ksize vsize fixed_k fixed_v page_size sep blank st o in
  apply_gop cmp ksize vsize fixed_k fixed_v page_size sep
    (gop_oracle cmp ksize vsize fixed_k fixed_v page_size blank st o) blank (erase_tree st) o = (x, erase_tree st').
Proof. exact (@erase_apply_gop). Qed.

(* MutateHelper::delete_leaf_entries: a batch of indexes removed from leaf j, rebalanced along the path *)
Theorem c04_flush_refines : forall K V (cmp : K -> K -> comparison), OrderLaws cmp ->
  forall (ksize : K -> N) (vsize : V -> N) (fixed_k fixed_v : bool) (page_size : N) (sep : K -> K -> K),
  valid_sep cmp sep ->
  forall allow (bt : @btree K V) j idx, TreeInv cmp bt -> (j < length (bt_leaves bt))%nat ->
  valid_idx (length (nth j (bt_leaves bt) [])) idx ->
  TreeInv cmp (t_flush ksize vsize fixed_k fixed_v page_size sep allow bt j idx) /\
  ScanTreeP.contents (t_flush ksize vsize fixed_k fixed_v page_size sep allow bt j idx) =
    concat (firstn j (bt_leaves bt)) ++ remove_indexes (nth j (bt_leaves bt) []) idx ++ concat (skipn (S j) (bt_leaves bt)).
Proof. exact (@t_flush_spec). Qed.

(* MutateHelper::replace_leaf_children + build_replacement_leaves: a run of sibling leaves (first leaf has a
   parent, every leaf of the run but the last has a following sibling) replaced by leaves packed from any
   subsequence of its entries -- neighbour absorption, greedy packing, balanced tail, rebalancing upward *)
Theorem c04_splice_refines : forall K V (cmp : K -> K -> comparison), OrderLaws cmp ->
  forall (ksize : K -> N) (vsize : V -> N) (fixed_k fixed_v : bool) (page_size : N) (sep : K -> K -> K),
  valid_sep cmp sep ->
  forall (bt : @btree K V) a n es r, TreeInv cmp bt -> (1 <= n)%nat -> (a + n <= length (bt_leaves bt))%nat ->
  t_has_parent bt a = true -> (forall x, (S x < n)%nat -> t_more_children bt (a + x)%nat DNext = true) ->
  Subseq es (ScanP.run_leaves (@bt_leaves K V) bt a n) ->
  N.of_nat (length (ScanP.run_leaves (@bt_leaves K V) bt a n)) = (N.of_nat (length es) + r)%N ->
  TreeInv cmp (t_splice ksize vsize fixed_k fixed_v page_size sep bt a n es r) /\
  ScanP.contents (@bt_leaves K V) (t_splice ksize vsize fixed_k fixed_v page_size sep bt a n es r) =
    concat (firstn a (bt_leaves bt)) ++ es ++ concat (skipn (a + n)%nat (bt_leaves bt)).
Proof. exact (@t_splice_ok). Qed.

(* retain / retain_in: the CursorMut machine of Scan.v (per-leaf batches, direct flush or coalescing run,
   reseek past the rewritten leaf, finish_pending_removals) over the logical tree *)
Theorem c04_retain_refines : forall K V (cmp : K -> K -> comparison), OrderLaws cmp ->
  forall (ksize : K -> N) (vsize : V -> N) (fixed_k fixed_v : bool) (page_size : N) (sep : K -> K -> K),
  valid_sep cmp sep ->
  forall (bt : @btree K V) lo hi p, TreeInv cmp bt ->
  let bt' := t_retain_in cmp ksize vsize fixed_k fixed_v page_size sep bt lo hi p in
  TreeInv cmp bt' /\ abs_tree bt' = SortedMap.retain_in cmp lo hi p (abs_tree bt).
Proof. exact (@t_retain_refines). Qed.

(* extract_if / extract_from_if (BtreeExtractIf over RangeMut, RangeMut.v) consumed from the FRONT: any number of
   next() calls, then the iterator is dropped or closed.  The yields and the final contents are those of the
   specification iterator; the invariant is kept.  (The back end stays parked at the upper bound.  The mirror
   statement for next_back() is c04_extract_backward_refines below.  NOT covered by either: scripts that MIX next()
   and next_back(), i.e. parking a live end, activating the other one, pending batches.) *)
Theorem c04_extract_forward_refines : forall K V (cmp : K -> K -> comparison), OrderLaws cmp ->
  forall (ksize : K -> N) (vsize : V -> N) (fixed_k fixed_v : bool) (page_size : N) (sep : K -> K -> K),
  valid_sep cmp sep ->
  forall (entry_eqb : K * V -> K * V -> bool) (bt : @btree K V) lo hi p n, TreeInv cmp bt ->
  let '(os, x) := t_nexts cmp ksize vsize fixed_k fixed_v page_size sep entry_eqb lo hi p n (t_extract_new bt lo hi) in
  let '(os', st) := ext_run p (repeat true n) (ext_begin cmp (abs_tree bt) lo hi) in
  os = os' /\
  TreeInv cmp (t_extract_close cmp ksize vsize fixed_k fixed_v page_size sep entry_eqb x) /\
  abs_tree (t_extract_close cmp ksize vsize fixed_k fixed_v page_size sep entry_eqb x) = ext_finish st.
Proof. exact (@t_extract_forward_refines). Qed.

(* extract_if / extract_from_if consumed from the BACK: any number of next_back() calls (t_xrun with the script
   `repeat false n`: every step is BtreeExtractIf::next_back over RangeMut with Direction::Previous), then the
   iterator is dropped or closed.  The yields and the final contents are those of the specification's double-ended
   iterator consumed from the back; the invariant is kept.  The back end is a BACKWARD gap cursor (batches recorded
   in decreasing order and reversed by take_removals_ascending, coalescing runs growing towards smaller leaf
   numbers, reseek Before(first key) after a rewrite -- ScanBackP.v mirrors ScanP.v for Direction::Previous and
   needs one more store law, `more_prev`, proved for the tree in RetainTreeP.t_more_prev); the front end stays
   parked at the lower bound.  Empty / reversed bounds are included (the upper cut may then lie inside x_pre). *)
Theorem c04_extract_backward_refines : forall K V (cmp : K -> K -> comparison), OrderLaws cmp ->
  forall (ksize : K -> N) (vsize : V -> N) (fixed_k fixed_v : bool) (page_size : N) (sep : K -> K -> K),
  valid_sep cmp sep ->
  forall (entry_eqb : K * V -> K * V -> bool) (bt : @btree K V) lo hi p n, TreeInv cmp bt ->
  let '(os, x) := t_xrun cmp ksize vsize fixed_k fixed_v page_size sep entry_eqb p (repeat false n) (t_extract_new bt lo hi) in
  let '(os', st) := ext_run p (repeat false n) (ext_begin cmp (abs_tree bt) lo hi) in
  os = os' /\
  TreeInv cmp (t_extract_close cmp ksize vsize fixed_k fixed_v page_size sep entry_eqb x) /\
  abs_tree (t_extract_close cmp ksize vsize fixed_k fixed_v page_size sep entry_eqb x) = ext_finish st.
Proof. exact (@t_extract_backward_refines). Qed.

(* both one-ended consumptions through the same script runner (front = true: n x next(); false: n x next_back()) *)
Theorem c04_extract_onedir_refines : forall K V (cmp : K -> K -> comparison), OrderLaws cmp ->
  forall (ksize : K -> N) (vsize : V -> N) (fixed_k fixed_v : bool) (page_size : N) (sep : K -> K -> K),
  valid_sep cmp sep ->
  forall (entry_eqb : K * V -> K * V -> bool) (bt : @btree K V) lo hi p (front : bool) n, TreeInv cmp bt ->
  let '(os, x) := t_xrun cmp ksize vsize fixed_k fixed_v page_size sep entry_eqb p (repeat front n) (t_extract_new bt lo hi) in
  let '(os', st) := ext_run p (repeat front n) (ext_begin cmp (abs_tree bt) lo hi) in
  os = os' /\
  TreeInv cmp (t_extract_close cmp ksize vsize fixed_k fixed_v page_size sep entry_eqb x) /\
  abs_tree (t_extract_close cmp ksize vsize fixed_k fixed_v page_size sep entry_eqb x) = ext_finish st.
Proof. exact (@t_extract_onedir_refines). Qed.

(* The same conclusion for EVERY script (list bool), i.e. with `repeat front n` replaced by an arbitrary `script`, is
   c04_extract_mixed_refines (proved in round 4, stated further below next to c04_program_refines): it covers the
   double-ended protocol of RangeMut -- park, activate (snapshot match or resolve_batch), entry_in_range against the
   PEER's moving bound, close with one end pending.  Per run the model is also compared with redb (S2) and with the
   specification (SPEC! marker). *)

(* PARTIAL (explicit op coverage).  Covered constructors of ProgramX.xop:
     XBase  (every read query, insert, remove, pop_first, pop_last),
     XGuard (GReserve = insert_reserve, GGetMut = get_mut + AccessGuardMut::insert*, GEntryOrInsert, GEntryModify,
             GEntryInsert, GEntryRemove, GEntryRemoveEntry, GEntryGet = the entry API),
     XRetain, XRetainIn.
   NOT covered (no constructor): extract_if / extract_from_if.  They are modelled (Btree/RangeMut.v over the same
   store as retain); front-only consumption is proved separately (c04_extract_forward_refines); double-ended
   consumption is validated per run: the model's tree equals the real tree after every operation and its yields
   equal the specification's (design.d/C04.md).  Full statement (not a theorem): the same with extract scripts. *)
Theorem c04_program_refines_partial : forall K V (cmp : K -> K -> comparison), OrderLaws cmp ->
  forall (ksize : K -> N) (vsize : V -> N) (fixed_k fixed_v : bool) (page_size : N)
         (sep : K -> K -> K) (inplace : list (K * V) -> K -> V -> bool) (blank : V -> V),
  valid_sep cmp sep ->
  forall (ops : list (@xop K V)) (bt : @btree K V), TreeInv cmp bt ->
  let '(xs, bt') := run_x cmp ksize vsize fixed_k fixed_v page_size sep inplace blank ops bt in
  TreeInv cmp bt' /\ (xs, abs_tree bt') = spec_run_x cmp ops (abs_tree bt).
Proof. exact (@program_x_refines_lemma). Qed.

(* PARTIAL (explicit op coverage): every constructor of ProgramX.xop as above (XE) PLUS extract_if / extract_from_if
   consumed from one end: XExtractOne lo hi p front n = the iterator created over [lo, hi], `n` calls of next()
   (front = true) or next_back() (front = false), then dropped; output = the yielded entries.
   NOT covered BY THIS THEOREM: extract scripts mixing next() and next_back(); they are covered by c04_program_refines
   (XExtract lo hi p (script : list bool)) below. *)
Theorem c04_program_refines_onedir_partial : forall K V (cmp : K -> K -> comparison), OrderLaws cmp ->
  forall (ksize : K -> N) (vsize : V -> N) (fixed_k fixed_v : bool) (page_size : N)
         (sep : K -> K -> K) (inplace : list (K * V) -> K -> V -> bool) (blank : V -> V) (entry_eqb : K * V -> K * V -> bool),
  valid_sep cmp sep ->
  forall (ops : list (@xope K V)) (bt : @btree K V), TreeInv cmp bt ->
  let '(xs, bt') := run_xe cmp ksize vsize fixed_k fixed_v page_size sep inplace blank entry_eqb ops bt in
  TreeInv cmp bt' /\ (xs, abs_tree bt') = spec_run_xe cmp ops (abs_tree bt).
Proof. exact (@program_xe_refines_lemma). Qed.

(* non-vacuity: guard writes and retain_in on the tree built above (64-byte "page", height 2) *)
Example c04_nonvacuous_guard :
  let '(x, bt1) := apply_gop key_cmp key_size val_size true false 64%N ex_sep (fun _ _ _ => false) (fun v => v)
                     ex_built (GGetMut (KU64 21) [[9; 9; 9; 9; 9; 9; 9; 9; 9; 9; 9; 9; 9; 9; 9; 9; 9; 9; 9; 9; 9; 9; 9; 9; 9; 9; 9; 9; 9; 9; 9; 9; 9; 9; 9; 9; 9; 9; 9; 9]%N; [7]%N]) in
  x = OVal (Some [3; 3]%N) /\ tree_checkb key_cmp bt1 = true /\ tget key_cmp bt1 (KU64 21) = Some [7]%N /\ tlen bt1 = 20%N.
Proof. vm_compute. repeat split; reflexivity. Qed.

Example c04_nonvacuous_extract_forward :
  let '(os, x) := t_nexts key_cmp key_size val_size true false 64%N ex_sep entry_eqb (Excluded (KU64 2)) (Included (KU64 19))
                    (fun k v => match k with KU64 n => N.odd n | _ => false end) 5
                    (t_extract_new ex_built (Excluded (KU64 2)) (Included (KU64 19))) in
  let bt1 := t_extract_close key_cmp key_size val_size true false 64%N ex_sep entry_eqb x in
  List.map (option_map fst) os = [Some (KU64 3); Some (KU64 5); Some (KU64 7); Some (KU64 11); Some (KU64 13)] /\
  tree_checkb key_cmp bt1 = true /\ tlen bt1 = 15%N /\ tget key_cmp bt1 (KU64 7) = None /\ tget key_cmp bt1 (KU64 15) <> None.
Proof. vm_compute. repeat split; try reflexivity. discriminate. Qed.

(* non-vacuity of c04_extract_backward_refines: 5 x next_back() of extract_from_if over (2,19] with an odd-key
   predicate on the height-2 tree (7 leaves [1 2 3][4 5][6 7][8 10 11 12][13 14 15 17][18 19 20][21 22]); the scan
   crosses three leaves backward, two of them are rewritten, the tree ends with 6 leaves *)
Definition ex_odd (k : key) (v : bytes) : bool := match k with KU64 n => N.odd n | _ => false end.
Example c04_nonvacuous_extract_backward :
  let '(os, x) := t_xrun key_cmp key_size val_size true false 64%N ex_sep entry_eqb ex_odd (repeat false 5)
                    (t_extract_new ex_built (Excluded (KU64 2)) (Included (KU64 19))) in
  let bt1 := t_extract_close key_cmp key_size val_size true false 64%N ex_sep entry_eqb x in
  List.map (option_map fst) os = [Some (KU64 19); Some (KU64 17); Some (KU64 15); Some (KU64 13); Some (KU64 11)] /\
  (os, abs_tree bt1) = extract_script key_cmp (abs_tree ex_built) (Excluded (KU64 2)) (Included (KU64 19)) ex_odd (repeat false 5) /\
  tree_checkb key_cmp bt1 = true /\ tlen bt1 = 15%N /\ length (bt_leaves bt1) = 6%nat /\
  tget key_cmp bt1 (KU64 13) = None /\ tget key_cmp bt1 (KU64 7) <> None.
Proof. vm_compute. repeat split; try reflexivity. discriminate. Qed.

(* non-vacuity of c04_program_refines_onedir_partial: a program with a back-consumed and a front-consumed extract *)
Example c04_nonvacuous_program_onedir :
  let ops := [XExtractOne (Excluded (KU64 2)) (Included (KU64 19)) ex_odd false 3;
              XE (XBase (TInsert (KU64 9) [9]%N));
              XExtractOne Unbounded (Excluded (KU64 12)) ex_odd true 4;
              XE (XBase (TQuery QLen))] in
  let '(xs, bt1) := run_xe key_cmp key_size val_size true false 64%N ex_sep (fun _ _ _ => false) (fun v => v) entry_eqb ops ex_built in
  (xs, abs_tree bt1) = spec_run_xe key_cmp ops (abs_tree ex_built) /\ tree_checkb key_cmp bt1 = true /\ tlen bt1 = 14%N.
Proof. vm_compute. repeat split; reflexivity. Qed.

(* AN INSTANCE, not a theorem of generality: a MIXED script on the same tree -- next() and next_back() alternate
   over [3,20) with the predicate k mod 3 <> 0; entries are removed at both ends (4 5 7 8 10 from the front,
   19 17 14 13 11 from the back), the two ends meet INSIDE the leaf [8 10 11 12] (pending batches of both ends in
   one leaf), then four more calls return None.  The RangeMut machine agrees with the specification and the result
   satisfies the checker.  The general statement is c04_extract_mixed_refines (proved, below). *)
Definition ex_mod3 (k : key) (v : bytes) : bool := match k with KU64 n => negb (N.eqb (n mod 3) 0) | _ => false end.
Definition ex_alt : list bool := [true; false; true; false; true; false; true; false; true; false; true; false; true; false].
Example c04_instance_extract_mixed_agrees :
  let '(os, x) := t_xrun key_cmp key_size val_size true false 64%N ex_sep entry_eqb ex_mod3 ex_alt
                    (t_extract_new ex_built (Included (KU64 3)) (Excluded (KU64 20))) in
  let bt1 := t_extract_close key_cmp key_size val_size true false 64%N ex_sep entry_eqb x in
  (os, abs_tree bt1) = extract_script key_cmp (abs_tree ex_built) (Included (KU64 3)) (Excluded (KU64 20)) ex_mod3 ex_alt /\
  List.map (option_map fst) (firstn 10 os) =
    [Some (KU64 4); Some (KU64 19); Some (KU64 5); Some (KU64 17); Some (KU64 7); Some (KU64 14); Some (KU64 8); Some (KU64 13);
     Some (KU64 10); Some (KU64 11)] /\
  skipn 10 os = [None; None; None; None] /\ tree_checkb key_cmp bt1 = true /\ tlen bt1 = 10%N /\ length (bt_leaves bt1) = 4%nat.
Proof. vm_compute. repeat split; reflexivity. Qed.

Definition ex_pred (k : key) (v : bytes) : bool := match k with KU64 n => N.even n | _ => true end.
Example c04_nonvacuous_retain :
  let bt1 := t_retain_in key_cmp key_size val_size true false 64%N ex_sep ex_built (Included (KU64 3)) (Excluded (KU64 20)) ex_pred in
  tree_checkb key_cmp bt1 = true /\
  abs_tree bt1 = SortedMap.retain_in key_cmp (Included (KU64 3)) (Excluded (KU64 20)) ex_pred (abs_tree ex_built) /\
  tlen bt1 = 12%N /\ length (bt_leaves bt1) = 4%nat /\ length (bt_leaves ex_built) = 7%nat.
Proof. vm_compute. repeat split; reflexivity. Qed.

(* ---- extract_if / extract_from_if consumed from BOTH ends in ANY order (round 4) ------------------------------
   c04_extract_mixed_refines: for EVERY script (list bool; true = next(), false = next_back()) followed by drop/close, the
   yields of the RangeMut / BtreeExtractIf machine over the logical tree equal the specification's double-ended iterator
   and the final contents equal the specification's; the invariant is kept.  Covered: park (bound = Included(next key) /
   Excluded(leaf boundary key), leaf snapshot + pending batch, the open coalescing run spliced), activate (reseek by the
   own bound; snapshot match => the batch is re-attached at the same gap; no match => resolve_batch = delete_key per
   snapshot entry, then reseek), entry_in_range against the peer's moving bound, both ends pending in one leaf, close with
   either end live / pending / parked (flush_end leaves a junk bound: weak invariant).  Proved for every lawful store
   (ScanMixP.extract_mixed_ok: the laws of ScanP.v / ScanBackP.v plus ONE new law `seek_before_post`, which is
   c04_seek_before_strict for the tree); visible hypothesis: the entry equality used by snapshot_matches is sound
   (entry_eqb x y = true -> x = y; true for the oracle's: ex_entry_eqb_sound).
   c04_program_refines: programs over ALL constructors -- everything of ProgramX.xop (XM) plus XExtract lo hi p script
   with an ARBITRARY script.  The older partial names are kept. *)
From RV Require Import Base.BytesP Btree.Scan Btree.ScanTree Btree.ScanP Btree.RetainTreeP Btree.ProgramX Btree.ProgramXE Btree.SeekStrictP Btree.ScanMixP Btree.MixTreeP.

Theorem c04_seek_before_strict : forall K V (cmp : K -> K -> comparison), OrderLaws cmp ->
  forall (bt : @btree K V) (k : K), TreeInv cmp bt -> bt_leaves bt <> [] ->
  let '(j, _) := t_seek cmp bt (PBefore k) in
  Forall (fun e : K * V => cmp k (fst e) = Lt) (ScanP.post (@bt_leaves K V) bt j).
Proof. exact (@t_seek_before_strict). Qed.

Theorem c04_extract_mixed_refines : forall K V (cmp : K -> K -> comparison), OrderLaws cmp ->
  forall (ksize : K -> N) (vsize : V -> N) (fixed_k fixed_v : bool) (page_size : N) (sep : K -> K -> K),
  valid_sep cmp sep ->
  forall (entry_eqb : K * V -> K * V -> bool), (forall x y, entry_eqb x y = true -> x = y) ->
  forall (bt : @btree K V) lo hi p (script : list bool), TreeInv cmp bt ->
  let '(os, x) := t_xrun cmp ksize vsize fixed_k fixed_v page_size sep entry_eqb p script (t_extract_new bt lo hi) in
  let '(os', st) := ext_run p script (ext_begin cmp (abs_tree bt) lo hi) in
  os = os' /\
  TreeInv cmp (t_extract_close cmp ksize vsize fixed_k fixed_v page_size sep entry_eqb x) /\
  abs_tree (t_extract_close cmp ksize vsize fixed_k fixed_v page_size sep entry_eqb x) = ext_finish st.
Proof. exact (@t_extract_mixed_refines). Qed.

Theorem c04_program_refines : forall K V (cmp : K -> K -> comparison), OrderLaws cmp ->
  forall (ksize : K -> N) (vsize : V -> N) (fixed_k fixed_v : bool) (page_size : N) (sep : K -> K -> K),
  valid_sep cmp sep ->
  forall (entry_eqb : K * V -> K * V -> bool), (forall x y, entry_eqb x y = true -> x = y) ->
  forall (inplace : list (K * V) -> K -> V -> bool) (blank : V -> V)
         (ops : list (@xopm K V)) (bt : @btree K V), TreeInv cmp bt ->
  let '(xs, bt') := run_xm cmp ksize vsize fixed_k fixed_v page_size sep entry_eqb inplace blank ops bt in
  TreeInv cmp bt' /\ (xs, abs_tree bt') = spec_run_xm cmp ops (abs_tree bt).
Proof. exact (@program_xm_refines_lemma). Qed.

(* the oracle's entry equality (ShapeInst.entry_eqb: key order Eq and value bytes equal) is sound *)
Lemma ex_entry_eqb_sound : forall x y : key * bytes, entry_eqb x y = true -> x = y.
Proof.
  intros [k1 v1] [k2 v2]. unfold entry_eqb. cbn [fst snd].
  destruct (key_cmp k1 k2) eqn:Ek; try discriminate. intros Hb.
  apply (cmp_eq_iff key_cmp c04_key_order_laws) in Ek. subst k2. f_equal.
  unfold ShapeInst.bytes_eqb in Hb. destruct (lex_cmp v1 v2) eqn:Ev; [now apply lex_cmp_eq|discriminate|discriminate].
Qed.

Example c04_nonvacuous_seek_before_strict :
  let '(j, i) := t_seek key_cmp ex_built (PBefore (KU64 13)) in
  List.map fst (nth j (bt_leaves ex_built) []) = [KU64 13; KU64 14; KU64 15; KU64 17] /\ i = 0%nat.
Proof. vm_compute. split; reflexivity. Qed.

Definition ex_mixed : list bool := [true; true; false; true; false; false; false; true; true; false; true; true; false; true; false; true].
Example c04_nonvacuous_extract_mixed :
  let '(os, x) := t_xrun key_cmp key_size val_size true false 64%N ex_sep entry_eqb ex_mod3 ex_mixed
                    (t_extract_new ex_built (Excluded (KU64 2)) (Included (KU64 19))) in
  let bt1 := t_extract_close key_cmp key_size val_size true false 64%N ex_sep entry_eqb x in
  (os, abs_tree bt1) = extract_script key_cmp (abs_tree ex_built) (Excluded (KU64 2)) (Included (KU64 19)) ex_mod3 ex_mixed /\
  tree_checkb key_cmp bt1 = true /\ tree_checkb key_cmp ex_built = true /\ N.ltb (tlen bt1) (tlen ex_built) = true.
Proof. vm_compute. repeat split; reflexivity. Qed.

Example c04_nonvacuous_program :
  let ops := [XExtract (Included (KU64 3)) (Excluded (KU64 20)) ex_mod3 ex_alt;
              XM (XBase (TInsert (KU64 9) [9]%N));
              XExtract Unbounded Unbounded ex_odd ex_mixed;
              XM (XRetainIn (Included (KU64 1)) (Included (KU64 6)) ex_pred);
              XM (XBase (TQuery QLen))] in
  let '(xs, bt1) := run_xm key_cmp key_size val_size true false 64%N ex_sep entry_eqb (fun _ _ _ => false) (fun v => v) ops ex_built in
  (xs, abs_tree bt1) = spec_run_xm key_cmp ops (abs_tree ex_built) /\ tree_checkb key_cmp bt1 = true.
Proof. vm_compute. repeat split; reflexivity. Qed.

(* ------------------------------------------------------------------------------------------------
   Tie to the code (Gen/Fns.v is regenerated from btree_base.rs / btree_mutator.rs on every run by
   tools/gen_fns.py): the size and threshold functions the mutator model above is built from are equal to
   the functions translated from the Rust sources.  A change of one of them in redb breaks the proof below. *)
From RV Require Import Gen.FnsLib Gen.Fns Gen.FnsBtreeP.

Theorem c04_code_leaf_required_bytes_is_model : forall n bytes (fk fv : option N),
  RawLeafBuilder_required_bytes n bytes fk fv = Mutator.leaf_required (isSome fk) (isSome fv) n bytes.
Proof. exact leaf_required_is_model. Qed.

Theorem c04_code_leafbuilder_required_bytes_is_model : forall (fk fv : option N) n bytes,
  LeafBuilder_required_bytes fk fv n bytes = Mutator.leaf_required (isSome fk) (isSome fv) n bytes.
Proof. exact LeafBuilder_required_is_model. Qed.

Theorem c04_code_leaf_fits_one_page_is_model : forall n bytes (fk fv : option N) ps,
  Fns.leaf_fits_one_page n bytes fk fv ps = Mutator.leaf_fits (isSome fk) (isSome fv) ps n bytes.
Proof. exact leaf_fits_is_model. Qed.

Theorem c04_code_leaf_split_required_is_model : forall n bytes (fk fv : option N) ps,
  Fns.leaf_split_required n bytes fk fv ps = Mutator.leaf_split_required (isSome fk) (isSome fv) ps n bytes.
Proof. exact leaf_split_required_is_model. Qed.

Theorem c04_code_leaf_below_merge_threshold_is_model : forall n bytes (fk fv : option N) ps,
  Fns.leaf_below_merge_threshold n bytes fk fv ps = Mutator.leaf_below_merge (isSome fk) (isSome fv) ps n bytes.
Proof. exact leaf_below_merge_is_model. Qed.

Theorem c04_code_leafbuilder_should_split_is_model : forall kb vb (fk fv : option N) n ps,
  LeafBuilder_should_split kb vb fk fv n ps = Mutator.leaf_split_required (isSome fk) (isSome fv) ps n (kb + vb)%N.
Proof. exact LeafBuilder_should_split_is_model. Qed.

Theorem c04_code_is_single_large_value_is_model :
  forall {K V} (ksize : K -> N) (vsize : V -> N) (fk fv : option N) ps (es : list (K * V)),
  Mutator.single_large ksize vsize (isSome fk) (isSome fv) ps es =
  Fns.is_single_large_value ps (Mutator.nlen es)
    (RawLeafBuilder_required_bytes (Mutator.nlen es) (Mutator.leaf_bytes ksize vsize es) fk fv).
Proof. exact @single_large_is_model. Qed.

Theorem c04_code_leaf_split_division_is_model :
  forall {K V} (ksize : K -> N) (vsize : V -> N) (es : list (K * V)),
  Mutator.division ksize vsize es =
  N.to_nat (LeafBuilder_build_split_clamp
              (N.of_nat (Mutator.split_point ksize vsize es 0 (Mutator.leaf_bytes ksize vsize es / 2)%N))
              (Mutator.nlen es) 65535%N).
Proof. exact @division_is_model. Qed.

Theorem c04_code_leaf_split_half_reached_is_model : forall kb vb total,
  LeafBuilder_build_split_half_reached kb vb total = (total / 2 <=? kb + vb)%N.
Proof. exact split_half_reached_is_model. Qed.

Theorem c04_code_branch_required_bytes_is_model : forall nkeys keybytes (fk : option N),
  RawBranchBuilder_required_bytes nkeys keybytes fk = Mutator.branch_required (isSome fk) nkeys keybytes.
Proof. exact branch_required_is_model. Qed.

Theorem c04_code_branchbuilder_required_bytes_is_model : forall keybytes (fk : option N) nkeys,
  BranchBuilder_required_bytes keybytes fk nkeys = Mutator.branch_required (isSome fk) nkeys keybytes.
Proof. exact BranchBuilder_required_is_model. Qed.

Theorem c04_code_branch_should_split_is_model :
  forall {K V} (ksize : K -> N) (fk : option N) ps (rest : list (K * @node K V)),
  Mutator.branch_should_split ksize (isSome fk) ps rest =
  BranchBuilder_should_split (Mutator.sep_bytes ksize rest) fk (Mutator.nlen rest) ps.
Proof. exact @branch_should_split_is_model. Qed.

Theorem c04_code_branch_below_merge_is_model : forall required ps,
  finalize_branch_builder_below_merge required ps = (required <? ps / 3)%N.
Proof. exact branch_below_merge_is_model. Qed.
