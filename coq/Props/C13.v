(* C13 -- Compaction changes space, never content.
   Only statements; every proof is `exact <lemma>`.
   Model: coq/Compact/Model.v -- relocation as a page-renaming map over a rose tree of pages, mirroring
   relocate_helper / relocate_subtrees (copy to the target, rewrite child pointers, free the old page, do
   not descend below a page the map does not name), plus the guards of Database::compact.
   Guard.v: the guards as a step machine against a concurrent writer.  Pass.v: the pass loop at the level of
   page positions (order-0 pages, unbounded space): termination, packing, highest position at the end.
   NOT proved (observed per run by harness/src/bin/c13.rs, and said so in the manifest): the length of the
   FILE (regions, buddy orders, the pages the commits of compaction themselves allocate, try_shrink), and
   crash safety of the commits compaction issues (those are ordinary commits: C01). *)
From Coq Require Import List NArith Bool.
From RV Require Import Gen.Consts Compact.Model Compact.ModelP Compact.Guard Compact.GuardP Compact.Pass Compact.PassP.
Import ListNotations.
Open Scope N_scope.

(* contents and shape (everything a reader can see except where pages live) survive ANY renaming map *)
Theorem c13_relocate_preserves_abs : forall m t, abs (reloc m t) = abs t /\ shape_of (reloc m t) = shape_of t.
Proof. exact reloc_preserves. Qed.

(* with a map closed under ancestors every named page moves: freed = named pages, written = their
   targets (no target stays allocated but unused), new ids = old ids renamed *)
Theorem c13_relocate_complete : forall m t, closed_anc m t = true ->
  freed m t = named m t /\ written m t = map (rename m) (named m t)
  /\ ids (reloc m t) = map (rename m) (ids t).
Proof. exact reloc_complete. Qed.

(* well-formedness is preserved and no page of the old version is overwritten *)
Theorem c13_relocate_wf : forall m t, wf t = true -> map_ok m t = true -> closed_anc m t = true ->
  NoDup (ids (reloc m t)) /\ (forall x, In x (written m t) -> ~ In x (ids t)).
Proof. exact reloc_wf. Qed.

Theorem c13_compact_refuses : forall k m t,
  (persistent_sp k <> 0 \/ ephemeral_sp k <> 0 \/ user_reads k <> 0) ->
  exists e, compact k m t = ((k, t), Some e)
    /\ (persistent_sp k <> 0 -> e = EPersistent)
    /\ (persistent_sp k = 0 -> ephemeral_sp k <> 0 -> e = EEphemeral)
    /\ (persistent_sp k = 0 -> ephemeral_sp k = 0 -> e = EInProgress).
Proof. exact compact_refuses. Qed.

Theorem c13_compact_contents : forall k m t,
  let r := compact k m t in
  fst (fst r) = k /\ abs (snd (fst r)) = abs t /\ shape_of (snd (fst r)) = shape_of t.
Proof. exact compact_contents. Qed.

(* any number of passes with arbitrary maps *)
Theorem c13_compact_n_contents : forall ms k t,
  abs (compact_n k ms t) = abs t /\ shape_of (compact_n k ms t) = shape_of t.
Proof. exact compact_n_contents. Qed.

(* ---- non-vacuity *)
Definition ex_tree : ptree :=
  PNode 10 [] [PNode 40 [(1, 11); (2, 12)] []; PNode 55 [(3, 13)] [PNode 70 [(3, 1); (3, 2)] []]; PNode 41 [(9, 19)] []].
Definition ex_map : rmap := [(70, 3); (55, 4); (10, 5)].      (* highest page, and its ancestors *)
Definition ex_bad : rmap := [(70, 3)].                         (* NOT closed under ancestors *)

Example c13_nonvacuous :
  wf ex_tree = true /\ map_ok ex_map ex_tree = true /\ closed_anc ex_map ex_tree = true
  /\ reloc ex_map ex_tree
     = PNode 5 [] [PNode 40 [(1, 11); (2, 12)] []; PNode 4 [(3, 13)] [PNode 3 [(3, 1); (3, 2)] []]; PNode 41 [(9, 19)] []]
  /\ freed ex_map ex_tree = [10; 55; 70] /\ written ex_map ex_tree = [5; 4; 3]
  /\ abs ex_tree = [(1, 11); (2, 12); (3, 13); (3, 1); (3, 2); (9, 19)].
Proof. vm_compute. repeat split; reflexivity. Qed.

(* why the closure matters: page 70 is named but its parent is not -- nothing moves, target 3 stays unused
   (contents are still preserved: c13_relocate_preserves_abs needs no side condition) *)
Example c13_unclosed_map_moves_nothing :
  closed_anc ex_bad ex_tree = false /\ reloc ex_bad ex_tree = ex_tree /\ written ex_bad ex_tree = []
  /\ named ex_bad ex_tree = [70].
Proof. vm_compute. repeat split; reflexivity. Qed.

Example c13_nonvacuous_guard :
  compact (mkTracker 0 2 1) ex_map ex_tree = ((mkTracker 0 2 1, ex_tree), Some EEphemeral)
  /\ snd (compact (mkTracker 0 0 0) ex_map ex_tree) = None.
Proof. vm_compute. split; reflexivity. Qed.

(* ---- the guards against a concurrent writer (step model coq/Compact/Guard.v).
   For EVERY interleaving of compact()'s steps (three up-front checks, wait for the write slot, three checks
   inside the write transaction, relocation) with a write transaction that was already open (it may create
   ephemeral / persistent savepoints, commit, abort) and with drops of existing savepoints / read
   transactions: compact() gets past its guards only when no savepoint and no reader exists, while it holds
   the write slot, and that stays so until it returns.  One of the two tracker re-checks suffices (every
   savepoint owns a read reference); without both the statement is false (c13_guard_no_tracker_recheck_refuted). *)
Theorem c13_guard_interleavings_safe : forall v p e r w wn ls s,
  re_sp v || re_rd v = true ->
  grun v ls (ginit p e r w wn) = Some s -> answer s = ARan -> quiet s.
Proof. exact guard_safe. Qed.

Theorem c13_guard_code_safe : forall p e r w wn ls s,
  grun v_code ls (ginit p e r w wn) = Some s -> answer s = ARan ->
  quiet s /\ (g_pc s = CRun -> g_slot s = HCompact).
Proof. exact guard_safe_code. Qed.

Theorem c13_guard_refuses_live_object : forall p e r w wn ls s,
  grun v_code ls (ginit p e r w wn) = Some s ->
  (persistent_sp (g_trk s) <> 0 \/ ephemeral_sp (g_trk s) <> 0 \/ user_reads (g_trk s) <> 0) ->
  answer s <> ARan.
Proof. exact guard_refuses_live_object. Qed.

Theorem c13_guard_sequential_agrees : forall p e r,
  exists s, grun v_code [LC; LC; LC; LC; LC; LC; LC] (ginit p e r false 0) = Some s
    /\ answer s = match guard (mkTracker p e r) with Some x => ARefused x | None => ARan end.
Proof. exact sequential_agrees. Qed.

Definition ex_sched : list label := [LC; LC; LC; LEsp; LCommit; LC; LC; LC; LC].
Example c13_guard_recheck_catches :
  option_map answer (grun v_code ex_sched (ginit 0 0 0 true 0)) = Some (ARefused EEphemeral)
  /\ option_map answer (grun v_code [LC; LC; LC; LPsp; LCommit; LC; LC] (ginit 0 0 0 true 0)) = Some (ARefused EPersistent)
  /\ option_map answer (grun v_code [LC; LC; LC; LPsp; LAbort; LC; LC; LC; LC] (ginit 0 0 0 true 0)) = Some ARan
  /\ option_map answer (grun v_code [LC; LC; LC; LEsp; LCommit; LC; LDropEsp; LC; LC; LC] (ginit 0 0 0 true 0)) = Some ARan
  /\ grun v_code [LC; LC; LC; LC] (ginit 0 0 0 true 0) = None.
Proof. vm_compute. repeat split; reflexivity. Qed.

Example c13_guard_no_tracker_recheck_refuted :
  exists s, grun v_no_tracker_recheck ex_sched (ginit 0 0 0 true 0) = Some s
    /\ answer s = ARan /\ ephemeral_sp (g_trk s) = 1 /\ ~ quiet s.
Proof.
  eexists. split; [vm_compute; reflexivity|]. split; [reflexivity|]. split; [reflexivity|].
  unfold quiet. simpl. intros (_ & H & _). discriminate.
Qed.

(* ---- the pass loop at the level of page positions (model coq/Compact/Pass.v) *)

(* one pass that reports progress: no page used twice afterwards, contents and shape unchanged, the number of
   pages unchanged, no page of the old version overwritten, the map closed under ancestors (so the relocation
   theorems above apply to every tree), and the measure (sums of positions per depth, deepest level first,
   compared lexicographically) strictly smaller *)
Theorem c13_pass_progress : forall cap f f', wfF f = true -> pass cap f = (f', true) ->
  wfF f' = true /\ fabs f' = fabs f /\ fshape f' = fshape f
  /\ length (fids f') = length (fids f)
  /\ lexlt (msr (fpaths f')) (msr (fpaths f))
  /\ (forall t, In t (targets (pass_map cap f)) -> ~ In t (fids f))
  /\ (forall t, In t f -> closed_anc (pass_map cap f) t = true).
Proof. exact pass_progress. Qed.

(* a pass that reports no progress changes nothing and found nothing free below the highest page *)
Theorem c13_pass_no_progress : forall cap f f', wfF f = true -> (1 <= cap)%nat -> pass cap f = (f', false) ->
  f' = f /\ (forall x, x < maxN (fids f) -> In x (fids f)).
Proof. exact pass_no_progress. Qed.

(* the order the measure decreases in is well founded: there is no infinite sequence of progressing passes,
   and the loop of Database::compact reaches its closing pass from every well-formed state *)
Theorem c13_lexlt_wf : well_founded lexlt.
Proof. exact lexlt_wf. Qed.

Theorem c13_progressing_passes_wf : forall cap, well_founded (fun f' f => wfF f = true /\ pass cap f = (f', true)).
Proof. exact progressing_passes_wf. Qed.

Theorem c13_loop_terminates : forall cap f, wfF f = true -> exists fuel g n, compact_loop fuel cap f = (g, n, true).
Proof. exact loop_terminates. Qed.

(* end to end: contents and shape unchanged, no page twice, packed, highest position not above the one before *)
Theorem c13_loop_result : forall fuel cap f g n, wfF f = true -> (1 <= cap)%nat -> compact_loop fuel cap f = (g, n, true) ->
  wfF g = true /\ fabs g = fabs f /\ fshape g = fshape f
  /\ (forall x, x < maxN (fids g) -> In x (fids g))
  /\ maxN (fids g) <= maxN (fids f).
Proof. exact loop_result. Qed.

(* a single pass can raise the highest position (parents are moved wherever the lowest free page is), but not
   beyond twice the number of pages *)
Theorem c13_pass_growth_bound : forall cap f f' pr, wfF f = true -> pass cap f = (f', pr) ->
  forall x, In x (fids f') -> x <= maxN (fids f) \/ x < 2 * N.of_nat (length (fids f)).
Proof. exact pass_growth_bound. Qed.

(* the checker the harness runs on every OBSERVED pass of the real compact(): accepted => positions stay
   distinct, no old page overwritten, measure strictly smaller if anything moved; and the model's own pass is
   always accepted *)
Theorem c13_pass_checker_sound : forall m ps, pass_okP m ps = true ->
  NoDup (pkeys (ren_paths m ps))
  /\ (forall t, In t (targets m) -> ~ In t (pkeys ps))
  /\ ((exists e, In e ps /\ in_dom m (fst e) = true) -> lexlt (msr (ren_paths m ps)) (msr ps)).
Proof. exact pass_okP_sound. Qed.

Theorem c13_model_pass_checked : forall cap f, wfF f = true -> pass_okP (pass_map cap f) (fpaths f) = true.
Proof. exact pass_map_checked. Qed.

Theorem c13_lexltb_sound : forall l l', lexltb l l' = true -> lexlt l l'.
Proof. exact lexltb_sound. Qed.

(* ---- non-vacuity: root 0 -> branch 1 -> leaf 5, two single-page trees at 2 and 3; free: 4, 6, 7, ... *)
Definition ex_forest : forest :=
  [PNode 0 [] [PNode 1 [] [PNode 5 [(1, 1)] []]]; PNode 2 [(2, 2)] []; PNode 3 [(3, 3)] []].

Example c13_pass_can_raise_the_highest_position :
  wfF ex_forest = true
  /\ pass_map 10 ex_forest = [(1, 7); (0, 6); (5, 4)]
  /\ fids (fst (pass 10 ex_forest)) = [6; 7; 4; 2; 3]
  /\ maxN (fids ex_forest) = 5 /\ maxN (fids (fst (pass 10 ex_forest))) = 7
  /\ msr (fpaths ex_forest) = [5; 1; 5] /\ msr (fpaths (fst (pass 10 ex_forest))) = [4; 7; 11].
Proof. vm_compute. repeat split; reflexivity. Qed.

Example c13_loop_nonvacuous :
  exists g, compact_loop 10 10 ex_forest = (g, 2%nat, true) /\ fids g = [1; 0; 4; 2; 3] /\ fabs g = fabs ex_forest.
Proof. eexists. vm_compute. repeat split; reflexivity. Qed.

(* the checker: the model's map is accepted; a map that is not closed under ancestors, a page moved UP, and
   a target that is an existing page are rejected *)
Example c13_checker_nonvacuous :
  pass_okP [(5, 4); (1, 7); (0, 6)] (fpaths ex_forest) = true
  /\ pass_okP [(5, 4)] (fpaths ex_forest) = false
  /\ pass_okP [(2, 6)] (fpaths ex_forest) = false
  /\ pass_okP [(5, 4); (1, 3); (0, 6)] (fpaths ex_forest) = false.
Proof. vm_compute. repeat split; reflexivity. Qed.

(* without the comparison "target lower than the page" the measure argument is gone: moving the highest
   page up is a step the checker rejects and the order does not decrease *)
Example c13_move_up_refuted :
  lexltb (msr (ren_paths [(2, 6)] (fpaths ex_forest))) (msr (fpaths ex_forest)) = false.
Proof. vm_compute. reflexivity. Qed.

(* the only numeric constant of the loop: the number of pages one pass looks at (regenerated from
   transactions.rs on every run); the theorems above hold for every cap >= 1 *)
Example c13_cap_of_the_code : 1 <= MAX_PAGES_PER_COMPACTION /\ MAX_PAGES_PER_COMPACTION = 1000000.
Proof. split; [discriminate|reflexivity]. Qed.
