(* C13 -- Compaction changes space, never content.
   Only statements; every proof is `exact <lemma>`.
   Model: coq/Compact/Model.v -- relocation as a page-renaming map over a rose tree of pages, mirroring
   relocate_helper / relocate_subtrees (copy to the target, rewrite child pointers, free the old page, do
   not descend below a page the map does not name), plus the guards of Database::compact.
   NOT proved (observed per run by harness/src/bin/c13.rs, and said so in the manifest): that the file
   never grows, that the compaction loop ends within a bound, and crash safety of the commits compaction
   issues (those are ordinary commits: C01). *)
From Coq Require Import List NArith Bool.
From RV Require Import Compact.Model Compact.ModelP.
Import ListNotations.
Open Scope N_scope.

(* contents and shape (everything a reader can see except where pages live) survive ANY renaming map *)
Theorem c13_relocate_preserves_abs : forall m t, abs (reloc m t) = abs t /\ shape_of (reloc m t) = shape_of t.
Proof. exact reloc_preserves. Qed.

(* with a map closed under ancestors every named page moves: freed = named pages, written = their
   targets (no target stays allocated but unused), new ids = old ids renamed *)
Theorem c13_relocate_complete : forall m t, closed_anc m t = true ->
  freed m t = named m t /\ written m t = map (rename m) (named m t)
  /\ ids (reloc m t) = map (rename m) (ids t).
Proof. exact reloc_complete. Qed.

(* well-formedness is preserved and no page of the old version is overwritten *)
Theorem c13_relocate_wf : forall m t, wf t = true -> map_ok m t = true -> closed_anc m t = true ->
  NoDup (ids (reloc m t)) /\ (forall x, In x (written m t) -> ~ In x (ids t)).
Proof. exact reloc_wf. Qed.

Theorem c13_compact_refuses : forall k m t,
  (persistent_sp k <> 0 \/ ephemeral_sp k <> 0 \/ user_reads k <> 0) ->
  exists e, compact k m t = ((k, t), Some e)
    /\ (persistent_sp k <> 0 -> e = EPersistent)
    /\ (persistent_sp k = 0 -> ephemeral_sp k <> 0 -> e = EEphemeral)
    /\ (persistent_sp k = 0 -> ephemeral_sp k = 0 -> e = EInProgress).
Proof. exact compact_refuses. Qed.

Theorem c13_compact_contents : forall k m t,
  let r := compact k m t in
  fst (fst r) = k /\ abs (snd (fst r)) = abs t /\ shape_of (snd (fst r)) = shape_of t.
Proof. exact compact_contents. Qed.

(* any number of passes with arbitrary maps *)
Theorem c13_compact_n_contents : forall ms k t,
  abs (compact_n k ms t) = abs t /\ shape_of (compact_n k ms t) = shape_of t.
Proof. exact compact_n_contents. Qed.

(* ---- non-vacuity *)
Definition ex_tree : ptree :=
  PNode 10 [] [PNode 40 [(1, 11); (2, 12)] []; PNode 55 [(3, 13)] [PNode 70 [(3, 1); (3, 2)] []]; PNode 41 [(9, 19)] []].
Definition ex_map : rmap := [(70, 3); (55, 4); (10, 5)].      (* highest page, and its ancestors *)
Definition ex_bad : rmap := [(70, 3)].                         (* NOT closed under ancestors *)

Example c13_nonvacuous :
  wf ex_tree = true /\ map_ok ex_map ex_tree = true /\ closed_anc ex_map ex_tree = true
  /\ reloc ex_map ex_tree
     = PNode 5 [] [PNode 40 [(1, 11); (2, 12)] []; PNode 4 [(3, 13)] [PNode 3 [(3, 1); (3, 2)] []]; PNode 41 [(9, 19)] []]
  /\ freed ex_map ex_tree = [10; 55; 70] /\ written ex_map ex_tree = [5; 4; 3]
  /\ abs ex_tree = [(1, 11); (2, 12); (3, 13); (3, 1); (3, 2); (9, 19)].
Proof. vm_compute. repeat split; reflexivity. Qed.

(* why the closure matters: page 70 is named but its parent is not -- nothing moves, target 3 stays unused
   (contents are still preserved: c13_relocate_preserves_abs needs no side condition) *)
Example c13_unclosed_map_moves_nothing :
  closed_anc ex_bad ex_tree = false /\ reloc ex_bad ex_tree = ex_tree /\ written ex_bad ex_tree = []
  /\ named ex_bad ex_tree = [70].
Proof. vm_compute. repeat split; reflexivity. Qed.

Example c13_nonvacuous_guard :
  compact (mkTracker 0 2 1) ex_map ex_tree = ((mkTracker 0 2 1, ex_tree), Some EEphemeral)
  /\ snd (compact (mkTracker 0 0 0) ex_map ex_tree) = None.
Proof. vm_compute. split; reflexivity. Qed.
