(* C12 -- check_integrity never certifies a damaged database.
   Statements only; every proof is `exact <lemma>` (coq/Integrity/MerkleP.v).  The model and what its
   objects stand for in a redb file are described at the top of coq/Integrity/Merkle.v.
   Every theorem carries the two Section hypotheses of the development as explicit premises:
     sum_eqb decides equality of checksums, and  H_inj : the checksum function is injective
   (contents_depend_on_cov needs neither). *)
From Coq Require Import List NArith Bool.
Import ListNotations.
From RV Require Import Gen.Consts Integrity.Merkle Integrity.MerkleP Integrity.MerkleEx.

Section Statements.
  Variable sum : Type.
  Variable sum_eqb : sum -> sum -> bool.
  Variable H : list N -> sum.
  Variable parse : list N -> list (N * sum).
  Hypothesis sum_eqb_spec : forall a b, sum_eqb a b = true <-> a = b.
  Hypothesis H_inj : forall x y, H x = H y -> x = y.

  (* Merkle argument: if an image img' verifies from the same (root pointer, root checksum) as a
     well-formed image img, a reader is served the same thing and every covered byte of every
     reachable page is equal in the two images. *)
  Theorem c12_verified_equal : forall d img img' p c,
    verify sum sum_eqb H parse d img' p c = true -> verify sum sum_eqb H parse d img p c = true ->
    read sum parse d img' p = read sum parse d img p /\
    forall q, In q (reach sum parse d img p) -> img' q = img q.
  Proof. exact (verified_equal sum sum_eqb H parse sum_eqb_spec H_inj). Qed.

  (* images that agree on the covered set serve the same contents (bytes outside it are irrelevant) *)
  Theorem c12_contents_depend_on_cov : forall d img img' p,
    (forall q, In q (reach sum parse d img p) -> img' q = img q) ->
    read sum parse d img' p = read sum parse d img p /\
    reach sum parse d img' p = reach sum parse d img p.
  Proof. exact (contents_depend_on_cov sum parse). Qed.

  (* altering any covered byte of any reachable page makes verification fail *)
  Theorem c12_page_alteration_detected : forall d img img' p c q,
    verify sum sum_eqb H parse d img p c = true -> In q (reach sum parse d img p) -> img' q <> img q ->
    verify sum sum_eqb H parse d img' p c = false.
  Proof. exact (page_alteration_detected sum sum_eqb H parse sum_eqb_spec H_inj). Qed.

  (* altering the served slot's covered bytes or its stored checksum (not both) invalidates the slot *)
  Theorem c12_slot_alteration_detected : forall s' s : slot sum,
    slot_sum_ok sum sum_eqb H s = true -> slot_near sum s' s ->
    (s_payload sum s' <> s_payload sum s \/ s_sum sum s' <> s_sum sum s) ->
    slot_sum_ok sum sum_eqb H s' = false.
  Proof. exact (slot_alteration_detected sum sum_eqb H sum_eqb_spec H_inj). Qed.

  (* with slot selection as in recovery: a covered page byte of a clean file altered, header
     untouched => an error, or (never under 2-phase commit) the other, older, valid slot is served *)
  Theorem c12_alteration_detected : forall d (x0 x' : db sum) s0 q,
    recover sum sum_eqb H parse d x0 = Clean sum s0 ->
    two_phase sum x' = two_phase sum x0 -> primary sum x' = primary sum x0 ->
    secondary sum x' = secondary sum x0 ->
    In q (cov sum parse d (pages sum x0) s0) -> pages sum x' q <> pages sum x0 q ->
    recover sum sum_eqb H parse d x' = Failed sum \/
    (two_phase sum x0 = false /\
     recover sum sum_eqb H parse d x' = Repaired sum (secondary sum x0) /\
     trees_verify sum sum_eqb H parse d (pages sum x') (secondary sum x0) = true).
  Proof. exact (alteration_detected sum sum_eqb H parse sum_eqb_spec H_inj). Qed.

  (* verdict clean => what is served is exactly what the commit that wrote the slot stored *)
  Theorem c12_no_false_clean : forall d (x0 x' : db sum) (s' s0 : slot sum),
    recover sum sum_eqb H parse d x' = Clean sum s' ->
    genuine sum sum_eqb H parse d x0 s0 -> slot_near sum s' s0 ->
    s_payload sum s' = s_payload sum s0 /\ s_sum sum s' = s_sum sum s0 /\
    serve sum parse d (pages sum x') s' = serve sum parse d (pages sum x0) s0 /\
    forall q, In q (cov sum parse d (pages sum x0) s0) -> pages sum x' q = pages sum x0 q.
  Proof. exact (no_false_clean sum sum_eqb H parse sum_eqb_spec H_inj). Qed.

  (* verdict repaired => likewise one committed state (premise slot_sum_ok s': see MerkleP.v) *)
  Theorem c12_repaired_is_committed : forall d (x0 x' : db sum) (s' s0 : slot sum),
    recover sum sum_eqb H parse d x' = Repaired sum s' -> slot_sum_ok sum sum_eqb H s' = true ->
    genuine sum sum_eqb H parse d x0 s0 -> slot_near sum s' s0 ->
    s_payload sum s' = s_payload sum s0 /\
    serve sum parse d (pages sum x') s' = serve sum parse d (pages sum x0) s0 /\
    forall q, In q (cov sum parse d (pages sum x0) s0) -> pages sum x' q = pages sum x0 q.
  Proof. exact (repaired_is_committed sum sum_eqb H parse sum_eqb_spec H_inj). Qed.

  (* the slot that select hands out always passed its checksum *)
  Theorem c12_select_checks_sum : forall (x : db sum) b,
    select sum sum_eqb H x = Some b -> slot_sum_ok sum sum_eqb H (slot_of sum x b) = true.
  Proof. exact (select_checks_sum sum sum_eqb H). Qed.
End Statements.

(* ==== the WHOLE verdict of open + check_integrity() (model: coq/Integrity/Verdict.v, proofs VerdictP.v):
   header validation, finalize (layout from the file LENGTH), slot selection, quick path / repair at
   open, and in check_integrity the layout_matched flag, the allocator-state comparison and the table
   recount.  Alterations now include the unchecksummed header fields (region counts, god-byte flags,
   geometry) and the file length.  Premises beyond sum_eqb_spec / H_inj: the allocator-state equality
   test is reflexive; the page size the database is opened with is positive.  Names of the model are
   used qualified (Verdict.x, Layout.x) so that nothing later in this file is shadowed. *)
From RV Require Storage.Layout Integrity.Verdict Integrity.VerdictP Integrity.VerdictEx.

Section StatementsFull.
  Variable sum : Type.
  Variable sum_eqb : sum -> sum -> bool.
  Variable H : list N -> sum.
  Variable parse : list N -> list (N * sum).
  Variable A : Type.                                     (* allocator states *)
  Variable a_eqb : A -> A -> bool.                       (* the code compares their XXH3 hashes *)
  Variable rebuild : Layout.db_layout -> image -> slot sum -> option A.   (* rebuild_allocator_state *)
  Variable counted : image -> slot sum -> bool.          (* stored table lengths = recount *)
  Variable ps_exp : N.                                   (* page size the database is opened with *)
  Variable d : nat.
  Hypothesis sum_eqb_spec : forall a b, sum_eqb a b = true <-> a = b.
  Hypothesis H_inj : forall x y, H x = H y -> x = y.
  Hypothesis a_eqb_refl : forall a, a_eqb a a = true.
  Hypothesis ps_pos : (0 < ps_exp)%N.

  Local Notation file := (Verdict.file sum A).
  Local Notation ost := (Verdict.ost sum A).
  Local Notation full := (Verdict.full sum sum_eqb H parse A a_eqb rebuild counted ps_exp d).
  Local Notation open_stage := (Verdict.open_stage sum sum_eqb H parse A rebuild counted ps_exp d).
  Local Notation check_stage := (Verdict.check_stage sum sum_eqb H parse A a_eqb rebuild d).
  Local Notation FOk := (Verdict.FOk sum A).
  Local Notation db_of := (Verdict.f_db sum A).
  Local Notation slot_of_ost := (Verdict.o_slot sum A).
  Local Notation layout_of_ost := (Verdict.o_L sum A).
  Local Notation len_layout := (Verdict.len_layout sum A).

  (* (a) the sentence design.d/C12.md used to assert without proof.  Whatever the file: if the whole
     verdict is Ok(_), the slot served is the one Merkle.recover serves on the same file (Clean or
     Repaired -- a repair at open is followed by a clean check), its trees verify, and check_integrity
     serves the slot the open served; if recover fails, the whole verdict is an error.  So header
     validation, finalize, the allocator comparison and the recount can only turn a verdict into
     Ok(false) or Err; they never change the served slot, hence (Verdict.served) the served contents. *)
  Theorem c12_verdict_monotone : forall f : file,
    (forall c o, full f = FOk c o ->
       (recover sum sum_eqb H parse d (db_of f) = Clean sum (slot_of_ost o) \/
        recover sum sum_eqb H parse d (db_of f) = Repaired sum (slot_of_ost o)) /\
       trees_verify sum sum_eqb H parse d (pages sum (db_of f)) (slot_of_ost o) = true /\
       (exists o1, open_stage f = Some o1 /\ slot_of_ost o1 = slot_of_ost o)) /\
    (recover sum sum_eqb H parse d (db_of f) = Failed sum -> Verdict.is_err sum A (full f)).
  Proof. exact (VerdictP.verdict_monotone sum sum_eqb H parse A a_eqb rebuild counted ps_exp d). Qed.

  (* (b) for every alteration f' of a file x0 with a genuine slot s0: a verdict Ok(_) whose served slot
     is a one-sided alteration (or copy) of s0 serves exactly the contents s0's commit stored, every
     covered page is unaltered, AND the layout the database then works with is the one
     layout_from_file_len gives for the actual length and the header's geometry: a valid layout of
     exactly that length with the page size the database was opened with -- the stored region counts
     never reach a page address.  (Premise on o_fellback: the fall-back of do_repair does not re-check the
     other slot's checksum, as in c12_repaired_is_committed.) *)
  Theorem c12_no_false_clean_full : forall (x0 : db sum) (f' : file) c (o : ost) (s0 : slot sum),
    full f' = FOk c o ->
    genuine sum sum_eqb H parse d x0 s0 -> slot_near sum (slot_of_ost o) s0 ->
    (Verdict.o_fellback sum A o = true -> slot_sum_ok sum sum_eqb H (slot_of_ost o) = true) ->
    (s_payload sum (slot_of_ost o) = s_payload sum s0 /\
     serve sum parse d (pages sum (db_of f')) (slot_of_ost o) = serve sum parse d (pages sum x0) s0 /\
     forall q, In q (cov sum parse d (pages sum x0) s0) -> pages sum (db_of f') q = pages sum x0 q) /\
    (Verdict.f_ps sum A f' = ps_exp /\ len_layout f' = Some (layout_of_ost o) /\
     Layout.valid_layout (layout_of_ost o) /\
     Layout.dl_len (layout_of_ost o) = Verdict.f_len sum A f' /\
     Layout.dl_full (layout_of_ost o) =
       Layout.mkRL (Verdict.f_cap sum A f') (Verdict.f_hp sum A f') (Verdict.f_ps sum A f') /\
     (Layout.dl_num_regions (layout_of_ost o) <= MAX_REGIONS)%N).
  Proof.
    exact (VerdictP.no_false_clean_full sum sum_eqb H parse A a_eqb rebuild counted ps_exp d
             sum_eqb_spec H_inj ps_pos).
  Qed.

  (* the layout the OPEN works with: the length's, or the stored one when it describes the length (then
     equal to the length's up to Layout.dl_norm: same regions, addresses, membership -- c20_norm_equiv) *)
  Theorem c12_open_layout : forall (f : file) (o : ost),
    open_stage f = Some o ->
    Verdict.f_ps sum A f = ps_exp /\
    Layout.valid_layout (layout_of_ost o) /\ Layout.dl_len (layout_of_ost o) = Verdict.f_len sum A f /\
    Layout.dl_full (layout_of_ost o) =
      Layout.mkRL (Verdict.f_cap sum A f) (Verdict.f_hp sum A f) (Verdict.f_ps sum A f) /\
    (Layout.dl_num_regions (layout_of_ost o) <= MAX_REGIONS)%N /\
    (len_layout f = Some (layout_of_ost o) \/
     (Verdict.f_rr sum A f = false /\ layout_of_ost o = Verdict.stored_layout sum A f /\
      len_layout f = Some (Layout.dl_norm (layout_of_ost o)))).
  Proof. exact (VerdictP.open_layout sum sum_eqb H parse A rebuild counted ps_exp d ps_pos). Qed.

  (* (c) a cleanly closed file (no RECOVERY_REQUIRED, stored layout = length) whose length alone is
     changed: truncation is always an error at open; after an extension a verdict Ok(_) is possible only
     with the layout recomputed from the NEW length (already at open) -- never with the old layout. *)
  Theorem c12_length_alteration_detected : forall (f0 f' : file),
    Verdict.hdr_ok sum A ps_exp f0 = true -> Verdict.f_rr sum A f0 = false ->
    Layout.dl_len (Verdict.stored_layout sum A f0) = Verdict.f_len sum A f0 ->
    Verdict.same_header sum A f' f0 -> Verdict.f_len sum A f' <> Verdict.f_len sum A f0 ->
    ((Verdict.f_len sum A f' < Verdict.f_len sum A f0)%N -> full f' = Verdict.FErrOpen sum A) /\
    (forall c o, full f' = FOk c o ->
       (Verdict.f_len sum A f0 < Verdict.f_len sum A f')%N /\ len_layout f' = Some (layout_of_ost o) /\
       Layout.dl_len (layout_of_ost o) = Verdict.f_len sum A f' /\
       layout_of_ost o <> Verdict.stored_layout sum A f0 /\
       exists o1, open_stage f' = Some o1 /\ layout_of_ost o1 = layout_of_ost o).
  Proof. exact (VerdictP.length_alteration_detected sum sum_eqb H parse A a_eqb rebuild counted ps_exp d ps_pos). Qed.

  (* (d) after any verdict Ok(_) -- in particular after a reported repair -- a second check_integrity is
     Ok(true) and leaves the state as it is *)
  Theorem c12_second_check_clean : forall (f : file) c (o : ost),
    full f = FOk c o -> check_stage f o = Verdict.COk sum A true o.
  Proof. exact (VerdictP.second_check_clean_full sum sum_eqb H parse A a_eqb rebuild counted ps_exp d a_eqb_refl). Qed.

  (* the well-formedness premises (file written by a clean close / left by a crash of a well-formed
     history) suffice for Ok(true): the theorems above are not about an empty class of files *)
  Theorem c12_closed_file_clean : forall f : file,
    Verdict.wf_closed sum sum_eqb H parse A a_eqb rebuild counted ps_exp d f ->
    exists o, full f = FOk true o /\ slot_of_ost o = primary sum (db_of f) /\
              layout_of_ost o = Verdict.stored_layout sum A f.
  Proof. exact (VerdictP.closed_file_clean sum sum_eqb H parse A a_eqb rebuild counted ps_exp d ps_pos). Qed.

  Theorem c12_crashed_file_clean : forall f : file,
    Verdict.wf_crashed sum sum_eqb H parse A rebuild ps_exp d f ->
    exists o s, full f = FOk true o /\ slot_of_ost o = s /\
      (recover sum sum_eqb H parse d (db_of f) = Clean sum s \/
       recover sum sum_eqb H parse d (db_of f) = Repaired sum s).
  Proof. exact (VerdictP.crashed_file_clean sum sum_eqb H parse A a_eqb rebuild counted ps_exp d a_eqb_refl). Qed.
End StatementsFull.

(* non-vacuity of the whole-verdict theorems: the toy forest inside a 19456-byte file (VerdictEx.v) *)
Example c12_full_nonvacuous_wf :
  Verdict.wf_closed _ bytes_eqb H_id toy_parse _ bytes_eqb VerdictEx.toy_rebuild VerdictEx.toy_counted 512 3
    VerdictEx.toy_closed /\
  Verdict.wf_crashed _ bytes_eqb H_id toy_parse _ VerdictEx.toy_rebuild 512 3 VerdictEx.toy_crashed /\
  (forall a, bytes_eqb a a = true) /\ (0 < 512)%N.
Proof.
  split; [|split; [|split]].
  - unfold Verdict.wf_closed. repeat (split; [vm_compute; reflexivity|]).
    exists VerdictEx.toy_alloc, VerdictEx.toy_alloc. vm_compute. repeat split; reflexivity.
  - unfold Verdict.wf_crashed. repeat (split; [vm_compute; reflexivity|]).
    exists (VerdictEx.toy_L 2 (Some 5%N)), slot_old. vm_compute.
    split; [reflexivity|]. split; [right; reflexivity|]. split; [left; reflexivity|].
    eexists; reflexivity.
  - intros a. apply bytes_eqb_spec. reflexivity.
  - reflexivity.
Qed.

Example c12_full_nonvacuous_verdicts :
  let f := VerdictEx.toy_file in let L := VerdictEx.toy_L in
  let len := VerdictEx.toy_len in let ok := Some VerdictEx.toy_alloc in
  (* unaltered: clean close / crash image (older commit served after the repair at open) *)
  VerdictEx.vclass_of (VerdictEx.tfull VerdictEx.toy_closed) = VerdictEx.VTrue slot_new (L 2 (Some 5))%N /\
  VerdictEx.vclass_of (VerdictEx.tfull VerdictEx.toy_crashed) = VerdictEx.VTrue slot_old (L 2 (Some 5))%N /\
  (* length: one page cut, one page / one region / 100 bytes appended *)
  VerdictEx.vclass_of (VerdictEx.tfull (f (len - 512) false 2 5 (toy_db true toy_img) ok))%N = VerdictEx.VErrOpen /\
  VerdictEx.vclass_of (VerdictEx.tfull (f (len + 512) false 2 5 (toy_db true toy_img) ok))%N = VerdictEx.VTrue slot_new (L 2 (Some 6))%N /\
  VerdictEx.vclass_of (VerdictEx.tfull (f (len + 8192) false 2 5 (toy_db true toy_img) ok))%N = VerdictEx.VTrue slot_new (L 3 (Some 5))%N /\
  VerdictEx.vclass_of (VerdictEx.tfull (f (len + 100) false 2 5 (toy_db true toy_img) ok))%N = VerdictEx.VErrOpen /\
  (* stored region counts: too large / too small (silently recomputed); with the recovery flag they are ignored *)
  VerdictEx.vclass_of (VerdictEx.tfull (f len false 3 5 (toy_db true toy_img) ok))%N = VerdictEx.VErrOpen /\
  VerdictEx.vclass_of (VerdictEx.tfull (f len false 1 5 (toy_db true toy_img) ok))%N = VerdictEx.VTrue slot_new (L 2 (Some 5))%N /\
  VerdictEx.vclass_of (VerdictEx.tfull (f len true 900 77 (toy_db true toy_img) ok))%N = VerdictEx.VTrue slot_new (L 2 (Some 5))%N /\
  (* a covered page byte under the 2-phase flag: the quick open succeeds, the check is an error *)
  VerdictEx.vclass_of (VerdictEx.tfull (f len false 2 5 (toy_db true toy_img_altered) ok))%N = VerdictEx.VErrCheck /\
  (* allocator state differs / table length not the recount: Ok(false), same slot *)
  VerdictEx.vclass_of (VerdictEx.tfull (f len false 2 5 (toy_db true toy_img) (Some [5; 10]%N)))%N = VerdictEx.VFalse slot_new (L 2 (Some 5))%N /\
  VerdictEx.vclass_of (VerdictEx.tfull_uncounted VerdictEx.toy_closed) = VerdictEx.VFalse slot_new (L 2 (Some 5))%N.
Proof. vm_compute. repeat split; reflexivity. Qed.

(* ... and the second check after the reported repair is clean *)
Example c12_full_nonvacuous_second_check :
  match VerdictEx.tfull_uncounted VerdictEx.toy_closed with
  | Verdict.FOk _ _ false o => VerdictEx.tcheck VerdictEx.toy_closed o = Verdict.COk _ _ true o
  | _ => False
  end.
Proof. vm_compute. reflexivity. Qed.

(* ---- non-vacuity: H := identity on byte strings is injective; a concrete two-commit forest *)
Example c12_instance_hypotheses :
  (forall a b, bytes_eqb a b = true <-> a = b) /\ (forall x y, H_id x = H_id y -> x = y).
Proof. split; [exact bytes_eqb_spec | exact H_id_inj]. Qed.

Example c12_nonvacuous_verify :
  tverify 3 toy_img 5 branch5 = true /\ treach 3 toy_img 5 = [5; 10; 11]%N /\
  tread 3 toy_img 5 = T branch5 [T leaf10 []; T leaf11 []] /\
  tverify 3 toy_img_altered 5 branch5 = false /\
  tverify 1 toy_img 5 branch5 = false.
Proof. vm_compute. repeat split; reflexivity. Qed.

Example c12_nonvacuous_recover :
  trecover 3 (toy_db false toy_img) = Clean _ slot_new /\
  trecover 3 (toy_db true toy_img) = Clean _ slot_new /\
  trecover 3 (toy_db false toy_img_altered) = Repaired _ slot_old /\
  trecover 3 (toy_db true toy_img_altered) = Failed _ /\
  slot_sum_ok _ bytes_eqb H_id slot_new_altered = false /\
  Nat.ltb 128 walk_depth = true.
Proof. vm_compute. repeat split; try reflexivity. Qed.

(* the hypotheses of c12_no_false_clean / c12_alteration_detected are met by the toy database *)
Example c12_nonvacuous_hypotheses :
  genuine _ bytes_eqb H_id toy_parse 3 (toy_db false toy_img) slot_new /\
  genuine _ bytes_eqb H_id toy_parse 3 (toy_db false toy_img) slot_old /\
  slot_near _ slot_new slot_new /\ slot_near _ slot_new_altered slot_new /\
  In 11%N (cov _ toy_parse 3 toy_img slot_new) /\ toy_img_altered 11%N <> toy_img 11%N.
Proof.
  unfold genuine, slot_near. vm_compute.
  repeat split; auto; try (right; left; reflexivity); discriminate.
Qed.

(* ------------------------------------------------------------------------------------------------
   Tie to the code (Gen/Fns.v is regenerated from header.rs on every run by tools/gen_fns.py; see design.d/GEN.md):
   the model's `select` is the function translated from UnrepairedDatabaseHeader::select_primary_slot. *)
From RV Require Import Gen.FnsLib Gen.Fns Gen.FnsRecoverP.

Theorem c12_code_select_primary_slot_is_model : forall (sum : Type) (sum_eqb : sum -> sum -> bool) (H : list N -> sum)
  (x : Merkle.db sum),
  Merkle.select sum sum_eqb H x =
  UnrepairedDatabaseHeader_select_primary_slot (Merkle.two_phase sum x)
    (negb (Merkle.slot_sum_ok sum sum_eqb H (Merkle.primary sum x)))
    (negb (Merkle.slot_sum_ok sum sum_eqb H (Merkle.secondary sum x)))
    (Merkle.s_txid sum (Merkle.primary sum x)) (Merkle.s_txid sum (Merkle.secondary sum x)).
Proof. exact merkle_select_is_model. Qed.
