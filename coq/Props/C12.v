(* C12 -- check_integrity never certifies a damaged database.
   Statements only; every proof is `exact <lemma>` (coq/Integrity/MerkleP.v).  The model and what its
   objects stand for in a redb file are described at the top of coq/Integrity/Merkle.v.
   Every theorem carries the two Section hypotheses of the development as explicit premises:
     sum_eqb decides equality of checksums, and  H_inj : the checksum function is injective
   (contents_depend_on_cov needs neither). *)
From Coq Require Import List NArith Bool.
Import ListNotations.
From RV Require Import Gen.Consts Integrity.Merkle Integrity.MerkleP Integrity.MerkleEx.

Section Statements.
  Variable sum : Type.
  Variable sum_eqb : sum -> sum -> bool.
  Variable H : list N -> sum.
  Variable parse : list N -> list (N * sum).
  Hypothesis sum_eqb_spec : forall a b, sum_eqb a b = true <-> a = b.
  Hypothesis H_inj : forall x y, H x = H y -> x = y.

  (* Merkle argument: if an image img' verifies from the same (root pointer, root checksum) as a
     well-formed image img, a reader is served the same thing and every covered byte of every
     reachable page is equal in the two images. *)
  Theorem c12_verified_equal : forall d img img' p c,
    verify sum sum_eqb H parse d img' p c = true -> verify sum sum_eqb H parse d img p c = true ->
    read sum parse d img' p = read sum parse d img p /\
    forall q, In q (reach sum parse d img p) -> img' q = img q.
  Proof. exact (verified_equal sum sum_eqb H parse sum_eqb_spec H_inj). Qed.

  (* images that agree on the covered set serve the same contents (bytes outside it are irrelevant) *)
  Theorem c12_contents_depend_on_cov : forall d img img' p,
    (forall q, In q (reach sum parse d img p) -> img' q = img q) ->
    read sum parse d img' p = read sum parse d img p /\
    reach sum parse d img' p = reach sum parse d img p.
  Proof. exact (contents_depend_on_cov sum parse). Qed.

  (* altering any covered byte of any reachable page makes verification fail *)
  Theorem c12_page_alteration_detected : forall d img img' p c q,
    verify sum sum_eqb H parse d img p c = true -> In q (reach sum parse d img p) -> img' q <> img q ->
    verify sum sum_eqb H parse d img' p c = false.
  Proof. exact (page_alteration_detected sum sum_eqb H parse sum_eqb_spec H_inj). Qed.

  (* altering the served slot's covered bytes or its stored checksum (not both) invalidates the slot *)
  Theorem c12_slot_alteration_detected : forall s' s : slot sum,
    slot_sum_ok sum sum_eqb H s = true -> slot_near sum s' s ->
    (s_payload sum s' <> s_payload sum s \/ s_sum sum s' <> s_sum sum s) ->
    slot_sum_ok sum sum_eqb H s' = false.
  Proof. exact (slot_alteration_detected sum sum_eqb H sum_eqb_spec H_inj). Qed.

  (* with slot selection as in recovery: a covered page byte of a clean file altered, header
     untouched => an error, or (never under 2-phase commit) the other, older, valid slot is served *)
  Theorem c12_alteration_detected : forall d (x0 x' : db sum) s0 q,
    recover sum sum_eqb H parse d x0 = Clean sum s0 ->
    two_phase sum x' = two_phase sum x0 -> primary sum x' = primary sum x0 ->
    secondary sum x' = secondary sum x0 ->
    In q (cov sum parse d (pages sum x0) s0) -> pages sum x' q <> pages sum x0 q ->
    recover sum sum_eqb H parse d x' = Failed sum \/
    (two_phase sum x0 = false /\
     recover sum sum_eqb H parse d x' = Repaired sum (secondary sum x0) /\
     trees_verify sum sum_eqb H parse d (pages sum x') (secondary sum x0) = true).
  Proof. exact (alteration_detected sum sum_eqb H parse sum_eqb_spec H_inj). Qed.

  (* verdict clean => what is served is exactly what the commit that wrote the slot stored *)
  Theorem c12_no_false_clean : forall d (x0 x' : db sum) (s' s0 : slot sum),
    recover sum sum_eqb H parse d x' = Clean sum s' ->
    genuine sum sum_eqb H parse d x0 s0 -> slot_near sum s' s0 ->
    s_payload sum s' = s_payload sum s0 /\ s_sum sum s' = s_sum sum s0 /\
    serve sum parse d (pages sum x') s' = serve sum parse d (pages sum x0) s0 /\
    forall q, In q (cov sum parse d (pages sum x0) s0) -> pages sum x' q = pages sum x0 q.
  Proof. exact (no_false_clean sum sum_eqb H parse sum_eqb_spec H_inj). Qed.

  (* verdict repaired => likewise one committed state (premise slot_sum_ok s': see MerkleP.v) *)
  Theorem c12_repaired_is_committed : forall d (x0 x' : db sum) (s' s0 : slot sum),
    recover sum sum_eqb H parse d x' = Repaired sum s' -> slot_sum_ok sum sum_eqb H s' = true ->
    genuine sum sum_eqb H parse d x0 s0 -> slot_near sum s' s0 ->
    s_payload sum s' = s_payload sum s0 /\
    serve sum parse d (pages sum x') s' = serve sum parse d (pages sum x0) s0 /\
    forall q, In q (cov sum parse d (pages sum x0) s0) -> pages sum x' q = pages sum x0 q.
  Proof. exact (repaired_is_committed sum sum_eqb H parse sum_eqb_spec H_inj). Qed.

  (* the slot that select hands out always passed its checksum *)
  Theorem c12_select_checks_sum : forall (x : db sum) b,
    select sum sum_eqb H x = Some b -> slot_sum_ok sum sum_eqb H (slot_of sum x b) = true.
  Proof. exact (select_checks_sum sum sum_eqb H). Qed.
End Statements.

(* ---- non-vacuity: H := identity on byte strings is injective; a concrete two-commit forest *)
Example c12_instance_hypotheses :
  (forall a b, bytes_eqb a b = true <-> a = b) /\ (forall x y, H_id x = H_id y -> x = y).
Proof. split; [exact bytes_eqb_spec | exact H_id_inj]. Qed.

Example c12_nonvacuous_verify :
  tverify 3 toy_img 5 branch5 = true /\ treach 3 toy_img 5 = [5; 10; 11]%N /\
  tread 3 toy_img 5 = T branch5 [T leaf10 []; T leaf11 []] /\
  tverify 3 toy_img_altered 5 branch5 = false /\
  tverify 1 toy_img 5 branch5 = false.
Proof. vm_compute. repeat split; reflexivity. Qed.

Example c12_nonvacuous_recover :
  trecover 3 (toy_db false toy_img) = Clean _ slot_new /\
  trecover 3 (toy_db true toy_img) = Clean _ slot_new /\
  trecover 3 (toy_db false toy_img_altered) = Repaired _ slot_old /\
  trecover 3 (toy_db true toy_img_altered) = Failed _ /\
  slot_sum_ok _ bytes_eqb H_id slot_new_altered = false /\
  Nat.ltb 128 walk_depth = true.
Proof. vm_compute. repeat split; try reflexivity. Qed.

(* the hypotheses of c12_no_false_clean / c12_alteration_detected are met by the toy database *)
Example c12_nonvacuous_hypotheses :
  genuine _ bytes_eqb H_id toy_parse 3 (toy_db false toy_img) slot_new /\
  genuine _ bytes_eqb H_id toy_parse 3 (toy_db false toy_img) slot_old /\
  slot_near _ slot_new slot_new /\ slot_near _ slot_new_altered slot_new /\
  In 11%N (cov _ toy_parse 3 toy_img slot_new) /\ toy_img_altered 11%N <> toy_img 11%N.
Proof.
  unfold genuine, slot_near. vm_compute.
  repeat split; auto; try (right; left; reflexivity); discriminate.
Qed.
