(* C11 -- Reopening reconstructs exactly the right allocation state.
   Only statements; every proof is `exact <lemma>`.
   Model: coq/Reopen/Model.v -- the open-path decisions of header.rs / db.rs / page_manager.rs over an
   abstract image (god byte flags; per slot: txid, checksum ok, trees verify, allocator-state table id and
   page set, required page set).  The extracted [open] is compared with the real crate on real images by
   harness/src/bin/c11.rs, which also evaluates `allocated = required` directly on every opened database. *)
From Coq Require Import List NArith Bool.
From RV Require Import Reopen.Model Reopen.ModelP.
Import ListNotations.
Open Scope N_scope.

Theorem c11_snapshot_fresh : forall i o, open i = Ok o -> o_path o = Load ->
  g_tpc i = true /\ o_swapped o = false /\ o_slot o = primary i
  /\ s_snap (primary i) = Some (s_txid (primary i)) /\ s_cksum_ok (primary i) = true.
Proof. exact snapshot_fresh. Qed.

Theorem c11_open_exact : forall i o, open i = Ok o -> wf_slot (o_slot o) -> o_alloc o = s_req (o_slot o).
Proof. exact open_exact. Qed.

Theorem c11_open_serves_verified : forall i o, open i = Ok o ->
  (o_slot o = slot0 i \/ o_slot o = slot1 i)
  /\ (o_path o = Rebuild -> s_tree_ok (o_slot o) = true)
  /\ (o_path o = Load -> s_cksum_ok (o_slot o) = true /\ g_tpc i = true).
Proof. exact open_serves_verified. Qed.

(* every crash image of a commit of every kind (1PC / 2PC / quick repair), for every running image *)
Theorem c11_crash_open_exact : forall i k txid req god sb data_ok,
  wf_running i -> s_txid (primary i) < txid ->
  crash_possible k god sb data_ok = true ->
  let ns := commit_slot k txid req in
  exists o, open (crash_image i k ns god sb data_ok) = Ok o
    /\ (same_commit (o_slot o) (primary i) \/ (same_commit (o_slot o) ns /\ data_ok = true /\ sb = SNew))
    /\ o_alloc o = s_req (o_slot o)
    /\ (o_path o = Load -> s_snap (o_slot o) = Some (s_txid (o_slot o))).
Proof. exact crash_open_exact. Qed.

Theorem c11_clean_close_loads : forall i txid req,
  wf_running i -> s_txid (primary i) < txid ->
  let ns := commit_slot CQR txid req in
  exists o, open (closed_image i ns) = Ok o /\ o_path o = Load /\ same_commit (o_slot o) ns
            /\ o_alloc o = req /\ o_swapped o = false.
Proof. exact clean_close_loads. Qed.

Theorem c11_stale_snapshot_not_trusted : forall i o i',
  open i = Ok o -> o_path o = Rebuild -> image_after_open i = Ok i' ->
  (forall t, s_snap (o_slot o) = Some t -> t <= s_txid (o_slot o)) ->
  exists o', open i' = Ok o' /\ o_path o' = Rebuild /\ o_alloc o' = s_req (o_slot o)
             /\ s_txid (o_slot o') = s_txid (o_slot o) + 1 /\ s_req (o_slot o') = s_req (o_slot o).
Proof. exact stale_snapshot_not_trusted. Qed.

Theorem c11_integrity_clean : forall l, healthy l ->
  exists l', check_integrity l = Ok (true, l') /\ healthy l'
             /\ l_latest l' = l_latest l /\ l_alloc l' = l_alloc l /\ l_pending l' = false.
Proof. exact integrity_clean. Qed.

(* (the secondary slot is either older than the primary or, after a recovery that trusted a two-phase
   primary, a copy of it: header.rs select_primary_slot since 7a0293e) *)
Theorem c11_integrity_repeatable : forall n l, healthy l ->
  exists l', check_n n l = Ok l' /\ healthy l' /\ l_latest l' = l_latest l /\ l_alloc l' = l_alloc l.
Proof. exact integrity_repeatable. Qed.

(* ---- non-vacuity *)
Definition ex_p : slot := mkSlot 7 true true (Some 7) [1;2;3;5] [1;2;3;5].   (* quick-repair commit 7 *)
Definition ex_q : slot := mkSlot 6 true false None [] [1;2;4].               (* older slot, pages partly reused *)
Definition ex_img : image := mkImage false true true ex_p ex_q.

Example c11_nonvacuous_running : wf_running ex_img /\ wf_slot ex_p.
Proof. unfold wf_running, wf_slot; simpl. repeat split; auto. left. reflexivity. Qed.

Example c11_nonvacuous_paths :
  (* crash before the header of a 1PC commit 8 reached the disk, data partly written: snapshot of 7 is loaded *)
  (exists o, open (crash_image ex_img C1PC (commit_slot C1PC 8 [1;2;6]) false STorn false) = Ok o
             /\ o_path o = Load /\ o_alloc o = [1;2;3;5] /\ s_txid (o_slot o) = 7)
  (* the 1PC header reached the disk but the data did not: fall back to 7 by a full rebuild *)
  /\ (exists o, open (crash_image ex_img C1PC (commit_slot C1PC 8 [1;2;6]) true SNew false) = Ok o
             /\ o_path o = Rebuild /\ o_alloc o = [1;2;3;5] /\ s_txid (o_slot o) = 7 /\ o_swapped o = true)
  (* everything reached the disk: commit 8 is served after a rebuild *)
  /\ (exists o, open (crash_image ex_img C1PC (commit_slot C1PC 8 [1;2;6]) true SNew true) = Ok o
             /\ o_path o = Rebuild /\ o_alloc o = [1;2;6] /\ s_txid (o_slot o) = 8)
  (* a stale table (id 7 under a repair commit 8) is not trusted *)
  /\ (exists o, open (mkImage true true true ex_q (mkSlot 8 true true (Some 7) [9;9;9] [1;2;3;5])) = Ok o
             /\ o_path o = Rebuild /\ o_alloc o = [1;2;3;5]).
Proof.
  repeat split; eexists; vm_compute; repeat split; reflexivity.
Qed.

Example c11_nonvacuous_integrity :
  let l := mkLive [1;2;6] (commit_slot C1PC 9 [1;2;6]) ex_p true true true in
  healthy l /\ exists l', check_integrity l = Ok (true, l') /\ l_pending l' = false.
Proof.
  cbv zeta. split; [unfold healthy; simpl; repeat split; auto; discriminate|].
  eexists. vm_compute. split; reflexivity.
Qed.
