(* C11 -- Reopening reconstructs exactly the right allocation state.
   Only statements; every proof is `exact <lemma>`.
   Model: coq/Reopen/Model.v -- the open-path decisions of header.rs / db.rs / page_manager.rs over an
   abstract image (god byte flags; per slot: txid, checksum ok, trees verify, allocator-state table id and
   page set, required page set).  The extracted [open] is compared with the real crate on real images by
   harness/src/bin/c11.rs, which also evaluates `allocated = required` directly on every opened database. *)
From Coq Require Import List NArith Bool.
From RV Require Import Reopen.Model Reopen.ModelP.
Import ListNotations.
Open Scope N_scope.

Theorem c11_snapshot_fresh : forall i o, open i = Ok o -> o_path o = Load ->
  g_tpc i = true /\ o_swapped o = false /\ o_slot o = primary i
  /\ s_snap (primary i) = Some (s_txid (primary i)) /\ s_cksum_ok (primary i) = true.
Proof. exact snapshot_fresh. Qed.

Theorem c11_open_exact : forall i o, open i = Ok o -> wf_slot (o_slot o) -> o_alloc o = s_req (o_slot o).
Proof. exact open_exact. Qed.

Theorem c11_open_serves_verified : forall i o, open i = Ok o ->
  (o_slot o = slot0 i \/ o_slot o = slot1 i)
  /\ (o_path o = Rebuild -> s_tree_ok (o_slot o) = true)
  /\ (o_path o = Load -> s_cksum_ok (o_slot o) = true /\ g_tpc i = true).
Proof. exact open_serves_verified. Qed.

(* every crash image of a commit of every kind (1PC / 2PC / quick repair), for every running image *)
Theorem c11_crash_open_exact : forall i k txid req god sb data_ok,
  wf_running i -> s_txid (primary i) < txid ->
  crash_possible k god sb data_ok = true ->
  let ns := commit_slot k txid req in
  exists o, open (crash_image i k ns god sb data_ok) = Ok o
    /\ (same_commit (o_slot o) (primary i) \/ (same_commit (o_slot o) ns /\ data_ok = true /\ sb = SNew))
    /\ o_alloc o = s_req (o_slot o)
    /\ (o_path o = Load -> s_snap (o_slot o) = Some (s_txid (o_slot o))).
Proof. exact crash_open_exact. Qed.

Theorem c11_clean_close_loads : forall i txid req,
  wf_running i -> s_txid (primary i) < txid ->
  let ns := commit_slot CQR txid req in
  exists o, open (closed_image i ns) = Ok o /\ o_path o = Load /\ same_commit (o_slot o) ns
            /\ o_alloc o = req /\ o_swapped o = false.
Proof. exact clean_close_loads. Qed.

Theorem c11_stale_snapshot_not_trusted : forall i o i',
  open i = Ok o -> o_path o = Rebuild -> image_after_open i = Ok i' ->
  (forall t, s_snap (o_slot o) = Some t -> t <= s_txid (o_slot o)) ->
  exists o', open i' = Ok o' /\ o_path o' = Rebuild /\ o_alloc o' = s_req (o_slot o)
             /\ s_txid (o_slot o') = s_txid (o_slot o) + 1 /\ s_req (o_slot o') = s_req (o_slot o).
Proof. exact stale_snapshot_not_trusted. Qed.

Theorem c11_integrity_clean : forall l, healthy l ->
  exists l', check_integrity l = Ok (true, l') /\ healthy l'
             /\ l_latest l' = l_latest l /\ l_alloc l' = l_alloc l /\ l_pending l' = false.
Proof. exact integrity_clean. Qed.

(* (the secondary slot is either older than the primary or, after a recovery that trusted a two-phase
   primary, a copy of it: header.rs select_primary_slot since 7a0293e) *)
Theorem c11_integrity_repeatable : forall n l, healthy l ->
  exists l', check_n n l = Ok l' /\ healthy l' /\ l_latest l' = l_latest l /\ l_alloc l' = l_alloc l.
Proof. exact integrity_repeatable. Qed.

(* ---- non-vacuity *)
Definition ex_p : slot := mkSlot 7 true true (Some 7) [1;2;3;5] [1;2;3;5].   (* quick-repair commit 7 *)
Definition ex_q : slot := mkSlot 6 true false None [] [1;2;4].               (* older slot, pages partly reused *)
Definition ex_img : image := mkImage false true true ex_p ex_q.

Example c11_nonvacuous_running : wf_running ex_img /\ wf_slot ex_p.
Proof. unfold wf_running, wf_slot; simpl. repeat split; auto. left. reflexivity. Qed.

Example c11_nonvacuous_paths :
  (* crash before the header of a 1PC commit 8 reached the disk, data partly written: snapshot of 7 is loaded *)
  (exists o, open (crash_image ex_img C1PC (commit_slot C1PC 8 [1;2;6]) false STorn false) = Ok o
             /\ o_path o = Load /\ o_alloc o = [1;2;3;5] /\ s_txid (o_slot o) = 7)
  (* the 1PC header reached the disk but the data did not: fall back to 7 by a full rebuild *)
  /\ (exists o, open (crash_image ex_img C1PC (commit_slot C1PC 8 [1;2;6]) true SNew false) = Ok o
             /\ o_path o = Rebuild /\ o_alloc o = [1;2;3;5] /\ s_txid (o_slot o) = 7 /\ o_swapped o = true)
  (* everything reached the disk: commit 8 is served after a rebuild *)
  /\ (exists o, open (crash_image ex_img C1PC (commit_slot C1PC 8 [1;2;6]) true SNew true) = Ok o
             /\ o_path o = Rebuild /\ o_alloc o = [1;2;6] /\ s_txid (o_slot o) = 8)
  (* a stale table (id 7 under a repair commit 8) is not trusted *)
  /\ (exists o, open (mkImage true true true ex_q (mkSlot 8 true true (Some 7) [9;9;9] [1;2;3;5])) = Ok o
             /\ o_path o = Rebuild /\ o_alloc o = [1;2;3;5]).
Proof.
  repeat split; eexists; vm_compute; repeat split; reflexivity.
Qed.

Example c11_nonvacuous_integrity :
  let l := mkLive [1;2;6] (commit_slot C1PC 9 [1;2;6]) ex_p true true true in
  healthy l /\ exists l', check_integrity l = Ok (true, l') /\ l_pending l' = false.
Proof.
  cbv zeta. split; [unfold healthy; simpl; repeat split; auto; discriminate|].
  eexists. vm_compute. split; reflexivity.
Qed.

(* ======================================================================================================
   C11 connected to the page-ownership model (coq/Txn/Own.v, C06): the history quantifier is PROVED.
   Model: coq/Reopen/Snapshot.v -- on top of Own.st: the snapshot a quick-repair commit saves
   (`snapshot_at` = (lastid, alloc) at `commit_dur_pre .. qr:=true ..`), the durable image a process leaves
   (`dimg`: version, DATA_FREED, SYSTEM_FREED, persistent savepoints, allocator-state table, two-phase flag),
   the open paths as functions from that image to a fresh ownership state (`xopen`: load | rebuild + repair
   commit), check_integrity's comparison, the needs_repair latch and leaked pages next to the ownership state
   (`xst`), and histories over all of Own.v's steps + leak + check_integrity + clean close + crash (`xop`).
   Proofs: coq/Reopen/SnapshotP.v.  What is abstracted: see the header of Own.v; byte-level header decisions
   (torn slots, slot swaps) are the first half of this file, tied by `c11_abs_open_agrees`. *)
From RV Require Import Txn.PSet Txn.Own Txn.OwnThmP Reopen.Snapshot Reopen.SnapshotP.

(* snapshot_exact: for EVERY admissible history of Own.v (all step kinds) ending in a quick-repair durable
   commit, the saved snapshot carries the id of the version that commit publishes, is duplicate-free and has
   exactly the elements of that version's required pages (data + system pages + DATA_FREED + SYSTEM_FREED as committed) *)
Theorem c11_snapshot_exact : forall h D' Sd So pcf,
  admissible init (h ++ [OCommitDur D' Sd So true pcf]) ->
  let s := run h init in
  let sn := snapshot_at D' Sd s in
  let v := published D' Sd true s in
  snap_txid sn = vid (dur v) /\ dur (run (h ++ [OCommitDur D' Sd So true pcf]) init) = dur v /\
  NoDup (snap_pages sn) /\ NoDup (required_st v) /\
  (forall p, In p (snap_pages sn) <-> In p (required_st v)).
Proof. exact snapshot_exact. Qed.

(* stale detection, part 1: a table whose id differs from the opened version's id is never loaded; the open
   rebuilds exactly the required pages; after the repair commit the carried table is stale again *)
Theorem c11_snapshot_stale_detected : forall i,
  (forall sn, d_snap i = Some sn -> snap_txid sn <> vid (d_ver i)) ->
  open_path i = Rebuild /\ xopen i = (open_rebuild i, repair_image i) /\ alloc (fst (xopen i)) = required i.
Proof. exact stale_never_loaded. Qed.

Theorem c11_snapshot_loaded_only_own_id : forall i, open_path i = Load ->
  exists sn, d_snap i = Some sn /\ snap_txid sn = vid (d_ver i) /\ d_tpc i = true /\
             alloc (fst (xopen i)) = snap_pages sn /\
             snd (xopen i) = mkdimg (d_ver i) (d_dfreed i) (d_sfreed i) (d_sps i) (d_snap i) (d_tpc i) false.
Proof. exact loaded_only_own_id. Qed.

Theorem c11_stale_after_repair : forall i,
  (forall sn, d_snap i = Some sn -> snap_txid sn <= vid (d_ver i)) ->
  open_path (repair_image i) = Rebuild /\ required (repair_image i) = required i /\
  alloc (fst (xopen (repair_image i))) = required i.
Proof. exact stale_after_repair. Qed.

(* ... tie to the byte-level model above (c11_snapshot_fresh / c11_stale_snapshot_not_trusted speak about its `open`) *)
Theorem c11_abs_open_agrees : forall i other,
  d_tpc i = true \/ s_txid other <= vid (d_ver i) ->
  exists o, open (abs_image i other) = Ok o /\ o_path o = open_path i /\ o_slot o = abs_slot i /\
            o_swapped o = false /\ o_alloc o = map pN (alloc (fst (xopen i))).
Proof. exact abs_open_agrees. Qed.

(* stale detection, part 2 (ids are fresh): whenever, later in ANY history, the durable version carries the id
   of a snapshot, it is the very version that snapshot's own commit published; later snapshots carry larger ids *)
Theorem c11_snapshot_id_fresh : forall h1 D' Sd So pcf h2,
  admissible init (h1 ++ OCommitDur D' Sd So true pcf :: h2) ->
  let s := run h1 init in
  let s' := run (h1 ++ OCommitDur D' Sd So true pcf :: h2) init in
  vid (dur s') = snap_txid (snapshot_at D' Sd s) -> dur s' = dur (published D' Sd true s).
Proof. exact snapshot_id_fresh. Qed.

Theorem c11_snapshot_ids_differ : forall h1 D1 Sd1 So1 pcf1 h2 D2 Sd2 So2 pcf2,
  admissible init (h1 ++ OCommitDur D1 Sd1 So1 true pcf1 :: h2 ++ [OCommitDur D2 Sd2 So2 true pcf2]) ->
  let s1 := run h1 init in
  let s2 := run (h1 ++ OCommitDur D1 Sd1 So1 true pcf1 :: h2) init in
  snap_txid (snapshot_at D1 Sd1 s1) < snap_txid (snapshot_at D2 Sd2 s2).
Proof. exact snapshot_ids_differ. Qed.

(* the invariant of histories with leaks, check_integrity, clean closes and crashes (every stop is followed by an
   open and the history goes on: "repeated") *)
Theorem c11_xinv_reach : forall h, xadmissible xinit h -> XInv (xrun h xinit).
Proof. exact xinv_reach_init. Qed.

(* open_exact, unconditionally: for every such history, every way of stopping it (None = crash: the image of the
   last durable commit; Some Sd = clean close: the image of the closing quick-repair commit, or -- latch set --
   nothing new) and whichever path the open takes: allocated = required of the durable version, exactly *)
Theorem c11_open_exact_all_histories : forall h c, xadmissible xinit h ->
  let x := xrun h xinit in stop_ok x c ->
  let i := stop_image x c in
  let s' := fst (xopen i) in
  NoDup (alloc s') /\ NoDup (required i) /\ (forall p, In p (alloc s') <-> In p (required i)) /\
  required (snd (xopen i)) = required i /\
  (open_path i = Load -> exists sn, d_snap i = Some sn /\ snap_txid sn = vid (d_ver i) /\ alloc s' = snap_pages sn) /\
  (open_path i = Rebuild -> alloc s' = rebuild i).
Proof. exact open_exact_all_histories. Qed.

Theorem c11_clean_close_loads_all_histories : forall h Sd, xadmissible xinit h ->
  let x := xrun h xinit in xok x (XClose Sd) = true -> nrep x = false ->
  let i := closed_image Sd x in
  open_path i = Load /\ d_clean i = true /\
  d_snap i = Some (snapshot_at (vdata (lat (own x))) Sd (begin_write (own x))).
Proof. exact clean_close_loads. Qed.

(* write_after_open_safe: the state every open path produces satisfies Own.Inv, so everything C06 proves about
   histories (c06_inv_reach, c06_no_early_free, ...) applies to whatever is done after the reopen *)
Theorem c11_write_after_open_safe : forall h c, xadmissible xinit h ->
  let x := xrun h xinit in stop_ok x c ->
  let s' := fst (xopen (stop_image x c)) in
  Inv s' /\ inw s' = false /\
  (forall h', admissible s' h' -> Inv (run h' s') /\ incl (pinned (run h' s')) (alloc (run h' s'))).
Proof. exact write_after_open_safe. Qed.

Theorem c11_inv_all_histories : forall h, xadmissible xinit h -> Inv (own (xrun h xinit)).
Proof. exact inv_all_histories. Qed.

(* integrity_clean: in every reachable state with no write transaction live and nothing leaked, the comparison
   check_integrity makes (live allocator vs rebuild from roots + freed tables + unpersisted freed records) finds
   them equal -- O1 of C06 -- any number of times *)
Theorem c11_integrity_clean_all_histories : forall h, xadmissible xinit h ->
  let x := xrun h xinit in inw (own x) = false -> leaked x = [] ->
  integrity_verdict x = true /\
  NoDup (xalloc x) /\ (forall p, In p (xalloc x) <-> In p (rebuild_live (own x))).
Proof. exact integrity_clean_all_histories. Qed.

Theorem c11_integrity_repeatable_all_histories : forall n h, xadmissible xinit h ->
  let x := xrun h xinit in inw (own x) = false -> pend (own x) = [] -> leaked x = [] ->
  let x' := xchecks n x in
  integrity_verdict x' = true /\ img x' = img x /\ lat (own x') = lat (own x) /\ dur (own x') = dur (own x) /\
  (forall p, In p (alloc (own x')) <-> In p (alloc (own x))).
Proof. exact integrity_repeatable_all_histories. Qed.

(* the needs_repair latch: set by a panic-unwound write transaction; while set, no commit saves a snapshot and a
   close writes nothing and is not recorded clean; only check_integrity's rebuild or the end of the process clears
   it -- a later successful abort does NOT; leaked pages exist only under the latch *)
Theorem c11_leak_latch_blocks_snapshot : forall h, xadmissible xinit h ->
  let x := xrun h xinit in
  nrep (xstep x XLeak) = true /\
  (nrep x = true ->
     (forall D' Sd So qr pcf tpc, d_snap (img (xstep x (XOp (OCommitDur D' Sd So qr pcf) tpc))) = None) /\
     (forall Sd, closed_image Sd x = img x /\ d_clean (closed_image Sd x) = false) /\
     nrep (xstep x (XOp OAbort false)) = true /\
     (forall o, nrep (xstep x o) = false ->
        match o with XCheck _ _ | XClose _ | XCrash => True | _ => False end)) /\
  (leaked x <> [] -> nrep x = true).
Proof. exact leak_latch_blocks_snapshot. Qed.

(* what the correspondence driver computes per durable commit (snapshot saved? two-phase flag) is what the model's
   commit step leaves in the image; a saved snapshot carries the published id *)
Theorem c11_commit_flags_sound : forall x D' Sd So qr pcf tpc,
  let x' := xstep x (XOp (OCommitDur D' Sd So qr pcf) tpc) in
  let fl := commit_flags x qr tpc in
  d_tpc (img x') = snd fl /\ nrep x' = nrep x /\
  (fst fl = false -> d_snap (img x') = None) /\
  (fst fl = true -> exists sn, d_snap (img x') = Some sn /\ snap_txid sn = vid (d_ver (img x'))).
Proof. exact commit_flags_sound. Qed.

(* ---- non-vacuity: a history with a persistent savepoint (pending DATA_FREED / SYSTEM_FREED entries), a
   quick-repair commit, a leaked transaction, a later successful abort, a quick-repair commit under the latch *)
Fixpoint c11_xadmb (x : xst) (h : list xop) : bool :=
  match h with [] => true | o :: r => xok x o && c11_xadmb (xstep x o) r end.

Definition c11_hA : list xop :=
  [ XOp OBeginWrite false; XOp (OMutData [1;2;3]%positive) false;
    XOp (OCommitDur [1;2;3]%positive [10;11]%positive [] false false) false;
    XOp OBeginWrite false; XOp (OSpCreate 9 true) false; XOp (OMutData [1;2;4;5]%positive) false;
    XOp (OCommitDur [1;2;4;5]%positive [10;12;13]%positive [] true false) false ].

Definition c11_hB : list xop := c11_hA ++
  [ XOp OBeginWrite false; XOp (OMutData [1;2;4;6;7]%positive) false; XLeak;
    XOp OBeginWrite false; XOp (OMutData [1;2;4;8]%positive) false; XOp OAbort false;
    XOp OBeginWrite false; XOp (OCommitDur [1;2;4;5]%positive [10;12;14]%positive [] true false) false ].

Lemma c11_xadmb_sound : forall h x, c11_xadmb x h = true -> xadmissible x h.
Proof.
  induction h as [|o r IH]; intros x H; simpl in *; [exact I|].
  apply andb_true_iff in H. destruct H as [H1 H2]. split; [exact H1 | apply IH; exact H2].
Qed.

Example c11_nonvacuous_snapshot :
  let x := xrun c11_hA xinit in
  xadmissible xinit c11_hA /\
  d_snap (img x) = Some (mksnap 3 [12;13;4;5;10;11;1;2;3]%positive) /\
  d_dfreed (img x) = [(3, [3]%positive)] /\ d_sfreed (img x) = [(3, [11]%positive)] /\
  required (img x) = [1;2;4;5;10;12;13;3;11]%positive /\
  open_path (img x) = Load /\ xalloc (reopened (img x)) = [12;13;4;5;10;11;1;2;3]%positive /\
  own_checkb (own (reopened (img x))) = true.
Proof. split; [apply c11_xadmb_sound; vm_compute; reflexivity|]. vm_compute. repeat split; reflexivity. Qed.

Example c11_nonvacuous_latch :
  let x := xrun c11_hB xinit in
  xadmissible xinit c11_hB /\ nrep x = true /\ leaked x = [6;7]%positive /\ d_snap (img x) = None /\
  integrity_verdict x = false /\ open_path (img x) = Rebuild /\
  xalloc (xstep x XCrash) = [1;2;4;5;10;12;14;3;11]%positive /\ nrep (xstep x XCrash) = false /\
  open_path (img (xstep x XCrash)) = Rebuild /\
  (let y := xstep x (XCheck [] true) in nrep y = false /\ leaked y = [] /\ integrity_verdict y = true /\
     xok y (XClose [10;12;15]%positive) = true /\
     open_path (closed_image [10;12;15]%positive y) = Load /\ d_clean (closed_image [10;12;15]%positive y) = true /\
     own_checkb (own (xstep y (XClose [10;12;15]%positive))) = true).
Proof. split; [apply c11_xadmb_sound; vm_compute; reflexivity|]. vm_compute. repeat split; reflexivity. Qed.

(* ------------------------------------------------------------------------------------------------
   Tie to the code (Gen/Fns.v is regenerated from header.rs / transactions.rs on every run by tools/gen_fns.py; see
   design.d/GEN.md): select_primary of the reopen model is the function translated from
   UnrepairedDatabaseHeader::select_primary_slot, and the free horizon of the ownership model is the expression
   translated from durable_commit. *)
From RV Require Import Gen.FnsLib Gen.Fns Gen.FnsRecoverP Gen.FnsTxnP.

Theorem c11_code_select_primary_slot_is_model : forall i : Reopen.Model.image,
  Reopen.Model.select_primary i =
  match UnrepairedDatabaseHeader_select_primary_slot (g_tpc i) (negb (s_cksum_ok (primary i)))
          (negb (s_cksum_ok (secondary i))) (Reopen.Model.s_txid (primary i)) (Reopen.Model.s_txid (secondary i)) with
  | None => Err
  | Some true => Ok (i, true)
  | Some false => Ok (swap i, false)
  end.
Proof. exact reopen_select_primary_is_model. Qed.

Theorem c11_code_durable_commit_free_until_is_model : forall dflt s,
  Own.horizon dflt s = durable_commit_free_until (PSet.minN (Own.live_ids s)) dflt.
Proof. exact own_horizon_is_model. Qed.
