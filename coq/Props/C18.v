(* C18 -- Gap cursors agree with a sorted-map cursor.
   This file contains only statements; every proof is `exact <lemma>`.
   Specification cursor: a zipper over the sorted association list (Base/SortedMap.v).
   Model: the gap logic of btree_cursor.rs at the list level (Btree/Cursor.v). *)
From Coq Require Import List NArith Bool.
From RV Require Import Base.Bytes Base.SortedMap Base.SortedMapP Btree.Tree Btree.Mutator Btree.Cursor Btree.CursorP Btree.Packing Btree.PackingP Btree.Inst Btree.InstP.
Import ListNotations.

(* ---- the specification cursor is the sorted map's cursor -------------------------------------- *)
(* lower_bound / upper_bound do not change the content and sit in the gap the bound names *)
Theorem c18_seek_lower_gap : forall K V (cmp : K -> K -> comparison) (m : @map K V) (b : bound K),
  cursor_map (seek_lower cmp m b) = m /\
  Forall (fun e => above_lower cmp b (fst e) = false) (c_before (seek_lower cmp m b)) /\
  match peek_next (seek_lower cmp m b) with Some e => above_lower cmp b (fst e) = true | None => True end.
Proof. exact (@seek_lower_spec). Qed.

Theorem c18_seek_upper_gap : forall K V (cmp : K -> K -> comparison) (m : @map K V) (b : bound K),
  cursor_map (seek_upper cmp m b) = m /\
  Forall (fun e => below_upper cmp b (fst e) = true) (c_before (seek_upper cmp m b)) /\
  match peek_next (seek_upper cmp m b) with Some e => below_upper cmp b (fst e) = false | None => True end.
Proof. exact (@seek_upper_spec). Qed.

(* insert_before / insert_after accept a key iff it sorts strictly between the neighbours, and then
   the edit is exactly SortedMap.insert (never an overwrite); otherwise nothing changes *)
Theorem c18_insert_before_iff : forall K V (cmp : K -> K -> comparison), OrderLaws cmp ->
  forall (c : @cursor K V) k v, sorted cmp (cursor_map c) ->
  let '(ok, c') := insert_before cmp c k v in
  ok = gap_accepts cmp c k /\
  cursor_map c' = (if ok then SortedMap.insert cmp (cursor_map c) k v else cursor_map c) /\ sorted cmp (cursor_map c').
Proof. exact (@insert_before_spec). Qed.

Theorem c18_insert_after_iff : forall K V (cmp : K -> K -> comparison), OrderLaws cmp ->
  forall (c : @cursor K V) k v, sorted cmp (cursor_map c) ->
  let '(ok, c') := insert_after cmp c k v in
  ok = gap_accepts cmp c k /\
  cursor_map c' = (if ok then SortedMap.insert cmp (cursor_map c) k v else cursor_map c) /\ sorted cmp (cursor_map c').
Proof. exact (@insert_after_spec). Qed.

(* remove_next / remove_prev remove exactly the neighbour *)
Theorem c18_remove_next_exact : forall K V (cmp : K -> K -> comparison), OrderLaws cmp ->
  forall (c : @cursor K V), sorted cmp (cursor_map c) ->
  let '(e, c') := remove_next c in
  e = peek_next c /\
  cursor_map c' = (match e with Some x => SortedMap.remove cmp (cursor_map c) (fst x) | None => cursor_map c end) /\
  sorted cmp (cursor_map c').
Proof. exact (@remove_next_spec). Qed.

Theorem c18_remove_prev_exact : forall K V (cmp : K -> K -> comparison), OrderLaws cmp ->
  forall (c : @cursor K V), sorted cmp (cursor_map c) ->
  let '(e, c') := remove_prev c in
  e = peek_prev c /\
  cursor_map c' = (match e with Some x => SortedMap.remove cmp (cursor_map c) (fst x) | None => cursor_map c end) /\
  sorted cmp (cursor_map c').
Proof. exact (@remove_prev_spec). Qed.

Theorem c18_moves_keep_content : forall K V (c : @cursor K V),
  cursor_map (snd (move_next c)) = cursor_map c /\ cursor_map (snd (move_prev c)) = cursor_map c.
Proof. exact (@moves_keep_content). Qed.

(* ---- the modelled gap logic refines the specification cursor ------------------------------- *)
(* one step, from any state satisfying the run bookkeeping invariant; holds for every behaviour of
   the flush oracle (however inserts are batched internally) *)
Theorem c18_step_refines : forall K V (cmp : K -> K -> comparison), OrderLaws cmp ->
  forall (flush_now : list (K * V) -> bool) (st : @mstate K V) (o : @cursor_op K V), run_ok st ->
  let '(x, st') := m_step cmp flush_now st o in
  cursor_step cmp (m_abs st) o = (x, m_abs st') /\ run_ok st'.
Proof. exact (@step_refines). Qed.

(* a whole session, from lower_bound_mut / upper_bound_mut to close(): every output equals the
   specification cursor's, and after close the table is the specification's list *)
Theorem c18_cursor_refines : forall K V (cmp : K -> K -> comparison), OrderLaws cmp ->
  forall (flush_now : list (K * V) -> bool) (c : @cursor K V) (ops : list (@cursor_op K V)),
  let '(xs, st') := m_script cmp flush_now ops (m_of_cursor c) in
  let '(ys, c') := cursor_script cmp ops c in
  xs = ys /\ m_close st' = cursor_map c'.
Proof. exact (@cursor_session_refines). Qed.

(* ---- how a flushed run is cut into leaves (build_replacement_leaves) --------------------------- *)
(* packing_inv: greedy packing + tail rebalance loses, duplicates and reorders nothing; every leaf is
   non-empty; the separators route (leaf <= its separator < next leaf; the final separator is the
   greatest key); every greedily planned leaf fits a page or holds a single pair.  For every buffer,
   page size, size functions and valid separator function.  (Where these leaves go in the tree --
   splice_insert_run / rebuild_branch_level -- is NOT modelled.) *)
Theorem c18_packing_inv : forall K V (cmp : K -> K -> comparison), OrderLaws cmp ->
  forall (ksize : K -> N) (vsize : V -> N) (fixed_k fixed_v : bool) (page_size : N) (sep : K -> K -> K),
  valid_sep cmp sep ->
  forall (es : list (K * V)) (dflt : K), sorted cmp es ->
  let out := replacement_leaves ksize vsize fixed_k fixed_v page_size sep es dflt in
  concat (List.map fst out) = es /\
  Forall (fun p => fst p <> []) out /\
  seps_chain cmp out /\
  Forall (fun c => leaf_split_required fixed_k fixed_v page_size (nlen c) (leaf_bytes ksize vsize c) = false)
         (plan ksize vsize fixed_k fixed_v page_size es).
Proof. exact (@packing_inv_lemma). Qed.

(* ---- non-vacuity ---------------------------------------------------------------------------- *)
Definition ex_map : @map key bytes := [(KU64 10, [1]); (KU64 20, [2]); (KU64 30, [3])]%N.
Definition ex_ops : list (@cursor_op key bytes) :=
  [CInsertBefore (KU64 12) [12]; CInsertBefore (KU64 15) [15]; CInsertBefore (KU64 14) [14];   (* 14 <= 15: rejected *)
   CPeekPrev; CInsertAfter (KU64 18) [18]; CInsertAfter (KU64 16) [16]; CInsertAfter (KU64 17) [17];  (* 17 >= 16: rejected *)
   CPeekNext; CInsertBefore (KU64 20) [0];                                                   (* equals the neighbour: rejected *)
   CNext; CRemoveNext; CRemovePrev; CPrev]%N.

Example c18_nonvacuous_script :
  let c := seek_lower key_cmp ex_map (Excluded (KU64 10)) in
  sorted key_cmp (cursor_map c) /\
  fst (m_script key_cmp (fun buf => Nat.leb 2 (length buf)) ex_ops (m_of_cursor c)) =
    [CAccepted true; CAccepted true; CAccepted false; CEntry (Some (KU64 15, [15]));
     CAccepted true; CAccepted true; CAccepted false; CEntry (Some (KU64 16, [16])); CAccepted false;
     CEntry (Some (KU64 16, [16])); CEntry (Some (KU64 18, [18])); CEntry (Some (KU64 16, [16]));
     CEntry (Some (KU64 15, [15]))]%N /\
  m_close (snd (m_script key_cmp (fun buf => Nat.leb 2 (length buf)) ex_ops (m_of_cursor c))) =
    [(KU64 10, [1]); (KU64 12, [12]); (KU64 15, [15]); (KU64 20, [2]); (KU64 30, [3])]%N.
Proof.
  cbv zeta. split; [apply (sortedb_sound key_cmp key_cmp_laws); vm_compute; reflexivity|].
  vm_compute. split; reflexivity.
Qed.

(* packing on a 64-byte page: 7 pairs needing 14 bytes each (4 + 14 n <= 64 admits 4) are cut into 4 + 3 *)
Example c18_nonvacuous_packing :
  let es := List.map (fun n => (KU64 n, [n; n])) [1;2;3;4;5;6;7]%N in
  List.map (fun p => (length (fst p), snd p))
           (replacement_leaves key_size val_size true false 64%N (fun l r : key => l) es (KU64 0)) =
  [(4%nat, KU64 4); (3%nat, KU64 7)].
Proof. vm_compute. reflexivity. Qed.

(* ------------------------------------------------------------------------------------------------
   Tie to the code (Gen/Fns.v is regenerated from btree_base.rs on every run by tools/gen_fns.py): the
   split / merge policies the run packing and the cursor decisions above rely on are equal to the functions
   translated from the Rust sources. *)
From RV Require Import Gen.FnsLib Gen.Fns Gen.FnsBtreeP.

Theorem c18_code_leaf_split_required_is_model : forall n bytes (fk fv : option N) ps,
  Fns.leaf_split_required n bytes fk fv ps = Mutator.leaf_split_required (isSome fk) (isSome fv) ps n bytes.
Proof. exact leaf_split_required_is_model. Qed.

Theorem c18_code_leaf_fits_one_page_is_model : forall n bytes (fk fv : option N) ps,
  Fns.leaf_fits_one_page n bytes fk fv ps = Mutator.leaf_fits (isSome fk) (isSome fv) ps n bytes.
Proof. exact leaf_fits_is_model. Qed.

Theorem c18_code_leaf_below_merge_threshold_is_model : forall n bytes (fk fv : option N) ps,
  Fns.leaf_below_merge_threshold n bytes fk fv ps = Mutator.leaf_below_merge (isSome fk) (isSome fv) ps n bytes.
Proof. exact leaf_below_merge_is_model. Qed.

Theorem c18_code_leaf_required_bytes_is_model : forall n bytes (fk fv : option N),
  RawLeafBuilder_required_bytes n bytes fk fv = Mutator.leaf_required (isSome fk) (isSome fv) n bytes.
Proof. exact leaf_required_is_model. Qed.

Theorem c18_code_leaf_split_division_is_model :
  forall {K V} (ksize : K -> N) (vsize : V -> N) (es : list (K * V)),
  Mutator.division ksize vsize es =
  N.to_nat (LeafBuilder_build_split_clamp
              (N.of_nat (Mutator.split_point ksize vsize es 0 (Mutator.leaf_bytes ksize vsize es / 2)%N))
              (Mutator.nlen es) 65535%N).
Proof. exact @division_is_model. Qed.

(* ================================================================================================
   The TREE-LEVEL splice of an insert run (Btree/CursorSplice.v: open_insert_run's position, flush_insert_run,
   splice_insert_run with its pointer-swap fast path and the carried bound, rebuild_branch_level,
   build_branch_nodes, replace_branch_child, root growth).  Proofs: Btree/CursorSpliceP.v, CursorSpliceTopP.v. *)
From RV Require Import Btree.Read Btree.ScanTree Btree.SpliceP Btree.CursorSplice Btree.CursorSpliceP Btree.CursorSpliceTopP.

(* For EVERY well-formed tree, every gap (after the first |pre| entries), every run that the gap logic accepts
   (strictly increasing and strictly between the gap's neighbours: `sorted (pre ++ run ++ post)`; the buffer is in
   key order for ascending and descending runs alike), every key/value size function, page size and valid separator
   function: the spliced tree satisfies TreeInv -- every separator bounds its neighbouring subtrees
   (max left <= sep < min right: the routing invariant), every branch has >= 2 children, all leaves at one depth, no
   empty leaf, length = number of entries -- and holds exactly SortedMap.insert of every entry of the run. *)
Theorem c18_splice_refines : forall K V (cmp : K -> K -> comparison), OrderLaws cmp ->
  forall (ksize : K -> N) (vsize : V -> N) (fixed_k fixed_v : bool) (page_size : N) (sep : K -> K -> K),
  valid_sep cmp sep ->
  forall (bt : @btree K V) (pre post run : list (K * V)),
  TreeInv cmp bt -> abs_tree bt = pre ++ post -> run <> [] -> sorted cmp (pre ++ run ++ post) ->
  TreeInv cmp (flush_at_gap cmp ksize vsize fixed_k fixed_v page_size sep bt (length pre) run) /\
  abs_tree (flush_at_gap cmp ksize vsize fixed_k fixed_v page_size sep bt (length pre) run) = insert_all cmp (abs_tree bt) run /\
  abs_tree (flush_at_gap cmp ksize vsize fixed_k fixed_v page_size sep bt (length pre) run) = pre ++ run ++ post.
Proof. exact (@flush_at_gap_refines). Qed.

(* the same for splice_insert_run at an explicit position (leaf j, index pos): index 0 is only admitted in the first
   leaf -- a run opened at index 0 of a later leaf could hold keys at or below the separator in front of that leaf *)
Theorem c18_splice_at_position : forall K V (cmp : K -> K -> comparison), OrderLaws cmp ->
  forall (ksize : K -> N) (vsize : V -> N) (fixed_k fixed_v : bool) (page_size : N) (sep : K -> K -> K),
  valid_sep cmp sep ->
  forall (bt : @btree K V) j pos run, TreeInv cmp bt -> run <> [] ->
  (bt_root bt <> None -> (j < length (bt_leaves bt))%nat /\ (pos <= length (nth j (bt_leaves bt) []))%nat /\ (pos = 0%nat -> j = 0%nat)) ->
  sorted cmp (gap_pre (bt_leaves bt) j pos ++ run ++ gap_post (bt_leaves bt) j pos) ->
  TreeInv cmp (splice_insert_run cmp ksize vsize fixed_k fixed_v page_size sep bt j pos run) /\
  abs_tree (splice_insert_run cmp ksize vsize fixed_k fixed_v page_size sep bt j pos run) =
    gap_pre (bt_leaves bt) j pos ++ run ++ gap_post (bt_leaves bt) j pos.
Proof. exact (@splice_insert_run_ok). Qed.

(* open_insert_run (peek_next, then peek_prev) keeps the gap and settles it so that the index is 0 only at the very
   start of the tree: a gap that coincides with a leaf boundary is opened in the EARLIER leaf at its end (so that
   peek_prev with a pending descending run reads the previous leaf's last entry from the current leaf) *)
Theorem c18_open_run_position : forall E (ls : list (list E)), Forall (fun l => l <> []) ls ->
  forall p, valid_pos ls p ->
  valid_pos ls (open_pos ls p) /\ gap_index ls (open_pos ls p) = gap_index ls p /\
  (snd (open_pos ls p) = 0%nat -> fst (open_pos ls p) = 0%nat).
Proof. exact (@open_pos_spec). Qed.

Theorem c18_open_run_at_boundary : forall E (ls : list (list E)), Forall (fun l => l <> []) ls ->
  forall j, (S j < length ls)%nat ->
  open_pos ls (S j, 0%nat) = (j, length (nth j ls [])) /\
  open_pos ls (j, length (nth j ls [])) = (j, length (nth j ls [])).
Proof. exact (fun E ls H j Hj => conj (@open_pos_boundary_from_later E ls H j Hj) (@open_pos_boundary_from_earlier E ls j Hj)). Qed.

(* build_branch_nodes: any level of >= 2 children whose bounds route (only the last may lack one) is packed into
   well-formed branch pages of the next height -- in particular each has >= 2 children --, nothing lost or reordered,
   the bound of the level unchanged, and the level at least halves (root growth terminates) *)
Theorem c18_branch_packing_inv : forall K V (cmp : K -> K -> comparison) (ksize : K -> N) (fixed_k : bool) (page_size : N) (dflt : K)
  h lo hi (l : list (@node K V * option K)), (2 <= length l)%nat -> wk_chain cmp h lo hi l ->
  let out := build_branch_nodes ksize fixed_k page_size (@Branch K V) dflt l in
  wk_chain cmp (S h) lo hi out /\ wk_abs out = wk_abs l /\ last_key_of out = last_key_of l /\
  (1 <= length out)%nat /\ (2 * length out <= length l)%nat.
Proof. exact (@build_branch_nodes_ok). Qed.

(* ---- whole cursor sessions on the TREE ---------------------------------------------------------
   Btree/CursorSession.v (the session machine with the flush decision as an oracle), Btree/CursorSessionP.v. *)
From RV Require Import Btree.CursorSession Btree.CursorSessionP.

(* c18_cursor_refines_tree: for EVERY well-formed tree, every opening position (lower_bound / upper_bound of any
   bound), every script of peek_next / peek_prev / next / prev / insert_before / insert_after / remove_next /
   remove_prev, every key/value size function, page size, valid separator function and every INSERT_FLUSH_BYTES
   threshold: the tree-level session of CursorSplice.v (gap logic of btree_cursor.rs driving open_insert_run /
   splice_insert_run / pop_leaf_entry on the B-tree; flushes forced by a direction switch, a move, a removal and
   close, and decided by total_bytes() >= threshold) returns exactly the outputs of the sorted-map gap cursor opened
   at the same bound on the tree's contents -- inserts accepted iff strictly between the gap's neighbours
   (c18_insert_before_iff / c18_insert_after_iff), the neighbours peeked / stepped over / removed -- and after
   close() the tree is well-formed (TreeInv) and holds exactly the specification's map. *)
Theorem c18_cursor_refines_tree : forall K V (cmp : K -> K -> comparison), OrderLaws cmp ->
  forall (ksize : K -> N) (vsize : V -> N) (fixed_k fixed_v : bool) (page_size : N) (sep : K -> K -> K),
  valid_sep cmp sep ->
  forall (flush_bytes : N) (bt : @btree K V) (lower : bool) (b : bound K) (ops : list (@cursor_op K V)),
  TreeInv cmp bt ->
  let '(outs, bt') := t_session cmp ksize vsize fixed_k fixed_v page_size sep flush_bytes bt lower b ops in
  let '(ys, c') := cursor_script cmp ops (if lower then seek_lower cmp (abs_tree bt) b else seek_upper cmp (abs_tree bt) b) in
  outs = ys /\ TreeInv cmp bt' /\ abs_tree bt' = cursor_map c'.
Proof. exact (@tree_session_refines). Qed.

(* the same however the inserts are batched: the size-triggered decision replaced by an ARBITRARY oracle `fls` of the
   step (number of operations that remain: distinct per step, so every sequence of decisions is some oracle) and of
   the whole machine state (tree, gap, pending run).  t_session is the instance threshold_oracle
   (CursorSessionP.c_session_is_g_session, used in the proof of the theorem above). *)
Theorem c18_cursor_refines_tree_any_flush : forall K V (cmp : K -> K -> comparison), OrderLaws cmp ->
  forall (ksize : K -> N) (vsize : V -> N) (fixed_k fixed_v : bool) (page_size : N) (sep : K -> K -> K),
  valid_sep cmp sep ->
  forall (fls : nat -> @cstate K V (@btree K V) -> bool) (bt : @btree K V) (lower : bool) (b : bound K)
         (ops : list (@cursor_op K V)),
  TreeInv cmp bt ->
  let '(outs, bt') := tg_session cmp ksize vsize fixed_k fixed_v page_size sep fls bt lower b ops in
  let '(ys, c') := cursor_script cmp ops (if lower then seek_lower cmp (abs_tree bt) b else seek_upper cmp (abs_tree bt) b) in
  outs = ys /\ TreeInv cmp bt' /\ abs_tree bt' = cursor_map c'.
Proof. exact (@tree_session_refines_oracle). Qed.

(* ---- non-vacuity and the two negative variants ------------------------------------------------ *)
Definition ex_kv (n : N) : key * bytes := (KU64 n, [n]).
Definition ex_leaf (l : list N) : @node key bytes := Leaf (List.map ex_kv l).
(* three levels: root separator 4 between the subtrees {1,2 | 3,4} and {10,11 | 12,13} *)
Definition ex_tree3 : @btree key bytes :=
  mk_btree (Some (Branch (Branch (ex_leaf [1; 2]) [(KU64 2, ex_leaf [3; 4])])
                         [(KU64 4, Branch (ex_leaf [10; 11]) [(KU64 11, ex_leaf [12; 13])])]))%N 8.

(* the gap between 4 and 10 is the boundary of the two subtrees; the run 7, 8 is above the root separator 4.  The run is
   opened at the END of leaf 1 (the earlier leaf); the replacement collapses to one leaf whose raised bound 8 passes the
   parent (which stores no separator for its last child) and reaches the root, which is rebuilt with separator 8 *)
Example c18_nonvacuous_splice :
  let run := [ex_kv 7; ex_kv 8]%N in
  let bt' := flush_at_gap key_cmp key_size val_size true false 64 (fun l r : key => l) ex_tree3 4 run in
  tree_checkb key_cmp ex_tree3 = true /\
  open_pos (bt_leaves ex_tree3) (gap_pos (bt_leaves ex_tree3) 4) = (1%nat, 2%nat) /\
  tree_checkb key_cmp bt' = true /\
  List.map fst (abs_tree bt') = List.map KU64 [1; 2; 3; 4; 7; 8; 10; 11; 12; 13]%N /\
  match bt_root bt' with Some (Branch _ [(s, _)]) => s = KU64 8 | _ => False end.
Proof. vm_compute. repeat split; reflexivity. Qed.

(* a session on the 3-level tree opened at lower_bound(10): the gap between 4 and 10 is the boundary of the leaves
   {3,4} and {10,11} (and of the root's two subtrees).  Ascending inserts 5, 6 (the second crosses the threshold:
   18 bytes copied from the leaf + 2 * 9 >= 30, spliced at once), 6 again REJECTED (<= previous insert), descending
   inserts 9, 9 again REJECTED (>= pending insert), 8, peeks into the buffers, ascending 7 (direction switch: the
   pending 8, 9 are spliced first), remove_next (forced flush of 7, removes 8), moves, remove_prev (removes 6), two
   more rejections (equal to the neighbour 10; 7 is in the tree).  Outputs = the specification cursor's; the final
   tree is well-formed and holds 1 2 3 4 5 7 9 10 11 12 13 in the leaves {1,2} {3,4,5} {7,9} {10,11} {12,13}. *)
Definition ex_session : list (@cursor_op key bytes) :=
  [CInsertBefore (KU64 5) [5]; CInsertBefore (KU64 6) [6]; CInsertBefore (KU64 6) [0];
   CInsertAfter (KU64 9) [9]; CInsertAfter (KU64 9) [0]; CInsertAfter (KU64 8) [8]; CPeekPrev; CPeekNext;
   CInsertBefore (KU64 7) [7]; CRemoveNext; CNext; CPrev; CPrev; CRemovePrev;
   CInsertAfter (KU64 10) [0]; CInsertBefore (KU64 7) [77]; CPeekPrev]%N.
Definition ex_session_outs : list (@cursor_out key bytes) :=
  [CAccepted true; CAccepted true; CAccepted false; CAccepted true; CAccepted false; CAccepted true;
   CEntry (Some (ex_kv 6)); CEntry (Some (ex_kv 8)); CAccepted true; CEntry (Some (ex_kv 8)); CEntry (Some (ex_kv 9));
   CEntry (Some (ex_kv 9)); CEntry (Some (ex_kv 7)); CEntry (Some (ex_kv 6)); CAccepted false; CAccepted false;
   CEntry (Some (ex_kv 5))]%N.

Example c18_nonvacuous_tree_session :
  let r := t_session key_cmp key_size val_size true false 64 (fun l r : key => l) 30 ex_tree3 true (Included (KU64 10)) ex_session in
  tree_checkb key_cmp ex_tree3 = true /\
  fst r = ex_session_outs /\
  fst (cursor_script key_cmp ex_session (seek_lower key_cmp (abs_tree ex_tree3) (Included (KU64 10)))) = ex_session_outs /\
  tree_checkb key_cmp (snd r) = true /\
  bt_leaves (snd r) = List.map (List.map ex_kv) [[1; 2]; [3; 4; 5]; [7; 9]; [10; 11]; [12; 13]]%N /\
  abs_tree (snd r) = cursor_map (snd (cursor_script key_cmp ex_session (seek_lower key_cmp (abs_tree ex_tree3) (Included (KU64 10))))).
Proof. vm_compute. repeat split; reflexivity. Qed.

(* the same script under an oracle that splices after every accepted insert at an even number of remaining
   operations, opened at upper_bound(4) (the same gap reached from the other side) *)
Example c18_nonvacuous_tree_session_any_flush :
  let r := tg_session key_cmp key_size val_size true false 64 (fun l r : key => l) (fun n _ => Nat.even n) ex_tree3 false
             (Included (KU64 4)) ex_session in
  fst r = ex_session_outs /\ tree_checkb key_cmp (snd r) = true /\
  List.map fst (abs_tree (snd r)) = List.map KU64 [1; 2; 3; 4; 5; 7; 9; 10; 11; 12; 13]%N.
Proof. vm_compute. repeat split; reflexivity. Qed.

(* ---- erasure: the session theorem holds of the DECORATED model ------------------------------------
   ShapeCursor.s_session runs the same session machine on Shape.v's snode (dirty flag and allocated length per
   page); it is the model that is extracted and compared node by node with the real B-tree after every cursor
   session (S2).  Erasing the decorations commutes with a whole session: outputs equal, final tree erased
   (Btree/ShapeCursorP.v: the list-level functions of the splice are polymorphic in the node type and commute with
   any map of nodes that commutes with the page constructor; leaves / locate / build_replacement_leaves /
   splice_sub / splice_insert_run / delete_key on snode; the session machine commutes with any such map of stores).
   Required without Import: ShapeScan re-uses names of ScanTree. *)
From RV Require Btree.Shape Btree.ShapeScan Btree.ShapeCursor Btree.ShapeCursorP.

Theorem c18_shape_session_erases : forall K V (cmp : K -> K -> comparison)
  (ksize : K -> N) (vsize : V -> N) (fixed_k fixed_v : bool) (page_size : N) (sep : K -> K -> K) (flush_bytes : N)
  (st : @Shape.sbtree K V) (lower : bool) (b : bound K) (ops : list (@cursor_op K V)),
  t_session cmp ksize vsize fixed_k fixed_v page_size sep flush_bytes (Shape.erase_tree st) lower b ops =
  (fst (ShapeCursor.s_session cmp ksize vsize fixed_k fixed_v page_size sep flush_bytes st lower b ops),
   Shape.erase_tree (snd (ShapeCursor.s_session cmp ksize vsize fixed_k fixed_v page_size sep flush_bytes st lower b ops))).
Proof. exact (@ShapeCursorP.session_erase). Qed.

(* c18_cursor_refines_tree transferred to the decorated model: for every decorated tree whose erasure is well-formed *)
Theorem c18_cursor_refines_shape : forall K V (cmp : K -> K -> comparison)
  (ksize : K -> N) (vsize : V -> N) (fixed_k fixed_v : bool) (page_size : N) (sep : K -> K -> K) (flush_bytes : N),
  OrderLaws cmp -> valid_sep cmp sep ->
  forall (st : @Shape.sbtree K V) (lower : bool) (b : bound K) (ops : list (@cursor_op K V)),
  TreeInv cmp (Shape.erase_tree st) ->
  let '(outs, st') := ShapeCursor.s_session cmp ksize vsize fixed_k fixed_v page_size sep flush_bytes st lower b ops in
  let '(ys, c') := cursor_script cmp ops (if lower then seek_lower cmp (abs_tree (Shape.erase_tree st)) b
                                          else seek_upper cmp (abs_tree (Shape.erase_tree st)) b) in
  outs = ys /\ TreeInv cmp (Shape.erase_tree st') /\ abs_tree (Shape.erase_tree st') = cursor_map c'.
Proof. exact (@ShapeCursorP.shape_session_refines). Qed.

(* the example session on a decorated copy of the 3-level tree (left half committed; the right branch and the last
   leaf already uncommitted): the rebuilt spine and the leaves the splices built are uncommitted pages, the untouched
   leaves {1,2} and {10,11} keep their committed pages; erasing gives exactly the logical session's tree *)
Definition ex_sleaf (d : bool) (l : list N) : @Shape.snode key bytes := Shape.SLeaf d 64 (List.map ex_kv l).
Definition ex_stree3 : @Shape.sbtree key bytes :=
  Shape.mk_sbtree
    (Some (Shape.SBranch false (Shape.SBranch false (ex_sleaf false [1; 2]) [(KU64 2, ex_sleaf false [3; 4])])
             [(KU64 4, Shape.SBranch true (ex_sleaf false [10; 11]) [(KU64 11, ex_sleaf true [12; 13])])]))%N 8.

Example c18_nonvacuous_shape_session :
  let r := ShapeCursor.s_session key_cmp key_size val_size true false 64 (fun l r : key => l) 30 ex_stree3 true
             (Included (KU64 10)) ex_session in
  Shape.erase_tree ex_stree3 = ex_tree3 /\
  fst r = ex_session_outs /\
  snd r = Shape.mk_sbtree
            (Some (Shape.SBranch true
                     (Shape.SBranch true (ex_sleaf false [1; 2])
                        [(KU64 2, ex_sleaf true [3; 4; 5]); (KU64 5, ex_sleaf true [7; 9])])
                     [(KU64 9, Shape.SBranch true (ex_sleaf false [10; 11]) [(KU64 11, ex_sleaf true [12; 13])])]))%N 11 /\
  Shape.erase_tree (snd r) =
    snd (t_session key_cmp key_size val_size true false 64 (fun l r : key => l) 30 ex_tree3 true (Included (KU64 10)) ex_session).
Proof. vm_compute. repeat split; reflexivity. Qed.

(* NEGATIVE: the variant that drops the carried bound at the ancestor storing no separator for the slot leaves the
   root separator 4 in front of a subtree that now holds 7 and 8: the routing invariant fails (get 7 would miss) *)
Example c18_dropped_carried_bound_breaks_routing :
  let run := [ex_kv 7; ex_kv 8]%N in
  let bad := splice_insert_run_gen key_cmp key_size val_size true false 64 (fun l r : key => l) false ex_tree3 1 2 run in
  tree_checkb key_cmp bad = false /\
  Read.tget key_cmp bad (KU64 7) = None /\
  Read.tget key_cmp (splice_insert_run key_cmp key_size val_size true false 64 (fun l r : key => l) ex_tree3 1 2 run) (KU64 7) = Some [7]%N.
Proof. vm_compute. repeat split; reflexivity. Qed.

(* NEGATIVE: branch packing without the `index - start >= 2` guard cuts a page after ONE child when a separator is
   about a page long (variable-width keys, 64-byte pages, 10-byte separators): branch pages with no key *)
Definition ex_long (n : N) : key := KBytes [n; n; n; n; n; n; n; n; n; n].
Definition ex_level : list (@node key bytes * option key) :=
  [(Leaf [(ex_long 1, [1])], Some (ex_long 1)); (Leaf [(ex_long 2, [2])], Some (ex_long 2));
   (Leaf [(ex_long 3, [3])], Some (ex_long 3)); (Leaf [(ex_long 4, [4])], None)]%N.
Definition keys_per_page (l : list (@node key bytes * option key)) : list nat :=
  List.map (fun p => match fst p with Branch _ rest => length rest | Leaf _ => 0%nat end) l.

Example c18_packing_guard_needed :
  keys_per_page (build_branch_nodes_gen key_size false 64 (@Branch key bytes) (KU64 0) true true ex_level) = [1%nat; 1%nat] /\
  keys_per_page (build_branch_nodes_gen key_size false 64 (@Branch key bytes) (KU64 0) false true ex_level) = [0%nat; 0%nat; 1%nat] /\
  (* and without the tail fix-up a level of three such children ends in a one-child page *)
  keys_per_page (build_branch_nodes_gen key_size false 64 (@Branch key bytes) (KU64 0) true false (firstn 3 ex_level)) = [1%nat; 0%nat] /\
  keys_per_page (build_branch_nodes_gen key_size false 64 (@Branch key bytes) (KU64 0) true true (firstn 3 ex_level)) = [2%nat].
Proof. vm_compute. repeat split; reflexivity. Qed.
