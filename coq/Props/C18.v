(* C18 -- Gap cursors agree with a sorted-map cursor.
   This file contains only statements; every proof is `exact <lemma>`.
   Specification cursor: a zipper over the sorted association list (Base/SortedMap.v).
   Model: the gap logic of btree_cursor.rs at the list level (Btree/Cursor.v). *)
From Coq Require Import List NArith Bool.
From RV Require Import Base.Bytes Base.SortedMap Base.SortedMapP Btree.Tree Btree.Mutator Btree.Cursor Btree.CursorP Btree.Packing Btree.PackingP Btree.Inst Btree.InstP.
Import ListNotations.

(* ---- the specification cursor is the sorted map's cursor -------------------------------------- *)
(* lower_bound / upper_bound do not change the content and sit in the gap the bound names *)
Theorem c18_seek_lower_gap : forall K V (cmp : K -> K -> comparison) (m : @map K V) (b : bound K),
  cursor_map (seek_lower cmp m b) = m /\
  Forall (fun e => above_lower cmp b (fst e) = false) (c_before (seek_lower cmp m b)) /\
  match peek_next (seek_lower cmp m b) with Some e => above_lower cmp b (fst e) = true | None => True end.
Proof. exact (@seek_lower_spec). Qed.

Theorem c18_seek_upper_gap : forall K V (cmp : K -> K -> comparison) (m : @map K V) (b : bound K),
  cursor_map (seek_upper cmp m b) = m /\
  Forall (fun e => below_upper cmp b (fst e) = true) (c_before (seek_upper cmp m b)) /\
  match peek_next (seek_upper cmp m b) with Some e => below_upper cmp b (fst e) = false | None => True end.
Proof. exact (@seek_upper_spec). Qed.

(* insert_before / insert_after accept a key iff it sorts strictly between the neighbours, and then
   the edit is exactly SortedMap.insert (never an overwrite); otherwise nothing changes *)
Theorem c18_insert_before_iff : forall K V (cmp : K -> K -> comparison), OrderLaws cmp ->
  forall (c : @cursor K V) k v, sorted cmp (cursor_map c) ->
  let '(ok, c') := insert_before cmp c k v in
  ok = gap_accepts cmp c k /\
  cursor_map c' = (if ok then SortedMap.insert cmp (cursor_map c) k v else cursor_map c) /\ sorted cmp (cursor_map c').
Proof. exact (@insert_before_spec). Qed.

Theorem c18_insert_after_iff : forall K V (cmp : K -> K -> comparison), OrderLaws cmp ->
  forall (c : @cursor K V) k v, sorted cmp (cursor_map c) ->
  let '(ok, c') := insert_after cmp c k v in
  ok = gap_accepts cmp c k /\
  cursor_map c' = (if ok then SortedMap.insert cmp (cursor_map c) k v else cursor_map c) /\ sorted cmp (cursor_map c').
Proof. exact (@insert_after_spec). Qed.

(* remove_next / remove_prev remove exactly the neighbour *)
Theorem c18_remove_next_exact : forall K V (cmp : K -> K -> comparison), OrderLaws cmp ->
  forall (c : @cursor K V), sorted cmp (cursor_map c) ->
  let '(e, c') := remove_next c in
  e = peek_next c /\
  cursor_map c' = (match e with Some x => SortedMap.remove cmp (cursor_map c) (fst x) | None => cursor_map c end) /\
  sorted cmp (cursor_map c').
Proof. exact (@remove_next_spec). Qed.

Theorem c18_remove_prev_exact : forall K V (cmp : K -> K -> comparison), OrderLaws cmp ->
  forall (c : @cursor K V), sorted cmp (cursor_map c) ->
  let '(e, c') := remove_prev c in
  e = peek_prev c /\
  cursor_map c' = (match e with Some x => SortedMap.remove cmp (cursor_map c) (fst x) | None => cursor_map c end) /\
  sorted cmp (cursor_map c').
Proof. exact (@remove_prev_spec). Qed.

Theorem c18_moves_keep_content : forall K V (c : @cursor K V),
  cursor_map (snd (move_next c)) = cursor_map c /\ cursor_map (snd (move_prev c)) = cursor_map c.
Proof. exact (@moves_keep_content). Qed.

(* ---- the modelled gap logic refines the specification cursor ------------------------------- *)
(* one step, from any state satisfying the run bookkeeping invariant; holds for every behaviour of
   the flush oracle (however inserts are batched internally) *)
Theorem c18_step_refines : forall K V (cmp : K -> K -> comparison), OrderLaws cmp ->
  forall (flush_now : list (K * V) -> bool) (st : @mstate K V) (o : @cursor_op K V), run_ok st ->
  let '(x, st') := m_step cmp flush_now st o in
  cursor_step cmp (m_abs st) o = (x, m_abs st') /\ run_ok st'.
Proof. exact (@step_refines). Qed.

(* a whole session, from lower_bound_mut / upper_bound_mut to close(): every output equals the
   specification cursor's, and after close the table is the specification's list *)
Theorem c18_cursor_refines : forall K V (cmp : K -> K -> comparison), OrderLaws cmp ->
  forall (flush_now : list (K * V) -> bool) (c : @cursor K V) (ops : list (@cursor_op K V)),
  let '(xs, st') := m_script cmp flush_now ops (m_of_cursor c) in
  let '(ys, c') := cursor_script cmp ops c in
  xs = ys /\ m_close st' = cursor_map c'.
Proof. exact (@cursor_session_refines). Qed.

(* ---- how a flushed run is cut into leaves (build_replacement_leaves) --------------------------- *)
(* packing_inv: greedy packing + tail rebalance loses, duplicates and reorders nothing; every leaf is
   non-empty; the separators route (leaf <= its separator < next leaf; the final separator is the
   greatest key); every greedily planned leaf fits a page or holds a single pair.  For every buffer,
   page size, size functions and valid separator function.  (Where these leaves go in the tree --
   splice_insert_run / rebuild_branch_level -- is NOT modelled.) *)
Theorem c18_packing_inv : forall K V (cmp : K -> K -> comparison), OrderLaws cmp ->
  forall (ksize : K -> N) (vsize : V -> N) (fixed_k fixed_v : bool) (page_size : N) (sep : K -> K -> K),
  valid_sep cmp sep ->
  forall (es : list (K * V)) (dflt : K), sorted cmp es ->
  let out := replacement_leaves ksize vsize fixed_k fixed_v page_size sep es dflt in
  concat (List.map fst out) = es /\
  Forall (fun p => fst p <> []) out /\
  seps_chain cmp out /\
  Forall (fun c => leaf_split_required fixed_k fixed_v page_size (nlen c) (leaf_bytes ksize vsize c) = false)
         (plan ksize vsize fixed_k fixed_v page_size es).
Proof. exact (@packing_inv_lemma). Qed.

(* ---- non-vacuity ---------------------------------------------------------------------------- *)
Definition ex_map : @map key bytes := [(KU64 10, [1]); (KU64 20, [2]); (KU64 30, [3])]%N.
Definition ex_ops : list (@cursor_op key bytes) :=
  [CInsertBefore (KU64 12) [12]; CInsertBefore (KU64 15) [15]; CInsertBefore (KU64 14) [14];   (* 14 <= 15: rejected *)
   CPeekPrev; CInsertAfter (KU64 18) [18]; CInsertAfter (KU64 16) [16]; CInsertAfter (KU64 17) [17];  (* 17 >= 16: rejected *)
   CPeekNext; CInsertBefore (KU64 20) [0];                                                   (* equals the neighbour: rejected *)
   CNext; CRemoveNext; CRemovePrev; CPrev]%N.

Example c18_nonvacuous_script :
  let c := seek_lower key_cmp ex_map (Excluded (KU64 10)) in
  sorted key_cmp (cursor_map c) /\
  fst (m_script key_cmp (fun buf => Nat.leb 2 (length buf)) ex_ops (m_of_cursor c)) =
    [CAccepted true; CAccepted true; CAccepted false; CEntry (Some (KU64 15, [15]));
     CAccepted true; CAccepted true; CAccepted false; CEntry (Some (KU64 16, [16])); CAccepted false;
     CEntry (Some (KU64 16, [16])); CEntry (Some (KU64 18, [18])); CEntry (Some (KU64 16, [16]));
     CEntry (Some (KU64 15, [15]))]%N /\
  m_close (snd (m_script key_cmp (fun buf => Nat.leb 2 (length buf)) ex_ops (m_of_cursor c))) =
    [(KU64 10, [1]); (KU64 12, [12]); (KU64 15, [15]); (KU64 20, [2]); (KU64 30, [3])]%N.
Proof.
  cbv zeta. split; [apply (sortedb_sound key_cmp key_cmp_laws); vm_compute; reflexivity|].
  vm_compute. split; reflexivity.
Qed.

(* packing on a 64-byte page: 7 pairs needing 14 bytes each (4 + 14 n <= 64 admits 4) are cut into 4 + 3 *)
Example c18_nonvacuous_packing :
  let es := List.map (fun n => (KU64 n, [n; n])) [1;2;3;4;5;6;7]%N in
  List.map (fun p => (length (fst p), snd p))
           (replacement_leaves key_size val_size true false 64%N (fun l r : key => l) es (KU64 0)) =
  [(4%nat, KU64 4); (3%nat, KU64 7)].
Proof. vm_compute. reflexivity. Qed.

(* ------------------------------------------------------------------------------------------------
   Tie to the code (Gen/Fns.v is regenerated from btree_base.rs on every run by tools/gen_fns.py): the
   split / merge policies the run packing and the cursor decisions above rely on are equal to the functions
   translated from the Rust sources. *)
From RV Require Import Gen.FnsLib Gen.Fns Gen.FnsBtreeP.

Theorem c18_code_leaf_split_required_is_model : forall n bytes (fk fv : option N) ps,
  Fns.leaf_split_required n bytes fk fv ps = Mutator.leaf_split_required (isSome fk) (isSome fv) ps n bytes.
Proof. exact leaf_split_required_is_model. Qed.

Theorem c18_code_leaf_fits_one_page_is_model : forall n bytes (fk fv : option N) ps,
  Fns.leaf_fits_one_page n bytes fk fv ps = Mutator.leaf_fits (isSome fk) (isSome fv) ps n bytes.
Proof. exact leaf_fits_is_model. Qed.

Theorem c18_code_leaf_below_merge_threshold_is_model : forall n bytes (fk fv : option N) ps,
  Fns.leaf_below_merge_threshold n bytes fk fv ps = Mutator.leaf_below_merge (isSome fk) (isSome fv) ps n bytes.
Proof. exact leaf_below_merge_is_model. Qed.

Theorem c18_code_leaf_required_bytes_is_model : forall n bytes (fk fv : option N),
  RawLeafBuilder_required_bytes n bytes fk fv = Mutator.leaf_required (isSome fk) (isSome fv) n bytes.
Proof. exact leaf_required_is_model. Qed.

Theorem c18_code_leaf_split_division_is_model :
  forall {K V} (ksize : K -> N) (vsize : V -> N) (es : list (K * V)),
  Mutator.division ksize vsize es =
  N.to_nat (LeafBuilder_build_split_clamp
              (N.of_nat (Mutator.split_point ksize vsize es 0 (Mutator.leaf_bytes ksize vsize es / 2)%N))
              (Mutator.nlen es) 65535%N).
Proof. exact @division_is_model. Qed.
