(* C16 -- One write transaction may be used from many threads.
   Statements only; every proof is `exact <lemma>` (Conc/SharedP.v).
   Model Conc/Shared.v: threads run calls on DIFFERENT tables of one write transaction (open, insert, remove,
   close) while other threads call ephemeral_savepoint() and drop Savepoints; a log is any interleaving of their
   sections (the H4 pause points of open_table's set_dirty and of ephemeral_savepoint / Savepoint::drop); the
   `tables` mutex is modelled explicitly, `srun log s = Some s'` means the log is executable.
   Partial: every mutex section is an atomic step, SC memory (the Relaxed tracking flag included); a table
   operation is ONE step (no pause point inside: allocator shards, freed-page lists, striped write buffer are
   outside the model); commit/abort of the shared transaction are covered by C03's model. *)
From Coq Require Import List NArith Relations.
From RV Require Import Conc.Shared Conc.SharedP Conc.Sched Conc.CommitGap Conc.CommitGapP.
Import ListNotations.
Open Scope N_scope.

(* every table ends with exactly its own operations applied in order, whatever else was interleaved *)
Theorem c16_per_table_independent : forall pre log s tb,
  srun log (sinit pre) = Some s -> table_map s tb = spec_table tb log.
Proof. exact per_table_independent. Qed.

(* the same when the tables exist already (what the harness replays): committed contents, then the own stream *)
Theorem c16_per_table_independent_from : forall pre tabs log s tb,
  srun log (sinit_tables pre tabs) = Some s ->
  table_map s tb = spec_table_from (table_map (sinit_tables pre tabs) tb) tb log.
Proof. exact per_table_independent_from. Qed.

Theorem c16_savepoint_tracking_consistent_from : forall pre tabs log s,
  srun log (sinit_tables pre tabs) = Some s -> s_tracking s = false -> s_valid s = [] /\ s_dirty s = true.
Proof. exact savepoint_tracking_consistent_from. Qed.

(* no page in two tables, no page twice in one *)
Theorem c16_no_shared_page : forall pre log s,
  srun log (sinit pre) = Some s ->
  (forall tb, NoDup (table_pages s tb)) /\
  (forall tb tb' p, tb <> tb' -> In p (table_pages s tb) -> ~ In p (table_pages s tb')).
Proof. exact no_shared_page. Qed.

(* allocation tracking is never off while a savepoint is valid, and is switched off only in a dirty transaction *)
Theorem c16_savepoint_tracking_consistent : forall pre log s,
  srun log (sinit pre) = Some s -> s_tracking s = false -> s_valid s = [] /\ s_dirty s = true.
Proof. exact savepoint_tracking_consistent. Qed.

(* between its dirty check and its registration, ephemeral_savepoint() holds the tables mutex and the transaction
   is clean: no first table-open can slip in *)
Theorem c16_savepoint_registration_serialized : forall pre log s t h n,
  srun log (sinit pre) = Some s -> nget t (s_at s) = Some (SSavepoint h, Some n) -> in_esp_critical n = true ->
  s_lock s = Some t /\ s_dirty s = false.
Proof. exact savepoint_registration_serialized. Qed.

(* ---------------------------------------------------------------- non-vacuity *)
(* thread 0 opens table 7 first (no savepoint valid): tracking goes off; thread 1's savepoint is then refused;
   thread 0 and thread 2 work on tables 7 and 8 interleaved *)
Example c16_nonvacuous_open_first :
  exists s, srun [(0, LEnter (SOpen 7)); (1, LEnter (SSavepoint 1)); (0, LSec NSetDirty); (0, LSec NSetDirtyStored);
                  (0, LSec NAnySavepoint); (1, LSec NEsp); (1, LSec NEspLocked);
                  (2, LEnter (SOpen 8)); (2, LSec NSetDirty); (2, LSec NSetDirtyStored); (2, LSec NAnySavepoint);
                  (0, LEnter (SPut 7 5 50)); (2, LEnter (SPut 8 5 51)); (0, LEnter (SPut 7 3 30)); (2, LEnter (SDel 8 5))]%nat
                 (sinit []) = Some s /\
            s_tracking s = false /\ s_valid s = [] /\ table_map s 7 = [(3, 30); (5, 50)] /\ table_map s 8 = [] /\
            table_pages s 7 = [3; 1] /\ table_pages s 8 = [2] /\
            In (1%nat, SSavepoint 1, SErrDirty) (s_results s).
Proof. eexists. vm_compute. repeat split. do 5 right. left. reflexivity. Qed.

(* thread 1's savepoint gets the mutex first: while it is between check and registration thread 0's open_table
   cannot start (no successor state); afterwards the open keeps tracking ON because a savepoint is valid *)
Example c16_nonvacuous_savepoint_first :
  (exists s1, srun [(1, LEnter (SSavepoint 1)); (1, LSec NEsp); (1, LSec NEspLocked); (1, LSec NRegisterRead)]%nat (sinit []) = Some s1 /\
              s_lock s1 = Some 1%nat /\ sstep 0 (LEnter (SOpen 7)) s1 = None) /\
  (exists s, srun [(1, LEnter (SSavepoint 1)); (1, LSec NEsp); (1, LSec NEspLocked); (1, LSec NRegisterRead);
                   (1, LSec NAllocSavepoint); (0, LEnter (SOpen 7)); (0, LSec NSetDirty); (0, LSec NSetDirtyStored);
                   (0, LSec NAnySavepoint); (1, LSec NEspUnlocked)]%nat (sinit []) = Some s /\
             s_tracking s = true /\ s_valid s = [101] /\ s_dirty s = true).
Proof. split; eexists; vm_compute; repeat split. Qed.

(* ================================================================================================================
   The COMMIT of the shared transaction against Savepoint::drop / read transactions on other threads
   (model Conc/CommitGap.v over the generic interleaving semantics Conc/Sched.v; proofs Conc/CommitGapP.v).
   One committer runs the lock-protected sections of durable_commit in code order (free horizon, main free step,
   DATA_ALLOCATED purge returning the savepoint horizon, publication, epilogue horizon CLAMPED to that savepoint
   horizon, epilogue free step, epilogue publication); any number of threads run Savepoint::drop = [invalidate]
   [release pin], begin_read = [register at the published id][re-check], ReadTransaction::drop.
   `gfinal cf sched progs s0` = the state after schedule `sched` (a list of thread indices, one grant = one section).
   `safe s0 s`: DATA_ALLOCATED names allocated pages only (between the main free step and the purge of the same commit,
   both private to the committer: only records the purge is going to remove may name a freed page); no page of a
   DATA_FREED record with key > r has been freed while a read pinned at r is live or a savepoint of transaction r is
   valid; every read transaction a reader thread holds is registered.
   `wf_init s0`: what the earlier commits establish (every pin has an owner, savepoint ids and their transaction ids
   grow together, a page is queued for freeing once and was allocated by an earlier transaction than the one that
   unlinked it, both tables name allocated pages); `wf_init_b` is its checker, evaluated on every initial state the
   harness takes from the implementation.
   Idealisations: each mutex section is one atomic step, SC; SYSTEM_FREED, the allocation of system pages by the commit
   and staged persistent-savepoint deletions are outside the model. *)

(* for EVERY schedule, every number of droppers / readers / records: the final state is safe *)
Theorem c16_epilogue_horizon_safe : forall s0 progs sched,
  wf_init s0 -> safe s0 (gfinal faithful sched progs s0).
Proof. exact epilogue_horizon_safe. Qed.

(* ... and so is every intermediate state (the state after any prefix of the schedule) *)
Theorem c16_epilogue_horizon_safe_prefix : forall s0 progs sched n,
  wf_init s0 -> safe s0 (gfinal faithful (firstn n sched) progs s0).
Proof. exact epilogue_horizon_safe_prefix. Qed.

(* the form used per run: the precondition as an executable check of the implementation's state *)
Theorem c16_epilogue_horizon_safe_checked : forall s0 progs sched,
  wf_init_b s0 = true -> safe s0 (gfinal faithful sched progs s0).
Proof. exact epilogue_horizon_safe_checked. Qed.

(* lock_order_acyclic: over the lock-acquisition chains of the modelled sections (CommitGap.lock_chains: 29 chains over
   9 mutexes, transcribed from the code: tables -> system_tables -> savepoint_state -> freed_pages -> allocated_pages ->
   tracker.state -> unpersisted -> mem.state) the relation "holds a while acquiring b" has no cycle *)
Theorem c16_lock_order_acyclic : forall l, ~ clos_trans lock holds_while_acquiring l l.
Proof. exact lock_order_acyclic. Qed.

(* ---------------------------------------------------------------- non-vacuity and the two seeded variants *)
(* transaction 4 commits; savepoint 1 pins transaction 0; transaction 2 allocated page 10 (DATA_ALLOCATED[2]) and
   transaction 3 unlinked it (DATA_FREED[3]); the committer's own records: DATA_FREED[4] = {11}, DATA_ALLOCATED[4] = {12};
   `held` = pins of read transactions that stay live *)
Definition cg_ex (held : list N) : cst :=
  ginit 4 3 ([0] ++ held) [(1, 0)] [] held [(3, [10]); (4, [11])] [(2, [10]); (4, [12])] [10; 11; 12; 13].
Definition cg_progs : list (list gcall) := [[GCommit]; [GDrop 1 0]; [GBeginRead; GEndRead]].

(* the hypotheses are satisfiable; the savepoint dropped between the purge and the epilogue while a newer read (pinned
   at 3) is live: the clamp holds the epilogue's horizon at 1, nothing is freed, page 10 stays allocated; without the
   drop in the way and without readers the epilogue frees both records *)
Example c16_epilogue_horizon_nonvacuous :
  wf_init_b (cg_ex [3]) = true /\
  (let s := gfinal faithful [0;0;0;0; 1;1;1; 2;2; 0;0;0;0;0;0;0;0;0;0;0;0]%nat cg_progs (cg_ex [3]) in
   g_pc s = 15 /\ g_sph s = Some 0 /\ g_eh s = 1 /\ g_gone_epi s = [] /\ g_alloc s = [(2, [10]); (4, [12])] /\
   g_allocated s = [10; 11; 12; 13] /\ g_valid s = [] /\ g_live s = [3; 3] /\ g_readers s = [(2%nat, 3)]) /\
  (let s := gfinal faithful [1;1;1; 0;0;0;0;0;0;0;0;0;0;0;0;0;0;0;0;0;0]%nat cg_progs (cg_ex []) in
   g_pc s = 15 /\ g_sph s = None /\ g_alloc s = [] /\ g_purged s = [2; 4] /\ g_gone_main s = [(3, [10])] /\
   g_gone_epi s = [(4, [11])] /\ g_allocated s = [12; 13] /\ g_last s = 5 /\ g_live s = [4]).
Proof. vm_compute. repeat split. Qed.

(* seeded bug 1 inside the model: the two sections of Savepoint::drop swapped (pin released first).  The dropper is
   stopped between them; the commit's main free step no longer sees the pin and frees page 10, the purge still sees the
   savepoint and keeps DATA_ALLOCATED[2] = {10}.  The code as it is stays safe under the same schedule. *)
Example c16_drop_order_matters_refuted :
  exists sched,
    wf_init (cg_ex []) /\
    ~ safe (cg_ex []) (gfinal {| swap_drop := true; weak_clamp := false |} sched cg_progs (cg_ex [])) /\
    alloc_ok_b (gfinal faithful sched cg_progs (cg_ex [])) = true.
Proof.
  exists [1; 1; 0; 0; 0; 0]%nat. split; [apply wf_init_b_sound; vm_compute; reflexivity | split; [|vm_compute; reflexivity]].
  intros [H _].
  assert (E : In 10 (g_allocated (gfinal {| swap_drop := true; weak_clamp := false |} [1; 1; 0; 0; 0; 0]%nat cg_progs (cg_ex [])))).
  { apply (H ltac:(vm_compute; discriminate) 2 [10] 10); vm_compute; auto. }
  clear H. vm_compute in E. repeat (destruct E as [E|E]; [discriminate E|]). exact E.
Qed.

(* seeded bug 2 inside the model: the clamp applied only when no read is live.  A read pinned at 3 is live, the savepoint
   is dropped between the purge (horizon 0, DATA_ALLOCATED[2] kept) and the epilogue: the epilogue's horizon is 4, it frees
   DATA_FREED[3] = {10}.  The code as it is stays safe under the same schedule. *)
Example c16_clamp_needed_refuted :
  exists sched,
    wf_init (cg_ex [3]) /\
    ~ safe (cg_ex [3]) (gfinal {| swap_drop := false; weak_clamp := true |} sched cg_progs (cg_ex [3])) /\
    alloc_ok_b (gfinal faithful sched cg_progs (cg_ex [3])) = true.
Proof.
  exists [0; 0; 0; 0; 1; 1; 1; 0; 0; 0; 0; 0; 0; 0]%nat.
  split; [apply wf_init_b_sound; vm_compute; reflexivity | split; [|vm_compute; reflexivity]].
  intros [H _].
  assert (E : In 10 (g_allocated (gfinal {| swap_drop := false; weak_clamp := true |}
                                   [0; 0; 0; 0; 1; 1; 1; 0; 0; 0; 0; 0; 0; 0]%nat cg_progs (cg_ex [3])))).
  { apply (H ltac:(vm_compute; discriminate) 2 [10] 10); vm_compute; auto. }
  clear H. vm_compute in E. repeat (destruct E as [E|E]; [discriminate E|]). exact E.
Qed.
